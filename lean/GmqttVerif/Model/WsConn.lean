/-
  Model of `wsConn` (server/server.go), the adapter that turns a gorilla `*websocket.Conn`
  into the `net.Conn` the packet reader/writer work on.

  ```go
  type wsConn struct { net.Conn; c *websocket.Conn; buf []byte; r int }

  func (ws *wsConn) Read(p []byte) (n int, err error) {
      if ws.buf == nil {
          msgType, buf, err := ws.c.ReadMessage()
          if err != nil { return 0, err }
          if msgType != websocket.BinaryMessage { return 0, ErrInvalWsMsgType }
          ws.buf = buf
      }
      n = copy(p, ws.buf[ws.r:])
      ws.r += n
      if ws.r+1 >= len(ws.buf) { ws.buf = nil; ws.r = 0 }     // <- `slack = 1`  (finding F01)
      return
  }
  func (ws *wsConn) Write(p []byte) (n int, err error) {
      err = ws.c.WriteMessage(websocket.BinaryMessage, p) ...; return len(p), err
  }
  ```

  The reset condition is a parameter `slack` of the model: `slack = 1` is the code as it is
  (`ws.r+1 >= len(ws.buf)`), `slack = 0` is the code with the F01 patch (`ws.r >= len(ws.buf)`).
  The property theorems are about `slack = 0`; `Properties/C18.lean` also proves that the
  statement is false for `slack = 1`.

  The peer is a list of pending data messages (what successive `ReadMessage` calls return);
  an exhausted list means `ReadMessage` fails (connection closed).  `ReadMessage` returns a
  non-nil slice even for an empty message (`io.ReadAll`), hence `buf : Option`.
  Bytes are an arbitrary type `α`.
-/
namespace GmqttVerif.WsConn

/-- a WebSocket data message as returned by `(*websocket.Conn).ReadMessage` -/
inductive Msg (α : Type) where
  | binary (payload : List α)
  | text (payload : List α)
  deriving Repr, DecidableEq

/-- `wsConn.buf` (`none` = nil) and `wsConn.r` -/
structure St (α : Type) where
  buf : Option (List α)
  r   : Nat
  deriving Repr, DecidableEq

def St.init {α : Type} : St α := { buf := none, r := 0 }

/-- `(n, err)` of one `Read`: the bytes copied into `p`, or an error (then `n = 0`) -/
inductive Res (α : Type) where
  | data (chunk : List α)
  | errType            -- ErrInvalWsMsgType
  | eof                -- ReadMessage failed (peer gone)
  deriving Repr, DecidableEq

/-- the part of `Read` after `ws.buf` is known to be non-nil:
    `n = copy(p, ws.buf[ws.r:]); ws.r += n; if ws.r+slack >= len(ws.buf) { reset }` with `len(p) = n` -/
def copyOut {α : Type} (slack : Nat) (b : List α) (r : Nat) (n : Nat) : St α × Res α :=
  let chunk := (b.drop r).take n
  let r' := r + chunk.length
  if r' + slack ≥ b.length then ({ buf := none, r := 0 }, .data chunk)
  else ({ buf := some b, r := r' }, .data chunk)

/-- `wsConn.Read(p)` with `len(p) = n`; `pending` = messages the peer has sent and `ReadMessage` has not returned yet -/
def read {α : Type} (slack : Nat) (st : St α) (pending : List (Msg α)) (n : Nat) :
    St α × List (Msg α) × Res α :=
  match st.buf with
  | none =>
    match pending with
    | [] => (st, [], .eof)
    | .text _ :: rest => (st, rest, .errType)
    | .binary b :: rest =>
      let (st', res) := copyOut slack b st.r n
      (st', rest, res)
  | some b =>
    let (st', res) := copyOut slack b st.r n
    (st', pending, res)

/-- a sequence of `Read` calls with the given buffer sizes; returns the final state, what is still pending, and every result -/
def run {α : Type} (slack : Nat) (st : St α) (pending : List (Msg α)) : List Nat → St α × List (Msg α) × List (Res α)
  | [] => (st, pending, [])
  | n :: ns =>
    let (st1, p1, res) := read slack st pending n
    let (st2, p2, out) := run slack st1 p1 ns
    (st2, p2, res :: out)

/-- `wsConn.Write(p)`: one binary message carrying exactly `p`, returns `len(p)` -/
def write {α : Type} (p : List α) : Msg α × Nat := (.binary p, p.length)

/-- what the peer receives for a sequence of `Write` calls -/
def runWrites {α : Type} (ps : List (List α)) : List (Msg α × Nat) := ps.map write

end GmqttVerif.WsConn
