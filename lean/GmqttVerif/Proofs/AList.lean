import GmqttVerif.Model.AList
/- map laws for the association lists of `Model/AList.lean` and a few list facts (core Lean only) -/
namespace GmqttVerif.AL

variable {κ β : Type} [DecidableEq κ]

@[simp] theorem get_nil (k : κ) : get k ([] : List (κ × β)) = none := rfl

theorem get_cons (k k' : κ) (v : β) (r : List (κ × β)) :
    get k ((k', v) :: r) = if k' = k then some v else get k r := rfl

theorem get_del (k k' : κ) (l : List (κ × β)) :
    get k' (del k l) = if k' = k then none else get k' l := by
  induction l with
  | nil => simp [del, get]
  | cons kv r ih =>
    obtain ⟨a, v⟩ := kv
    unfold del at ih ⊢
    by_cases ha : a = k
    · subst ha
      by_cases h : k' = a
      · subst h; simpa [List.filter_cons] using ih
      · have h' : ¬ a = k' := fun e => h e.symm
        simpa [List.filter_cons, get_cons, h, h'] using ih
    · by_cases h : a = k'
      · subst h; simp [get_cons, ha]
      · simpa [List.filter_cons, get_cons, ha, h] using ih

theorem get_set (k k' : κ) (v : β) (l : List (κ × β)) :
    get k' (set k v l) = if k' = k then some v else get k' l := by
  unfold set
  rw [get_cons, get_del]
  by_cases h : k' = k
  · simp [h]
  · have h' : ¬ k = k' := fun e => h e.symm
    simp [h, h']

theorem get_del_self (k : κ) (l : List (κ × β)) : get k (del k l) = none := by
  rw [get_del]; simp

theorem get_set_self (k : κ) (v : β) (l : List (κ × β)) : get k (set k v l) = some v := by
  rw [get_set]; simp

theorem mem_of_get {k : κ} {v : β} {l : List (κ × β)} (h : get k l = some v) : (k, v) ∈ l := by
  induction l with
  | nil => simp at h
  | cons kv r ih =>
    obtain ⟨a, w⟩ := kv
    rw [get_cons] at h
    by_cases ha : a = k
    · simp [ha] at h; subst ha; subst h; exact List.mem_cons_self
    · simp [ha] at h; exact List.mem_cons_of_mem _ (ih h)

theorem get_none_iff {k : κ} {l : List (κ × β)} : get k l = none ↔ k ∉ keys l := by
  induction l with
  | nil => simp [keys]
  | cons kv r ih =>
    obtain ⟨a, w⟩ := kv
    rw [get_cons]
    by_cases ha : a = k
    · simp [ha, keys]
    · have : ¬ k = a := fun e => ha e.symm
      simp only [ha, ite_false, ih, keys, List.map_cons, List.mem_cons, this, false_or]

/-- no duplicate keys -/
def NodupKeys (l : List (κ × β)) : Prop := (keys l).Nodup

omit [DecidableEq κ] in
theorem nodupKeys_nil : NodupKeys ([] : List (κ × β)) := by simp [NodupKeys, keys]

theorem keys_del (k : κ) (l : List (κ × β)) : keys (del k l) = (keys l).filter (fun a => !decide (a = k)) := by
  unfold keys del
  induction l with
  | nil => rfl
  | cons kv r ih =>
    obtain ⟨a, w⟩ := kv
    by_cases ha : a = k <;> simp [ha, ih]

theorem nodupKeys_del {l : List (κ × β)} (k : κ) (h : NodupKeys l) : NodupKeys (del k l) := by
  unfold NodupKeys at *
  rw [keys_del]
  exact List.Nodup.sublist List.filter_sublist h

theorem nodupKeys_set {l : List (κ × β)} (k : κ) (v : β) (h : NodupKeys l) : NodupKeys (set k v l) := by
  have h2 := nodupKeys_del k h
  unfold NodupKeys set at *
  simp only [keys, List.map_cons, List.nodup_cons]
  refine ⟨?_, h2⟩
  have := keys_del k l
  unfold keys at this
  rw [this]
  simp

theorem get_of_mem {k : κ} {v : β} {l : List (κ × β)} (hn : NodupKeys l) (h : (k, v) ∈ l) : get k l = some v := by
  induction l with
  | nil => simp at h
  | cons kv r ih =>
    obtain ⟨a, w⟩ := kv
    unfold NodupKeys keys at hn
    simp only [List.map_cons, List.nodup_cons] at hn
    rw [get_cons]
    rcases List.mem_cons.mp h with h | h
    · injection h with h1 h2; subst h1; subst h2; simp
    · have hk : k ∈ List.map (·.1) r := List.mem_map.mpr ⟨(k, v), h, rfl⟩
      have ha : ¬ a = k := fun e => hn.1 (e ▸ hk)
      simp only [ha, ite_false]
      exact ih hn.2 h

theorem mem_iff_get {k : κ} {v : β} {l : List (κ × β)} (hn : NodupKeys l) : (k, v) ∈ l ↔ get k l = some v :=
  ⟨get_of_mem hn, mem_of_get⟩

theorem mem_del {k : κ} {x : κ × β} {l : List (κ × β)} : x ∈ del k l ↔ x ∈ l ∧ x.1 ≠ k := by
  simp [del, List.mem_filter]

theorem mem_set {k : κ} {v : β} {x : κ × β} {l : List (κ × β)} : x ∈ set k v l ↔ x = (k, v) ∨ (x ∈ l ∧ x.1 ≠ k) := by
  simp [set, mem_del]

omit [DecidableEq κ] in
theorem nodup_of_nodupKeys {l : List (κ × β)} (h : NodupKeys l) : l.Nodup := by
  unfold NodupKeys keys at h
  induction l with
  | nil => exact List.nodup_nil
  | cons kv r ih =>
    simp only [List.map_cons, List.nodup_cons] at h ⊢
    exact ⟨fun hm => h.1 (List.mem_map.mpr ⟨kv, hm, rfl⟩), ih h.2⟩

theorem del_isEmpty_get {k k' : κ} {l : List (κ × β)} (h : (del k l).isEmpty = true) (hk : k' ≠ k) : get k' l = none := by
  have := get_del k k' l
  rw [List.isEmpty_iff.mp h] at this
  simpa [hk] using this.symm

theorem get_of_isEmpty {k : κ} {l : List (κ × β)} (h : l.isEmpty = true) : get k l = none := by
  rw [List.isEmpty_iff.mp h]; rfl

theorem del_eq_self {k : κ} {l : List (κ × β)} (h : get k l = none) : del k l = l := by
  unfold del
  rw [List.filter_eq_self]
  intro x hx
  have hk := get_none_iff.mp h
  have : x.1 ≠ k := fun e => hk (List.mem_map.mpr ⟨x, hx, e⟩)
  simp [this]

theorem length_del_of_has {k : κ} {l : List (κ × β)} (hn : NodupKeys l) (h : (get k l).isSome = true) :
    (del k l).length + 1 = l.length := by
  induction l with
  | nil => simp at h
  | cons kv r ih =>
    obtain ⟨a, w⟩ := kv
    have hn' : a ∉ keys r ∧ NodupKeys r := by simpa [NodupKeys, keys] using hn
    by_cases ha : a = k
    · subst ha
      have h1 : del a r = r := del_eq_self (get_none_iff.mpr hn'.1)
      have e : del a ((a, w) :: r) = del a r := by simp [del]
      rw [e, h1]; simp
    · have e : del k ((a, w) :: r) = (a, w) :: del k r := by simp [del, ha]
      rw [get_cons] at h
      simp only [ha, ite_false] at h
      rw [e]
      simp only [List.length_cons]
      have := ih hn'.2 h
      omega

end GmqttVerif.AL

namespace GmqttVerif

/-- an injective-on-the-list map keeps `Nodup` -/
theorem nodup_map_of_inj_on {α γ : Type} (f : α → γ) : ∀ (l : List α),
    (∀ a ∈ l, ∀ b ∈ l, f a = f b → a = b) → l.Nodup → (l.map f).Nodup
  | [], _, _ => List.nodup_nil
  | a :: r, hinj, hn => by
    simp only [List.map_cons, List.nodup_cons] at hn ⊢
    refine ⟨?_, nodup_map_of_inj_on f r (fun x hx y hy => hinj x (List.mem_cons_of_mem _ hx) y (List.mem_cons_of_mem _ hy)) hn.2⟩
    intro hm
    obtain ⟨b, hb, hfb⟩ := List.mem_map.mp hm
    have := hinj b (List.mem_cons_of_mem _ hb) a List.mem_cons_self hfb
    exact hn.1 (this ▸ hb)

/-- two duplicate-free lists related by a map that is injective on the second have the same length -/
theorem length_eq_of_image {α γ : Type} (f : α → γ) (l₁ : List γ) (l₂ : List α)
    (h1 : l₁.Nodup) (h2 : l₂.Nodup) (hinj : ∀ a ∈ l₂, ∀ b ∈ l₂, f a = f b → a = b)
    (hmem : ∀ x, x ∈ l₁ ↔ ∃ y ∈ l₂, f y = x) : l₁.length = l₂.length := by
  have hn := nodup_map_of_inj_on f l₂ hinj h2
  have hp : l₁.Perm (l₂.map f) := (List.perm_ext_iff_of_nodup h1 hn).mpr (by
    intro x; rw [hmem, List.mem_map])
  rw [hp.length_eq, List.length_map]

theorem length_filter_add_filter_not {α : Type} (p : α → Bool) (l : List α) :
    (l.filter p).length + (l.filter (fun a => !p a)).length = l.length := by
  induction l with
  | nil => rfl
  | cons a r ih => by_cases h : p a <;> simp [h] <;> omega

end GmqttVerif
