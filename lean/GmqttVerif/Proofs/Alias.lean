import GmqttVerif.Model.AliasFifo
import GmqttVerif.Model.AliasInbound
/-
  Vocabulary and helper lemmas for the outbound half of C13 (topic alias manager + writeLoop rewriting). Core Lean only.
-/
namespace GmqttVerif.Alias

variable {τ : Type} [DecidableEq τ]

/-! ### specification side: the receiver's alias table, MQTT 5.0 §3.3.2.3.4 -/

/-- most recent binding of alias `a` -/
def tabLookup (a : Nat) : List (Nat × τ) → Option τ
  | [] => none
  | (a', t) :: rest => if a' = a then some t else tabLookup a rest

/-- A receiver that announced Topic Alias Maximum `clientMax` processes one PUBLISH:
    no alias → the topic name is used as is (it must be present);
    alias 0 or > maximum → protocol error (`none`);
    alias with a topic name → the mapping is (re)set and the name used;
    alias with a zero-length name → the name bound earlier on this connection, protocol error if there is none.
    Returns the new table and the topic the message is for. -/
def recv (clientMax : Nat) (tab : List (Nat × τ)) (p : Pkt τ) : Option (List (Nat × τ) × τ) :=
  match p.alias with
  | none =>
    match p.topic with
    | some t => some (tab, t)
    | none => none
  | some a =>
    if a = 0 ∨ a > clientMax then none
    else
      match p.topic with
      | some t => some ((a, t) :: tab, t)
      | none =>
        match tabLookup a tab with
        | some t => some (tab, t)
        | none => none

/-- the topics a receiver resolves for a sequence of PUBLISH packets; `none` = it hit a protocol error -/
def recvAll (clientMax : Nat) (tab : List (Nat × τ)) : List (Pkt τ) → Option (List τ)
  | [] => some []
  | p :: ps =>
    match recv clientMax tab p with
    | some (tab', t) => (recvAll clientMax tab' ps).map (t :: ·)
    | none => none

/-! ### association list lemmas -/

theorem lookup_some_mem {k : τ} {a : Nat} : ∀ {l : List (τ × Nat)}, lookup k l = some a → (k, a) ∈ l
  | [], h => by simp [lookup] at h
  | (k', v) :: rest, h => by
    simp only [lookup] at h
    split at h
    · rename_i hk; cases h; subst hk; simp
    · exact List.mem_cons_of_mem _ (lookup_some_mem h)

theorem lookup_none_of_not_mem {k : τ} : ∀ {l : List (τ × Nat)}, k ∉ l.map (·.1) → lookup k l = none
  | [], _ => rfl
  | (k', v) :: rest, h => by
    simp only [List.map_cons, List.mem_cons, not_or] at h
    simp only [lookup]
    rw [if_neg (fun e => h.1 e.symm)]
    exact lookup_none_of_not_mem h.2

theorem not_mem_of_lookup_none {k : τ} : ∀ {l : List (τ × Nat)}, lookup k l = none → k ∉ l.map (·.1)
  | [], _ => by simp
  | (k', v) :: rest, h => by
    simp only [lookup] at h
    split at h
    · cases h
    · rename_i hk
      simp only [List.map_cons, List.mem_cons, not_or]
      exact ⟨fun e => hk e.symm, not_mem_of_lookup_none h⟩

theorem lookup_append (k t : τ) (a : Nat) : ∀ (l : List (τ × Nat)),
    lookup k (l ++ [(t, a)]) = match lookup k l with
      | some v => some v
      | none => if t = k then some a else none
  | [] => by simp [lookup]
  | (k', v) :: rest => by
    simp only [List.cons_append, lookup]
    split
    · rfl
    · exact lookup_append k t a rest

theorem lookup_filter (k ft : τ) : ∀ (l : List (τ × Nat)),
    lookup k (l.filter (fun p => p.1 ≠ ft)) = if k = ft then none else lookup k l
  | [] => by simp [lookup]
  | (k', v) :: rest => by
    have ih := lookup_filter k ft rest
    by_cases h1 : k' = ft
    · subst h1
      simp only [List.filter_cons, ne_eq, not_true_eq_false, decide_false, Bool.false_eq_true, if_false, ih, lookup]
      by_cases h2 : k = k'
      · simp [h2]
      · have : ¬ k' = k := fun e => h2 e.symm
        simp [h2, this]
    · simp only [List.filter_cons, ne_eq, h1, not_false_eq_true, decide_true, if_true, lookup, ih]
      by_cases h2 : k' = k
      · subst h2; simp [h1]
      · simp [h2]

omit [DecidableEq τ] in
theorem tabLookup_cons_ne {a b : Nat} (t : τ) (tab : List (Nat × τ)) (h : b ≠ a) :
    tabLookup a ((b, t) :: tab) = tabLookup a tab := by
  simp [tabLookup, h]

theorem nodup_snoc {β : Type} {l : List β} {a : β} (h : (a :: l).Nodup) : (l ++ [a]).Nodup := by
  rw [List.nodup_cons] at h
  rw [List.nodup_append]
  refine ⟨h.2, by simp, ?_⟩
  intro x hx y hy
  simp only [List.mem_singleton] at hy
  subst hy
  intro e; subst e; exact h.1 hx

/-! ### the invariant tying the manager to the receiver's table -/

/-- reachable states of the manager, together with the table of a receiver that has seen every packet sent so far -/
structure Inv (max : Nat) (q : Fifo τ) (tab : List (Nat × τ)) : Prop where
  hmax   : q.max = max
  len    : q.alias.length ≤ max
  range  : ∀ p ∈ q.alias, 1 ≤ p.2 ∧ p.2 ≤ max
  dense  : q.alias.length < max → ∀ p ∈ q.alias, p.2 ≤ q.alias.length
  nodupA : (q.alias.map (·.2)).Nodup
  nodupT : (q.alias.map (·.1)).Nodup
  index  : ∀ t, lookup t q.index = lookup t q.alias
  table  : ∀ p ∈ q.alias, tabLookup p.2 tab = some p.1

theorem inv_new (max : Nat) : Inv max (Fifo.new max : Fifo τ) ([] : List (Nat × τ)) := by
  constructor <;> simp [Fifo.new, lookup]

/-- one PUBLISH through `writeLoop`: no panic, the alias is in range, the receiver resolves the real topic, invariant kept -/
theorem emit_step {max : Nat} (hmax : max ≤ 65535) (hpos : 0 < max) {q : Fifo τ} {tab : List (Nat × τ)}
    (inv : Inv max q tab) (t : τ) :
    ∃ q' p tab', emit max q t = .ok q' p ∧ (∃ a, p.alias = some a ∧ 1 ≤ a ∧ a ≤ max)
      ∧ recv max tab p = some (tab', t) ∧ Inv max q' tab' := by
  unfold emit
  rw [if_pos hpos]
  unfold Fifo.check
  cases hl : lookup t q.index with
  | some a =>
    have hmem : (t, a) ∈ q.alias := lookup_some_mem (by rw [← inv.index]; exact hl)
    have hr := inv.range _ hmem
    have ht := inv.table _ hmem
    refine ⟨q, ⟨none, some a⟩, tab, rfl, ⟨a, rfl, hr⟩, ?_, inv⟩
    simp only at hr ht
    have h0 : ¬ (a = 0 ∨ a > max) := by omega
    simp [recv, h0, ht]
  | none =>
    have hla : lookup t q.alias = none := by rw [← inv.index]; exact hl
    have hnot := not_mem_of_lookup_none hla
    simp only []
    by_cases hfull : q.alias.length = q.max
    · -- the table is full: the oldest binding is evicted and its alias reused
      rw [if_pos hfull]
      cases hq : q.alias with
      | nil => exfalso; rw [hq] at hfull; have := inv.hmax; simp at hfull; omega
      | cons f rest =>
        obtain ⟨ft, fa⟩ := f
        have hrange := inv.range; have hna := inv.nodupA; have hnt := inv.nodupT
        have hidx := inv.index; have htab := inv.table; have hlen := inv.len
        rw [hq] at hrange hna hnt hidx htab hlen hla hnot
        have hfa := hrange (ft, fa) (by simp)
        simp only at hfa
        have hfa0 : fa ≠ 0 := by omega
        simp only [ne_eq, hfa0, not_false_eq_true, if_true]
        refine ⟨_, _, (fa, t) :: tab, rfl, ⟨fa, rfl, hfa⟩, ?_, ?_⟩
        · have h0 : ¬ (fa = 0 ∨ fa > max) := by omega
          simp [recv, h0]
        · simp only [List.map_cons, List.nodup_cons, List.mem_cons, not_or] at hna hnt hnot
          constructor
          · exact inv.hmax
          · simpa using hlen
          · intro p hp
            simp only [List.mem_append, List.mem_singleton] at hp
            rcases hp with hp | hp
            · exact hrange p (List.mem_cons_of_mem _ hp)
            · subst hp; exact hfa
          · intro hlt
            simp only [List.length_append, List.length_cons, List.length_nil] at hlt
            simp only [List.length_cons] at hlen
            rw [hq] at hfull
            simp only [List.length_cons] at hfull
            have := inv.hmax
            omega
          · simp only [List.map_append, List.map_cons, List.map_nil]
            exact nodup_snoc (List.nodup_cons.mpr hna)
          · simp only [List.map_append, List.map_cons, List.map_nil]
            exact nodup_snoc (List.nodup_cons.mpr ⟨hnot.2, hnt.2⟩)
          · intro k
            simp only [lookup, lookup_append, lookup_filter, hidx k]
            by_cases hkt : t = k
            · subst hkt
              have : lookup t rest = none := lookup_none_of_not_mem hnot.2
              simp [this]
            · by_cases hkf : k = ft
              · subst hkf
                have : lookup k rest = none := lookup_none_of_not_mem hnt.1
                simp [hkt, this]
              · have : ¬ ft = k := fun e => hkf e.symm
                simp only [hkt, hkf, this, if_false]
                cases lookup k rest <;> rfl
          · intro p hp
            simp only [List.mem_append, List.mem_singleton] at hp
            rcases hp with hp | hp
            · have hne : fa ≠ p.2 := by
                intro e
                exact hna.1 (e ▸ List.mem_map_of_mem (f := (·.2)) hp)
              rw [tabLookup_cons_ne _ _ hne]
              exact htab p (List.mem_cons_of_mem _ hp)
            · subst hp; simp [tabLookup]
    · -- room left: the next unused alias number is assigned
      rw [if_neg hfull]
      have hlen := inv.len
      have hm := inv.hmax
      have hlt : q.alias.length < max := by omega
      have hmod : (q.alias.length + 1) % 65536 = q.alias.length + 1 := Nat.mod_eq_of_lt (by omega)
      rw [hmod]
      have hne : q.alias.length + 1 ≠ 0 := by omega
      simp only [ne_eq, hne, not_false_eq_true, if_true]
      refine ⟨_, _, (q.alias.length + 1, t) :: tab, rfl, ⟨_, rfl, by omega, by omega⟩, ?_, ?_⟩
      · simp only [recv, Nat.add_eq_zero_iff, Nat.succ_ne_self, and_false, false_or, gt_iff_lt]
        rw [if_neg (by omega)]
      · have hdense := inv.dense hlt
        constructor
        · exact hm
        · simp only [List.length_append, List.length_cons, List.length_nil]; omega
        · intro p hp
          simp only [List.mem_append, List.mem_singleton] at hp
          rcases hp with hp | hp
          · exact inv.range p hp
          · subst hp; simp only; omega
        · intro _ p hp
          simp only [List.mem_append, List.mem_singleton] at hp
          simp only [List.length_append, List.length_cons, List.length_nil]
          rcases hp with hp | hp
          · have := hdense p hp; omega
          · subst hp; simp
        · simp only [List.map_append, List.map_cons, List.map_nil]
          apply nodup_snoc
          rw [List.nodup_cons]
          refine ⟨?_, inv.nodupA⟩
          intro hmem
          obtain ⟨p, hp, he⟩ := List.mem_map.mp hmem
          have := hdense p hp
          omega
        · simp only [List.map_append, List.map_cons, List.map_nil]
          exact nodup_snoc (List.nodup_cons.mpr ⟨hnot, inv.nodupT⟩)
        · intro k
          simp only [lookup, lookup_append, inv.index k]
          by_cases hkt : t = k
          · subst hkt; simp [hla]
          · simp only [hkt, if_false]
            cases lookup k q.alias <;> rfl
        · intro p hp
          simp only [List.mem_append, List.mem_singleton] at hp
          rcases hp with hp | hp
          · have hne : q.alias.length + 1 ≠ p.2 := by
              have := hdense p hp; omega
            rw [tabLookup_cons_ne _ _ hne]
            exact inv.table p hp
          · subst hp; simp [tabLookup]

/-- a whole connection: no panic, every alias in range, the receiver resolves every message's real topic -/
theorem emitAll_sound {max : Nat} (hmax : max ≤ 65535) (hpos : 0 < max) : ∀ (topics : List τ) (q : Fifo τ)
    (tab : List (Nat × τ)), Inv max q tab →
    ∃ pkts, emitAll max q topics = some pkts
      ∧ (∀ p ∈ pkts, ∃ a, p.alias = some a ∧ 1 ≤ a ∧ a ≤ max)
      ∧ recvAll max tab pkts = some topics := by
  intro topics
  induction topics with
  | nil => intro q tab _; exact ⟨[], rfl, by simp, rfl⟩
  | cons t ts ih =>
    intro q tab inv
    obtain ⟨q', p, tab', he, ha, hr, inv'⟩ := emit_step hmax hpos inv t
    obtain ⟨pkts, hes, has, hrs⟩ := ih q' tab' inv'
    refine ⟨p :: pkts, by simp [emitAll, he, hes], ?_, by simp [recvAll, hr, hrs]⟩
    intro x hx
    simp only [List.mem_cons] at hx
    rcases hx with hx | hx
    · subst hx; exact ha
    · exact has x hx

theorem emitAll_zero (q : Fifo τ) : ∀ (topics : List τ),
    emitAll 0 q topics = some (topics.map (fun t => { topic := some t, alias := none }))
  | [] => rfl
  | t :: ts => by simp [emitAll, emit, emitAll_zero q ts]

omit [DecidableEq τ] in
theorem recvAll_plain (clientMax : Nat) (tab : List (Nat × τ)) : ∀ (topics : List τ),
    recvAll clientMax tab (topics.map (fun t => ({ topic := some t, alias := none } : Pkt τ))) = some topics
  | [] => rfl
  | t :: ts => by simp [recvAll, recv, recvAll_plain clientMax tab ts]

/-! ### inbound: specification as a function of the history of the connection -/

/-- `hist` = the PUBLISH packets accepted so far on this connection, NEWEST FIRST, as (Topic Alias property, topic name).
    The topic most recently bound to alias `a`: the newest packet that carried alias `a` together with a non-empty topic name. -/
def lastBinding (a : Nat) : List (Option Nat × Option τ) → Option τ
  | [] => none
  | (some a', some t) :: rest => if a' = a then some t else lastBinding a rest
  | (some _, none) :: rest => lastBinding a rest
  | (none, _) :: rest => lastBinding a rest

/-- MQTT 5.0 §3.3.2.3.4 for a server that advertised Topic Alias Maximum `max` -/
def expected (max : Nat) (hist : List (Option Nat × Option τ)) (alias : Option Nat) (topic : Option τ) : InRes τ :=
  match alias with
  | none => .ok topic
  | some a =>
    if a = 0 ∨ a > max then .disc 0x94
    else
      match topic with
      | some t => .ok (some t)
      | none =>
        match lastBinding a hist with
        | some t => .ok (some t)
        | none => .disc 0x94

/-- expected outcome of every PUBLISH of a connection, up to and including the first refused one -/
def specIn (max : Nat) (hist : List (Option Nat × Option τ)) : List (Option Nat × Option τ) → List (InRes τ)
  | [] => []
  | (a, t) :: ps =>
    match expected max hist a t with
    | .ok r => .ok r :: specIn max ((a, t) :: hist) ps
    | r => [r]

omit [DecidableEq τ] in
theorem runIn_eq_spec (max : Nat) : ∀ (pubs : List (Option Nat × Option τ)) (st : InSt τ)
    (hist : List (Option Nat × Option τ)), st.serverMax = max → st.size = max + 1 →
    (∀ a, mapperGet a st.mapper = lastBinding a hist) → runIn true st pubs = specIn max hist pubs := by
  intro pubs
  induction pubs with
  | nil => intros; rfl
  | cons p ps ih =>
    intro st hist hm hs hmap
    obtain ⟨alias, topic⟩ := p
    cases alias with
    | none =>
      simp only [runIn, publish, specIn, expected]
      rw [ih st ((none, topic) :: hist) hm hs (by intro a; simp [lastBinding, hmap a])]
    | some a =>
      by_cases h0 : a = 0
      · simp [runIn, publish, specIn, expected, h0]
      · by_cases hgt : a > max
        · simp [runIn, publish, specIn, expected, h0, hm, hgt]
        · have h1 : ¬ (a = 0 ∨ a > max) := by omega
          have h2 : ¬ a > st.serverMax := by omega
          have h3 : ¬ a ≥ st.size := by omega
          cases topic with
          | some t =>
            have e1 : publish true st (some a) (some t) = ({ st with mapper := (a, t) :: st.mapper }, .ok (some t)) := by
              simp [publish, h0, h2, h3]
            have e2 : expected max hist (some a) (some t) = .ok (some t) := by simp [expected, h1]
            simp only [runIn, specIn, e1, e2]
            rw [ih { st with mapper := (a, t) :: st.mapper } ((some a, some t) :: hist) hm hs ?_]
            intro b
            simp only [mapperGet, lastBinding, hmap b]
          | none =>
            cases hb : lastBinding a hist with
            | none =>
              have e1 : publish true st (some a) none = (st, .disc 0x94) := by
                simp [publish, h0, h2, h3, hmap a, hb]
              have e2 : expected max hist (some a) (none : Option τ) = .disc 0x94 := by simp [expected, h1, hb]
              simp only [runIn, specIn, e1, e2]
            | some t =>
              have e1 : publish true st (some a) none = (st, .ok (some t)) := by
                simp [publish, h0, h2, h3, hmap a, hb]
              have e2 : expected max hist (some a) (none : Option τ) = .ok (some t) := by simp [expected, h1, hb]
              simp only [runIn, specIn, e1, e2]
              rw [ih st ((some a, none) :: hist) hm hs (by intro b; simp [lastBinding, hmap b])]

end GmqttVerif.Alias
