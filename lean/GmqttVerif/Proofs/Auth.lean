import GmqttVerif.Model.Auth
/-
  Helper lemmas for C19: the indexer as a finite map, the store invariant, the connect-phase FSM.
-/
namespace GmqttVerif.Auth

/-! ## the indexer as a map -/

def keys (a : Accounts) : List String := a.map (·.1)

/-- what `Load` demands of a password file and what every indexer satisfies: distinct, non-empty user names -/
def WF (a : Accounts) : Prop := (keys a).Nodup ∧ "" ∉ keys a

theorem lookup_none_of_not_mem {a : Accounts} {u : String} (h : u ∉ keys a) : lookup a u = none := by
  induction a with
  | nil => rfl
  | cons p r ih =>
    obtain ⟨k, x⟩ := p
    simp only [keys, List.map_cons, List.mem_cons, not_or] at h
    have hne : ¬ k = u := fun e => h.1 e.symm
    simp only [lookup, hne, if_false]
    exact ih h.2

theorem mem_keys_of_lookup {a : Accounts} {u h : String} (hl : lookup a u = some h) : u ∈ keys a := by
  induction a with
  | nil => simp [lookup] at hl
  | cons p r ih =>
    obtain ⟨k, x⟩ := p
    by_cases e : k = u
    · simp [keys, e]
    · simp only [lookup, e, if_false] at hl
      simp only [keys, List.map_cons, List.mem_cons]
      exact Or.inr (ih hl)

theorem lookup_set_self (a : Accounts) (u h : String) : lookup (set a u h) u = some h := by
  induction a with
  | nil => simp [set, lookup]
  | cons p r ih =>
    obtain ⟨k, x⟩ := p
    by_cases e : k = u
    · simp [set, e, lookup]
    · simp [set, e, lookup, ih]

theorem lookup_set_ne (a : Accounts) {u v : String} (h : String) (hne : v ≠ u) :
    lookup (set a u h) v = lookup a v := by
  induction a with
  | nil =>
    have : ¬ u = v := fun e => hne e.symm
    simp [set, lookup, this]
  | cons p r ih =>
    obtain ⟨k, x⟩ := p
    by_cases e : k = u
    · have : ¬ k = v := fun e' => hne (e'.symm.trans e)
      simp [set, e, lookup]
      subst e
      simp [this]
    · by_cases e2 : k = v
      · subst e2; simp [set, e, lookup]
      · simp [set, e, lookup, e2, ih]

theorem keys_set (a : Accounts) (u h : String) :
    keys (set a u h) = if u ∈ keys a then keys a else keys a ++ [u] := by
  induction a with
  | nil => simp [set, keys]
  | cons p r ih =>
    obtain ⟨k, x⟩ := p
    by_cases e : k = u
    · subst e; simp [set, keys]
    · have e' : ¬ u = k := fun h => e h.symm
      simp only [set, e, if_false]
      simp only [keys, List.map_cons, List.mem_cons, e', false_or] at ih ⊢
      rw [ih]
      split <;> simp [*]

theorem wf_set {a : Accounts} (hw : WF a) {u : String} (hu : u ≠ "") (h : String) : WF (set a u h) := by
  obtain ⟨hnd, hne⟩ := hw
  unfold WF
  rw [keys_set]
  split
  · exact ⟨hnd, hne⟩
  · rename_i hnot
    refine ⟨?_, ?_⟩
    · rw [List.nodup_append]
      refine ⟨hnd, by simp, ?_⟩
      intro x hx y hy
      simp only [List.mem_singleton] at hy
      subst hy
      intro e; subst e; exact hnot hx
    · simp only [List.mem_append, List.mem_singleton, not_or]
      exact ⟨hne, fun e => hu e.symm⟩

theorem keys_remove_sub (a : Accounts) (u : String) : ∀ x, x ∈ keys (remove a u) → x ∈ keys a := by
  induction a with
  | nil => intro x hx; simpa [remove] using hx
  | cons p r ih =>
    obtain ⟨k, y⟩ := p
    intro x hx
    by_cases e : k = u
    · simp only [remove, e, if_true] at hx
      simp only [keys, List.map_cons, List.mem_cons]
      exact Or.inr hx
    · simp only [remove, e, if_false, keys, List.map_cons, List.mem_cons] at hx
      simp only [keys, List.map_cons, List.mem_cons]
      rcases hx with hx | hx
      · exact Or.inl hx
      · exact Or.inr (ih x hx)

theorem nodup_remove {a : Accounts} (hnd : (keys a).Nodup) (u : String) : (keys (remove a u)).Nodup := by
  induction a with
  | nil => simp [remove, keys]
  | cons p r ih =>
    obtain ⟨k, y⟩ := p
    simp only [keys, List.map_cons, List.nodup_cons] at hnd
    by_cases e : k = u
    · simp only [remove, e, if_true]; exact hnd.2
    · simp only [remove, e, if_false, keys, List.map_cons, List.nodup_cons]
      exact ⟨fun hm => hnd.1 (keys_remove_sub r u k hm), ih hnd.2⟩

theorem wf_remove {a : Accounts} (hw : WF a) (u : String) : WF (remove a u) :=
  ⟨nodup_remove hw.1 u, fun hm => hw.2 (keys_remove_sub a u "" hm)⟩

theorem lookup_remove_self {a : Accounts} (hnd : (keys a).Nodup) (u : String) : lookup (remove a u) u = none := by
  induction a with
  | nil => simp [remove, lookup]
  | cons p r ih =>
    obtain ⟨k, y⟩ := p
    simp only [keys, List.map_cons, List.nodup_cons] at hnd
    by_cases e : k = u
    · simp only [remove, e, if_true]
      subst e
      exact lookup_none_of_not_mem hnd.1
    · simp only [remove, e, if_false, lookup]
      exact ih hnd.2

theorem lookup_remove_ne (a : Accounts) {u v : String} (hne : v ≠ u) : lookup (remove a u) v = lookup a v := by
  induction a with
  | nil => simp [remove]
  | cons p r ih =>
    obtain ⟨k, y⟩ := p
    by_cases e : k = u
    · have : ¬ k = v := fun e' => hne (e'.symm.trans e)
      simp [remove, e, lookup]
      subst e
      simp [this]
    · by_cases e2 : k = v
      · subst e2; simp [remove, e, lookup]
      · simp [remove, e, lookup, e2, ih]

/-! ## load ∘ save -/

theorem foldl_set_eq (pre acts : Accounts) (h : (keys (pre ++ acts)).Nodup) :
    acts.foldl (fun ix p => set ix p.1 p.2) pre = pre ++ acts := by
  induction acts generalizing pre with
  | nil => simp
  | cons p r ih =>
    obtain ⟨k, x⟩ := p
    have hk : k ∉ keys pre := by
      simp only [keys, List.map_append, List.map_cons] at h
      rw [List.nodup_append] at h
      intro hm
      exact h.2.2 k hm k (by simp) rfl
    have hset : set pre k x = pre ++ [(k, x)] := by
      clear ih h
      induction pre with
      | nil => simp [set]
      | cons q s ihs =>
        obtain ⟨k', x'⟩ := q
        simp only [keys, List.map_cons, List.mem_cons, not_or] at hk
        have : ¬ k' = k := fun e => hk.1 e.symm
        simp only [set, this, if_false, List.cons_append]
        rw [ihs hk.2]
    simp only [List.foldl_cons, hset]
    have := ih (pre ++ [(k, x)]) (by simpa [List.append_assoc] using h)
    simpa [List.append_assoc] using this

theorem loadInto_eq {acts : Accounts} (h : (keys acts).Nodup) : loadInto acts = acts := by
  have := foldl_set_eq [] acts (by simpa using h)
  simpa [loadInto] using this

theorem loadCheck_ok_aux (seen : List String) (acts : Accounts)
    (hnd : (keys acts).Nodup) (hne : "" ∉ keys acts) (hdis : ∀ x ∈ keys acts, x ∉ seen) :
    loadCheck seen acts = .ok := by
  induction acts generalizing seen with
  | nil => rfl
  | cons p r ih =>
    obtain ⟨k, x⟩ := p
    simp only [keys, List.map_cons, List.nodup_cons, List.mem_cons, not_or] at hnd hne
    have h1 : ¬ k = "" := fun e => hne.1 e.symm
    have h2 : k ∉ seen := hdis k (by simp [keys])
    simp only [loadCheck, h1, if_false, h2]
    apply ih _ hnd.2 hne.2
    intro y hy
    simp only [List.mem_cons, not_or]
    refine ⟨fun e => hnd.1 (e ▸ hy), hdis y (by simp only [keys, List.map_cons, List.mem_cons]; exact Or.inr hy)⟩

theorem loadCheck_ok {acts : Accounts} (hw : WF acts) : loadCheck [] acts = .ok :=
  loadCheck_ok_aux [] acts hw.1 hw.2 (by simp)

/-! ## the store invariant -/

/-- the indexer is a well-formed map, the password file is one file, and it holds the same accounts -/
structure Inv (s : Store) : Prop where
  idx : WF s.idx
  file : WF s.loadFile
  same : s.same = true
  agree : ∀ u, lookup s.loadFile u = lookup s.idx u

/-- the abstract account map -/
abbrev AMap := String → Option String

def absStep (c : Crypto) (alg : Alg) (m : AMap) : Op → AMap
  | .update u p ok =>
    if u = "" then m else
    match c.gen alg p with
    | none => m
    | some h => if ok then (fun v => if v = u then some h else m v) else m
  | .delete u ok => if u = "" then m else if ok then (fun v => if v = u then none else m v) else m
  | .restart => m

def absRun (c : Crypto) (alg : Alg) (m : AMap) (ops : List Op) : AMap := ops.foldl (absStep c alg) m

theorem step_refines (c : Crypto) (alg : Alg) (s : Store) (hi : Inv s) (op : Op) :
    Inv (s.step c alg op) ∧ ∀ u, lookup (s.step c alg op).idx u = absStep c alg (lookup s.idx) op u := by
  obtain ⟨hidx, hfile, hsame, hagree⟩ := hi
  cases op with
  | update u p ok =>
    simp only [Store.step, Store.update, absStep]
    by_cases hu : u = ""
    · simp only [hu, if_true]; exact ⟨⟨hidx, hfile, hsame, hagree⟩, by first | (intro _; rfl) | simp⟩
    · simp only [hu, if_false]
      cases hg : c.gen alg p with
      | none => exact ⟨⟨hidx, hfile, hsame, hagree⟩, by first | (intro _; rfl) | simp⟩
      | some h =>
        cases ok with
        | true =>
          simp only [if_true, Store.save, hsame]
          refine ⟨⟨wf_set hidx hu h, wf_set hidx hu h, by simp, by first | (intro _; rfl) | simp⟩, ?_⟩
          intro v
          by_cases e : v = u
          · subst e; simp [lookup_set_self]
          · simp [e, lookup_set_ne _ _ e]
        | false =>
          simp only [Bool.false_eq_true, if_false]
          cases ho : lookup s.idx u with
          | none =>
            refine ⟨⟨wf_remove (wf_set hidx hu h) u, hfile, hsame, ?_⟩, ?_⟩
            · intro v
              by_cases e : v = u
              · subst e
                rw [lookup_remove_self (wf_set hidx hu h).1, hagree, ho]
              · rw [lookup_remove_ne _ e, lookup_set_ne _ _ e, hagree]
            · intro v
              by_cases e : v = u
              · subst e
                rw [lookup_remove_self (wf_set hidx hu h).1, ho]
              · rw [lookup_remove_ne _ e, lookup_set_ne _ _ e]
          | some oh =>
            refine ⟨⟨wf_set (wf_set hidx hu h) hu oh, hfile, hsame, ?_⟩, ?_⟩
            · intro v
              by_cases e : v = u
              · subst e
                rw [lookup_set_self, hagree, ho]
              · rw [lookup_set_ne _ _ e, lookup_set_ne _ _ e, hagree]
            · intro v
              by_cases e : v = u
              · subst e
                rw [lookup_set_self, ho]
              · rw [lookup_set_ne _ _ e, lookup_set_ne _ _ e]
  | delete u ok =>
    simp only [Store.step, Store.delete, absStep]
    by_cases hu : u = ""
    · simp only [hu, if_true]; exact ⟨⟨hidx, hfile, hsame, hagree⟩, by first | (intro _; rfl) | simp⟩
    · simp only [hu, if_false]
      cases ho : lookup s.idx u with
      | none =>
        refine ⟨⟨hidx, hfile, hsame, hagree⟩, ?_⟩
        intro v
        cases ok with
        | true =>
          simp only [if_true]
          by_cases e : v = u
          · subst e; simp [ho]
          · simp [e]
        | false => simp
      | some oh =>
        cases ok with
        | true =>
          simp only [if_true, Store.save, hsame]
          refine ⟨⟨wf_remove hidx u, wf_remove hidx u, by simp, by first | (intro _; rfl) | simp⟩, ?_⟩
          intro v
          by_cases e : v = u
          · subst e; simp [lookup_remove_self hidx.1]
          · simp [e, lookup_remove_ne _ e]
        | false =>
          simp only [Bool.false_eq_true, if_false]
          refine ⟨⟨wf_set (wf_remove hidx u) hu oh, hfile, hsame, ?_⟩, ?_⟩
          · intro v
            by_cases e : v = u
            · subst e
              rw [lookup_set_self, hagree, ho]
            · rw [lookup_set_ne _ _ e, lookup_remove_ne _ e, hagree]
          · intro v
            by_cases e : v = u
            · subst e
              rw [lookup_set_self, ho]
            · rw [lookup_set_ne _ _ e, lookup_remove_ne _ e]
  | restart =>
    simp only [Store.step, Store.restart, absStep, loadCheck_ok hfile, loadInto_eq hfile.1]
    exact ⟨⟨hfile, hfile, hsame, by first | (intro _; rfl) | simp⟩, hagree⟩

theorem run_refines (c : Crypto) (alg : Alg) (ops : List Op) (s : Store) (hi : Inv s) :
    Inv (s.run c alg ops) ∧ ∀ u, lookup (s.run c alg ops).idx u = absRun c alg (lookup s.idx) ops u := by
  induction ops generalizing s with
  | nil => exact ⟨hi, by first | (intro _; rfl) | simp⟩
  | cons op r ih =>
    have h1 := step_refines c alg s hi op
    have h2 := ih (s.step c alg op) h1.1
    refine ⟨by simpa [Store.run] using h2.1, ?_⟩
    intro u
    have h3 := h2.2 u
    simp only [Store.run, List.foldl_cons, absRun] at h3 ⊢
    rw [h3]
    have : (lookup (s.step c alg op).idx) = absStep c alg (lookup s.idx) op := funext h1.2
    rw [this]

/-! ## connectHandler: the two authentication branches -/

/-- For a decodable CONNECT exactly one of the two `if`s of `connectHandler` is taken — whatever the Authentication
    Method property is: absent (`none`), present and empty (`some ""`), present and non-empty. -/
theorem branches_partition (p : ConnectPkt) (hv : p.v = 3 ∨ p.v = 4 ∨ p.v = 5) (hv3 : p.v ≠ 5 → p.authMethod = none) :
    basicBranch p = !enhancedBranch p := by
  unfold basicBranch enhancedBranch
  rcases hv with h | h | h
  · have := hv3 (by omega); simp [h, this, isV3]
  · have := hv3 (by omega); simp [h, this, isV3]
  · cases hm : p.authMethod <;> simp [h, isV3]

theorem connectHandler_of_basic (cfg : Cfg) (p : ConnectPkt) (hz : (!cfg.allowZeroLenCid && p.cidEmpty) = false)
    (hb : basicBranch p = true) (he : enhancedBranch p = false) : connectHandler cfg p = basicAuth cfg p := by
  simp [connectHandler, hz, hb, he]

theorem connectHandler_of_enhanced (cfg : Cfg) (p : ConnectPkt) (hz : (!cfg.allowZeroLenCid && p.cidEmpty) = false)
    (he : enhancedBranch p = true) : connectHandler cfg p = enhancedAuth cfg p := by
  simp [connectHandler, hz, he]

/-! ## the connect-phase FSM -/

def Eff.quiet : Eff → Bool
  | .statMsg _ => true
  | .statPkt => true
  | .closeSocket => true
  | _ => false

theorem readLoopPre_quiet (c : Conn) (p : Pkt) : ∀ e ∈ (readLoopPre c p).1, e.quiet = true := by
  intro e he
  cases p <;> simp [readLoopPre] at he
  case publish q =>
    split at he <;> simp at he <;> subst he <;> rfl

theorem rejectedStep_effs (c : Conn) (p : Pkt) : ∀ e ∈ (rejectedStep c p).2, e.quiet = true := by
  intro e he
  unfold rejectedStep at he
  by_cases h1 : p = .timeout
  · simp [h1] at he
  · by_cases h2 : c.phase = .rejected
    · by_cases h3 : p = .hangup
      · simp [h3, h2] at he; subst he; rfl
      · have hq := readLoopPre_quiet c p
        simp only [beq_iff_eq, h1, if_false, h2, bne_self_eq_false, Bool.false_eq_true, h3] at he
        generalize hr : readLoopPre c p = r at he hq
        obtain ⟨effs, go⟩ := r
        cases go with
        | false =>
          simp at he
          rcases he with he | he
          · exact hq e he
          · subst he; rfl
        | true =>
          by_cases hb : c.buffered < 8
          · simp [hb] at he
            rcases he with he | he
            · exact hq e he
            · subst he; rfl
          · simp [hb] at he
            rcases he with he | he
            · exact hq e he
            · subst he; rfl
    · simp [h1, h2] at he

theorem rejectedStep_phase (c : Conn) (p : Pkt) (h : c.phase = .rejected) :
    (rejectedStep c p).1.phase = .rejected ∨ (rejectedStep c p).1.phase = .closed := by
  unfold rejectedStep
  by_cases h1 : p = .timeout
  · simp [h1, h]
  · by_cases h3 : p = .hangup
    · simp [h3, h]
    · simp only [beq_iff_eq, h1, if_false, h, bne_self_eq_false, Bool.false_eq_true, h3]
      generalize readLoopPre c p = r
      obtain ⟨effs, go⟩ := r
      cases go with
      | false => simp
      | true =>
        by_cases hb : c.buffered < 8
        · simp [hb, h]
        · simp [hb]

/-- the server ends a rejected connection itself -/
theorem rejected_hangup (c : Conn) (h : c.phase = .rejected) :
    rejectedStep c .hangup = ({ c with phase := .closed }, [.closeSocket]) := by
  simp [rejectedStep, h]

theorem quiet_not_touch {e : Eff} (h : e.quiet = true) : e.touchesBroker = false := by
  cases e <;> simp [Eff.quiet] at h <;> rfl

theorem rejectedRun_effs (c : Conn) (ps : List Pkt) : ∀ e ∈ (rejectedRun c ps).2, e.quiet = true := by
  induction ps generalizing c with
  | nil => intro e he; simp [rejectedRun] at he
  | cons p r ih =>
    intro e he
    simp only [rejectedRun, List.mem_append] at he
    rcases he with he | he
    · exact rejectedStep_effs c p e he
    · exact ih _ e he

theorem rejectedRun_phase (c : Conn) (ps : List Pkt) (h : c.phase = .rejected ∨ c.phase = .closed) :
    (rejectedRun c ps).1.phase = .rejected ∨ (rejectedRun c ps).1.phase = .closed := by
  induction ps generalizing c with
  | nil => simpa [rejectedRun] using h
  | cons p r ih =>
    simp only [rejectedRun]
    apply ih
    rcases h with h | h
    · exact rejectedStep_phase c p h
    · right
      unfold rejectedStep
      by_cases h1 : p = .timeout
      · simp [h1, h]
      · simp [h1, h]

/-- a result whose broker-touching effects occur only together with the transition to `accepted` -/
def OnlyAccept (r : Conn × List Eff) : Prop := ∀ e ∈ r.2, e.touchesBroker = true → r.1.phase = .accepted

theorem connectLoop_onlyAccept (cfg : Cfg) (c : Conn) (p : Pkt) : OnlyAccept (connectLoop cfg c p) := by
  unfold connectLoop
  repeat' split
  all_goals simp [OnlyAccept, errConnack, Eff.touchesBroker]

theorem append_onlyAccept {c' : Conn} {e1 e2 : List Eff} (h1 : ∀ e ∈ e1, e.touchesBroker = false)
    (h2 : OnlyAccept (c', e2)) : OnlyAccept (c', e1 ++ e2) := by
  intro e he ht
  simp only [List.mem_append] at he
  rcases he with he | he
  · rw [h1 e he] at ht; cases ht
  · exact h2 e he ht

theorem step_onlyAccept (cfg : Cfg) (c : Conn) (p : Pkt) : OnlyAccept (step cfg c p) := by
  have hpre : ∀ e ∈ (readLoopPre c p).1, e.touchesBroker = false :=
    fun e he => quiet_not_touch (readLoopPre_quiet c p e he)
  unfold step
  split
  · simp [OnlyAccept]
  · simp [OnlyAccept]
  · intro e he ht
    rw [quiet_not_touch (rejectedStep_effs c p e he)] at ht; cases ht
  · -- awaitAuth
    split
    · simp [OnlyAccept]
    split
    · intro e he ht
      simp only [List.mem_append, List.mem_singleton] at he
      rcases he with (he | he) | he
      · simp [connectLoop] at he
      · subst he; simp [Eff.touchesBroker] at ht
      · rw [quiet_not_touch (rejectedRun_effs _ _ e he)] at ht; cases ht
    · split
      · simp [OnlyAccept]
      · generalize hr : readLoopPre c p = r at hpre
        obtain ⟨effs, go⟩ := r
        cases go with
        | false =>
          intro e he ht
          simp only [Bool.not_false, if_true, List.mem_append, List.mem_singleton] at he
          rcases he with he | he
          · rw [hpre e he] at ht; cases ht
          · subst he; simp [Eff.touchesBroker] at ht
        | true =>
          simp only [Bool.not_true, Bool.false_eq_true, if_false]
          exact append_onlyAccept hpre (connectLoop_onlyAccept cfg c p)
  · -- awaitConnect
    split
    · simp [OnlyAccept]
    split
    · exact connectLoop_onlyAccept cfg c p
    · generalize hr : readLoopPre c p = r at hpre
      obtain ⟨effs, go⟩ := r
      cases go with
      | false =>
        intro e he ht
        simp only [Bool.not_false, if_true, List.mem_append, List.mem_singleton] at he
        rcases he with he | he
        · rw [hpre e he] at ht; cases ht
        · subst he; simp [Eff.touchesBroker] at ht
      | true =>
        simp only [Bool.not_true, Bool.false_eq_true, if_false]
        exact append_onlyAccept hpre (connectLoop_onlyAccept cfg c p)

theorem step_effs_nil_of_done (cfg : Cfg) (c : Conn) (p : Pkt) (h : c.phase = .accepted ∨ c.phase = .closed) :
    step cfg c p = (c, []) := by
  rcases h with h | h <;> simp [step, h]

theorem step_accepted_stays (cfg : Cfg) (c : Conn) (p : Pkt) (h : c.phase = .accepted) :
    (step cfg c p).1.phase = .accepted := by
  rw [step_effs_nil_of_done cfg c p (Or.inl h)]; exact h

end GmqttVerif.Auth
