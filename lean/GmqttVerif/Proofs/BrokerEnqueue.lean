import GmqttVerif.Proofs.Session
/-
  Helper lemmas about `B.enqueue` / `B.deliverMsg` / `B.sendWill` / `B.terminateS` of the wire-level broker model:
  the queue element `enqueue` builds, and what these functions leave alone (used by C03Broker, C04Broker, C08, C12).
-/
namespace GmqttVerif.Broker
open GmqttVerif.Deliver

/-- the lifetime (s) of a message whose publisher asked for `orig` seconds (0 = no expiry) on a broker whose
    `maximum_message_expiry` is `cfgMax` seconds (0 = no limit): the smaller of the two when both are set, the one
    that is set when only one is, unlimited (`none`) when neither is -/
def lifetime (orig cfgMax : Nat) : Option Nat :=
  if orig = 0 then (if cfgMax = 0 then none else some cfgMax)
  else if cfgMax = 0 then some orig else some (min orig cfgMax)

/-- the protocol version `enqueue` computes sizes for -/
def B.enqV (b : B) (cid : String) (s : Sess) : Nat :=
  match b.cliOf? cid with | some c => c.v | none => s.queue.limit * 0 + 4

/-- the expiry stamp `addMsgToQueueLocked` computes -/
def B.enqExp (b : B) (m : Msg) : Option Nat :=
  if b.cfg.msgExpiry != 0 then
    (if m.expiry != 0 && m.expiry ≤ b.cfg.msgExpiry then some (b.now + m.expiry * 1000)
     else some (b.now + b.cfg.msgExpiry * 1000))
  else if m.expiry != 0 then some (b.now + m.expiry * 1000) else none

/-- the queue element `enqueue` builds for the copy `m` -/
def B.enqElem (b : B) (cid : String) (s : Sess) (m : Msg) : Queue.Elem :=
  { tag := b.msgs.length, pub := true, id := 0, qos := m.qos, exp := b.enqExp m, size := totalBytes (b.enqV cid s) m }

/-- `enqueue` refuses a QoS 0 message for an offline client when `queue_qos0_messages` is off -/
def B.enqRefuse (b : B) (cid : String) (origQos : Nat) : Bool :=
  !b.cfg.queueQos0 && (b.cliOf? cid).isNone && origQos == 0

theorem enqueue_none (b : B) (cid : String) (q : Nat) (m : Msg) (h : b.sess? cid = none) : b.enqueue cid q m = b := by
  unfold B.enqueue; simp only [h]

theorem enqueue_some (b : B) (cid : String) (q : Nat) (m : Msg) (s : Sess) (h : b.sess? cid = some s) :
    b.enqueue cid q m =
      if b.enqRefuse cid q then b
      else { (b.setSess { s with queue := (s.queue.add b.now (b.enqElem cid s m)).1 }) with
             msgs := b.msgs ++ [m], ats := b.ats ++ [b.now] } := by
  unfold B.enqueue; simp only [h]; rfl

/-! ### what publishing leaves alone -/

/-- `b'` differs from `b` by enqueued messages only: session queues, the message log and its time stamps -/
structure Enq (b b' : B) : Prop where
  grow : Grow b b'
  retained : b'.retained = b.retained
  pendingWills : b'.pendingWills = b.pendingWills
  sess : ∀ s' ∈ b'.sessions, ∃ s ∈ b.sessions, s' = { s with queue := s'.queue }
  sessNone : ∀ cid, b.sess? cid = none → b'.sess? cid = none
  sessOf : ∀ cid s, b.sess? cid = some s → ∃ s', b'.sess? cid = some s' ∧ s' = { s with queue := s'.queue }

theorem Enq.refl (b : B) : Enq b b :=
  ⟨Grow.refl b, rfl, rfl, fun s hs => ⟨s, hs, rfl⟩, fun _ h => h, fun _ s h => ⟨s, h, rfl⟩⟩

theorem Enq.trans {a b c : B} (h1 : Enq a b) (h2 : Enq b c) : Enq a c := by
  refine ⟨h1.grow.trans h2.grow, h2.retained.trans h1.retained, h2.pendingWills.trans h1.pendingWills, ?_,
    fun cid h => h2.sessNone cid (h1.sessNone cid h), ?_⟩
  · intro s'' hs''
    obtain ⟨s', hs', e2⟩ := h2.sess s'' hs''
    obtain ⟨s, hs, e1⟩ := h1.sess s' hs'
    refine ⟨s, hs, ?_⟩
    rw [e2, e1]
  · intro cid s hs
    obtain ⟨s', hs', e1⟩ := h1.sessOf cid s hs
    obtain ⟨s'', hs'', e2⟩ := h2.sessOf cid s' hs'
    refine ⟨s'', hs'', ?_⟩
    rw [e2, e1]

theorem mem_setSess' {b : B} {s x : Sess} (h : x ∈ (b.setSess s).sessions) :
    x = s ∨ (x ∈ b.sessions ∧ x.cid ≠ s.cid) := by
  simp only [B.setSess, List.mem_cons, List.mem_filter] at h
  rcases h with h | h
  · exact .inl h
  · exact .inr ⟨h.1, by simpa using h.2⟩

theorem enq_enqueue (b : B) (cid : String) (q : Nat) (m : Msg) : Enq b (b.enqueue cid q m) := by
  cases hs : b.sess? cid with
  | none => rw [enqueue_none b cid q m hs]; exact Enq.refl b
  | some s =>
    rw [enqueue_some b cid q m s hs]
    split
    · exact Enq.refl b
    · refine ⟨(grow_setSess b _).trans (grow_msgs_ats _ _ _), rfl, rfl, ?_, ?_, ?_⟩
      · intro s' hs'
        rcases mem_setSess (b := b) hs' with rfl | h
        · exact ⟨s, (sess?_some hs).1, rfl⟩
        · exact ⟨s', h, rfl⟩
      · intro c hc
        have := enqueue_sess_none b cid q m c hc
        rw [enqueue_some b cid q m s hs] at this
        simpa [*] using this
      · intro c x hx
        show ∃ s', (b.setSess _).sess? c = some s' ∧ _
        rw [sess?_setSess]
        by_cases hcc : s.cid = c
        · have : x = s := by
            rw [← hcc, (sess?_some hs).2, hs] at hx; exact (Option.some.inj hx).symm
          rw [if_pos hcc, this]
          exact ⟨_, rfl, rfl⟩
        · rw [if_neg hcc]
          exact ⟨x, hx, rfl⟩

theorem enq_foldl {α : Type} (f : B → α → B) (hf : ∀ b a, Enq b (f b a)) (l : List α) (b : B) :
    Enq b (l.foldl f b) := by
  induction l generalizing b with
  | nil => exact Enq.refl b
  | cons x xs ih => exact (hf b x).trans (ih _)

theorem enq_deliverMsg (b : B) (src : String) (m : Msg) (hints : List Nat) (rap : List String) :
    Enq b (b.deliverMsg src m hints rap).1 := by
  simp only [B.deliverMsg]
  exact enq_foldl _ (fun b a => enq_enqueue b _ _ _) _ _

/-- the retained-store update of `sendWillLocked` -/
def B.willRetain (b : B) (m : Msg) : B :=
  if m.retained then
    (if m.plen == 0 then { b with retained := b.retained.filter (·.1 != m.topic) }
     else { b with retained := (m.topic, m) :: b.retained.filter (·.1 != m.topic) })
  else b

theorem sendWill_eq (b : B) (cid : String) (m : Msg) : b.sendWill cid m = ((b.willRetain m).deliverMsg cid m []).1 := rfl

end GmqttVerif.Broker
