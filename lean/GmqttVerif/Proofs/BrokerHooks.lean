import GmqttVerif.Model.BrokerHooks
/- helper lemmas for C14: lookups, frame facts of the broker-model steps used by the verdict theorems -/
namespace GmqttVerif.BrokerHooks
open GmqttVerif.Deliver GmqttVerif.Broker

/-! ### association lists (self-contained; the C05 lemma files are being reworked) -/

theorem find?_filter_ne' {α : Type} (k : α → String) (a c : String) (h : a ≠ c) (l : List α) :
    (l.filter (fun x => k x != a)).find? (fun x => k x == c) = l.find? (fun x => k x == c) := by
  induction l with
  | nil => rfl
  | cons x xs ih =>
    by_cases hx : k x = a
    · have h1 : (k x != a) = false := by simp [hx]
      have h2 : (k x == c) = false := by simp [hx, h]
      rw [List.filter_cons, List.find?_cons]
      simp only [h1, h2, Bool.false_eq_true, if_false]
      exact ih
    · have h1 : (k x != a) = true := by simp [hx]
      rw [List.filter_cons]
      simp only [h1, if_true, List.find?_cons, ih]

theorem sess?_setSess' (b : B) (s : Sess) (cid : String) :
    (b.setSess s).sess? cid = if s.cid = cid then some s else b.sess? cid := by
  unfold B.sess? B.setSess
  by_cases h : s.cid = cid
  · simp [h]
  · have h' : (s.cid == cid) = false := by simpa using h
    simp only [List.find?_cons, h', h, if_false]
    exact find?_filter_ne' (fun (s : Sess) => s.cid) s.cid cid h b.sessions

/-- the queue of every session, by client id -/
def queueOf (b : B) (cid : String) : Option Queue.Q := (b.sess? cid).map (·.queue)

theorem queueOf_setSess {b : B} {s s0 : Sess} (h0 : b.sess? s.cid = some s0) (hq : s.queue = s0.queue) (cid : String) :
    queueOf (b.setSess s) cid = queueOf b cid := by
  unfold queueOf
  rw [sess?_setSess']
  by_cases h : s.cid = cid
  · subst h; simp [h0, hq]
  · simp [h]

@[simp] theorem queueOf_emit (b : B) (conn : String) (poll : Bool) (p : Pkt) (cid : String) :
    queueOf (b.emit conn poll p) cid = queueOf b cid := rfl

@[simp] theorem queueOf_setCli (b : B) (c : Cli) (cid : String) : queueOf (b.setCli c) cid = queueOf b cid := rfl

/-! ### what `enqueue` / `deliverMsg` leave alone -/

theorem foldl_inv {α β : Type} (f : B → α → B) (inv : B → β) (h : ∀ b a, inv (f b a) = inv b) (l : List α) (b : B) :
    inv (l.foldl f b) = inv b := by
  induction l generalizing b with
  | nil => rfl
  | cons x xs ih => rw [List.foldl_cons, ih, h]

theorem enqueue_retained (b : B) (cid : String) (q : Nat) (m : Msg) : (b.enqueue cid q m).retained = b.retained := by
  unfold B.enqueue
  split
  · rfl
  · split <;> rfl

theorem enqueue_subs (b : B) (cid : String) (q : Nat) (m : Msg) : (b.enqueue cid q m).subs = b.subs := by
  unfold B.enqueue
  split
  · rfl
  · split <;> rfl

theorem deliverMsg_retained (b : B) (src : String) (m : Msg) (hints : List Nat) (rap : List String) :
    (b.deliverMsg src m hints rap).1.retained = b.retained := by
  simp only [B.deliverMsg]
  exact foldl_inv _ (·.retained) (fun b a => enqueue_retained b _ _ _) _ _

theorem deliverMsg_subs (b : B) (src : String) (m : Msg) (hints : List Nat) (rap : List String) :
    (b.deliverMsg src m hints rap).1.subs = b.subs := by
  simp only [B.deliverMsg]
  exact foldl_inv _ (·.subs) (fun b a => enqueue_subs b _ _ _) _ _

/-! ### SUBACK / UNSUBACK merging -/

theorem mergeCodes_none (names : List String) (f : Nat → Nat) (cs : List Nat) :
    mergeCodes names (fun _ => none) f cs = cs := by
  induction names generalizing cs with
  | nil => rfl
  | cons n ns ih =>
    cases cs with
    | nil => simp only [mergeCodes]; exact ih []
    | cons c cs' =>
      simp only [mergeCodes]
      rw [ih cs']

theorem mergeCodes_length (names : List String) (rej : String → Option Nat) (f : Nat → Nat) (cs : List Nat)
    (hlen : cs.length = (names.filter (fun n => (rej n).isNone)).length) :
    (mergeCodes names rej f cs).length = names.length := by
  induction names generalizing cs with
  | nil => simpa [mergeCodes] using hlen
  | cons n ns ih =>
    simp only [mergeCodes]
    cases hr : rej n with
    | some code =>
      simp only [List.length_cons]
      rw [ih cs (by simpa [List.filter_cons, hr] using hlen)]
    | none =>
      cases cs with
      | nil => simp [hr] at hlen
      | cons c cs' =>
        simp only [List.length_cons]
        rw [ih cs' (by simpa [List.filter_cons, hr] using hlen)]

/-- every position a hook rejected reports the hook's code (through `f`: the v3 mapping) -/
theorem mergeCodes_rejected (names : List String) (rej : String → Option Nat) (f : Nat → Nat) (cs : List Nat)
    (hlen : cs.length = (names.filter (fun n => (rej n).isNone)).length)
    (i : Nat) (n : String) (code : Nat) (hi : names[i]? = some n) (hr : rej n = some code) :
    (mergeCodes names rej f cs)[i]? = some (f code) := by
  induction names generalizing cs i with
  | nil => simp at hi
  | cons x xs ih =>
    simp only [mergeCodes]
    cases hx : rej x with
    | some c' =>
      have hlen' : cs.length = (xs.filter (fun n => (rej n).isNone)).length := by
        simpa [List.filter_cons, hx] using hlen
      cases i with
      | zero =>
        simp only [List.getElem?_cons_zero, Option.some.injEq] at hi
        subst hi
        simp_all
      | succ j =>
        simp only [List.getElem?_cons_succ] at hi
        simpa using ih cs hlen' j hi
    | none =>
      cases cs with
      | nil => simp [hx] at hlen
      | cons c cs' =>
        have hlen' : cs'.length = (xs.filter (fun n => (rej n).isNone)).length := by
          simpa [List.filter_cons, hx] using hlen
        cases i with
        | zero =>
          simp only [List.getElem?_cons_zero, Option.some.injEq] at hi
          subst hi
          simp_all
        | succ j =>
          simp only [List.getElem?_cons_succ] at hi
          simpa using ih cs' hlen' j hi

/-- the positions the hook let through carry, in order, what the handler reported for the remaining topics -/
theorem mergeCodes_accepted (names : List String) (rej : String → Option Nat) (f : Nat → Nat) (cs : List Nat)
    (hlen : cs.length = (names.filter (fun n => (rej n).isNone)).length) :
    ((names.zip (mergeCodes names rej f cs)).filter (fun p => (rej p.1).isNone)).map (·.2) = cs := by
  induction names generalizing cs with
  | nil => cases cs with
    | nil => rfl
    | cons _ _ => simp at hlen
  | cons n ns ih =>
    simp only [mergeCodes]
    cases hr : rej n with
    | some code =>
      have := ih cs (by simpa [List.filter_cons, hr] using hlen)
      simpa [List.zip_cons_cons, List.filter_cons, hr] using this
    | none =>
      cases cs with
      | nil => simp [hr] at hlen
      | cons c cs' =>
        have := ih cs' (by simpa [List.filter_cons, hr] using hlen)
        simpa [List.zip_cons_cons, List.filter_cons, hr] using this

theorem dropLast_append_of_getLast? {α : Type} {l : List α} {a : α} (h : l.getLast? = some a) : l.dropLast ++ [a] = l := by
  have hne : l ≠ [] := by intro hn; simp [hn] at h
  have := List.dropLast_concat_getLast hne
  rw [List.getLast?_eq_some_getLast hne] at h
  simp only [Option.some.injEq] at h
  rw [← h]; exact this

theorem patchAck_id (out : List Out) : patchAck out id = out := by
  unfold patchAck
  cases h : out.getLast? with
  | none => rfl
  | some o =>
    have hl : out.dropLast ++ [o] = out := dropLast_append_of_getLast? h
    obtain ⟨conn, poll, pkt⟩ := o
    cases pkt <;> simp_all

theorem acceptedTopics_rejected (topics : List SubTopic) (rej grant : String → Option Nat) :
    ∀ t ∈ acceptedTopics topics rej grant, (rej t.name).isNone = true := by
  intro t ht
  unfold acceptedTopics at ht
  rcases List.mem_map.mp ht with ⟨t0, h0, rfl⟩
  have := (List.mem_filter.mp h0).2
  cases hg : grant t0.name <;> simpa [hg] using this

theorem acceptedTopics_granted (topics : List SubTopic) (rej grant : String → Option Nat) :
    ∀ t ∈ acceptedTopics topics rej grant, ∀ q, grant t.name = some q → t.qos = q := by
  intro t ht q hq
  unfold acceptedTopics at ht
  rcases List.mem_map.mp ht with ⟨t0, _, rfl⟩
  cases hg : grant t0.name with
  | none => simp [hg] at hq
  | some q' => simp [hg] at hq ⊢; exact hq

theorem acceptedTopics_neutral (topics : List SubTopic) :
    acceptedTopics topics (fun _ => none) (fun _ => none) = topics := by
  unfold acceptedTopics
  simp

/-! ### the PUBLISH pipeline -/

theorem sess?_cid {b : B} {cid : String} {s : Sess} (h : b.sess? cid = some s) : s.cid = cid := by
  unfold B.sess? at h
  simpa using List.find?_some h

/-- the parts of the broker state the property speaks about when it says "nothing happened" -/
structure Untouched (b b' : B) : Prop where
  retained : b'.retained = b.retained
  subs : b'.subs = b.subs
  msgs : b'.msgs = b.msgs
  wills : b'.pendingWills = b.pendingWills
  queues : ∀ cid, queueOf b' cid = queueOf b cid

theorem Untouched.refl (b : B) : Untouched b b := ⟨rfl, rfl, rfl, rfl, fun _ => rfl⟩

theorem Untouched.trans {a b c : B} (h1 : Untouched a b) (h2 : Untouched b c) : Untouched a c :=
  ⟨h2.retained.trans h1.retained, h2.subs.trans h1.subs, h2.msgs.trans h1.msgs, h2.wills.trans h1.wills,
   fun cid => (h2.queues cid).trans (h1.queues cid)⟩

theorem untouched_emit (b : B) (conn : String) (poll : Bool) (p : Pkt) : Untouched b (b.emit conn poll p) :=
  ⟨rfl, rfl, rfl, rfl, fun _ => rfl⟩

theorem untouched_setCli (b : B) (c : Cli) : Untouched b (b.setCli c) := ⟨rfl, rfl, rfl, rfl, fun _ => rfl⟩

theorem untouched_setSess {b : B} {s s0 : Sess} (h0 : b.sess? s.cid = some s0) (hq : s.queue = s0.queue) :
    Untouched b (b.setSess s) := ⟨rfl, rfl, rfl, rfl, queueOf_setSess h0 hq⟩

theorem untouched_dupQuota (b : B) (c : Cli) (r : PubReq) (dupl : Bool) : Untouched b (dupQuota b c r dupl) := by
  unfold dupQuota
  split
  · split
    · exact untouched_setCli _ _
    · exact Untouched.refl b
  · exact Untouched.refl b

theorem dupQuota_false (b : B) (c : Cli) (r : PubReq) : dupQuota b c r false = b := by
  simp [dupQuota]

theorem untouched_acknowledge (b : B) (c : Cli) (r : PubReq) (code : Nat) : Untouched b (acknowledge b c r code) := by
  have h1 : Untouched b (ackEmit b r code) := by
    unfold ackEmit
    split
    · exact untouched_emit ..
    · split
      · exact untouched_emit ..
      · exact Untouched.refl b
  have h2 : ∀ b1 : B, Untouched b1 (ackForget b1 c r code) := by
    intro b1
    unfold ackForget
    split
    · split
      · rename_i s' hs'
        exact untouched_setSess (s0 := s') (by simpa [sess?_cid hs'] using hs') rfl
      · exact Untouched.refl b1
    · exact Untouched.refl b1
  have h3 : ∀ b2 : B, Untouched b2 (ackQuota b2 c r code) := by
    intro b2
    unfold ackQuota
    split
    · split
      · exact untouched_setCli ..
      · exact Untouched.refl b2
    · exact Untouched.refl b2
  exact (h1.trans (h2 _)).trans (h3 _)

theorem route_refused (b : B) (c : Cli) (r : PubReq) (res : Option Msg × Option Nat)
    (h : res.1 = none ∨ res.2.isSome = true) : route b c r res = (b, false) := by
  obtain ⟨msg, err⟩ := res
  unfold route
  cases msg <;> cases err <;> simp_all

end GmqttVerif.BrokerHooks
