import GmqttVerif.Proofs.BrokerEnqueue
import GmqttVerif.Proofs.Inbound
/-
  Helper lemmas for C04Broker: how `B.publish` / `B.pubrelIn` use the session's inbound QoS 2 id list `unack`, and
  that this use refines the component model `Inbound.step` (C04).
-/
namespace GmqttVerif.Broker
open GmqttVerif.Deliver

/-- is the accepted PUBLISH (qos, pid) forwarded (`deliverMessage` called), given the ids awaiting PUBREL? -/
def forwarded (u : List Nat) (qos pid : Nat) : Bool := !(qos == 2 && u.contains pid)

/-- the ids awaiting PUBREL after an accepted PUBLISH (qos, pid) -/
def unackAfterPub (u : List Nat) (qos pid : Nat) : List Nat :=
  if qos == 2 && !(u.contains pid) then u ++ [pid] else u

set_option linter.unusedSimpArgs false in
/-- `publishTail`, by cases on `forwarded` -/
theorem publishTail_eq (b : B) (c : Cli) (r : PubReq) (s : Sess) :
    b.publishTail c r s =
      if forwarded s.unack r.qos r.pid then
        let b1 := (b.setSess { s with unack := unackAfterPub s.unack r.qos r.pid }).pubRetain r false
        let bm := b1.deliverMsg c.cid (pubMsg r) r.hints r.rapHint
        bm.1.pubAck c r bm.2
      else ((b.setSess s).pubDupQuota c r true).pubAck c r false := by
  unfold B.publishTail forwarded unackAfterPub B.pubRetain
  have hdq : ∀ X : B, X.pubDupQuota c r false = X := fun X => by simp [B.pubDupQuota]
  cases hq : (r.qos == 2) <;> cases hc : s.unack.contains r.pid <;>
    simp only [hq, hc, hdq, Bool.and_true, Bool.and_false, Bool.not_true, Bool.not_false, Bool.true_and, Bool.false_and,
      if_true, if_false, Bool.false_eq_true]

theorem pubDupQuota_sess? (b : B) (c : Cli) (r : PubReq) (d : Bool) (cid : String) :
    (b.pubDupQuota c r d).sess? cid = b.sess? cid := by
  unfold B.pubDupQuota
  split
  · split <;> rfl
  · rfl

theorem pubDupQuota_cli? (b : B) (c : Cli) (r : PubReq) (d : Bool) (c0 : Cli) (h : b.cli? r.conn = some c0) :
    ∃ c', (b.pubDupQuota c r d).cli? r.conn = some c' ∧ c'.cid = c0.cid := by
  unfold B.pubDupQuota
  split
  · rw [h]
    exact ⟨{ c0 with quota := min (c0.quota + 1) b.cfg.recvMax }, by rw [cli?_setCli, if_pos (cli?_some h).2], rfl⟩
  · exact ⟨c0, h, rfl⟩

theorem pubRetain_sess? (b : B) (r : PubReq) (d : Bool) (cid : String) : (b.pubRetain r d).sess? cid = b.sess? cid := by
  unfold B.pubRetain
  split
  · split <;> rfl
  · rfl

theorem pubRetain_cli? (b : B) (r : PubReq) (d : Bool) (conn : String) : (b.pubRetain r d).cli? conn = b.cli? conn := by
  unfold B.pubRetain
  split
  · split <;> rfl
  · rfl

theorem pubAck_sess? (b : B) (c : Cli) (r : PubReq) (m : Bool) (cid : String) : (b.pubAck c r m).sess? cid = b.sess? cid := by
  unfold B.pubAck
  extract_lets code b4
  have h4 : b4.sess? cid = b.sess? cid := by
    simp only [b4]
    split
    · rfl
    · split <;> rfl
  split
  · split
    · exact h4
    · exact h4
  · exact h4

theorem pubAck_cli? (b : B) (c : Cli) (r : PubReq) (m : Bool) (c0 : Cli) (h : b.cli? r.conn = some c0) :
    ∃ c', (b.pubAck c r m).cli? r.conn = some c' ∧ c'.cid = c0.cid := by
  unfold B.pubAck
  extract_lets code b4
  have h4 : b4.cli? r.conn = some c0 := by
    simp only [b4]
    split
    · exact h
    · split <;> exact h
  split
  · rw [h4]
    simp only
    exact ⟨{ c0 with quota := min (c0.quota + 1) b4.cfg.recvMax }, by rw [cli?_setCli, if_pos (cli?_some h4).2], rfl⟩
  · exact ⟨c0, h4, rfl⟩

/-- the session and the connection after an accepted PUBLISH -/
theorem publishTail_after (b : B) (c : Cli) (r : PubReq) (s : Sess) (c0 : Cli) (hc : b.cli? r.conn = some c0) :
    (∃ s', (b.publishTail c r s).sess? s.cid = some s' ∧ s'.unack = unackAfterPub s.unack r.qos r.pid) ∧
    (∃ c', (b.publishTail c r s).cli? r.conn = some c' ∧ c'.cid = c0.cid) := by
  rw [publishTail_eq]
  by_cases hf : forwarded s.unack r.qos r.pid = true
  · rw [if_pos hf]
    simp only
    have e := enq_deliverMsg ((b.setSess { s with unack := unackAfterPub s.unack r.qos r.pid }).pubRetain r false)
      c.cid (pubMsg r) r.hints r.rapHint
    refine ⟨?_, ?_⟩
    · obtain ⟨s', hs', es'⟩ := e.sessOf s.cid { s with unack := unackAfterPub s.unack r.qos r.pid }
        (by rw [pubRetain_sess?, sess?_setSess]; simp)
      exact ⟨s', by rw [pubAck_sess?]; exact hs', by rw [es']⟩
    · apply pubAck_cli?
      unfold B.cli?
      rw [e.grow.clis]
      exact (pubRetain_cli? _ r false r.conn).trans hc
  · rw [if_neg hf]
    have hu : unackAfterPub s.unack r.qos r.pid = s.unack := by
      unfold unackAfterPub
      unfold forwarded at hf
      have : (r.qos == 2 && s.unack.contains r.pid) = true := by simpa using hf
      simp only [Bool.and_eq_true] at this
      simp only [this.1, this.2, Bool.not_true, Bool.and_false, Bool.false_eq_true, if_false]
    obtain ⟨c1, hc1, hcid1⟩ := pubDupQuota_cli? (b.setSess s) c r true c0 hc
    obtain ⟨c', hc', hcid'⟩ := pubAck_cli? _ c r false c1 hc1
    exact ⟨⟨s, by rw [pubAck_sess?, pubDupQuota_sess?, sess?_setSess]; simp, hu.symm⟩, c', hc', hcid'.trans hcid1⟩

/-- the session, the connection and the H-stream output after a PUBREL -/
theorem pubrelIn_after (b : B) (conn : String) (pid : Nat) (c : Cli) (s : Sess)
    (hc : b.cli? conn = some c) (hs : b.sess? c.cid = some s) :
    (b.pubrelIn conn pid).sess? c.cid = some { s with unack := s.unack.filter (· != pid) } ∧
    (∃ c', (b.pubrelIn conn pid).cli? conn = some c' ∧ c'.cid = c.cid) ∧
    (b.pubrelIn conn pid).out = b.out ++ [{ conn := conn, poll := false, pkt := .pubcomp pid }] := by
  unfold B.pubrelIn
  simp only [hc, hs]
  have hcid := (sess?_some hs).2
  have hconn := (cli?_some hc).2
  have hc1 : ((b.setSess { s with unack := s.unack.filter (· != pid) }).emit conn false (.pubcomp pid)).cli? conn = some c := hc
  split
  · rw [hc1]
    simp only
    refine ⟨?_, ⟨{ c with quota := min (c.quota + 1) b.cfg.recvMax }, by rw [cli?_setCli, if_pos hconn]; rfl, rfl⟩, rfl⟩
    rw [setCli_sess?]
    show (b.setSess _).sess? c.cid = _
    rw [sess?_setSess, if_pos hcid]
  · refine ⟨?_, ⟨c, hc1, rfl⟩, rfl⟩
    show (b.setSess _).sess? c.cid = _
    rw [sess?_setSess, if_pos hcid]

/-! ### refinement of the component model `Inbound` -/

/-- the component-model state that corresponds to the id list `u` -/
def stOf (u : List Nat) (v5 : Bool) : Inbound.St := { store := { ids := u }, v5 := v5 }

/-- the broker's id list and the component model's store hold the same ids -/
def Sim (u : List Nat) (st : Inbound.St) : Prop := ∀ id, id ∈ u ↔ id ∈ st.store.ids

theorem sim_stOf (u : List Nat) (v5 : Bool) : Sim u (stOf u v5) := fun _ => Iff.rfl

theorem contains_of_sim {u : List Nat} {st : Inbound.St} (h : Sim u st) (pid : Nat) :
    u.contains pid = decide (pid ∈ st.store.ids) := by
  by_cases hm : pid ∈ st.store.ids
  · simp [hm, (h pid).2 hm]
  · have : pid ∉ u := fun hu => hm ((h pid).1 hu)
    simp [hm, this]

/-- an accepted PUBLISH refines `Inbound.step` on a PUBLISH event the hook lets through -/
theorem pub_refines (u : List Nat) (st : Inbound.St) (h : Sim u st) (qos pid : Nat) (dup : Bool) :
    Sim (unackAfterPub u qos pid) (Inbound.step st (.pub qos pid dup .ok)).1 ∧
    (Inbound.step st (.pub qos pid dup .ok)).2.deliver = forwarded u qos pid := by
  have hc := contains_of_sim h pid
  by_cases hq : qos = 2
  · subst hq
    have h21 : (2 : Nat) ≠ 1 := by decide
    simp only [Inbound.step, if_true, h21, if_false, unackAfterPub, forwarded, beq_self_eq_true, Bool.true_and, hc,
      Inbound.set_snd]
    by_cases hm : pid ∈ st.store.ids
    · simp only [hm, decide_true, Bool.not_true, Bool.false_eq_true, if_false, Bool.false_and, Bool.and_false]
      refine ⟨?_, by simp⟩
      intro id
      simp only [Unack.Store.set, hm, if_true]
      exact h id
    · simp only [hm, decide_false, Bool.not_false, if_true, Bool.true_and, Bool.and_false, Bool.false_eq_true, if_false]
      refine ⟨?_, by simp⟩
      intro id
      simp only [Unack.Store.set, hm, if_false, List.mem_append, List.mem_cons, List.not_mem_nil, or_false]
      rw [h id]
      exact Or.comm
  · have hq' : (qos == 2) = false := by simpa using hq
    simp only [Inbound.step, hq, if_false, unackAfterPub, forwarded, hq', Bool.false_and, Bool.not_false,
      Bool.false_eq_true, Bool.true_and]
    refine ⟨?_, ?_⟩
    · split <;> exact h
    · split <;> simp

/-- a PUBREL refines `Inbound.step` on a PUBREL event -/
theorem pubrel_refines (u : List Nat) (st : Inbound.St) (h : Sim u st) (pid : Nat) :
    Sim (u.filter (· != pid)) (Inbound.step st (.pubrel pid)).1 := by
  intro id
  simp only [Inbound.step, Unack.Store.remove, List.mem_filter]
  rw [h id]

/-- a run of accepted PUBLISH / PUBREL packets on connection `conn`: the events as the component model sees them,
    and for each whether `deliverMessage` was called (`forwarded` on the session's id list at that moment;
    `qos2_forward_iff` / `publish_forwards_iff` say that this is what `B.publish` does) -/
inductive InRun (conn : String) : B → List Inbound.Event → List Bool → B → Prop
  | nil (b : B) : InRun conn b [] [] b
  | pub (b : B) (r : PubReq) (c : Cli) (s : Sess) (evs : List Inbound.Event) (fl : List Bool) (b' : B) :
      r.conn = conn → b.cli? conn = some c → b.sess? c.cid = some s → TopicOk b c r →
      ¬ (c.v = 5 ∧ r.qos > 0 ∧ c.quota = 0) → ¬ (c.v = 5 ∧ b.cfg.maxPacket ≠ 0 ∧ r.size > b.cfg.maxPacket) →
      ¬ (b.cfg.retainAvail = false ∧ r.retain = true) →
      InRun conn (b.publish r) evs fl b' →
      InRun conn b (.pub r.qos r.pid r.dup .ok :: evs) (forwarded s.unack r.qos r.pid :: fl) b'
  | rel (b : B) (pid : Nat) (c : Cli) (s : Sess) (evs : List Inbound.Event) (fl : List Bool) (b' : B) :
      b.cli? conn = some c → b.sess? c.cid = some s →
      InRun conn (b.pubrelIn conn pid) evs fl b' →
      InRun conn b (.pubrel pid :: evs) (false :: fl) b'

theorem InRun.sim {conn : String} {b b' : B} {evs : List Inbound.Event} {fl : List Bool} (h : InRun conn b evs fl b')
    (c : Cli) (s : Sess) (hc : b.cli? conn = some c) (hs : b.sess? c.cid = some s) (st : Inbound.St)
    (hsim : Sim s.unack st) : fl = (Inbound.run st evs).2.map (·.deliver) := by
  induction h generalizing c s st with
  | nil => rfl
  | pub b r c1 s1 evs fl b' hconn hc1 hs1 htop hq hsz hret _ ih =>
    subst hconn
    rw [hc] at hc1; cases hc1
    rw [hs] at hs1; cases hs1
    obtain ⟨t, c2, hres, heq⟩ := publish_accepted b r c1 s1 hc hs htop hq hsz hret
    obtain ⟨h2conn, h2cid, _⟩ := aliasRes_ok hres
    have hcid2 : c2.cid = c1.cid := by rw [h2cid, pubCli_cid]
    have hcli2 : ((b.setCli (pubCli c1 r)).setCli c2).cli? r.conn = some c2 := by
      rw [cli?_setCli, if_pos (by rw [h2conn, pubCli_conn]; exact (cli?_some hc).2)]
    obtain ⟨⟨s', hs', hu⟩, ⟨c', hc', hcid'⟩⟩ :=
      publishTail_after ((b.setCli (pubCli c1 r)).setCli c2) c2 { r with topic := t } s1 c2 hcli2
    obtain ⟨hsim', hdel⟩ := pub_refines s1.unack st hsim r.qos r.pid r.dup
    have := ih c' s' (by rw [heq]; exact hc') (by rw [heq, hcid', hcid2, ← (sess?_some hs).2]; exact hs') _
      (by rw [hu]; exact hsim')
    simp only [Inbound.run, List.map_cons, hdel, this]
  | rel b pid c1 s1 evs fl b' hc1 hs1 _ ih =>
    rw [hc] at hc1; cases hc1
    rw [hs] at hs1; cases hs1
    obtain ⟨hs', ⟨c', hc', hcid'⟩, _⟩ := pubrelIn_after b conn pid c1 s1 hc hs
    have := ih c' _ hc' (by rw [hcid']; exact hs') _ (pubrel_refines s1.unack st hsim pid)
    simp only [Inbound.run, List.map_cons, this]
    rfl

end GmqttVerif.Broker
