import GmqttVerif.Proofs.BrokerQueue
import GmqttVerif.Proofs.BrokerWill
/-
  Invariants of the reachable states of the wire-level broker model beyond `WF` (C05):
  `OutInv` (packet-id window and session queues, C03), `MsgsInv` (message log, C03/C12), `WillInv` (pending wills, C08),
  and the relation `Mono` satisfied by every state change except CONNECT, the poll loops and PUBACK/PUBCOMP handling.
-/
namespace GmqttVerif.Broker
open GmqttVerif.Deliver
open GmqttVerif.Queue (QOk UOk QMono idsOf)

/-- outbound QoS 1/2 bookkeeping: every stored session's queue is well-formed with pairwise distinct packet ids, and
    the window of every online connection fits the queue of its session -/
structure OutInv (b : B) : Prop where
  q : ∀ s ∈ b.sessions, QOk s.queue
  c : ∀ c ∈ b.clis, ∀ s ∈ b.sessions, s.cid = c.cid → UOk c.used s.queue

/-- the message log: one time stamp per logged message; logged messages have DUP = 0 -/
structure MsgsInv (b : B) : Prop where
  len : b.ats.length = b.msgs.length
  dup : ∀ m ∈ b.msgs, m.dup = false

/-- pending (delayed) wills: at most one per client id, only for stored sessions that are offline -/
structure WillInv (b : B) : Prop where
  nodup : (b.pendingWills.map (·.1)).Nodup
  stored : ∀ w ∈ b.pendingWills, (∃ cd ∈ b.offline, cd.1 = w.1) ∧ (b.sess? w.1).isSome = true

theorem outInv_empty (cfg : Cfg) : OutInv { cfg := cfg } := ⟨by simp, by simp⟩
theorem msgsInv_empty (cfg : Cfg) : MsgsInv { cfg := cfg } := ⟨rfl, by simp⟩
theorem willInv_empty (cfg : Cfg) : WillInv { cfg := cfg } := ⟨by simp, by simp⟩

/-- a state change in which no queue element gains a packet id and no connection's window changes -/
structure Mono0 (b b' : B) : Prop where
  sess : ∀ s' ∈ b'.sessions, ∃ s ∈ b.sessions, s'.cid = s.cid ∧ QMono s.queue s'.queue
  clis : ∀ c' ∈ b'.clis, ∃ c ∈ b.clis, c'.cid = c.cid ∧ c'.used = c.used
  msgs : MsgsInv b → MsgsInv b'

/-- …and which keeps the pending wills consistent -/
structure Mono (b b' : B) : Prop extends Mono0 b b' where
  will : WillInv b → WillInv b'

theorem Mono0.refl (b : B) : Mono0 b b :=
  ⟨fun s hs => ⟨s, hs, rfl, QMono.refl _⟩, fun c hc => ⟨c, hc, rfl, rfl⟩, id⟩

theorem Mono0.trans {a b c : B} (h1 : Mono0 a b) (h2 : Mono0 b c) : Mono0 a c := by
  refine ⟨?_, ?_, fun h => h2.msgs (h1.msgs h)⟩
  · intro s'' hs''
    obtain ⟨s', hs', e2, m2⟩ := h2.sess s'' hs''
    obtain ⟨s, hs, e1, m1⟩ := h1.sess s' hs'
    exact ⟨s, hs, e2.trans e1, m1.trans m2⟩
  · intro c'' hc''
    obtain ⟨c', hc', e2, u2⟩ := h2.clis c'' hc''
    obtain ⟨c, hc, e1, u1⟩ := h1.clis c' hc'
    exact ⟨c, hc, e2.trans e1, u2.trans u1⟩

theorem Mono.refl (b : B) : Mono b b := ⟨Mono0.refl b, id⟩

theorem Mono.trans {a b c : B} (h1 : Mono a b) (h2 : Mono b c) : Mono a c :=
  ⟨h1.toMono0.trans h2.toMono0, fun h => h2.will (h1.will h)⟩

theorem Mono0.outInv {b b' : B} (h : Mono0 b b') (hi : OutInv b) : OutInv b' := by
  refine ⟨?_, ?_⟩
  · intro s' hs'
    obtain ⟨s, hs, _, m⟩ := h.sess s' hs'
    exact m.qok (hi.q s hs)
  · intro c' hc' s' hs' hcid
    obtain ⟨s, hs, es, m⟩ := h.sess s' hs'
    obtain ⟨c, hc, ec, eu⟩ := h.clis c' hc'
    rw [eu]
    exact m.uok (hi.c c hc s hs (by rw [← es, hcid, ec]))

theorem Mono.outInv {b b' : B} (h : Mono b b') (hi : OutInv b) : OutInv b' := h.toMono0.outInv hi

theorem mono_foldl {α : Type} (f : B → α → B) (hf : ∀ b a, Mono b (f b a)) (l : List α) (b : B) :
    Mono b (l.foldl f b) := by
  induction l generalizing b with
  | nil => exact Mono.refl b
  | cons x xs ih => exact (hf b x).trans (ih _)

/-- pending wills, expiry deadlines untouched; no session disappears -/
theorem WillInv.of_frame {b b' : B} (h : WillInv b) (hp : b'.pendingWills = b.pendingWills)
    (ho : b'.offline = b.offline) (hs : ∀ cid, (b.sess? cid).isSome = true → (b'.sess? cid).isSome = true) :
    WillInv b' := by
  refine ⟨by rw [hp]; exact h.nodup, ?_⟩
  intro w hw
  rw [hp] at hw
  obtain ⟨h1, h2⟩ := h.stored w hw
  exact ⟨by rw [ho]; exact h1, hs _ h2⟩

theorem MsgsInv.of_eq {b b' : B} (h : MsgsInv b) (hm : b'.msgs = b.msgs) (ha : b'.ats = b.ats) : MsgsInv b' :=
  ⟨by rw [hm, ha]; exact h.len, by rw [hm]; exact h.dup⟩

/-- only fields other than sessions, connections, message log, pending wills and deadlines change -/
theorem Mono.of_eq {b b' : B} (hs : b'.sessions = b.sessions) (hc : b'.clis = b.clis) (hm : b'.msgs = b.msgs)
    (ha : b'.ats = b.ats) (hp : b'.pendingWills = b.pendingWills) (ho : b'.offline = b.offline) : Mono b b' := by
  refine ⟨⟨?_, ?_, fun h => h.of_eq hm ha⟩, fun h => h.of_frame hp ho (fun cid hc => ?_)⟩
  · intro s hs'; rw [hs] at hs'; exact ⟨s, hs', rfl, QMono.refl _⟩
  · intro c hc'; rw [hc] at hc'; exact ⟨c, hc', rfl, rfl⟩
  · unfold B.sess? at hc ⊢; rw [hs]; exact hc

theorem mono_emit (b : B) (conn : String) (poll : Bool) (p : Pkt) : Mono b (b.emit conn poll p) :=
  Mono.of_eq rfl rfl rfl rfl rfl rfl

theorem mono_setCli (b : B) (c' c0 : Cli) (h0 : c0 ∈ b.clis) (hcid : c'.cid = c0.cid) (hused : c'.used = c0.used) :
    Mono b (b.setCli c') := by
  refine ⟨⟨fun s hs => ⟨s, hs, rfl, QMono.refl _⟩, ?_, fun h => h.of_eq rfl rfl⟩, fun h => h.of_frame rfl rfl (fun _ h => h)⟩
  intro x hx
  rcases mem_setCli' hx with rfl | ⟨hx, _⟩
  · exact ⟨c0, h0, hcid, hused⟩
  · exact ⟨x, hx, rfl, rfl⟩

theorem mono_dropCli (b : B) (conn : String) : Mono b (b.dropCli conn) := by
  refine ⟨⟨fun s hs => ⟨s, hs, rfl, QMono.refl _⟩, ?_, fun h => h.of_eq rfl rfl⟩, fun h => h.of_frame rfl rfl (fun _ h => h)⟩
  intro x hx
  exact ⟨x, (List.mem_filter.1 hx).1, rfl, rfl⟩

theorem mono_setSess (b : B) (s' s0 : Sess) (h0 : s0 ∈ b.sessions) (hcid : s'.cid = s0.cid)
    (hq : QMono s0.queue s'.queue) : Mono b (b.setSess s') := by
  refine ⟨⟨?_, fun c hc => ⟨c, hc, rfl, rfl⟩, fun h => h.of_eq rfl rfl⟩,
    fun h => h.of_frame rfl rfl (grow_setSess b s').sess⟩
  intro x hx
  rcases mem_setSess hx with rfl | hx
  · exact ⟨s0, h0, hcid, hq⟩
  · exact ⟨x, hx, rfl, QMono.refl _⟩

/-- replacing the stored session found for `cid` by one with the same id and a `QMono`-related queue -/
theorem mono_setSess_of (b : B) (cid : String) (s0 s' : Sess) (hs : b.sess? cid = some s0) (hcid : s'.cid = s0.cid)
    (hq : QMono s0.queue s'.queue) : Mono b (b.setSess s') :=
  mono_setSess b s' s0 (sess?_some hs).1 hcid hq

/-- a queued PUBLISH without packet id is added to the session found for `cid`, and logged -/
theorem mono_addElem (b : B) (cid : String) (s : Sess) (hs : b.sess? cid = some s) (e : Queue.Elem)
    (hp : e.pub = true) (hi : e.id = 0) (m : Msg) (hd : m.dup = false) (t : Nat) :
    Mono b { (b.setSess { s with queue := (s.queue.add b.now e).1 }) with msgs := b.msgs ++ [m], ats := b.ats ++ [t] } := by
  have h1 := mono_setSess_of b cid s { s with queue := (s.queue.add b.now e).1 } hs rfl
    (Queue.qmono_add s.queue b.now e hp hi)
  refine ⟨⟨h1.sess, h1.clis, fun h => ⟨?_, ?_⟩⟩, fun h => (h1.will h).of_frame rfl rfl (fun _ h => h)⟩
  · simp [h.len]
  · intro x hx
    rcases List.mem_append.1 hx with hx | hx
    · exact h.dup x hx
    · simp at hx; rw [hx]; exact hd

theorem mono_enqueue (b : B) (cid : String) (q : Nat) (m : Msg) (hdup : m.dup = false) : Mono b (b.enqueue cid q m) := by
  cases hs : b.sess? cid with
  | none => rw [enqueue_none b cid q m hs]; exact Mono.refl b
  | some s =>
    rw [enqueue_some b cid q m s hs]
    split
    · exact Mono.refl b
    · exact mono_addElem b cid s hs (b.enqElem cid s m) rfl rfl m hdup b.now

theorem deliver_copies_dup (mode : Bool) (src : String) (table : List (String × Sub)) (m : Msg)
    (pick : String → List (String × Sub) → Option (String × Sub)) :
    ∀ cm ∈ (deliver mode src table m pick).2, cm.2.dup = false := by
  have hov : ∀ cm ∈ overlap m (eligible src m.topic table), cm.2.dup = false := by
    intro cm h
    simp only [overlap, List.mem_map] at h
    obtain ⟨cs, _, rfl⟩ := h; rfl
  have hon : ∀ cm ∈ onlyonce m (eligible src m.topic table), cm.2.dup = false := by
    intro cm h
    simp only [onlyonce, List.mem_map] at h
    obtain ⟨cs, _, rfl⟩ := h; rfl
  have hsh : ∀ cm ∈ shared m (eligible src m.topic table) pick, cm.2.dup = false := by
    intro cm h
    simp only [shared, List.mem_filterMap] at h
    obtain ⟨g, _, hg⟩ := h
    split at hg
    · simp only [Option.some.injEq] at hg; rw [← hg]; rfl
    · cases hg
  intro cm h
  simp only [deliver] at h
  split at h
  · rcases List.mem_append.1 h with h | h
    · exact hsh cm h
    · exact hon cm h
  · rcases List.mem_append.1 h with h | h
    · exact hov cm h
    · exact hsh cm h

theorem mono_deliverMsg (b : B) (src : String) (m : Msg) (hints : List Nat) (rap : List String) :
    Mono b (b.deliverMsg src m hints rap).1 := by
  simp only [B.deliverMsg]
  have hd := deliver_copies_dup b.cfg.onlyOnce src (orderTable rap b.subs) m (pickBy hints)
  generalize (deliver b.cfg.onlyOnce src (orderTable rap b.subs) m (pickBy hints)).2 = enqs at hd
  induction enqs generalizing b with
  | nil => exact Mono.refl b
  | cons x xs ih =>
    exact (mono_enqueue b x.1 m.qos x.2 (hd x List.mem_cons_self)).trans
      (ih _ (fun cm hcm => hd cm (List.mem_cons_of_mem _ hcm)))

theorem mono_retained (b : B) (r : List (String × Msg)) : Mono b { b with retained := r } :=
  Mono.of_eq rfl rfl rfl rfl rfl rfl

theorem mono_sendWill (b : B) (cid : String) (m : Msg) : Mono b (b.sendWill cid m) := by
  rw [sendWill_eq]
  refine Mono.trans (b := b.willRetain m) ?_ (mono_deliverMsg _ _ _ _ _)
  unfold B.willRetain
  split
  · split <;> exact mono_retained _ _
  · exact Mono.refl b

/-! ### session end, connection end -/

/-- the pending wills and the deadline of `cid` are dropped; other sessions stay -/
theorem WillInv.drop {b b' : B} (h : WillInv b) (cid : String)
    (hp : b'.pendingWills = b.pendingWills.filter (fun (w : String × Msg × Nat) => w.1 != cid))
    (ho : b'.offline = b.offline.filter (·.1 != cid))
    (hs : ∀ c, c ≠ cid → (b.sess? c).isSome = true → (b'.sess? c).isSome = true) : WillInv b' := by
  refine ⟨?_, ?_⟩
  · rw [hp]; exact h.nodup.sublist (List.filter_sublist.map _)
  · intro w hw
    rw [hp] at hw
    obtain ⟨hw1, hw2⟩ := List.mem_filter.1 hw
    have hne : w.1 ≠ cid := by simpa using hw2
    obtain ⟨⟨cd, hcd, e⟩, h2⟩ := h.stored w hw1
    refine ⟨⟨cd, ?_, e⟩, hs _ hne h2⟩
    rw [ho, List.mem_filter]
    exact ⟨hcd, by simpa [e] using hne⟩

theorem mono0_terminate (b : B) (cid : String) : Mono0 b (b.terminate cid) :=
  ⟨fun s hs => ⟨s, (List.mem_filter.1 hs).1, rfl, QMono.refl _⟩, fun c hc => ⟨c, hc, rfl, rfl⟩, fun h => h.of_eq rfl rfl⟩

theorem mono_terminateS (b : B) (cid : String) : Mono b (b.terminateS cid) := by
  refine ⟨?_, fun h => h.drop cid (terminateS_pendingWills b cid) (terminateS_offline b cid) (fun c hne hc => ?_)⟩
  · cases hw : b.willOf? cid with
    | none => rw [terminateS_none b cid hw]; exact mono0_terminate b cid
    | some x =>
      rw [terminateS_some b cid x hw]
      refine (mono0_terminate b cid).trans (Mono0.trans (b := (b.terminate cid).dropWill cid) ?_ (mono_sendWill _ _ _).toMono0)
      exact ⟨fun s hs => ⟨s, hs, rfl, QMono.refl _⟩, fun c hc => ⟨c, hc, rfl, rfl⟩, fun h => h.of_eq rfl rfl⟩
  · apply (grow_terminateS b cid).sess
    rw [sess?_terminate_ne b cid c (fun e => hne e.symm)]
    exact hc

theorem WillInv.setOffline {b : B} (h : WillInv b) (cid : String) (d : Nat) :
    WillInv { b with offline := (cid, d) :: b.offline.filter (·.1 != cid) } := by
  refine ⟨h.nodup, ?_⟩
  intro w hw
  obtain ⟨⟨cd, hcd, e⟩, h2⟩ := h.stored w hw
  refine ⟨?_, h2⟩
  by_cases hc : w.1 = cid
  · exact ⟨(cid, d), List.mem_cons_self, hc.symm⟩
  · exact ⟨cd, List.mem_cons_of_mem _ (List.mem_filter.2 ⟨hcd, by simpa [e] using hc⟩), e⟩

/-- a will is scheduled for `cid` and its session gets a deadline -/
theorem WillInv.sched {b : B} (h : WillInv b) (cid : String) (w : Msg) (due d : Nat)
    (hs : (b.sess? cid).isSome = true) :
    WillInv { b with pendingWills := b.pendingWills.filter (fun (x : String × Msg × Nat) => x.1 != cid) ++ [(cid, w, due)],
                     offline := (cid, d) :: b.offline.filter (·.1 != cid) } := by
  refine ⟨?_, ?_⟩
  · show ((b.pendingWills.filter (fun (x : String × Msg × Nat) => x.1 != cid) ++ [(cid, w, due)]).map (·.1)).Nodup
    rw [List.map_append, List.nodup_append]
    refine ⟨h.nodup.sublist (List.filter_sublist.map _), by simp, ?_⟩
    intro a ha c hc
    simp only [List.map_cons, List.map_nil, List.mem_singleton] at hc
    obtain ⟨x, hx, rfl⟩ := List.mem_map.1 ha
    rw [hc]
    simpa using (List.mem_filter.1 hx).2
  · intro x hx
    rcases List.mem_append.1 hx with hx | hx
    · obtain ⟨hx1, hx2⟩ := List.mem_filter.1 hx
      have hne : x.1 ≠ cid := by simpa using hx2
      obtain ⟨⟨cd, hcd, e⟩, h2⟩ := h.stored x hx1
      exact ⟨⟨cd, List.mem_cons_of_mem _ (List.mem_filter.2 ⟨hcd, by simpa [e] using hne⟩), e⟩, h2⟩
    · simp only [List.mem_singleton] at hx
      rw [hx]
      exact ⟨⟨(cid, d), List.mem_cons_self, rfl⟩, hs⟩

theorem mono0_willStep (b : B) (c : Cli) (s : Sess) (store : Bool) : Mono0 b (willStep b c s store) := by
  by_cases hcw : c.cleanWill = true
  · rw [willStep_clean _ _ _ _ hcw]; exact Mono0.refl b
  · cases hw : s.will with
    | none => rw [willStep_nowill _ _ _ _ hw]; exact Mono0.refl b
    | some w =>
      rw [willStep_will b c s store w (by simpa using hcw) hw]
      split
      · exact ⟨fun s hs => ⟨s, hs, rfl, QMono.refl _⟩, fun c hc => ⟨c, hc, rfl, rfl⟩, fun h => h.of_eq rfl rfl⟩
      · exact (mono_sendWill _ _ _).toMono0

theorem mono0_setOffline (b : B) (o : List (String × Nat)) : Mono0 b { b with offline := o } :=
  ⟨fun s hs => ⟨s, hs, rfl, QMono.refl _⟩, fun c hc => ⟨c, hc, rfl, rfl⟩, fun h => h.of_eq rfl rfl⟩

theorem mono_unregister (b : B) (conn : String) (force : Bool) : Mono b (b.unregister conn force) := by
  cases hc : b.cli? conn with
  | none => rw [unregister_none b conn force hc]; exact Mono.refl b
  | some c =>
    rw [unregister_eq b conn force c hc]
    cases hs : b.sess? c.cid with
    | none => exact (mono_dropCli b conn).trans (mono_terminateS _ _)
    | some s0 =>
      simp only
      generalize hs' : ({ unregSess c s0 force with queue := (unregSess c s0 force).queue.close } : Sess) = s'
      have hcid' : s'.cid = s0.cid := by rw [← hs']; exact unregSess_cid c s0 force
      have hq' : QMono s0.queue s'.queue := by
        rw [← hs']
        have : (unregSess c s0 force).queue = s0.queue := by
          unfold unregSess; split
          · split <;> rfl
          · rfl
        show QMono s0.queue (unregSess c s0 force).queue.close
        rw [this]; exact Queue.qmono_close _
      have hs0 : (b.dropCli conn).sess? c.cid = some s0 := hs
      have m1 : Mono b ((b.dropCli conn).setSess s') :=
        (mono_dropCli b conn).trans (mono_setSess_of _ c.cid s0 s' hs0 hcid' hq')
      have hsome : (((b.dropCli conn).setSess s').sess? c.cid).isSome = true := by
        rw [sess?_setSess, if_pos (by rw [hcid', (sess?_some hs).2])]; rfl
      generalize (b.dropCli conn).setSess s' = b1 at m1 hsome
      generalize hstore : (!force && (unregSess c s0 force).expiry != 0) = store
      refine ⟨?_, fun hw => ?_⟩
      · have m2 := m1.toMono0.trans (mono0_willStep b1 c s' store)
        split
        · exact m2.trans (mono0_setOffline _ _)
        · exact m2.trans (mono_terminateS _ _).toMono0
      · have hw1 := m1.will hw
        by_cases hcw : c.cleanWill = true
        · rw [willStep_clean _ _ _ _ hcw]
          split
          · exact hw1.setOffline _ _
          · exact (mono_terminateS _ _).will hw1
        · cases hwill : s'.will with
          | none =>
            rw [willStep_nowill _ _ _ _ hwill]
            split
            · exact hw1.setOffline _ _
            · exact (mono_terminateS _ _).will hw1
          | some w =>
            rw [willStep_will b1 c s' store w (by simpa using hcw) hwill]
            by_cases hd : (willDelayOf s' != 0 && store) = true
            · rw [if_pos hd]
              have hst : store = true := by simp only [Bool.and_eq_true] at hd; exact hd.2
              rw [if_pos hst]
              exact hw1.sched c.cid w _ _ hsome
            · rw [if_neg hd]
              have hw2 := (mono_sendWill b1 c.cid w).will hw1
              split
              · exact hw2.setOffline _ _
              · exact (mono_terminateS _ _).will hw2

theorem mono_kick (b : B) (conn : String) (code : Option Nat) : Mono b (b.kick conn code) := by
  obtain ⟨o, ho⟩ := kick_eq b conn code
  rw [ho]
  exact (Mono.of_eq rfl rfl rfl rfl rfl rfl : Mono b { b with out := o }).trans (mono_unregister _ conn false)

/-! ### the handlers that are `Mono` -/

theorem mono_quotaBack (b X : B) (conn : String) (h : Mono b X) :
    Mono b (match X.cli? conn with
      | some c' => X.setCli { c' with quota := min (c'.quota + 1) X.cfg.recvMax }
      | none => X) := by
  cases hc' : X.cli? conn with
  | none => exact h
  | some c' => exact h.trans (mono_setCli X _ c' (cli?_some hc').1 rfl rfl)

theorem mono_setSess_same (b : B) (cid : String) (s0 s' : Sess) (hs : b.sess? cid = some s0) (hcid : s'.cid = s0.cid)
    (hq : s'.queue = s0.queue) : Mono b (b.setSess s') :=
  mono_setSess_of b cid s0 s' hs hcid (by rw [hq]; exact QMono.refl _)

theorem mono_pubrelIn (b : B) (conn : String) (pid : Nat) : Mono b (b.pubrelIn conn pid) := by
  unfold B.pubrelIn
  cases hc : b.cli? conn with
  | none => exact Mono.refl b
  | some c =>
    have h1 : Mono b (match b.sess? c.cid with
        | some s => b.setSess { s with unack := s.unack.filter (· != pid) }
        | none => b) := by
      cases hs : b.sess? c.cid with
      | some s => exact mono_setSess_same b c.cid s _ hs rfl rfl
      | none => exact Mono.refl b
    have h2 := h1.trans (mono_emit _ conn false (.pubcomp pid))
    simp only
    split
    · exact mono_quotaBack _ _ conn h2
    · exact h2

theorem mono_disc_tail (b : B) (c : Cli) (s : Sess) (d : Nat) (de : Option (Option Nat)) (cw : Bool)
    (hm : c ∈ b.clis) (hs : b.sess? c.cid = some s) :
    Mono b (if (s.expiry == 0 && d != 0) = true then b
      else (if (d != 0) = true then b.setSess { s with expiry := d } else b).setCli
        { c with discExpiry := de, cleanWill := cw }) := by
  by_cases h1 : (s.expiry == 0 && d != 0) = true
  · rw [if_pos h1]; exact Mono.refl b
  · rw [if_neg h1]
    by_cases h2 : (d != 0) = true
    · rw [if_pos h2]
      exact (mono_setSess_same b c.cid s { s with expiry := d } hs rfl rfl).trans
        (mono_setCli (b.setSess { s with expiry := d }) { c with discExpiry := de, cleanWill := cw } c hm rfl rfl)
    · rw [if_neg h2]; exact mono_setCli b { c with discExpiry := de, cleanWill := cw } c hm rfl rfl

theorem mono_disconnectIn (b : B) (conn : String) (se : Option Nat) (code : Nat) : Mono b (b.disconnectIn conn se code) := by
  unfold B.disconnectIn
  cases hc : b.cli? conn with
  | none => exact Mono.refl b
  | some c =>
    have hm := (cli?_some hc).1
    simp only
    by_cases hv : (c.v == 5) = true
    · rw [if_pos hv]
      cases hs : b.sess? c.cid with
      | none => exact Mono.refl b
      | some s => exact mono_disc_tail b c s _ _ _ hm hs
    · rw [if_neg hv]
      exact mono_setCli _ _ c hm rfl rfl

theorem mono_closeIn (b : B) (conn : String) : Mono b (b.closeIn conn) := by
  unfold B.closeIn
  split
  · exact Mono.refl b
  · exact (mono_unregister b conn false).trans (mono_emit _ _ _ _)

theorem mono_apiTerminate (b : B) (cid : String) : Mono b (b.apiTerminate cid) := by
  unfold B.apiTerminate
  split
  · exact (mono_emit b _ _ _).trans (mono_unregister _ _ _)
  · split
    · exact mono_terminateS b cid
    · exact Mono.refl b

theorem mono_apiExpire (b : B) : Mono b b.apiExpire := by
  unfold B.apiExpire
  exact mono_foldl _ (fun bb (cd : String × Nat) => mono_terminateS bb cd.1) _ _

theorem mono_apiBackdate (b : B) (cid : String) (secs : Nat) : Mono b (b.apiBackdate cid secs) := by
  unfold B.apiBackdate
  cases hs : b.sess? cid with
  | none => exact Mono.refl b
  | some s =>
    have h1 := mono_setSess_same b cid s { s with connectedAt := s.connectedAt - secs * 1000 } hs rfl rfl
    refine h1.trans ⟨mono0_setOffline _ _, fun hw => ⟨hw.nodup, fun w hw' => ?_⟩⟩
    obtain ⟨⟨cd, hcd, e⟩, h2⟩ := hw.stored w hw'
    refine ⟨⟨_, List.mem_map_of_mem hcd, ?_⟩, h2⟩
    split <;> exact e

theorem mono_sleep (b : B) (ms : Nat) : Mono b (b.sleep ms) := by
  have key : ∀ l : List (String × Msg × Nat), l.Sublist b.pendingWills →
      Mono b ({ b with now := b.now + ms, pendingWills := l } : B) := by
    intro l hl
    refine ⟨⟨fun s hs => ⟨s, hs, rfl, QMono.refl _⟩, fun c hc => ⟨c, hc, rfl, rfl⟩, fun h => h.of_eq rfl rfl⟩, fun hw => ?_⟩
    exact ⟨hw.nodup.sublist (hl.map _), fun w hw' => hw.stored w (hl.subset hw')⟩
  unfold B.sleep
  simp only
  exact (key _ List.filter_sublist).trans (mono_foldl _ (fun bb w => mono_sendWill bb _ _) _ _)

theorem mono_subs (b : B) (l : List (String × Sub)) : Mono b { b with subs := l } := Mono.of_eq rfl rfl rfl rfl rfl rfl

theorem mono_unsubscribe (b : B) (conn : String) (pid : Nat) (topics : List String) :
    Mono b (b.unsubscribe conn pid topics) := by
  unfold B.unsubscribe
  split
  · exact Mono.refl b
  · simp only
    exact (mono_foldl _ (fun bb name => mono_subs bb _) topics b).trans (mono_emit _ _ _ _)

theorem pubCli_used (c : Cli) (r : PubReq) : (pubCli c r).used = c.used := by unfold pubCli; split <;> rfl

theorem mono_pubAck (b X : B) (c : Cli) (r : PubReq) (matched : Bool) (h : Mono b X) : Mono b (X.pubAck c r matched) := by
  unfold B.pubAck
  extract_lets code b4
  have hb4 : Mono b b4 := by
    simp only [b4]
    split
    · exact h.trans (mono_emit _ _ _ _)
    · split
      · exact h.trans (mono_emit _ _ _ _)
      · exact h
  split
  · exact mono_quotaBack _ _ _ hb4
  · exact hb4

theorem mono_publishTail (b X : B) (c : Cli) (r : PubReq) (s : Sess) (hs : X.sess? c.cid = some s) (h : Mono b X) :
    Mono b (X.publishTail c r s) := by
  unfold B.publishTail
  extract_lets dupl s1 b1 bm
  have hs1 : s1.cid = s.cid ∧ s1.queue = s.queue := by simp only [s1]; split <;> exact ⟨rfl, rfl⟩
  have hb1 : Mono b b1 := by
    have hq : Mono b ((X.setSess s1).pubDupQuota c r dupl) := by
      unfold B.pubDupQuota
      split
      · exact mono_quotaBack _ _ _ (h.trans (mono_setSess_same X c.cid s s1 hs hs1.1 hs1.2))
      · exact h.trans (mono_setSess_same X c.cid s s1 hs hs1.1 hs1.2)
    refine hq.trans ?_
    simp only [b1, B.pubRetain]
    split
    · split <;> exact mono_retained _ _
    · exact Mono.refl _
  refine mono_pubAck b _ c r _ ?_
  simp only [bm]
  split
  · exact hb1.trans (mono_deliverMsg _ _ _ _ _)
  · exact hb1

theorem mono_publish (b : B) (r : PubReq) : Mono b (b.publish r) := by
  rw [publish_eq]
  cases hc : b.cli? r.conn with
  | none => exact Mono.refl b
  | some c =>
    have hconn := (cli?_some hc).2
    simp only
    split
    · exact mono_kick _ _ _
    · split
      · exact mono_kick _ _ _
      · split
        · exact mono_kick _ _ _
        · have hb1 : Mono b (b.setCli (pubCli c r)) :=
            mono_setCli b (pubCli c r) c (cli?_some hc).1 (pubCli_cid c r) (pubCli_used c r)
          have hm1 : pubCli c r ∈ (b.setCli (pubCli c r)).clis := List.mem_cons_self
          split
          · exact hb1.trans (mono_kick _ _ _)
          · split
            · exact hb1.trans (mono_kick _ _ _)
            · split
              · exact hb1.trans (mono_kick _ _ _)
              · next topic c2 hres =>
                obtain ⟨_, h2cid, _, h2used, _⟩ := aliasRes_ok hres
                have hb2 : Mono b ((b.setCli (pubCli c r)).setCli c2) :=
                  hb1.trans (mono_setCli _ c2 (pubCli c r) hm1 h2cid h2used)
                split
                · exact hb2
                · next s hs => exact mono_publishTail b _ c2 _ s hs hb2

theorem mono_subscribe (b : B) (conn : String) (pid : Nat) (topics : List SubTopic) (idProp : Nat) :
    Mono b (b.subscribe conn pid topics idProp) := by
  unfold B.subscribe
  cases hc : b.cli? conn with
  | none => exact Mono.refl b
  | some c =>
    simp -zeta only
    extract_lets subID
    split
    · exact mono_kick _ _ _
    · suffices h : ∀ (l : List SubTopic) (acc : B × List Nat), Mono acc.1 (l.foldl _ acc).1 from
        (h topics (b, [])).trans (mono_emit _ _ _ _)
      intro l
      induction l with
      | nil => intro acc; exact Mono.refl _
      | cons t ts ih =>
        intro acc
        rw [List.foldl_cons]
        refine Mono.trans ?_ (ih _)
        extract_lets b_1 last sub code0 code1 code2 code3 existed subs b2 b3
        by_cases hcode : code3 ≥ 128
        · rw [if_pos hcode]; exact Mono.refl _
        · rw [if_neg hcode]
          show Mono acc.1 b3
          refine (mono_subs acc.1 subs).trans ?_
          simp only [b3]
          split
          · split
            · exact Mono.refl _
            · refine mono_foldl _ (fun bb tm => ?_) _ _
              cases hs : bb.sess? c.cid with
              | none => exact Mono.refl _
              | some s =>
                simp only
                exact mono_addElem bb c.cid s hs _ rfl rfl _ rfl _
          · exact Mono.refl _

/-! ### the steps that hand out or take back packet ids -/

/-- preservation of the three invariants (`OutInv` needs `WF`: one connection per client id) -/
structure Pres (b b' : B) : Prop where
  outq : WF b → OutInv b → OutInv b'
  msgs : MsgsInv b → MsgsInv b'
  will : WillInv b → WillInv b'

theorem Mono.pres {b b' : B} (h : Mono b b') : Pres b b' := ⟨fun _ hi => h.outInv hi, h.msgs, h.will⟩

theorem sess_cid_of_none {b : B} {cid : String} (h : b.sess? cid = none) : ∀ s ∈ b.sessions, s.cid ≠ cid :=
  (sess?_eq_none_iff b cid).1 h

theorem pres_ackOut (b : B) (conn : String) (id : Nat) : Pres b (b.ackOut conn id) := by
  unfold B.ackOut
  cases hc : b.cli? conn with
  | none => exact (Mono.refl b).pres
  | some c =>
    obtain ⟨hcm, hconn⟩ := cli?_some hc
    simp only
    cases hs : b.sess? c.cid with
    | none =>
      simp only
      have hno := sess_cid_of_none hs
      refine ⟨fun _ hi => ⟨hi.q, ?_⟩, fun h => h.of_eq rfl rfl, fun h => h.of_frame rfl rfl (fun _ h => h)⟩
      intro x hx s' hs' hcid
      rcases mem_setCli' hx with rfl | ⟨hx, _⟩
      · exact absurd hcid (hno s' hs')
      · exact hi.c x hx s' hs' hcid
    | some s =>
      simp only
      obtain ⟨hsm, hscid⟩ := sess?_some hs
      have m1 := mono_setSess_of b c.cid s { s with queue := (s.queue.remove id).1 } hs rfl (Queue.qmono_remove s.queue id)
      refine ⟨fun _ hi => ?_, fun h => (m1.msgs h).of_eq rfl rfl, fun h => (m1.will h).of_frame rfl rfl (fun _ h => h)⟩
      have hi1 := m1.outInv hi
      refine ⟨hi1.q, ?_⟩
      intro x hx s' hs' hcid
      rcases mem_setCli' hx with rfl | ⟨hx, _⟩
      · rcases mem_setSess' (b := b) hs' with rfl | ⟨_, hne⟩
        · exact Queue.uok_release (hi.c c hcm s hsm hscid) (hi.q s hsm) id
        · exact absurd (hcid.trans hscid.symm) hne
      · exact hi1.c x hx s' hs' hcid

theorem pres_pubrecOut (b : B) (conn : String) (id code : Nat) : Pres b (b.pubrecOut conn id code) := by
  unfold B.pubrecOut
  cases hc : b.cli? conn with
  | none => exact (Mono.refl b).pres
  | some c =>
    simp only
    split
    · exact pres_ackOut b conn id
    · refine (Mono.trans (b := match b.sess? c.cid with
          | some s => b.setSess { s with queue := (s.queue.replace
              { tag := 0, pub := false, id := id, qos := 0, exp := none, size := 0 }).1 }
          | none => b) ?_ (mono_emit _ conn false _)).pres
      cases hs : b.sess? c.cid with
      | none => exact Mono.refl b
      | some s => exact mono_setSess_of b c.cid s _ hs rfl (Queue.qmono_replace s.queue _)

theorem Pres.trans_wf {a b c : B} (h1 : Pres a b) (hwf : WF a → WF b) (h2 : Pres b c) : Pres a c :=
  ⟨fun hw hi => h2.outq (hwf hw) (h1.outq hw hi), fun h => h2.msgs (h1.msgs h), fun h => h2.will (h1.will h)⟩

/-! #### the poll loop -/

theorem pumpMsgs_spec (b : B) (c : Cli) (out : List Queue.Elem) (ms : List Msg) (h : ∀ m ∈ ms, m.dup = false) :
    (pumpMsgs b c out ms).length = ms.length ∧ ∀ m ∈ pumpMsgs b c out ms, m.dup = false := by
  unfold pumpMsgs
  induction out generalizing ms with
  | nil => exact ⟨rfl, h⟩
  | cons e es ih =>
    simp only [List.foldl_cons]
    split
    · have hd : (ms.getD e.tag default).dup = false := by
        rw [List.getD_eq_getElem?_getD]
        cases hg : ms[e.tag]? with
        | none => rfl
        | some m => exact h m (List.mem_of_getElem? hg)
      obtain ⟨h1, h2⟩ := ih (ms.set e.tag { ms.getD e.tag default with
          expiry := remaining (ms.getD e.tag default).expiry (b.now - b.ats.getD e.tag b.now) }) (by
        intro m hm
        rcases List.mem_or_eq_of_mem_set hm with hm | rfl
        · exact h m hm
        · exact hd)
      exact ⟨by rw [h1, List.length_set], h2⟩
    · exact ih ms h

/-- a round of the poll loop as a run of primitive steps (for `WF`) -/
theorem pumpRound_run (b : B) (conn : String) (c : Cli) (s : Sess) (q' : Queue.Q) (out : List Queue.Elem)
    (hc : b.cli? conn = some c) (hs : b.sess? c.cid = some s) :
    PollRun (fun _ _ => True) conn b (b.pumpRound conn c s q' out) := by
  have hr := pump_fold (fun _ _ => True) conn (fun e => b.pubPkt c e (b.ats.getD e.tag b.now)) out b
  unfold B.pumpRound B.pumpEmit
  generalize hb1 : List.foldl (fun bb (e : Queue.Elem) => bb.emitPub conn (b.pubPkt c e (b.ats.getD e.tag b.now))) b out = b1 at hr
  have hss : b1.sessions = b.sessions := by rw [← hb1]; exact foldl_emitPub_sessions _ _ _ _
  extract_lets b1a b1' usedIds c1
  obtain ⟨c1', hc1, hsame⟩ := hr.cli c hc
  have hr' : PollRun (fun _ _ => True) conn b b1' := hr.trans (.single (.setMsgs b1 _))
  have hc1' : b1'.cli? conn = some c1' := hc1
  have hcc : c1 = c1' := by simp only [c1, hc1']
  have hs1' : b1'.sess? c1'.cid = some s := by
    rw [hsame.cid, ← hs]; unfold B.sess?
    show List.find? _ b1.sessions = _
    rw [hss]
  refine hr'.trans (.step (.setQueue b1' c1' s q' hc1' hs1' trivial) (.single (.setCli _ c1' _ hc1' ?_)))
  rw [hcc]
  exact ⟨rfl, rfl, rfl, rfl, rfl⟩

theorem pumpRound_wf {b : B} {conn : String} {c : Cli} {s : Sess} {q' : Queue.Q} {out : List Queue.Elem}
    (h : PumpRound conn b c s q' out) (hw : WF b) : WF (b.pumpRound conn c s q' out) :=
  (pumpRound_run b conn c s q' out h.cli h.sess).wf hw

theorem pumpIds_spec (c : Cli) : (pumpIds c).Nodup ∧ (∀ p ∈ pumpIds c, p ≠ 0 ∧ p ∉ c.used) ∧
    (pumpIds c).length ≤ c.maxInflight - c.used.length := by
  obtain ⟨h1, h2, h3⟩ := freshIds_spec c.used (min (min 100 c.maxInflight) (c.maxInflight - c.used.length))
  exact ⟨h2, h3, by unfold pumpIds; rw [h1]; exact Nat.min_le_right _ _⟩

/-- sessions, connections and the remaining fields after a round -/
theorem pumpRound_parts (b : B) (conn : String) (c : Cli) (s : Sess) (q' : Queue.Q) (out : List Queue.Elem)
    (hc : b.cli? conn = some c) :
    let b' := b.pumpRound conn c s q' out
    (∀ x ∈ b'.sessions, x = { s with queue := q' } ∨ (x ∈ b.sessions ∧ x.cid ≠ s.cid)) ∧
    (∀ x ∈ b'.clis, (x.cid = c.cid ∧ x.used = c.used ++ (out.filter (fun e => e.qos != 0)).map (·.id)) ∨
      (x.conn ≠ conn ∧ ∃ y ∈ b.clis, x.cid = y.cid ∧ x.used = y.used ∧ x.conn = y.conn)) ∧
    b'.msgs = pumpMsgs b c out b.msgs ∧ b'.ats = b.ats ∧ b'.pendingWills = b.pendingWills ∧ b'.offline = b.offline ∧
    (∀ cid, (b.sess? cid).isSome = true → (b'.sess? cid).isSome = true) := by
  intro b'
  obtain ⟨hpe, _⟩ := foldl_emitPub_out conn (fun e => b.pubPkt c e (b.ats.getD e.tag b.now)) out b
  obtain ⟨c', hc', e'⟩ := hpe.cli c hc
  obtain ⟨cl, o, e1⟩ := hpe.eq
  have hb' : b' = b.pumpRound conn c s q' out := rfl
  unfold B.pumpRound B.pumpEmit at hb'
  generalize List.foldl (fun bb (e : Queue.Elem) => bb.emitPub conn (b.pubPkt c e (b.ats.getD e.tag b.now))) b out = b1
    at hpe hc' e1 hb'
  have hc'' : B.cli? ({ b1 with msgs := pumpMsgs b c out b1.msgs } : B) conn = some c' := hc'
  simp only [hc''] at hb'
  have hconn : c'.conn = conn := (cli?_some hc').2
  refine ⟨?_, ?_, ?_, ?_, ?_, ?_, ?_⟩
  · intro x hx
    rw [hb'] at hx
    have hx' := mem_setSess' (b := ({ b1 with msgs := pumpMsgs b c out b1.msgs } : B)) (s := { s with queue := q' }) hx
    rcases hx' with h | ⟨h, hne⟩
    · exact .inl h
    · exact .inr ⟨by rw [← hpe.sessions]; exact h, hne⟩
  · intro x hx
    rw [hb'] at hx
    rcases mem_setCli' hx with rfl | ⟨hx, hne⟩
    · left
      show c'.cid = c.cid ∧ _
      rw [e']; exact ⟨rfl, rfl⟩
    · right
      have hne' : x.conn ≠ conn := by rw [← hconn]; exact hne
      obtain ⟨y, hy, ex, _⟩ := hpe.clis x hx
      exact ⟨hne', y, hy, by rw [ex], by rw [ex], by rw [ex]⟩
  · rw [hb']; show pumpMsgs b c out b1.msgs = _; rw [hpe.msgs]
  · rw [hb']; show b1.ats = b.ats; rw [e1]
  · rw [hb']; show b1.pendingWills = b.pendingWills; rw [e1]
  · rw [hb']; show b1.offline = b.offline; rw [e1]
  · intro cid hcid
    rw [hb', setCli_sess?, sess?_setSess]
    split
    · rfl
    · show (B.sess? b1 cid).isSome = true
      rw [hpe.sess?]; exact hcid

theorem pres_pumpRound {b : B} {conn : String} {c : Cli} {s : Sess} {q' : Queue.Q} {out : List Queue.Elem}
    (h : PumpRound conn b c s q' out) : Pres b (b.pumpRound conn c s q' out) := by
  obtain ⟨hc, hs, _, evs, hread⟩ := h
  obtain ⟨hcm, hconn⟩ := cli?_some hc
  obtain ⟨hsm, hscid⟩ := sess?_some hs
  obtain ⟨hS, hC, hmsgs, hats, hpw, hoff, hsome⟩ := pumpRound_parts b conn c s q' out hc
  refine ⟨fun hw hi => ?_, fun hm => ?_, fun hwi => hwi.of_frame hpw hoff hsome⟩
  · obtain ⟨hnd, hfresh, _⟩ := pumpIds_spec c
    obtain ⟨hq', hu', _⟩ := Queue.read_ok_inv hread (hi.q s hsm) (hi.c c hcm s hsm hscid) hnd hfresh
    refine ⟨?_, ?_⟩
    · intro x hx
      rcases hS x hx with rfl | ⟨hx, _⟩
      · exact hq'
      · exact hi.q x hx
    · intro x hx s' hs' hcid
      rcases hC x hx with ⟨hxc, hxu⟩ | ⟨hne, y, hy, hyc, hyu, hyconn⟩
      · rcases hS s' hs' with rfl | ⟨_, hne⟩
        · rw [hxu]; exact hu'
        · exact absurd (hcid.trans (hxc.trans hscid.symm)) hne
      · rcases hS s' hs' with rfl | ⟨hs'', _⟩
        · exfalso
          have : y = c := hw.cid_inj hy hcm (by rw [← hyc, ← hcid]; exact hscid)
          exact hne (by rw [hyconn, this, hconn])
        · rw [hyu]
          exact hi.c y hy s' hs'' (by rw [hcid, hyc])
  · obtain ⟨h1, h2⟩ := pumpMsgs_spec b c out b.msgs hm.dup
    exact ⟨by rw [hats, hmsgs, h1]; exact hm.len, by rw [hmsgs]; exact h2⟩

theorem pres_pumpTrace {conn : String} {b b' : B} {rs : List Round} (h : PumpTrace conn b rs b') :
    (WF b → WF b') ∧ Pres b b' := by
  induction h with
  | stop b => exact ⟨id, (Mono.refl b).pres⟩
  | round b c s q' out rs b' hround _ ih =>
    exact ⟨fun hw => ih.1 (pumpRound_wf hround hw), (pres_pumpRound hround).trans_wf (pumpRound_wf hround) ih.2⟩

theorem pres_pump (b : B) (conn : String) (fuel : Nat) : (WF b → WF (b.pump conn fuel)) ∧ Pres b (b.pump conn fuel) := by
  obtain ⟨rs, h⟩ := pump_trace fuel b conn
  exact pres_pumpTrace h

theorem pres_pumpAll (b : B) : Pres b b.pumpAll := by
  unfold B.pumpAll
  generalize (b.clis.map (·.conn)).mergeSort (· ≤ ·) = l
  suffices h : ∀ (l : List String) (b : B), (WF b → WF (l.foldl (fun bb cn => bb.pump cn 10000) b)) ∧
      Pres b (l.foldl (fun bb cn => bb.pump cn 10000) b) from (h l b).2
  intro l
  induction l with
  | nil => intro b; exact ⟨id, (Mono.refl b).pres⟩
  | cons x xs ih =>
    intro b
    obtain ⟨w1, p1⟩ := pres_pump b x 10000
    obtain ⟨w2, p2⟩ := ih (b.pump x 10000)
    exact ⟨fun hw => w2 (w1 hw), p1.trans_wf w1 p2⟩

/-! #### CONNECT -/

theorem replay_one (b : B) (conn : String) (c : Cli) (s : Sess) (hc : b.cli? conn = some c) (hs : b.sess? c.cid = some s)
    (hne : (s.queue.readInflight b.now c.maxInflight).2.isEmpty = false) :
    b.replay conn 1 = b.replayRound conn c s (s.queue.readInflight b.now c.maxInflight).1
      (s.queue.readInflight b.now c.maxInflight).2 := by
  rw [replay_succ]
  simp only [hc, hs, hne, Bool.false_eq_true, if_false]
  rfl

theorem outInv_replayRound {b : B} {conn : String} {c : Cli} {s : Sess} (hw : WF b) (hi : OutInv b)
    (hc : b.cli? conn = some c) (hs : b.sess? c.cid = some s)
    (hne : (s.queue.readInflight b.now c.maxInflight).2.isEmpty = false) :
    let b' := b.replayRound conn c s (s.queue.readInflight b.now c.maxInflight).1 (s.queue.readInflight b.now c.maxInflight).2
    WF b' ∧ OutInv b' := by
  intro b'
  obtain ⟨hcm, hconn⟩ := cli?_some hc
  obtain ⟨hsm, hscid⟩ := sess?_some hs
  have hw' : WF b' := by
    have := (replay_run 1 b conn).wf hw
    rw [replay_one b conn c s hc hs hne] at this
    exact this
  obtain ⟨_, ⟨c1, hc1, ec1⟩, _, _, _, hC, hS⟩ := replayRound_spec b conn c s _ _ hc hs
  obtain ⟨hq', hu'⟩ := Queue.readInflight_inv s.queue b.now c.maxInflight (hi.q s hsm) (hi.c c hcm s hsm hscid)
  obtain ⟨hc1m, hc1conn⟩ := cli?_some hc1
  refine ⟨hw', ?_, ?_⟩
  · intro x hx
    rcases hS x hx with rfl | ⟨hx, _⟩
    · exact hq'
    · exact hi.q x hx
  · intro x hx s' hs' hcid
    by_cases hxc : x.conn = conn
    · have hx1 : x = c1 := hw'.conn_inj hx hc1m (hxc.trans hc1conn.symm)
      have hxcid : x.cid = c.cid := by rw [hx1, ec1]
      have hxu : x.used = c.used ++ (s.queue.readInflight b.now c.maxInflight).2.map (·.id) := by rw [hx1, ec1]
      rcases hS s' hs' with rfl | ⟨_, hne'⟩
      · rw [hxu]; exact hu'
      · exact absurd (hcid.trans (hxcid.trans hscid.symm)) hne'
    · have hxb := hC x hx hxc
      rcases hS s' hs' with rfl | ⟨hs'', _⟩
      · exfalso
        have : x = c := hw.cid_inj hxb hcm (by rw [← hcid]; exact hscid)
        exact hxc (by rw [this, hconn])
      · exact hi.c x hxb s' hs'' hcid

theorem outInv_setQueue {b : B} {c : Cli} {s : Sess} {q' : Queue.Q} (hw : WF b) (hi : OutInv b) (hcm : c ∈ b.clis)
    (hs : b.sess? c.cid = some s) (hq : QOk q') (hu : UOk c.used q') : OutInv (b.setSess { s with queue := q' }) := by
  obtain ⟨hsm, hscid⟩ := sess?_some hs
  refine ⟨?_, ?_⟩
  · intro x hx
    rcases mem_setSess' hx with rfl | ⟨hx, _⟩
    · exact hq
    · exact hi.q x hx
  · intro x hx s' hs' hcid
    rcases mem_setSess' (b := b) hs' with rfl | ⟨hs'', _⟩
    · have : x = c := hw.cid_inj hx hcm (by rw [← hcid]; exact hscid)
      rw [this]; exact hu
    · exact hi.c x hx s' hs'' hcid

theorem outInv_replay (fuel : Nat) (b : B) (conn : String) (hw : WF b) (hi : OutInv b) :
    OutInv (b.replay conn fuel) := by
  induction fuel generalizing b with
  | zero => exact hi
  | succ fuel ih =>
    rw [replay_succ]
    cases hc : b.cli? conn with
    | none => exact hi
    | some c =>
      simp only
      cases hs : b.sess? c.cid with
      | none => exact hi
      | some s =>
        simp only
        obtain ⟨hcm, _⟩ := cli?_some hc
        obtain ⟨hsm, hscid⟩ := sess?_some hs
        cases hne : (s.queue.readInflight b.now c.maxInflight).2.isEmpty with
        | true =>
          simp only [if_true]
          obtain ⟨hq', hu'⟩ := Queue.readInflight_inv s.queue b.now c.maxInflight (hi.q s hsm) (hi.c c hcm s hsm hscid)
          have hnil : (s.queue.readInflight b.now c.maxInflight).2 = [] := List.isEmpty_iff.1 hne
          rw [hnil] at hu'
          simp only [List.map_nil, List.append_nil] at hu'
          exact outInv_setQueue hw hi hcm hs hq' hu'
        | false =>
          simp only [Bool.false_eq_true, if_false]
          obtain ⟨hw', hi'⟩ := outInv_replayRound hw hi hc hs hne
          exact ih _ hw' hi'

theorem pres_replay (fuel : Nat) (b : B) (conn : String) : Pres b (b.replay conn fuel) := by
  have hf := replay_frame fuel b conn
  have hr := replay_run fuel b conn
  refine ⟨fun hw hi => outInv_replay fuel b conn hw hi, fun h => h.of_eq hf.msgs hf.ats,
    fun h => h.of_frame hf.pendingWills hr.frame.offline (fun cid hcid => ?_)⟩
  cases hs : b.sess? cid with
  | none => rw [hs] at hcid; cases hcid
  | some s =>
    obtain ⟨s', hs', _⟩ := hr.sess keysEq_refl keysEq_trans cid s hs
    rw [hs']; rfl

theorem mono_dropWill (b : B) (cid : String) : Mono b (b.dropWill cid) := by
  refine ⟨⟨fun s hs => ⟨s, hs, rfl, QMono.refl _⟩, fun c hc => ⟨c, hc, rfl, rfl⟩, fun h => h.of_eq rfl rfl⟩, fun hw => ?_⟩
  exact ⟨hw.nodup.sublist (List.filter_sublist.map _), fun w hw' => hw.stored w (List.mem_filter.1 hw').1⟩

theorem mono_endOld (b1 : B) (r : ConnectReq) : Mono b1 (endOld b1 r) := by
  unfold endOld
  split
  · split
    · exact mono_terminateS _ _
    · exact mono_dropWill _ _
  · exact Mono.refl b1

/-- after the old session has been dealt with, no will is pending for the connecting client id -/
theorem endOld_no_will (b1 : B) (r : ConnectReq) (hwi : WillInv b1) :
    ∀ w ∈ (endOld b1 r).pendingWills, w.1 ≠ r.cid := by
  unfold endOld
  cases hs : b1.sess? r.cid with
  | none =>
    intro w hw he
    have := (hwi.stored w hw).2
    rw [he, hs] at this; cases this
  | some s =>
    simp only
    split
    · intro w hw
      rw [terminateS_pendingWills] at hw
      simpa using (List.mem_filter.1 hw).2
    · intro w hw
      simpa using (List.mem_filter.1 hw).2

theorem newQueue_ok (cfg : Cfg) (b1 : B) (r : ConnectReq) (hq : ∀ s, b1.sess? r.cid = some s → QOk s.queue) :
    QOk (newQueue cfg b1 r) ∧ UOk [] (newQueue cfg b1 r) := by
  unfold newQueue
  cases hs : b1.sess? r.cid with
  | none =>
    have hr : resumeOf b1 r = false := by unfold resumeOf; rw [hs]
    simp only [hr, Bool.false_eq_true, if_false]
    exact Queue.init_clean_inv _ _ _
  | some s =>
    cases hr : resumeOf b1 r with
    | false =>
      simp only [Bool.false_eq_true, if_false]
      exact Queue.init_clean_inv _ _ _
    | true =>
      simp only [if_true]
      exact Queue.init_inv s.queue (cliMaxPktOf r)
        (fun e => if e.pub then { e with size := totalBytes r.v ((endOld b1 r).msgOf e.tag) } else e)
        (fun e => by split <;> rfl) (fun e => by split <;> rfl) (hq s hs)

theorem willInv_connectCore (cfg : Cfg) (b1 : B) (r : ConnectReq) (hwi : WillInv b1) :
    WillInv (connectCore cfg b1 r) := by
  have m := mono_endOld b1 r
  have hw2 := m.will hwi
  have hno := endOld_no_will b1 r hwi
  refine ⟨hw2.nodup, fun w hw => ?_⟩
  obtain ⟨⟨cd, hcd, e⟩, h2⟩ := hw2.stored w hw
  refine ⟨⟨cd, List.mem_filter.2 ⟨hcd, by simpa [e] using hno w hw⟩, e⟩, ?_⟩
  exact (grow_setSess (endOld b1 r) (newSess cfg b1 r)).sess _ h2

theorem pres_connectCore (cfg : Cfg) (b1 : B) (r : ConnectReq) (hcid : ∀ x ∈ b1.clis, x.cid ≠ r.cid) :
    Pres b1 (connectCore cfg b1 r) := by
  have m := mono_endOld b1 r
  have hclis : (endOld b1 r).clis = b1.clis := endOld_clis b1 r
  refine ⟨fun _ hi => ?_, fun h => (m.msgs h).of_eq rfl rfl, willInv_connectCore cfg b1 r⟩
  · have hi2 := m.outInv hi
    obtain ⟨hq, hu⟩ := newQueue_ok cfg b1 r (fun s hs => hi.q s (sess?_some hs).1)
    refine ⟨?_, ?_⟩
    · intro x hx
      rcases mem_setSess' (b := endOld b1 r) (s := newSess cfg b1 r) hx with rfl | ⟨hx, _⟩
      · exact hq
      · exact hi2.q x hx
    · intro x hx s' hs' hcid'
      have hs'' := mem_setSess' (b := endOld b1 r) (s := newSess cfg b1 r) hs'
      rcases mem_setCli' (b := (endOld b1 r).setSess (newSess cfg b1 r)) (c := newCli cfg r) hx with rfl | ⟨hx, _⟩
      · rcases hs'' with rfl | ⟨_, hne⟩
        · exact hu
        · exact absurd hcid' hne
      · have hxb : x ∈ b1.clis := by rw [← hclis]; exact hx
        rcases hs'' with rfl | ⟨hs'', _⟩
        · exact absurd hcid'.symm (hcid x hxb)
        · exact hi2.c x hx s' hs'' hcid'

theorem mono_afterDisplace (b : B) (cid : String) : Mono b (afterDisplace b cid) := by
  rcases afterDisplace_def b cid with e | ⟨old, _, e⟩
  · rw [e]; exact Mono.refl b
  · rw [e]; exact mono_kick _ _ _

theorem pres_connect (b : B) (r : ConnectReq) (hfresh : b.cli? r.conn = none) : Pres b (b.connect r) := by
  rw [connect_eq]
  have m1 := mono_afterDisplace b r.cid
  have hconn : ∀ x ∈ (afterDisplace b r.cid).clis, x.conn ≠ r.conn := by
    intro x hx hxc
    have hm := afterDisplace_clis b r.cid x hx
    unfold B.cli? at hfresh
    rw [List.find?_eq_none] at hfresh
    exact hfresh x hm (by simpa using hxc)
  refine ⟨fun hw hi => ?_, fun h => ?_, fun h => ?_⟩
  · have hw1 := hw.afterDisplace r.cid
    have hno := afterDisplace_nocid hw r.cid
    have p2 := pres_connectCore b.cfg _ r hno
    have hw2 := core_wf b.cfg r hw1 hno hconn
    exact (pres_replay 100000 _ r.conn).outq hw2 (p2.outq hw1 (m1.outInv hi))
  · have p2 : MsgsInv (connectCore b.cfg (afterDisplace b r.cid) r) :=
      ((mono_endOld _ r).msgs (m1.msgs h)).of_eq rfl rfl
    exact (pres_replay 100000 _ r.conn).msgs p2
  · exact (pres_replay 100000 _ r.conn).will (willInv_connectCore b.cfg _ r (m1.will h))

/-! ### every wire step -/

theorem pres_step (b : B) (st : Step) : Pres b (stepB b st) := by
  cases st with
  | connect r =>
    simp only [stepB]
    cases hc : b.cli? r.conn with
    | some c => exact (Mono.refl b).pres
    | none => exact pres_connect b r hc
  | subscribe c p t i => exact (mono_subscribe b c p t i).pres
  | unsubscribe c p t => exact (mono_unsubscribe b c p t).pres
  | publish r => exact (mono_publish b r).pres
  | pubrel c p => exact (mono_pubrelIn b c p).pres
  | ack c i => exact pres_ackOut b c i
  | pubrec c i k => exact pres_pubrecOut b c i k
  | disconnect c se code => exact (mono_disconnectIn b c se code).pres
  | close c => exact (mono_closeIn b c).pres
  | apiPublish m => exact (mono_deliverMsg b "" m [] []).pres
  | apiTerminate cid => exact (mono_apiTerminate b cid).pres
  | apiExpire => exact (mono_apiExpire b).pres
  | apiBackdate cid s => exact (mono_apiBackdate b cid s).pres
  | sleep ms => exact (mono_sleep b ms).pres
  | pump => exact pres_pumpAll b

/-- the invariants of reachable states, together -/
structure RInv (b : B) : Prop where
  wf : WF b
  outq : OutInv b
  msgs : MsgsInv b
  will : WillInv b

theorem rinv_empty (cfg : Cfg) : RInv { cfg := cfg } :=
  ⟨wf_empty cfg, outInv_empty cfg, msgsInv_empty cfg, willInv_empty cfg⟩

theorem rinv_step {b : B} (h : RInv b) (st : Step) : RInv (stepB b st) :=
  ⟨wf_step h.wf st, (pres_step b st).outq h.wf h.outq, (pres_step b st).msgs h.msgs, (pres_step b st).will h.will⟩

theorem rinv_run {b : B} (h : RInv b) (steps : List Step) : RInv (runB b steps) := by
  induction steps generalizing b with
  | nil => exact h
  | cons s ss ih => exact ih (rinv_step h s)

theorem reachable_rinv (cfg : Cfg) (steps : List Step) : RInv (runB { cfg := cfg } steps) := rinv_run (rinv_empty cfg) steps

/-- with `WF` and `WillInv`: no will is pending for an online client -/
theorem online_no_pending_will {b : B} (hw : WF b) (hwi : WillInv b) : ∀ c ∈ b.clis, b.willOf? c.cid = none := by
  intro c hc
  unfold B.willOf?
  rw [List.find?_eq_none]
  intro w hw' hwc
  obtain ⟨⟨cd, hcd, e⟩, _⟩ := hwi.stored w hw'
  have hw1 : w.1 = c.cid := by simpa using hwc
  exact hw.offl cd hcd c hc (by rw [e, hw1])

end GmqttVerif.Broker
