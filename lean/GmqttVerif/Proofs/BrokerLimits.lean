import GmqttVerif.Proofs.BrokerReplay
import GmqttVerif.Proofs.Alias
/-
  Helper lemmas for `Properties/C13Broker.lean` (limits negotiated at CONNECT, over the wire-level broker model), part 1:
  sizes (`totalBytes`, the size of the packet `pollNewMessages` writes), `emitPub` as `Alias.emit` (topic-alias rewriting
  in `writeLoop`), `kick`, and the size invariant `SzInv` of reachable states with the queue-level facts it needs.
-/
namespace GmqttVerif.Broker
open GmqttVerif.Deliver

/-! ### the parts of a PUBLISH packet that alias rewriting changes -/

def Pkt.size? : Pkt → Option Nat
  | .publish _ _ _ _ _ _ _ _ _ _ size => some size
  | _ => none

/-- the Topic Alias property -/
def Pkt.alias? : Pkt → Option Nat
  | .publish _ _ _ _ _ _ _ _ _ alias _ => alias
  | _ => none

/-- the topic name on the wire -/
def Pkt.topic? : Pkt → Option String
  | .publish topic _ _ _ _ _ _ _ _ _ _ => some topic
  | _ => none

/-! ### `Message.TotalBytes` -/

/-- `totalBytes` looks at: payload length, topic, QoS > 0; and for v5 at the subscription identifiers and at whether
    there is a Message Expiry Interval -/
theorem totalBytes_congr (v : Nat) (m m' : Msg) (h1 : m'.plen = m.plen) (h2 : m'.topic = m.topic) (h3 : m'.qos = m.qos)
    (h4 : v = 5 → m'.sids = m.sids ∧ (m'.expiry != 0) = (m.expiry != 0)) : totalBytes v m' = totalBytes v m := by
  unfold totalBytes
  by_cases hv : v = 5
  · obtain ⟨h5, h6⟩ := h4 hv
    simp only [h1, h2, h3, h5, h6]
  · have : (v == 5) = false := by simpa using hv
    simp only [h1, h2, h3, this, Bool.false_eq_true, if_false]

theorem remaining_ne_zero (orig waited : Nat) : remaining orig waited ≠ 0 := by
  unfold remaining
  simp only
  split <;> omega

/-- the size `pollNewMessages` computes for the packet it writes is `TotalBytes` of the stored message for the
    connection's protocol version (the reduced expiry interval has the same encoded length) -/
theorem pubPkt_size (b : B) (c : Cli) (e : Queue.Elem) (at_ : Nat) :
    (b.pubPkt c e at_).size? = some (totalBytes c.v (b.msgOf e.tag)) := by
  unfold B.pubPkt
  simp only [Pkt.size?, Option.some.injEq]
  apply totalBytes_congr <;> try rfl
  intro hv
  have hv' : (c.v == 5) = true := by simpa using hv
  simp only [hv', if_true, Bool.true_and, true_and]
  by_cases he : (b.msgOf e.tag).expiry = 0
  · simp [he]
  · have h1 : ((b.msgOf e.tag).expiry != 0) = true := by simpa using he
    have h2 := remaining_ne_zero (b.msgOf e.tag).expiry (b.now - at_)
    simp only [h1, if_true]
    simpa using h2

theorem pubPkt_alias (b : B) (c : Cli) (e : Queue.Elem) (at_ : Nat) : (b.pubPkt c e at_).alias? = none := rfl
theorem pubPkt_topic (b : B) (c : Cli) (e : Queue.Elem) (at_ : Nat) :
    (b.pubPkt c e at_).topic? = some (b.msgOf e.tag).topic := rfl

/-! ### `emitPub` is `Alias.emit` on the (topic name, Topic Alias) part -/

/-- the topic name that goes on the wire -/
def aliasTopic (ap : Alias.Pkt String) : String := match ap.topic with | some t => t | none => ""

/-- the packet size after the rewriting: the topic name is left out and / or the 3-byte Topic Alias property added
    (`size` already counts the topic name; the property length is assumed to stay in the same length class) -/
def aliasSize (topic : String) (size : Nat) (ap : Alias.Pkt String) : Nat :=
  match ap.topic, ap.alias with
  | none, _ => size - topic.utf8ByteSize + aliasPropBytes
  | some _, some _ => size + aliasPropBytes
  | some _, none => size

/-- `emitPub` for a PUBLISH without Topic Alias on an online connection: for a v5 client that declared a Topic Alias
    Maximum > 0 it is `Alias.emit` (the model of `topicalias/fifo.Check` + the rewriting in `writeLoop`, C13) applied to
    the topic name, with the manager state stored back; otherwise the packet goes out as it is. -/
theorem emitPub_alias (b : B) (conn : String) (c : Cli) (hc : b.cli? conn = some c)
    (topic : String) (qos : Nat) (retain dup : Bool) (id : Nat) (tag : String) (plen : Nat) (sids : List Nat)
    (exp : Option Nat) (size : Nat) :
    (¬ (c.v = 5 ∧ 0 < c.cliAliasMax) →
      b.emitPub conn (.publish topic qos retain dup id tag plen sids exp none size) =
        b.emit conn true (.publish topic qos retain dup id tag plen sids exp none size)) ∧
    (c.v = 5 → 0 < c.cliAliasMax →
      match Alias.emit c.cliAliasMax c.aliasOut topic with
      | .ok q' ap =>
        b.emitPub conn (.publish topic qos retain dup id tag plen sids exp none size) =
          (b.setCli { c with aliasOut := q' }).emit conn true
            (.publish (aliasTopic ap) qos retain dup id tag plen sids exp ap.alias (aliasSize topic size ap))
      | .panic =>
        b.emitPub conn (.publish topic qos retain dup id tag plen sids exp none size) =
          b.emit conn true (.publish topic qos retain dup id tag plen sids exp none size)) := by
  have hc' : b.clis.find? (·.conn == conn) = some c := hc
  obtain ⟨_, rfl⟩ := cli?_some hc
  refine ⟨fun hn => ?_, fun hv hpos => ?_⟩
  · have : (c.v == 5 && decide (c.cliAliasMax > 0)) = false := by
      rw [Bool.eq_false_iff]; intro h
      simp only [Bool.and_eq_true, beq_iff_eq, decide_eq_true_eq] at h
      exact hn h
    simp only [B.emitPub, hc', this, Bool.false_eq_true, if_false]
  · have : (c.v == 5 && decide (c.cliAliasMax > 0)) = true := by simp [hv, hpos]
    unfold Alias.emit
    rw [if_pos hpos]
    simp only [B.emitPub, hc', this, if_true]
    cases hchk : c.aliasOut.check topic with
    | panic => rfl
    | ok q a exist =>
      cases exist with
      | true => rfl
      | false =>
        by_cases ha : a = 0
        · subst ha; rfl
        · have h1 : (a != 0) = true := by simpa using ha
          simp only [Bool.false_eq_true, if_false, h1, if_true, ne_eq, ha, not_false_eq_true]
          rfl

/-! ### `kick` -/

/-- the broker ends a v5 connection with a reason code: DISCONNECT(code), then the socket is closed; the connection
    is no longer registered -/
theorem kick_v5 (b : B) (conn : String) (c : Cli) (k : Nat) (hc : b.cli? conn = some c) (hv : c.v = 5) :
    (b.kick conn (some k)).out =
      b.out ++ [{ conn := conn, poll := false, pkt := .disconnect k }, { conn := conn, poll := false, pkt := .closed }] ∧
    (b.kick conn (some k)).cli? conn = none ∧ (b.kick conn (some k)).cfg = b.cfg := by
  refine ⟨?_, ?_, (kick_frame b conn _).1⟩
  · unfold B.kick
    have hv' : (c.v == 5) = true := by simpa using hv
    simp only [hc, hv', if_true]
    rw [unregister_out]
    simp [B.emit]
  · unfold B.cli?
    rw [(kick_frame b conn _).2.2]
    exact find?_filter_self (fun (x : Cli) => x.conn) conn b.clis

theorem kick_offline (b : B) (conn : String) (code : Option Nat) : (b.kick conn code).cli? conn = none := by
  unfold B.cli?
  rw [(kick_frame b conn _).2.2]
  exact find?_filter_self (fun (x : Cli) => x.conn) conn b.clis

/-! ### the message log up to `totalBytes` -/

/-- `b'` has at least the log entries of `b`, and the old ones have the same encoded length (for every version) -/
structure MsgsExt (b b' : B) : Prop where
  len : b.msgs.length ≤ b'.msgs.length
  bytes : ∀ t, t < b.msgs.length → ∀ v, totalBytes v (b'.msgOf t) = totalBytes v (b.msgOf t)

theorem MsgsExt.of_eq {b b' : B} (h : b'.msgs = b.msgs) : MsgsExt b b' :=
  ⟨by rw [h]; exact Nat.le_refl _, fun t _ v => by unfold B.msgOf; rw [h]⟩

theorem MsgsExt.trans {a b c : B} (h1 : MsgsExt a b) (h2 : MsgsExt b c) : MsgsExt a c :=
  ⟨Nat.le_trans h1.len h2.len, fun t ht v =>
    (h2.bytes t (Nat.lt_of_lt_of_le ht h1.len) v).trans (h1.bytes t ht v)⟩

theorem msgOf_append_lt (ms : List Msg) (m : Msg) (t : Nat) (h : t < ms.length) :
    (ms ++ [m]).getD t default = ms.getD t default := by
  rw [List.getD_eq_getElem?_getD, List.getD_eq_getElem?_getD, List.getElem?_append_left h]

theorem msgOf_append_len (ms : List Msg) (m : Msg) : (ms ++ [m]).getD ms.length default = m := by
  rw [List.getD_eq_getElem?_getD]
  simp

theorem msgsExt_append (b b' : B) (m : Msg) (h : b'.msgs = b.msgs ++ [m]) : MsgsExt b b' :=
  ⟨by rw [h]; simp, fun t ht v => by unfold B.msgOf; rw [h, msgOf_append_lt _ _ _ ht]⟩

/-- the expiry bookkeeping of the poll loop does not change encoded lengths -/
theorem pumpMsgs_bytes (b : B) (c : Cli) (out : List Queue.Elem) (ms : List Msg) :
    (pumpMsgs b c out ms).length = ms.length ∧
    ∀ t v, totalBytes v ((pumpMsgs b c out ms).getD t default) = totalBytes v (ms.getD t default) := by
  unfold pumpMsgs
  induction out generalizing ms with
  | nil => exact ⟨rfl, fun _ _ => rfl⟩
  | cons e es ih =>
    simp only [List.foldl_cons]
    split
    · next hcond =>
      have hne : (ms.getD e.tag default).expiry ≠ 0 := by
        simp only [Bool.and_eq_true, bne_iff_ne, ne_eq] at hcond
        exact hcond.2
      obtain ⟨h1, h2⟩ := ih (ms.set e.tag { ms.getD e.tag default with
        expiry := remaining (ms.getD e.tag default).expiry (b.now - b.ats.getD e.tag b.now) })
      refine ⟨by rw [h1, List.length_set], fun t v => ?_⟩
      rw [h2 t v]
      by_cases het : e.tag = t ∧ e.tag < ms.length
      · obtain ⟨rfl, hlt⟩ := het
        rw [List.getD_eq_getElem?_getD, List.getElem?_set_self hlt, Option.getD_some]
        apply totalBytes_congr <;> try rfl
        intro _
        refine ⟨rfl, ?_⟩
        have h3 := remaining_ne_zero (ms.getD e.tag default).expiry (b.now - b.ats.getD e.tag b.now)
        have e1 : (remaining (ms.getD e.tag default).expiry (b.now - b.ats.getD e.tag b.now) != 0) = true := by simpa using h3
        have e2 : ((ms.getD e.tag default).expiry != 0) = true := by simpa using hne
        show (remaining _ _ != 0) = _
        rw [e1, e2]
      · congr 1
        rw [List.getD_eq_getElem?_getD, List.getD_eq_getElem?_getD, List.getElem?_set]
        by_cases h4 : e.tag = t
        · have h5 : ¬ e.tag < ms.length := fun h => het ⟨h4, h⟩
          subst h4
          simp [h5]
        · simp [h4]
    · exact ih ms

theorem msgsExt_pumpMsgs (b0 : B) (c : Cli) (out : List Queue.Elem) (b b' : B)
    (h : b'.msgs = pumpMsgs b0 c out b.msgs) : MsgsExt b b' := by
  obtain ⟨h1, h2⟩ := pumpMsgs_bytes b0 c out b.msgs
  exact ⟨by rw [h, h1]; exact Nat.le_refl _, fun t _ v => by unfold B.msgOf; rw [h]; exact h2 t v⟩

/-! ### what queue operations do to tags, the cursor and the read limit -/

/-- `q'` has the read limit of `q`, no new message identities, and nothing new behind the cursor -/
structure QSub (q q' : Queue.Q) : Prop where
  limit : q'.limit = q.limit
  tags : ∀ e ∈ q'.items, ∃ e0 ∈ q.items, e0.tag = e.tag
  rest : ∀ e ∈ q'.rest, e ∈ q.rest

theorem QSub.refl (q : Queue.Q) : QSub q q := ⟨rfl, fun e he => ⟨e, he, rfl⟩, fun _ he => he⟩

theorem qsub_close (q : Queue.Q) : QSub q q.close := ⟨rfl, fun e he => ⟨e, he, rfl⟩, fun _ he => he⟩

theorem mem_items_done {q : Queue.Q} {e : Queue.Elem} (h : e ∈ q.done) : e ∈ q.items := List.mem_append_left _ h
theorem mem_items_rest {q : Queue.Q} {e : Queue.Elem} (h : e ∈ q.rest) : e ∈ q.items := List.mem_append_right _ h

theorem qsub_read {q q' : Queue.Q} {now : Nat} {pids : List Nat} {out : List Queue.Elem} {evs : List Queue.Ev}
    (h : q.read now pids = (q', .ok out evs)) : QSub q q' := by
  have hsound := Queue.read_ok_sound q now pids out evs q' h
  rcases Queue.read_cases q now pids with h' | h' | h' | ⟨_, _, h'⟩
  · rw [h'] at h; simp at h
  · rw [h'] at h; simp at h
  · rw [h'] at h; simp at h
  rw [h'] at h
  simp only [Prod.mk.injEq, Queue.ReadRes.ok.injEq] at h
  obtain ⟨hq', hout, _⟩ := h
  have hsuf := Queue.readLoop_suffix now q.ie q.limit (min pids.length q.items.length) q.rest pids
  have hkept := Queue.readLoop_kept_eq now q.ie q.limit (min pids.length q.items.length) q.rest pids
  generalize Queue.readLoop now q.ie q.limit (min pids.length q.items.length) q.rest pids = r at hq' hout hsuf hkept
  rw [hout] at hkept
  rw [← hq']
  refine ⟨rfl, ?_, fun e he => hsuf.subset he⟩
  intro e he
  have he' : e ∈ (q.done ++ r.kept) ++ r.rest := he
  rcases List.mem_append.1 he' with he1 | he3
  · rcases List.mem_append.1 he1 with he1 | he2
    · exact ⟨e, mem_items_done he1, rfl⟩
    · rw [hkept] at he2
      obtain ⟨v, hv, ht, _⟩ := hsound e (List.mem_filter.1 he2).1
      exact ⟨v, mem_items_rest hv, ht⟩
  · exact ⟨e, mem_items_rest (hsuf.subset he3), rfl⟩

theorem qsub_readInflight (q : Queue.Q) (now n : Nat) : QSub q (q.readInflight now n).1 := by
  simp only [Queue.Q.readInflight]
  split
  · exact ⟨rfl, fun e he => ⟨e, he, rfl⟩, fun _ he => he⟩
  · obtain ⟨pre, h1, h2, _, _⟩ := Queue.inflightLoop_spec now q.ie (min n q.items.length) q.rest
    generalize Queue.inflightLoop now q.ie (min n q.items.length) q.rest = r at h1 h2 ⊢
    obtain ⟨out, rest', d⟩ := r
    simp only at h1 h2 ⊢
    refine ⟨rfl, ?_, fun e he => by rw [h1]; exact List.mem_append_right _ he⟩
    intro e he
    have he' : e ∈ (q.done ++ out) ++ rest' := he
    rcases List.mem_append.1 he' with he1 | he3
    · rcases List.mem_append.1 he1 with he1 | he2
      · exact ⟨e, mem_items_done he1, rfl⟩
      · rw [h2] at he2
        obtain ⟨v, hv, rfl⟩ := List.mem_map.1 he2
        exact ⟨v, mem_items_rest (by rw [h1]; exact List.mem_append_left _ hv), rfl⟩
    · exact ⟨e, mem_items_rest (by rw [h1]; exact List.mem_append_right _ he3), rfl⟩

theorem qsub_remove (q : Queue.Q) (pid : Nat) : QSub q (q.remove pid).1 := by
  rcases Queue.remove_spec q pid with ⟨h, _⟩ | ⟨v, d, hx, h⟩
  · rw [h]; exact QSub.refl q
  · rw [h]
    have hsub := (Queue.extractFirst_some hx).2.2
    refine ⟨rfl, ?_, fun _ he => he⟩
    intro e he
    simp only [Queue.Q.items, List.mem_append] at he
    rcases he with he | he
    · exact ⟨e, by simp [Queue.Q.items, hsub.subset he], rfl⟩
    · exact ⟨e, by simp [Queue.Q.items, he], rfl⟩

theorem qsub_replace (q : Queue.Q) (e : Queue.Elem) : QSub q (q.replace e).1 := by
  unfold Queue.Q.replace
  rcases hr : Queue.replaceFirst (fun x => x.id == e.id) e q.done with _ | d
  · exact QSub.refl q
  · obtain ⟨pre, x, post, h1, h2, _⟩ := Queue.replaceFirst_some hr
    refine ⟨rfl, ?_, fun _ he => he⟩
    intro y hy
    simp only [Queue.Q.items, h2, List.mem_append, List.mem_cons] at hy
    rcases hy with (hy | rfl | hy) | hy
    · exact ⟨y, by simp [Queue.Q.items, h1, hy], rfl⟩
    · exact ⟨x, by simp [Queue.Q.items, h1], rfl⟩
    · exact ⟨y, by simp [Queue.Q.items, h1, hy], rfl⟩
    · exact ⟨y, by simp [Queue.Q.items, hy], rfl⟩

/-- `Add`: the read limit stays; whatever is in the queue / behind the cursor afterwards was there before, or is the newcomer -/
theorem add_sub (q : Queue.Q) (now : Nat) (e : Queue.Elem) :
    (q.add now e).1.limit = q.limit ∧ (∀ x ∈ (q.add now e).1.items, x ∈ q.items ∨ x = e) ∧
    (∀ x ∈ (q.add now e).1.rest, x ∈ q.rest ∨ x = e) := by
  have := Queue.add_elim (P := fun p => p.1.limit = q.limit ∧ (∀ x ∈ p.1.items, x ∈ q.items ∨ x = e) ∧
      (∀ x ∈ p.1.rest, x ∈ q.rest ∨ x = e)) q now e
    (fun _ => ⟨rfl, fun x hx => by
        simp only [Queue.Q.items, List.mem_append, List.mem_singleton] at hx ⊢
        rcases hx with hx | hx | hx
        · exact .inl (.inl hx)
        · exact .inl (.inr hx)
        · exact .inr hx,
      fun x hx => by simpa using hx⟩)
    (fun v done' _ hx => ⟨rfl, fun x hx' => by
        have hsub := (Queue.extractFirst_some hx).2.2
        simp only [Queue.Q.items, List.mem_append, List.mem_singleton] at hx' ⊢
        rcases hx' with hx' | hx' | hx'
        · exact .inl (.inl (hsub.subset hx'))
        · exact .inl (.inr hx')
        · exact .inr hx',
      fun x hx' => by simpa using hx'⟩)
    (fun v r rest' p _ hx _ => ⟨rfl, fun x hx' => by
        have hsub := (Queue.extractFirst_some hx).2.2
        simp only [Queue.Q.items, List.mem_append, List.mem_singleton] at hx' ⊢
        rcases hx' with hx' | hx' | hx'
        · exact .inl (.inl hx')
        · exact .inl (.inr (hsub.subset hx'))
        · exact .inr hx',
      fun x hx' => by
        have hsub := (Queue.extractFirst_some hx).2.2
        simp only [List.mem_append, List.mem_singleton] at hx'
        rcases hx' with hx' | hx'
        · exact .inl (hsub.subset hx')
        · exact .inr hx'⟩)
    (fun _ => ⟨rfl, fun x hx => .inl hx, fun x hx => .inl hx⟩)
  exact this

/-! ### the size invariant -/

/-- at most one connection per client id -/
def CidsND (b : B) : Prop := (b.clis.map (·.cid)).Nodup

theorem CidsND.inj {b : B} (h : CidsND b) {x y : Cli} (hx : x ∈ b.clis) (hy : y ∈ b.clis) (hxy : x.cid = y.cid) : x = y := by
  unfold CidsND at h
  generalize b.clis = l at hx hy h
  induction l with
  | nil => cases hx
  | cons a l ih =>
    simp only [List.map_cons, List.nodup_cons, List.mem_map, not_exists, not_and] at h
    rcases List.mem_cons.1 hx with rfl | hx' <;> rcases List.mem_cons.1 hy with rfl | hy'
    · rfl
    · exact absurd hxy.symm (h.1 y hy')
    · exact absurd hxy (h.1 x hx')
    · exact ih hx' hy' h.2

/-- sizes in reachable states: message identities in queues have been issued; the queue an online connection reads
    from has that connection's Maximum Packet Size as its read limit; and every PUBLISH behind the cursor is stamped
    with `TotalBytes` of its message for that connection's protocol version -/
structure SzInv (b : B) : Prop where
  tags : ∀ s ∈ b.sessions, ∀ e ∈ s.queue.items, e.tag < b.msgs.length
  lim : ∀ c ∈ b.clis, ∀ s ∈ b.sessions, s.cid = c.cid → s.queue.limit = c.cliMaxPkt
  size : ∀ c ∈ b.clis, ∀ s ∈ b.sessions, s.cid = c.cid → ∀ e ∈ s.queue.rest, e.pub = true →
    e.size = totalBytes c.v (b.msgOf e.tag)

theorem szInv_empty (cfg : Cfg) : SzInv { cfg := cfg } := ⟨by simp, by simp, by simp⟩

/-- a state change that adds no queue element and keeps the negotiated part of every connection -/
theorem SzInv.mono {b b' : B} (hm : MsgsExt b b')
    (hs : ∀ s' ∈ b'.sessions, ∃ s ∈ b.sessions, s'.cid = s.cid ∧ QSub s.queue s'.queue)
    (hc : ∀ c' ∈ b'.clis, ∃ c ∈ b.clis, c'.cid = c.cid ∧ c'.v = c.v ∧ c'.cliMaxPkt = c.cliMaxPkt)
    (h : SzInv b) : SzInv b' := by
  refine ⟨?_, ?_, ?_⟩
  · intro s' hs' e he
    obtain ⟨s, hsm, _, hq⟩ := hs s' hs'
    obtain ⟨e0, he0, ht⟩ := hq.tags e he
    rw [← ht]
    exact Nat.lt_of_lt_of_le (h.tags s hsm e0 he0) hm.len
  · intro c' hc' s' hs' hcid
    obtain ⟨s, hsm, es, hq⟩ := hs s' hs'
    obtain ⟨c, hcm, ec, _, em⟩ := hc c' hc'
    rw [hq.limit, em]
    exact h.lim c hcm s hsm (by rw [← es, hcid, ec])
  · intro c' hc' s' hs' hcid e he hp
    obtain ⟨s, hsm, es, hq⟩ := hs s' hs'
    obtain ⟨c, hcm, ec, ev, _⟩ := hc c' hc'
    have her := hq.rest e he
    have hlt : e.tag < b.msgs.length := h.tags s hsm e (by simp [Queue.Q.items, her])
    rw [ev, hm.bytes e.tag hlt]
    exact h.size c hcm s hsm (by rw [← es, hcid, ec]) e her hp

/-- a PUBLISH stamped with `TotalBytes` for the online connection of `cid` (if any) is added to the queue of `cid`
    and logged under the next tag -/
theorem szInv_addElem (b : B) (cid : String) (s : Sess) (hs : b.sess? cid = some s) (e : Queue.Elem) (m : Msg) (t : Nat)
    (htag : e.tag = b.msgs.length) (hv : ∀ c ∈ b.clis, c.cid = cid → e.size = totalBytes c.v m) (h : SzInv b) :
    SzInv { (b.setSess { s with queue := (s.queue.add b.now e).1 }) with msgs := b.msgs ++ [m], ats := b.ats ++ [t] } := by
  obtain ⟨hsm, hscid⟩ := sess?_some hs
  obtain ⟨hl, hi, hr⟩ := add_sub s.queue b.now e
  have hold : ∀ tg, tg < b.msgs.length →
      B.msgOf ({ (b.setSess { s with queue := (s.queue.add b.now e).1 }) with msgs := b.msgs ++ [m], ats := b.ats ++ [t] } : B) tg =
        b.msgOf tg := fun tg htg => msgOf_append_lt b.msgs m tg htg
  have hnew : B.msgOf ({ (b.setSess { s with queue := (s.queue.add b.now e).1 }) with msgs := b.msgs ++ [m], ats := b.ats ++ [t] } : B) e.tag = m := by
    rw [htag]; exact msgOf_append_len b.msgs m
  refine ⟨?_, ?_, ?_⟩
  · intro x hx y hy
    show y.tag < (b.msgs ++ [m]).length
    rw [List.length_append, List.length_singleton]
    rcases mem_setSess (b := b) hx with rfl | hx
    · rcases hi y hy with hy | rfl
      · exact Nat.lt_succ_of_lt (h.tags s hsm y hy)
      · rw [htag]; exact Nat.lt_succ_self _
    · exact Nat.lt_succ_of_lt (h.tags x hx y hy)
  · intro c hcm x hx hcid
    rcases mem_setSess (b := b) hx with rfl | hx
    · show (s.queue.add b.now e).1.limit = _
      rw [hl]; exact h.lim c hcm s hsm hcid
    · exact h.lim c hcm x hx hcid
  · intro c hcm x hx hcid y hy hp
    rcases mem_setSess (b := b) hx with rfl | hx
    · rcases hr y hy with hy | rfl
      · rw [hold y.tag (h.tags s hsm y (by simp [Queue.Q.items, hy]))]
        exact h.size c hcm s hsm hcid y hy hp
      · rw [hnew]
        exact hv c hcm (hcid.symm.trans hscid)
    · rw [hold y.tag (h.tags x hx y (by simp [Queue.Q.items, hy]))]
      exact h.size c hcm x hx hcid y hy hp

end GmqttVerif.Broker
