import GmqttVerif.Proofs.BrokerLimitsStep
/-
  Helper lemmas for `Properties/C13Broker.lean`, part 3: the poll loops (`pump`, `replay`) and CONNECT with respect to
  `Lim`; every wire step; the invariant `LInv` of reachable states (sizes, receive quota within the configured maximum,
  outbound alias managers in good state).
-/
namespace GmqttVerif.Broker
open GmqttVerif.Deliver

/-! ### `emitPub` -/

theorem emit_ok_of_check {max : Nat} (hpos : 0 < max) {q0 q : Alias.Fifo String} {t : String} {a : Nat} {ex : Bool}
    (h : q0.check t = .ok q a ex) : ∃ ap, Alias.emit max q0 t = .ok q ap := by
  unfold Alias.emit
  rw [if_pos hpos, h]
  cases ex with
  | true => exact ⟨_, rfl⟩
  | false =>
    simp only
    split <;> exact ⟨_, rfl⟩

/-- the manager state `Check` leaves behind is good again -/
theorem aliasGood_check {c : Cli} {t : String} {q : Alias.Fifo String} {a : Nat} {ex : Bool}
    (hchk : c.aliasOut.check t = .ok q a ex) (h : AliasGood c) : AliasGood { c with aliasOut := q } := by
  intro hv hpos hmax
  obtain ⟨tab, inv⟩ := h hv hpos hmax
  obtain ⟨q', p, tab', he, _, _, inv'⟩ := Alias.emit_step hmax hpos inv t
  obtain ⟨ap, he'⟩ := emit_ok_of_check (max := c.cliAliasMax) hpos hchk
  rw [he'] at he
  injection he with hq _
  exact ⟨tab', by rw [hq]; exact inv'⟩

theorem lim_emitPub {I : String → Prop} (b : B) (conn : String) (p : Pkt) :
    Lim I (fun x => x = conn) b (b.emitPub conn p) := by
  unfold B.emitPub
  split
  · next topic qos retain dup id tag plen sids exp al size c hc =>
    have hc' : b.cli? conn = some c := hc
    obtain ⟨_, rfl⟩ := cli?_some hc'
    split
    · split
      · next q a exist hchk =>
        have l1 : Lim I (fun x => x = c.conn) b (b.setCli { c with aliasOut := q }) :=
          lim_setCli b { c with aliasOut := q } c hc'
            ⟨rfl, rfl, rfl, rfl, rfl, rfl, fun h => h, fun _ => ⟨rfl, rfl⟩, fun hn => absurd rfl hn, aliasGood_check hchk⟩
        simp only
        split
        · exact l1.trans (lim_emit _ _ _ _)
        · split
          · exact l1.trans (lim_emit _ _ _ _)
          · exact l1.trans (lim_emit _ _ _ _)
      · exact lim_emit _ _ _ _
    · exact lim_emit _ _ _ _
  · exact lim_emit _ _ _ _

/-! ### `pump` -/

theorem lim_pumpRound {I : String → Prop} {b : B} {conn : String} {c : Cli} {s : Sess} {q' : Queue.Q} {out : List Queue.Elem}
    (h : PumpRound conn b c s q' out) : Lim I (fun x => x = conn) b (b.pumpRound conn c s q' out) := by
  obtain ⟨hc, hs, _, evs, hread⟩ := h
  obtain ⟨hpe, _⟩ := foldl_emitPub_out conn (fun e => b.pubPkt c e (b.ats.getD e.tag b.now)) out b
  have l1 : Lim I (fun x => x = conn) b (b.pumpEmit conn c out) :=
    lim_foldl _ (fun bb e => lim_emitPub bb conn _) out b
  obtain ⟨c', hc', _⟩ := hpe.cli c hc
  have hss : (b.pumpEmit conn c out).sessions = b.sessions := hpe.sessions
  unfold B.pumpRound
  extract_lets b1 b1' usedIds c1
  have h1 : b1'.cli? conn = some c' := hc'
  have hc1 : c1 = c' := by simp only [c1, h1]
  have hconn : c'.conn = conn := (cli?_some hc').2
  have l2 : Lim I (fun x => x = conn) b1 b1' :=
    lim_msgs rfl rfl rfl (msgsExt_pumpMsgs b c out b1 b1' rfl)
  have hsm : s ∈ b1'.sessions := by
    show s ∈ (b.pumpEmit conn c out).sessions
    rw [hss]; exact (sess?_some hs).1
  have l3 : Lim I (fun x => x = conn) b1' (b1'.setSess { s with queue := q' }) :=
    lim_setSess b1' { s with queue := q' } s hsm rfl (qsub_read hread)
  refine ((l1.trans l2).trans l3).trans (lim_setCli _ { c1 with used := c.used ++ usedIds } c' ?_ ?_)
  · show b1'.cli? c1.conn = some c'
    rw [hc1, hconn]; exact h1
  · rw [hc1]
    exact KeepCli.of_fields rfl rfl rfl rfl rfl rfl rfl (fun h => h) (fun _ => ⟨rfl, rfl⟩)

theorem lim_pumpTrace {I : String → Prop} {conn : String} {b b' : B} {rs : List Round} (h : PumpTrace conn b rs b') :
    Lim I (fun x => x = conn) b b' := by
  induction h with
  | stop b => exact Lim.refl _ _ b
  | round b c s q' out rs b' hround _ ih => exact (lim_pumpRound hround).trans ih

theorem lim_pump {I : String → Prop} (b : B) (conn : String) (fuel : Nat) :
    Lim I (fun x => x = conn) b (b.pump conn fuel) := by
  obtain ⟨rs, h⟩ := pump_trace fuel b conn
  exact lim_pumpTrace h

theorem lim_pumpAll {I : String → Prop} (b : B) : Lim I (fun _ => True) b b.pumpAll := by
  unfold B.pumpAll
  exact lim_foldl _ (fun bb cn => (lim_pump bb cn 10000).mono (fun _ h => h) (fun _ _ => trivial)) _ _

/-! ### `replay` -/

theorem lim_replay_fold {I : String → Prop} (conn : String) (f g : Queue.Elem → Pkt) (els : List Queue.Elem) (acc : B × List Nat) :
    let r := els.foldl (fun (acc : B × List Nat) (e : Queue.Elem) =>
      if e.pub then (acc.1.emitPub conn (f e), acc.2 ++ [e.id]) else (acc.1.emit conn true (g e), acc.2 ++ [e.id])) acc
    Lim I (fun x => x = conn) acc.1 r.1 := by
  induction els generalizing acc with
  | nil => exact Lim.refl _ _ _
  | cons e es ih =>
    simp only [List.foldl_cons]
    cases hp : e.pub
    case true =>
      simp only [if_true]
      exact (lim_emitPub acc.1 conn (f e)).trans (ih (acc.1.emitPub conn (f e), acc.2 ++ [e.id]))
    case false =>
      simp only [Bool.false_eq_true, if_false]
      exact (lim_emit acc.1 conn true (g e)).trans (ih (acc.1.emit conn true (g e), acc.2 ++ [e.id]))

theorem lim_replay {I : String → Prop} (fuel : Nat) (b : B) (conn : String) :
    Lim I (fun x => x = conn) b (b.replay conn fuel) := by
  induction fuel generalizing b with
  | zero => exact Lim.refl _ _ _
  | succ fuel ih =>
    unfold B.replay
    split
    · exact Lim.refl _ _ _
    · next c hc =>
      split
      · exact Lim.refl _ _ _
      · next s hs =>
        have hk := qsub_readInflight s.queue b.now c.maxInflight
        generalize s.queue.readInflight b.now c.maxInflight = qe at hk
        obtain ⟨q', els⟩ := qe
        simp only at hk ⊢
        have h0 : Lim I (fun x => x = conn) b (b.setSess { s with queue := q' }) :=
          lim_setSess_of b c.cid s { s with queue := q' } hs rfl hk
        split
        · exact h0
        · have hf := lim_replay_fold (I := I) conn
            (fun e => .publish (b.msgOf e.tag).topic (b.msgOf e.tag).qos (b.msgOf e.tag).retained true e.id
              (b.msgOf e.tag).tag (b.msgOf e.tag).plen []
              (if c.v == 5 && (b.msgOf e.tag).expiry != 0 then some (b.msgOf e.tag).expiry else none) none
              (totalBytes c.v { b.msgOf e.tag with sids := [] }))
            (fun e => .pubrel e.id) els (b.setSess { s with queue := q' }, c.used)
          have hpe := (replay_fold_emit conn
            (fun e => .publish (b.msgOf e.tag).topic (b.msgOf e.tag).qos (b.msgOf e.tag).retained true e.id
              (b.msgOf e.tag).tag (b.msgOf e.tag).plen []
              (if c.v == 5 && (b.msgOf e.tag).expiry != 0 then some (b.msgOf e.tag).expiry else none) none
              (totalBytes c.v { b.msgOf e.tag with sids := [] }))
            (fun e => .pubrel e.id) els (b.setSess { s with queue := q' }, c.used)).1
          simp only at hf hpe
          generalize List.foldl _ _ els = r at hf hpe ⊢
          obtain ⟨b1, used⟩ := r
          simp only at hf hpe ⊢
          have hc0 : (b.setSess { s with queue := q' }).cli? conn = some c := hc
          obtain ⟨c1, hc1, _⟩ := hpe.cli c hc0
          rw [hc1]
          simp only
          have hconn : c1.conn = conn := (cli?_some hc1).2
          exact h0.trans (hf.trans ((lim_setCli b1 { c1 with used := used } c1 (by rw [← hc1, hconn])
            (KeepCli.of_fields rfl rfl rfl rfl rfl rfl rfl (fun h => h) (fun _ => ⟨rfl, rfl⟩))).trans (ih _)))

/-! ### CONNECT -/

theorem lim_afterDisplace {I O : String → Prop} (b : B) (cid : String) : Lim I O b (afterDisplace b cid) := by
  rcases afterDisplace_def b cid with e | ⟨old, _, e⟩
  · rw [e]; exact Lim.refl _ _ b
  · rw [e]; exact lim_kick _ _ _

theorem lim_endOld {I O : String → Prop} (b1 : B) (r : ConnectReq) : Lim I O b1 (endOld b1 r) := by
  unfold endOld
  split
  · split
    · exact lim_terminateS _ _
    · exact lim_dropWill _ _
  · exact Lim.refl _ _ b1

/-- the queue `connect` installs: the client's Maximum Packet Size as read limit, nothing in front of the cursor, and
    behind it the stored elements of the resumed session (if any) with PUBLISH sizes recomputed for the new
    connection's protocol version -/
theorem newQueue_spec (cfg : Cfg) (b1 : B) (r : ConnectReq) :
    (newQueue cfg b1 r).limit = cliMaxPktOf r ∧ (newQueue cfg b1 r).done = [] ∧
    ∀ e ∈ (newQueue cfg b1 r).rest, ∃ s0 e0, b1.sess? r.cid = some s0 ∧ resumeOf b1 r = true ∧ e0 ∈ s0.queue.items ∧
      e.tag = e0.tag ∧ (e.pub = true → e.size = totalBytes r.v ((endOld b1 r).msgOf e.tag)) := by
  unfold newQueue
  cases hs : b1.sess? r.cid with
  | none =>
    have hr : resumeOf b1 r = false := by unfold resumeOf; rw [hs]
    simp [hr, Queue.Q.init, Queue.new]
  | some s =>
    cases hr : resumeOf b1 r with
    | false => simp [Queue.Q.init, Queue.new]
    | true =>
      simp only [if_true]
      refine ⟨rfl, rfl, ?_⟩
      intro e he
      have he' : e ∈ s.queue.items.map (fun e => if e.pub then { e with size := totalBytes r.v ((endOld b1 r).msgOf e.tag) } else e) := he
      obtain ⟨e0, he0, rfl⟩ := List.mem_map.1 he'
      refine ⟨s, e0, by first | rfl | trivial, by first | rfl | trivial, he0, ?_, ?_⟩
      · split <;> rfl
      · cases hp : e0.pub <;> simp [hp]

theorem endOld_resume (b1 : B) (r : ConnectReq) (s0 : Sess) (hs : b1.sess? r.cid = some s0) (hr : resumeOf b1 r = true) :
    endOld b1 r = b1.dropWill r.cid := by
  unfold endOld
  simp [hs, hr]

/-- the state after `connect`'s bookkeeping (before the replay loop) keeps the size invariant -/
theorem szInv_core (cfg : Cfg) (b1 : B) (r : ConnectReq) (h1 : SzInv b1) (hc1 : CidsND b1)
    (hno : ∀ x ∈ b1.clis, x.cid ≠ r.cid) : SzInv (connectCore cfg b1 r) := by
  have l2 : Lim (fun _ => False) (fun _ => False) b1 (endOld b1 r) := lim_endOld b1 r
  have h2 : SzInv (endOld b1 r) := l2.sz hc1 h1
  have hcl : (endOld b1 r).clis = b1.clis := endOld_clis b1 r
  obtain ⟨hlim, hdone, hrest⟩ := newQueue_spec cfg b1 r
  have hsess : ∀ x ∈ (connectCore cfg b1 r).sessions,
      x = newSess cfg b1 r ∨ (x ∈ (endOld b1 r).sessions ∧ x.cid ≠ r.cid) := fun x hx =>
    mem_setSess' (b := endOld b1 r) (s := newSess cfg b1 r) hx
  have hclis : ∀ x ∈ (connectCore cfg b1 r).clis, x = newCli cfg r ∨ x ∈ (endOld b1 r).clis := fun x hx => by
    rcases mem_setCli' (b := (endOld b1 r).setSess (newSess cfg b1 r)) (c := newCli cfg r) hx with h | ⟨h, _⟩
    · exact .inl h
    · exact .inr h
  have hmsg : ∀ t, (connectCore cfg b1 r).msgOf t = (endOld b1 r).msgOf t := fun _ => rfl
  have hitems : ∀ e ∈ (newSess cfg b1 r).queue.items, e ∈ (newQueue cfg b1 r).rest := by
    intro e he
    have : e ∈ (newQueue cfg b1 r).done ++ (newQueue cfg b1 r).rest := he
    rw [hdone] at this
    exact this
  refine ⟨?_, ?_, ?_⟩
  · intro x hx e he
    show e.tag < (endOld b1 r).msgs.length
    rcases hsess x hx with rfl | ⟨hx, _⟩
    · obtain ⟨s0, e0, hs0, hr, he0, ht, _⟩ := hrest e (hitems e he)
      rw [ht]
      have hs0' : s0 ∈ (endOld b1 r).sessions := by
        rw [endOld_resume b1 r s0 hs0 hr]; exact (sess?_some hs0).1
      exact h2.tags s0 hs0' e0 he0
    · exact h2.tags x hx e he
  · intro c hc x hx hcid
    rcases hclis c hc with rfl | hc
    · rcases hsess x hx with rfl | ⟨_, hne⟩
      · exact hlim
      · exact absurd hcid hne
    · rcases hsess x hx with rfl | ⟨hx, _⟩
      · exact absurd hcid.symm (hno c (by rw [← hcl]; exact hc))
      · exact h2.lim c hc x hx hcid
  · intro c hc x hx hcid e he hp
    rw [hmsg]
    rcases hclis c hc with rfl | hc
    · rcases hsess x hx with rfl | ⟨_, hne⟩
      · obtain ⟨_, _, _, _, _, _, hsz⟩ := hrest e he
        exact hsz hp
      · exact absurd hcid hne
    · rcases hsess x hx with rfl | ⟨hx, _⟩
      · exact absurd hcid.symm (hno c (by rw [← hcl]; exact hc))
      · exact h2.size c hc x hx hcid e he hp

theorem cidsND_core (cfg : Cfg) (b1 : B) (r : ConnectReq) (hc1 : CidsND b1) (hno : ∀ x ∈ b1.clis, x.cid ≠ r.cid) :
    CidsND (connectCore cfg b1 r) := by
  have hcl : (endOld b1 r).clis = b1.clis := endOld_clis b1 r
  show (((newCli cfg r) :: (endOld b1 r).clis.filter (·.conn != (newCli cfg r).conn)).map (·.cid)).Nodup
  rw [hcl, List.map_cons, List.nodup_cons]
  refine ⟨?_, List.Nodup.sublist (List.filter_sublist.map _) hc1⟩
  intro hmem
  obtain ⟨x, hx, hxc⟩ := List.mem_map.1 hmem
  exact hno x (List.mem_filter.1 hx).1 hxc

theorem aliasGood_newCli (cfg : Cfg) (r : ConnectReq) : AliasGood (newCli cfg r) :=
  fun _ _ _ => ⟨[], Alias.inv_new _⟩

/-- the connection records after CONNECT: the other connections' records with everything inbound / outbound-alias
    related untouched (a connection with the same client id is gone), and the new one: `newCli` up to the window and
    the outbound alias manager, which the replay of in-flight messages may have used -/
theorem connect_clis (b : B) (r : ConnectReq) :
    ∀ c' ∈ (b.connect r).clis,
      (∃ c ∈ b.clis, c.conn ≠ r.conn ∧ KeepCli (fun _ => False) (fun x => x = r.conn) b.cfg.recvMax c c') ∨
      KeepCli (fun _ => False) (fun x => x = r.conn) b.cfg.recvMax (newCli b.cfg r) c' := by
  intro c' hc'
  rw [connect_eq] at hc'
  have l0 : Lim (fun _ => False) (fun x => x = r.conn) b (afterDisplace b r.cid) := lim_afterDisplace b r.cid
  have l1 : Lim (fun _ => False) (fun x => x = r.conn) (afterDisplace b r.cid) (endOld (afterDisplace b r.cid) r) :=
    lim_endOld _ r
  have l3 := lim_replay (I := fun _ => False) 100000 (connectCore b.cfg (afterDisplace b r.cid) r) r.conn
  obtain ⟨c1, hc1, k3⟩ := l3.clis c' hc'
  have hcfg : (connectCore b.cfg (afterDisplace b r.cid) r).cfg = b.cfg := by
    show (endOld (afterDisplace b r.cid) r).cfg = b.cfg
    rw [l1.cfg, l0.cfg]
  rw [hcfg] at k3
  rcases mem_setCli' (b := (endOld (afterDisplace b r.cid) r).setSess (newSess b.cfg (afterDisplace b r.cid) r))
      (c := newCli b.cfg r) hc1 with rfl | ⟨hc1, hne⟩
  · exact .inr k3
  · left
    obtain ⟨c0, hc0, k01⟩ := (l0.trans l1).clis c1 hc1
    refine ⟨c0, hc0, ?_, k01.trans k3⟩
    rw [← k01.conn]
    exact hne

/-! ### every wire step -/

/-- the connections whose receive quota / inbound alias table a step may change -/
def Step.inb : Step → String → Prop
  | .publish r, x => x = r.conn
  | .pubrel c _, x => x = c
  | _, _ => False

/-- the connections whose outbound alias manager a step may change -/
def Step.outb : Step → String → Prop
  | .pump, _ => True
  | _, _ => False

/-- every wire step that does not register a new connection -/
theorem lim_step (b : B) (st : Step) (h : ∀ r, st = .connect r → (b.cli? r.conn).isSome = true) :
    Lim st.inb st.outb b (stepB b st) := by
  cases st with
  | connect r =>
    simp only [stepB, h r rfl, if_true]
    exact Lim.refl _ _ b
  | subscribe c p t i => exact lim_subscribe b c p t i
  | unsubscribe c p t => exact lim_unsubscribe b c p t
  | publish r => exact lim_publish b r
  | pubrel c p => exact lim_pubrelIn b c p
  | ack c i => exact lim_ackOut b c i
  | pubrec c i k => exact lim_pubrecOut b c i k
  | disconnect c se code => exact lim_disconnectIn b c se code
  | close c => exact lim_closeIn b c
  | apiPublish m => exact lim_deliverMsg b "" m [] []
  | apiTerminate cid => exact lim_apiTerminate b cid
  | apiExpire => exact lim_apiExpire b
  | apiBackdate cid s => exact lim_apiBackdate b cid s
  | sleep ms => exact lim_sleep b ms
  | pump => exact lim_pumpAll b

/-! ### the invariant of reachable states -/

structure LInv (b : B) : Prop where
  rinv : RInv b
  sz : SzInv b
  quota : ∀ c ∈ b.clis, c.quota ≤ b.cfg.recvMax
  alias : ∀ c ∈ b.clis, AliasGood c

theorem linv_empty (cfg : Cfg) : LInv { cfg := cfg } := ⟨rinv_empty cfg, szInv_empty cfg, by simp, by simp⟩

theorem Lim.quota {I O : String → Prop} {b b' : B} (h : Lim I O b b') (hq : ∀ c ∈ b.clis, c.quota ≤ b.cfg.recvMax) :
    ∀ c ∈ b'.clis, c.quota ≤ b'.cfg.recvMax := by
  intro c' hc'
  obtain ⟨c, hc, k⟩ := h.clis c' hc'
  rw [h.cfg]
  exact k.quotaLe (hq c hc)

theorem Lim.aliasGood {I O : String → Prop} {b b' : B} (h : Lim I O b b') (ha : ∀ c ∈ b.clis, AliasGood c) :
    ∀ c ∈ b'.clis, AliasGood c := by
  intro c' hc'
  obtain ⟨c, hc, k⟩ := h.clis c' hc'
  exact k.alias (ha c hc)

theorem linv_connect {b : B} (h : LInv b) (r : ConnectReq) (hfresh : b.cli? r.conn = none) : LInv (b.connect r) := by
  have hr : RInv (b.connect r) := by
    have := rinv_step h.rinv (.connect r)
    simpa [stepB, hfresh] using this
  have hcids : CidsND b := h.rinv.wf.cids
  have l0 : Lim (fun _ => False) (fun x => x = r.conn) b (afterDisplace b r.cid) := lim_afterDisplace b r.cid
  have hno := afterDisplace_nocid h.rinv.wf r.cid
  have hsz := szInv_core b.cfg (afterDisplace b r.cid) r (l0.sz hcids h.sz) (l0.cids hcids) hno
  have hcd := cidsND_core b.cfg (afterDisplace b r.cid) r (l0.cids hcids) hno
  have l3 := lim_replay (I := fun _ => False) 100000 (connectCore b.cfg (afterDisplace b r.cid) r) r.conn
  have hcfg : (b.connect r).cfg = b.cfg := by
    rw [connect_eq, l3.cfg]
    show (endOld (afterDisplace b r.cid) r).cfg = b.cfg
    rw [(lim_endOld (I := fun _ => False) (O := fun _ => False) _ r).cfg, l0.cfg]
  refine ⟨hr, ?_, ?_, ?_⟩
  · rw [connect_eq]; exact l3.sz hcd hsz
  · intro c' hc'
    rw [hcfg]
    rcases connect_clis b r c' hc' with ⟨c, hc, _, k⟩ | k
    · exact k.quotaLe (h.quota c hc)
    · exact k.quotaLe (Nat.le_refl _)
  · intro c' hc'
    rcases connect_clis b r c' hc' with ⟨c, hc, _, k⟩ | k
    · exact k.alias (h.alias c hc)
    · exact k.alias (aliasGood_newCli b.cfg r)

theorem linv_step {b : B} (h : LInv b) (st : Step) : LInv (stepB b st) := by
  by_cases hst : ∀ r, st = .connect r → (b.cli? r.conn).isSome = true
  · have l := lim_step b st hst
    exact ⟨rinv_step h.rinv st, l.sz h.rinv.wf.cids h.sz, l.quota h.quota, l.aliasGood h.alias⟩
  · have hst' : ∃ r, st = .connect r ∧ b.cli? r.conn = none := by
      apply Classical.byContradiction
      intro hn
      apply hst
      intro r hr
      cases hc : b.cli? r.conn with
      | none => exact absurd ⟨r, hr, hc⟩ hn
      | some _ => rfl
    obtain ⟨r, rfl, hfresh⟩ := hst'
    simp only [stepB, hfresh, Option.isSome_none, Bool.false_eq_true, if_false]
    exact linv_connect h r hfresh

theorem linv_run {b : B} (h : LInv b) (steps : List Step) : LInv (runB b steps) := by
  induction steps generalizing b with
  | nil => exact h
  | cons s ss ih => exact ih (linv_step h s)

theorem reachable_linv (cfg : Cfg) (steps : List Step) : LInv (runB { cfg := cfg } steps) := linv_run (linv_empty cfg) steps

end GmqttVerif.Broker
