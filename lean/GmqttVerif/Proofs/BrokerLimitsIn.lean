import GmqttVerif.Proofs.BrokerLimitsConn
import GmqttVerif.Proofs.BrokerInbound
/-
  Helper lemmas for `Properties/C13Broker.lean`, part 5 (inbound): the verdicts of `B.publish` on a v5 connection —
  topic alias, receive quota, maximum packet size — the connection record after an accepted PUBLISH / a PUBREL, and the
  ghost count of receive-quota units in use.
-/
namespace GmqttVerif.Broker
open GmqttVerif.Deliver

/-! ### verdicts -/

/-- the broker ended the connection with DISCONNECT(`code`): the two packets are the only output, and the connection
    is no longer registered -/
def KickedWith (b b' : B) (conn : String) (code : Nat) : Prop :=
  b'.out = b.out ++ [{ conn := conn, poll := false, pkt := .disconnect code }, { conn := conn, poll := false, pkt := .closed }] ∧
  b'.cli? conn = none

theorem kicked_of_kick (b : B) (conn : String) (c : Cli) (k : Nat) (hc : b.cli? conn = some c) (hv : c.v = 5) :
    KickedWith b (b.kick conn (some k)) conn k :=
  ⟨(kick_v5 b conn c k hc hv).1, (kick_v5 b conn c k hc hv).2.1⟩

theorem kicked_of_setCli_kick (b : B) (conn : String) (c1 : Cli) (k : Nat) (hconn : c1.conn = conn) (hv : c1.v = 5) :
    KickedWith b ((b.setCli c1).kick conn (some k)) conn k := by
  have hc1 : (b.setCli c1).cli? conn = some c1 := by rw [cli?_setCli, if_pos hconn]
  exact ⟨(kick_v5 _ conn c1 k hc1 hv).1, (kick_v5 _ conn c1 k hc1 hv).2.1⟩

/-- the packet decoder lets the PUBLISH through: no Topic Alias 0, no zero-length topic name without alias -/
structure DecodeOk (c : Cli) (r : PubReq) : Prop where
  alias0 : ¬ (c.v = 5 ∧ r.alias = some 0)
  topic : ¬ (r.topic = "" ∧ (c.v ≠ 5 ∨ r.alias = none))

theorem decodeOk_h0 {c : Cli} {r : PubReq} (h : DecodeOk c r) : (c.v == 5 && r.alias == some 0) = false := by
  rw [Bool.eq_false_iff]; intro h'
  simp only [Bool.and_eq_true, beq_iff_eq] at h'
  exact h.alias0 h'

theorem decodeOk_h0' {c : Cli} {r : PubReq} (h : DecodeOk c r) : (r.topic == "" && (c.v != 5 || r.alias.isNone)) = false := by
  rw [Bool.eq_false_iff]; intro h'
  simp only [Bool.and_eq_true, beq_iff_eq, Bool.or_eq_true, bne_iff_ne, ne_eq, Option.isNone_iff_eq_none] at h'
  exact h.topic h'

/-- a v5 PUBLISH with Topic Alias 0 is refused by the decoder, before anything else -/
theorem publish_alias_zero (b : B) (r : PubReq) (c : Cli) (hc : b.cli? r.conn = some c) (hv : c.v = 5)
    (ha : r.alias = some 0) : b.publish r = b.kick r.conn (some 0x94) := by
  rw [publish_eq]
  simp [hc, hv, ha]

/-- receive quota exhausted -/
theorem publish_quota_refused (b : B) (r : PubReq) (c : Cli) (hc : b.cli? r.conn = some c) (hd : DecodeOk c r)
    (hv : c.v = 5) (hq : r.qos > 0) (h0 : c.quota = 0) : b.publish r = b.kick r.conn (some 0x93) := by
  rw [publish_eq]
  simp only [hc, decodeOk_h0 hd, decodeOk_h0' hd, Bool.false_eq_true, if_false]
  have : (c.v == 5 && decide (r.qos > 0) && c.quota == 0) = true := by simp [hv, hq, h0]
  rw [if_pos this]

/-- packet larger than the server's Maximum Packet Size -/
theorem publish_size_refused (b : B) (r : PubReq) (c : Cli) (hc : b.cli? r.conn = some c) (hd : DecodeOk c r)
    (hquota : ¬ (c.v = 5 ∧ r.qos > 0 ∧ c.quota = 0))
    (hv : c.v = 5) (hm : b.cfg.maxPacket ≠ 0) (hs : r.size > b.cfg.maxPacket) :
    b.publish r = (b.setCli (pubCli c r)).kick r.conn (some 0x95) := by
  have h1 : (c.v == 5 && decide (r.qos > 0) && c.quota == 0) = false := by
    rw [Bool.eq_false_iff]; intro h; apply hquota
    simpa [Bool.and_eq_true, beq_iff_eq, decide_eq_true_eq, and_assoc] using h
  have h2 : ((pubCli c r).v == 5 && (b.setCli (pubCli c r)).cfg.maxPacket != 0 &&
      decide (r.size > (b.setCli (pubCli c r)).cfg.maxPacket)) = true := by
    rw [pubCli_v]
    show (c.v == 5 && b.cfg.maxPacket != 0 && decide (r.size > b.cfg.maxPacket)) = true
    simp [hv, hm, hs]
  rw [publish_eq]
  simp only [hc, decodeOk_h0 hd, decodeOk_h0' hd, h1, Bool.false_eq_true, if_false]
  rw [if_pos h2]

/-- a PUBLISH that passes the decoder, the receive quota, the size check and the retain check reaches the topic-alias
    step, which decides -/
theorem publish_to_alias (b : B) (r : PubReq) (c : Cli) (s : Sess) (hc : b.cli? r.conn = some c)
    (hs : b.sess? c.cid = some s) (hd : DecodeOk c r)
    (hquota : ¬ (c.v = 5 ∧ r.qos > 0 ∧ c.quota = 0))
    (hsize : ¬ (c.v = 5 ∧ b.cfg.maxPacket ≠ 0 ∧ r.size > b.cfg.maxPacket))
    (hret : ¬ (b.cfg.retainAvail = false ∧ r.retain = true)) :
    b.publish r =
      match aliasRes b.cfg (pubCli c r) r with
      | .error code => (b.setCli (pubCli c r)).kick r.conn (some code)
      | .ok (topic, c2) => ((b.setCli (pubCli c r)).setCli c2).publishTail c2 { r with topic := topic } s := by
  have h1 : (c.v == 5 && decide (r.qos > 0) && c.quota == 0) = false := by
    rw [Bool.eq_false_iff]; intro h; apply hquota
    simpa [Bool.and_eq_true, beq_iff_eq, decide_eq_true_eq, and_assoc] using h
  have h2 : ((pubCli c r).v == 5 && (b.setCli (pubCli c r)).cfg.maxPacket != 0 &&
      decide (r.size > (b.setCli (pubCli c r)).cfg.maxPacket)) = false := by
    rw [Bool.eq_false_iff]; intro h; apply hsize
    rw [pubCli_v] at h
    simpa [Bool.and_eq_true, beq_iff_eq, decide_eq_true_eq, and_assoc] using h
  have h3 : (!(b.setCli (pubCli c r)).cfg.retainAvail && r.retain) = false := by
    rw [Bool.eq_false_iff]; intro h; apply hret
    simpa using h
  rw [publish_eq]
  simp only [hc, decodeOk_h0 hd, decodeOk_h0' hd, h1, h2, h3, Bool.false_eq_true, if_false]
  have hcfg : (b.setCli (pubCli c r)).cfg = b.cfg := rfl
  rw [hcfg]
  cases hres : aliasRes b.cfg (pubCli c r) r with
  | error code => rfl
  | ok tc =>
    obtain ⟨t, c2⟩ := tc
    have hcid : c2.cid = c.cid := by rw [(aliasRes_ok hres).2.1, pubCli_cid]
    have hss : ((b.setCli (pubCli c r)).setCli c2).sess? c2.cid = some s := by rw [hcid]; exact hs
    simp only [hss]

/-! ### the topic-alias step, case by case -/

theorem aliasRes_out_of_range (cfg : Cfg) (c : Cli) (r : PubReq) (a : Nat) (hv : c.v = 5) (ha : r.alias = some a)
    (h : a = 0 ∨ a > cfg.aliasMax) : aliasRes cfg c r = .error 0x94 := by
  unfold aliasRes
  have : (a == 0 || decide (a > cfg.aliasMax)) = true := by
    rcases h with h | h
    · simp [h]
    · simp [h]
  simp [hv, ha, this]

theorem aliasRes_bind (cfg : Cfg) (c : Cli) (r : PubReq) (a : Nat) (hv : c.v = 5) (ha : r.alias = some a)
    (h1 : 1 ≤ a) (h2 : a ≤ cfg.aliasMax) (ht : r.topic ≠ "") :
    aliasRes cfg c r = .ok (r.topic, { c with aliasIn := (a, r.topic) :: c.aliasIn.filter (fun (p : Nat × String) => p.1 != a) }) := by
  unfold aliasRes
  have h0 : (a == 0 || decide (a > cfg.aliasMax)) = false := by
    have : a ≠ 0 := by omega
    simp [this, Nat.not_lt.2 h2]
  have ht' : (r.topic == "") = false := by simpa using ht
  simp [hv, ha, h0, ht']

theorem aliasRes_use (cfg : Cfg) (c : Cli) (r : PubReq) (a : Nat) (hv : c.v = 5) (ha : r.alias = some a)
    (h1 : 1 ≤ a) (h2 : a ≤ cfg.aliasMax) (ht : r.topic = "") (p : Nat × String)
    (hf : c.aliasIn.find? (fun (p : Nat × String) => p.1 == a) = some p) (hp : p.2 ≠ "") :
    aliasRes cfg c r = .ok (p.2, c) := by
  unfold aliasRes
  have h0 : (a == 0 || decide (a > cfg.aliasMax)) = false := by
    have : a ≠ 0 := by omega
    simp [this, Nat.not_lt.2 h2]
  obtain ⟨p1, p2⟩ := p
  have hp' : (p2 == "") = false := by simpa using hp
  simp [hv, ha, h0, ht, hf, hp']

theorem aliasRes_unbound (cfg : Cfg) (c : Cli) (r : PubReq) (a : Nat) (hv : c.v = 5) (ha : r.alias = some a)
    (ht : r.topic = "")
    (hf : ∀ p, c.aliasIn.find? (fun (p : Nat × String) => p.1 == a) = some p → p.2 = "") :
    aliasRes cfg c r = .error 0x94 := by
  unfold aliasRes
  by_cases h0 : (a == 0 || decide (a > cfg.aliasMax)) = true
  · simp [hv, ha, h0]
  · have h0' : (a == 0 || decide (a > cfg.aliasMax)) = false := by simpa using h0
    cases hfind : c.aliasIn.find? (fun (p : Nat × String) => p.1 == a) with
    | none => simp [hv, ha, h0', ht, hfind]
    | some p =>
      obtain ⟨p1, p2⟩ := p
      have : p2 = "" := hf _ hfind
      simp [hv, ha, h0', ht, hfind, this]

/-- the alias step changes the inbound alias table only -/
theorem aliasRes_ok' {cfg : Cfg} {c : Cli} {r : PubReq} {t : String} {c2 : Cli} (h : aliasRes cfg c r = .ok (t, c2)) :
    c2 = { c with aliasIn := c2.aliasIn } := by
  unfold aliasRes at h
  split at h
  · split at h
    · split at h
      · cases h
      · split at h
        · split at h
          · split at h
            · cases h
            · simp only [Except.ok.injEq, Prod.mk.injEq] at h
              rw [← h.2]
          · cases h
        · simp only [Except.ok.injEq, Prod.mk.injEq] at h
          rw [← h.2]
    · split at h
      · cases h
      · simp only [Except.ok.injEq, Prod.mk.injEq] at h
        rw [← h.2]
  · split at h
    · cases h
    · simp only [Except.ok.injEq, Prod.mk.injEq] at h
      rw [← h.2]

/-! ### the connection record after an accepted PUBLISH / a PUBREL -/

theorem quotaBack_cli (X : B) (conn : String) (c : Cli) (hX : X.cli? conn = some c) :
    (match X.cli? conn with
      | some c' => X.setCli { c' with quota := min (c'.quota + 1) X.cfg.recvMax }
      | none => X).cli? conn = some { c with quota := min (c.quota + 1) X.cfg.recvMax } := by
  rw [hX]
  simp only
  rw [cli?_setCli, if_pos (cli?_some hX).2]

theorem pubAck_cli (b : B) (c : Cli) (r : PubReq) (m : Bool) (c0 : Cli) (h : b.cli? r.conn = some c0) :
    (b.pubAck c r m).cli? r.conn =
      some { c0 with quota := if (r.qos == 1 && c.v == 5) = true then min (c0.quota + 1) b.cfg.recvMax else c0.quota } := by
  unfold B.pubAck
  extract_lets code b4
  have h4 : b4.cli? r.conn = some c0 := by
    simp only [b4]
    split
    · exact h
    · split <;> exact h
  have hcfg : b4.cfg = b.cfg := by
    simp only [b4]
    split
    · rfl
    · split <;> rfl
  split
  · exact (quotaBack_cli b4 r.conn c0 h4).trans (by rw [hcfg])
  · rw [h4]

/-- does the accepted PUBLISH get its receive-quota unit back at once: QoS 1 with the PUBACK, a retransmission of a
    QoS 2 PUBLISH still awaiting PUBREL because its id already holds a unit (v5 only) -/
def gaveBack (c : Cli) (r : PubReq) (s : Sess) : Bool :=
  (r.qos == 1 || (r.qos == 2 && s.unack.contains r.pid)) && c.v == 5

theorem pubDupQuota_cli (b : B) (c : Cli) (r : PubReq) (d : Bool) (c0 : Cli) (h : b.cli? r.conn = some c0) :
    (b.pubDupQuota c r d).cli? r.conn =
      some { c0 with quota := if (d && c.v == 5) = true then min (c0.quota + 1) b.cfg.recvMax else c0.quota } ∧
    (b.pubDupQuota c r d).cfg = b.cfg := by
  unfold B.pubDupQuota
  split
  · exact ⟨quotaBack_cli b r.conn c0 h, by rw [h]; rfl⟩
  · exact ⟨h, rfl⟩

theorem publishTail_cli (b : B) (c : Cli) (r : PubReq) (s : Sess) (c0 : Cli) (h : b.cli? r.conn = some c0) :
    (b.publishTail c r s).cli? r.conn =
      some { c0 with quota := if gaveBack c r s = true then min (c0.quota + 1) b.cfg.recvMax else c0.quota } := by
  unfold B.publishTail
  extract_lets dupl s1 b1 bm
  obtain ⟨hq1, hqcfg⟩ := pubDupQuota_cli (b.setSess s1) c r dupl c0 h
  have h1 : b1.cli? r.conn =
      some { c0 with quota := if (dupl && c.v == 5) = true then min (c0.quota + 1) b.cfg.recvMax else c0.quota } := by
    simp only [b1]; rw [pubRetain_cli?]; exact hq1
  have hcfg1 : b1.cfg = b.cfg := by
    have : b1.cfg = ((b.setSess s1).pubDupQuota c r dupl).cfg := by
      simp only [b1, B.pubRetain]
      split
      · split <;> rfl
      · rfl
    rw [this, hqcfg]; rfl
  have hm : bm.1.cli? r.conn =
      some { c0 with quota := if (dupl && c.v == 5) = true then min (c0.quota + 1) b.cfg.recvMax else c0.quota } ∧
      bm.1.cfg = b.cfg := by
    simp only [bm]
    split
    · have g := grow_deliverMsg b1 c.cid (pubMsg r) r.hints r.rapHint
      refine ⟨?_, g.cfg.trans hcfg1⟩
      unfold B.cli?
      rw [g.clis]
      exact h1
    · exact ⟨h1, hcfg1⟩
  rw [pubAck_cli _ c r _ _ hm.1, hm.2]
  unfold gaveBack
  simp only [dupl]
  by_cases h1q : r.qos = 1
  · simp [h1q]
  · have h1' : (r.qos == 1) = false := by simpa using h1q
    simp [h1']

theorem pubrelIn_cli (b : B) (conn : String) (pid : Nat) (c : Cli) (hc : b.cli? conn = some c) :
    (b.pubrelIn conn pid).cli? conn =
      some { c with quota := if (c.v == 5) = true then min (c.quota + 1) b.cfg.recvMax else c.quota } := by
  unfold B.pubrelIn
  simp only [hc]
  cases hs : b.sess? c.cid with
  | none =>
    simp only
    split
    · exact quotaBack_cli (b.emit conn false (.pubcomp pid)) conn c hc
    · exact hc
  | some s =>
    simp only
    split
    · exact quotaBack_cli ((b.setSess { s with unack := s.unack.filter (· != pid) }).emit conn false (.pubcomp pid)) conn c hc
    · exact hc

/-- a PUBLISH that leaves its connection online was not refused; the record afterwards -/
theorem publish_online (b : B) (r : PubReq) (c : Cli) (s : Sess) (hc : b.cli? r.conn = some c)
    (hs : b.sess? c.cid = some s) (c' : Cli) (h' : (b.publish r).cli? r.conn = some c') :
    ¬ (c.v = 5 ∧ r.qos > 0 ∧ c.quota = 0) ∧
    ∃ c2 : Cli,
      c' = { c2 with quota := if gaveBack c r s = true then min ((pubCli c r).quota + 1) b.cfg.recvMax else (pubCli c r).quota } ∧
      c2 = { pubCli c r with aliasIn := c2.aliasIn } := by
  have hconn := (cli?_some hc).2
  rw [publish_eq] at h'
  simp only [hc] at h'
  split at h'
  · rw [kick_offline] at h'; cases h'
  · split at h'
    · rw [kick_offline] at h'; cases h'
    · split at h'
      · rw [kick_offline] at h'; cases h'
      · next hq =>
        refine ⟨fun hn => hq (by simp [hn.1, hn.2.1, hn.2.2]), ?_⟩
        split at h'
        · rw [kick_offline] at h'; cases h'
        · split at h'
          · rw [kick_offline] at h'; cases h'
          · split at h'
            · rw [kick_offline] at h'; cases h'
            · next topic c2 hres =>
              obtain ⟨h2conn, h2cid, h2v, _⟩ := aliasRes_ok hres
              have hc2 := aliasRes_ok' hres
              have hcid : c2.cid = c.cid := by rw [h2cid, pubCli_cid]
              have hss : ((b.setCli (pubCli c r)).setCli c2).sess? c2.cid = some s := by rw [hcid]; exact hs
              simp only [hss] at h'
              have hcli2 : ((b.setCli (pubCli c r)).setCli c2).cli? r.conn = some c2 := by
                rw [cli?_setCli, if_pos (by rw [h2conn, pubCli_conn]; exact hconn)]
              have e : (((b.setCli (pubCli c r)).setCli c2).publishTail c2 { r with topic := topic } s).cli? r.conn =
                  some { c2 with quota := if gaveBack c2 { r with topic := topic } s = true then min (c2.quota + 1) b.cfg.recvMax else c2.quota } :=
                publishTail_cli _ c2 { r with topic := topic } s c2 hcli2
              rw [e] at h'
              have hq2 : c2.quota = (pubCli c r).quota := by rw [hc2]
              have hv2 : c2.v = c.v := by rw [h2v, pubCli_v]
              refine ⟨c2, ?_, hc2⟩
              have hg : gaveBack c2 { r with topic := topic } s = gaveBack c r s := by unfold gaveBack; rw [hv2]
              rw [← Option.some.inj h', hq2, hg]

/-! ### what the other steps leave alone -/

theorem connect_cfg (b : B) (r : ConnectReq) : (b.connect r).cfg = b.cfg := by
  rw [connect_eq, (lim_replay (I := fun _ => False) 100000 _ r.conn).cfg]
  show (endOld (afterDisplace b r.cid) r).cfg = b.cfg
  rw [(lim_endOld (I := fun _ => False) (O := fun _ => False) _ r).cfg,
    (lim_afterDisplace (I := fun _ => False) (O := fun _ => False) b r.cid).cfg]

theorem stepB_cfg (b : B) (st : Step) : (stepB b st).cfg = b.cfg := by
  by_cases hst : ∀ r, st = .connect r → (b.cli? r.conn).isSome = true
  · exact (lim_step b st hst).cfg
  · cases st with
    | connect r =>
      simp only [stepB]
      split
      · rfl
      · exact connect_cfg b r
    | _ => exact absurd (fun r hr => by cases hr) hst

theorem runB_cfg (b : B) (steps : List Step) : (runB b steps).cfg = b.cfg := by
  induction steps generalizing b with
  | nil => rfl
  | cons s ss ih => exact (ih _).trans (stepB_cfg b s)

/-- a connection that is online before and after a step: protocol version stays; quota and inbound alias table stay
    unless the step is a PUBLISH / PUBREL of this connection -/
theorem step_frame (b : B) (hw : WF b) (st : Step) (conn : String) (c c' : Cli) (hc : b.cli? conn = some c)
    (hc' : (stepB b st).cli? conn = some c') :
    c'.v = c.v ∧ c'.cliAliasMax = c.cliAliasMax ∧ c'.cliMaxPkt = c.cliMaxPkt ∧ c'.maxInflight = c.maxInflight ∧
    (¬ st.inb conn → c'.quota = c.quota ∧ c'.aliasIn = c.aliasIn) ∧
    (¬ st.outb conn → c'.aliasOut = c.aliasOut) := by
  obtain ⟨hcm, hcc⟩ := cli?_some hc
  obtain ⟨hcm', hcc'⟩ := cli?_some hc'
  have key : ∀ (I O : String → Prop) (c0 : Cli), c0 ∈ b.clis → KeepCli I O b.cfg.recvMax c0 c' →
      c'.v = c.v ∧ c'.cliAliasMax = c.cliAliasMax ∧ c'.cliMaxPkt = c.cliMaxPkt ∧ c'.maxInflight = c.maxInflight ∧
      (¬ I conn → c'.quota = c.quota ∧ c'.aliasIn = c.aliasIn) ∧ (¬ O conn → c'.aliasOut = c.aliasOut) := by
    intro I O c0 hc0 k
    have : c0 = c := hw.conn_inj hc0 hcm (by rw [← k.conn, hcc', hcc])
    subst this
    exact ⟨k.v, k.cliAliasMax, k.cliMaxPkt, k.maxInflight, fun hn => k.inb (by rw [hcc]; exact hn),
      fun hn => k.outb (by rw [hcc]; exact hn)⟩
  by_cases hst : ∀ r, st = .connect r → (b.cli? r.conn).isSome = true
  · obtain ⟨c0, hc0, k⟩ := (lim_step b st hst).clis c' hcm'
    exact key _ _ c0 hc0 k
  · cases st with
    | connect r =>
      have hfresh : b.cli? r.conn = none := by
        cases h : b.cli? r.conn with
        | none => rfl
        | some x => exact absurd (fun r' hr' => by cases hr'; rw [h]; rfl) hst
      simp only [stepB, hfresh, Option.isSome_none, Bool.false_eq_true, if_false] at hcm'
      rcases connect_clis b r c' hcm' with ⟨c0, hc0, _, k⟩ | k
      · obtain ⟨h1, h2, h3, h4, h5, _⟩ := key _ _ c0 hc0 k
        exact ⟨h1, h2, h3, h4, fun _ => h5 (fun h => h), fun _ => by
          have : c0 = c := hw.conn_inj hc0 hcm (by rw [← k.conn, hcc', hcc])
          subst this
          have hne : r.conn ≠ conn := fun e => by rw [e, hc] at hfresh; cases hfresh
          exact k.outb (fun e => hne (by rw [← e, hcc]))⟩
      · exfalso
        have : r.conn = conn := by rw [← hcc', k.conn]; rfl
        rw [this, hc] at hfresh
        cases hfresh
    | _ => exact absurd (fun r hr => by cases hr) hst

/-- a connection that is online after a step but was not before was registered by this step, a CONNECT -/
theorem step_fresh (b : B) (st : Step) (conn : String) (c' : Cli) (hc : b.cli? conn = none)
    (hc' : (stepB b st).cli? conn = some c') :
    ∃ r, st = .connect r ∧ r.conn = conn ∧ KeepCli (fun _ => False) (fun x => x = r.conn) b.cfg.recvMax (newCli b.cfg r) c' := by
  obtain ⟨hcm', hcc'⟩ := cli?_some hc'
  have hno : ∀ c0 ∈ b.clis, c0.conn ≠ conn := by
    intro c0 hc0 e
    have := cli?_isSome_of_mem hc0
    rw [e, hc] at this
    cases this
  by_cases hst : ∀ r, st = .connect r → (b.cli? r.conn).isSome = true
  · obtain ⟨c0, hc0, k⟩ := (lim_step b st hst).clis c' hcm'
    exact absurd (by rw [← k.conn, hcc']) (hno c0 hc0)
  · cases st with
    | connect r =>
      have hfresh : b.cli? r.conn = none := by
        cases h : b.cli? r.conn with
        | none => rfl
        | some x => exact absurd (fun r' hr' => by cases hr'; rw [h]; rfl) hst
      simp only [stepB, hfresh, Option.isSome_none, Bool.false_eq_true, if_false] at hcm'
      rcases connect_clis b r c' hcm' with ⟨c0, hc0, _, k⟩ | k
      · exact absurd (by rw [← k.conn, hcc']) (hno c0 hc0)
      · exact ⟨r, rfl, by rw [← hcc', k.conn]; rfl, k⟩
    | _ => exact absurd (fun r hr => by cases hr) hst

/-! ### receive-quota units in use -/

/-- is the QoS 2 packet id `pid` awaiting PUBREL on the session of connection `conn` -/
def outstanding (b : B) (conn : String) (pid : Nat) : Bool :=
  match b.cli? conn with
  | some c => (match b.sess? c.cid with | some s => s.unack.contains pid | none => false)
  | none => false

/-- how a step changes the number of receive-quota units in use on `conn`: a QoS 2 PUBLISH on `conn` that leaves the
    connection online takes one unless it is a retransmission of one still awaiting PUBREL — that id holds its unit
    already — (a QoS 1 PUBLISH takes one and gets it back with the PUBACK); a PUBREL on `conn` gives one back, if any is
    in use; a CONNECT that registers `conn` starts at 0 -/
def inUseStep (conn : String) (b : B) (st : Step) (n : Nat) : Nat :=
  match st with
  | .publish r =>
    if r.conn = conn ∧ r.qos ≥ 2 ∧ ¬ (r.qos = 2 ∧ outstanding b conn r.pid = true) ∧
       ((b.publish r).cli? conn).isSome = true then n + 1 else n
  | .pubrel c _ => if c = conn then n - 1 else n
  | .connect r => if r.conn = conn ∧ b.cli? conn = none then 0 else n
  | _ => n

/-- …over a run of steps, starting from `n` -/
def inUse (conn : String) : B → Nat → List Step → Nat
  | _, n, [] => n
  | b, n, st :: rest => inUse conn (stepB b st) (inUseStep conn b st n) rest

theorem quota_ghost_step (b : B) (hw : WF b) (st : Step) (conn : String) (n : Nat)
    (hq : ∀ c, b.cli? conn = some c → c.v = 5 → c.quota + n = b.cfg.recvMax) :
    ∀ c', (stepB b st).cli? conn = some c' → c'.v = 5 →
      c'.quota + inUseStep conn b st n = (stepB b st).cfg.recvMax := by
  intro c' hc' hv'
  rw [stepB_cfg]
  cases hc : b.cli? conn with
  | none =>
    obtain ⟨r, rfl, hr, k⟩ := step_fresh b st conn c' hc hc'
    have : c'.quota = b.cfg.recvMax := (k.inb (fun h => h)).1
    simp [inUseStep, hr, hc, this]
  | some c =>
    obtain ⟨hv, _, _, _, hin, _⟩ := step_frame b hw st conn c c' hc hc'
    have hvc : c.v = 5 := by rw [← hv]; exact hv'
    have hqc := hq c hc hvc
    have hframe : ¬ st.inb conn → c'.quota + n = b.cfg.recvMax := fun hn => by rw [(hin hn).1]; exact hqc
    cases st with
    | publish r =>
      by_cases hr : r.conn = conn
      · subst hr
        obtain ⟨s, hs⟩ := Option.isSome_iff_exists.1 (hw.online c (cli?_some hc).1)
        have hc'' : (b.publish r).cli? r.conn = some c' := hc'
        obtain ⟨hnr, c2, rfl, _⟩ := publish_online b r c s hc hs c' hc''
        have hv5 : (c.v == 5) = true := by simpa using hvc
        have hout : outstanding b r.conn r.pid = s.unack.contains r.pid := by
          unfold outstanding; rw [hc]; simp only; rw [hs]
        simp only [inUseStep, hc'', Option.isSome_some, and_true, true_and, hout]
        show (if gaveBack c r s = true then min ((pubCli c r).quota + 1) b.cfg.recvMax else (pubCli c r).quota) +
          (if r.qos ≥ 2 ∧ ¬ (r.qos = 2 ∧ s.unack.contains r.pid = true) then n + 1 else n) = b.cfg.recvMax
        by_cases h0 : r.qos = 0
        · have hpq : (pubCli c r).quota = c.quota := by unfold pubCli; simp [h0]
          have hgb : gaveBack c r s = false := by unfold gaveBack; simp [h0]
          rw [hgb]
          simp only [Bool.false_eq_true, if_false]
          rw [if_neg (fun h => absurd h.1 (by omega)), hpq]
          exact hqc
        · have hpos : r.qos > 0 := Nat.pos_of_ne_zero h0
          have hq0 : c.quota ≠ 0 := fun h => hnr ⟨hvc, hpos, h⟩
          have hpq : (pubCli c r).quota = c.quota - 1 := by unfold pubCli; simp [hv5, hpos]
          have hback : min (c.quota - 1 + 1) b.cfg.recvMax = c.quota := by
            rw [Nat.sub_add_cancel (Nat.pos_of_ne_zero hq0), Nat.min_eq_left (by omega)]
          by_cases h1 : r.qos = 1
          · have hgb : gaveBack c r s = true := by unfold gaveBack; simp [h1, hv5]
            rw [hgb, if_pos rfl, hpq, hback, if_neg (fun h => absurd h.1 (by omega))]
            exact hqc
          · have h2 : r.qos ≥ 2 := by omega
            have h1' : (r.qos == 1) = false := by simpa using h1
            by_cases hd : r.qos = 2 ∧ s.unack.contains r.pid = true
            · have hgb : gaveBack c r s = true := by unfold gaveBack; rw [hd.2, hv5]; simp [hd.1]
              rw [hgb, if_pos rfl, hpq, hback, if_neg (fun h => h.2 hd)]
              exact hqc
            · have hgb : gaveBack c r s = false := by
                unfold gaveBack
                rw [h1', Bool.false_or, Bool.and_eq_false_iff]; left
                rw [Bool.and_eq_false_iff]
                by_cases hq2 : r.qos = 2
                · right
                  cases hcn : s.unack.contains r.pid
                  · rfl
                  · exact absurd ⟨hq2, hcn⟩ hd
                · left; simpa using hq2
              rw [hgb]
              simp only [Bool.false_eq_true, if_false]
              rw [if_pos ⟨h2, hd⟩, hpq]
              omega
      · have : ¬ (Step.publish r).inb conn := fun h => hr h.symm
        simp only [inUseStep, hr, false_and, if_false]
        exact hframe this
    | pubrel c0 p =>
      by_cases hr : c0 = conn
      · subst hr
        have e := pubrelIn_cli b c0 p c hc
        have hc'' : (b.pubrelIn c0 p).cli? c0 = some c' := hc'
        rw [e] at hc''
        have hv5 : (c.v == 5) = true := by simpa using hvc
        rw [← Option.some.inj hc'']
        simp only [inUseStep, if_true, hv5]
        by_cases hn : n = 0
        · subst hn
          rw [Nat.min_eq_right (by omega)]
          simp
        · rw [Nat.min_eq_left (by omega)]
          omega
      · have : ¬ (Step.pubrel c0 p).inb conn := fun h => hr h.symm
        simp only [inUseStep, hr, if_false]
        exact hframe this
    | connect r =>
      have : ¬ (r.conn = conn ∧ b.cli? conn = none) := fun h => by rw [hc] at h; cases h.2
      simp only [inUseStep, this, if_false]
      exact hframe (fun h => h)
    | subscribe _ _ _ _ => exact hframe (fun h => h)
    | unsubscribe _ _ _ => exact hframe (fun h => h)
    | ack _ _ => exact hframe (fun h => h)
    | pubrec _ _ _ => exact hframe (fun h => h)
    | disconnect _ _ _ => exact hframe (fun h => h)
    | close _ => exact hframe (fun h => h)
    | apiPublish _ => exact hframe (fun h => h)
    | apiTerminate _ => exact hframe (fun h => h)
    | apiExpire => exact hframe (fun h => h)
    | apiBackdate _ _ => exact hframe (fun h => h)
    | sleep _ => exact hframe (fun h => h)
    | pump => exact hframe (fun h => h)

theorem quota_ghost_run (b : B) (h : LInv b) (steps : List Step) (conn : String) (n : Nat)
    (hq : ∀ c, b.cli? conn = some c → c.v = 5 → c.quota + n = b.cfg.recvMax) :
    ∀ c', (runB b steps).cli? conn = some c' → c'.v = 5 →
      c'.quota + inUse conn b n steps = (runB b steps).cfg.recvMax := by
  induction steps generalizing b n with
  | nil => exact hq
  | cons st rest ih =>
    exact ih (stepB b st) (linv_step h st) (inUseStep conn b st n) (quota_ghost_step b h.rinv.wf st conn n hq)

/-! ### the relation to the inbound alias specification of C13 -/

/-- the broker's inbound alias table and the component model's mapper hold the same bindings
    (an entry with an empty name counts as unbound, as in `aliasRes`) -/
def AliasSim (aliasIn : List (Nat × String)) (mapper : List (Nat × String)) : Prop :=
  ∀ a, Alias.mapperGet a mapper =
    match aliasIn.find? (fun (p : Nat × String) => p.1 == a) with
    | some p => if p.2 = "" then none else some p.2
    | none => none

theorem find?_filter_ne_nat (a a' : Nat) (h : a ≠ a') (l : List (Nat × String)) :
    (l.filter (fun (p : Nat × String) => p.1 != a)).find? (fun (p : Nat × String) => p.1 == a') =
      l.find? (fun (p : Nat × String) => p.1 == a') := by
  induction l with
  | nil => rfl
  | cons x xs ih =>
    by_cases hx : x.1 = a
    · have h1 : (x.1 != a) = false := by simp [hx]
      have h2 : (x.1 == a') = false := by simp [hx, h]
      rw [List.filter_cons, List.find?_cons]
      simp only [h1, h2, Bool.false_eq_true, if_false]
      exact ih
    · have h1 : (x.1 != a) = true := by simp [hx]
      rw [List.filter_cons]
      simp only [h1, if_true, List.find?_cons, ih]

/-- the wire-level topic-alias step refines `Alias.publish true` (the alias handling of `publishHandler` with the F02
    patch, C13 `inbound_alias`): same verdict, and the tables stay in correspondence. A zero-length topic name without
    alias, which the component model passes on, is what the broker refuses with 0x82. -/
theorem aliasRes_refines (cfg : Cfg) (c : Cli) (r : PubReq) (st : Alias.InSt String) (hv : c.v = 5)
    (hmax : st.serverMax = cfg.aliasMax) (hsize : st.size = cfg.aliasMax + 1) (hsim : AliasSim c.aliasIn st.mapper) :
    match Alias.publish true st r.alias (if r.topic = "" then none else some r.topic), aliasRes cfg c r with
    | (st', .ok (some t)), .ok (t', c2) => t' = t ∧ AliasSim c2.aliasIn st'.mapper
    | (_, .ok none), .error code => code = 0x82
    | (_, .disc k), .error code => code = k
    | _, _ => False := by
  have hv' : (c.v == 5) = true := by simpa using hv
  cases ha : r.alias with
  | none =>
    by_cases ht : r.topic = ""
    · simp [Alias.publish, aliasRes, hv', ha, ht]
    · have ht' : (r.topic == "") = false := by simpa using ht
      simp only [Alias.publish, aliasRes, hv', ha, ht, ht', if_true, if_false, Bool.false_eq_true]
      exact ⟨by first | rfl | trivial, hsim⟩
  | some a =>
    by_cases h0 : a = 0
    · subst h0
      simp [Alias.publish, aliasRes, hv', ha]
    · by_cases hgt : a > cfg.aliasMax
      · have hb : (a == 0 || decide (a > cfg.aliasMax)) = true := by simp [hgt]
        simp [Alias.publish, aliasRes, hv', ha, h0, hmax, hgt]
      · have hb : (a == 0 || decide (a > cfg.aliasMax)) = false := by simp [h0, hgt]
        have hlt : ¬ a ≥ st.size := by omega
        have hgt' : ¬ a > st.serverMax := by omega
        by_cases ht : r.topic = ""
        · have hm := hsim a
          cases hfind : c.aliasIn.find? (fun (p : Nat × String) => p.1 == a) with
          | none =>
            rw [hfind] at hm
            simp [Alias.publish, aliasRes, hv', ha, h0, hgt', hlt, hb, ht, hfind, hm]
          | some p =>
            obtain ⟨p1, p2⟩ := p
            rw [hfind] at hm
            by_cases hp : p2 = ""
            · simp only [hp, if_true] at hm
              simp [Alias.publish, aliasRes, hv', ha, h0, hgt', hlt, hb, ht, hfind, hm, hp]
            · simp only [hp, if_false] at hm
              have hp' : (p2 == "") = false := by simpa using hp
              simp only [Alias.publish, aliasRes, hv', ha, h0, hgt', hlt, hb, ht, hfind, hm, hp', if_true, if_false,
                Bool.false_eq_true, beq_self_eq_true]
              exact ⟨by first | rfl | trivial, hsim⟩
        · have ht' : (r.topic == "") = false := by simpa using ht
          simp only [Alias.publish, aliasRes, hv', ha, h0, hgt', hlt, hb, ht, ht', if_true, if_false, Bool.false_eq_true]
          refine ⟨by first | rfl | trivial, fun a' => ?_⟩
          by_cases haa : a = a'
          · subst haa
            simp [Alias.mapperGet, ht]
          · have haa' : (a == a') = false := by simpa using haa
            simp only [Alias.mapperGet, haa, if_false, List.find?_cons, haa']
            rw [find?_filter_ne_nat a a' haa]
            exact hsim a'

end GmqttVerif.Broker
