import GmqttVerif.Proofs.BrokerLimitsConn
/-
  Helper lemmas for `Properties/C13Broker.lean`, part 4 (outbound): what the poll loop writes, packet by packet — sizes
  before and after topic-alias rewriting, and the (topic name, Topic Alias) pairs as a client-side alias table sees them.
-/
namespace GmqttVerif.Broker
open GmqttVerif.Deliver

/-! ### one `emitPub` -/

theorem aliasSize_le (topic : String) (size : Nat) (ap : Alias.Pkt String) :
    aliasSize topic size ap ≤ size + aliasPropBytes := by
  unfold aliasSize
  split <;> omega

/-- the two ways `emitPub` treats a PUBLISH without alias on an online connection -/
theorem emitPub_cases (b : B) (conn : String) (c : Cli) (hc : b.cli? conn = some c)
    (topic : String) (qos : Nat) (retain dup : Bool) (id : Nat) (tag : String) (plen : Nat) (sids : List Nat)
    (exp : Option Nat) (size : Nat) :
    (b.emitPub conn (.publish topic qos retain dup id tag plen sids exp none size) =
        b.emit conn true (.publish topic qos retain dup id tag plen sids exp none size) ∧
      (¬ (c.v = 5 ∧ 0 < c.cliAliasMax) ∨ Alias.emit c.cliAliasMax c.aliasOut topic = .panic)) ∨
    (c.v = 5 ∧ 0 < c.cliAliasMax ∧ ∃ q' ap, Alias.emit c.cliAliasMax c.aliasOut topic = .ok q' ap ∧
      b.emitPub conn (.publish topic qos retain dup id tag plen sids exp none size) =
        (b.setCli { c with aliasOut := q' }).emit conn true
          (.publish (aliasTopic ap) qos retain dup id tag plen sids exp ap.alias (aliasSize topic size ap))) := by
  obtain ⟨h1, h2⟩ := emitPub_alias b conn c hc topic qos retain dup id tag plen sids exp size
  by_cases hcond : c.v = 5 ∧ 0 < c.cliAliasMax
  · have h3 := h2 hcond.1 hcond.2
    cases he : Alias.emit c.cliAliasMax c.aliasOut topic with
    | panic =>
      rw [he] at h3
      exact .inl ⟨h3, .inr rfl⟩
    | ok q' ap =>
      rw [he] at h3
      exact .inr ⟨hcond.1, hcond.2, q', ap, rfl, h3⟩
  · exact .inl ⟨h1 hcond, .inl hcond⟩

/-- what one `emitPub` writes: exactly one packet on the P stream, equal to the given one up to topic name / alias /
    size; at most the 3 bytes of the Topic Alias property longer; unchanged for a connection that does not take aliases;
    the connection record changes in its alias manager only -/
theorem emitPub_written (b : B) (conn : String) (c : Cli) (hc : b.cli? conn = some c)
    (topic : String) (qos : Nat) (retain dup : Bool) (id : Nat) (tag : String) (plen : Nat) (sids : List Nat)
    (exp : Option Nat) (size : Nat) :
    ∃ p' q', (b.emitPub conn (.publish topic qos retain dup id tag plen sids exp none size)).out =
        b.out ++ [{ conn := conn, poll := true, pkt := p' }] ∧
      (b.emitPub conn (.publish topic qos retain dup id tag plen sids exp none size)).cli? conn = some { c with aliasOut := q' } ∧
      (∃ n', p'.size? = some n' ∧ n' ≤ size + aliasPropBytes) ∧
      (¬ (c.v = 5 ∧ 0 < c.cliAliasMax) → p' = .publish topic qos retain dup id tag plen sids exp none size) := by
  have hconn := (cli?_some hc).2
  rcases emitPub_cases b conn c hc topic qos retain dup id tag plen sids exp size with ⟨he, _⟩ | ⟨hv, hpos, q', ap, _, he⟩
  · rw [he]
    exact ⟨_, c.aliasOut, rfl, hc, ⟨size, rfl, Nat.le_add_right _ _⟩, fun _ => rfl⟩
  · rw [he]
    refine ⟨_, q', rfl, ?_, ⟨_, rfl, aliasSize_le topic size ap⟩, fun hn => absurd ⟨hv, hpos⟩ hn⟩
    show (b.setCli { c with aliasOut := q' }).cli? conn = _
    rw [cli?_setCli, if_pos hconn]

/-- every packet written by a run of `emitPub`s stems from one of the given packets and is at most 3 bytes longer -/
theorem foldl_emitPub_written (conn : String) (f : Queue.Elem → Pkt)
    (hf : ∀ e, ∃ topic qos retain dup id tag plen sids exp size, f e = .publish topic qos retain dup id tag plen sids exp none size)
    (out : List Queue.Elem) (b : B) (c : Cli) (hc : b.cli? conn = some c) :
    ∃ ps, (out.foldl (fun bb (e : Queue.Elem) => bb.emitPub conn (f e)) b).out = b.out ++ pOuts conn ps ∧
      ∀ p' ∈ ps, ∃ e ∈ out, ∃ n n', (f e).size? = some n ∧ p'.size? = some n' ∧ n' ≤ n + aliasPropBytes ∧
        (¬ (c.v = 5 ∧ 0 < c.cliAliasMax) → p' = f e) := by
  induction out generalizing b c with
  | nil => exact ⟨[], by simp [pOuts], by simp⟩
  | cons e es ih =>
    simp only [List.foldl_cons]
    obtain ⟨topic, qos, retain, dup, id, tag, plen, sids, exp, size, hfe⟩ := hf e
    rw [hfe]
    obtain ⟨p', q', ho, hc', ⟨n', hn', hle⟩, hsame⟩ := emitPub_written b conn c hc topic qos retain dup id tag plen sids exp size
    obtain ⟨ps, ho2, hall⟩ := ih _ { c with aliasOut := q' } hc'
    refine ⟨p' :: ps, by rw [ho2, ho]; simp [pOuts], ?_⟩
    intro x hx
    rcases List.mem_cons.1 hx with rfl | hx
    · exact ⟨e, List.mem_cons_self, size, n', by rw [hfe]; rfl, hn', hle, fun hn => by rw [hfe]; exact hsame hn⟩
    · obtain ⟨e', he', r⟩ := hall x hx
      exact ⟨e', List.mem_cons_of_mem _ he', r⟩

theorem pubPkt_shape (b : B) (c : Cli) (e : Queue.Elem) (at_ : Nat) :
    ∃ qos retain dup id tag plen sids exp size,
      b.pubPkt c e at_ = .publish (b.msgOf e.tag).topic qos retain dup id tag plen sids exp none size :=
  ⟨_, _, _, _, _, _, _, _, _, rfl⟩

/-- what a round of the poll loop writes, with sizes: every packet stems from an element handed out and is at most
    the 3 bytes of the Topic Alias property longer than `TotalBytes` of the element's message -/
theorem pumpRound_written (b : B) (conn : String) (c : Cli) (s : Sess) (q' : Queue.Q) (out : List Queue.Elem)
    (hc : b.cli? conn = some c) :
    ∃ ps, (b.pumpRound conn c s q' out).out = b.out ++ pOuts conn ps ∧
      ∀ p' ∈ ps, ∃ e ∈ out, ∃ n', p'.size? = some n' ∧ n' ≤ totalBytes c.v (b.msgOf e.tag) + aliasPropBytes ∧
        (¬ (c.v = 5 ∧ 0 < c.cliAliasMax) → p' = b.pubPkt c e (b.ats.getD e.tag b.now)) := by
  obtain ⟨ps, ho, hall⟩ := foldl_emitPub_written conn (fun e => b.pubPkt c e (b.ats.getD e.tag b.now))
    (fun e => let ⟨q, r, d, i, t, p, sd, x, sz, h⟩ := pubPkt_shape b c e (b.ats.getD e.tag b.now); ⟨_, q, r, d, i, t, p, sd, x, sz, h⟩)
    out b c hc
  refine ⟨ps, ho, ?_⟩
  intro p' hp'
  obtain ⟨e, he, n, n', hn, hn', hle, hsame⟩ := hall p' hp'
  rw [pubPkt_size] at hn
  cases hn
  exact ⟨e, he, n', hn', hle, hsame⟩

/-! ### the client-side view -/

/-- the (topic name, Topic Alias) part of a PUBLISH as the receiver's alias table sees it: a zero-length topic name is
    "no name" -/
def Pkt.aliasView (p : Pkt) : Alias.Pkt String :=
  { topic := match p.topic? with
      | some t => if t = "" then none else some t
      | none => none,
    alias := p.alias? }

/-- a receiver (Topic Alias Maximum `max`, alias table `tab`) processes a sequence of PUBLISH packets: the table
    afterwards and the topic each packet is resolved to; `none` = protocol error -/
def recvRun (max : Nat) : List (Nat × String) → List (Alias.Pkt String) → Option (List (Nat × String) × List String)
  | tab, [] => some (tab, [])
  | tab, p :: ps =>
    match Alias.recv max tab p with
    | some (tab', t) => (recvRun max tab' ps).map (fun r => (r.1, t :: r.2))
    | none => none

/-- `recvRun` is `Alias.recvAll` (the receiver of C13 `outbound_alias_sound`) that also returns the table -/
theorem recvRun_topics (max : Nat) (tab : List (Nat × String)) (ps : List (Alias.Pkt String)) :
    (recvRun max tab ps).map (·.2) = Alias.recvAll max tab ps := by
  induction ps generalizing tab with
  | nil => rfl
  | cons p ps ih =>
    simp only [recvRun, Alias.recvAll]
    cases Alias.recv max tab p with
    | none => rfl
    | some r =>
      obtain ⟨tab', t⟩ := r
      simp only [Option.map_map, ← ih tab']
      cases recvRun max tab' ps <;> rfl

theorem recvRun_append (max : Nat) (tab : List (Nat × String)) (xs ys : List (Alias.Pkt String))
    (tab1 : List (Nat × String)) (ts : List String) (h : recvRun max tab xs = some (tab1, ts)) :
    recvRun max tab (xs ++ ys) = (recvRun max tab1 ys).map (fun r => (r.1, ts ++ r.2)) := by
  induction xs generalizing tab ts with
  | nil =>
    simp only [recvRun, Option.some.injEq, Prod.mk.injEq] at h
    obtain ⟨rfl, rfl⟩ := h
    rw [List.nil_append]
    cases recvRun max tab ys <;> simp
  | cons p ps ih =>
    simp only [List.cons_append, recvRun] at h ⊢
    cases hr : Alias.recv max tab p with
    | none => rw [hr] at h; cases h
    | some r =>
      obtain ⟨tab', t⟩ := r
      rw [hr] at h
      simp only at h ⊢
      cases hrr : recvRun max tab' ps with
      | none => rw [hrr] at h; cases h
      | some rr =>
        rw [hrr] at h
        simp only [Option.map_some, Option.some.injEq, Prod.mk.injEq] at h
        obtain ⟨h1, h2⟩ := h
        rw [ih tab' rr.2 (by rw [hrr, ← h1])]
        rw [← h2]
        cases recvRun max tab1 ys <;> simp

theorem emit_ok_shape {max : Nat} {q q' : Alias.Fifo String} {t : String} {ap : Alias.Pkt String}
    (h : Alias.emit max q t = .ok q' ap) : ap.topic = none ∨ ap.topic = some t := by
  unfold Alias.emit at h
  split at h
  · split at h
    · injection h with _ h2; rw [← h2]; exact .inl rfl
    · split at h
      · injection h with _ h2; rw [← h2]; exact .inr rfl
      · injection h with _ h2; rw [← h2]; exact .inr rfl
    · cases h
  · injection h with _ h2; rw [← h2]; exact .inr rfl

/-- one `emitPub` on a v5 connection that takes aliases, whose manager is consistent with the client-side table `tab`:
    the alias on the wire is in `[1, max]`, the client resolves the packet to the message's real topic, and manager and
    (updated) table are consistent again -/
theorem emitPub_alias_sound (b : B) (conn : String) (c : Cli) (hc : b.cli? conn = some c) (hv : c.v = 5)
    (hpos : 0 < c.cliAliasMax) (hmax : c.cliAliasMax ≤ 65535) (tab : List (Nat × String))
    (inv : Alias.Inv c.cliAliasMax c.aliasOut tab)
    (topic : String) (htop : topic ≠ "") (qos : Nat) (retain dup : Bool) (id : Nat) (tag : String) (plen : Nat)
    (sids : List Nat) (exp : Option Nat) (size : Nat) :
    ∃ p' q' tab', (b.emitPub conn (.publish topic qos retain dup id tag plen sids exp none size)).out =
        b.out ++ [{ conn := conn, poll := true, pkt := p' }] ∧
      (b.emitPub conn (.publish topic qos retain dup id tag plen sids exp none size)).cli? conn = some { c with aliasOut := q' } ∧
      Alias.Inv c.cliAliasMax q' tab' ∧
      (∃ a, p'.alias? = some a ∧ 1 ≤ a ∧ a ≤ c.cliAliasMax) ∧
      Alias.recv c.cliAliasMax tab p'.aliasView = some (tab', topic) := by
  have hconn := (cli?_some hc).2
  obtain ⟨q1, ap1, tab', he1, ha1, hr1, inv'⟩ := Alias.emit_step hmax hpos inv topic
  rcases emitPub_cases b conn c hc topic qos retain dup id tag plen sids exp size with ⟨_, hn | hp⟩ | ⟨_, _, q', ap, he, heq⟩
  · exact absurd ⟨hv, hpos⟩ hn
  · rw [hp] at he1; cases he1
  · rw [he] at he1
    injection he1 with hq hap
    subst hq; subst hap
    rw [heq]
    refine ⟨_, q', tab', rfl, ?_, inv', ha1, ?_⟩
    · show (b.setCli { c with aliasOut := q' }).cli? conn = _
      rw [cli?_setCli, if_pos hconn]
    · have hview : (Pkt.publish (aliasTopic ap) qos retain dup id tag plen sids exp ap.alias (aliasSize topic size ap)).aliasView = ap := by
        obtain ⟨at_, aa⟩ := ap
        rcases emit_ok_shape he with h | h
        · simp only at h; subst h
          simp [Pkt.aliasView, Pkt.topic?, Pkt.alias?, aliasTopic]
        · simp only at h; subst h
          simp [Pkt.aliasView, Pkt.topic?, Pkt.alias?, aliasTopic, htop]
      rw [hview]
      exact hr1

/-- a run of `emitPub`s (the packets of one `Read` batch) as the client sees it -/
theorem foldl_emitPub_alias (conn : String) (f : Queue.Elem → Pkt) (t : Queue.Elem → String)
    (hf : ∀ e, ∃ qos retain dup id tag plen sids exp size, f e = .publish (t e) qos retain dup id tag plen sids exp none size)
    (out : List Queue.Elem) (b : B) (c : Cli) (hc : b.cli? conn = some c) (hv : c.v = 5)
    (hpos : 0 < c.cliAliasMax) (hmax : c.cliAliasMax ≤ 65535) (tab : List (Nat × String))
    (inv : Alias.Inv c.cliAliasMax c.aliasOut tab) (htop : ∀ e ∈ out, t e ≠ "") :
    ∃ ps q' tab', (out.foldl (fun bb (e : Queue.Elem) => bb.emitPub conn (f e)) b).out = b.out ++ pOuts conn ps ∧
      (out.foldl (fun bb (e : Queue.Elem) => bb.emitPub conn (f e)) b).cli? conn = some { c with aliasOut := q' } ∧
      Alias.Inv c.cliAliasMax q' tab' ∧
      (∀ p ∈ ps, ∃ a, p.alias? = some a ∧ 1 ≤ a ∧ a ≤ c.cliAliasMax) ∧
      recvRun c.cliAliasMax tab (ps.map Pkt.aliasView) = some (tab', out.map t) := by
  induction out generalizing b c tab with
  | nil => exact ⟨[], c.aliasOut, tab, by simp [pOuts], hc, inv, by simp, rfl⟩
  | cons e es ih =>
    simp only [List.foldl_cons]
    obtain ⟨qos, retain, dup, id, tag, plen, sids, exp, size, hfe⟩ := hf e
    rw [hfe]
    obtain ⟨p', q1, tab1, ho, hc1, inv1, ha, hr⟩ := emitPub_alias_sound b conn c hc hv hpos hmax tab inv (t e)
      (htop e List.mem_cons_self) qos retain dup id tag plen sids exp size
    obtain ⟨ps, q', tab', ho2, hc2, inv2, hall, hrr⟩ := ih _ { c with aliasOut := q1 } hc1 hv hpos hmax tab1 inv1
      (fun x hx => htop x (List.mem_cons_of_mem _ hx))
    refine ⟨p' :: ps, q', tab', by rw [ho2, ho]; simp [pOuts], hc2, inv2, ?_, ?_⟩
    · intro x hx
      rcases List.mem_cons.1 hx with rfl | hx
      · exact ha
      · exact hall x hx
    · simp only [List.map_cons, recvRun]
      rw [hr]
      simp only
      have hrr' : recvRun c.cliAliasMax tab1 (ps.map Pkt.aliasView) = some (tab', es.map t) := hrr
      rw [hrr']
      rfl

/-- a round of the poll loop as the client sees it -/
theorem pumpRound_alias {b : B} {conn : String} {c : Cli} {s : Sess} {q' : Queue.Q} {out : List Queue.Elem}
    (hc : b.cli? conn = some c) (hv : c.v = 5) (hpos : 0 < c.cliAliasMax) (hmax : c.cliAliasMax ≤ 65535)
    (tab : List (Nat × String)) (inv : Alias.Inv c.cliAliasMax c.aliasOut tab)
    (htop : ∀ e ∈ out, (b.msgOf e.tag).topic ≠ "") :
    ∃ ps c' tab', (b.pumpRound conn c s q' out).out = b.out ++ pOuts conn ps ∧
      (b.pumpRound conn c s q' out).cli? conn = some c' ∧ c'.v = c.v ∧ c'.cliAliasMax = c.cliAliasMax ∧
      Alias.Inv c.cliAliasMax c'.aliasOut tab' ∧
      (∀ p ∈ ps, ∃ a, p.alias? = some a ∧ 1 ≤ a ∧ a ≤ c.cliAliasMax) ∧
      recvRun c.cliAliasMax tab (ps.map Pkt.aliasView) = some (tab', out.map (fun e => (b.msgOf e.tag).topic)) := by
  obtain ⟨ps, q1, tab', ho, hc1, inv1, hall, hrr⟩ := foldl_emitPub_alias conn
    (fun e => b.pubPkt c e (b.ats.getD e.tag b.now)) (fun e => (b.msgOf e.tag).topic)
    (fun e => pubPkt_shape b c e (b.ats.getD e.tag b.now)) out b c hc hv hpos hmax tab inv htop
  have hconn := (cli?_some hc).2
  unfold B.pumpRound B.pumpEmit
  extract_lets b1 b1' usedIds c1
  have h1 : b1'.cli? conn = some { c with aliasOut := q1 } := hc1
  have hc1' : c1 = { c with aliasOut := q1 } := by simp only [c1, h1]
  refine ⟨ps, { c1 with used := c.used ++ usedIds }, tab', ho, ?_, by rw [hc1'], by rw [hc1'], by rw [hc1']; exact inv1, hall, hrr⟩
  rw [cli?_setCli, if_pos (by rw [hc1']; exact hconn)]

/-- the real topics of the messages a run of the poll loop handed out, in order -/
def roundTopics : List Round → List String
  | [] => []
  | r :: rs => r.out.map (fun e => (r.b.msgOf e.tag).topic) ++ roundTopics rs

/-- a whole run of the poll loop as the client sees it -/
theorem pumpTrace_alias {conn : String} {b b' : B} {rs : List Round} (h : PumpTrace conn b rs b') (c : Cli)
    (hc : b.cli? conn = some c) (hv : c.v = 5) (hpos : 0 < c.cliAliasMax) (hmax : c.cliAliasMax ≤ 65535)
    (tab : List (Nat × String)) (inv : Alias.Inv c.cliAliasMax c.aliasOut tab)
    (htop : ∀ r ∈ rs, ∀ e ∈ r.out, (r.b.msgOf e.tag).topic ≠ "") :
    ∃ ps c' tab', b'.out = b.out ++ pOuts conn ps ∧
      b'.cli? conn = some c' ∧ c'.v = c.v ∧ c'.cliAliasMax = c.cliAliasMax ∧
      Alias.Inv c.cliAliasMax c'.aliasOut tab' ∧
      (∀ p ∈ ps, ∃ a, p.alias? = some a ∧ 1 ≤ a ∧ a ≤ c.cliAliasMax) ∧
      recvRun c.cliAliasMax tab (ps.map Pkt.aliasView) = some (tab', roundTopics rs) := by
  induction h generalizing c tab with
  | stop b => exact ⟨[], c, tab, by simp [pOuts], hc, rfl, rfl, inv, by simp, rfl⟩
  | round b c0 s q' out rs b' hround _ ih =>
    have : c0 = c := by have := hround.cli; rw [hc] at this; exact (Option.some.inj this).symm
    subst this
    obtain ⟨ps1, c1, tab1, ho1, hc1, hv1, hm1, inv1, hall1, hr1⟩ := pumpRound_alias (s := s) (q' := q') (out := out) hc hv hpos hmax tab inv
      (htop _ List.mem_cons_self)
    obtain ⟨ps2, c2, tab2, ho2, hc2, hv2, hm2, inv2, hall2, hr2⟩ := ih c1 hc1 (hv1.trans hv) (by rw [hm1]; exact hpos)
      (by rw [hm1]; exact hmax) tab1 (by rw [hm1]; exact inv1) (fun r hr => htop r (List.mem_cons_of_mem _ hr))
    rw [hm1] at hall2 hr2 inv2
    refine ⟨ps1 ++ ps2, c2, tab2, by rw [ho2, ho1]; simp [pOuts], hc2, hv2.trans hv1, hm2.trans hm1, inv2, ?_, ?_⟩
    · intro p hp
      rcases List.mem_append.1 hp with hp | hp
      · exact hall1 p hp
      · exact hall2 p hp
    · rw [List.map_append, recvRun_append _ _ _ _ tab1 _ hr1, hr2]
      rfl

end GmqttVerif.Broker
