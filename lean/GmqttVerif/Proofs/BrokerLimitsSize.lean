import GmqttVerif.Proofs.BrokerLimitsOut
/-
  Helper lemmas for `Properties/C13Broker.lean`, part 6: sizes of what a whole run of the poll loop writes, from the
  invariant `LInv`; the Boolean check `pumpFits` used to state the full-strength property and to refute it.
-/
namespace GmqttVerif.Broker
open GmqttVerif.Deliver

/-- a round of the poll loop keeps the invariant of reachable states -/
theorem linv_pumpRound {b : B} {conn : String} {c : Cli} {s : Sess} {q' : Queue.Q} {out : List Queue.Elem}
    (h : PumpRound conn b c s q' out) (hl : LInv b) : LInv (b.pumpRound conn c s q' out) := by
  have l := lim_pumpRound (I := fun _ => False) h
  have p := pres_pumpRound h
  exact ⟨⟨pumpRound_wf h hl.rinv.wf, p.outq hl.rinv.wf hl.rinv.outq, p.msgs hl.rinv.msgs, p.will hl.rinv.will⟩,
    l.sz hl.rinv.wf.cids hl.sz, l.quota hl.quota, l.aliasGood hl.alias⟩

/-- in a state satisfying the invariant, what `Read` hands out in a round fits the client's Maximum Packet Size:
    for every element handed out, `TotalBytes` of its message for the connection's version — which is the size of the
    packet `pollNewMessages` builds for it — is at most `cliMaxPkt` -/
theorem pumpRound_fits {b : B} {conn : String} {c : Cli} {s : Sess} {q' : Queue.Q} {out : List Queue.Elem}
    (h : PumpRound conn b c s q' out) (hl : LInv b) :
    ∀ e ∈ out, totalBytes c.v (b.msgOf e.tag) ≤ c.cliMaxPkt := by
  obtain ⟨hc, hs, _, evs, hread⟩ := h
  obtain ⟨hcm, _⟩ := cli?_some hc
  obtain ⟨hsm, hscid⟩ := sess?_some hs
  have hinv := (hl.rinv.outq.q s hsm).inv
  obtain ⟨hd, _, _⟩ := Queue.read_ok hread
  intro e he
  obtain ⟨v, hv, ht, hsz, _, hle⟩ := Queue.read_ok_sound s.queue b.now (pumpIds c) out evs q' hread e he
  have hpub : v.pub = true := ((Queue.isQueued_iff v).1 (hinv.2.2 hd v hv)).1
  have h1 := hl.sz.size c hcm s hsm hscid v hv hpub
  have h2 := hl.sz.lim c hcm s hsm hscid
  rw [← ht, ← h1, hsz, ← h2]
  exact hle

/-- every packet a run of the poll loop writes: at most `cliMaxPkt` + 3 bytes, at most `cliMaxPkt` for a connection
    that does not take topic aliases -/
theorem pumpTrace_sizes {conn : String} {b b' : B} {rs : List Round} (h : PumpTrace conn b rs b') (hl : LInv b) (c : Cli)
    (hc : b.cli? conn = some c) :
    ∃ ps, b'.out = b.out ++ pOuts conn ps ∧
      ∀ p ∈ ps, ∃ n, p.size? = some n ∧ n ≤ c.cliMaxPkt + aliasPropBytes ∧
        (¬ (c.v = 5 ∧ 0 < c.cliAliasMax) → n ≤ c.cliMaxPkt) := by
  induction h generalizing c with
  | stop b => exact ⟨[], by simp [pOuts], by simp⟩
  | round b c0 s q' out rs b' hround _ ih =>
    have : c0 = c := by have := hround.cli; rw [hc] at this; exact (Option.some.inj this).symm
    subst this
    have hfit := pumpRound_fits hround hl
    obtain ⟨ps1, ho1, hall1⟩ := pumpRound_written b conn c0 s q' out hc
    obtain ⟨c1, hc1, ec1⟩ := pumpRound_cli b conn c0 s q' out hc
    obtain ⟨ps2, ho2, hall2⟩ := ih (linv_pumpRound hround hl) c1 hc1
    have e1 : c1.cliMaxPkt = c0.cliMaxPkt := by rw [ec1]
    have e2 : c1.v = c0.v := by rw [ec1]
    have e3 : c1.cliAliasMax = c0.cliAliasMax := by rw [ec1]
    rw [e1, e2, e3] at hall2
    refine ⟨ps1 ++ ps2, by rw [ho2, ho1]; simp [pOuts], ?_⟩
    intro p hp
    rcases List.mem_append.1 hp with hp | hp
    · obtain ⟨e, he, n', hn', hle, hsame⟩ := hall1 p hp
      have := hfit e he
      refine ⟨n', hn', by omega, fun hn => ?_⟩
      have hp' := hsame hn
      rw [hp', pubPkt_size] at hn'
      cases hn'
      exact this
    · exact hall2 p hp

/-! ### the Boolean form -/

/-- do all PUBLISH packets the poll loop of `conn` writes from state `b` (at most `fuel` rounds) have size ≤ `limit`? -/
def pumpFits (b : B) (conn : String) (fuel : Nat) (limit : Nat) : Bool :=
  (newP b (b.pump conn fuel) conn).all (fun p => match p.size? with | some n => decide (n ≤ limit) | none => true)

theorem newP_pOuts (b b' : B) (conn : String) (ps : List Pkt) (h : b'.out = b.out ++ pOuts conn ps) :
    newP b b' conn = ps := by
  unfold newP
  rw [h, List.drop_left]
  clear h
  induction ps with
  | nil => rfl
  | cons p ps ih =>
    simp only [pOuts, List.map_cons, List.filter_cons, beq_self_eq_true, Bool.and_self, if_true] at ih ⊢
    rw [ih]

theorem pumpFits_of {b : B} {conn : String} {fuel limit : Nat} {ps : List Pkt}
    (ho : (b.pump conn fuel).out = b.out ++ pOuts conn ps) (h : ∀ p ∈ ps, ∃ n, p.size? = some n ∧ n ≤ limit) :
    pumpFits b conn fuel limit = true := by
  unfold pumpFits
  rw [newP_pOuts b _ conn ps ho, List.all_eq_true]
  intro p hp
  obtain ⟨n, hn, hle⟩ := h p hp
  rw [hn]
  simpa using hle

end GmqttVerif.Broker
