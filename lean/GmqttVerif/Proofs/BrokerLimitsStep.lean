import GmqttVerif.Proofs.BrokerLimits
/-
  Helper lemmas for `Properties/C13Broker.lean`, part 2: the relation `Lim I O b b'` that every wire step except
  CONNECT satisfies — the configuration and the negotiated part of every connection record stay, the receive quota and
  the inbound alias table change only on the connections in `I`, the outbound alias manager only on those in `O`, and the
  size invariant `SzInv` is kept — and the proof that the handlers of the wire-level broker model satisfy it.
-/
namespace GmqttVerif.Broker
open GmqttVerif.Deliver

/-- the outbound alias manager of a (v5, alias-accepting) connection is in a state `Alias.Inv` describes: consistent
    with SOME client-side alias table (`outbound_alias_resolution` in C13Broker says which) -/
def AliasGood (c : Cli) : Prop :=
  c.v = 5 → 0 < c.cliAliasMax → c.cliAliasMax ≤ 65535 → ∃ tab, Alias.Inv c.cliAliasMax c.aliasOut tab

/-- the record of a connection before and after a state change: the negotiated part stays; the receive quota stays
    within `rm`; quota and inbound alias table stay unless the connection is in `I`; the outbound alias manager stays
    unless it is in `O`, and stays good in any case. (`used`, `discExpiry`, `cleanWill` are free.) -/
structure KeepCli (I O : String → Prop) (rm : Nat) (c c' : Cli) : Prop where
  conn : c'.conn = c.conn
  cid : c'.cid = c.cid
  v : c'.v = c.v
  maxInflight : c'.maxInflight = c.maxInflight
  cliMaxPkt : c'.cliMaxPkt = c.cliMaxPkt
  cliAliasMax : c'.cliAliasMax = c.cliAliasMax
  quotaLe : c.quota ≤ rm → c'.quota ≤ rm
  inb : ¬ I c.conn → c'.quota = c.quota ∧ c'.aliasIn = c.aliasIn
  outb : ¬ O c.conn → c'.aliasOut = c.aliasOut
  alias : AliasGood c → AliasGood c'

theorem KeepCli.refl (I O : String → Prop) (rm : Nat) (c : Cli) : KeepCli I O rm c c :=
  ⟨rfl, rfl, rfl, rfl, rfl, rfl, id, fun _ => ⟨rfl, rfl⟩, fun _ => rfl, id⟩

theorem KeepCli.trans {I O : String → Prop} {rm : Nat} {a b c : Cli} (h1 : KeepCli I O rm a b) (h2 : KeepCli I O rm b c) :
    KeepCli I O rm a c := by
  refine ⟨h2.conn.trans h1.conn, h2.cid.trans h1.cid, h2.v.trans h1.v, h2.maxInflight.trans h1.maxInflight,
    h2.cliMaxPkt.trans h1.cliMaxPkt, h2.cliAliasMax.trans h1.cliAliasMax, fun h => h2.quotaLe (h1.quotaLe h), ?_, ?_,
    fun h => h2.alias (h1.alias h)⟩
  · intro hn
    obtain ⟨a1, a2⟩ := h1.inb hn
    obtain ⟨b1, b2⟩ := h2.inb (by rw [h1.conn]; exact hn)
    exact ⟨b1.trans a1, b2.trans a2⟩
  · intro hn
    exact (h2.outb (by rw [h1.conn]; exact hn)).trans (h1.outb hn)

theorem KeepCli.mono {I O I' O' : String → Prop} {rm : Nat} {c c' : Cli} (hI : ∀ x, I x → I' x) (hO : ∀ x, O x → O' x)
    (h : KeepCli I O rm c c') : KeepCli I' O' rm c c' :=
  ⟨h.conn, h.cid, h.v, h.maxInflight, h.cliMaxPkt, h.cliAliasMax, h.quotaLe, fun hn => h.inb (fun hi => hn (hI _ hi)),
   fun hn => h.outb (fun ho => hn (hO _ ho)), h.alias⟩

/-- an update that leaves the outbound alias manager alone -/
theorem KeepCli.of_fields {I O : String → Prop} {rm : Nat} {c c' : Cli} (h1 : c'.conn = c.conn) (h2 : c'.cid = c.cid)
    (h3 : c'.v = c.v) (h4 : c'.maxInflight = c.maxInflight) (h5 : c'.cliMaxPkt = c.cliMaxPkt)
    (h6 : c'.cliAliasMax = c.cliAliasMax) (h7 : c'.aliasOut = c.aliasOut) (hq : c.quota ≤ rm → c'.quota ≤ rm)
    (hi : ¬ I c.conn → c'.quota = c.quota ∧ c'.aliasIn = c.aliasIn) : KeepCli I O rm c c' :=
  ⟨h1, h2, h3, h4, h5, h6, hq, hi, fun _ => h7, fun h => by unfold AliasGood at *; rw [h3, h6, h7]; exact h⟩

/-- `Lim I O b b'`: see the header of this file -/
structure Lim (I O : String → Prop) (b b' : B) : Prop where
  cfg : b'.cfg = b.cfg
  clis : ∀ c' ∈ b'.clis, ∃ c ∈ b.clis, KeepCli I O b.cfg.recvMax c c'
  cids : CidsND b → CidsND b'
  sz : CidsND b → SzInv b → SzInv b'

theorem Lim.refl (I O : String → Prop) (b : B) : Lim I O b b :=
  ⟨rfl, fun c hc => ⟨c, hc, KeepCli.refl _ _ _ c⟩, id, fun _ h => h⟩

theorem Lim.trans {I O : String → Prop} {a b c : B} (h1 : Lim I O a b) (h2 : Lim I O b c) : Lim I O a c := by
  refine ⟨h2.cfg.trans h1.cfg, ?_, fun h => h2.cids (h1.cids h), fun hc h => h2.sz (h1.cids hc) (h1.sz hc h)⟩
  intro z hz
  obtain ⟨y, hy, k2⟩ := h2.clis z hz
  obtain ⟨x, hx, k1⟩ := h1.clis y hy
  rw [h1.cfg] at k2
  exact ⟨x, hx, k1.trans k2⟩

theorem Lim.mono {I O I' O' : String → Prop} {b b' : B} (hI : ∀ x, I x → I' x) (hO : ∀ x, O x → O' x) (h : Lim I O b b') :
    Lim I' O' b b' :=
  ⟨h.cfg, fun c' hc' => let ⟨c, hc, k⟩ := h.clis c' hc'; ⟨c, hc, k.mono hI hO⟩, h.cids, h.sz⟩

/-- a change that adds no queue element -/
theorem Lim.of_parts {I O : String → Prop} {b b' : B} (hcfg : b'.cfg = b.cfg)
    (hclis : ∀ c' ∈ b'.clis, ∃ c ∈ b.clis, KeepCli I O b.cfg.recvMax c c')
    (hcids : CidsND b → CidsND b') (hm : MsgsExt b b')
    (hs : ∀ s' ∈ b'.sessions, ∃ s ∈ b.sessions, s'.cid = s.cid ∧ QSub s.queue s'.queue) : Lim I O b b' :=
  ⟨hcfg, hclis, hcids, fun _ h => h.mono hm hs (fun c' hc' =>
    let ⟨c, hc, k⟩ := hclis c' hc'; ⟨c, hc, k.cid, k.v, k.cliMaxPkt⟩)⟩

theorem clis_same {I O : String → Prop} {b b' : B} (h : b'.clis = b.clis) :
    ∀ c' ∈ b'.clis, ∃ c ∈ b.clis, KeepCli I O b.cfg.recvMax c c' :=
  fun c hc => ⟨c, by rw [← h]; exact hc, KeepCli.refl _ _ _ c⟩

theorem sess_same {b b' : B} (h : b'.sessions = b.sessions) :
    ∀ s' ∈ b'.sessions, ∃ s ∈ b.sessions, s'.cid = s.cid ∧ QSub s.queue s'.queue :=
  fun s hs => ⟨s, by rw [← h]; exact hs, rfl, QSub.refl _⟩

theorem cids_same {b b' : B} (h : b'.clis = b.clis) : CidsND b → CidsND b' := by
  unfold CidsND; rw [h]; exact id

/-- only fields other than configuration, connections, sessions and message log change -/
theorem lim_of_eq {I O : String → Prop} {b b' : B} (hcfg : b'.cfg = b.cfg) (hc : b'.clis = b.clis)
    (hs : b'.sessions = b.sessions) (hm : b'.msgs = b.msgs) : Lim I O b b' :=
  Lim.of_parts hcfg (clis_same hc) (cids_same hc) (MsgsExt.of_eq hm) (sess_same hs)

theorem lim_emit {I O : String → Prop} (b : B) (conn : String) (poll : Bool) (p : Pkt) : Lim I O b (b.emit conn poll p) :=
  lim_of_eq rfl rfl rfl rfl

/-- connections are dropped -/
theorem lim_clis_sub {I O : String → Prop} {b b' : B} (hcfg : b'.cfg = b.cfg) (hc : b'.clis.Sublist b.clis)
    (hs : b'.sessions = b.sessions) (hm : b'.msgs = b.msgs) : Lim I O b b' :=
  Lim.of_parts hcfg (fun c h => ⟨c, hc.subset h, KeepCli.refl _ _ _ c⟩)
    (fun h => List.Nodup.sublist (hc.map _) h) (MsgsExt.of_eq hm) (sess_same hs)

theorem lim_dropCli {I O : String → Prop} (b : B) (conn : String) : Lim I O b (b.dropCli conn) :=
  lim_clis_sub rfl List.filter_sublist rfl rfl

/-- sessions are dropped -/
theorem lim_sess_sub {I O : String → Prop} {b b' : B} (hcfg : b'.cfg = b.cfg) (hc : b'.clis = b.clis)
    (hs : ∀ s ∈ b'.sessions, s ∈ b.sessions) (hm : b'.msgs = b.msgs) : Lim I O b b' :=
  Lim.of_parts hcfg (clis_same hc) (cids_same hc) (MsgsExt.of_eq hm) (fun s h => ⟨s, hs s h, rfl, QSub.refl _⟩)

theorem cidsND_setCli {b : B} {c' c0 : Cli} (h0 : b.cli? c'.conn = some c0) (hcid : c'.cid = c0.cid) (h : CidsND b) :
    CidsND (b.setCli c') := by
  obtain ⟨hm0, hconn0⟩ := cli?_some h0
  have hsub : (b.clis.filter (·.conn != c'.conn)).Sublist b.clis := List.filter_sublist
  show ((c' :: b.clis.filter (·.conn != c'.conn)).map (·.cid)).Nodup
  rw [List.map_cons, List.nodup_cons]
  refine ⟨?_, List.Nodup.sublist (hsub.map _) h⟩
  intro hmem
  obtain ⟨x, hx, hxc⟩ := List.mem_map.1 hmem
  rw [List.mem_filter] at hx
  have : x = c0 := h.inj hx.1 hm0 (by rw [hxc, hcid])
  rw [this, hconn0] at hx
  simp at hx

/-- the record of an online connection is replaced -/
theorem lim_setCli {I O : String → Prop} (b : B) (c' c0 : Cli) (h0 : b.cli? c'.conn = some c0)
    (hk : KeepCli I O b.cfg.recvMax c0 c') : Lim I O b (b.setCli c') := by
  refine Lim.of_parts rfl ?_ (cidsND_setCli h0 hk.cid) (MsgsExt.of_eq rfl) (sess_same rfl)
  intro x hx
  rcases mem_setCli' hx with rfl | ⟨hx, _⟩
  · exact ⟨c0, (cli?_some h0).1, hk⟩
  · exact ⟨x, hx, KeepCli.refl _ _ _ x⟩

/-- a stored session is replaced by one with the same id whose queue has nothing new -/
theorem lim_setSess {I O : String → Prop} (b : B) (s' s0 : Sess) (h0 : s0 ∈ b.sessions) (hcid : s'.cid = s0.cid)
    (hq : QSub s0.queue s'.queue) : Lim I O b (b.setSess s') := by
  refine Lim.of_parts rfl (clis_same rfl) (cids_same rfl) (MsgsExt.of_eq rfl) ?_
  intro x hx
  rcases mem_setSess hx with rfl | hx
  · exact ⟨s0, h0, hcid, hq⟩
  · exact ⟨x, hx, rfl, QSub.refl _⟩

theorem lim_setSess_of {I O : String → Prop} (b : B) (cid : String) (s0 s' : Sess) (hs : b.sess? cid = some s0)
    (hcid : s'.cid = s0.cid) (hq : QSub s0.queue s'.queue) : Lim I O b (b.setSess s') :=
  lim_setSess b s' s0 (sess?_some hs).1 hcid hq

theorem lim_setSess_same {I O : String → Prop} (b : B) (cid : String) (s0 s' : Sess) (hs : b.sess? cid = some s0)
    (hcid : s'.cid = s0.cid) (hq : s'.queue = s0.queue) : Lim I O b (b.setSess s') :=
  lim_setSess_of b cid s0 s' hs hcid (by rw [hq]; exact QSub.refl _)

/-- the message log changes without changing encoded lengths -/
theorem lim_msgs {I O : String → Prop} {b b' : B} (hcfg : b'.cfg = b.cfg) (hc : b'.clis = b.clis)
    (hs : b'.sessions = b.sessions) (hm : MsgsExt b b') : Lim I O b b' :=
  Lim.of_parts hcfg (clis_same hc) (cids_same hc) hm (sess_same hs)

/-- a queued PUBLISH, stamped for the online connection of `cid`, is added and logged -/
theorem lim_addElem {I O : String → Prop} (b : B) (cid : String) (s : Sess) (hs : b.sess? cid = some s) (e : Queue.Elem)
    (m : Msg) (t : Nat) (htag : e.tag = b.msgs.length)
    (hv : CidsND b → ∀ c ∈ b.clis, c.cid = cid → e.size = totalBytes c.v m) :
    Lim I O b { (b.setSess { s with queue := (s.queue.add b.now e).1 }) with msgs := b.msgs ++ [m], ats := b.ats ++ [t] } :=
  ⟨rfl, clis_same rfl, cids_same rfl, fun hc h => szInv_addElem b cid s hs e m t htag (hv hc) h⟩

theorem lim_foldl {I O : String → Prop} {α : Type} (f : B → α → B) (hf : ∀ b a, Lim I O b (f b a)) (l : List α) (b : B) :
    Lim I O b (l.foldl f b) := by
  induction l generalizing b with
  | nil => exact Lim.refl _ _ b
  | cons x xs ih => exact (hf b x).trans (ih _)

/-! ### publishing -/

/-- with one connection per client id, `enqueue` computes sizes for the version of THE online connection -/
theorem enqV_of_online {b : B} (hc : CidsND b) {c : Cli} (hm : c ∈ b.clis) (s : Sess) : b.enqV c.cid s = c.v := by
  unfold B.enqV
  cases h : b.cliOf? c.cid with
  | none =>
    unfold B.cliOf? at h
    rw [List.find?_eq_none] at h
    exact absurd (h c hm) (by simp)
  | some c' =>
    obtain ⟨hm', hcid'⟩ := cliOf?_some h
    rw [hc.inj hm' hm hcid']

theorem lim_enqueue {I O : String → Prop} (b : B) (cid : String) (q : Nat) (m : Msg) : Lim I O b (b.enqueue cid q m) := by
  cases hs : b.sess? cid with
  | none => rw [enqueue_none b cid q m hs]; exact Lim.refl _ _ b
  | some s =>
    rw [enqueue_some b cid q m s hs]
    split
    · exact Lim.refl _ _ b
    · refine lim_addElem b cid s hs (b.enqElem cid s m) m b.now rfl ?_
      intro hc c hcm hcid
      show totalBytes (b.enqV cid s) m = _
      rw [← hcid, enqV_of_online hc hcm]

theorem lim_deliverMsg {I O : String → Prop} (b : B) (src : String) (m : Msg) (hints : List Nat) (rap : List String) :
    Lim I O b (b.deliverMsg src m hints rap).1 := by
  simp only [B.deliverMsg]
  exact lim_foldl _ (fun bb a => lim_enqueue bb _ _ _) _ _

theorem lim_sendWill {I O : String → Prop} (b : B) (cid : String) (m : Msg) : Lim I O b (b.sendWill cid m) := by
  rw [sendWill_eq]
  refine Lim.trans (b := b.willRetain m) ?_ (lim_deliverMsg _ _ _ _ _)
  unfold B.willRetain
  split
  · split <;> exact lim_of_eq rfl rfl rfl rfl
  · exact Lim.refl _ _ b

/-! ### session end, connection end -/

theorem lim_terminate {I O : String → Prop} (b : B) (cid : String) : Lim I O b (b.terminate cid) :=
  lim_sess_sub rfl rfl (fun _ h => (List.mem_filter.1 h).1) rfl

theorem lim_dropWill {I O : String → Prop} (b : B) (cid : String) : Lim I O b (b.dropWill cid) :=
  lim_of_eq rfl rfl rfl rfl

theorem lim_terminateS {I O : String → Prop} (b : B) (cid : String) : Lim I O b (b.terminateS cid) := by
  cases hw : b.willOf? cid with
  | none => rw [terminateS_none b cid hw]; exact lim_terminate b cid
  | some x =>
    rw [terminateS_some b cid x hw]
    exact (lim_terminate b cid).trans ((lim_dropWill _ cid).trans (lim_sendWill _ _ _))

theorem lim_willStep {I O : String → Prop} (b : B) (c : Cli) (s : Sess) (store : Bool) : Lim I O b (willStep b c s store) := by
  by_cases hcw : c.cleanWill = true
  · rw [willStep_clean _ _ _ _ hcw]; exact Lim.refl _ _ b
  · cases hw : s.will with
    | none => rw [willStep_nowill _ _ _ _ hw]; exact Lim.refl _ _ b
    | some w =>
      rw [willStep_will b c s store w (by simpa using hcw) hw]
      split
      · exact lim_of_eq rfl rfl rfl rfl
      · exact lim_sendWill _ _ _

theorem unregSess_queue (c : Cli) (s0 : Sess) (force : Bool) : (unregSess c s0 force).queue = s0.queue := by
  unfold unregSess
  split
  · split <;> rfl
  · rfl

theorem lim_unregister {I O : String → Prop} (b : B) (conn : String) (force : Bool) : Lim I O b (b.unregister conn force) := by
  cases hc : b.cli? conn with
  | none => rw [unregister_none b conn force hc]; exact Lim.refl _ _ b
  | some c =>
    rw [unregister_eq b conn force c hc]
    cases hs : b.sess? c.cid with
    | none => exact (lim_dropCli b conn).trans (lim_terminateS _ _)
    | some s0 =>
      simp only
      generalize hs' : ({ unregSess c s0 force with queue := (unregSess c s0 force).queue.close } : Sess) = s'
      have hcid' : s'.cid = s0.cid := by rw [← hs']; exact unregSess_cid c s0 force
      have hq' : QSub s0.queue s'.queue := by
        rw [← hs']
        show QSub s0.queue (unregSess c s0 force).queue.close
        rw [unregSess_queue]; exact qsub_close _
      have hs0 : (b.dropCli conn).sess? c.cid = some s0 := hs
      have m1 : Lim I O b ((b.dropCli conn).setSess s') :=
        (lim_dropCli b conn).trans (lim_setSess_of _ c.cid s0 s' hs0 hcid' hq')
      generalize (b.dropCli conn).setSess s' = b1 at m1
      generalize (!force && (unregSess c s0 force).expiry != 0) = store
      have m2 := m1.trans (lim_willStep b1 c s' store)
      split
      · exact m2.trans (lim_of_eq rfl rfl rfl rfl)
      · exact m2.trans (lim_terminateS _ _)

theorem lim_kick {I O : String → Prop} (b : B) (conn : String) (code : Option Nat) : Lim I O b (b.kick conn code) := by
  obtain ⟨o, ho⟩ := kick_eq b conn code
  rw [ho]
  exact (lim_of_eq rfl rfl rfl rfl : Lim I O b { b with out := o }).trans (lim_unregister _ conn false)

/-! ### the handlers -/

/-- a PUBACK / PUBCOMP written by the broker gives the receive quota back (on a connection in `I`) -/
theorem lim_quotaBack {I O : String → Prop} (b X : B) (conn : String) (hI : I conn) (h : Lim I O b X) :
    Lim I O b (match X.cli? conn with
      | some c' => X.setCli { c' with quota := min (c'.quota + 1) X.cfg.recvMax }
      | none => X) := by
  cases hc' : X.cli? conn with
  | none => exact h
  | some c' =>
    have hconn := (cli?_some hc').2
    refine h.trans (lim_setCli X _ c' (by rw [← hc', hconn]) ?_)
    exact KeepCli.of_fields rfl rfl rfl rfl rfl rfl rfl (fun _ => Nat.min_le_right _ _)
      (fun hn => absurd (by rw [hconn]; exact hI) hn)

theorem lim_pubrelIn {O : String → Prop} (b : B) (conn : String) (pid : Nat) :
    Lim (fun x => x = conn) O b (b.pubrelIn conn pid) := by
  unfold B.pubrelIn
  cases hc : b.cli? conn with
  | none => exact Lim.refl _ _ b
  | some c =>
    have h1 : Lim (fun x => x = conn) O b (match b.sess? c.cid with
        | some s => b.setSess { s with unack := s.unack.filter (· != pid) }
        | none => b) := by
      cases hs : b.sess? c.cid with
      | some s => exact lim_setSess_same b c.cid s _ hs rfl rfl
      | none => exact Lim.refl _ _ b
    have h2 := h1.trans (lim_emit _ conn false (.pubcomp pid))
    simp only
    split
    · exact lim_quotaBack _ _ conn rfl h2
    · exact h2

theorem lim_disc_tail {I O : String → Prop} (b : B) (c : Cli) (s : Sess) (d : Nat) (de : Option (Option Nat)) (cw : Bool)
    (hc : b.cli? c.conn = some c) (hs : b.sess? c.cid = some s) :
    Lim I O b (if (s.expiry == 0 && d != 0) = true then b
      else (if (d != 0) = true then b.setSess { s with expiry := d } else b).setCli
        { c with discExpiry := de, cleanWill := cw }) := by
  have hk : KeepCli I O b.cfg.recvMax c { c with discExpiry := de, cleanWill := cw } :=
    KeepCli.of_fields rfl rfl rfl rfl rfl rfl rfl (fun h => h) (fun _ => ⟨rfl, rfl⟩)
  by_cases h1 : (s.expiry == 0 && d != 0) = true
  · rw [if_pos h1]; exact Lim.refl _ _ b
  · rw [if_neg h1]
    by_cases h2 : (d != 0) = true
    · rw [if_pos h2]
      exact (lim_setSess_same b c.cid s { s with expiry := d } hs rfl rfl).trans (lim_setCli _ _ c hc hk)
    · rw [if_neg h2]; exact lim_setCli b _ c hc hk

theorem lim_disconnectIn {I O : String → Prop} (b : B) (conn : String) (se : Option Nat) (code : Nat) :
    Lim I O b (b.disconnectIn conn se code) := by
  unfold B.disconnectIn
  cases hc : b.cli? conn with
  | none => exact Lim.refl _ _ b
  | some c =>
    have hconn := (cli?_some hc).2
    have hc' : b.cli? c.conn = some c := by rw [hconn]; exact hc
    simp only
    by_cases hv : (c.v == 5) = true
    · rw [if_pos hv]
      cases hs : b.sess? c.cid with
      | none => exact Lim.refl _ _ b
      | some s => exact lim_disc_tail b c s _ _ _ hc' hs
    · rw [if_neg hv]
      exact lim_setCli _ _ c hc' (KeepCli.of_fields rfl rfl rfl rfl rfl rfl rfl (fun h => h) (fun _ => ⟨rfl, rfl⟩))

theorem lim_closeIn {I O : String → Prop} (b : B) (conn : String) : Lim I O b (b.closeIn conn) := by
  unfold B.closeIn
  split
  · exact Lim.refl _ _ b
  · exact (lim_unregister b conn false).trans (lim_emit _ _ _ _)

theorem lim_apiTerminate {I O : String → Prop} (b : B) (cid : String) : Lim I O b (b.apiTerminate cid) := by
  unfold B.apiTerminate
  split
  · exact (lim_emit b _ _ _).trans (lim_unregister _ _ _)
  · split
    · exact lim_terminateS b cid
    · exact Lim.refl _ _ b

theorem lim_apiExpire {I O : String → Prop} (b : B) : Lim I O b b.apiExpire := by
  unfold B.apiExpire
  exact lim_foldl _ (fun bb (cd : String × Nat) => lim_terminateS bb cd.1) _ _

theorem lim_apiBackdate {I O : String → Prop} (b : B) (cid : String) (secs : Nat) : Lim I O b (b.apiBackdate cid secs) := by
  unfold B.apiBackdate
  cases hs : b.sess? cid with
  | none => exact Lim.refl _ _ b
  | some s =>
    exact (lim_setSess_same b cid s { s with connectedAt := s.connectedAt - secs * 1000 } hs rfl rfl).trans
      (lim_of_eq rfl rfl rfl rfl)

theorem lim_sleep {I O : String → Prop} (b : B) (ms : Nat) : Lim I O b (b.sleep ms) := by
  have key : ∀ (n : Nat) (l : List (String × Msg × Nat)), Lim I O b ({ b with now := n, pendingWills := l } : B) :=
    fun _ _ => lim_of_eq rfl rfl rfl rfl
  unfold B.sleep
  simp only
  exact (key _ _).trans (lim_foldl _ (fun bb w => lim_sendWill bb _ _) _ _)

theorem lim_subs {I O : String → Prop} (b : B) (l : List (String × Sub)) : Lim I O b { b with subs := l } :=
  lim_of_eq rfl rfl rfl rfl

theorem lim_unsubscribe {I O : String → Prop} (b : B) (conn : String) (pid : Nat) (topics : List String) :
    Lim I O b (b.unsubscribe conn pid topics) := by
  unfold B.unsubscribe
  split
  · exact Lim.refl _ _ b
  · simp only
    exact (lim_foldl _ (fun bb name => lim_subs bb _) topics b).trans (lim_emit _ _ _ _)

theorem lim_pubAck {O : String → Prop} (b X : B) (c : Cli) (r : PubReq) (matched : Bool)
    (h : Lim (fun x => x = r.conn) O b X) : Lim (fun x => x = r.conn) O b (X.pubAck c r matched) := by
  unfold B.pubAck
  extract_lets code b4
  have hb4 : Lim (fun x => x = r.conn) O b b4 := by
    simp only [b4]
    split
    · exact h.trans (lim_emit _ _ _ _)
    · split
      · exact h.trans (lim_emit _ _ _ _)
      · exact h
  split
  · exact lim_quotaBack _ _ _ rfl hb4
  · exact hb4

theorem lim_publishTail {O : String → Prop} (b X : B) (c : Cli) (r : PubReq) (s : Sess) (hs : X.sess? c.cid = some s)
    (h : Lim (fun x => x = r.conn) O b X) : Lim (fun x => x = r.conn) O b (X.publishTail c r s) := by
  unfold B.publishTail
  extract_lets dupl s1 b1 bm
  have hs1 : s1.cid = s.cid ∧ s1.queue = s.queue := by simp only [s1]; split <;> exact ⟨rfl, rfl⟩
  have hb1 : Lim (fun x => x = r.conn) O b b1 := by
    have hq : Lim (fun x => x = r.conn) O b ((X.setSess s1).pubDupQuota c r dupl) := by
      unfold B.pubDupQuota
      split
      · exact lim_quotaBack _ _ _ rfl (h.trans (lim_setSess_same X c.cid s s1 hs hs1.1 hs1.2))
      · exact h.trans (lim_setSess_same X c.cid s s1 hs hs1.1 hs1.2)
    refine hq.trans ?_
    simp only [b1, B.pubRetain]
    split
    · split <;> exact lim_of_eq rfl rfl rfl rfl
    · exact Lim.refl _ _ _
  refine lim_pubAck b _ c r _ ?_
  simp only [bm]
  split
  · exact hb1.trans (lim_deliverMsg _ _ _ _ _)
  · exact hb1

theorem keepCli_pubCli {O : String → Prop} (rm : Nat) (c : Cli) (r : PubReq) (hconn : c.conn = r.conn) :
    KeepCli (fun x => x = r.conn) O rm c (pubCli c r) := by
  unfold pubCli
  split
  · exact KeepCli.of_fields rfl rfl rfl rfl rfl rfl rfl (fun h => Nat.le_trans (Nat.sub_le _ _) h)
      (fun hn => absurd hconn hn)
  · exact KeepCli.refl _ _ _ c

theorem keepCli_aliasRes {O : String → Prop} {cfg : Cfg} {rm : Nat} {c c2 : Cli} {r : PubReq} {t : String}
    (h : aliasRes cfg c r = .ok (t, c2)) (hconn : c.conn = r.conn) : KeepCli (fun x => x = r.conn) O rm c c2 := by
  have hI : ¬ ¬ (c.conn = r.conn) := fun hn => hn hconn
  unfold aliasRes at h
  split at h
  · split at h
    · split at h
      · cases h
      · split at h
        · split at h
          · split at h
            · cases h
            · simp only [Except.ok.injEq, Prod.mk.injEq] at h
              rw [← h.2]; exact KeepCli.refl _ _ _ c
          · cases h
        · simp only [Except.ok.injEq, Prod.mk.injEq] at h
          rw [← h.2]
          exact KeepCli.of_fields rfl rfl rfl rfl rfl rfl rfl id (fun hn => absurd hn hI)
    · split at h
      · cases h
      · simp only [Except.ok.injEq, Prod.mk.injEq] at h
        rw [← h.2]; exact KeepCli.refl _ _ _ c
  · split at h
    · cases h
    · simp only [Except.ok.injEq, Prod.mk.injEq] at h
      rw [← h.2]; exact KeepCli.refl _ _ _ c

theorem lim_publish {O : String → Prop} (b : B) (r : PubReq) : Lim (fun x => x = r.conn) O b (b.publish r) := by
  rw [publish_eq]
  cases hc : b.cli? r.conn with
  | none => exact Lim.refl _ _ b
  | some c =>
    have hconn := (cli?_some hc).2
    simp only
    split
    · exact lim_kick _ _ _
    · split
      · exact lim_kick _ _ _
      · split
        · exact lim_kick _ _ _
        · have hb1 : Lim (fun x => x = r.conn) O b (b.setCli (pubCli c r)) :=
            lim_setCli b (pubCli c r) c (by rw [pubCli_conn, hconn]; exact hc) (keepCli_pubCli _ c r hconn)
          have hc1 : (b.setCli (pubCli c r)).cli? r.conn = some (pubCli c r) := by
            rw [cli?_setCli, if_pos (by rw [pubCli_conn, hconn])]
          split
          · exact hb1.trans (lim_kick _ _ _)
          · split
            · exact hb1.trans (lim_kick _ _ _)
            · split
              · exact hb1.trans (lim_kick _ _ _)
              · next topic c2 hres =>
                obtain ⟨h2conn, _⟩ := aliasRes_ok hres
                have hb2 : Lim (fun x => x = r.conn) O b ((b.setCli (pubCli c r)).setCli c2) :=
                  hb1.trans (lim_setCli _ c2 (pubCli c r) (by rw [h2conn, pubCli_conn, hconn]; exact hc1)
                    (keepCli_aliasRes hres (by rw [pubCli_conn, hconn])))
                split
                · exact hb2
                · next s hs => exact lim_publishTail b _ c2 { r with topic := topic } s hs hb2

theorem lim_foldl_pair {I O : String → Prop} {α β : Type} (b0 : B) (f : B × β → α → B × β)
    (hf : ∀ acc a, acc.1.clis = b0.clis → Lim I O acc.1 (f acc a).1 ∧ (f acc a).1.clis = b0.clis) (l : List α) (acc : B × β)
    (h : acc.1.clis = b0.clis) : Lim I O acc.1 (l.foldl f acc).1 := by
  induction l generalizing acc with
  | nil => exact Lim.refl _ _ _
  | cons x xs ih =>
    obtain ⟨h1, h2⟩ := hf acc x h
    exact h1.trans (ih _ h2)

theorem lim_foldl_inv {I O : String → Prop} {α : Type} (P : B → Prop) (f : B → α → B)
    (hf : ∀ b a, P b → Lim I O b (f b a) ∧ P (f b a)) (l : List α) (b : B) (h : P b) :
    Lim I O b (l.foldl f b) ∧ P (l.foldl f b) := by
  induction l generalizing b with
  | nil => exact ⟨Lim.refl _ _ b, h⟩
  | cons x xs ih =>
    obtain ⟨h1, h2⟩ := hf b x h
    obtain ⟨h3, h4⟩ := ih _ h2
    exact ⟨h1.trans h3, h4⟩

theorem lim_subscribe {I O : String → Prop} (b : B) (conn : String) (pid : Nat) (topics : List SubTopic) (idProp : Nat) :
    Lim I O b (b.subscribe conn pid topics idProp) := by
  unfold B.subscribe
  cases hc : b.cli? conn with
  | none => exact Lim.refl _ _ b
  | some c =>
    have hcm := (cli?_some hc).1
    simp -zeta only
    extract_lets subID
    split
    · exact lim_kick _ _ _
    · refine (lim_foldl_pair b _ ?_ topics (b, []) rfl).trans (lim_emit _ _ _ _)
      intro acc t hcl
      extract_lets b_1 last sub code0 code1 code2 code3 existed subs b2 b3
      by_cases hcode : code3 ≥ 128
      · rw [if_pos hcode]; exact ⟨Lim.refl _ _ _, hcl⟩
      · rw [if_neg hcode]
        show Lim I O acc.1 b3 ∧ b3.clis = b.clis
        have h2 : Lim I O acc.1 b2 := lim_subs acc.1 subs
        have hcl2 : b2.clis = b.clis := hcl
        suffices h : Lim I O b2 b3 ∧ b3.clis = b.clis from ⟨h2.trans h.1, h.2⟩
        simp only [b3]
        split
        · split
          · exact ⟨Lim.refl _ _ _, hcl2⟩
          · refine lim_foldl_inv (fun bb => bb.clis = b.clis) _ (fun bb tm hbb => ?_) _ _ hcl2
            cases hs : bb.sess? c.cid with
            | none => exact ⟨Lim.refl _ _ _, hbb⟩
            | some s =>
              simp only
              refine ⟨lim_addElem bb c.cid s hs _ _ _ rfl ?_, hbb⟩
              intro hnd x hx hxc
              have : x = c := hnd.inj hx (by rw [hbb]; exact hcm) hxc
              rw [this]
        · exact ⟨Lim.refl _ _ _, hcl2⟩

theorem lim_ackOut {I O : String → Prop} (b : B) (conn : String) (id : Nat) : Lim I O b (b.ackOut conn id) := by
  unfold B.ackOut
  cases hc : b.cli? conn with
  | none => exact Lim.refl _ _ b
  | some c =>
    have hconn := (cli?_some hc).2
    simp only
    have h1 : Lim I O b (match b.sess? c.cid with
        | some s => b.setSess { s with queue := (s.queue.remove id).1 }
        | none => b) := by
      cases hs : b.sess? c.cid with
      | some s => exact lim_setSess_of b c.cid s _ hs rfl (qsub_remove s.queue id)
      | none => exact Lim.refl _ _ b
    refine h1.trans (lim_setCli _ (c.release id) c ?_
      (KeepCli.of_fields rfl rfl rfl rfl rfl rfl rfl (fun h => h) (fun _ => ⟨rfl, rfl⟩)))
    have : (c.release id).conn = conn := hconn
    rw [this]
    split
    · exact hc
    · exact hc

theorem lim_pubrecOut {I O : String → Prop} (b : B) (conn : String) (id code : Nat) : Lim I O b (b.pubrecOut conn id code) := by
  unfold B.pubrecOut
  cases hc : b.cli? conn with
  | none => exact Lim.refl _ _ b
  | some c =>
    simp only
    split
    · exact lim_ackOut b conn id
    · refine Lim.trans (b := match b.sess? c.cid with
          | some s => b.setSess { s with queue := (s.queue.replace
              { tag := 0, pub := false, id := id, qos := 0, exp := none, size := 0 }).1 }
          | none => b) ?_ (lim_emit _ conn false _)
      cases hs : b.sess? c.cid with
      | none => exact Lim.refl _ _ b
      | some s => exact lim_setSess_of b c.cid s _ hs rfl (qsub_replace s.queue _)

end GmqttVerif.Broker
