import GmqttVerif.Proofs.BrokerEnqueue
/-
  The poll loops of the wire-level broker model taken apart: `B.pump` (`pollNewMessages`) and `B.replay`
  (`pollInflights`) as sequences of rounds; what `emitPub` (topic-alias compression in `writeLoop`) changes.
-/
namespace GmqttVerif.Broker
open GmqttVerif.Deliver

/-! ### `emitPub` -/

/-- what a run of `emitPub`s on `conn` changes: the output, and the outbound alias table of `conn`'s record -/
structure PubEmit (conn : String) (b b' : B) : Prop where
  eq : ∃ cl o, b' = { b with clis := cl, out := o }
  clis : ∀ x ∈ b'.clis, ∃ y ∈ b.clis, x = { y with aliasOut := x.aliasOut } ∧ (y.conn ≠ conn → x = y)
  cli : ∀ c, b.cli? conn = some c → ∃ c', b'.cli? conn = some c' ∧ c' = { c with aliasOut := c'.aliasOut }

theorem PubEmit.refl (conn : String) (b : B) : PubEmit conn b b :=
  ⟨⟨b.clis, b.out, rfl⟩, fun x hx => ⟨x, hx, rfl, fun _ => rfl⟩, fun c hc => ⟨c, hc, rfl⟩⟩

theorem PubEmit.trans {conn : String} {a b c : B} (h1 : PubEmit conn a b) (h2 : PubEmit conn b c) : PubEmit conn a c := by
  refine ⟨?_, ?_, ?_⟩
  · obtain ⟨cl1, o1, e1⟩ := h1.eq
    obtain ⟨cl2, o2, e2⟩ := h2.eq
    exact ⟨cl2, o2, by rw [e2, e1]⟩
  · intro x hx
    obtain ⟨y, hy, e2, n2⟩ := h2.clis x hx
    obtain ⟨z, hz, e1, n1⟩ := h1.clis y hy
    refine ⟨z, hz, ?_, ?_⟩
    · rw [e2, e1]
    · intro hne
      have hyz := n1 hne
      rw [n2 (by rw [hyz]; exact hne), hyz]
  · intro c0 hc0
    obtain ⟨c1, hc1, e1⟩ := h1.cli c0 hc0
    obtain ⟨c2, hc2, e2⟩ := h2.cli c1 hc1
    exact ⟨c2, hc2, by rw [e2, e1]⟩

theorem PubEmit.sessions {conn : String} {b b' : B} (h : PubEmit conn b b') : b'.sessions = b.sessions := by
  obtain ⟨cl, o, e⟩ := h.eq; rw [e]
theorem PubEmit.msgs {conn : String} {b b' : B} (h : PubEmit conn b b') : b'.msgs = b.msgs := by
  obtain ⟨cl, o, e⟩ := h.eq; rw [e]
theorem PubEmit.now {conn : String} {b b' : B} (h : PubEmit conn b b') : b'.now = b.now := by
  obtain ⟨cl, o, e⟩ := h.eq; rw [e]
theorem PubEmit.sess? {conn : String} {b b' : B} (h : PubEmit conn b b') (cid : String) : b'.sess? cid = b.sess? cid := by
  unfold B.sess?; rw [h.sessions]

theorem mem_setCli' {b : B} {c x : Cli} (h : x ∈ (b.setCli c).clis) : x = c ∨ (x ∈ b.clis ∧ x.conn ≠ c.conn) := by
  simp only [B.setCli, List.mem_cons, List.mem_filter] at h
  rcases h with h | h
  · exact .inl h
  · exact .inr ⟨h.1, by simpa using h.2⟩

theorem pubEmit_setAlias (b : B) (conn : String) (c : Cli) (q : Alias.Fifo String) (hc : b.cli? conn = some c) :
    PubEmit conn b (b.setCli { c with aliasOut := q }) := by
  obtain ⟨hm, hconn⟩ := cli?_some hc
  refine ⟨⟨_, b.out, rfl⟩, ?_, ?_⟩
  · intro x hx
    rcases mem_setCli' hx with rfl | ⟨hx, hne⟩
    · exact ⟨c, hm, rfl, fun h => absurd hconn h⟩
    · exact ⟨x, hx, rfl, fun _ => rfl⟩
  · intro c0 hc0
    rw [hc] at hc0; cases hc0
    exact ⟨_, by rw [cli?_setCli, if_pos hconn], rfl⟩

theorem pubEmit_emit (b : B) (conn : String) (p : Pkt) : PubEmit conn b (b.emit conn true p) :=
  ⟨⟨b.clis, _, rfl⟩, fun x hx => ⟨x, hx, rfl, fun _ => rfl⟩, fun c hc => ⟨c, hc, rfl⟩⟩

/-- one `emitPub`: exactly one packet is appended, on the P stream of `conn`, equal to `p` up to alias compression -/
theorem emitPub_out (b : B) (conn : String) (p : Pkt) :
    PubEmit conn b (b.emitPub conn p) ∧
    ∃ p', (b.emitPub conn p).out = b.out ++ [{ conn := conn, poll := true, pkt := p' }] ∧ p'.core = p.core := by
  obtain ⟨b', p', he, hcore, hb'⟩ := emitPub_spec b conn p
  rw [he]
  rcases hb' with rfl | ⟨c, q, hc, rfl⟩
  · exact ⟨pubEmit_emit _ _ _, p', rfl, hcore⟩
  · exact ⟨(pubEmit_setAlias b conn c q hc).trans (pubEmit_emit _ _ _), p', rfl, hcore⟩

/-- the P-stream entries for a list of packets -/
def pOuts (conn : String) (ps : List Pkt) : List Out := ps.map (fun p => { conn := conn, poll := true, pkt := p })

/-- the P-stream packets written to `conn` since `b0` -/
def newP (b0 b : B) (conn : String) : List Pkt :=
  ((b.out.drop b0.out.length).filter (fun o => o.conn == conn && o.poll)).map (·.pkt)

theorem foldl_emitPub_out (conn : String) (f : Queue.Elem → Pkt) (out : List Queue.Elem) (b : B) :
    let b' := out.foldl (fun bb (e : Queue.Elem) => bb.emitPub conn (f e)) b
    PubEmit conn b b' ∧
    ∃ ps, b'.out = b.out ++ pOuts conn ps ∧ ps.map Pkt.core = out.map (fun e => (f e).core) := by
  induction out generalizing b with
  | nil => exact ⟨PubEmit.refl conn b, [], by simp [pOuts], rfl⟩
  | cons e es ih =>
    simp only [List.foldl_cons]
    obtain ⟨h1, p', ho, hcore⟩ := emitPub_out b conn (f e)
    obtain ⟨h2, ps, ho2, hall⟩ := ih (b.emitPub conn (f e))
    refine ⟨h1.trans h2, p' :: ps, ?_, by simp [hcore, hall]⟩
    rw [ho2, ho]
    simp [pOuts]

/-! ### `pump`, round by round -/

/-- the packet ids `pollNewMessages` offers to `Read` -/
def pumpIds (c : Cli) : List Nat := freshIds c.used (min (min 100 c.maxInflight) (c.maxInflight - c.used.length))

/-- the stored message keeps the reduced expiry interval -/
def pumpMsgs (b : B) (c : Cli) (out : List Queue.Elem) (ms : List Msg) : List Msg :=
  out.foldl (fun (ms : List Msg) (e : Queue.Elem) =>
    let m := ms.getD e.tag default
    if c.v == 5 && m.expiry != 0 then
      ms.set e.tag { m with expiry := remaining m.expiry (b.now - b.ats.getD e.tag b.now) }
    else ms) ms

/-- the packets written for the elements `Read` returned -/
def B.pumpEmit (b : B) (conn : String) (c : Cli) (out : List Queue.Elem) : B :=
  out.foldl (fun bb (e : Queue.Elem) => bb.emitPub conn (b.pubPkt c e (b.ats.getD e.tag b.now))) b

/-- the state after one round of the poll loop in which `Read` returned `out` and left the queue `q'` -/
def B.pumpRound (b : B) (conn : String) (c : Cli) (s : Sess) (q' : Queue.Q) (out : List Queue.Elem) : B :=
  let b1 := b.pumpEmit conn c out
  let b1 := { b1 with msgs := pumpMsgs b c out b1.msgs }
  let usedIds := (out.filter (fun e => e.qos != 0)).map (·.id)
  let c1 := match b1.cli? conn with | some x => x | none => c
  (b1.setSess { s with queue := q' }).setCli { c1 with used := c.used ++ usedIds }

theorem pump_succ (b : B) (conn : String) (fuel : Nat) :
    b.pump conn (fuel + 1) =
      match b.cli? conn with
      | none => b
      | some c =>
        match b.sess? c.cid with
        | none => b
        | some s =>
          if c.used.length >= c.maxInflight then b
          else
            match s.queue.read b.now (pumpIds c) with
            | (q', .ok out _) => (b.pumpRound conn c s q' out).pump conn fuel
            | _ => b := rfl

/-- the conditions under which the poll loop of `conn` performs a round in state `b`: the window has room and
    `Read`, offered `pumpIds c`, returns `out` -/
structure PumpRound (conn : String) (b : B) (c : Cli) (s : Sess) (q' : Queue.Q) (out : List Queue.Elem) : Prop where
  cli : b.cli? conn = some c
  sess : b.sess? c.cid = some s
  window : c.used.length < c.maxInflight
  read : ∃ evs, s.queue.read b.now (pumpIds c) = (q', .ok out evs)

/-- a record of one round: the state it started in, the connection, the session, the new queue, the elements handed out -/
structure Round where
  b : B
  c : Cli
  s : Sess
  q' : Queue.Q
  out : List Queue.Elem

/-- `PumpTrace conn b rs b'`: started in `b`, the poll loop of `conn` performs the rounds `rs` and ends in `b'` -/
inductive PumpTrace (conn : String) : B → List Round → B → Prop
  | stop (b : B) : PumpTrace conn b [] b
  | round (b : B) (c : Cli) (s : Sess) (q' : Queue.Q) (out : List Queue.Elem) (rs : List Round) (b' : B) :
      PumpRound conn b c s q' out → PumpTrace conn (b.pumpRound conn c s q' out) rs b' →
      PumpTrace conn b (⟨b, c, s, q', out⟩ :: rs) b'

/-- every run of `pump` is a sequence of rounds -/
theorem pump_trace (fuel : Nat) (b : B) (conn : String) : ∃ rs, PumpTrace conn b rs (b.pump conn fuel) := by
  induction fuel generalizing b with
  | zero => exact ⟨[], .stop b⟩
  | succ fuel ih =>
    rw [pump_succ]
    split
    · exact ⟨[], .stop b⟩
    · next c hc =>
      split
      · exact ⟨[], .stop b⟩
      · next s hs =>
        split
        · exact ⟨[], .stop b⟩
        · next hw =>
          split
          · next q' out evs hr =>
            obtain ⟨rs, hrs⟩ := ih (b.pumpRound conn c s q' out)
            exact ⟨_, .round b c s q' out rs _ ⟨hc, hs, by omega, evs, hr⟩ hrs⟩
          · exact ⟨[], .stop b⟩

/-- every round recorded in a trace did satisfy the round conditions in the state it records -/
theorem PumpTrace.rounds {conn : String} {b b' : B} {rs : List Round} (h : PumpTrace conn b rs b') :
    ∀ r ∈ rs, PumpRound conn r.b r.c r.s r.q' r.out := by
  induction h with
  | stop => intro r hr; cases hr
  | round b c s q' out rs b' hround _ ih =>
    intro r hr
    rcases List.mem_cons.1 hr with rfl | hr
    · exact hround
    · exact ih r hr

/-- the record of `conn` and the session after a round -/
theorem pumpRound_cli (b : B) (conn : String) (c : Cli) (s : Sess) (q' : Queue.Q) (out : List Queue.Elem)
    (hc : b.cli? conn = some c) :
    ∃ c1, (b.pumpRound conn c s q' out).cli? conn = some c1 ∧
      c1 = { c with used := c.used ++ (out.filter (fun e => e.qos != 0)).map (·.id), aliasOut := c1.aliasOut } := by
  obtain ⟨hpe, _⟩ := foldl_emitPub_out conn (fun e => b.pubPkt c e (b.ats.getD e.tag b.now)) out b
  obtain ⟨c', hc', e'⟩ := hpe.cli c hc
  unfold B.pumpRound
  extract_lets b1 b1' usedIds c1
  have h1 : b1'.cli? conn = some c' := hc'
  have hc1 : c1 = c' := by simp only [c1, h1]
  have hconn : c'.conn = conn := (cli?_some hc').2
  refine ⟨{ c1 with used := c.used ++ usedIds }, ?_, ?_⟩
  · rw [cli?_setCli, if_pos (by rw [hc1]; exact hconn)]
  · rw [hc1]
    show _ = ({ c with used := c.used ++ usedIds, aliasOut := c'.aliasOut } : Cli)
    rw [e']

theorem pumpRound_sess (b : B) (conn : String) (c : Cli) (s : Sess) (q' : Queue.Q) (out : List Queue.Elem)
    (hs : b.sess? c.cid = some s) :
    (b.pumpRound conn c s q' out).sess? c.cid = some { s with queue := q' } := by
  unfold B.pumpRound
  extract_lets b1 b1' usedIds c1
  rw [setCli_sess?, sess?_setSess, if_pos (sess?_some hs).2]

/-- what a round writes: one packet per element handed out, in order, on the P stream of `conn`, each equal to
    `pubPkt` of the element up to alias compression -/
theorem pumpRound_out (b : B) (conn : String) (c : Cli) (s : Sess) (q' : Queue.Q) (out : List Queue.Elem) :
    ∃ ps, (b.pumpRound conn c s q' out).out = b.out ++ pOuts conn ps ∧
      ps.map Pkt.core = out.map (fun e => (b.pubPkt c e (b.ats.getD e.tag b.now)).core) := by
  obtain ⟨_, ps, ho, hall⟩ := foldl_emitPub_out conn (fun e => b.pubPkt c e (b.ats.getD e.tag b.now)) out b
  exact ⟨ps, ho, hall⟩

theorem pumpRound_frame (b : B) (conn : String) (c : Cli) (s : Sess) (q' : Queue.Q) (out : List Queue.Elem) :
    (b.pumpRound conn c s q' out).now = b.now ∧ (b.pumpRound conn c s q' out).cfg = b.cfg ∧
    (b.pumpRound conn c s q' out).ats = b.ats := by
  obtain ⟨hpe, _⟩ := foldl_emitPub_out conn (fun e => b.pubPkt c e (b.ats.getD e.tag b.now)) out b
  obtain ⟨cl, o, e⟩ := hpe.eq
  unfold B.pumpRound B.pumpEmit
  simp only [e]
  exact ⟨rfl, rfl, rfl⟩

/-- time does not move while a connection is being pumped -/
theorem PumpTrace.now {conn : String} {b b' : B} {rs : List Round} (h : PumpTrace conn b rs b') :
    (∀ r ∈ rs, r.b.now = b.now) ∧ b'.now = b.now := by
  induction h with
  | stop => exact ⟨fun r hr => (nomatch hr), rfl⟩
  | round b c s q' out rs b' _ _ ih =>
    have hn := (pumpRound_frame b conn c s q' out).1
    refine ⟨fun r hr => ?_, ih.2.trans hn⟩
    rcases List.mem_cons.1 hr with rfl | hr
    · rfl
    · exact (ih.1 r hr).trans hn

/-- the Message Expiry Interval property of a PUBLISH packet -/
def Pkt.expiry : Pkt → Option Nat
  | .publish _ _ _ _ _ _ _ _ exp _ _ => exp
  | _ => none

/-- the DUP flag and packet id of a PUBLISH packet -/
def Pkt.dup? : Pkt → Option Bool
  | .publish _ _ _ dup _ _ _ _ _ _ _ => some dup
  | _ => none

def Pkt.id? : Pkt → Option Nat
  | .publish _ _ _ _ id _ _ _ _ _ _ => some id
  | .pubrel id => some id
  | _ => none

theorem Pkt.expiry_core (p : Pkt) : p.core.expiry = p.expiry := by cases p <;> rfl
theorem Pkt.dup?_core (p : Pkt) : p.core.dup? = p.dup? := by cases p <;> rfl
theorem Pkt.id?_core (p : Pkt) : p.core.id? = p.id? := by cases p <;> rfl

theorem Pkt.expiry_of_core {p q : Pkt} (h : p.core = q.core) : p.expiry = q.expiry := by
  rw [← p.expiry_core, h, q.expiry_core]
theorem Pkt.dup?_of_core {p q : Pkt} (h : p.core = q.core) : p.dup? = q.dup? := by
  rw [← p.dup?_core, h, q.dup?_core]
theorem Pkt.id?_of_core {p q : Pkt} (h : p.core = q.core) : p.id? = q.id? := by
  rw [← p.id?_core, h, q.id?_core]

end GmqttVerif.Broker
