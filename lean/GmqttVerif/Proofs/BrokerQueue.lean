import GmqttVerif.Proofs.BrokerPump
/-
  Queue-level lemmas for C03Broker: packet ids carried by queue elements (`idsOf`), the per-session invariant
  `QOk`, the window invariant `UOk` of an online connection, the relation `QMono` ("nothing gains a packet id") that
  every queue operation except `Read` / `ReadInflight` / `Init` satisfies, and `freshIds`.
-/
namespace GmqttVerif.Queue

/-- packet ids of the id-bearing elements, in order -/
def idsOf (l : List Elem) : List Nat := (l.filter (fun e => e.id != 0)).map (·.id)

theorem idsOf_append (a b : List Elem) : idsOf (a ++ b) = idsOf a ++ idsOf b := by simp [idsOf]

theorem idsOf_sublist {l l' : List Elem} (h : l'.Sublist l) : (idsOf l').Sublist (idsOf l) :=
  (h.filter _).map _

theorem mem_idsOf {l : List Elem} {x : Nat} : x ∈ idsOf l ↔ ∃ e ∈ l, e.id = x ∧ x ≠ 0 := by
  simp only [idsOf, List.mem_map, List.mem_filter]
  constructor
  · rintro ⟨e, ⟨he, hne⟩, rfl⟩; exact ⟨e, he, rfl, by simpa using hne⟩
  · rintro ⟨e, he, rfl, hne⟩; exact ⟨e, ⟨he, by simpa using hne⟩, rfl⟩

theorem idsOf_of_zero {l : List Elem} (h : ∀ e ∈ l, e.id = 0) : idsOf l = [] := by
  simp only [idsOf, List.map_eq_nil_iff, List.filter_eq_nil_iff]
  intro e he; simp [h e he]

theorem idsOf_of_nz {l : List Elem} (h : ∀ e ∈ l, e.id ≠ 0) : idsOf l = l.map (·.id) := by
  simp only [idsOf]
  rw [List.filter_eq_self.2]
  intro e he; simpa using h e he

theorem idsOf_map_same (f : Elem → Elem) (hf : ∀ e, (f e).id = e.id) (l : List Elem) : idsOf (l.map f) = idsOf l := by
  induction l with
  | nil => rfl
  | cons e es ih =>
    simp only [idsOf, List.map_cons, List.filter_cons, hf] at ih ⊢
    split
    · simp only [List.map_cons, hf, ih]
    · exact ih

/-- per stored session: the queue's structural invariant, and packet ids pairwise distinct -/
structure QOk (q : Q) : Prop where
  inv : Inv q
  nodup : (idsOf q.items).Nodup

/-- the packet-id window `used` of the connection reading from `q`: no duplicates, no 0, it covers what this
    connection has handed out or replayed (`done`), and is disjoint from what is still to be replayed -/
structure UOk (used : List Nat) (q : Q) : Prop where
  nodup : used.Nodup
  nz : 0 ∉ used
  done : ∀ e ∈ q.done, e.id ∈ used
  rest : ∀ e ∈ q.rest, e.id ≠ 0 → e.id ∉ used

/-- no element gains a packet id, no id moves in front of the cursor -/
structure QMono (q q' : Q) : Prop where
  inv : Inv q → Inv q'
  ids : (idsOf q'.items).Sublist (idsOf q.items)
  done : ∀ e ∈ q'.done, ∃ e0 ∈ q.done, e0.id = e.id
  rest : ∀ e ∈ q'.rest, e.id ≠ 0 → ∃ e0 ∈ q.rest, e0.id = e.id

theorem QMono.refl (q : Q) : QMono q q :=
  ⟨id, List.Sublist.refl _, fun e he => ⟨e, he, rfl⟩, fun e he _ => ⟨e, he, rfl⟩⟩

theorem QMono.trans {a b c : Q} (h1 : QMono a b) (h2 : QMono b c) : QMono a c := by
  refine ⟨fun h => h2.inv (h1.inv h), h2.ids.trans h1.ids, ?_, ?_⟩
  · intro e he
    obtain ⟨e1, he1, h⟩ := h2.done e he
    obtain ⟨e0, he0, h'⟩ := h1.done e1 he1
    exact ⟨e0, he0, h'.trans h⟩
  · intro e he hne
    obtain ⟨e1, he1, h⟩ := h2.rest e he hne
    obtain ⟨e0, he0, h'⟩ := h1.rest e1 he1 (by rw [h]; exact hne)
    exact ⟨e0, he0, h'.trans h⟩

theorem QMono.qok {q q' : Q} (h : QMono q q') (hq : QOk q) : QOk q' := ⟨h.inv hq.inv, hq.nodup.sublist h.ids⟩

theorem QMono.uok {q q' : Q} (h : QMono q q') {used : List Nat} (hu : UOk used q) : UOk used q' := by
  refine ⟨hu.nodup, hu.nz, ?_, ?_⟩
  · intro e he
    obtain ⟨e0, he0, h0⟩ := h.done e he
    rw [← h0]; exact hu.done e0 he0
  · intro e he hne
    obtain ⟨e0, he0, h0⟩ := h.rest e he hne
    rw [← h0]; exact hu.rest e0 he0 (by rw [h0]; exact hne)

/-- the shape of the result of `Add` / `Remove`: a sublist in front of the cursor, a sublist behind it followed by
    elements without packet id -/
theorem qmono_sub (q q' : Q) (hinv : Inv q → Inv q') (hd : q'.done.Sublist q.done) (l z : List Elem)
    (hl : l.Sublist q.rest) (hz : ∀ x ∈ z, x.id = 0) (hr : q'.rest = l ++ z) : QMono q q' := by
  refine ⟨hinv, ?_, fun e he => ⟨e, hd.subset he, rfl⟩, ?_⟩
  · simp only [Q.items, hr, idsOf_append, idsOf_of_zero hz, List.append_nil]
    exact (idsOf_sublist hd).append (idsOf_sublist hl)
  · intro e he hne
    rw [hr] at he
    rcases List.mem_append.1 he with he | he
    · exact ⟨e, hl.subset he, rfl⟩
    · exact absurd (hz e he) hne

theorem qmono_add (q : Q) (now : Nat) (e : Elem) (hp : e.pub = true) (hi : e.id = 0) : QMono q (q.add now e).1 := by
  have hinv : Inv q → Inv (q.add now e).1 := step_inv q (.add now e) ⟨hp, hi⟩
  have hz : ∀ x ∈ [e], x.id = 0 := by intro x hx; simp at hx; rw [hx]; exact hi
  have := add_elim (P := fun p => (Inv q → Inv p.1) → QMono q p.1) q now e
    (fun _ hinv => qmono_sub q _ hinv (List.Sublist.refl _) q.rest [e] (List.Sublist.refl _) hz rfl)
    (fun v done' _ hx hinv => qmono_sub q _ hinv (extractFirst_some hx).2.2 q.rest [e] (List.Sublist.refl _) hz rfl)
    (fun v r rest' p _ hx _ hinv =>
      qmono_sub q _ hinv (List.Sublist.refl _) rest' [e] (extractFirst_some hx).2.2 hz rfl)
    (fun _ _ => QMono.refl q)
  exact this hinv

theorem qmono_close (q : Q) : QMono q q.close :=
  ⟨fun h => h, List.Sublist.refl _, fun e he => ⟨e, he, rfl⟩, fun e he _ => ⟨e, he, rfl⟩⟩

theorem step_replace_fst (q : Q) (e : Elem) : (step q (.replace e)).1 = (q.replace e).1 := by
  simp only [step]
  rcases h : q.replace e with ⟨q', b⟩
  cases b <;> rfl

theorem step_remove_fst (q : Q) (pid : Nat) : (step q (.remove pid)).1 = (q.remove pid).1 := by
  simp only [step]
  rcases h : q.remove pid with ⟨q', evs, o⟩
  cases o <;> rfl

theorem qmono_replace (q : Q) (e : Elem) : QMono q (q.replace e).1 := by
  have hinv : Inv q → Inv (step q (.replace e)).1 := step_inv q (.replace e) trivial
  rw [← step_replace_fst]
  have := replace_elim (P := fun p => (Inv q → Inv p.1) → QMono q p.1) q e
    (fun done' hx hinv => by
      obtain ⟨pre, x, post, h1, h2, h3⟩ := replaceFirst_some hx
      have hid : x.id = e.id := by simpa using h3
      refine ⟨hinv, ?_, ?_, fun y hy _ => ⟨y, hy, rfl⟩⟩
      · have : idsOf (pre ++ { e with tag := x.tag } :: post) = idsOf (pre ++ x :: post) := by
          simp only [idsOf, List.filter_append, List.filter_cons, hid]
          split <;> simp [hid]
        simp only [Q.items, idsOf_append, h2, h1] at this ⊢
        rw [this]
        exact List.Sublist.refl _
      · intro y hy
        simp only [h2, List.mem_append, List.mem_cons] at hy
        rcases hy with hy | rfl | hy
        · exact ⟨y, by rw [h1]; simp [hy], rfl⟩
        · exact ⟨x, by rw [h1]; simp, hid⟩
        · exact ⟨y, by rw [h1]; simp [hy], rfl⟩)
    (fun _ _ => QMono.refl q)
  exact this hinv

/-- `Remove(pid)`: the first element in front of the cursor with this id goes -/
theorem remove_spec (q : Q) (pid : Nat) :
    (q.remove pid).1 = q ∧ (∀ e ∈ q.done, e.id ≠ pid) ∨
    ∃ v done', extractFirst (fun x => x.id == pid) q.done = some (v, done') ∧ (q.remove pid).1 = { q with done := done' } := by
  unfold Q.remove
  rcases h : extractFirst (fun x => x.id == pid) q.done with _ | ⟨v, d⟩
  · left
    refine ⟨rfl, ?_⟩
    rw [extractFirst_eq] at h
    simp only [Option.map_eq_none_iff, List.find?_eq_none] at h
    intro e he; simpa using h e he
  · exact .inr ⟨v, d, rfl, rfl⟩

theorem qmono_remove (q : Q) (pid : Nat) : QMono q (q.remove pid).1 := by
  have hinv : Inv q → Inv (q.remove pid).1 := by rw [← step_remove_fst]; exact step_inv q (.remove pid) trivial
  rcases remove_spec q pid with ⟨h, _⟩ | ⟨v, d, hx, h⟩
  · rw [h]; exact QMono.refl q
  · rw [h] at hinv ⊢
    exact qmono_sub q _ hinv (extractFirst_some hx).2.2 q.rest [] (List.Sublist.refl _) (by simp) (by simp)

/-- a map that keeps packet id and kind of every element behind the cursor (sizes are recomputed on resume) -/
theorem inv_map_rest (q : Q) (f : Elem → Elem) (hid : ∀ e, (f e).id = e.id) (hpub : ∀ e, (f e).pub = e.pub)
    (h : Inv q) : Inv { q with rest := q.rest.map f } := by
  obtain ⟨hd, hs, hq⟩ := h
  refine ⟨hd, ⟨?_, ?_⟩, ?_⟩
  · intro x hx h0
    obtain ⟨y, hy, rfl⟩ := List.mem_map.1 hx
    rw [hpub]; exact hs.1 y hy (by rw [← hid]; exact h0)
  · rw [List.pairwise_map]
    exact hs.2.imp (fun {a b} hab h0 => by rw [hid] at h0 ⊢; exact hab h0)
  · intro hdr x hx
    obtain ⟨y, hy, rfl⟩ := List.mem_map.1 hx
    have := (isQueued_iff y).1 (hq hdr y hy)
    exact (isQueued_iff _).2 ⟨by rw [hpub]; exact this.1, by rw [hid]; exact this.2⟩

theorem qmono_map_rest (q : Q) (f : Elem → Elem) (hid : ∀ e, (f e).id = e.id) (hpub : ∀ e, (f e).pub = e.pub) :
    QMono q { q with rest := q.rest.map f } := by
  refine ⟨inv_map_rest q f hid hpub, ?_, fun e he => ⟨e, he, rfl⟩, ?_⟩
  · simp only [Q.items, idsOf_append, idsOf_map_same f hid]
    exact List.Sublist.refl _
  · intro e he _
    obtain ⟨y, hy, rfl⟩ := List.mem_map.1 he
    exact ⟨y, hy, (hid y).symm⟩

/-- what `Read` keeps in front of the cursor are the QoS>0 elements it returns -/
theorem readLoop_kept_eq (now ie limit n : Nat) (rest : List Elem) (pids : List Nat) :
    (readLoop now ie limit n rest pids).kept = (readLoop now ie limit n rest pids).out.filter (fun e => e.qos != 0) := by
  fun_induction readLoop now ie limit n rest pids with
  | case1 => rfl
  | case2 => rfl
  | case3 n v rest pids h r ih => exact ih
  | case4 n v rest pids h1 h2 r ih => exact ih
  | case5 n v rest pids h1 h2 h3 r ih =>
    have : (v.qos != 0) = false := by simpa using h3
    simp only [List.filter_cons, this, Bool.false_eq_true, if_false]
    exact ih
  | case6 => rfl
  | case7 n v rest h1 h2 h3 p pids' v' r ih =>
    have : (v'.qos != 0) = true := by simpa [v'] using h3
    simp only [List.filter_cons, this, if_true]
    rw [← ih]

end GmqttVerif.Queue

namespace GmqttVerif.Broker

/-! ### `freshIds` -/

theorem length_le_of_range_subset (used : List Nat) (c k : Nat) (h : ∀ i, i < k → (c + i) ∈ used) : k ≤ used.length := by
  induction k generalizing used c with
  | zero => exact Nat.zero_le _
  | succ k ih =>
    have hc : c ∈ used := by simpa using h 0 (Nat.succ_pos k)
    have := ih (used.erase c) (c + 1) (fun i hi => by
      have := h (i + 1) (by omega)
      rw [List.mem_erase_of_ne (by omega)]
      rw [show c + 1 + i = c + (i + 1) by omega]; exact this)
    rw [List.length_erase_of_mem hc] at this
    have : 0 < used.length := List.length_pos_of_mem hc
    omega

/-- `freshId` scans upwards from `c`; if it stops within the fuel the result is unused -/
theorem freshId_spec (used : List Nat) (fuel c : Nat) :
    c ≤ freshId used fuel c ∧ (freshId used fuel c ∉ used ∨
      (freshId used fuel c = c + fuel ∧ ∀ i, i < fuel → (c + i) ∈ used)) := by
  induction fuel generalizing c with
  | zero => exact ⟨Nat.le_refl _, .inr ⟨rfl, fun i hi => absurd hi (Nat.not_lt_zero _)⟩⟩
  | succ fuel ih =>
    unfold freshId
    split
    · next hc =>
      have hc' : c ∈ used := by simpa using hc
      obtain ⟨h1, h2⟩ := ih (c + 1)
      refine ⟨by omega, ?_⟩
      rcases h2 with h2 | ⟨h2, h3⟩
      · exact .inl h2
      · refine .inr ⟨by omega, fun i hi => ?_⟩
        cases i with
        | zero => exact hc'
        | succ i => rw [show c + (i + 1) = c + 1 + i by omega]; exact h3 i (by omega)
    · next hc => exact ⟨Nat.le_refl _, .inl (by simpa using hc)⟩

/-- the id `freshIds` picks first: not 0, not in use -/
theorem freshId_fresh (used : List Nat) :
    freshId used (used.length + 1) 1 ≠ 0 ∧ freshId used (used.length + 1) 1 ∉ used := by
  obtain ⟨h1, h2⟩ := freshId_spec used (used.length + 1) 1
  refine ⟨by omega, ?_⟩
  rcases h2 with h2 | ⟨_, h3⟩
  · exact h2
  · have := length_le_of_range_subset used 1 (used.length + 1) h3
    omega

/-- `freshIds used n`: `n` ids, pairwise distinct, none 0, none in use -/
theorem freshIds_spec (used : List Nat) (n : Nat) :
    (freshIds used n).length = n ∧ (freshIds used n).Nodup ∧ (∀ i ∈ freshIds used n, i ≠ 0 ∧ i ∉ used) := by
  induction n generalizing used with
  | zero => simp [freshIds]
  | succ n ih =>
    simp only [freshIds]
    obtain ⟨h0, hu⟩ := freshId_fresh used
    obtain ⟨hl, hn, hm⟩ := ih (freshId used (used.length + 1) 1 :: used)
    refine ⟨by simp [hl], ?_, ?_⟩
    · rw [List.nodup_cons]
      refine ⟨fun hmem => ?_, hn⟩
      exact (hm _ hmem).2 List.mem_cons_self
    · intro i hi
      rcases List.mem_cons.1 hi with rfl | hi
      · exact ⟨h0, hu⟩
      · exact ⟨(hm i hi).1, fun h => (hm i hi).2 (List.mem_cons_of_mem _ h)⟩

end GmqttVerif.Broker

namespace GmqttVerif.Queue
open GmqttVerif.Broker (eraseFirst)

/-! ### the operations that hand out or take back packet ids -/

theorem eraseFirst_sublist (x : Nat) (l : List Nat) : (eraseFirst x l).Sublist l := by
  induction l with
  | nil => exact List.Sublist.refl _
  | cons y ys ih =>
    simp only [eraseFirst]
    split
    · exact List.sublist_cons_self _ _
    · exact ih.cons_cons y

theorem mem_eraseFirst_of_ne {x y : Nat} {l : List Nat} (h : y ∈ l) (hne : y ≠ x) : y ∈ eraseFirst x l := by
  induction l with
  | nil => cases h
  | cons z zs ih =>
    simp only [eraseFirst]
    split
    · next hxz =>
      rcases List.mem_cons.1 h with rfl | h
      · exact absurd (by simpa using hxz : x = y).symm hne
      · exact h
    · rcases List.mem_cons.1 h with rfl | h
      · exact List.mem_cons_self
      · exact List.mem_cons_of_mem _ (ih h)

/-- in a list whose packet ids are pairwise distinct, two elements with the same non-zero id are at the same place -/
theorem nodup_ids_perm {v : Elem} {l l' : List Elem} (hp : List.Perm (v :: l') l) (hn : (idsOf l).Nodup) (hv : v.id ≠ 0) :
    ∀ e ∈ l', e.id ≠ v.id := by
  have hperm : List.Perm (idsOf (v :: l')) (idsOf l) := (hp.filter _).map _
  have hn' : (idsOf (v :: l')).Nodup := hperm.nodup_iff.2 hn
  have hv' : (v.id != 0) = true := by simpa using hv
  simp only [idsOf, List.filter_cons, hv', if_true, List.map_cons, List.nodup_cons] at hn'
  intro e he heq
  apply hn'.1
  rw [← heq]
  exact List.mem_map.2 ⟨e, List.mem_filter.2 ⟨he, by rw [heq]; exact hv'⟩, rfl⟩

/-- PUBACK / PUBCOMP: `Remove(id)` and `release(id)` keep the window consistent -/
theorem uok_release {used : List Nat} {q : Q} (hu : UOk used q) (hq : QOk q) (id : Nat) :
    UOk (eraseFirst id used) (q.remove id).1 := by
  have hsub := eraseFirst_sublist id used
  have hm := (qmono_remove q id).uok hu
  refine ⟨hu.nodup.sublist hsub, fun h => hu.nz (hsub.subset h), ?_, fun e he hne h => hm.rest e he hne (hsub.subset h)⟩
  intro e he
  have hin := hm.done e he
  by_cases hid : e.id = id
  · exfalso
    rcases remove_spec q id with ⟨h, hno⟩ | ⟨v, d, hx, h⟩
    · rw [h] at he; exact hno e he hid
    · rw [h] at he
      obtain ⟨hv, hperm, _⟩ := extractFirst_some hx
      have hvid : v.id = id := by simpa using hv
      have hv0 : v.id ≠ 0 := hq.inv.1 v (hperm.subset List.mem_cons_self)
      have hnd : (idsOf q.done).Nodup := by
        have := hq.nodup
        rw [Q.items, idsOf_append] at this
        exact (List.nodup_append.1 this).1
      exact nodup_ids_perm hperm hnd hv0 e he (hid.trans hvid.symm)
  · exact mem_eraseFirst_of_ne hin hid

/-- a successful `Read` with fresh ids -/
theorem read_ok_inv {q q' : Q} {now : Nat} {pids : List Nat} {out : List Elem} {evs : List Ev} {used : List Nat}
    (h : q.read now pids = (q', .ok out evs)) (hq : QOk q) (hu : UOk used q)
    (hnd : pids.Nodup) (hp : ∀ p ∈ pids, p ≠ 0 ∧ p ∉ used) :
    QOk q' ∧ UOk (used ++ (out.filter (fun e => e.qos != 0)).map (·.id)) q' ∧
    (out.filter (fun e => e.qos != 0)).length ≤ pids.length := by
  rcases read_cases q now pids with h' | h' | h' | ⟨hd, _, h'⟩
  · rw [h'] at h; simp at h
  · rw [h'] at h; simp at h
  · rw [h'] at h; simp at h
  rw [h'] at h
  simp only [Prod.mk.injEq, ReadRes.ok.injEq] at h
  obtain ⟨hq', hout, _⟩ := h
  have hz : ∀ e ∈ q.rest, e.id = 0 := fun e he => ((isQueued_iff e).1 (hq.inv.2.2 hd e he)).2
  generalize hr : readLoop now q.ie q.limit (min pids.length q.items.length) q.rest pids = r at hq' hout
  have hkept : r.kept = out.filter (fun e => e.qos != 0) := by rw [← hr, ← hout, hr, ← hr]; exact readLoop_kept_eq _ _ _ _ _ _
  have hids : (out.filter (fun e => e.qos != 0)).map (·.id) = pids.take (out.filter (fun e => e.qos != 0)).length := by
    have := (readLoop_ids now q.ie q.limit (min pids.length q.items.length) q.rest pids hz).1
    rw [hr, hout] at this; exact this
  have hsuf : r.rest <:+ q.rest := by rw [← hr]; exact readLoop_suffix _ _ _ _ _ _
  have hz' : ∀ e ∈ r.rest, e.id = 0 := fun e he => hz e (hsuf.subset he)
  have hknz : ∀ e ∈ r.kept, e.id ≠ 0 := by
    intro e he
    have := readLoop_kept_ids now q.ie q.limit (min pids.length q.items.length) q.rest pids e (by rw [hr]; exact he)
    exact (hp _ this).1
  have hinv : Inv q' := by
    have := step_inv q (.read now pids) (fun p hp' => (hp p hp').1) hq.inv
    simp only [step, h'] at this
    rw [← hq', ← hr]; exact this
  have hlen : (out.filter (fun e => e.qos != 0)).length ≤ pids.length := by
    have := congrArg List.length hids
    simp only [List.length_map, List.length_take] at this
    omega
  have htake_nd : (pids.take (out.filter (fun e => e.qos != 0)).length).Nodup := hnd.sublist (List.take_sublist _ _)
  have htake_fresh : ∀ p ∈ pids.take (out.filter (fun e => e.qos != 0)).length, p ≠ 0 ∧ p ∉ used :=
    fun p hp' => hp p (List.mem_of_mem_take hp')
  have hdone_ids : idsOf q.done = q.done.map (·.id) := idsOf_of_nz hq.inv.1
  have hnd_done : (idsOf q.done).Nodup := by
    have := hq.nodup
    rw [Q.items, idsOf_append] at this
    exact (List.nodup_append.1 this).1
  have hk_ids : idsOf r.kept = pids.take (out.filter (fun e => e.qos != 0)).length := by
    rw [idsOf_of_nz hknz, hkept, hids]
  refine ⟨⟨hinv, ?_⟩, ⟨?_, ?_, ?_, ?_⟩, hlen⟩
  · rw [← hq']
    simp only [Q.items, idsOf_append, idsOf_of_zero hz', List.append_nil, hk_ids]
    rw [List.nodup_append]
    refine ⟨hnd_done, htake_nd, ?_⟩
    intro a ha b hb hab
    obtain ⟨e, he, rfl, _⟩ := mem_idsOf.1 ha
    exact (htake_fresh b hb).2 (hab ▸ hu.done e he)
  · rw [hids, List.nodup_append]
    exact ⟨hu.nodup, htake_nd, fun a ha b hb hab => (htake_fresh b hb).2 (hab ▸ ha)⟩
  · intro h0
    rcases List.mem_append.1 h0 with h0 | h0
    · exact hu.nz h0
    · rw [hids] at h0; exact (htake_fresh 0 h0).1 rfl
  · intro e he
    rw [← hq'] at he
    rcases List.mem_append.1 he with he | he
    · exact List.mem_append_left _ (hu.done e he)
    · rw [hkept] at he
      exact List.mem_append_right _ (List.mem_map.2 ⟨e, he, rfl⟩)
  · intro e he hne
    rw [← hq'] at he
    exact absurd (hz' e he) hne

/-- a `ReadInflight` batch: the replayed elements' ids enter the window -/
theorem readInflight_inv (q : Q) (now n : Nat) {used : List Nat} (hq : QOk q) (hu : UOk used q) :
    QOk (q.readInflight now n).1 ∧ UOk (used ++ (q.readInflight now n).2.map (·.id)) (q.readInflight now n).1 := by
  have hinv : Inv (q.readInflight now n).1 := step_inv q (.readInflight now n) trivial hq.inv
  by_cases hemp : (q.items.isEmpty || q.rest.isEmpty) = true
  · simp only [Q.readInflight, hemp, if_true, List.map_nil, List.append_nil] at hinv ⊢
    exact ⟨⟨hinv, hq.nodup⟩, ⟨hu.nodup, hu.nz, hu.done, hu.rest⟩⟩
  · simp only [Q.readInflight, hemp, Bool.false_eq_true, if_false] at hinv ⊢
    obtain ⟨pre, h1, h2, h3, _⟩ := inflightLoop_spec now q.ie (min n q.items.length) q.rest
    rcases hl : inflightLoop now q.ie (min n q.items.length) q.rest with ⟨out, rest', d⟩
    simp only [hl] at h1 h2 hinv ⊢
    have hout_ids : out.map (·.id) = pre.map (·.id) := by rw [h2]; simp [refresh, Function.comp_def]
    have hidsout : idsOf out = idsOf pre := by rw [h2]; exact idsOf_map_same (refresh now q.ie) (fun _ => rfl) pre
    have hpre_ids : idsOf pre = pre.map (·.id) := idsOf_of_nz h3
    have hitems : idsOf (q.done ++ out ++ rest') = idsOf q.items := by
      simp only [Q.items, idsOf_append, hidsout, h1, List.append_assoc]
    have hnd : (idsOf q.done ++ (idsOf pre ++ idsOf rest')).Nodup := by
      have := hq.nodup
      rw [Q.items, h1, idsOf_append, idsOf_append] at this
      exact this
    obtain ⟨_, hnd2, hdisj⟩ := List.nodup_append.1 hnd
    obtain ⟨hndpre, _, hdisj2⟩ := List.nodup_append.1 hnd2
    refine ⟨⟨hinv, ?_⟩, ⟨?_, ?_, ?_, ?_⟩⟩
    · show (idsOf (q.done ++ out ++ rest')).Nodup
      rw [hitems]; exact hq.nodup
    · rw [hout_ids, ← hpre_ids, List.nodup_append]
      refine ⟨hu.nodup, hndpre, ?_⟩
      intro a ha b hb hab
      obtain ⟨e, he, rfl, hne⟩ := mem_idsOf.1 hb
      exact hu.rest e (by rw [h1]; exact List.mem_append_left _ he) (hab ▸ hne) (hab ▸ ha)
    · intro h0
      rcases List.mem_append.1 h0 with h0 | h0
      · exact hu.nz h0
      · rw [hout_ids] at h0
        obtain ⟨e, he, h0'⟩ := List.mem_map.1 h0
        exact h3 e he h0'
    · intro e he
      rcases List.mem_append.1 he with he | he
      · exact List.mem_append_left _ (hu.done e he)
      · exact List.mem_append_right _ (List.mem_map.2 ⟨e, he, rfl⟩)
    · intro e he hne h
      rcases List.mem_append.1 h with h | h
      · exact hu.rest e (by rw [h1]; exact List.mem_append_right _ he) hne h
      · rw [hout_ids, ← hpre_ids] at h
        exact hdisj2 _ h _ (mem_idsOf.2 ⟨e, he, rfl, hne⟩) rfl

theorem readLoop_kept_len (now ie limit n : Nat) (rest : List Elem) (pids : List Nat) :
    (readLoop now ie limit n rest pids).kept.length ≤ pids.length := by
  fun_induction readLoop now ie limit n rest pids with
  | case1 => simp
  | case2 => simp
  | case3 n v rest pids h r ih => exact ih
  | case4 n v rest pids h1 h2 r ih => exact ih
  | case5 n v rest pids h1 h2 h3 r ih => exact ih
  | case6 => simp
  | case7 n v rest h1 h2 h3 p pids' v' r ih =>
    simp only [List.length_cons]
    have : r.kept.length ≤ pids'.length := ih
    omega

/-- `Read` hands out at most as many QoS>0 messages as it was offered packet ids (in any state) -/
theorem read_ok_qos_len {q q' : Q} {now : Nat} {pids : List Nat} {out : List Elem} {evs : List Ev}
    (h : q.read now pids = (q', .ok out evs)) : (out.filter (fun e => e.qos != 0)).length ≤ pids.length := by
  obtain ⟨_, _, rfl⟩ := read_ok h
  rw [← readLoop_kept_eq]
  exact readLoop_kept_len _ _ _ _ _ _

/-- `Init(false)` followed by the recomputation of sizes: a new connection starts with an empty window -/
theorem init_inv (q : Q) (limit : Nat) (f : Elem → Elem) (hid : ∀ e, (f e).id = e.id) (hpub : ∀ e, (f e).pub = e.pub)
    (hq : QOk q) :
    QOk { q.init false limit with rest := (q.init false limit).rest.map f } ∧
    UOk [] { q.init false limit with rest := (q.init false limit).rest.map f } := by
  have h1 : QOk (q.init false limit) := by
    refine ⟨step_inv q (.init false limit) trivial hq.inv, ?_⟩
    have : (q.init false limit).items = q.items := by simp [Q.init, Q.items]
    rw [this]; exact hq.nodup
  refine ⟨(qmono_map_rest _ f hid hpub).qok h1, ⟨List.nodup_nil, by simp, ?_, by simp⟩⟩
  intro e he
  simp [Q.init] at he

theorem init_clean_inv (max ie limit : Nat) : QOk ((new max ie).init true limit) ∧ UOk [] ((new max ie).init true limit) := by
  refine ⟨⟨step_inv _ (.init true limit) trivial (inv_new max ie), by simp [Q.init, Q.items, idsOf]⟩,
    ⟨List.nodup_nil, by simp, by simp [Q.init], by simp⟩⟩

end GmqttVerif.Queue
