import GmqttVerif.Proofs.BrokerInv
/-
  Helper lemmas for C03Broker `replay_on_resume`: the replay loop of a resumed CONNECT as a sequence of `ReadInflight`
  calls (`Queue.runReplay`), what it writes, and `pump` while the queue is not drained.
-/
namespace GmqttVerif.Queue

/-- recomputing sizes does not change which elements are pending, up to `key` -/
theorem pending_map (f : Elem → Elem) (hid : ∀ e, (f e).id = e.id) (l : List Elem) :
    pending (l.map f) = (pending l).map f := by
  induction l with
  | nil => rfl
  | cons e es ih =>
    simp only [pending, List.map_cons, List.takeWhile_cons, hid] at ih ⊢
    split
    · simp only [List.map_cons, ih]
    · rfl

theorem runReplay_snoc (q : Q) (calls : List (Nat × Nat)) (now n : Nat) :
    runReplay q (calls ++ [(now, n)]) =
      (((runReplay q calls).1.readInflight now n).1, (runReplay q calls).2 ++ ((runReplay q calls).1.readInflight now n).2) := by
  induction calls generalizing q with
  | nil => simp [runReplay]
  | cons c cs ih =>
    obtain ⟨now', n'⟩ := c
    simp only [List.cons_append, runReplay_cons, ih, List.append_assoc]

end GmqttVerif.Queue

namespace GmqttVerif.Broker
open GmqttVerif.Deliver

theorem replayPkt_congr (b b' : B) (c c' : Cli) (e : Queue.Elem) (hm : b'.msgs = b.msgs) (hv : c'.v = c.v) :
    replayPkt b' c' e = replayPkt b c e := by
  unfold replayPkt B.msgOf
  rw [hm, hv]

/-- a replayed PUBLISH has DUP = 1 and the stored packet id; a replaced element is replayed as PUBREL with its id -/
theorem replayPkt_shape (b : B) (c : Cli) (e : Queue.Elem) :
    (replayPkt b c e).id? = some e.id ∧ (replayPkt b c e).dup? = (if e.pub then some true else none) := by
  unfold replayPkt
  split <;> exact ⟨rfl, rfl⟩

/-- the replay loop: what it writes and what it does to the session queue, as a run of `ReadInflight` calls -/
theorem replay_trace (fuel : Nat) (b : B) (conn : String) (c : Cli) (s : Sess)
    (hc : b.cli? conn = some c) (hs : b.sess? c.cid = some s) :
    ∃ calls ps,
      (b.replay conn fuel).out = b.out ++ pOuts conn ps ∧
      ps.map Pkt.core = (Queue.runReplay s.queue calls).2.map (fun e => (replayPkt b c e).core) ∧
      (b.replay conn fuel).sess? c.cid = some { s with queue := (Queue.runReplay s.queue calls).1 } ∧
      (∃ c', (b.replay conn fuel).cli? conn = some c' ∧ c'.cid = c.cid ∧ c'.v = c.v ∧ c'.maxInflight = c.maxInflight) := by
  induction fuel generalizing b c s with
  | zero => exact ⟨[], [], by simp [B.replay, pOuts], by simp [Queue.runReplay], by simpa [B.replay, Queue.runReplay] using hs,
      c, hc, rfl, rfl, rfl⟩
  | succ fuel ih =>
    rw [replay_succ]
    simp only [hc, hs]
    cases hne : (s.queue.readInflight b.now c.maxInflight).2.isEmpty with
    | true =>
      simp only [if_true]
      have hnil : (s.queue.readInflight b.now c.maxInflight).2 = [] := List.isEmpty_iff.1 hne
      refine ⟨[(b.now, c.maxInflight)], [], by simp [pOuts], ?_, ?_, c, hc, rfl, rfl, rfl⟩
      · simp [Queue.runReplay, hnil]
      · rw [sess?_setSess, if_pos (sess?_some hs).2]
        simp [Queue.runReplay]
    | false =>
      simp only [Bool.false_eq_true, if_false]
      obtain ⟨⟨ps1, ho1, hcore1⟩, ⟨c1, hc1, ec1⟩, hs1, hfr, _, _, _⟩ :=
        replayRound_spec b conn c s (s.queue.readInflight b.now c.maxInflight).1
          (s.queue.readInflight b.now c.maxInflight).2 hc hs
      have hc1cid : c1.cid = c.cid := by rw [ec1]
      have hc1v : c1.v = c.v := by rw [ec1]
      have hc1m : c1.maxInflight = c.maxInflight := by rw [ec1]
      obtain ⟨calls, ps2, ho2, hcore2, hs2, c', hc', hcid', hv', hm'⟩ := ih _ c1 _ hc1 (by rw [hc1cid]; exact hs1)
      refine ⟨(b.now, c.maxInflight) :: calls, ps1 ++ ps2, ?_, ?_, ?_, c', hc', hcid'.trans hc1cid, hv'.trans hc1v,
        hm'.trans hc1m⟩
      · rw [ho2, ho1]; simp [pOuts]
      · rw [Queue.runReplay_cons]
        simp only [List.map_append, hcore1, hcore2]
        congr 1
        apply List.map_congr_left
        intro e _
        rw [replayPkt_congr b _ c c1 e hfr.msgs hc1v]
      · rw [hc1cid] at hs2
        rw [hs2, Queue.runReplay_cons]

/-- while the queue is not drained `Read` is refused: the poll loop hands out nothing -/
theorem pump_blocked (b : B) (conn : String) (c : Cli) (s : Sess) (hc : b.cli? conn = some c)
    (hs : b.sess? c.cid = some s) (hd : s.queue.drained = false) (fuel : Nat) : b.pump conn fuel = b := by
  cases fuel with
  | zero => rfl
  | succ fuel =>
    rw [pump_succ]
    simp only [hc, hs]
    split
    · rfl
    · have := Queue.read_not_drained s.queue hd b.now (pumpIds c)
      split
      · next q' out evs hr => rw [hr] at this; cases this
      · rfl

end GmqttVerif.Broker
