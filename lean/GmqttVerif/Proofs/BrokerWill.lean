import GmqttVerif.Proofs.BrokerPump
/-
  Helper lemmas for C08 (will messages) over the wire-level broker model: `unregister` with and without a will,
  `disconnectIn`, `terminateS`, `sleep`, and what the replay loop of `connect` leaves alone.
-/
namespace GmqttVerif.Broker
open GmqttVerif.Deliver

theorem unregSess_will (c : Cli) (s : Sess) (f : Bool) : (unregSess c s f).will = s.will := by
  unfold unregSess
  split
  · split <;> rfl
  · rfl

theorem unregSess_willDelay (c : Cli) (s : Sess) (f : Bool) : (unregSess c s f).willDelay = s.willDelay := by
  unfold unregSess
  split
  · split <;> rfl
  · rfl

/-- the delay after which the will of the stored session `s` is published: min(Will Delay, Session Expiry) -/
def willDelayOf (s : Sess) : Nat := min s.willDelay s.expiry

theorem willDelayOf_eq (s : Sess) : (if s.expiry ≤ s.willDelay then s.expiry else s.willDelay) = willDelayOf s := by
  unfold willDelayOf
  split
  · next h => exact (Nat.min_eq_right h).symm
  · next h => exact (Nat.min_eq_left (by omega)).symm

theorem willStep_clean (b : B) (c : Cli) (s : Sess) (store : Bool) (h : c.cleanWill = true) : willStep b c s store = b := by
  unfold willStep; simp [h]

theorem willStep_nowill (b : B) (c : Cli) (s : Sess) (store : Bool) (h : s.will = none) : willStep b c s store = b := by
  unfold willStep; simp [h]

theorem willStep_will (b : B) (c : Cli) (s : Sess) (store : Bool) (w : Msg) (hc : c.cleanWill = false)
    (hw : s.will = some w) :
    willStep b c s store =
      if willDelayOf s != 0 && store then
        { b with pendingWills := b.pendingWills.filter (fun (x : String × Msg × Nat) => x.1 != c.cid) ++
                   [(c.cid, w, b.now + willDelayOf s * 1000)] }
      else b.sendWill c.cid w := by
  unfold willStep
  simp only [hc, hw, Bool.not_false, if_true, willDelayOf_eq]
  rfl

/-! ### `terminateS` -/

theorem terminateS_some (b : B) (cid : String) (x : String × Msg × Nat) (h : b.willOf? cid = some x) :
    b.terminateS cid = ((b.terminate cid).dropWill cid).sendWill cid x.2.1 := by
  unfold B.terminateS; rw [h]

theorem terminateS_none (b : B) (cid : String) (h : b.willOf? cid = none) : b.terminateS cid = b.terminate cid := by
  unfold B.terminateS; rw [h]

theorem willOf?_filter_self (l : List (String × Msg × Nat)) (cid : String) :
    (l.filter (fun (w : String × Msg × Nat) => w.1 != cid)).find? (fun (w : String × Msg × Nat) => w.1 == cid) = none := by
  simp only [List.find?_eq_none, List.mem_filter]
  intro x hx
  simpa using hx.2

theorem sendWill_pendingWills (b : B) (cid : String) (m : Msg) : (b.sendWill cid m).pendingWills = b.pendingWills := by
  rw [sendWill_eq]
  rw [(enq_deliverMsg _ _ _ _ _).pendingWills]
  unfold B.willRetain
  split
  · split <;> rfl
  · rfl

theorem terminateS_pendingWills (b : B) (cid : String) :
    (b.terminateS cid).pendingWills = b.pendingWills.filter (fun (w : String × Msg × Nat) => w.1 != cid) := by
  cases h : b.willOf? cid with
  | none =>
    rw [terminateS_none b cid h]
    show b.pendingWills = _
    unfold B.willOf? at h
    rw [List.find?_eq_none] at h
    rw [List.filter_eq_self.2]
    intro x hx
    simpa using h x hx
  | some x =>
    rw [terminateS_some b cid x h, sendWill_pendingWills]
    rfl

theorem terminateS_willOf? (b : B) (cid : String) : (b.terminateS cid).willOf? cid = none := by
  unfold B.willOf?
  rw [terminateS_pendingWills]
  exact willOf?_filter_self _ _

/-! ### `sendWill` -/

theorem sendWill_retained (b : B) (cid : String) (m : Msg) :
    (b.sendWill cid m).retained =
      if m.retained then
        (if m.plen == 0 then b.retained.filter (·.1 != m.topic) else (m.topic, m) :: b.retained.filter (·.1 != m.topic))
      else b.retained := by
  rw [sendWill_eq, (enq_deliverMsg _ _ _ _ _).retained]
  unfold B.willRetain
  split
  · split <;> rfl
  · rfl

/-! ### `sleep` -/

theorem foldl_sendWill_pendingWills (l : List (String × Msg × Nat)) (b : B) :
    (l.foldl (fun bb w => bb.sendWill w.1 w.2.1) b).pendingWills = b.pendingWills := by
  induction l generalizing b with
  | nil => rfl
  | cons x xs ih => simp only [List.foldl_cons]; rw [ih, sendWill_pendingWills]

theorem foldl_sendWill_now (l : List (String × Msg × Nat)) (b : B) :
    (l.foldl (fun bb w => bb.sendWill w.1 w.2.1) b).now = b.now :=
  (grow_foldl _ (fun bb w => grow_sendWill bb w.1 w.2.1) l b).now

theorem sleep_pendingWills (b : B) (ms : Nat) :
    (b.sleep ms).pendingWills = b.pendingWills.filter (fun w => !(decide (w.2.2 ≤ b.now + ms))) := by
  unfold B.sleep
  simp only
  rw [foldl_sendWill_pendingWills]

theorem sleep_now (b : B) (ms : Nat) : (b.sleep ms).now = b.now + ms := by
  unfold B.sleep
  simp only
  rw [foldl_sendWill_now]

/-! ### the replay loop leaves everything but queue cursor, window and output alone -/

/-- the fields neither poll loop of a resumed `connect` touches -/
structure ReplayFrame (b b' : B) : Prop where
  msgs : b'.msgs = b.msgs
  ats : b'.ats = b.ats
  retained : b'.retained = b.retained
  pendingWills : b'.pendingWills = b.pendingWills

theorem ReplayFrame.refl (b : B) : ReplayFrame b b := ⟨rfl, rfl, rfl, rfl⟩
theorem ReplayFrame.trans {a b c : B} (h1 : ReplayFrame a b) (h2 : ReplayFrame b c) : ReplayFrame a c :=
  ⟨h2.msgs.trans h1.msgs, h2.ats.trans h1.ats, h2.retained.trans h1.retained, h2.pendingWills.trans h1.pendingWills⟩

theorem PubEmit.replayFrame {conn : String} {b b' : B} (h : PubEmit conn b b') : ReplayFrame b b' := by
  obtain ⟨cl, o, e⟩ := h.eq
  rw [e]; exact ⟨rfl, rfl, rfl, rfl⟩

/-- the packets of one `ReadInflight` batch -/
theorem replay_fold_emit (conn : String) (f g : Queue.Elem → Pkt) (els : List Queue.Elem) (acc : B × List Nat) :
    let r := els.foldl (fun (acc : B × List Nat) (e : Queue.Elem) =>
      if e.pub then (acc.1.emitPub conn (f e), acc.2 ++ [e.id]) else (acc.1.emit conn true (g e), acc.2 ++ [e.id])) acc
    PubEmit conn acc.1 r.1 ∧ r.2 = acc.2 ++ els.map (·.id) ∧
    ∃ ps, r.1.out = acc.1.out ++ pOuts conn ps ∧
      ps.map Pkt.core = els.map (fun e => if e.pub then (f e).core else (g e).core) := by
  induction els generalizing acc with
  | nil => exact ⟨PubEmit.refl _ _, by simp, [], by simp [pOuts], rfl⟩
  | cons e es ih =>
    simp only [List.foldl_cons]
    cases hp : e.pub
    case true =>
      simp only [if_true]
      obtain ⟨h1, p', ho, hcore⟩ := emitPub_out acc.1 conn (f e)
      obtain ⟨h2, hu, ps, ho2, hall⟩ := ih (acc.1.emitPub conn (f e), acc.2 ++ [e.id])
      refine ⟨h1.trans h2, by rw [hu]; simp, p' :: ps, ?_, by simp [hcore, hall, hp]⟩
      rw [ho2]; simp only; rw [ho]; simp [pOuts]
    case false =>
      simp only [Bool.false_eq_true, if_false]
      obtain ⟨h2, hu, ps, ho2, hall⟩ := ih (acc.1.emit conn true (g e), acc.2 ++ [e.id])
      refine ⟨(pubEmit_emit acc.1 conn (g e)).trans h2, by rw [hu]; simp, g e :: ps, ?_, by simp [hall, hp]⟩
      rw [ho2]; simp [pOuts]

/-- what `pollInflights` writes for a replayed element -/
def replayPkt (b : B) (c : Cli) (e : Queue.Elem) : Pkt :=
  if e.pub then
    let m := b.msgOf e.tag
    .publish m.topic m.qos m.retained true e.id m.tag m.plen []
      (if c.v == 5 && m.expiry != 0 then some m.expiry else none) none (totalBytes c.v { m with sids := [] })
  else .pubrel e.id

/-- the state after one round of the replay loop in which `ReadInflight` returned `els` and left the queue `q'` -/
def B.replayRound (b : B) (conn : String) (c : Cli) (s : Sess) (q' : Queue.Q) (els : List Queue.Elem) : B :=
  let b0 := b.setSess { s with queue := q' }
  let r := els.foldl (fun (acc : B × List Nat) (e : Queue.Elem) =>
    if e.pub then
      let m := b.msgOf e.tag
      (acc.1.emitPub conn (.publish m.topic m.qos m.retained true e.id m.tag m.plen []
         (if c.v == 5 && m.expiry != 0 then some m.expiry else none) none
         (totalBytes c.v { m with sids := [] })), acc.2 ++ [e.id])
    else (acc.1.emit conn true (.pubrel e.id), acc.2 ++ [e.id])) (b0, c.used)
  let c1 := match r.1.cli? conn with | some x => x | none => c
  r.1.setCli { c1 with used := r.2 }

theorem replay_succ (b : B) (conn : String) (fuel : Nat) :
    b.replay conn (fuel + 1) =
      match b.cli? conn with
      | none => b
      | some c =>
        match b.sess? c.cid with
        | none => b
        | some s =>
          if (s.queue.readInflight b.now c.maxInflight).2.isEmpty then
            b.setSess { s with queue := (s.queue.readInflight b.now c.maxInflight).1 }
          else (b.replayRound conn c s (s.queue.readInflight b.now c.maxInflight).1
                  (s.queue.readInflight b.now c.maxInflight).2).replay conn fuel := by
  rfl

/-- a round of the replay loop: output, window, session and record of the connection afterwards -/
theorem replayRound_spec (b : B) (conn : String) (c : Cli) (s : Sess) (q' : Queue.Q) (els : List Queue.Elem)
    (hc : b.cli? conn = some c) (hs : b.sess? c.cid = some s) :
    let b' := b.replayRound conn c s q' els
    (∃ ps, b'.out = b.out ++ pOuts conn ps ∧ ps.map Pkt.core = els.map (fun e => (replayPkt b c e).core)) ∧
    (∃ c1, b'.cli? conn = some c1 ∧ c1 = { c with used := c.used ++ els.map (·.id), aliasOut := c1.aliasOut }) ∧
    b'.sess? c.cid = some { s with queue := q' } ∧ ReplayFrame b b' ∧ b'.now = b.now ∧
    (∀ x ∈ b'.clis, x.conn ≠ conn → x ∈ b.clis) ∧
    (∀ x ∈ b'.sessions, x = { s with queue := q' } ∨ (x ∈ b.sessions ∧ x.cid ≠ s.cid)) := by
  intro b'
  have hf := replay_fold_emit conn
    (fun e => .publish (b.msgOf e.tag).topic (b.msgOf e.tag).qos (b.msgOf e.tag).retained true e.id
      (b.msgOf e.tag).tag (b.msgOf e.tag).plen []
      (if c.v == 5 && (b.msgOf e.tag).expiry != 0 then some (b.msgOf e.tag).expiry else none) none
      (totalBytes c.v { b.msgOf e.tag with sids := [] }))
    (fun e => .pubrel e.id) els (b.setSess { s with queue := q' }, c.used)
  simp only at hf
  obtain ⟨hpe, hu, ps, ho, hcore⟩ := hf
  have hb' : b' = b.replayRound conn c s q' els := rfl
  unfold B.replayRound at hb'
  simp only at hb'
  generalize List.foldl _ _ els = r at hpe hu ho hb'
  obtain ⟨b1, used⟩ := r
  simp only at hpe hu ho hb'
  have hc0 : (b.setSess { s with queue := q' }).cli? conn = some c := hc
  obtain ⟨c', hc', e'⟩ := hpe.cli c hc0
  rw [hc'] at hb'
  simp only at hb'
  have hconn : c'.conn = conn := (cli?_some hc').2
  obtain ⟨cl, o, eb1⟩ := hpe.eq
  refine ⟨⟨ps, ?_, ?_⟩, ⟨{ c' with used := used }, ?_, ?_⟩, ?_, ?_, ?_, ?_, ?_⟩
  · rw [hb']; exact ho
  · rw [hcore]; apply List.map_congr_left; intro e _; unfold replayPkt; split <;> rfl
  · rw [hb', cli?_setCli, if_pos hconn]
  · rw [hu]; show _ = ({ c with used := _, aliasOut := c'.aliasOut } : Cli); rw [e']
  · rw [hb', setCli_sess?, hpe.sess?, sess?_setSess, if_pos (sess?_some hs).2]
  · rw [hb']
    have := hpe.replayFrame
    exact ⟨this.msgs, this.ats, this.retained, this.pendingWills⟩
  · rw [hb']; exact hpe.now
  · intro x hx hne
    rw [hb'] at hx
    rcases mem_setCli' hx with rfl | ⟨hx, _⟩
    · exact absurd hconn hne
    · obtain ⟨y, hy, ex, hxy⟩ := hpe.clis x hx
      have hxc : x.conn = y.conn := (congrArg Cli.conn ex : x.conn = _)
      by_cases hyc : y.conn = conn
      · exact absurd (hxc.trans hyc) hne
      · rw [hxy hyc]; exact hy
  · intro x hx
    rw [hb'] at hx
    have hx' : x ∈ b1.sessions := hx
    rw [hpe.sessions] at hx'
    exact mem_setSess' hx'

theorem replay_frame (fuel : Nat) (b : B) (conn : String) : ReplayFrame b (b.replay conn fuel) := by
  induction fuel generalizing b with
  | zero => exact ReplayFrame.refl b
  | succ fuel ih =>
    rw [replay_succ]
    split
    · exact ReplayFrame.refl b
    · next c hc =>
      split
      · exact ReplayFrame.refl b
      · next s hs =>
        split
        · exact ⟨rfl, rfl, rfl, rfl⟩
        · exact (replayRound_spec b conn c s _ _ hc hs).2.2.2.1.trans (ih _)

end GmqttVerif.Broker
