import GmqttVerif.Proofs.BrokerInv
/-
  Vocabulary and helper lemmas for the broker-level half of C07 (`Properties/C07Broker.lean` holds the property
  theorems only): how the wire-level broker model (`Model/Broker.lean`) updates its retained map `B.retained`
  (`B.publish`, `B.sendWill`), which steps leave it alone, and what `B.subscribe` replays from it.
-/
namespace GmqttVerif.Broker
open GmqttVerif.Deliver

/-! ### the retained map as a declarative store -/

/-- the entry of topic `t` in a retained map (first entry with that key) -/
def retGet (ret : List (String × Msg)) (t : String) : Option Msg := (ret.find? (fun tm => tm.1 == t)).map (·.2)

/-- what an accepted message does to the retained map: RETAIN=0 nothing; RETAIN=1 with an empty payload removes the
    entry of its topic; RETAIN=1 with a payload replaces it by the message -/
def retStore (ret : List (String × Msg)) (m : Msg) : List (String × Msg) :=
  if m.retained then
    (if m.plen == 0 then ret.filter (fun tm => tm.1 != m.topic) else (m.topic, m) :: ret.filter (fun tm => tm.1 != m.topic))
  else ret

theorem retGet_filter_self (ret : List (String × Msg)) (t : String) :
    retGet (ret.filter (fun tm => tm.1 != t)) t = none := by
  unfold retGet
  rw [find?_filter_self (fun (tm : String × Msg) => tm.1) t ret]
  rfl

theorem retGet_filter_ne (ret : List (String × Msg)) (t t' : String) (h : t ≠ t') :
    retGet (ret.filter (fun tm => tm.1 != t)) t' = retGet ret t' := by
  unfold retGet
  rw [find?_filter_ne (fun (tm : String × Msg) => tm.1) t t' h ret]

theorem retGet_cons (ret : List (String × Msg)) (k : String) (m : Msg) (t : String) :
    retGet ((k, m) :: ret) t = if k = t then some m else retGet ret t := by
  unfold retGet
  rw [List.find?_cons]
  by_cases h : k = t
  · simp [h]
  · have : (k == t) = false := by simpa using h
    simp [this, h]

/-- lookups after `retStore`: only the topic of the message is affected -/
theorem retGet_retStore (ret : List (String × Msg)) (m : Msg) (t : String) :
    retGet (retStore ret m) t =
      if m.retained = true ∧ m.topic = t then (if m.plen = 0 then none else some m) else retGet ret t := by
  unfold retStore
  by_cases hr : m.retained = true
  · by_cases ht : m.topic = t
    · subst ht
      by_cases hp : m.plen = 0
      · have hp' : (m.plen == 0) = true := by simpa using hp
        simp only [hr, hp, hp', if_true, and_self]
        exact retGet_filter_self ret m.topic
      · have hp' : (m.plen == 0) = false := by simpa using hp
        simp only [hr, hp, hp', if_true, if_false, and_self, Bool.false_eq_true]
        rw [retGet_cons, if_pos rfl]
    · by_cases hp : m.plen = 0
      · have hp' : (m.plen == 0) = true := by simpa using hp
        simp only [hr, ht, hp', if_true, and_false, if_false]
        exact retGet_filter_ne ret _ _ ht
      · have hp' : (m.plen == 0) = false := by simpa using hp
        simp only [hr, ht, hp', if_true, and_false, if_false, Bool.false_eq_true]
        rw [retGet_cons, if_neg ht]
        exact retGet_filter_ne ret _ _ ht
  · simp only [hr, false_and, if_false]

/-- the entry of topic `t` after the messages `ms` were accepted in this order, starting from entry `cur` -/
def lastValue (t : String) : List Msg → Option Msg → Option Msg
  | [], cur => cur
  | m :: ms, cur =>
    lastValue t ms (if m.retained = true ∧ m.topic = t then (if m.plen = 0 then none else some m) else cur)

theorem retGet_foldl_retStore (ms : List Msg) (ret : List (String × Msg)) (t : String) :
    retGet (ms.foldl retStore ret) t = lastValue t ms (retGet ret t) := by
  induction ms generalizing ret with
  | nil => rfl
  | cons m ms ih => rw [List.foldl_cons, ih, retGet_retStore]; rfl

theorem lastValue_append (t : String) (ms : List Msg) (m : Msg) (cur : Option Msg) :
    lastValue t (ms ++ [m]) cur =
      if m.retained = true ∧ m.topic = t then (if m.plen = 0 then none else some m) else lastValue t ms cur := by
  induction ms generalizing cur with
  | nil => rfl
  | cons x xs ih => exact ih _

/-- `lastValue` in closed form: the last message with RETAIN=1 for this topic decides -/
theorem lastValue_eq (t : String) (ms : List Msg) (cur : Option Msg) :
    lastValue t ms cur =
      match (ms.filter (fun m => m.retained && m.topic == t)).getLast? with
      | none => cur
      | some m => if m.plen = 0 then none else some m := by
  induction ms generalizing cur with
  | nil => rfl
  | cons m ms ih =>
    rw [lastValue, ih, List.filter_cons]
    by_cases h : m.retained = true ∧ m.topic = t
    · have hb : (m.retained && m.topic == t) = true := by simpa using h
      rw [if_pos h, if_pos hb, List.getLast?_cons]
      cases (ms.filter (fun m => m.retained && m.topic == t)).getLast? <;> rfl
    · have hb : (m.retained && m.topic == t) = false := by
        rw [Bool.eq_false_iff]; intro h'; apply h; simpa using h'
      rw [if_neg h, hb]
      rfl

/-! ### the invariant of the retained map -/

/-- at most one entry per topic; every entry is a message of that topic with RETAIN=1 and a non-empty payload -/
structure RetOK (ret : List (String × Msg)) : Prop where
  nodup : (ret.map (·.1)).Nodup
  entry : ∀ tm ∈ ret, tm.2.topic = tm.1 ∧ tm.2.retained = true ∧ tm.2.plen ≠ 0

theorem retOK_nil : RetOK [] := ⟨List.nodup_nil, fun _ h => nomatch h⟩

theorem RetOK.filter {ret : List (String × Msg)} (h : RetOK ret) (p : String × Msg → Bool) : RetOK (ret.filter p) :=
  ⟨h.nodup.sublist (List.filter_sublist.map _), fun tm htm => h.entry tm (List.mem_filter.1 htm).1⟩

theorem RetOK.retStore {ret : List (String × Msg)} (h : RetOK ret) (m : Msg) : RetOK (retStore ret m) := by
  unfold Broker.retStore
  split
  · next hr =>
    split
    · exact h.filter _
    · next hp =>
      have hf := h.filter (fun tm => tm.1 != m.topic)
      refine ⟨?_, ?_⟩
      · rw [List.map_cons, List.nodup_cons]
        refine ⟨?_, hf.nodup⟩
        intro hmem
        obtain ⟨x, hx, hxe⟩ := List.mem_map.1 hmem
        have := (List.mem_filter.1 hx).2
        simp [hxe] at this
      · intro tm htm
        rcases List.mem_cons.1 htm with rfl | htm
        · exact ⟨rfl, hr, by simpa using hp⟩
        · exact hf.entry tm htm
  · exact h

theorem RetOK.foldl {ret : List (String × Msg)} (h : RetOK ret) (ms : List Msg) : RetOK (ms.foldl Broker.retStore ret) := by
  induction ms generalizing ret with
  | nil => exact h
  | cons m ms ih => exact ih (h.retStore m)

/-- with one entry per topic, membership and lookup agree -/
theorem RetOK.mem_iff {ret : List (String × Msg)} (h : RetOK ret) (t : String) (m : Msg) :
    (t, m) ∈ ret ↔ retGet ret t = some m := by
  unfold retGet
  induction ret with
  | nil => simp
  | cons x xs ih =>
    have hx : RetOK xs := ⟨(List.nodup_cons.1 (by simpa using h.nodup)).2, fun tm htm => h.entry tm (List.mem_cons_of_mem _ htm)⟩
    have hnot : x.1 ∉ xs.map (·.1) := (List.nodup_cons.1 (by simpa using h.nodup)).1
    rw [List.find?_cons]
    by_cases hk : x.1 = t
    · have hk' : (x.1 == t) = true := by simpa using hk
      simp only [hk', Option.map_some, Option.some.injEq, List.mem_cons]
      constructor
      · rintro (e | hm)
        · rw [← e]
        · exact absurd (List.mem_map.2 ⟨(t, m), hm, hk.symm⟩) hnot
      · intro e; left; rw [← e, ← hk]
    · have hk' : (x.1 == t) = false := by simpa using hk
      simp only [hk', List.mem_cons]
      rw [← ih hx]
      constructor
      · rintro (e | hm)
        · exact absurd (by rw [← e]) hk
        · exact hm
      · exact .inr

end GmqttVerif.Broker
