import GmqttVerif.Proofs.BrokerInv
import GmqttVerif.Proofs.BrokerInbound
/-
  Vocabulary and helper lemmas for the broker-level half of C07 (`Properties/C07Broker.lean` holds the property
  theorems only): how the wire-level broker model (`Model/Broker.lean`) updates its retained map `B.retained`
  (`B.publish`, `B.sendWill`), which steps leave it alone, and what `B.subscribe` replays from it.
-/
namespace GmqttVerif.Broker
open GmqttVerif.Deliver

/-! ### the retained map as a declarative store -/

/-- the entry of topic `t` in a retained map (first entry with that key) -/
def retGet (ret : List (String × Msg)) (t : String) : Option Msg := (ret.find? (fun tm => tm.1 == t)).map (·.2)

/-- what an accepted message does to the retained map: RETAIN=0 nothing; RETAIN=1 with an empty payload removes the
    entry of its topic; RETAIN=1 with a payload replaces it by the message -/
def retStore (ret : List (String × Msg)) (m : Msg) : List (String × Msg) :=
  if m.retained then
    (if m.plen == 0 then ret.filter (fun tm => tm.1 != m.topic) else (m.topic, m) :: ret.filter (fun tm => tm.1 != m.topic))
  else ret

theorem retGet_filter_self (ret : List (String × Msg)) (t : String) :
    retGet (ret.filter (fun tm => tm.1 != t)) t = none := by
  unfold retGet
  rw [find?_filter_self (fun (tm : String × Msg) => tm.1) t ret]
  rfl

theorem retGet_filter_ne (ret : List (String × Msg)) (t t' : String) (h : t ≠ t') :
    retGet (ret.filter (fun tm => tm.1 != t)) t' = retGet ret t' := by
  unfold retGet
  rw [find?_filter_ne (fun (tm : String × Msg) => tm.1) t t' h ret]

theorem retGet_cons (ret : List (String × Msg)) (k : String) (m : Msg) (t : String) :
    retGet ((k, m) :: ret) t = if k = t then some m else retGet ret t := by
  unfold retGet
  rw [List.find?_cons]
  by_cases h : k = t
  · simp [h]
  · have : (k == t) = false := by simpa using h
    simp [this, h]

/-- lookups after `retStore`: only the topic of the message is affected -/
theorem retGet_retStore (ret : List (String × Msg)) (m : Msg) (t : String) :
    retGet (retStore ret m) t =
      if m.retained = true ∧ m.topic = t then (if m.plen = 0 then none else some m) else retGet ret t := by
  unfold retStore
  by_cases hr : m.retained = true
  · by_cases ht : m.topic = t
    · subst ht
      by_cases hp : m.plen = 0
      · have hp' : (m.plen == 0) = true := by simpa using hp
        simp only [hr, hp, if_true, and_self]
        exact retGet_filter_self ret m.topic
      · have hp' : (m.plen == 0) = false := by simpa using hp
        simp only [hr, hp, hp', if_true, if_false, and_self, Bool.false_eq_true]
        rw [retGet_cons, if_pos rfl]
    · by_cases hp : m.plen = 0
      · have hp' : (m.plen == 0) = true := by simpa using hp
        simp only [hr, ht, hp', if_true, and_false, if_false]
        exact retGet_filter_ne ret _ _ ht
      · have hp' : (m.plen == 0) = false := by simpa using hp
        simp only [hr, ht, hp', if_true, and_false, if_false, Bool.false_eq_true]
        rw [retGet_cons, if_neg ht]
        exact retGet_filter_ne ret _ _ ht
  · have hr' : m.retained = false := by simpa using hr
    simp [hr']

/-- the entry of topic `t` after the messages `ms` were accepted in this order, starting from entry `cur` -/
def lastValue (t : String) : List Msg → Option Msg → Option Msg
  | [], cur => cur
  | m :: ms, cur =>
    lastValue t ms (if m.retained = true ∧ m.topic = t then (if m.plen = 0 then none else some m) else cur)

theorem retGet_foldl_retStore (ms : List Msg) (ret : List (String × Msg)) (t : String) :
    retGet (ms.foldl retStore ret) t = lastValue t ms (retGet ret t) := by
  induction ms generalizing ret with
  | nil => rfl
  | cons m ms ih => rw [List.foldl_cons, ih, retGet_retStore]; rfl

theorem lastValue_append (t : String) (ms : List Msg) (m : Msg) (cur : Option Msg) :
    lastValue t (ms ++ [m]) cur =
      if m.retained = true ∧ m.topic = t then (if m.plen = 0 then none else some m) else lastValue t ms cur := by
  induction ms generalizing cur with
  | nil => rfl
  | cons x xs ih => exact ih _

/-- `lastValue` in closed form: the last message with RETAIN=1 for this topic decides -/
theorem lastValue_eq (t : String) (ms : List Msg) (cur : Option Msg) :
    lastValue t ms cur =
      match (ms.filter (fun m => m.retained && m.topic == t)).getLast? with
      | none => cur
      | some m => if m.plen = 0 then none else some m := by
  induction ms generalizing cur with
  | nil => rfl
  | cons m ms ih =>
    rw [lastValue, ih, List.filter_cons]
    by_cases h : m.retained = true ∧ m.topic = t
    · have hb : (m.retained && m.topic == t) = true := by simpa using h
      rw [if_pos h, if_pos hb, List.getLast?_cons]
      cases (ms.filter (fun m => m.retained && m.topic == t)).getLast? <;> rfl
    · have hb : (m.retained && m.topic == t) = false := by
        rw [Bool.eq_false_iff]; intro h'; apply h; simpa using h'
      rw [if_neg h, hb]
      rfl

/-! ### the invariant of the retained map -/

/-- at most one entry per topic; every entry is a message of that topic with RETAIN=1 and a non-empty payload -/
structure RetOK (ret : List (String × Msg)) : Prop where
  nodup : (ret.map (·.1)).Nodup
  entry : ∀ tm ∈ ret, tm.2.topic = tm.1 ∧ tm.2.retained = true ∧ tm.2.plen ≠ 0

theorem retOK_nil : RetOK [] := ⟨List.nodup_nil, fun _ h => nomatch h⟩

theorem RetOK.filter {ret : List (String × Msg)} (h : RetOK ret) (p : String × Msg → Bool) : RetOK (ret.filter p) :=
  ⟨h.nodup.sublist (List.filter_sublist.map _), fun tm htm => h.entry tm (List.mem_filter.1 htm).1⟩

theorem RetOK.retStore {ret : List (String × Msg)} (h : RetOK ret) (m : Msg) : RetOK (retStore ret m) := by
  unfold Broker.retStore
  split
  · next hr =>
    split
    · exact h.filter _
    · next hp =>
      have hf := h.filter (fun tm => tm.1 != m.topic)
      refine ⟨?_, ?_⟩
      · rw [List.map_cons, List.nodup_cons]
        refine ⟨?_, hf.nodup⟩
        intro hmem
        obtain ⟨x, hx, hxe⟩ := List.mem_map.1 hmem
        have := (List.mem_filter.1 hx).2
        simp [hxe] at this
      · intro tm htm
        rcases List.mem_cons.1 htm with rfl | htm
        · exact ⟨rfl, hr, by simpa using hp⟩
        · exact hf.entry tm htm
  · exact h

theorem RetOK.foldl {ret : List (String × Msg)} (h : RetOK ret) (ms : List Msg) : RetOK (ms.foldl Broker.retStore ret) := by
  induction ms generalizing ret with
  | nil => exact h
  | cons m ms ih => exact ih (h.retStore m)

/-- with one entry per topic, membership and lookup agree -/
theorem RetOK.mem_iff {ret : List (String × Msg)} (h : RetOK ret) (t : String) (m : Msg) :
    (t, m) ∈ ret ↔ retGet ret t = some m := by
  unfold retGet
  induction ret with
  | nil => simp
  | cons x xs ih =>
    have hx : RetOK xs := ⟨(List.nodup_cons.1 (by simpa using h.nodup)).2, fun tm htm => h.entry tm (List.mem_cons_of_mem _ htm)⟩
    have hnot : x.1 ∉ xs.map (·.1) := (List.nodup_cons.1 (by simpa using h.nodup)).1
    rw [List.find?_cons]
    by_cases hk : x.1 = t
    · have hk' : (x.1 == t) = true := by simpa using hk
      simp only [hk', Option.map_some, Option.some.injEq, List.mem_cons]
      constructor
      · rintro (e | hm)
        · rw [← e]
        · exact absurd (List.mem_map.2 ⟨(t, m), hm, hk.symm⟩) hnot
      · intro e; left; rw [← e, ← hk]
    · have hk' : (x.1 == t) = false := by simpa using hk
      simp only [hk', List.mem_cons]
      rw [← ih hx]
      constructor
      · rintro (e | hm)
        · exact absurd (by rw [← e]) hk
        · exact hm
      · exact .inr

/-! ### which steps touch the retained map: accepted PUBLISHes and wills, nothing else -/

/-- `w` is a will registered in `b`: the will of a stored session, or a delayed will that is pending -/
def IsWill (b : B) (w : Msg) : Prop :=
  (∃ s ∈ b.sessions, s.will = some w) ∨ (∃ x ∈ b.pendingWills, x.2.1 = w)

/-- `b'.retained` results from `b.retained` by storing (`retStore`) wills registered in `b`, one after the other -/
def WillsOnly (b b' : B) : Prop :=
  ∃ ws : List Msg, (∀ w ∈ ws, IsWill b w) ∧ b'.retained = ws.foldl retStore b.retained

/-- no will registered in `b` has RETAIN=1 -/
def NoRetainedWill (b : B) : Prop := ∀ w, IsWill b w → w.retained = false

theorem retStore_not_retained (ret : List (String × Msg)) (m : Msg) (h : m.retained = false) : retStore ret m = ret := by
  simp [retStore, h]

theorem WillsOnly.eq_of_noRetainedWill {b b' : B} (h : WillsOnly b b') (hn : NoRetainedWill b) :
    b'.retained = b.retained := by
  obtain ⟨ws, hws, e⟩ := h
  rw [e]
  clear e
  induction ws generalizing b with
  | nil => rfl
  | cons w ws ih =>
    rw [List.foldl_cons, retStore_not_retained _ _ (hn w (hws w List.mem_cons_self))]
    exact ih hn (fun x hx => hws x (List.mem_cons_of_mem _ hx))

theorem WillsOnly.of_eq {b b' : B} (h : b'.retained = b.retained) : WillsOnly b b' := ⟨[], (fun _ hw => nomatch hw), h⟩

/-- progress of a step that started in `b0`: so far wills of `b0` were stored, and every will registered now was
    registered in `b0` -/
structure Fired (b0 b : B) : Prop where
  sub : ∀ w, IsWill b w → IsWill b0 w
  ret : WillsOnly b0 b

theorem Fired.refl (b : B) : Fired b b := ⟨fun _ h => h, .of_eq rfl⟩

/-- a sub-step that neither touches the retained map nor registers a new will -/
theorem Fired.frame {b0 b b' : B} (h : Fired b0 b) (hr : b'.retained = b.retained)
    (hs : ∀ s' ∈ b'.sessions, ∀ w, s'.will = some w → IsWill b w)
    (hp : ∀ x ∈ b'.pendingWills, IsWill b x.2.1) : Fired b0 b' := by
  refine ⟨?_, ?_⟩
  · rintro w (⟨s', hs', hw⟩ | ⟨x, hx, rfl⟩)
    · exact h.sub w (hs s' hs' w hw)
    · exact h.sub _ (hp x hx)
  · obtain ⟨ws, hws, e⟩ := h.ret
    exact ⟨ws, hws, hr.trans e⟩

theorem Fired.same {b0 b b' : B} (h : Fired b0 b) (hr : b'.retained = b.retained) (hs : b'.sessions = b.sessions)
    (hp : b'.pendingWills = b.pendingWills) : Fired b0 b' :=
  h.frame hr (fun s' hs' _ hw => .inl ⟨s', hs ▸ hs', hw⟩) (fun x hx => .inr ⟨x, hp ▸ hx, rfl⟩)

/-- a sub-step that drops sessions / pending wills -/
theorem Fired.sublist {b0 b b' : B} (h : Fired b0 b) (hr : b'.retained = b.retained)
    (hs : ∀ s' ∈ b'.sessions, s' ∈ b.sessions) (hp : ∀ x ∈ b'.pendingWills, x ∈ b.pendingWills) : Fired b0 b' :=
  h.frame hr (fun s' hs' _ hw => .inl ⟨s', hs s' hs', hw⟩) (fun x hx => .inr ⟨x, hp x hx, rfl⟩)

theorem Fired.setSess {b0 b : B} (h : Fired b0 b) (s s0 : Sess) (hs0 : s0 ∈ b.sessions) (hw : s.will = s0.will) :
    Fired b0 (b.setSess s) := by
  refine h.frame rfl (fun s' hs' w hw' => ?_) (fun x hx => .inr ⟨x, hx, rfl⟩)
  rcases mem_setSess' hs' with rfl | ⟨hm, _⟩
  · exact .inl ⟨s0, hs0, hw ▸ hw'⟩
  · exact .inl ⟨s', hm, hw'⟩

theorem Fired.setSess_of {b0 b : B} (h : Fired b0 b) {cid : String} (s s0 : Sess) (hs0 : b.sess? cid = some s0)
    (hw : s.will = s0.will) : Fired b0 (b.setSess s) :=
  h.setSess s s0 (sess?_some hs0).1 hw

theorem Fired.enq {b0 b b' : B} (h : Fired b0 b) (e : Enq b b') : Fired b0 b' := by
  refine h.frame e.retained (fun s' hs' w hw => ?_) (fun x hx => .inr ⟨x, e.pendingWills ▸ hx, rfl⟩)
  obtain ⟨s, hs, es⟩ := e.sess s' hs'
  exact .inl ⟨s, hs, by rw [es] at hw; exact hw⟩

theorem willRetain_retained (b : B) (m : Msg) : (b.willRetain m).retained = retStore b.retained m := by
  unfold B.willRetain retStore
  split
  · split <;> rfl
  · rfl

theorem willRetain_sessions (b : B) (m : Msg) : (b.willRetain m).sessions = b.sessions := by
  unfold B.willRetain
  split
  · split <;> rfl
  · rfl

theorem willRetain_pendingWills (b : B) (m : Msg) : (b.willRetain m).pendingWills = b.pendingWills := by
  unfold B.willRetain
  split
  · split <;> rfl
  · rfl

/-- storing one more will of `b0` -/
theorem Fired.store {b0 b b' : B} (h : Fired b0 b) (m : Msg) (hm : IsWill b0 m) (hr : b'.retained = retStore b.retained m)
    (hs : b'.sessions = b.sessions) (hp : b'.pendingWills = b.pendingWills) : Fired b0 b' := by
  refine ⟨?_, ?_⟩
  · rintro w (⟨s', hs', hw⟩ | ⟨x, hx, rfl⟩)
    · exact h.sub w (.inl ⟨s', hs ▸ hs', hw⟩)
    · exact h.sub _ (.inr ⟨x, hp ▸ hx, rfl⟩)
  · obtain ⟨ws, hws, e⟩ := h.ret
    refine ⟨ws ++ [m], ?_, ?_⟩
    · intro w hw
      rcases List.mem_append.1 hw with hw | hw
      · exact hws w hw
      · rw [List.mem_singleton.1 hw]; exact hm
    · rw [List.foldl_append, ← e, hr]; rfl

theorem Fired.sendWill {b0 b : B} (h : Fired b0 b) (cid : String) (m : Msg) (hm : IsWill b0 m) :
    Fired b0 (b.sendWill cid m) := by
  rw [sendWill_eq]
  exact (h.store m hm (willRetain_retained b m) (willRetain_sessions b m) (willRetain_pendingWills b m)).enq
    (enq_deliverMsg _ _ _ _ _)

theorem Fired.foldl {α : Type} {b0 : B} (f : B → α → B) (hf : ∀ b a, Fired b0 b → Fired b0 (f b a)) (l : List α) {b : B}
    (h : Fired b0 b) : Fired b0 (l.foldl f b) := by
  induction l generalizing b with
  | nil => exact h
  | cons x xs ih => exact ih (hf b x h)

theorem Fired.terminateS {b0 b : B} (h : Fired b0 b) (cid : String) : Fired b0 (b.terminateS cid) := by
  have h1 : Fired b0 (b.terminate cid) :=
    h.sublist rfl (fun s' hs' => (List.mem_filter.1 hs').1) (fun x hx => hx)
  cases hw : b.willOf? cid with
  | none => rw [terminateS_none b cid hw]; exact h1
  | some x =>
    rw [terminateS_some b cid x hw]
    have hx : x ∈ b.pendingWills := List.mem_of_find?_eq_some hw
    have h2 : Fired b0 ((b.terminate cid).dropWill cid) :=
      h1.sublist rfl (fun s' hs' => hs') (fun y hy => (List.mem_filter.1 hy).1)
    exact h2.sendWill cid x.2.1 (h.sub _ (.inr ⟨x, hx, rfl⟩))

theorem Fired.willStep {b0 b : B} (h : Fired b0 b) (c : Cli) (s : Sess) (store : Bool)
    (hs : ∀ w, s.will = some w → IsWill b w) : Fired b0 (willStep b c s store) := by
  unfold Broker.willStep
  split
  · split
    · exact h
    · next w hw =>
      simp only
      generalize (if s.expiry ≤ s.willDelay then s.expiry else s.willDelay) = delay
      split
      · refine h.frame rfl (fun s' hs' w' hw' => .inl ⟨s', hs', hw'⟩) (fun x hx => ?_)
        rcases List.mem_append.1 hx with hx | hx
        · exact .inr ⟨x, (List.mem_filter.1 hx).1, rfl⟩
        · rw [List.mem_singleton.1 hx]; exact hs w hw
      · exact h.sendWill c.cid w (h.sub w (hs w hw))
  · exact h

theorem Fired.dropCli {b0 b : B} (h : Fired b0 b) (conn : String) : Fired b0 (b.dropCli conn) := h.same rfl rfl rfl

theorem Fired.unregister {b0 b : B} (h : Fired b0 b) (conn : String) (force : Bool) : Fired b0 (b.unregister conn force) := by
  cases hc : b.cli? conn with
  | none => rw [unregister_none b conn force hc]; exact h
  | some c =>
    rw [unregister_eq b conn force c hc]
    cases hs : b.sess? c.cid with
    | none => exact (h.dropCli conn).terminateS _
    | some s0 =>
      simp only
      have hwill : ({ unregSess c s0 force with queue := (unregSess c s0 force).queue.close } : Sess).will = s0.will :=
        unregSess_will c s0 force
      have h1 : Fired b0 ((b.dropCli conn).setSess { unregSess c s0 force with queue := (unregSess c s0 force).queue.close }) :=
        (h.dropCli conn).setSess _ s0 (sess?_some hs).1 hwill
      have h2 := h1.willStep c { unregSess c s0 force with queue := (unregSess c s0 force).queue.close }
        (!force && (unregSess c s0 force).expiry != 0)
        (fun w hw => .inl ⟨_, List.mem_cons_self, hw⟩)
      split
      · exact h2.same rfl rfl rfl
      · exact h2.terminateS _

theorem Fired.kick {b0 b : B} (h : Fired b0 b) (conn : String) (code : Option Nat) : Fired b0 (b.kick conn code) := by
  obtain ⟨o, ho⟩ := kick_eq b conn code
  rw [ho]
  exact (h.same (b' := { b with out := o }) rfl rfl rfl).unregister conn false

theorem Fired.emit {b0 b : B} (h : Fired b0 b) (conn : String) (poll : Bool) (p : Pkt) : Fired b0 (b.emit conn poll p) :=
  h.same rfl rfl rfl

theorem Fired.setCli {b0 b : B} (h : Fired b0 b) (c : Cli) : Fired b0 (b.setCli c) := h.same rfl rfl rfl

theorem Fired.closeIn {b0 b : B} (h : Fired b0 b) (conn : String) : Fired b0 (b.closeIn conn) := by
  unfold B.closeIn
  split
  · exact h
  · exact (h.unregister conn false).emit _ _ _

theorem Fired.apiTerminate {b0 b : B} (h : Fired b0 b) (cid : String) : Fired b0 (b.apiTerminate cid) := by
  unfold B.apiTerminate
  split
  · exact (h.emit _ _ _).unregister _ true
  · split
    · exact h.terminateS cid
    · exact h

theorem Fired.apiExpire {b0 b : B} (h : Fired b0 b) : Fired b0 b.apiExpire := by
  unfold B.apiExpire
  exact Fired.foldl _ (fun bb cd hb => hb.terminateS cd.1) _ h

theorem Fired.foldl_sendWill {b0 : B} (due : List (String × Msg × Nat)) (hdue : ∀ x ∈ due, IsWill b0 x.2.1) {b1 : B}
    (h1 : Fired b0 b1) : Fired b0 (due.foldl (fun bb w => bb.sendWill w.1 w.2.1) b1) := by
  induction due generalizing b1 with
  | nil => exact h1
  | cons x xs ih =>
    rw [List.foldl_cons]
    exact ih (fun y hy => hdue y (List.mem_cons_of_mem _ hy)) (h1.sendWill x.1 x.2.1 (hdue x List.mem_cons_self))

theorem Fired.sleep {b0 b : B} (h : Fired b0 b) (ms : Nat) : Fired b0 (b.sleep ms) := by
  unfold B.sleep
  simp only
  refine Fired.foldl_sendWill _ ?_ ?_
  · exact fun x hx => h.sub _ (.inr ⟨x, (List.mem_filter.1 hx).1, rfl⟩)
  · exact h.sublist rfl (fun s' hs' => hs') (fun x hx => (List.mem_filter.1 hx).1)

/-! ### `connect` -/

theorem Fired.afterDisplace {b0 b : B} (h : Fired b0 b) (cid : String) : Fired b0 (afterDisplace b cid) := by
  rcases afterDisplace_def b cid with e | ⟨old, _, e⟩
  · rw [e]; exact h
  · rw [e]; exact h.kick _ _

theorem Fired.endOld {b0 b : B} (h : Fired b0 b) (r : ConnectReq) : Fired b0 (endOld b r) := by
  unfold Broker.endOld
  split
  · split
    · exact h.terminateS _
    · exact h.sublist rfl (fun s' hs' => hs') (fun x hx => (List.mem_filter.1 hx).1)
  · exact h

theorem connect_retained (b : B) (r : ConnectReq) :
    (b.connect r).retained = (endOld (afterDisplace b r.cid) r).retained := by
  rw [connect_eq, (replay_frame 100000 _ r.conn).retained]
  rfl

theorem willsOnly_connect (b : B) (r : ConnectReq) : WillsOnly b (b.connect r) := by
  obtain ⟨ws, hws, e⟩ := (((Fired.refl b).afterDisplace r.cid).endOld r).ret
  exact ⟨ws, hws, (connect_retained b r).trans e⟩

/-! ### steps that never touch the retained map -/

theorem foldl_retained {α : Type} (f : B → α → B) (hf : ∀ b a, (f b a).retained = b.retained) (l : List α) (b : B) :
    (l.foldl f b).retained = b.retained := by
  induction l generalizing b with
  | nil => rfl
  | cons x xs ih => rw [List.foldl_cons, ih, hf]

theorem unsubscribe_retained (b : B) (conn : String) (pid : Nat) (topics : List String) :
    (b.unsubscribe conn pid topics).retained = b.retained := by
  unfold B.unsubscribe
  split
  · rfl
  · show (List.foldl _ b topics).retained = _
    refine foldl_retained _ ?_ topics b
    intro _ _
    rfl

/-- case analysis for the handlers that only touch session / connection records and the output -/
macro "ret_cases" : tactic => `(tactic| repeat' (first | rfl | split | simp only []))

theorem pubrelIn_retained (b : B) (conn : String) (pid : Nat) : (b.pubrelIn conn pid).retained = b.retained := by
  unfold B.pubrelIn
  ret_cases

theorem ackOut_retained (b : B) (conn : String) (id : Nat) : (b.ackOut conn id).retained = b.retained := by
  unfold B.ackOut
  ret_cases

theorem pubrecOut_retained (b : B) (conn : String) (id code : Nat) : (b.pubrecOut conn id code).retained = b.retained := by
  unfold B.pubrecOut
  split
  · rfl
  · split
    · exact ackOut_retained b conn id
    · ret_cases

theorem disconnectIn_retained (b : B) (conn : String) (se : Option Nat) (code : Nat) :
    (b.disconnectIn conn se code).retained = b.retained := by
  unfold B.disconnectIn
  ret_cases

theorem apiBackdate_retained (b : B) (cid : String) (secs : Nat) : (b.apiBackdate cid secs).retained = b.retained := by
  unfold B.apiBackdate
  split <;> rfl

theorem apiPublish_retained (b : B) (m : Msg) : (b.deliverMsg "" m []).1.retained = b.retained :=
  (enq_deliverMsg b "" m [] []).retained

theorem pumpRound_retained (b : B) (conn : String) (c : Cli) (s : Sess) (q' : Queue.Q) (out : List Queue.Elem) :
    (b.pumpRound conn c s q' out).retained = b.retained := by
  obtain ⟨hpe, _⟩ := foldl_emitPub_out conn (fun e => b.pubPkt c e (b.ats.getD e.tag b.now)) out b
  obtain ⟨cl, o, e⟩ := hpe.eq
  unfold B.pumpRound B.pumpEmit
  simp only [e]
  rfl

theorem pump_retained (b : B) (conn : String) (fuel : Nat) : (b.pump conn fuel).retained = b.retained := by
  obtain ⟨rs, h⟩ := pump_trace fuel b conn
  generalize b.pump conn fuel = b' at h
  induction h with
  | stop => rfl
  | round b c s q' out rs b' _ _ ih => exact ih.trans (pumpRound_retained b conn c s q' out)

theorem pumpAll_retained (b : B) : b.pumpAll.retained = b.retained := by
  unfold B.pumpAll
  exact foldl_retained _ (fun bb cn => pump_retained bb cn 10000) _ b

/-! ### `publish` -/

/-- none of the refusals of `B.publish` applies to the PUBLISH `r` arriving on the connection `c` -/
structure NotRefused (b : B) (c : Cli) (r : PubReq) : Prop where
  topic : TopicOk b c r
  quota : ¬ (c.v = 5 ∧ r.qos > 0 ∧ c.quota = 0)
  size : ¬ (c.v = 5 ∧ b.cfg.maxPacket ≠ 0 ∧ r.size > b.cfg.maxPacket)
  retain : ¬ (b.cfg.retainAvail = false ∧ r.retain = true)

theorem topicOk_of_aliasRes {b : B} {c : Cli} {r : PubReq} {t : String} {c2 : Cli}
    (h : aliasRes b.cfg (pubCli c r) r = .ok (t, c2)) : TopicOk b c r := by
  unfold aliasRes at h
  rw [pubCli_v, pubCli_aliasIn] at h
  by_cases hv : c.v = 5
  · have hv' : (c.v == 5) = true := by simpa using hv
    rw [if_pos hv'] at h
    cases ha : r.alias with
    | none =>
      rw [ha] at h
      simp only at h
      split at h
      · cases h
      · next ht =>
        exact ⟨fun a _ h' => (by rw [ha] at h'; cases h'), fun ht' => absurd (by simpa using ht') ht⟩
    | some a =>
      rw [ha] at h
      simp only at h
      split at h
      · cases h
      · next hbad =>
        have hok : a ≠ 0 ∧ a ≤ b.cfg.aliasMax := by simpa [Nat.not_lt] using hbad
        refine ⟨fun a' _ h' => (by rw [ha] at h'; cases h'; exact hok), fun ht => ⟨hv, a, ?_⟩⟩
        have ht' : (r.topic == "") = true := by simpa using ht
        rw [if_pos ht'] at h
        split at h
        · next p1 t1 hf =>
          split at h
          · cases h
          · next hne => exact ⟨(p1, t1), ha, hf, by simpa using hne⟩
        · cases h
  · have hv' : (c.v == 5) = false := by simpa using hv
    rw [hv'] at h
    simp only [Bool.false_eq_true, if_false] at h
    split at h
    · cases h
    · next ht =>
      exact ⟨fun a hv5 _ => absurd hv5 hv, fun ht' => absurd (by simpa using ht') ht⟩

/-- `B.publish` by cases: refused (the connection is closed with a reason code), or accepted -/
theorem publish_cases (b : B) (r : PubReq) (c : Cli) (hc : b.cli? r.conn = some c) :
    (¬ NotRefused b c r ∧ ∃ b1 code, b.publish r = b1.kick r.conn (some code) ∧ (b1 = b ∨ b1 = b.setCli (pubCli c r))) ∨
    (NotRefused b c r ∧ ∃ t c2, aliasRes b.cfg (pubCli c r) r = .ok (t, c2) ∧
      b.publish r =
        match b.sess? c.cid with
        | none => (b.setCli (pubCli c r)).setCli c2
        | some s => ((b.setCli (pubCli c r)).setCli c2).publishTail c2 { r with topic := t } s) := by
  rw [publish_eq]
  simp only [hc]
  split
  · next h0 =>
    refine .inl ⟨fun hn => ?_, b, _, rfl, .inl rfl⟩
    simp only [Bool.and_eq_true, beq_iff_eq] at h0
    exact (hn.topic.alias 0 h0.1 h0.2).1 rfl
  · split
    · next h0' =>
      refine .inl ⟨fun hn => ?_, b, _, rfl, .inl rfl⟩
      simp only [Bool.and_eq_true, beq_iff_eq, Bool.or_eq_true, bne_iff_ne, ne_eq] at h0'
      obtain ⟨hv, a, p, ha, _⟩ := hn.topic.topic h0'.1
      rcases h0'.2 with h2 | h2
      · exact h2 hv
      · rw [ha] at h2; cases h2
    · split
      · next h1 =>
        refine .inl ⟨fun hn => hn.quota ?_, b, _, rfl, .inl rfl⟩
        simpa [Bool.and_eq_true, beq_iff_eq, decide_eq_true_eq, and_assoc] using h1
      · next h1 =>
        split
        · next h2 =>
          refine .inl ⟨fun hn => hn.size ?_, _, _, rfl, .inr rfl⟩
          rw [pubCli_v] at h2
          have h2' : (c.v == 5 && b.cfg.maxPacket != 0 && decide (r.size > b.cfg.maxPacket)) = true := h2
          simpa [Bool.and_eq_true, beq_iff_eq, decide_eq_true_eq, and_assoc] using h2'
        · next h2 =>
          split
          · next h3 =>
            refine .inl ⟨fun hn => hn.retain ?_, _, _, rfl, .inr rfl⟩
            have h3' : (!b.cfg.retainAvail && r.retain) = true := h3
            simpa using h3'
          · next h3 =>
            have hcfg : (b.setCli (pubCli c r)).cfg = b.cfg := rfl
            rw [hcfg]
            cases hres : aliasRes b.cfg (pubCli c r) r with
            | error code =>
              refine .inl ⟨fun hn => ?_, _, _, rfl, .inr rfl⟩
              obtain ⟨t, c2, hok⟩ := aliasRes_of_topicOk hn.topic
              rw [hres] at hok; cases hok
            | ok tc =>
              obtain ⟨t, c2⟩ := tc
              refine .inr ⟨⟨topicOk_of_aliasRes hres, ?_, ?_, ?_⟩, t, c2, rfl, ?_⟩
              · intro hq; apply h1
                simpa [Bool.and_eq_true, beq_iff_eq, decide_eq_true_eq, and_assoc] using hq
              · intro hq; apply h2
                rw [pubCli_v]
                show (c.v == 5 && b.cfg.maxPacket != 0 && decide (r.size > b.cfg.maxPacket)) = true
                simpa [Bool.and_eq_true, beq_iff_eq, decide_eq_true_eq, and_assoc] using hq
              · intro hq; apply h3
                show (!b.cfg.retainAvail && r.retain) = true
                simpa using hq
              · have hcid : c2.cid = c.cid := by rw [(aliasRes_ok hres).2.1, pubCli_cid]
                simp only [setCli_sess?, hcid]
                cases b.sess? c.cid <;> rfl

theorem pubAck_retained (b : B) (c : Cli) (r : PubReq) (m : Bool) : (b.pubAck c r m).retained = b.retained := by
  unfold B.pubAck
  ret_cases

theorem pubDupQuota_retained (b : B) (c : Cli) (r : PubReq) (d : Bool) : (b.pubDupQuota c r d).retained = b.retained := by
  unfold B.pubDupQuota
  ret_cases

theorem pubRetain_retained (b : B) (r : PubReq) : (b.pubRetain r false).retained = retStore b.retained (pubMsg r) := by
  unfold B.pubRetain retStore pubMsg
  cases r.retain
  · rfl
  · simp only [Bool.not_false, Bool.and_self, if_true]
    split <;> rfl

theorem pubRetain_dup (b : B) (r : PubReq) : (b.pubRetain r true).retained = b.retained := by
  simp [B.pubRetain]

/-- the retained map after an accepted PUBLISH: updated by the message, unless it is a retransmission of a QoS 2
    PUBLISH that still awaits PUBREL -/
theorem publishTail_retained (b : B) (c : Cli) (r : PubReq) (s : Sess) :
    (b.publishTail c r s).retained =
      if forwarded s.unack r.qos r.pid then retStore b.retained (pubMsg r) else b.retained := by
  rw [publishTail_eq]
  split
  · simp only
    rw [pubAck_retained, (enq_deliverMsg _ _ _ _ _).retained, pubRetain_retained]
    rfl
  · rw [pubAck_retained, pubDupQuota_retained]
    rfl

/-- the PUBLISH `r` is accepted in state `b` — it arrives on a connection that has a session, no refusal applies, and
    it is not a retransmission of a QoS 2 PUBLISH whose packet id still awaits PUBREL — and `m` is the message built
    from it (topic after alias resolution, QoS, RETAIN, DUP, payload tag and length, Message Expiry Interval) -/
def Accepted (b : B) (r : PubReq) (m : Msg) : Prop :=
  ∃ c s t c2, b.cli? r.conn = some c ∧ b.sess? c.cid = some s ∧ NotRefused b c r ∧
    aliasRes b.cfg (pubCli c r) r = .ok (t, c2) ∧ forwarded s.unack r.qos r.pid = true ∧
    m = pubMsg { r with topic := t }

/-- the PUBLISH `r` is a QoS 2 retransmission: not refused, but its packet id still awaits PUBREL -/
def Duplicate (b : B) (r : PubReq) : Prop :=
  ∃ c s, b.cli? r.conn = some c ∧ b.sess? c.cid = some s ∧ NotRefused b c r ∧ forwarded s.unack r.qos r.pid = false

/-- the PUBLISH `r` is refused: the connection is closed with a reason code -/
def Refused (b : B) (r : PubReq) : Prop := ∃ c, b.cli? r.conn = some c ∧ ¬ NotRefused b c r

theorem publish_of_notRefused (b : B) (r : PubReq) (c : Cli) (s : Sess) (hc : b.cli? r.conn = some c)
    (hs : b.sess? c.cid = some s) (hn : NotRefused b c r) :
    ∃ t c2, aliasRes b.cfg (pubCli c r) r = .ok (t, c2) ∧
      (b.publish r).retained =
        if forwarded s.unack r.qos r.pid then retStore b.retained (pubMsg { r with topic := t }) else b.retained := by
  rcases publish_cases b r c hc with ⟨hr, _⟩ | ⟨_, t, c2, hres, e⟩
  · exact absurd hn hr
  · refine ⟨t, c2, hres, ?_⟩
    rw [e, hs]
    exact publishTail_retained _ c2 _ s

theorem publish_accepted_retained {b : B} {r : PubReq} {m : Msg} (h : Accepted b r m) :
    (b.publish r).retained = retStore b.retained m := by
  obtain ⟨c, s, t, c2, hc, hs, hn, hres, hf, rfl⟩ := h
  obtain ⟨t', c2', hres', e⟩ := publish_of_notRefused b r c s hc hs hn
  rw [hres] at hres'
  cases hres'
  rw [e, if_pos hf]

theorem publish_duplicate_retained {b : B} {r : PubReq} (h : Duplicate b r) : (b.publish r).retained = b.retained := by
  obtain ⟨c, s, hc, hs, hn, hf⟩ := h
  obtain ⟨t', c2', _, e⟩ := publish_of_notRefused b r c s hc hs hn
  rw [e, hf]
  rfl

theorem publish_refused_willsOnly {b : B} {r : PubReq} (h : Refused b r) : WillsOnly b (b.publish r) := by
  obtain ⟨c, hc, hr⟩ := h
  rcases publish_cases b r c hc with ⟨_, b1, code, e, hb1⟩ | ⟨hn, _⟩
  · rw [e]
    rcases hb1 with rfl | rfl
    · exact ((Fired.refl b1).kick _ _).ret
    · exact (((Fired.refl b).setCli _).kick _ _).ret
  · exact absurd hn hr

/-- every PUBLISH: accepted (the message is stored), or the retained map changes by wills only (refusal closes the
    connection) — in particular not at all for a duplicate -/
theorem publish_retained_cases (b : B) (r : PubReq) :
    (∃ m, Accepted b r m ∧ (b.publish r).retained = retStore b.retained m) ∨ WillsOnly b (b.publish r) := by
  cases hc : b.cli? r.conn with
  | none =>
    refine .inr (.of_eq ?_)
    rw [publish_eq, hc]
  | some c =>
    by_cases hn : NotRefused b c r
    · cases hs : b.sess? c.cid with
      | none =>
        rcases publish_cases b r c hc with ⟨hr, _⟩ | ⟨_, t, c2, _, e⟩
        · exact absurd hn hr
        · refine .inr (.of_eq ?_)
          rw [e, hs]
          rfl
      | some s =>
        obtain ⟨t, c2, hres, e⟩ := publish_of_notRefused b r c s hc hs hn
        cases hf : forwarded s.unack r.qos r.pid with
        | true =>
          have ha : Accepted b r (pubMsg { r with topic := t }) := ⟨c, s, t, c2, hc, hs, hn, hres, hf, rfl⟩
          exact .inl ⟨_, ha, publish_accepted_retained ha⟩
        | false => exact .inr (.of_eq (publish_duplicate_retained ⟨c, s, hc, hs, hn, hf⟩))
    · exact .inr (publish_refused_willsOnly ⟨c, hc, hn⟩)

/-! ### `subscribe`, taken apart -/

/-- the Subscription Identifier in force for a SUBSCRIBE of connection `c` -/
def subIdOf (cfg : Cfg) (c : Cli) (idProp : Nat) : Nat := if c.v == 5 && cfg.subIdAvail then idProp else 0

/-- `subReq.Subscriptions` is a map keyed by the topic name: the LAST entry of the SUBSCRIBE with the name of `t`
    supplies the options of the subscription -/
def lastOf (topics : List SubTopic) (t : SubTopic) : SubTopic :=
  match (topics.filter (fun x => x.name == t.name)).getLast? with | some x => x | none => t

/-- the subscription record stored for the entry `t` of the SUBSCRIBE `topics` -/
def subOf (topics : List SubTopic) (subID : Nat) (t : SubTopic) : Sub :=
  { share := (splitShare t.name).1, filter := (splitShare t.name).2, qos := (lastOf topics t).qos,
    nl := (lastOf topics t).nl, rap := (lastOf topics t).rap, rh := (lastOf topics t).rh, id := subID }

/-- the SUBACK reason code of the entry `t` -/
def subCode (cfg : Cfg) (c : Cli) (topics : List SubTopic) (subID : Nat) (t : SubTopic) : Nat :=
  let code := (lastOf topics t).qos
  let code := if c.v == 5 && (splitShare t.name).1 != "" && !cfg.sharedAvail then 0x9E else code
  let code := if c.v == 5 && !cfg.subIdAvail && subID != 0 then 0xA1 else code
  if c.v == 5 && !cfg.wildAvail && hasWildcard (splitShare t.name).2 then 0xA2 else code

/-- client `cid` has a subscription with the share name and filter of `sub` -/
def hasSub (subs : List (String × Sub)) (cid : String) (sub : Sub) : Bool :=
  subs.any (fun cs => cs.1 == cid && cs.2.share == sub.share && cs.2.filter == sub.filter)

/-- the subscription table after `sub` was stored for `cid` (replacing the one with the same share name and filter) -/
def putSub (subs : List (String × Sub)) (cid : String) (sub : Sub) : List (String × Sub) :=
  subs.filter (fun cs => !(cs.1 == cid && cs.2.share == sub.share && cs.2.filter == sub.filter)) ++ [(cid, sub)]

/-- does the entry `t` replay retained messages: non-shared, and Retain Handling 0, or not 2 and the subscription
    is new -/
def replayGate (existed : Bool) (sub : Sub) (t : SubTopic) : Bool :=
  sub.share == "" && ((!existed && t.rh != 2) || t.rh == 0)

/-- the copy of the retained message `m` that is replayed for the subscription `sub` -/
def replayCopy (sub : Sub) (m : Msg) : Msg :=
  { m with qos := min m.qos sub.qos, dup := false, retained := sub.rap && m.retained }

/-- the queue element under which the copy `m'` is added to the subscriber's queue -/
def copyElem (now v tag : Nat) (m' : Msg) : Queue.Elem :=
  { tag := tag, pub := true, id := 0, qos := m'.qos,
    exp := if m'.expiry != 0 then some (now + m'.expiry * 1000) else none, size := totalBytes v m' }

/-- one replayed copy is logged and added to the queue of `c`'s session -/
def B.pushCopy (bb : B) (c : Cli) (m' : Msg) : B :=
  match bb.sess? c.cid with
  | none => bb
  | some s =>
    { (bb.setSess { s with queue := (s.queue.add bb.now (copyElem bb.now c.v bb.msgs.length m')).1 }) with
      msgs := bb.msgs ++ [m'], ats := bb.ats ++ [bb.now] }

/-- the copies the entry `t` (subscription record `sub`) replays from the retained map `ret`: the entries whose
    topic matches the filter, in map order, one copy each — or nothing if the gate is closed -/
def entryCopies (ret : List (String × Msg)) (existed : Bool) (sub : Sub) (t : SubTopic) : List Msg :=
  if replayGate existed sub t then (ret.filter (fun tm => subMatches sub tm.1)).map (fun tm => replayCopy sub tm.2) else []

/-- one entry of a SUBSCRIBE (the body of the loop of `B.subscribe`) -/
def subEntry (c : Cli) (subID : Nat) (topics : List SubTopic) (acc : B × List Nat) (t : SubTopic) : B × List Nat :=
  let b := acc.1
  let sub := subOf topics subID t
  let code := subCode b.cfg c topics subID t
  if code >= 0x80 then (b, acc.2 ++ [code])
  else
    let existed := hasSub b.subs c.cid sub
    let b := { b with subs := putSub b.subs c.cid sub }
    let b :=
      if replayGate existed sub t then
        match b.sess? c.cid with
        | none => b
        | some _ =>
          (b.retained.filter (fun tm => subMatches sub tm.1)).foldl (fun bb tm => bb.pushCopy c (replayCopy sub tm.2)) b
      else b
    (b, acc.2 ++ [code])

theorem subscribe_eq (b : B) (conn : String) (pid : Nat) (topics : List SubTopic) (idProp : Nat) :
    b.subscribe conn pid topics idProp =
      match b.cli? conn with
      | none => b
      | some c =>
        if c.v == 5 && !b.cfg.subIdAvail && subIdOf b.cfg c idProp != 0 then b.kick conn (some 0xA1)
        else
          (topics.foldl (subEntry c (subIdOf b.cfg c idProp) topics) (b, [])).1.emit conn false
            (.suback pid (topics.foldl (subEntry c (subIdOf b.cfg c idProp) topics) (b, [])).2) := by
  rfl

/-- the branch of `B.subscribe` that closes the connection with 0xA1 is dead: without `subscription_identifier_available`
    the identifier in force is 0 -/
theorem subscribe_no_kick (cfg : Cfg) (c : Cli) (idProp : Nat) :
    (c.v == 5 && !cfg.subIdAvail && subIdOf cfg c idProp != 0) = false := by
  unfold subIdOf
  cases c.v == 5 <;> cases cfg.subIdAvail <;> simp

/-- the queue after the copies were added one by one (tags count up from `tag`) -/
def pushQ (now v : Nat) : Queue.Q → Nat → List Msg → Queue.Q
  | q, _, [] => q
  | q, tag, m' :: ms => pushQ now v (q.add now (copyElem now v tag m')).1 (tag + 1) ms

theorem pushQ_append (now v : Nat) (q : Queue.Q) (tag : Nat) (l1 l2 : List Msg) :
    pushQ now v q tag (l1 ++ l2) = pushQ now v (pushQ now v q tag l1) (tag + l1.length) l2 := by
  induction l1 generalizing q tag with
  | nil => rfl
  | cons m ms ih =>
    simp only [List.cons_append, pushQ, List.length_cons]
    rw [ih]
    congr 1
    omega

def B.pushCopies (b : B) (c : Cli) (copies : List Msg) : B := copies.foldl (fun bb m' => bb.pushCopy c m') b

/-- `b'` is `b` after the copies were logged (`msgs`, `ats`) and added to the queue of the session `s` of `c`;
    nothing else differs (the order of the session list aside) -/
structure Pushed (c : Cli) (b : B) (s : Sess) (copies : List Msg) (b' : B) : Prop where
  retained : b'.retained = b.retained
  msgs : b'.msgs = b.msgs ++ copies
  ats : b'.ats = b.ats ++ List.replicate copies.length b.now
  sess : b'.sess? c.cid = some { s with queue := pushQ b.now c.v s.queue b.msgs.length copies }
  others : ∀ cid, cid ≠ c.cid → b'.sess? cid = b.sess? cid
  subs : b'.subs = b.subs
  cfg : b'.cfg = b.cfg
  now : b'.now = b.now
  clis : b'.clis = b.clis
  offline : b'.offline = b.offline
  pendingWills : b'.pendingWills = b.pendingWills
  out : b'.out = b.out

theorem Pushed.nil (c : Cli) (b : B) (s : Sess) (hs : b.sess? c.cid = some s) : Pushed c b s [] b :=
  ⟨rfl, by simp, by simp, hs, fun _ _ => rfl, rfl, rfl, rfl, rfl, rfl, rfl, rfl⟩

theorem Pushed.trans {c : Cli} {b b1 b2 : B} {s : Sess} {l1 l2 : List Msg} (h1 : Pushed c b s l1 b1)
    (h2 : Pushed c b1 { s with queue := pushQ b.now c.v s.queue b.msgs.length l1 } l2 b2) : Pushed c b s (l1 ++ l2) b2 := by
  refine ⟨h2.retained.trans h1.retained, ?_, ?_, ?_, fun cid hne => (h2.others cid hne).trans (h1.others cid hne),
    h2.subs.trans h1.subs, h2.cfg.trans h1.cfg, h2.now.trans h1.now, h2.clis.trans h1.clis, h2.offline.trans h1.offline,
    h2.pendingWills.trans h1.pendingWills, h2.out.trans h1.out⟩
  · rw [h2.msgs, h1.msgs, List.append_assoc]
  · rw [h2.ats, h1.ats, h1.now, List.length_append, List.append_assoc, List.replicate_append_replicate]
  · rw [h2.sess, h1.now, h1.msgs, List.length_append, pushQ_append]

theorem Pushed.setSubs {c : Cli} {b b1 : B} {s : Sess} {l : List Msg} (h : Pushed c b s l b1) (x : List (String × Sub)) :
    Pushed c { b with subs := x } s l { b1 with subs := x } :=
  ⟨h.retained, h.msgs, h.ats, h.sess, h.others, rfl, h.cfg, h.now, h.clis, h.offline, h.pendingWills, h.out⟩

theorem pushCopy_spec (c : Cli) (b : B) (s : Sess) (hs : b.sess? c.cid = some s) (m' : Msg) :
    Pushed c b s [m'] (b.pushCopy c m') := by
  have hcid : s.cid = c.cid := (sess?_some hs).2
  unfold B.pushCopy
  rw [hs]
  refine ⟨rfl, rfl, rfl, ?_, fun cid hne => ?_, rfl, rfl, rfl, rfl, rfl, rfl, rfl⟩
  · show (b.setSess _).sess? c.cid = _
    rw [sess?_setSess, if_pos hcid]
    rfl
  · show (b.setSess _).sess? cid = _
    rw [sess?_setSess, if_neg (by rw [hcid]; exact fun e => hne e.symm)]

theorem pushCopies_spec (c : Cli) (copies : List Msg) (b : B) (s : Sess) (hs : b.sess? c.cid = some s) :
    Pushed c b s copies (b.pushCopies c copies) := by
  induction copies generalizing b s with
  | nil => exact Pushed.nil c b s hs
  | cons m ms ih =>
    have h1 := pushCopy_spec c b s hs m
    exact h1.trans (ih _ _ h1.sess)

/-- one entry of a SUBSCRIBE: its reason code; if refused nothing changes; if granted the subscription is stored and
    the copies `entryCopies` of the retained messages are pushed -/
theorem subEntry_spec (c : Cli) (subID : Nat) (topics : List SubTopic) (acc : B × List Nat) (t : SubTopic) (s : Sess)
    (hs : acc.1.sess? c.cid = some s) :
    (subEntry c subID topics acc t).2 = acc.2 ++ [subCode acc.1.cfg c topics subID t] ∧
    (subCode acc.1.cfg c topics subID t ≥ 0x80 → (subEntry c subID topics acc t).1 = acc.1) ∧
    (¬ subCode acc.1.cfg c topics subID t ≥ 0x80 →
      Pushed c { acc.1 with subs := putSub acc.1.subs c.cid (subOf topics subID t) } s
        (entryCopies acc.1.retained (hasSub acc.1.subs c.cid (subOf topics subID t)) (subOf topics subID t) t)
        (subEntry c subID topics acc t).1) := by
  unfold subEntry
  simp only
  by_cases hcode : subCode acc.1.cfg c topics subID t ≥ 0x80
  · rw [if_pos hcode]
    exact ⟨rfl, fun _ => rfl, fun h => absurd hcode h⟩
  · rw [if_neg hcode]
    refine ⟨rfl, fun h => absurd h hcode, fun _ => ?_⟩
    simp only
    have hs' : ({ acc.1 with subs := putSub acc.1.subs c.cid (subOf topics subID t) } : B).sess? c.cid = some s := hs
    unfold entryCopies
    split
    · rw [hs']
      simp only
      have e := pushCopies_spec c ((acc.1.retained.filter (fun tm => subMatches (subOf topics subID t) tm.1)).map
        (fun tm => replayCopy (subOf topics subID t) tm.2)) _ s hs'
      unfold B.pushCopies at e
      rw [List.foldl_map] at e
      exact e
    · exact Pushed.nil c _ s hs'

/-- the subscription table after the entries `ts` were processed -/
def subsAfter (cfg : Cfg) (c : Cli) (topics : List SubTopic) (subID : Nat) :
    List (String × Sub) → List SubTopic → List (String × Sub)
  | subs, [] => subs
  | subs, t :: ts =>
    if subCode cfg c topics subID t ≥ 0x80 then subsAfter cfg c topics subID subs ts
    else subsAfter cfg c topics subID (putSub subs c.cid (subOf topics subID t)) ts

/-- the copies replayed by each of the entries `ts`, entry by entry (a refused entry replays nothing) -/
def subCopiesL (cfg : Cfg) (c : Cli) (topics : List SubTopic) (subID : Nat) (ret : List (String × Msg)) :
    List (String × Sub) → List SubTopic → List (List Msg)
  | _, [] => []
  | subs, t :: ts =>
    if subCode cfg c topics subID t ≥ 0x80 then [] :: subCopiesL cfg c topics subID ret subs ts
    else entryCopies ret (hasSub subs c.cid (subOf topics subID t)) (subOf topics subID t) t ::
      subCopiesL cfg c topics subID ret (putSub subs c.cid (subOf topics subID t)) ts

theorem subFold_spec (c : Cli) (subID : Nat) (topics ts : List SubTopic) (acc : B × List Nat) (s : Sess)
    (hs : acc.1.sess? c.cid = some s) :
    (ts.foldl (subEntry c subID topics) acc).2 = acc.2 ++ ts.map (subCode acc.1.cfg c topics subID) ∧
    Pushed c { acc.1 with subs := subsAfter acc.1.cfg c topics subID acc.1.subs ts } s
      (subCopiesL acc.1.cfg c topics subID acc.1.retained acc.1.subs ts).flatten
      (ts.foldl (subEntry c subID topics) acc).1 := by
  induction ts generalizing acc s with
  | nil => exact ⟨by simp, Pushed.nil c _ s hs⟩
  | cons t ts ih =>
    obtain ⟨h2, href, hgr⟩ := subEntry_spec c subID topics acc t s hs
    rw [List.foldl_cons]
    by_cases hcode : subCode acc.1.cfg c topics subID t ≥ 0x80
    · have e1 := href hcode
      obtain ⟨ih2, ihp⟩ := ih (subEntry c subID topics acc t) s (by rw [e1]; exact hs)
      rw [e1] at ih2 ihp
      refine ⟨?_, ?_⟩
      · rw [ih2, h2]; simp
      · simp only [subsAfter, subCopiesL, if_pos hcode, List.flatten_cons, List.nil_append]
        exact ihp
    · have hp := hgr hcode
      obtain ⟨ih2, ihp⟩ := ih (subEntry c subID topics acc t) _ hp.sess
      rw [hp.cfg, hp.retained, hp.subs] at ihp
      rw [hp.cfg] at ih2
      refine ⟨?_, ?_⟩
      · rw [ih2, h2]; simp
      · simp only [subsAfter, subCopiesL, if_neg hcode, List.flatten_cons]
        exact (hp.setSubs _).trans ihp

/-- a whole SUBSCRIBE of a connection that has a session -/
theorem subscribe_spec (b : B) (conn : String) (pid : Nat) (topics : List SubTopic) (idProp : Nat) (c : Cli) (s : Sess)
    (hc : b.cli? conn = some c) (hs : b.sess? c.cid = some s) :
    ∃ b1, b.subscribe conn pid topics idProp =
        b1.emit conn false (.suback pid (topics.map (subCode b.cfg c topics (subIdOf b.cfg c idProp)))) ∧
      Pushed c { b with subs := subsAfter b.cfg c topics (subIdOf b.cfg c idProp) b.subs topics } s
        (subCopiesL b.cfg c topics (subIdOf b.cfg c idProp) b.retained b.subs topics).flatten b1 := by
  obtain ⟨h2, hp⟩ := subFold_spec c (subIdOf b.cfg c idProp) topics topics (b, []) s hs
  refine ⟨_, ?_, hp⟩
  rw [subscribe_eq, hc]
  simp only [subscribe_no_kick, Bool.false_eq_true, if_false, h2, List.nil_append]

theorem subscribe_retained (b : B) (conn : String) (pid : Nat) (topics : List SubTopic) (idProp : Nat) :
    (b.subscribe conn pid topics idProp).retained = b.retained := by
  rw [subscribe_eq]
  cases hc : b.cli? conn with
  | none => rfl
  | some c =>
    simp only [subscribe_no_kick, Bool.false_eq_true, if_false]
    show (List.foldl (subEntry c (subIdOf b.cfg c idProp) topics) (b, []) topics).1.retained = b.retained
    suffices h : ∀ (l : List SubTopic) (acc : B × List Nat),
        (l.foldl (subEntry c (subIdOf b.cfg c idProp) topics) acc).1.retained = acc.1.retained from h topics (b, [])
    intro l
    induction l with
    | nil => intro acc; rfl
    | cons t ts ih =>
      intro acc
      rw [List.foldl_cons, ih]
      unfold subEntry
      simp only
      split
      · rfl
      · simp only
        split
        · split
          · rfl
          · refine foldl_retained _ ?_ _ _
            intro bb tm
            unfold B.pushCopy
            split <;> rfl
        · rfl

/-! ### which entry sees the subscription as existing -/

theorem subCopiesL_length (cfg : Cfg) (c : Cli) (topics : List SubTopic) (subID : Nat) (ret : List (String × Msg))
    (subs : List (String × Sub)) (ts : List SubTopic) : (subCopiesL cfg c topics subID ret subs ts).length = ts.length := by
  induction ts generalizing subs with
  | nil => rfl
  | cons t ts ih =>
    unfold subCopiesL
    split <;> simp [ih]

/-- the copies replayed by the entry `t` that follows the entries `pre` -/
theorem subCopiesL_at (cfg : Cfg) (c : Cli) (topics : List SubTopic) (subID : Nat) (ret : List (String × Msg))
    (subs : List (String × Sub)) (pre : List SubTopic) (t : SubTopic) (post : List SubTopic) :
    (subCopiesL cfg c topics subID ret subs (pre ++ t :: post))[pre.length]? =
      some (if subCode cfg c topics subID t ≥ 0x80 then []
            else entryCopies ret (hasSub (subsAfter cfg c topics subID subs pre) c.cid (subOf topics subID t))
                   (subOf topics subID t) t) := by
  induction pre generalizing subs with
  | nil =>
    simp only [List.nil_append, List.length_nil, subsAfter]
    unfold subCopiesL
    split <;> simp
  | cons x xs ih =>
    simp only [List.cons_append, List.length_cons]
    unfold subCopiesL subsAfter
    split
    · simp only [List.getElem?_cons_succ]; exact ih subs
    · simp only [List.getElem?_cons_succ]; exact ih _

theorem hasSub_putSub (subs : List (String × Sub)) (cid : String) (sub' sub : Sub) :
    hasSub (putSub subs cid sub') cid sub =
      (hasSub subs cid sub || (sub'.share == sub.share && sub'.filter == sub.filter)) := by
  unfold hasSub putSub
  rw [List.any_append]
  simp only [List.any_cons, List.any_nil, beq_self_eq_true, Bool.true_and, Bool.or_false]
  by_cases hk : (sub'.share == sub.share && sub'.filter == sub.filter) = true
  · rw [hk]; simp
  · have hk' : (sub'.share == sub.share && sub'.filter == sub.filter) = false := by simpa using hk
    rw [hk', Bool.or_false, Bool.or_false]
    induction subs with
    | nil => rfl
    | cons x xs ih =>
      rw [List.filter_cons]
      by_cases hx : (x.1 == cid && x.2.share == sub.share && x.2.filter == sub.filter) = true
      · have hne : (x.1 == cid && x.2.share == sub'.share && x.2.filter == sub'.filter) = false := by
          rw [Bool.eq_false_iff]
          intro h'
          apply hk
          simp only [Bool.and_eq_true, beq_iff_eq] at hx h' ⊢
          exact ⟨by rw [← h'.1.2, hx.1.2], by rw [← h'.2, hx.2]⟩
        simp only [hne, Bool.not_false, if_true, List.any_cons, hx, Bool.true_or]
      · have hx' : (x.1 == cid && x.2.share == sub.share && x.2.filter == sub.filter) = false := by simpa using hx
        split
        · simp only [List.any_cons, hx', Bool.false_or]; exact ih
        · simp only [List.any_cons, hx', Bool.false_or]; exact ih

/-- an entry finds its subscription existing iff it was in the table before the SUBSCRIBE or an earlier granted entry
    of the same SUBSCRIBE has the same share name and filter -/
theorem hasSub_subsAfter (cfg : Cfg) (c : Cli) (topics : List SubTopic) (subID : Nat) (subs : List (String × Sub))
    (pre : List SubTopic) (sub : Sub) :
    hasSub (subsAfter cfg c topics subID subs pre) c.cid sub =
      (hasSub subs c.cid sub ||
        pre.any (fun x => !(decide (subCode cfg c topics subID x ≥ 0x80)) &&
          ((splitShare x.name).1 == sub.share && (splitShare x.name).2 == sub.filter))) := by
  induction pre generalizing subs with
  | nil => simp [subsAfter]
  | cons x xs ih =>
    unfold subsAfter
    by_cases hcode : subCode cfg c topics subID x ≥ 0x80
    · rw [if_pos hcode, ih]
      simp [hcode]
    · rw [if_neg hcode, ih, hasSub_putSub]
      simp only [List.any_cons, hcode, decide_false, Bool.not_false, Bool.true_and, Bool.or_assoc]
      rfl

theorem lastOf_mem (topics : List SubTopic) (t : SubTopic) (ht : t ∈ topics) :
    lastOf topics t ∈ topics ∧ (lastOf topics t).name = t.name := by
  unfold lastOf
  cases h : (topics.filter (fun x => x.name == t.name)).getLast? with
  | none =>
    have : t ∈ topics.filter (fun x => x.name == t.name) := List.mem_filter.2 ⟨ht, by simp⟩
    rw [List.getLast?_eq_none_iff] at h
    rw [h] at this
    cases this
  | some x =>
    have hx := List.mem_filter.1 (List.mem_of_getLast? h)
    exact ⟨hx.1, by simpa using hx.2⟩

/-- when the name of the entry occurs once in the SUBSCRIBE the entry supplies its own options -/
theorem lastOf_unique (topics : List SubTopic) (t : SubTopic) (ht : t ∈ topics)
    (hu : ∀ x ∈ topics, x.name = t.name → x = t) : lastOf topics t = t :=
  hu _ (lastOf_mem topics t ht).1 (lastOf_mem topics t ht).2

/-- a granted entry is acknowledged with the QoS of the stored subscription -/
theorem subCode_granted (cfg : Cfg) (c : Cli) (topics : List SubTopic) (subID : Nat) (t : SubTopic)
    (h : ¬ subCode cfg c topics subID t ≥ 0x80) : subCode cfg c topics subID t = (subOf topics subID t).qos := by
  unfold subCode at h ⊢
  simp only at h ⊢
  split at h
  · omega
  · next h3 =>
    rw [if_neg h3] at *
    split at h
    · omega
    · next h2 =>
      rw [if_neg h2] at *
      split at h
      · omega
      · next h1 => rw [if_neg h1]; rfl

/-- every per-entry list of `subCopiesL` is empty (refused entry) or the `entryCopies` of one of the entries -/
theorem mem_subCopiesL (cfg : Cfg) (c : Cli) (topics : List SubTopic) (subID : Nat) (ret : List (String × Msg))
    (subs : List (String × Sub)) (ts : List SubTopic) (l : List Msg)
    (h : l ∈ subCopiesL cfg c topics subID ret subs ts) :
    l = [] ∨ ∃ t ∈ ts, ∃ existed, l = entryCopies ret existed (subOf topics subID t) t := by
  induction ts generalizing subs with
  | nil => cases h
  | cons x xs ih =>
    unfold subCopiesL at h
    split at h
    · rcases List.mem_cons.1 h with rfl | h
      · exact .inl rfl
      · rcases ih subs h with e | ⟨t, ht, ex, e⟩
        · exact .inl e
        · exact .inr ⟨t, List.mem_cons_of_mem _ ht, ex, e⟩
    · rcases List.mem_cons.1 h with rfl | h
      · exact .inr ⟨x, List.mem_cons_self, _, rfl⟩
      · rcases ih _ h with e | ⟨t, ht, ex, e⟩
        · exact .inl e
        · exact .inr ⟨t, List.mem_cons_of_mem _ ht, ex, e⟩

/-- the topic the alias step resolves to: the topic name of the packet if it has one, else the name bound to its alias -/
theorem aliasRes_topic {cfg : Cfg} {c : Cli} {r : PubReq} {t : String} {c2 : Cli} (h : aliasRes cfg c r = .ok (t, c2)) :
    (r.topic ≠ "" → t = r.topic) ∧
    (r.topic = "" → ∃ a p, r.alias = some a ∧ c.aliasIn.find? (fun p => p.1 == a) = some p ∧ t = p.2) := by
  unfold aliasRes at h
  by_cases ht : r.topic = ""
  · have ht' : (r.topic == "") = true := by simpa using ht
    refine ⟨fun hne => absurd ht hne, fun _ => ?_⟩
    split at h
    · split at h
      · next a ha =>
        split at h
        · cases h
        · split at h
          · next p1 t1 hf =>
            split at h
            · cases h
            · simp only [Except.ok.injEq, Prod.mk.injEq] at h
              exact ⟨a, (p1, t1), ha, hf, h.1.symm⟩
          · cases h
      · cases h
    · cases h
  · have ht' : (r.topic == "") = false := by simpa using ht
    refine ⟨fun _ => ?_, fun h0 => absurd h0 ht⟩
    split at h
    · split at h
      · split at h
        · cases h
        · simp only [ht', Bool.false_eq_true, if_false, Except.ok.injEq, Prod.mk.injEq] at h
          exact h.1.symm
      · simp only [ht', Bool.false_eq_true, if_false, Except.ok.injEq, Prod.mk.injEq] at h
        exact h.1.symm
    · simp only [ht', Bool.false_eq_true, if_false, Except.ok.injEq, Prod.mk.injEq] at h
      exact h.1.symm

/-! ### every wire step -/

/-- a wire step changes the retained map either by storing the message of the accepted PUBLISH it is, or by storing
    wills registered before the step (a connection ends, a session ends, a delayed will falls due) — or not at all -/
theorem step_retained (b : B) (st : Step) :
    (∃ r m, st = .publish r ∧ Accepted b r m ∧ (stepB b st).retained = retStore b.retained m) ∨
    WillsOnly b (stepB b st) := by
  cases st with
  | connect r =>
    simp only [stepB]
    split
    · exact .inr (.of_eq rfl)
    · exact .inr (willsOnly_connect b r)
  | subscribe c p t i => exact .inr (.of_eq (subscribe_retained b c p t i))
  | unsubscribe c p t => exact .inr (.of_eq (unsubscribe_retained b c p t))
  | publish r =>
    rcases publish_retained_cases b r with ⟨m, ha, e⟩ | h
    · exact .inl ⟨r, m, rfl, ha, e⟩
    · exact .inr h
  | pubrel c p => exact .inr (.of_eq (pubrelIn_retained b c p))
  | ack c i => exact .inr (.of_eq (ackOut_retained b c i))
  | pubrec c i k => exact .inr (.of_eq (pubrecOut_retained b c i k))
  | disconnect c se code => exact .inr (.of_eq (disconnectIn_retained b c se code))
  | close c => exact .inr ((Fired.refl b).closeIn c).ret
  | apiPublish m => exact .inr (.of_eq (apiPublish_retained b m))
  | apiTerminate cid => exact .inr ((Fired.refl b).apiTerminate cid).ret
  | apiExpire => exact .inr (Fired.refl b).apiExpire.ret
  | apiBackdate cid s => exact .inr (.of_eq (apiBackdate_retained b cid s))
  | sleep ms => exact .inr ((Fired.refl b).sleep ms).ret
  | pump => exact .inr (.of_eq (pumpAll_retained b))

theorem step_retained_fold (b : B) (st : Step) :
    ∃ ms : List Msg, (stepB b st).retained = ms.foldl retStore b.retained := by
  rcases step_retained b st with ⟨_, m, _, _, e⟩ | ⟨ws, _, e⟩
  · exact ⟨[m], e⟩
  · exact ⟨ws, e⟩

theorem retOK_step {b : B} (h : RetOK b.retained) (st : Step) : RetOK (stepB b st).retained := by
  obtain ⟨ms, e⟩ := step_retained_fold b st
  rw [e]
  exact h.foldl ms

theorem retOK_run {b : B} (h : RetOK b.retained) (steps : List Step) : RetOK (runB b steps).retained := by
  induction steps generalizing b with
  | nil => exact h
  | cons s ss ih => exact ih (retOK_step h s)

theorem reachable_retOK (cfg : Cfg) (steps : List Step) : RetOK (runB { cfg := cfg } steps).retained :=
  retOK_run retOK_nil steps

/-! ### histories -/

/-- a history of wire steps from `b` to `b'` during which the retained map is changed by accepted PUBLISHes only:
    every step is an accepted PUBLISH (its message is listed) or a step that leaves the retained map as it is -/
inductive PubHist : B → List Step → List Msg → B → Prop
  | nil (b : B) : PubHist b [] [] b
  | accepted {b : B} {r : PubReq} {m : Msg} {ss : List Step} {ms : List Msg} {b' : B} :
      Accepted b r m → PubHist (b.publish r) ss ms b' → PubHist b (.publish r :: ss) (m :: ms) b'
  | quiet {b : B} {st : Step} {ss : List Step} {ms : List Msg} {b' : B} :
      (stepB b st).retained = b.retained → PubHist (stepB b st) ss ms b' → PubHist b (st :: ss) ms b'

theorem PubHist.run {b b' : B} {ss : List Step} {ms : List Msg} (h : PubHist b ss ms b') :
    b' = runB b ss ∧ b'.retained = ms.foldl retStore b.retained := by
  induction h with
  | nil b => exact ⟨rfl, rfl⟩
  | accepted ha _ ih => exact ⟨ih.1, by rw [ih.2, publish_accepted_retained ha]; rfl⟩
  | quiet hq _ ih => exact ⟨ih.1, by rw [ih.2, hq]⟩

end GmqttVerif.Broker
