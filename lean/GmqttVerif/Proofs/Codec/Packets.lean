import GmqttVerif.Model.Codec.Size
import GmqttVerif.Proofs.Codec.Props
/-
  Packet layer: framing (`ReadPacket` / `FixHeader.Pack`), no over-read, sizes, and the per-type round trips.
-/
namespace GmqttVerif.Codec

/-! ### framing -/

theorem withWindow_ok {n : Nat} {stream : Bytes} {e : Err} {f : Bytes → Except Err Packet} (h : n ≤ stream.length) :
    withWindow n stream e f = { res := f (stream.take n), rest := stream.drop n } := by
  simp [withWindow, Nat.not_lt.mpr h]

theorem withWindow_append (body ext : Bytes) (e : Err) (f : Bytes → Except Err Packet) :
    withWindow body.length (body ++ ext) e f = { res := f body, rest := ext } := by
  rw [withWindow_ok (by simp)]
  simp

/-- the bytes `Pack` writes: first byte, remaining length, body -/
theorem frame_eq (t fl : Nat) (body : Bytes) (h : body.length < 268435456) :
    frame t fl body = .ok ((t * 16 % 256 + fl) :: (vbiDigits 4 body.length ++ body)) := by
  simp [frame, packFixHeader, encVbi, h]

/-- `ReadPacket` on a framed body: the fixed header is split off and exactly the body is handed to `NewPacket` -/
theorem readPacket_frame (t fl : Nat) (body ext : Bytes) (v : Nat) (ht : t < 16) (hfl : fl < 16)
    (h : body.length < 268435456) :
    readPacket v (((t * 16 % 256 + fl) :: (vbiDigits 4 body.length ++ body)) ++ ext)
      = newPacket t fl body.length v (body ++ ext) := by
  simp only [List.cons_append, List.append_assoc, readPacket]
  rw [decVbi_vbiDigits _ h]
  have e1 : (t * 16 % 256 + fl) / 16 = t := by omega
  have e2 : (t * 16 % 256 + fl) % 16 = fl := by omega
  rw [e1, e2]

/-- `size_exact`, packet side: `TotalBytes` after `Pack` (which caches `RemainLength = len(body)`) is the number of bytes written -/
theorem totalBytes_frame (t fl : Nat) (body out : Bytes) (h : frame t fl body = .ok out) :
    totalBytes body.length = out.length := by
  by_cases hl : body.length < 268435456
  · rw [frame_eq t fl body hl] at h
    cases h
    simp only [List.length_cons, List.length_append, vbiDigits_length _ hl]
    unfold totalBytes vbiLen
    split <;> (try split) <;> (try split) <;> (try split) <;> omega
  · simp [frame, packFixHeader, encVbi, hl] at h

/-! ### no over-read -/

/-- a packet is only ever completed without reading a body when the declared Remaining Length is 0 -/
theorem planOf_done {pt fl n v : Nat} {p : Packet} (h : planOf pt fl n v = .done p) : n = 0 := by
  unfold planOf at h
  by_cases c1 : pt = tCONNECT
  · rw [if_pos c1] at h; split at h <;> cases h
  rw [if_neg c1] at h
  by_cases c2 : pt = tCONNACK
  · rw [if_pos c2] at h; split at h <;> cases h
  rw [if_neg c2] at h
  by_cases c3 : pt = tPUBLISH
  · rw [if_pos c3] at h
    simp only at h
    split at h
    · cases h
    · split at h <;> cases h
  rw [if_neg c3] at h
  by_cases c4 : pt = tPUBACK
  · rw [if_pos c4] at h; cases h
  rw [if_neg c4] at h
  by_cases c5 : pt = tPUBREC
  · rw [if_pos c5] at h; cases h
  rw [if_neg c5] at h
  by_cases c6 : pt = tPUBREL
  · rw [if_pos c6] at h; cases h
  rw [if_neg c6] at h
  by_cases c7 : pt = tPUBCOMP
  · rw [if_pos c7] at h; cases h
  rw [if_neg c7] at h
  by_cases c8 : pt = tSUBSCRIBE
  · rw [if_pos c8] at h; split at h <;> cases h
  rw [if_neg c8] at h
  by_cases c9 : pt = tSUBACK
  · rw [if_pos c9] at h; split at h <;> cases h
  rw [if_neg c9] at h
  by_cases c10 : pt = tUNSUBSCRIBE
  · rw [if_pos c10] at h; split at h <;> cases h
  rw [if_neg c10] at h
  by_cases c11 : pt = tUNSUBACK
  · rw [if_pos c11] at h; split at h <;> cases h
  rw [if_neg c11] at h
  by_cases c12 : pt = tPINGREQ
  · rw [if_pos c12] at h
    split at h
    · cases h
    · split at h
      · cases h
      · rename_i hn; simpa using hn
  rw [if_neg c12] at h
  by_cases c13 : pt = tPINGRESP
  · rw [if_pos c13] at h
    split at h
    · cases h
    · split at h
      · cases h
      · rename_i hn; simpa using hn
  rw [if_neg c13] at h
  by_cases c14 : pt = tDISCONNECT
  · rw [if_pos c14] at h; split at h <;> cases h
  rw [if_neg c14] at h
  by_cases c15 : pt = tAUTH
  · rw [if_pos c15] at h
    split at h
    · cases h
    · split at h
      · rename_i hn; exact hn
      · cases h
  rw [if_neg c15] at h
  cases h

theorem runPlan_spec (n : Nat) (stream : Bytes) (plan : Plan) (hdone : ∀ p, plan = .done p → n = 0) :
    (∃ pre, stream = pre ++ (runPlan n stream plan).rest) ∧
    ∀ p, (runPlan n stream plan).res = .ok p →
      n ≤ stream.length ∧ (runPlan n stream plan).rest = stream.drop n ∧
      ∀ ext, runPlan n (stream.take n ++ ext) plan = { res := .ok p, rest := ext } := by
  cases plan with
  | fail e =>
    refine ⟨⟨[], rfl⟩, fun p hp => ?_⟩
    simp [runPlan] at hp
  | done q =>
    have h0 := hdone q rfl
    subst h0
    refine ⟨⟨[], rfl⟩, fun p hp => ?_⟩
    simp only [runPlan] at hp
    cases hp
    exact ⟨by omega, by simp [runPlan], fun ext => by simp [runPlan]⟩
  | window e f =>
    simp only [runPlan]
    by_cases hl : n ≤ stream.length
    · rw [withWindow_ok hl]
      refine ⟨⟨stream.take n, (List.take_append_drop n stream).symm⟩, fun p hp => ⟨hl, rfl, fun ext => ?_⟩⟩
      have : (stream.take n).length = n := by simp [List.length_take, Nat.min_eq_left hl]
      have e := withWindow_append (stream.take n) ext e f
      rw [this] at e
      rw [e]
      simp only at hp
      rw [hp]
    · refine ⟨⟨stream, by simp [withWindow, Nat.not_le.mp hl]⟩, fun p hp => ?_⟩
      simp [withWindow, Nat.not_le.mp hl] at hp

/-- `decode_no_overread`: `ReadPacket` consumes a prefix of the stream and returns exactly the rest. When it returns a
    packet, the prefix is the first byte, the Remaining Length field `vbi` and exactly the `n` declared body bytes
    (`consumed = 1 + len(vbi) + n`), and — provided the length field was complete — the result is the same whatever
    follows the packet: no byte behind the declared length is ever inspected. -/
theorem readPacket_no_overread (v : Nat) (bs : Bytes) :
    (∃ pre, bs = pre ++ (readPacket v bs).rest) ∧
    ∀ p, (readPacket v bs).res = .ok p →
      ∃ first vbi window n, bs = first :: (vbi ++ (window ++ (readPacket v bs).rest)) ∧ window.length = n
        ∧ decVbi (vbi ++ (window ++ (readPacket v bs).rest)) = .ok (n, window ++ (readPacket v bs).rest)
        ∧ (VbiTerminated vbi → ∀ ext, readPacket v (first :: (vbi ++ (window ++ ext))) = { res := .ok p, rest := ext }) := by
  cases bs with
  | nil =>
    refine ⟨⟨[], rfl⟩, fun p hp => ?_⟩
    simp [readPacket] at hp
  | cons first s1 =>
    simp only [readPacket]
    cases hd : decVbi s1 with
    | error e =>
      simp only
      refine ⟨?_, fun p hp => by cases hp⟩
      -- the failing length field: what is left is a suffix of the input
      have : ∀ (l : Bytes) (a m : Nat), ∃ pre, l = pre ++ vbiErrRest l a m := by
        intro l
        induction l with
        | nil => intro a m; exact ⟨[], rfl⟩
        | cons d t ih =>
          intro a m
          simp only [vbiErrRest]
          split
          · exact ⟨[d], rfl⟩
          · split
            · exact ⟨[d], rfl⟩
            · obtain ⟨pre, hp⟩ := ih (a ||| shl32 (d % 128) m) ((m + 7) % 4294967296)
              exact ⟨d :: pre, by rw [List.cons_append, ← hp]⟩
      obtain ⟨pre, hp⟩ := this s1 0 0
      exact ⟨first :: pre, by rw [List.cons_append, ← hp]⟩
    | ok r =>
      obtain ⟨n, s2⟩ := r
      simp only
      obtain ⟨vbi, hvbi, hcase⟩ := decVbiAux_prefix s1 0 0 n s2 hd
      have hspec := runPlan_spec n s2 (planOf (first / 16) (first % 16) n v) (fun p hp => planOf_done hp)
      obtain ⟨⟨pre, hpre⟩, hok⟩ := hspec
      refine ⟨⟨first :: (vbi ++ pre), ?_⟩, fun p hp => ?_⟩
      · simp only [newPacket]
        rw [List.cons_append, List.append_assoc, ← hpre, ← hvbi]
      · simp only [newPacket] at hp ⊢
        obtain ⟨hlen, hrest, hext⟩ := hok p hp
        refine ⟨first, vbi, s2.take n, n, ?_, by simp [List.length_take, Nat.min_eq_left hlen], ?_, ?_⟩
        · rw [hrest, List.take_append_drop, ← hvbi]
        · rw [hrest, List.take_append_drop, ← hvbi]; exact hd
        · intro hterm ext
          rcases hcase with ⟨_, hind⟩ | ⟨_, hnt⟩
          · have hdv : decVbi (vbi ++ (s2.take n ++ ext)) = .ok (n, s2.take n ++ ext) := hind (s2.take n ++ ext)
            rw [hdv]
            exact hext ext
          · exact (hnt hterm).elim

/-! ### well-formed packet values (what `encode_decode` needs, and what every accepted packet satisfies) -/

/-- optional property set of a packet: present and well-formed exactly for v5 -/
def WFOptProps (v t : Nat) (ps : Option Props) : Prop :=
  if v = v5 then ∃ l, ps = some l ∧ WFProps (some t) l else ps = none

/-- PUBACK / PUBREC / PUBCOMP of packet type `t`, as read or written under reader version `v` -/
def WFAck (v t : Nat) (a : Ack) : Prop :=
  a.version = v ∧ a.pid < 65536 ∧ a.code < 256 ∧
    (if v = v5 then (a.props = none → a.code = 0) ∧ (∀ l, a.props = some l → WFProps (some t) l)
     else a.code = 0 ∧ a.props = none) ∧
    (ackBody a).length < 268435456

/-- PUBREL has no version field in gmqtt: properties are read and written under every reader version -/
def WFPubrel (a : Ack) : Prop :=
  a.version = 0 ∧ a.pid < 65536 ∧ a.code < 256 ∧ (a.props = none → a.code = 0)
    ∧ (∀ l, a.props = some l → WFProps (some tPUBREL) l) ∧ (pubrelBody a).length < 268435456

theorem packProps_none : packProps none = [0] := by
  simp [packProps, encVbiOrNil, encVbi, vbiDigits]

theorem unpackProps_nil (t : Option Nat) : unpackProps t [] = .ok ([], []) := by
  simp [unpackProps, decVbi, decVbiAux, vbiMax]

theorem ack_encode_decode (v t : Nat) (a : Ack) (h : WFAck v t a) :
    unpackAck t v (ackBody a).length (ackBody a) = .ok a := by
  obtain ⟨hv, hpid, hcode, hcase, hlen⟩ := h
  obtain ⟨av, pid, code, props⟩ := a
  simp only at hv hpid hcode hcase
  subst hv
  by_cases h5 : av = v5
  · rw [if_pos h5] at hcase
    obtain ⟨hnone, hsome⟩ := hcase
    cases props with
    | none =>
      have hc := hnone rfl
      subst hc
      simp [ackBody, unpackAck, writeU16, readU16, h5]
      omega
    | some l =>
      have hw := hsome l rfl
      have hb : ackBody ⟨av, pid, code, some l⟩ = writeU16 pid ++ code :: packProps (some l) := by
        simp [ackBody, h5]
      rw [hb]
      have hlen2 : (writeU16 pid ++ code :: packProps (some l)).length ≠ 2 := by
        simp [writeU16]
      simp only [unpackAck, readU16_writeU16 pid hpid, hlen2, if_false, h5, if_true]
      have := unpackProps_packProps (some t) l hw []
      simp only [List.append_nil] at this
      rw [this]
  · rw [if_neg h5] at hcase
    obtain ⟨hc, hp⟩ := hcase
    subst hc; subst hp
    simp [ackBody, unpackAck, writeU16, readU16, h5]
    omega

theorem pubrel_encode_decode (a : Ack) (h : WFPubrel a) :
    unpackPubrel (pubrelBody a).length (pubrelBody a) = .ok a := by
  obtain ⟨hv, hpid, hcode, hnone, hsome, hlen⟩ := h
  obtain ⟨av, pid, code, props⟩ := a
  simp only at hv hpid hcode hnone hsome
  subst hv
  cases props with
  | none =>
    have hc := hnone rfl
    subst hc
    simp [pubrelBody, unpackPubrel, writeU16, readU16]
    omega
  | some l =>
    have hw := hsome l rfl
    have hb : pubrelBody ⟨0, pid, code, some l⟩ = writeU16 pid ++ code :: packProps (some l) := by
      simp [pubrelBody]
    rw [hb]
    have hlen2 : (writeU16 pid ++ code :: packProps (some l)).length ≠ 2 := by
      simp [writeU16]
    simp only [unpackPubrel, readU16_writeU16 pid hpid, hlen2, if_false]
    have := unpackProps_packProps (some tPUBREL) l hw []
    simp only [List.append_nil] at this
    rw [this]

theorem ack_decode_wf (v t : Nat) (w : Bytes) (a : Ack) (hb : AllBytes w) (hl : w.length ≤ 268435455)
    (h : unpackAck t v w.length w = .ok a) : WFAck v t a := by
  simp only [unpackAck] at h
  cases hr : readU16 w with
  | error e => rw [hr] at h; cases h
  | ok r =>
    obtain ⟨pid, w1⟩ := r
    rw [hr] at h
    simp only at h
    obtain ⟨he, hpid⟩ := readU16_inv w pid w1 hb hr
    have hb1 : AllBytes w1 := by rw [he] at hb; exact (allBytes_append.mp hb).2
    have hlen := readU16_len hr
    by_cases h2 : w.length = 2
    · rw [if_pos h2] at h
      cases h
      refine ⟨rfl, hpid, by simp, ?_, by simp [ackBody, writeU16]⟩
      split
      · exact ⟨fun _ => rfl, fun l hl' => by simp at hl'⟩
      · exact ⟨rfl, rfl⟩
    · rw [if_neg h2] at h
      by_cases h5 : v = v5
      · rw [if_pos h5] at h
        cases w1 with
        | nil => cases h
        | cons code w2 =>
          simp only at h
          have hb2 := (allBytes_cons.mp hb1).2
          have hc := (allBytes_cons.mp hb1).1
          cases hu : unpackProps (some t) w2 with
          | error e => rw [hu] at h; cases h
          | ok r2 =>
            obtain ⟨ps, rest⟩ := r2
            rw [hu] at h
            simp only at h
            cases h
            have hwf := (unpackProps_wf (some t) w2 ps rest hb2 hu).1
            have hsz := unpackProps_size (some t) w2 ps rest hb2 hu
            refine ⟨rfl, hpid, hc, ?_, ?_⟩
            · rw [if_pos h5]
              refine ⟨fun hn => by simp at hn, fun l hl' => ?_⟩
              simp only [Option.some.injEq] at hl'
              subst hl'
              exact hwf
            · simp only [ackBody, h5, Option.isSome_some, Bool.or_true, Bool.and_true, decide_true, if_true,
                List.length_append, writeU16, List.length_cons, List.length_nil]
              simp only [List.length_cons] at hlen
              rcases hsz with hsz | ⟨_, hps, _⟩
              · omega
              · subst hps
                simp [packProps, packBody, encVbiOrNil, encVbi, vbiDigits]
      · rw [if_neg h5] at h
        cases h
        refine ⟨rfl, hpid, by simp, ?_, by simp [ackBody, writeU16, h5]⟩
        rw [if_neg h5]; exact ⟨rfl, rfl⟩

theorem pubrel_decode_wf (w : Bytes) (a : Ack) (hb : AllBytes w) (hl : w.length ≤ 268435455)
    (h : unpackPubrel w.length w = .ok a) : WFPubrel a := by
  simp only [unpackPubrel] at h
  cases hr : readU16 w with
  | error e => rw [hr] at h; cases h
  | ok r =>
    obtain ⟨pid, w1⟩ := r
    rw [hr] at h
    simp only at h
    obtain ⟨he, hpid⟩ := readU16_inv w pid w1 hb hr
    have hb1 : AllBytes w1 := by rw [he] at hb; exact (allBytes_append.mp hb).2
    have hlen := readU16_len hr
    by_cases h2 : w.length = 2
    · rw [if_pos h2] at h
      cases h
      exact ⟨rfl, hpid, by simp, fun _ => rfl, fun l hl' => by simp at hl', by simp [pubrelBody, writeU16]⟩
    · rw [if_neg h2] at h
      cases w1 with
      | nil => cases h
      | cons code w2 =>
        simp only at h
        have hb2 := (allBytes_cons.mp hb1).2
        have hc := (allBytes_cons.mp hb1).1
        cases hu : unpackProps (some tPUBREL) w2 with
        | error e => rw [hu] at h; cases h
        | ok r2 =>
          obtain ⟨ps, rest⟩ := r2
          rw [hu] at h
          simp only at h
          cases h
          have hwf := (unpackProps_wf (some tPUBREL) w2 ps rest hb2 hu).1
          have hsz := unpackProps_size (some tPUBREL) w2 ps rest hb2 hu
          refine ⟨rfl, hpid, hc, fun hn => by simp at hn, fun l hl' => ?_, ?_⟩
          · simp only [Option.some.injEq] at hl'
            subst hl'
            exact hwf
          · simp only [pubrelBody, Option.isSome_some, Bool.or_true, if_true,
              List.length_append, writeU16, List.length_cons, List.length_nil]
            simp only [List.length_cons] at hlen
            rcases hsz with hsz | ⟨_, hps, _⟩
            · omega
            · subst hps
              simp [packProps, packBody, encVbiOrNil, encVbi, vbiDigits]

/-! ### PUBLISH -/

/-- a PUBLISH value as `ReadPacket` under reader version `v` produces it / as it may be packed and read back -/
def WFPublish (v : Nat) (p : Publish) : Prop :=
  p.version = v ∧ p.qos ≤ 2 ∧ (p.qos = 0 → p.dup = false ∧ p.pid = 0) ∧ p.pid < 65536
    ∧ p.topic.length ≤ 65535 ∧ validUTF8 p.topic = true
    ∧ (p.topic ≠ [] → validTopicName true p.topic = true)
    ∧ (if v = v5 then ∃ l, p.props = some l ∧ WFProps (some tPUBLISH) l ∧ (p.topic = [] → l.has 0x23 = true)
       else p.props = none ∧ p.topic ≠ [])
    ∧ (publishBody p).length < 268435456

theorem isEmpty_iff_nil (l : Bytes) : l.isEmpty = true ↔ l = [] := by cases l <;> simp

theorem publish_encode_decode (v : Nat) (p : Publish) (h : WFPublish v p) :
    unpackPublish v p.dup p.qos p.retain (publishBody p) = .ok p := by
  obtain ⟨hv, hq, hq0, hpid, htl, htu, htn, hcase, _⟩ := h
  obtain ⟨pv, dup, qos, retain, topic, pid, payload, props⟩ := p
  simp only at hv hq hq0 hpid htl htu htn hcase
  subst hv
  have hname : (!topic.isEmpty && !validTopicName true topic) = false := by
    cases topic with
    | nil => simp
    | cons a t => simp [htn (by simp)]
  by_cases h5 : pv = v5
  · rw [if_pos h5] at hcase
    obtain ⟨l, rfl, hw, halias⟩ := hcase
    have hup := unpackProps_packProps (some tPUBLISH) l hw payload
    have hal : (topic.isEmpty && !l.has 0x23) = false := by
      cases topic with
      | nil => simp [halias rfl]
      | cons a t => simp
    by_cases hq1 : qos = 0
    · obtain ⟨hd, hp⟩ := hq0 hq1
      subst hq1; subst hp
      simp only [publishBody, h5, if_true, List.append_assoc, unpackPublish,
        readStr_writeBin topic htl htu, hname, Bool.false_eq_true, if_false]
      simp [hup, hal]
    · have hq' : (qos = 1 || qos = 2) = true := by simp; omega
      simp only [publishBody, h5, if_true, List.append_assoc, unpackPublish, hq',
        readStr_writeBin topic htl htu, hname, Bool.false_eq_true, if_false]
      rw [if_pos (by omega)]
      simp [readU16_writeU16 pid hpid, hup, hal]
  · rw [if_neg h5] at hcase
    obtain ⟨rfl, hne⟩ := hcase
    have hal : topic.isEmpty = false := by cases topic <;> simp at hne ⊢
    by_cases hq1 : qos = 0
    · obtain ⟨hd, hp⟩ := hq0 hq1
      subst hq1; subst hp
      simp only [publishBody, h5, if_false, List.append_assoc, unpackPublish,
        readStr_writeBin topic htl htu, hname, Bool.false_eq_true]
      simp [hal]
    · have hq' : (qos = 1 || qos = 2) = true := by simp; omega
      simp only [publishBody, h5, if_false, List.append_assoc, unpackPublish, hq',
        readStr_writeBin topic htl htu, hname, Bool.false_eq_true, if_true]
      rw [if_pos (by omega)]
      simp [readU16_writeU16 pid hpid, hal]

theorem readStr_inv {w s rest : Bytes} (hb : AllBytes w) (h : readStr true w = .ok (s, rest)) :
    w = writeBin s ++ rest ∧ s.length ≤ 65535 ∧ validUTF8 s = true ∧ AllBytes rest := by
  obtain ⟨hrb, hutf⟩ := readStr_eq_readBin h
  obtain ⟨he, hl⟩ := readBin_inv w s rest hb hrb
  refine ⟨he, hl, hutf rfl, ?_⟩
  rw [he] at hb
  exact (allBytes_append.mp hb).2

theorem publish_decode_wf (v : Nat) (dup : Bool) (qos : Nat) (retain : Bool) (w : Bytes) (p : Publish)
    (hb : AllBytes w) (hl : w.length ≤ 268435455) (hq : qos ≤ 2) (hd : qos = 0 → dup = false)
    (h : unpackPublish v dup qos retain w = .ok p) :
    WFPublish v p ∧ p.dup = dup ∧ p.qos = qos ∧ p.retain = retain := by
  simp only [unpackPublish] at h
  cases hr : readStr true w with
  | error e => rw [hr] at h; cases h
  | ok r =>
    obtain ⟨topic, w1⟩ := r
    rw [hr] at h
    simp only at h
    obtain ⟨he, htl, htu, hb1⟩ := readStr_inv hb hr
    have hlen1 : w.length = 2 + topic.length + w1.length := by
      rw [he]; simp [writeBin, writeU16]; omega
    split at h
    · cases h
    · rename_i hname
      have htn : topic ≠ [] → validTopicName true topic = true := by
        intro hne
        cases topic with
        | nil => exact (hne rfl).elim
        | cons a t => simpa using hname
      -- the packet id
      have hpidpart : ∃ pid w2, (if qos > 0 then readU16 w1 else Except.ok (0, w1)) = .ok (pid, w2) ∧ pid < 65536
          ∧ AllBytes w2 ∧ (qos = 0 → pid = 0) ∧ w1.length = (if qos > 0 then 2 else 0) + w2.length := by
        by_cases hq0 : qos > 0
        · rw [if_pos hq0, if_pos hq0] at *
          cases hr2 : readU16 w1 with
          | error e => rw [hr2] at h; cases h
          | ok r2 =>
            obtain ⟨pid, w2⟩ := r2
            obtain ⟨he2, hp⟩ := readU16_inv w1 pid w2 hb1 hr2
            have := readU16_len hr2
            refine ⟨pid, w2, rfl, hp, ?_, fun h0 => by omega, by omega⟩
            rw [he2] at hb1; exact (allBytes_append.mp hb1).2
        · rw [if_neg hq0, if_neg hq0]
          exact ⟨0, w1, rfl, by omega, hb1, fun _ => rfl, by omega⟩
      obtain ⟨pid, w2, hpp, hpid, hb2, hpid0, hlen2⟩ := hpidpart
      rw [hpp] at h
      simp only at h
      by_cases h5 : v = v5
      · rw [if_pos h5] at h
        cases hu : unpackProps (some tPUBLISH) w2 with
        | error e => rw [hu] at h; cases h
        | ok r3 =>
          obtain ⟨ps, w3⟩ := r3
          rw [hu] at h
          simp only at h
          split at h
          · cases h
          · rename_i halias
            cases h
            obtain ⟨hwf, hb3⟩ := unpackProps_wf (some tPUBLISH) w2 ps w3 hb2 hu
            have hsz := unpackProps_size (some tPUBLISH) w2 ps w3 hb2 hu
            refine ⟨⟨rfl, hq, fun h0 => ⟨hd h0, hpid0 h0⟩, hpid, htl, htu, htn, ?_, ?_⟩, rfl, rfl, rfl⟩
            · rw [if_pos h5]
              refine ⟨ps, rfl, hwf, fun hte => ?_⟩
              simp only [Bool.and_eq_true, Bool.not_eq_true', not_and, Bool.not_eq_false] at halias
              exact halias ((isEmpty_iff_nil _).mpr hte)
            · simp only [publishBody, h5, if_true, List.length_append, writeBin, writeU16, List.length_cons,
                List.length_nil]
              have hpl : (if (qos = 1 || qos = 2) = true then [pid / 256 % 256, pid % 256] else ([] : Bytes)).length
                  = (if qos > 0 then 2 else 0) := by
                by_cases hq0 : qos > 0
                · have : (qos = 1 || qos = 2) = true := by simp; omega
                  simp [this, hq0]
                · have : (qos = 1 || qos = 2) = false := by simp; omega
                  simp [this, hq0]
              rw [hpl]
              rcases hsz with hsz | ⟨hw2, hps, hw3⟩
              · have : topic.length % 65536 = topic.length := by omega
                omega
              · subst hw2; subst hps; subst hw3
                simp only [packProps, packBody, List.flatMap_nil, List.length_nil, encVbiOrNil, encVbi, vbiDigits,
                  List.length_append]
                simp
                split <;> omega
      · rw [if_neg h5] at h
        split at h
        · cases h
        · rename_i hte
          cases h
          refine ⟨⟨rfl, hq, fun h0 => ⟨hd h0, hpid0 h0⟩, hpid, htl, htu, htn, ?_, ?_⟩, rfl, rfl, rfl⟩
          · rw [if_neg h5]
            refine ⟨rfl, fun hn => hte ((isEmpty_iff_nil _).mpr hn)⟩
          · simp only [publishBody, h5, if_false, List.length_append, writeBin, writeU16, List.length_cons,
              List.length_nil]
            have hpl : (if (qos = 1 || qos = 2) = true then [pid / 256 % 256, pid % 256] else ([] : Bytes)).length
                = (if qos > 0 then 2 else 0) := by
              by_cases hq0 : qos > 0
              · have : (qos = 1 || qos = 2) = true := by simp; omega
                simp [this, hq0]
              · have : (qos = 1 || qos = 2) = false := by simp; omega
                simp [this, hq0]
            rw [hpl]
            have : topic.length % 65536 = topic.length := by omega
            omega

/-! ### CONNACK, SUBACK, UNSUBACK, DISCONNECT, AUTH -/

def WFConnack (c : Connack) : Prop :=
  c.version = v5 ∧ c.code < 256 ∧ (∃ l, c.props = some l ∧ WFProps (some tCONNACK) l)
    ∧ (connackBody c).length < 268435456

theorem connack_encode_decode (c : Connack) (h : WFConnack c) : unpackConnack (connackBody c) = .ok c := by
  obtain ⟨hv, _, ⟨l, hp, hw⟩, _⟩ := h
  obtain ⟨cv, code, sp, props⟩ := c
  simp only at hv hp
  subst hv; subst hp
  have hup := unpackProps_packProps (some tCONNACK) l hw []
  simp only [List.append_nil] at hup
  cases sp <;> simp [connackBody, unpackConnack, v5, hup]

theorem connack_decode_wf (w : Bytes) (c : Connack) (hb : AllBytes w) (hl : w.length ≤ 268435455)
    (h : unpackConnack w = .ok c) : WFConnack c := by
  simp only [unpackConnack] at h
  split at h
  · cases h
  · rename_i hsp
    cases w with
    | nil => simp at h
    | cons sp w1 =>
      simp only [List.drop_succ_cons, List.drop_zero] at h
      cases w1 with
      | nil => simp at h
      | cons code w2 =>
        simp only at h
        have hb1 := (allBytes_cons.mp hb).2
        have hb2 := (allBytes_cons.mp hb1).2
        have hc := (allBytes_cons.mp hb1).1
        cases hu : unpackProps (some tCONNACK) w2 with
        | error e => rw [hu] at h; cases h
        | ok r =>
          obtain ⟨ps, rest⟩ := r
          rw [hu] at h
          simp only at h
          cases h
          have hwf := (unpackProps_wf (some tCONNACK) w2 ps rest hb2 hu).1
          have hsz := unpackProps_size (some tCONNACK) w2 ps rest hb2 hu
          refine ⟨rfl, hc, ⟨ps, rfl, hwf⟩, ?_⟩
          simp only [connackBody, v5, if_true, List.length_append, List.length_cons, List.length_nil]
          simp only [List.length_cons] at hl
          rcases hsz with hsz | ⟨hw2, hps, _⟩
          · omega
          · subst hps
            simp [packProps, packBody, encVbiOrNil, encVbi, vbiDigits]

def WFSuback (v : Nat) (s : SubAck) : Prop :=
  s.version = v ∧ s.pid < 65536 ∧ (∃ pl, s.payload = some pl ∧ pl ≠ []) ∧ WFOptProps v tSUBACK s.props
    ∧ (subackBody s).length < 268435456

theorem suback_encode_decode (v : Nat) (s : SubAck) (h : WFSuback v s) : unpackSuback v (subackBody s) = .ok s := by
  obtain ⟨hv, hpid, ⟨pl, hpl, hne⟩, hprops, _⟩ := h
  obtain ⟨sv, pid, payload, props⟩ := s
  simp only at hv hpid hpl hprops
  subst hv; subst hpl
  have hple : pl.isEmpty = false := by cases pl <;> simp at hne ⊢
  unfold WFOptProps at hprops
  by_cases h5 : sv = v5
  · rw [if_pos h5] at hprops
    obtain ⟨l, rfl, hw⟩ := hprops
    have hup := unpackProps_packProps (some tSUBACK) l hw pl
    simp only [subackBody, h5, if_true, List.append_assoc, unpackSuback, readU16_writeU16 pid hpid,
      Option.getD_some, hup]
    simp [hple]
  · rw [if_neg h5] at hprops
    subst hprops
    simp only [subackBody, h5, if_false, List.append_assoc, unpackSuback, readU16_writeU16 pid hpid,
      Option.getD_some, List.nil_append]
    simp [hple]

theorem suback_decode_wf (v : Nat) (w : Bytes) (s : SubAck) (hb : AllBytes w) (hl : w.length ≤ 268435455)
    (h : unpackSuback v w = .ok s) : WFSuback v s := by
  simp only [unpackSuback] at h
  cases hr : readU16 w with
  | error e => rw [hr] at h; cases h
  | ok r =>
    obtain ⟨pid, w1⟩ := r
    rw [hr] at h
    simp only at h
    obtain ⟨he, hpid⟩ := readU16_inv w pid w1 hb hr
    have hb1 : AllBytes w1 := by rw [he] at hb; exact (allBytes_append.mp hb).2
    have hlen := readU16_len hr
    by_cases h5 : v = v5
    · rw [if_pos h5] at h
      cases hu : unpackProps (some tSUBACK) w1 with
      | error e => rw [hu] at h; cases h
      | ok r2 =>
        obtain ⟨ps, w2⟩ := r2
        rw [hu] at h
        simp only at h
        split at h
        · cases h
        · rename_i hne
          cases h
          have hwf := (unpackProps_wf (some tSUBACK) w1 ps w2 hb1 hu).1
          have hsz := unpackProps_size (some tSUBACK) w1 ps w2 hb1 hu
          refine ⟨rfl, hpid, ⟨w2, rfl, fun e => hne ((isEmpty_iff_nil _).mpr e)⟩, ?_, ?_⟩
          · unfold WFOptProps; rw [if_pos h5]; exact ⟨ps, rfl, hwf⟩
          · simp only [subackBody, h5, if_true, List.length_append, writeU16, List.length_cons, List.length_nil,
              Option.getD_some]
            rcases hsz with hsz | ⟨_, _, hw2⟩
            · omega
            · subst hw2; simp at hne
    · rw [if_neg h5] at h
      simp only at h
      split at h
      · cases h
      · rename_i hne
        cases h
        refine ⟨rfl, hpid, ⟨w1, rfl, fun e => hne ((isEmpty_iff_nil _).mpr e)⟩, ?_, ?_⟩
        · unfold WFOptProps; rw [if_neg h5]
        · simp only [subackBody, h5, if_false, List.length_append, writeU16, List.length_cons, List.length_nil,
            Option.getD_some]
          omega

def WFUnsuback (v : Nat) (s : SubAck) : Prop :=
  s.version = v ∧ s.pid < 65536 ∧
    (if v = v5 then (∃ pl, s.payload = some pl ∧ pl ≠ []) ∧ ∃ l, s.props = some l ∧ WFProps (some tUNSUBACK) l
     else s.payload = none ∧ s.props = none) ∧ (subackBody s).length < 268435456

theorem unsuback_encode_decode (v : Nat) (hv3 : v = v31 ∨ v = v311 ∨ v = v5) (s : SubAck) (h : WFUnsuback v s) :
    unpackUnsuback v (subackBody s) = .ok s := by
  obtain ⟨hv, hpid, hcase, _⟩ := h
  obtain ⟨sv, pid, payload, props⟩ := s
  simp only at hv hpid hcase
  subst hv
  by_cases h5 : sv = v5
  · rw [if_pos h5] at hcase
    obtain ⟨⟨pl, rfl, hne⟩, l, rfl, hw⟩ := hcase
    have hple : pl.isEmpty = false := by cases pl <;> simp at hne ⊢
    have hup := unpackProps_packProps (some tUNSUBACK) l hw pl
    have h34 : (sv = v311 || sv = v31) = false := by simp [h5, v5, v311, v31]
    simp only [subackBody, h5, if_true, List.append_assoc, unpackUnsuback, readU16_writeU16 pid hpid,
      Option.getD_some, hup]
    simp [hple, v5, v311, v31]
  · rw [if_neg h5] at hcase
    obtain ⟨rfl, rfl⟩ := hcase
    have h34 : (sv = v311 || sv = v31) = true := by
      rcases hv3 with h | h | h
      · simp [h]
      · simp [h]
      · exact (h5 h).elim
    simp only [subackBody, h5, if_false, List.append_assoc, unpackUnsuback, readU16_writeU16 pid hpid]
    simp [h34]

theorem unsuback_decode_wf (v : Nat) (hv3 : v = v31 ∨ v = v311 ∨ v = v5) (w : Bytes) (s : SubAck) (hb : AllBytes w)
    (hl : w.length ≤ 268435455) (h : unpackUnsuback v w = .ok s) : WFUnsuback v s := by
  simp only [unpackUnsuback] at h
  cases hr : readU16 w with
  | error e => rw [hr] at h; cases h
  | ok r =>
    obtain ⟨pid, w1⟩ := r
    rw [hr] at h
    simp only at h
    obtain ⟨he, hpid⟩ := readU16_inv w pid w1 hb hr
    have hb1 : AllBytes w1 := by rw [he] at hb; exact (allBytes_append.mp hb).2
    have hlen := readU16_len hr
    by_cases h34 : (v = v311 || v = v31) = true
    · rw [if_pos h34] at h
      cases h
      have h5 : ¬ v = v5 := by
        simp only [Bool.or_eq_true, decide_eq_true_eq] at h34
        rcases h34 with h | h <;> simp [h, v5, v311, v31]
      refine ⟨rfl, hpid, ?_, ?_⟩
      · rw [if_neg h5]; exact ⟨rfl, rfl⟩
      · simp [subackBody, h5, writeU16]
    · rw [if_neg h34] at h
      have h5 : v = v5 := by
        simp only [Bool.or_eq_true, decide_eq_true_eq, not_or] at h34
        rcases hv3 with h | h | h
        · exact (h34.2 h).elim
        · exact (h34.1 h).elim
        · exact h
      cases hu : unpackProps (some tUNSUBACK) w1 with
      | error e => rw [hu] at h; cases h
      | ok r2 =>
        obtain ⟨ps, w2⟩ := r2
        rw [hu] at h
        simp only at h
        split at h
        · cases h
        · rename_i hne
          cases h
          have hwf := (unpackProps_wf (some tUNSUBACK) w1 ps w2 hb1 hu).1
          have hsz := unpackProps_size (some tUNSUBACK) w1 ps w2 hb1 hu
          refine ⟨rfl, hpid, ?_, ?_⟩
          · rw [if_pos h5]
            exact ⟨⟨w2, rfl, fun e => hne ((isEmpty_iff_nil _).mpr e)⟩, ps, rfl, hwf⟩
          · simp only [subackBody, h5, if_true, List.length_append, writeU16, List.length_cons, List.length_nil,
              Option.getD_some]
            rcases hsz with hsz | ⟨_, _, hw2⟩
            · omega
            · subst hw2; simp at hne

def WFDisconnect (v : Nat) (d : Disconnect) : Prop :=
  d.version = v ∧ d.code < 256 ∧
    (if v = v5 then ∃ l, d.props = some l ∧ WFProps (some tDISCONNECT) l else d.code = 0 ∧ d.props = none)
    ∧ (disconnectBody d).length < 268435456

theorem disconnect_encode_decode (v : Nat) (hv3 : v = v31 ∨ v = v311 ∨ v = v5) (d : Disconnect)
    (h : WFDisconnect v d) : unpackDisconnect v (disconnectBody d).length (disconnectBody d) = .ok d := by
  obtain ⟨hv, _, hcase, _⟩ := h
  obtain ⟨dv, code, props⟩ := d
  simp only at hv hcase
  subst hv
  by_cases h5 : dv = v5
  · rw [if_pos h5] at hcase
    obtain ⟨l, rfl, hw⟩ := hcase
    have hup := unpackProps_packProps (some tDISCONNECT) l hw []
    simp only [List.append_nil] at hup
    subst h5
    simp [disconnectBody, unpackDisconnect, v5, v311, v31, hup]
  · rw [if_neg h5] at hcase
    obtain ⟨rfl, rfl⟩ := hcase
    have h34 : (dv = v311 || dv = v31) = true := by
      rcases hv3 with h | h | h
      · simp [h]
      · simp [h]
      · exact (h5 h).elim
    simp only [Bool.or_eq_true, decide_eq_true_eq] at h34
    rcases h34 with h | h <;> subst h <;> simp [unpackDisconnect, v5, v311, v31]

theorem disconnect_decode_wf (v : Nat) (w : Bytes) (d : Disconnect) (hb : AllBytes w)
    (hl : w.length ≤ 268435455) (h : unpackDisconnect v w.length w = .ok d) : WFDisconnect v d := by
  simp only [unpackDisconnect] at h
  by_cases h5 : v = v5
  · rw [if_pos h5] at h
    have h34 : (v = v311 || v = v31) = false := by simp [h5, v5, v311, v31]
    by_cases h0 : w.length = 0
    · rw [if_pos h0] at h
      cases h
      refine ⟨rfl, by simp, ?_, ?_⟩
      · rw [if_pos h5]
        exact ⟨[], rfl, by simp [SortedProps], by simp, by simp, by simp [Props.has, Props.get], by simp [packBody]⟩
      · simp [disconnectBody, h34, packProps, packBody, encVbiOrNil, encVbi, vbiDigits]
    · rw [if_neg h0] at h
      cases w with
      | nil => simp at h0
      | cons code w1 =>
        simp only at h
        have hb1 := (allBytes_cons.mp hb).2
        have hc := (allBytes_cons.mp hb).1
        cases hu : unpackProps (some tDISCONNECT) w1 with
        | error e => rw [hu] at h; cases h
        | ok r =>
          obtain ⟨ps, rest⟩ := r
          rw [hu] at h
          simp only at h
          cases h
          have hwf := (unpackProps_wf (some tDISCONNECT) w1 ps rest hb1 hu).1
          have hsz := unpackProps_size (some tDISCONNECT) w1 ps rest hb1 hu
          refine ⟨rfl, hc, ?_, ?_⟩
          · rw [if_pos h5]; exact ⟨ps, rfl, hwf⟩
          · simp only [disconnectBody, h34, Bool.false_eq_true, if_false, Option.isSome_some, Bool.or_true,
              if_true, List.length_cons]
            simp only [List.length_cons] at hl
            rcases hsz with hsz | ⟨_, hps, _⟩
            · omega
            · subst hps
              simp [packProps, packBody, encVbiOrNil, encVbi, vbiDigits]
  · rw [if_neg h5] at h
    cases h
    refine ⟨rfl, by simp, ?_, ?_⟩
    · rw [if_neg h5]; exact ⟨rfl, rfl⟩
    · simp only [disconnectBody]
      split
      · simp
      · simp

def WFAuth (a : Auth) : Prop :=
  a.code < 256 ∧ (a.props = none → a.code = 0) ∧ (∀ l, a.props = some l → WFProps (some tAUTH) l)
    ∧ (authBody a).length < 268435456

theorem auth_encode_decode (a : Auth) (h : WFAuth a) (hne : (authBody a).length ≠ 0) :
    unpackAuth (authBody a) = .ok a := by
  obtain ⟨_, hnone, hsome, _⟩ := h
  obtain ⟨code, props⟩ := a
  simp only at hnone hsome
  cases props with
  | none =>
    have := hnone rfl
    subst this
    simp [authBody] at hne
  | some l =>
    have hw := hsome l rfl
    have hup := unpackProps_packProps (some tAUTH) l hw []
    simp only [List.append_nil] at hup
    simp [authBody, unpackAuth, hup]

theorem auth_decode_wf (w : Bytes) (a : Auth) (hb : AllBytes w) (hl : w.length ≤ 268435455)
    (h : unpackAuth w = .ok a) : WFAuth a := by
  simp only [unpackAuth] at h
  cases w with
  | nil => cases h
  | cons code w1 =>
    simp only at h
    have hb1 := (allBytes_cons.mp hb).2
    have hc := (allBytes_cons.mp hb).1
    cases hu : unpackProps (some tAUTH) w1 with
    | error e => rw [hu] at h; cases h
    | ok r =>
      obtain ⟨ps, rest⟩ := r
      rw [hu] at h
      simp only at h
      cases h
      have hwf := (unpackProps_wf (some tAUTH) w1 ps rest hb1 hu).1
      have hsz := unpackProps_size (some tAUTH) w1 ps rest hb1 hu
      refine ⟨hc, fun hn => by simp at hn, fun l hl' => ?_, ?_⟩
      · simp only [Option.some.injEq] at hl'
        subst hl'
        exact hwf
      · simp only [authBody, Option.isSome_some, Bool.or_true, if_true, List.length_cons]
        simp only [List.length_cons] at hl
        rcases hsz with hsz | ⟨_, hps, _⟩
        · omega
        · subst hps
          simp [packProps, packBody, encVbiOrNil, encVbi, vbiDigits]

/-! ### SUBSCRIBE / UNSUBSCRIBE -/

/-- the Subscription Options byte `Subscribe.Pack` writes -/
def optsByte (v : Nat) (t : Topic) : Nat :=
  if v = v5 then t.qos + b2n t.noLocal 4 + b2n t.rap 8 + t.retainHandling * 16 % 256 else t.qos

def encTopic (v : Nat) (t : Topic) : Bytes := writeBin t.name ++ [optsByte v t]

def WFTopic (v : Nat) (t : Topic) : Prop :=
  t.name.length ≤ 65535 ∧ validUTF8 t.name = true
    ∧ (if v = v5 then validV5Topic t.name = true else validTopicFilter true t.name = true)
    ∧ t.qos ≤ 2
    ∧ (if v = v5 then t.retainHandling ≤ 3 else t.noLocal = false ∧ t.rap = false ∧ t.retainHandling = 0)

def WFSubscribe (v : Nat) (s : Subscribe) : Prop :=
  s.version = v ∧ s.pid < 65536 ∧ s.topics ≠ [] ∧ (∀ t ∈ s.topics, WFTopic v t) ∧ WFOptProps v tSUBSCRIBE s.props
    ∧ (subscribeBody s).length < 268435456

theorem subscribeBody_eq (s : Subscribe) :
    subscribeBody s = writeU16 s.pid ++ ((if s.version = v5 then packProps s.props else [])
      ++ s.topics.flatMap (encTopic s.version)) := by
  unfold subscribeBody
  by_cases h5 : s.version = v5
  · have e : (fun t : Topic => writeBin t.name ++ [t.qos + b2n t.noLocal 4 + b2n t.rap 8 + t.retainHandling * 16 % 256])
        = encTopic s.version := by
      funext t; simp [encTopic, optsByte, h5]
    simp only [h5, if_true] at e ⊢
    rw [e]
  · have e : (fun t : Topic => writeBin t.name ++ [t.qos]) = encTopic s.version := by
      funext t; simp [encTopic, optsByte, h5]
    simp only [h5, if_false, List.nil_append]
    rw [e]

theorem opts_roundtrip (q rh : Nat) (nl rap : Bool) (hq : q ≤ 2) (hrh : rh ≤ 3) :
    (q + b2n nl 4 + b2n rap 8 + rh * 16 % 256) % 4 = q
    ∧ bit (q + b2n nl 4 + b2n rap 8 + rh * 16 % 256) 2 = nl
    ∧ bit (q + b2n nl 4 + b2n rap 8 + rh * 16 % 256) 3 = rap
    ∧ (q + b2n nl 4 + b2n rap 8 + rh * 16 % 256) / 16 % 4 = rh
    ∧ (q + b2n nl 4 + b2n rap 8 + rh * 16 % 256) / 64 % 4 = 0 := by
  cases nl <;> cases rap <;> simp [b2n, bit] <;> omega

theorem encTopic_ne_nil (v : Nat) (t : Topic) : encTopic v t ≠ [] := by
  simp [encTopic, writeBin, writeU16]

/-- one round of the topic loop on an encoded topic -/
theorem subscribeLoop_step (v fuel : Nat) (t : Topic) (rest : Bytes) (acc : List Topic) (h : WFTopic v t) :
    subscribeLoop v (fuel + 1) (encTopic v t ++ rest) acc =
      if rest.isEmpty then .ok (acc ++ [t]) else subscribeLoop v fuel rest (acc ++ [t]) := by
  obtain ⟨hl, hu, hvalid, hq, hcase⟩ := h
  obtain ⟨name, qos, nl, rap, rh⟩ := t
  simp only at hl hu hvalid hq hcase
  simp only [encTopic, List.append_assoc, List.cons_append, List.nil_append, subscribeLoop,
    readStr_writeBin name hl hu]
  by_cases h5 : v = v5
  · rw [if_pos h5] at hvalid hcase
    obtain ⟨e1, e2, e3, e4, e5⟩ := opts_roundtrip qos rh nl rap hq hcase
    have ht : topicOf v name (qos + b2n nl 4 + b2n rap 8 + rh * 16 % 256)
        = { name := name, qos := qos, noLocal := nl, rap := rap, retainHandling := rh } := by
      simp only [topicOf, h5, if_true, e1, e2, e3, e4]
    have hb : (v != v5) = false := by simp [h5]
    simp only [optsByte, h5, if_true, hvalid, Bool.not_true, Bool.false_eq_true, if_false, e5] at ht ⊢
    rw [ht]
    simp only [bne_self_eq_false, Bool.false_and, Bool.false_eq_true, if_false]
    rw [if_neg (by omega)]
  · rw [if_neg h5] at hvalid hcase
    obtain ⟨rfl, rfl, rfl⟩ := hcase
    have hb : (v != v5) = true := by simp [bne_iff_ne, h5]
    have ht : topicOf v name qos = { name := name, qos := qos, noLocal := false, rap := false, retainHandling := 0 } := by
      simp only [topicOf, h5, if_false]
    simp only [optsByte, h5, if_false, hvalid, Bool.not_true, Bool.false_eq_true, hb, Bool.true_and, ht]
    have e1 : ¬ (qos > 2) := by omega
    have e2 : qos / 64 % 4 = 0 := by omega
    simp [e1, e2]

theorem subscribeLoop_enc (v : Nat) (ts : List Topic) : ∀ (fuel : Nat) (acc : List Topic), ts ≠ [] →
    (∀ t ∈ ts, WFTopic v t) → ts.length ≤ fuel →
    subscribeLoop v fuel (ts.flatMap (encTopic v)) acc = .ok (acc ++ ts) := by
  induction ts with
  | nil => intro _ _ h; exact (h rfl).elim
  | cons t ts ih =>
    intro fuel acc _ hw hf
    cases fuel with
    | zero => simp at hf
    | succ fuel =>
      simp only [List.flatMap_cons]
      rw [subscribeLoop_step v fuel t _ acc (hw t (by simp))]
      cases ts with
      | nil => simp
      | cons t2 ts2 =>
        have hne : (List.flatMap (encTopic v) (t2 :: ts2)).isEmpty = false := by
          simp only [List.flatMap_cons]
          have := encTopic_ne_nil v t2
          cases h : encTopic v t2 with
          | nil => exact (this h).elim
          | cons a b => simp
        rw [hne]
        simp only [Bool.false_eq_true, if_false]
        rw [ih fuel (acc ++ [t]) (by simp) (fun x hx => hw x (by simp [hx])) (by simp at hf ⊢; omega)]
        simp

theorem flatMap_encTopic_length (v : Nat) (ts : List Topic) : ts.length ≤ (ts.flatMap (encTopic v)).length := by
  induction ts with
  | nil => simp
  | cons t ts ih =>
    simp only [List.flatMap_cons, List.length_append, List.length_cons]
    have : 0 < (encTopic v t).length := List.length_pos_iff.mpr (encTopic_ne_nil v t)
    omega

theorem subscribe_encode_decode (v : Nat) (s : Subscribe) (h : WFSubscribe v s) :
    unpackSubscribe v (subscribeBody s) = .ok s := by
  obtain ⟨hv, hpid, hne, hts, hprops, _⟩ := h
  rw [subscribeBody_eq]
  obtain ⟨sv, pid, topics, props⟩ := s
  simp only at hv hpid hne hts hprops
  subst hv
  have hloop : ∀ acc, subscribeLoop sv ((topics.flatMap (encTopic sv)).length + 1) (topics.flatMap (encTopic sv)) acc
      = .ok (acc ++ topics) := fun acc =>
    subscribeLoop_enc sv topics _ acc hne hts (by have := flatMap_encTopic_length sv topics; omega)
  unfold WFOptProps at hprops
  by_cases h5 : sv = v5
  · rw [if_pos h5] at hprops
    obtain ⟨l, rfl, hw⟩ := hprops
    have hup := unpackProps_packProps (some tSUBSCRIBE) l hw (topics.flatMap (encTopic sv))
    simp only [h5, if_true, unpackSubscribe, readU16_writeU16 pid hpid] at hup ⊢
    rw [hup]
    simp only
    have := hloop []
    simp only [h5] at this
    rw [this]
    simp
  · rw [if_neg h5] at hprops
    subst hprops
    simp only [h5, if_false, List.nil_append, unpackSubscribe, readU16_writeU16 pid hpid]
    rw [hloop []]
    simp

theorem opts_inv (o : Nat) (hres : o / 64 % 4 = 0) (ho : o < 256) :
    o % 4 + b2n (bit o 2) 4 + b2n (bit o 3) 8 + o / 16 % 4 * 16 % 256 = o := by
  by_cases h2 : o / 4 % 2 = 1 <;> by_cases h3 : o / 8 % 2 = 1 <;> simp [bit, b2n, h2, h3] <;> omega

/-- whatever the topic loop accepts: at least one topic, every topic well-formed, and the topics re-encode to exactly
    the bytes they were read from -/
theorem subscribeLoop_inv (v : Nat) (fuel : Nat) : ∀ (w : Bytes) (acc ts : List Topic), AllBytes w →
    subscribeLoop v fuel w acc = .ok ts →
    ∃ new, ts = acc ++ new ∧ new ≠ [] ∧ (∀ t ∈ new, WFTopic v t) ∧ new.flatMap (encTopic v) = w := by
  induction fuel with
  | zero => intro w acc ts _ h; simp [subscribeLoop] at h
  | succ fuel ih =>
    intro w acc ts hb h
    simp only [subscribeLoop] at h
    cases hr : readStr true w with
    | error e => rw [hr] at h; cases h
    | ok r =>
      obtain ⟨tf, w1⟩ := r
      rw [hr] at h
      simp only at h
      obtain ⟨he, htl, htu, hb1⟩ := readStr_inv hb hr
      by_cases hvalid : (if v = v5 then !validV5Topic tf else !validTopicFilter true tf) = true
      · rw [if_pos hvalid] at h; cases h
      · rw [if_neg hvalid] at h
        cases w1 with
        | nil => cases h
        | cons opts w2 =>
          simp only at h
          have hb2 := (allBytes_cons.mp hb1).2
          have ho := (allBytes_cons.mp hb1).1
          by_cases hc1 : (v != v5 && decide (opts > 2)) = true
          · rw [if_pos hc1] at h; cases h
          · rw [if_neg hc1] at h
            by_cases hc2 : (opts / 64 % 4 != 0) = true
            · rw [if_pos hc2] at h; cases h
            · rw [if_neg hc2] at h
              simp only [bne_iff_ne, ne_eq, Decidable.not_not] at hc2
              by_cases hc3 : (topicOf v tf opts).qos > 2
              · rw [if_pos hc3] at h; cases h
              · rw [if_neg hc3] at h
                have hwt : WFTopic v (topicOf v tf opts) ∧ encTopic v (topicOf v tf opts) = writeBin tf ++ [opts] := by
                  by_cases h5 : v = v5
                  · simp only [topicOf, h5, if_true] at hc3 hvalid ⊢
                    simp only [Bool.not_eq_true', Bool.not_eq_false] at hvalid
                    refine ⟨⟨htl, htu, ?_, ?_, ?_⟩, ?_⟩
                    · rw [if_pos rfl]; exact hvalid
                    · simp only; omega
                    · rw [if_pos rfl]; simp only; omega
                    · simp only [encTopic, optsByte, if_true]
                      rw [opts_inv opts hc2 ho]
                  · simp only [topicOf, h5, if_false] at hc3 hvalid ⊢
                    simp only [Bool.not_eq_true', Bool.not_eq_false] at hvalid
                    refine ⟨⟨htl, htu, ?_, ?_, ?_⟩, ?_⟩
                    · rw [if_neg h5]; exact hvalid
                    · simp only; omega
                    · rw [if_neg h5]; exact ⟨rfl, rfl, rfl⟩
                    · simp only [encTopic, optsByte, h5, if_false]
                obtain ⟨hwf, henc⟩ := hwt
                by_cases hemp : w2.isEmpty = true
                · rw [if_pos hemp] at h
                  cases h
                  have hw2 : w2 = [] := (isEmpty_iff_nil _).mp hemp
                  refine ⟨[topicOf v tf opts], rfl, by simp, fun x hx => by simp at hx; subst hx; exact hwf, ?_⟩
                  simp only [List.flatMap_cons, List.flatMap_nil, List.append_nil, henc, he, hw2]
                · rw [if_neg hemp] at h
                  obtain ⟨new, hts, _, hwfn, hencn⟩ := ih w2 (acc ++ [topicOf v tf opts]) ts hb2 h
                  refine ⟨topicOf v tf opts :: new, by rw [hts]; simp, by simp, ?_, ?_⟩
                  · intro x hx
                    rcases List.mem_cons.mp hx with rfl | hx
                    · exact hwf
                    · exact hwfn x hx
                  · simp only [List.flatMap_cons, henc, hencn, he]
                    simp

theorem subscribe_decode_wf (v : Nat) (w : Bytes) (s : Subscribe) (hb : AllBytes w) (hl : w.length ≤ 268435455)
    (h : unpackSubscribe v w = .ok s) : WFSubscribe v s := by
  simp only [unpackSubscribe] at h
  cases hr : readU16 w with
  | error e => rw [hr] at h; cases h
  | ok r =>
    obtain ⟨pid, w1⟩ := r
    rw [hr] at h
    simp only at h
    obtain ⟨he, hpid⟩ := readU16_inv w pid w1 hb hr
    have hb1 : AllBytes w1 := by rw [he] at hb; exact (allBytes_append.mp hb).2
    have hlen := readU16_len hr
    by_cases h5 : v = v5
    · rw [if_pos h5] at h
      cases hu : unpackProps (some tSUBSCRIBE) w1 with
      | error e => rw [hu] at h; cases h
      | ok r2 =>
        obtain ⟨ps, w2⟩ := r2
        rw [hu] at h
        simp only at h
        obtain ⟨hwf, hb2⟩ := unpackProps_wf (some tSUBSCRIBE) w1 ps w2 hb1 hu
        have hsz := unpackProps_size (some tSUBSCRIBE) w1 ps w2 hb1 hu
        cases hloop : subscribeLoop v (w2.length + 1) w2 [] with
        | error e => rw [hloop] at h; cases h
        | ok ts =>
          rw [hloop] at h
          cases h
          obtain ⟨new, hts, hne, hwfn, henc⟩ := subscribeLoop_inv v _ w2 [] ts hb2 hloop
          simp only [List.nil_append] at hts
          subst hts
          refine ⟨rfl, hpid, hne, hwfn, ?_, ?_⟩
          · unfold WFOptProps; rw [if_pos h5]; exact ⟨ps, rfl, hwf⟩
          · rw [subscribeBody_eq]
            simp only [h5, if_true, List.length_append, writeU16, List.length_cons, List.length_nil]
            rw [← h5, henc]
            rcases hsz with hsz | ⟨_, _, hw2⟩
            · omega
            · subst hw2
              have : ts = [] := by
                cases ts with
                | nil => rfl
                | cons t ts' =>
                  simp only [List.flatMap_cons] at henc
                  have := encTopic_ne_nil v t
                  cases hh : encTopic v t with
                  | nil => exact (this hh).elim
                  | cons a b => rw [hh] at henc; simp at henc
              exact (hne this).elim
    · rw [if_neg h5] at h
      simp only at h
      cases hloop : subscribeLoop v (w1.length + 1) w1 [] with
      | error e => rw [hloop] at h; cases h
      | ok ts =>
        rw [hloop] at h
        cases h
        obtain ⟨new, hts, hne, hwfn, henc⟩ := subscribeLoop_inv v _ w1 [] ts hb1 hloop
        simp only [List.nil_append] at hts
        subst hts
        refine ⟨rfl, hpid, hne, hwfn, ?_, ?_⟩
        · unfold WFOptProps; rw [if_neg h5]
        · rw [subscribeBody_eq]
          simp only [h5, if_false, List.nil_append, List.length_append, writeU16, List.length_cons,
            List.length_nil, henc]
          omega

def WFFilter (tf : Bytes) : Prop := tf.length ≤ 65535 ∧ validUTF8 tf = true ∧ validTopicFilter true tf = true

def WFUnsubscribe (v : Nat) (u : Unsubscribe) : Prop :=
  u.version = v ∧ u.pid < 65536 ∧ u.topics ≠ [] ∧ (∀ t ∈ u.topics, WFFilter t) ∧ WFOptProps v tUNSUBSCRIBE u.props
    ∧ (unsubscribeBody u).length < 268435456

theorem writeBin_ne_nil (s : Bytes) : writeBin s ≠ [] := by simp [writeBin, writeU16]

theorem unsubscribeLoop_enc (ts : List Bytes) : ∀ (fuel : Nat) (acc : List Bytes), ts ≠ [] →
    (∀ t ∈ ts, WFFilter t) → ts.length ≤ fuel →
    unsubscribeLoop fuel (ts.flatMap writeBin) acc = .ok (acc ++ ts) := by
  induction ts with
  | nil => intro _ _ h; exact (h rfl).elim
  | cons t ts ih =>
    intro fuel acc _ hw hf
    cases fuel with
    | zero => simp at hf
    | succ fuel =>
      obtain ⟨hl, hu, hv⟩ := hw t (by simp)
      simp only [List.flatMap_cons, unsubscribeLoop, readStr_writeBin t hl hu, hv, Bool.not_true,
        Bool.false_eq_true, if_false]
      cases ts with
      | nil => simp
      | cons t2 ts2 =>
        have hne : (List.flatMap writeBin (t2 :: ts2)).isEmpty = false := by
          simp only [List.flatMap_cons]
          cases h : writeBin t2 with
          | nil => exact (writeBin_ne_nil t2 h).elim
          | cons a b => simp
        rw [hne]
        simp only [Bool.false_eq_true, if_false]
        rw [ih fuel (acc ++ [t]) (by simp) (fun x hx => hw x (by simp [hx])) (by simp at hf ⊢; omega)]
        simp

theorem flatMap_writeBin_length (ts : List Bytes) : ts.length ≤ (ts.flatMap writeBin).length := by
  induction ts with
  | nil => simp
  | cons t ts ih =>
    simp only [List.flatMap_cons, List.length_append, List.length_cons]
    have : 0 < (writeBin t).length := List.length_pos_iff.mpr (writeBin_ne_nil t)
    omega

theorem unsubscribe_encode_decode (v : Nat) (u : Unsubscribe) (h : WFUnsubscribe v u) :
    unpackUnsubscribe v (unsubscribeBody u) = .ok u := by
  obtain ⟨hv, hpid, hne, hts, hprops, _⟩ := h
  obtain ⟨uv, pid, topics, props⟩ := u
  simp only at hv hpid hne hts hprops
  subst hv
  have hloop : ∀ acc, unsubscribeLoop ((topics.flatMap writeBin).length + 1) (topics.flatMap writeBin) acc
      = .ok (acc ++ topics) := fun acc =>
    unsubscribeLoop_enc topics _ acc hne hts (by have := flatMap_writeBin_length topics; omega)
  unfold WFOptProps at hprops
  by_cases h5 : uv = v5
  · rw [if_pos h5] at hprops
    obtain ⟨l, rfl, hw⟩ := hprops
    have hup := unpackProps_packProps (some tUNSUBSCRIBE) l hw (topics.flatMap writeBin)
    simp only [unsubscribeBody, h5, if_true, List.append_assoc, unpackUnsubscribe, readU16_writeU16 pid hpid]
    rw [hup]
    simp only
    rw [hloop []]
    simp
  · rw [if_neg h5] at hprops
    subst hprops
    simp only [unsubscribeBody, h5, if_false, List.append_assoc, List.nil_append, unpackUnsubscribe,
      readU16_writeU16 pid hpid]
    rw [hloop []]
    simp

theorem unsubscribeLoop_inv (fuel : Nat) : ∀ (w : Bytes) (acc ts : List Bytes), AllBytes w →
    unsubscribeLoop fuel w acc = .ok ts →
    ∃ new, ts = acc ++ new ∧ new ≠ [] ∧ (∀ t ∈ new, WFFilter t) ∧ new.flatMap writeBin = w := by
  induction fuel with
  | zero => intro w acc ts _ h; simp [unsubscribeLoop] at h
  | succ fuel ih =>
    intro w acc ts hb h
    simp only [unsubscribeLoop] at h
    cases hr : readStr true w with
    | error e => rw [hr] at h; cases h
    | ok r =>
      obtain ⟨tf, w1⟩ := r
      rw [hr] at h
      simp only at h
      obtain ⟨he, htl, htu, hb1⟩ := readStr_inv hb hr
      by_cases hvalid : (!validTopicFilter true tf) = true
      · rw [if_pos hvalid] at h; cases h
      · rw [if_neg hvalid] at h
        simp only [Bool.not_eq_true', Bool.not_eq_false] at hvalid
        have hwf : WFFilter tf := ⟨htl, htu, hvalid⟩
        by_cases hemp : w1.isEmpty = true
        · rw [if_pos hemp] at h
          cases h
          have hw1 : w1 = [] := (isEmpty_iff_nil _).mp hemp
          refine ⟨[tf], rfl, by simp, fun x hx => by simp at hx; subst hx; exact hwf, ?_⟩
          simp only [List.flatMap_cons, List.flatMap_nil, List.append_nil, he, hw1]
        · rw [if_neg hemp] at h
          obtain ⟨new, hts, _, hwfn, hencn⟩ := ih w1 (acc ++ [tf]) ts hb1 h
          refine ⟨tf :: new, by rw [hts]; simp, by simp, ?_, ?_⟩
          · intro x hx
            rcases List.mem_cons.mp hx with rfl | hx
            · exact hwf
            · exact hwfn x hx
          · simp only [List.flatMap_cons, hencn, he]

theorem unsubscribe_decode_wf (v : Nat) (w : Bytes) (u : Unsubscribe) (hb : AllBytes w) (hl : w.length ≤ 268435455)
    (h : unpackUnsubscribe v w = .ok u) : WFUnsubscribe v u := by
  simp only [unpackUnsubscribe] at h
  cases hr : readU16 w with
  | error e => rw [hr] at h; cases h
  | ok r =>
    obtain ⟨pid, w1⟩ := r
    rw [hr] at h
    simp only at h
    obtain ⟨he, hpid⟩ := readU16_inv w pid w1 hb hr
    have hb1 : AllBytes w1 := by rw [he] at hb; exact (allBytes_append.mp hb).2
    have hlen := readU16_len hr
    by_cases h5 : v = v5
    · rw [if_pos h5] at h
      cases hu : unpackProps (some tUNSUBSCRIBE) w1 with
      | error e => rw [hu] at h; cases h
      | ok r2 =>
        obtain ⟨ps, w2⟩ := r2
        rw [hu] at h
        simp only at h
        obtain ⟨hwf, hb2⟩ := unpackProps_wf (some tUNSUBSCRIBE) w1 ps w2 hb1 hu
        have hsz := unpackProps_size (some tUNSUBSCRIBE) w1 ps w2 hb1 hu
        cases hloop : unsubscribeLoop (w2.length + 1) w2 [] with
        | error e => rw [hloop] at h; cases h
        | ok ts =>
          rw [hloop] at h
          cases h
          obtain ⟨new, hts, hne, hwfn, henc⟩ := unsubscribeLoop_inv _ w2 [] ts hb2 hloop
          simp only [List.nil_append] at hts
          subst hts
          refine ⟨rfl, hpid, hne, hwfn, ?_, ?_⟩
          · unfold WFOptProps; rw [if_pos h5]; exact ⟨ps, rfl, hwf⟩
          · simp only [unsubscribeBody, h5, if_true, List.length_append, writeU16, List.length_cons,
              List.length_nil, henc]
            rcases hsz with hsz | ⟨_, _, hw2⟩
            · omega
            · subst hw2
              have : ts = [] := by
                cases ts with
                | nil => rfl
                | cons t ts' =>
                  simp only [List.flatMap_cons] at henc
                  cases hh : writeBin t with
                  | nil => exact (writeBin_ne_nil t hh).elim
                  | cons a b => rw [hh] at henc; simp at henc
              exact (hne this).elim
    · rw [if_neg h5] at h
      simp only at h
      cases hloop : unsubscribeLoop (w1.length + 1) w1 [] with
      | error e => rw [hloop] at h; cases h
      | ok ts =>
        rw [hloop] at h
        cases h
        obtain ⟨new, hts, hne, hwfn, henc⟩ := unsubscribeLoop_inv _ w1 [] ts hb1 hloop
        simp only [List.nil_append] at hts
        subst hts
        refine ⟨rfl, hpid, hne, hwfn, ?_, ?_⟩
        · unfold WFOptProps; rw [if_neg h5]
        · simp only [unsubscribeBody, h5, if_false, List.length_append, writeU16, List.length_cons,
            List.length_nil, henc, List.append_nil]
          omega

/-! ### CONNECT -/

def WFOptStr (flag : Bool) (o : Option Bytes) (utf8 : Bool) : Prop :=
  if flag then ∃ b, o = some b ∧ b.length ≤ 65535 ∧ (utf8 = true → validUTF8 b = true) else o = none

def WFConnect (c : Connect) : Prop :=
  c.version = c.level ∧ protoNameOf c.level = some c.protoName
    ∧ c.willQos ≤ 2 ∧ (c.willFlag = false → c.willQos = 0 ∧ c.willRetain = false)
    ∧ WFOptStr c.willFlag c.willTopic true ∧ WFOptStr c.willFlag c.willMsg false
    ∧ c.keepAlive < 65536
    ∧ c.clientID.length ≤ 65535 ∧ validUTF8 c.clientID = true
    ∧ (c.level ≠ v5 → c.clientID = [] → c.cleanStart = true)
    ∧ WFOptStr c.usernameFlag c.username true ∧ WFOptStr c.passwordFlag c.password false
    ∧ (if c.level = v5 then
         (∃ l, c.props = some l ∧ WFProps (some tCONNECT) l) ∧
         (if c.willFlag then ∃ wl, c.wprops = some wl ∧ WFProps none wl else c.wprops = some [])
       else c.props = none ∧ c.wprops = none)
    ∧ ∃ b, connectBody c = .ok b ∧ b.length < 268435456

theorem encodeUTF8String_eq {s : Bytes} (h : s.length ≤ 65535) : encodeUTF8String s = .ok (writeBin s) := by
  have : s.length % 65536 = s.length := by omega
  simp [encodeUTF8String, writeBin, Nat.not_lt.mpr h, this]

theorem flags_roundtrip (uf pf wr wf cs : Bool) (q : Nat) (hq : q ≤ 2) :
    let f := b2n uf 128 + b2n pf 64 + b2n wr 32 + b2n wf 4 + (if q = 1 then 8 else if q = 2 then 16 else 0) + b2n cs 2
    f % 2 = 0 ∧ bit f 1 = cs ∧ bit f 2 = wf ∧ f / 8 % 4 = q ∧ bit f 5 = wr ∧ bit f 6 = pf ∧ bit f 7 = uf := by
  have : q = 0 ∨ q = 1 ∨ q = 2 := by omega
  rcases this with rfl | rfl | rfl <;> cases uf <;> cases pf <;> cases wr <;> cases wf <;> cases cs <;>
    simp [b2n, bit]

theorem protoNameOf_some {level : Nat} {n : Bytes} (h : protoNameOf level = some n) :
    (level = 3 ∨ level = 4 ∨ level = 5) ∧ n.length ≤ 65535 := by
  unfold protoNameOf at h
  split at h
  · cases h; exact ⟨Or.inl (by assumption), by simp⟩
  · split at h
    · cases h; exact ⟨Or.inr (Or.inl (by assumption)), by simp⟩
    · split at h
      · cases h; exact ⟨Or.inr (Or.inr (by assumption)), by simp⟩
      · cases h

theorem willPart_roundtrip (c : Connect) (rest : Bytes)
    (hwt : WFOptStr c.willFlag c.willTopic true) (hwm : WFOptStr c.willFlag c.willMsg false)
    (hwp : if c.version = v5 then (if c.willFlag then ∃ wl, c.wprops = some wl ∧ WFProps none wl else True) else True) :
    ∃ wp, packWillPart c = .ok wp ∧
      ∀ c0 : Connect, c0.willFlag = c.willFlag → c0.version = c.version →
        (c.willFlag = false → c0.wprops = c.wprops ∧ c0.willTopic = c.willTopic ∧ c0.willMsg = c.willMsg) →
        (c.version ≠ v5 → c0.wprops = c.wprops) →
        unpackWillPart c0 (wp ++ rest) =
          .ok ({ c0 with wprops := c.wprops, willTopic := c.willTopic, willMsg := c.willMsg }, rest) := by
  unfold WFOptStr at hwt hwm
  by_cases hwf : c.willFlag = true
  · rw [if_pos hwf] at hwt hwm
    obtain ⟨wt, hwt1, hwtl, hwtu⟩ := hwt
    obtain ⟨wm, hwm1, hwml, _⟩ := hwm
    have hwtu' : validUTF8 wt = true := hwtu rfl
    refine ⟨(if c.version = v5 then packWillProps c.wprops else []) ++ writeBin wt ++ writeBin wm, ?_, ?_⟩
    · simp [packWillPart, hwf, hwt1, hwm1, encodeUTF8String_eq hwtl, encodeUTF8String_eq hwml]
    · intro c0 h1 h2 _ h4
      rw [hwf] at h1
      simp only [unpackWillPart, unpackWillPropsStep, h1, if_true, h2]
      by_cases h5 : c.version = v5
      · rw [if_pos h5, if_pos hwf] at hwp
        obtain ⟨wl, hwl, hwfl⟩ := hwp
        have hup := unpackProps_packProps none wl hwfl (writeBin wt ++ (writeBin wm ++ rest))
        rw [← packWillProps_eq wl hwfl.2.2.1] at hup
        simp only [h5, if_true, hwl, List.append_assoc, hup, readStr_writeBin wt hwtl hwtu',
          readBin_writeBin wm hwml]
        rw [hwt1, hwm1]
      · simp only [h5, if_false, List.nil_append, List.append_assoc, readStr_writeBin wt hwtl hwtu',
          readBin_writeBin wm hwml]
        rw [hwt1, hwm1, h4 h5]
  · have hwf' : c.willFlag = false := by simpa using hwf
    refine ⟨[], by simp [packWillPart, hwf'], ?_⟩
    intro c0 h1 _ h3 _
    obtain ⟨e1, e2, e3⟩ := h3 hwf'
    rw [hwf'] at h1
    simp only [unpackWillPart, h1, Bool.false_eq_true, if_false, List.nil_append]
    rw [← e1, ← e2, ← e3]
    cases c0
    simp only at h1
    subst h1
    rfl

theorem userPart_roundtrip (c : Connect) (rest : Bytes) (hu : WFOptStr c.usernameFlag c.username true) :
    ∃ up, packUserPart c = .ok up ∧
      ∀ c0 : Connect, c0.usernameFlag = c.usernameFlag → (c.usernameFlag = false → c0.username = c.username) →
        unpackUserPart c0 (up ++ rest) = .ok ({ c0 with username := c.username }, rest) := by
  unfold WFOptStr at hu
  by_cases hf : c.usernameFlag = true
  · rw [if_pos hf] at hu
    obtain ⟨u, hu1, hul, huu⟩ := hu
    refine ⟨writeBin u, by simp [packUserPart, hf, hu1, encodeUTF8String_eq hul], ?_⟩
    intro c0 h1 _
    rw [hf] at h1
    simp only [unpackUserPart, h1, if_true, readStr_writeBin u hul (huu rfl)]
    rw [hu1]
  · have hf' : c.usernameFlag = false := by simpa using hf
    refine ⟨[], by simp [packUserPart, hf'], ?_⟩
    intro c0 h1 h2
    rw [hf'] at h1
    simp only [unpackUserPart, h1, Bool.false_eq_true, if_false, List.nil_append]
    rw [← h2 hf']
    cases c0
    simp only at h1
    subst h1
    rfl

theorem passPart_roundtrip (c : Connect) (hp : WFOptStr c.passwordFlag c.password false) :
    ∃ pp, packPassPart c = .ok pp ∧
      ∀ c0 : Connect, c0.passwordFlag = c.passwordFlag → (c.passwordFlag = false → c0.password = c.password) →
        unpackPassPart c0 pp = .ok { c0 with password := c.password } := by
  unfold WFOptStr at hp
  by_cases hf : c.passwordFlag = true
  · rw [if_pos hf] at hp
    obtain ⟨u, hu1, hul, _⟩ := hp
    refine ⟨writeBin u, by simp [packPassPart, hf, hu1, encodeUTF8String_eq hul], ?_⟩
    intro c0 h1 _
    rw [hf] at h1
    have := readBin_writeBin u hul []
    simp only [List.append_nil] at this
    simp only [unpackPassPart, h1, if_true, this]
    rw [hu1]
  · have hf' : c.passwordFlag = false := by simpa using hf
    refine ⟨[], by simp [packPassPart, hf'], ?_⟩
    intro c0 h1 h2
    rw [hf'] at h1
    simp only [unpackPassPart, h1, Bool.false_eq_true, if_false]
    rw [← h2 hf']
    cases c0
    simp only at h1
    subst h1
    rfl

theorem WFOptStr_none {flag : Bool} {o : Option Bytes} {u : Bool} (h : WFOptStr flag o u) (hf : flag = false) :
    o = none := by
  unfold WFOptStr at h
  rw [if_neg (by simp [hf])] at h
  exact h

theorem connect_encode_decode (c : Connect) (h : WFConnect c) :
    ∃ b, connectBody c = .ok b ∧ b.length < 268435456 ∧ unpackConnect b = .ok c := by
  obtain ⟨hver, hname, hq, hwf0, hwt, hwm, hka, hcl, hcu, hcid, hun, hpw, hprops, b, hb, hbl⟩ := h
  refine ⟨b, hb, hbl, ?_⟩
  obtain ⟨hlev, hnl⟩ := protoNameOf_some hname
  -- the three optional parts
  have hwp : if c.version = v5 then (if c.willFlag then ∃ wl, c.wprops = some wl ∧ WFProps none wl else True) else True := by
    rw [hver]
    by_cases h5 : c.level = v5
    · rw [if_pos h5] at hprops ⊢
      by_cases hw : c.willFlag = true
      · rw [if_pos hw] at hprops ⊢; exact hprops.2
      · rw [if_neg hw]; trivial
    · rw [if_neg h5]; trivial
  obtain ⟨pp, hpp, hppr⟩ := passPart_roundtrip c hpw
  obtain ⟨up, hup, hupr⟩ := userPart_roundtrip c pp hun
  obtain ⟨wp, hwpk, hwpr⟩ := willPart_roundtrip c (up ++ pp) hwt hwm hwp
  simp only [connectBody, encodeUTF8String_eq hcl, hwpk, hup, hpp] at hb
  cases hb
  obtain ⟨f0, f1, f2, f3, f5, f6, f7⟩ := flags_roundtrip c.usernameFlag c.passwordFlag c.willRetain c.willFlag
    c.cleanStart c.willQos hq
  have hfl : connectFlags c = b2n c.usernameFlag 128 + b2n c.passwordFlag 64 + b2n c.willRetain 32 + b2n c.willFlag 4
      + (if c.willQos = 1 then 8 else if c.willQos = 2 then 16 else 0) + b2n c.cleanStart 2 := rfl
  -- run the decoder over the head
  simp only [connectHead, List.append_assoc, List.cons_append, List.nil_append, unpackConnect,
    readBin_writeBin c.protoName hnl, hname]
  have hne : (c.protoName != c.protoName) = false := by simp
  simp only [hne, Bool.false_eq_true, if_false, hfl, f0, f1, f2, f3, f5, f6, f7, bne_self_eq_false]
  have hq2 : ¬ (c.willQos > 2) := by omega
  have hwq : (!c.willFlag && c.willQos != 0) = false := by
    by_cases hw : c.willFlag = true
    · simp [hw]
    · have hw' : c.willFlag = false := by simpa using hw
      simp [hw', (hwf0 hw').1]
  have hwr : (!c.willFlag && c.willRetain) = false := by
    by_cases hw : c.willFlag = true
    · simp [hw]
    · have hw' : c.willFlag = false := by simpa using hw
      simp [hw', (hwf0 hw').2]
  simp only [hwq, hwr, hq2, Bool.false_eq_true, if_false, readU16_writeU16 c.keepAlive hka]
  -- payload, common to both versions
  have hpay : ∀ (ps wps : Option Props), ps = c.props → (c.willFlag = false → wps = c.wprops) →
      (c.version ≠ v5 → wps = c.wprops) →
      unpackConnectPayload
        { version := c.level, level := c.level, protoName := c.protoName, usernameFlag := c.usernameFlag,
          passwordFlag := c.passwordFlag, willRetain := c.willRetain, willQos := c.willQos, willFlag := c.willFlag,
          cleanStart := c.cleanStart, keepAlive := c.keepAlive, clientID := [], willTopic := none, willMsg := none,
          username := none, password := none, props := ps, wprops := wps }
        (writeBin c.clientID ++ (wp ++ (up ++ pp))) = .ok c := by
    intro ps wps hps hwps1 hwps2
    simp only [unpackConnectPayload, readStr_writeBin c.clientID hcl hcu]
    have hcidc : ((c.level = v311 || c.level = v31) && c.clientID.isEmpty && !c.cleanStart) = false := by
      by_cases hce : c.clientID = []
      · by_cases h5 : c.level = v5
        · simp [h5, v5, v311, v31]
        · simp [hcid h5 hce]
      · have : c.clientID.isEmpty = false := by cases hc : c.clientID <;> simp_all
        simp [this]
    simp only [hcidc, Bool.false_eq_true, if_false]
    have key1 := hwpr
      { version := c.level, level := c.level, protoName := c.protoName, usernameFlag := c.usernameFlag,
        passwordFlag := c.passwordFlag, willRetain := c.willRetain, willQos := c.willQos, willFlag := c.willFlag,
        cleanStart := c.cleanStart, keepAlive := c.keepAlive, clientID := c.clientID, willTopic := none,
        willMsg := none, username := none, password := none, props := ps, wprops := wps }
      rfl hver.symm
      (fun hw => ⟨hwps1 hw, (WFOptStr_none hwt hw).symm, (WFOptStr_none hwm hw).symm⟩) hwps2
    rw [key1]
    simp only
    have key2 := hupr
      { version := c.level, level := c.level, protoName := c.protoName, usernameFlag := c.usernameFlag,
        passwordFlag := c.passwordFlag, willRetain := c.willRetain, willQos := c.willQos, willFlag := c.willFlag,
        cleanStart := c.cleanStart, keepAlive := c.keepAlive, clientID := c.clientID, willTopic := c.willTopic,
        willMsg := c.willMsg, username := none, password := none, props := ps, wprops := c.wprops }
      rfl (fun hf => (WFOptStr_none hun hf).symm)
    rw [key2]
    simp only
    have key3 := hppr
      { version := c.level, level := c.level, protoName := c.protoName, usernameFlag := c.usernameFlag,
        passwordFlag := c.passwordFlag, willRetain := c.willRetain, willQos := c.willQos, willFlag := c.willFlag,
        cleanStart := c.cleanStart, keepAlive := c.keepAlive, clientID := c.clientID, willTopic := c.willTopic,
        willMsg := c.willMsg, username := c.username, password := none, props := ps, wprops := c.wprops }
      rfl (fun hf => (WFOptStr_none hpw hf).symm)
    rw [key3]
    cases c
    simp only at hver hps ⊢
    subst hver; subst hps
    rfl
  by_cases h5 : c.level = v5
  · rw [if_pos h5] at hprops
    obtain ⟨⟨l, hl, hwl⟩, hwprops⟩ := hprops
    have hv5 : c.version = v5 := by rw [hver]; exact h5
    have hupp := unpackProps_packProps (some tCONNECT) l hwl (writeBin c.clientID ++ (wp ++ (up ++ pp)))
    simp only [hv5, if_true, hl, h5, hupp]
    rw [← h5]
    apply hpay
    · exact hl.symm
    · intro hw
      rw [if_neg (by simp [hw])] at hwprops
      exact hwprops.symm
    · intro hn; exact (hn hv5).elim
  · rw [if_neg h5] at hprops
    have hv5 : ¬ c.version = v5 := by rw [hver]; exact h5
    simp only [hv5, if_false, h5, List.nil_append]
    apply hpay
    · exact hprops.1.symm
    · intro _; exact hprops.2.symm
    · intro _; exact hprops.2.symm

/-! #### accepted CONNECT ⇒ well-formed -/

theorem writeBin_length (s : Bytes) : (writeBin s).length = 2 + s.length := by
  simp [writeBin, writeU16]; omega

theorem willPart_inv (c0 c1 : Connect) (w w' : Bytes) (hb : AllBytes w) (h : unpackWillPart c0 w = .ok (c1, w'))
    (h0 : c0.willTopic = none ∧ c0.willMsg = none) (h05 : c0.version = v5 → c0.wprops = some []) :
    (∃ wps wt wm, c1 = { c0 with wprops := wps, willTopic := wt, willMsg := wm }
      ∧ WFOptStr c0.willFlag wt true ∧ WFOptStr c0.willFlag wm false
      ∧ (if c0.version = v5 then
           (if c0.willFlag then ∃ wl, wps = some wl ∧ WFProps none wl else wps = some [])
         else wps = c0.wprops))
    ∧ AllBytes w' ∧ ∃ wp, packWillPart c1 = .ok wp ∧ wp.length + w'.length ≤ w.length := by
  simp only [unpackWillPart] at h
  by_cases hwf : c0.willFlag = true
  · rw [if_pos hwf] at h
    -- will properties
    have hwps : ∃ wps w2, unpackWillPropsStep c0 w = .ok (wps, w2) ∧ AllBytes w2
        ∧ (if c0.version = v5 then ∃ wl, wps = some wl ∧ WFProps none wl
              ∧ ((packProps (some wl)).length + w2.length ≤ w.length ∨ (w = [] ∧ w2 = []))
           else wps = c0.wprops ∧ w2 = w) := by
      by_cases h5 : c0.version = v5
      · cases hu : unpackProps none w with
        | error e => simp [unpackWillPropsStep, h5, hu] at h
        | ok r =>
          obtain ⟨ps, r2⟩ := r
          obtain ⟨hwfp, hb2⟩ := unpackProps_wf none w ps r2 hb hu
          have hsz := unpackProps_size none w ps r2 hb hu
          refine ⟨some ps, r2, by simp [unpackWillPropsStep, h5, hu], hb2, ?_⟩
          rw [if_pos h5]
          refine ⟨ps, rfl, hwfp, ?_⟩
          rcases hsz with hsz | ⟨h1, _, h3⟩
          · exact Or.inl hsz
          · exact Or.inr ⟨h1, h3⟩
      · refine ⟨c0.wprops, w, by simp [unpackWillPropsStep, h5], hb, ?_⟩
        rw [if_neg h5]
        exact ⟨rfl, rfl⟩
    obtain ⟨wps, w2, hwpe, hb2, hwpc⟩ := hwps
    rw [hwpe] at h
    simp only at h
    cases hr : readStr true w2 with
    | error e => rw [hr] at h; cases h
    | ok r =>
      obtain ⟨wt, w3⟩ := r
      rw [hr] at h
      simp only at h
      obtain ⟨he3, hwtl, hwtu, hb3⟩ := readStr_inv hb2 hr
      cases hr4 : readBin w3 with
      | error e => rw [hr4] at h; cases h
      | ok r4 =>
        obtain ⟨wm, w4⟩ := r4
        rw [hr4] at h
        simp only [Except.ok.injEq, Prod.mk.injEq] at h
        obtain ⟨hc1, hw4⟩ := h
        subst hw4
        obtain ⟨he4, hwml⟩ := readBin_inv w3 wm w4 hb3 hr4
        have hb4 : AllBytes w4 := by rw [he4] at hb3; exact (allBytes_append.mp hb3).2
        have hl3 : w2.length = 2 + wt.length + w3.length := by rw [he3]; simp [writeBin_length]
        have hl4 : w3.length = 2 + wm.length + w4.length := by rw [he4]; simp [writeBin_length]
        refine ⟨⟨wps, some wt, some wm, hc1.symm, ?_, ?_, ?_⟩, hb4, ?_⟩
        · unfold WFOptStr; rw [if_pos hwf]; exact ⟨wt, rfl, hwtl, fun _ => hwtu⟩
        · unfold WFOptStr; rw [if_pos hwf]; exact ⟨wm, rfl, hwml, fun hh => by cases hh⟩
        · by_cases h5 : c0.version = v5
          · rw [if_pos h5] at hwpc ⊢
            rw [if_pos hwf]
            obtain ⟨wl, h1, h2, _⟩ := hwpc
            exact ⟨wl, h1, h2⟩
          · rw [if_neg h5] at hwpc ⊢
            exact hwpc.1
        · subst hc1
          simp only [packWillPart, hwf, if_true, Option.getD_some, encodeUTF8String_eq hwtl,
            encodeUTF8String_eq hwml]
          refine ⟨_, rfl, ?_⟩
          simp only [List.length_append, writeBin_length]
          by_cases h5 : c0.version = v5
          · rw [if_pos h5] at hwpc ⊢
            obtain ⟨wl, h1, h2, hsz⟩ := hwpc
            subst h1
            rw [packWillProps_eq wl h2.2.2.1]
            rcases hsz with hsz | ⟨_, hw2⟩
            · omega
            · subst hw2; simp at hl3; omega
          · rw [if_neg h5] at hwpc ⊢
            obtain ⟨_, hw2⟩ := hwpc
            subst hw2
            simp only [List.length_nil]
            omega
  · have hwf' : c0.willFlag = false := by simpa using hwf
    rw [if_neg hwf] at h
    simp only [Except.ok.injEq, Prod.mk.injEq] at h
    obtain ⟨hc1, hw⟩ := h
    subst hw; subst hc1
    refine ⟨⟨c0.wprops, none, none, ?_, ?_, ?_, ?_⟩, hb, [], by simp [packWillPart, hwf'], by simp⟩
    · cases c0
      simp only at h0
      obtain ⟨h1, h2⟩ := h0
      subst h1; subst h2
      rfl
    · unfold WFOptStr; rw [if_neg hwf]
    · unfold WFOptStr; rw [if_neg hwf]
    · by_cases h5 : c0.version = v5
      · rw [if_pos h5, if_neg hwf]; exact h05 h5
      · rw [if_neg h5]

theorem userPart_inv (c0 c1 : Connect) (w w' : Bytes) (hb : AllBytes w) (h : unpackUserPart c0 w = .ok (c1, w'))
    (h0 : c0.username = none) :
    (∃ u, c1 = { c0 with username := u } ∧ WFOptStr c0.usernameFlag u true)
    ∧ AllBytes w' ∧ ∃ up, packUserPart c1 = .ok up ∧ up.length + w'.length ≤ w.length := by
  simp only [unpackUserPart] at h
  by_cases hf : c0.usernameFlag = true
  · rw [if_pos hf] at h
    cases hr : readStr true w with
    | error e => rw [hr] at h; cases h
    | ok r =>
      obtain ⟨u, w1⟩ := r
      rw [hr] at h
      simp only [Except.ok.injEq, Prod.mk.injEq] at h
      obtain ⟨hc1, hw⟩ := h
      subst hw; subst hc1
      obtain ⟨he, hul, huu, hb1⟩ := readStr_inv hb hr
      refine ⟨⟨some u, rfl, ?_⟩, hb1, writeBin u, ?_, ?_⟩
      · unfold WFOptStr; rw [if_pos hf]; exact ⟨u, rfl, hul, fun _ => huu⟩
      · simp [packUserPart, hf, encodeUTF8String_eq hul]
      · rw [he]; simp
  · have hf' : c0.usernameFlag = false := by simpa using hf
    rw [if_neg hf] at h
    simp only [Except.ok.injEq, Prod.mk.injEq] at h
    obtain ⟨hc1, hw⟩ := h
    subst hw; subst hc1
    refine ⟨⟨none, ?_, ?_⟩, hb, [], by simp [packUserPart, hf'], by simp⟩
    · cases c0; simp only at h0; subst h0; rfl
    · unfold WFOptStr; rw [if_neg hf]

theorem passPart_inv (c0 c1 : Connect) (w : Bytes) (hb : AllBytes w) (h : unpackPassPart c0 w = .ok c1)
    (h0 : c0.password = none) :
    (∃ p, c1 = { c0 with password := p } ∧ WFOptStr c0.passwordFlag p false)
    ∧ ∃ pp, packPassPart c1 = .ok pp ∧ pp.length ≤ w.length := by
  simp only [unpackPassPart] at h
  by_cases hf : c0.passwordFlag = true
  · rw [if_pos hf] at h
    cases hr : readBin w with
    | error e => rw [hr] at h; cases h
    | ok r =>
      obtain ⟨u, w1⟩ := r
      rw [hr] at h
      simp only [Except.ok.injEq] at h
      subst h
      obtain ⟨he, hul⟩ := readBin_inv w u w1 hb hr
      refine ⟨⟨some u, rfl, ?_⟩, writeBin u, ?_, ?_⟩
      · unfold WFOptStr; rw [if_pos hf]; exact ⟨u, rfl, hul, fun hh => by cases hh⟩
      · simp [packPassPart, hf, encodeUTF8String_eq hul]
      · rw [he]; simp
  · have hf' : c0.passwordFlag = false := by simpa using hf
    rw [if_neg hf] at h
    simp only [Except.ok.injEq] at h
    subst h
    refine ⟨⟨none, ?_, ?_⟩, [], by simp [packPassPart, hf'], by simp⟩
    · cases c0; simp only at h0; subst h0; rfl
    · unfold WFOptStr; rw [if_neg hf]

theorem payload_inv (c0 c : Connect) (w : Bytes) (hb : AllBytes w) (h : unpackConnectPayload c0 w = .ok c)
    (h0 : c0.willTopic = none ∧ c0.willMsg = none ∧ c0.username = none ∧ c0.password = none)
    (h05 : c0.version = v5 → c0.wprops = some []) :
    ∃ cid wps wt wm u p,
      c = { c0 with clientID := cid, wprops := wps, willTopic := wt, willMsg := wm, username := u, password := p }
      ∧ cid.length ≤ 65535 ∧ validUTF8 cid = true
      ∧ ((c0.version = v311 ∨ c0.version = v31) → cid = [] → c0.cleanStart = true)
      ∧ WFOptStr c0.willFlag wt true ∧ WFOptStr c0.willFlag wm false
      ∧ (if c0.version = v5 then
           (if c0.willFlag then ∃ wl, wps = some wl ∧ WFProps none wl else wps = some [])
         else wps = c0.wprops)
      ∧ WFOptStr c0.usernameFlag u true ∧ WFOptStr c0.passwordFlag p false
      ∧ ∃ wp up pp, packWillPart c = .ok wp ∧ packUserPart c = .ok up ∧ packPassPart c = .ok pp
          ∧ 2 + cid.length + wp.length + up.length + pp.length ≤ w.length := by
  simp only [unpackConnectPayload] at h
  cases hr : readStr true w with
  | error e => rw [hr] at h; cases h
  | ok r =>
    obtain ⟨cid, w1⟩ := r
    rw [hr] at h
    simp only at h
    obtain ⟨he, hcl, hcu, hb1⟩ := readStr_inv hb hr
    have hlen1 : w.length = 2 + cid.length + w1.length := by rw [he]; simp [writeBin_length]
    by_cases hcheck : ((c0.version = v311 || c0.version = v31) && cid.isEmpty && !c0.cleanStart) = true
    · rw [if_pos hcheck] at h; cases h
    · rw [if_neg hcheck] at h
      cases hw : unpackWillPart { c0 with clientID := cid } w1 with
      | error e => rw [hw] at h; cases h
      | ok rw1 =>
        obtain ⟨cA, w5⟩ := rw1
        rw [hw] at h
        simp only at h
        obtain ⟨⟨wps, wt, wm, hcA, hwt, hwm, hwpc⟩, hb5, wp, hwp, hwpl⟩ :=
          willPart_inv _ cA w1 w5 hb1 hw ⟨h0.1, h0.2.1⟩ h05
        cases hu : unpackUserPart cA w5 with
        | error e => rw [hu] at h; cases h
        | ok ru =>
          obtain ⟨cB, w6⟩ := ru
          rw [hu] at h
          simp only at h
          have hcAu : cA.username = none := by rw [hcA]; exact h0.2.2.1
          obtain ⟨⟨u, hcB, hun⟩, hb6, up, hup, hupl⟩ := userPart_inv cA cB w5 w6 hb5 hu hcAu
          have hcBp : cB.password = none := by rw [hcB, hcA]; exact h0.2.2.2
          obtain ⟨⟨p, hc, hpw⟩, pp, hpp, hppl⟩ := passPart_inv cB c w6 hb6 h hcBp
          refine ⟨cid, wps, wt, wm, u, p, ?_, hcl, hcu, ?_, ?_, ?_, ?_, ?_, ?_, wp, up, pp, ?_, ?_, hpp, ?_⟩
          · rw [hc, hcB, hcA]
          · intro hv hce
            simp only [Bool.and_eq_true, Bool.or_eq_true, decide_eq_true_eq, Bool.not_eq_true', not_and,
              Bool.not_eq_false] at hcheck
            exact hcheck ⟨hv, (isEmpty_iff_nil _).mpr hce⟩
          · exact hwt
          · exact hwm
          · exact hwpc
          · rw [hcA] at hun; exact hun
          · rw [hcB, hcA] at hpw; exact hpw
          · rw [hc, hcB]
            simpa [packWillPart] using hwp
          · rw [hc]
            simpa [packUserPart] using hup
          · omega

theorem connect_decode_wf (w : Bytes) (c : Connect) (hb : AllBytes w) (hl : w.length ≤ 268435455)
    (h : unpackConnect w = .ok c) : WFConnect c := by
  simp only [unpackConnect] at h
  cases hr : readBin w with
  | error e => rw [hr] at h; cases h
  | ok r =>
    obtain ⟨name, w1⟩ := r
    rw [hr] at h
    simp only at h
    obtain ⟨he, hnl⟩ := readBin_inv w name w1 hb hr
    have hb1 : AllBytes w1 := by rw [he] at hb; exact (allBytes_append.mp hb).2
    have hlen1 : w.length = 2 + name.length + w1.length := by rw [he]; simp [writeBin_length]
    cases w1 with
    | nil => cases h
    | cons level w2 =>
      simp only at h
      have hb2 := (allBytes_cons.mp hb1).2
      cases hpn : protoNameOf level with
      | none => rw [hpn] at h; cases h
      | some n =>
        rw [hpn] at h
        simp only at h
        by_cases hne : (name != n) = true
        · rw [if_pos hne] at h; cases h
        · rw [if_neg hne] at h
          have hnn : name = n := by simpa using hne
          subst hnn
          cases w2 with
          | nil => cases h
          | cons flags w3 =>
            simp only at h
            have hb3 := (allBytes_cons.mp hb2).2
            by_cases hres : (flags % 2 != 0) = true
            · rw [if_pos hres] at h; cases h
            · rw [if_neg hres] at h
              by_cases hwq : (!bit flags 2 && flags / 8 % 4 != 0) = true
              · rw [if_pos hwq] at h; cases h
              · rw [if_neg hwq] at h
                by_cases hq3 : flags / 8 % 4 > 2
                · rw [if_pos hq3] at h; cases h
                · rw [if_neg hq3] at h
                  by_cases hwr : (!bit flags 2 && bit flags 5) = true
                  · rw [if_pos hwr] at h; cases h
                  · rw [if_neg hwr] at h
                    cases hrk : readU16 w3 with
                    | error e => rw [hrk] at h; cases h
                    | ok rk =>
                      obtain ⟨ka, w4⟩ := rk
                      rw [hrk] at h
                      simp only at h
                      obtain ⟨hek, hka⟩ := readU16_inv w3 ka w4 hb3 hrk
                      have hb4 : AllBytes w4 := by rw [hek] at hb3; exact (allBytes_append.mp hb3).2
                      have hlen4 := readU16_len hrk
                      have hwill0 : bit flags 2 = false → flags / 8 % 4 = 0 ∧ bit flags 5 = false := by
                        intro hf
                        simp only [hf, Bool.not_false, Bool.true_and, bne_iff_ne, ne_eq, Decidable.not_not,
                          Bool.not_eq_true] at hwq hwr
                        exact ⟨hwq, hwr⟩
                      by_cases h5 : level = v5
                      · rw [if_pos h5] at h
                        cases hu : unpackProps (some tCONNECT) w4 with
                        | error e => rw [hu] at h; cases h
                        | ok ru =>
                          obtain ⟨ps, w5⟩ := ru
                          rw [hu] at h
                          simp only at h
                          obtain ⟨hwfp, hb5⟩ := unpackProps_wf (some tCONNECT) w4 ps w5 hb4 hu
                          have hsz := unpackProps_size (some tCONNECT) w4 ps w5 hb4 hu
                          obtain ⟨cid, wps, wt, wm, u, p, hc, hcl, hcu, hcid, hwt, hwm, hwpc, hun, hpw, wp, up, pp,
                            hwp, hup, hpp, hsum⟩ := payload_inv _ c w5 hb5 h ⟨rfl, rfl, rfl, rfl⟩ (fun _ => rfl)
                          simp only at hcid hwt hwm hwpc hun hpw
                          rw [if_pos h5] at hwpc
                          subst hc
                          refine ⟨rfl, hpn, by simp only; omega, ?_, hwt, hwm, hka, hcl, hcu, ?_, hun, hpw, ?_, ?_⟩
                          · intro hf; exact hwill0 hf
                          · intro hn; exact (hn h5).elim
                          · simp only
                            rw [if_pos h5]
                            exact ⟨⟨ps, rfl, hwfp⟩, hwpc⟩
                          · simp only [connectBody, encodeUTF8String_eq hcl, hwp, hup, hpp]
                            refine ⟨_, rfl, ?_⟩
                            simp only [connectHead, h5, if_true, List.length_append, writeBin_length, List.length_cons,
                              List.length_nil, writeU16]
                            simp only [List.length_cons] at hlen1 hlen4
                            rcases hsz with hsz | ⟨_, _, hw5⟩
                            · omega
                            · subst hw5; simp at hsum
                      · rw [if_neg h5] at h
                        obtain ⟨cid, wps, wt, wm, u, p, hc, hcl, hcu, hcid, hwt, hwm, hwpc, hun, hpw, wp, up, pp,
                          hwp, hup, hpp, hsum⟩ := payload_inv _ c w4 hb4 h ⟨rfl, rfl, rfl, rfl⟩
                            (fun hv => (h5 hv).elim)
                        simp only at hcid hwt hwm hwpc hun hpw
                        rw [if_neg h5] at hwpc
                        subst hc
                        obtain ⟨hlev, _⟩ := protoNameOf_some hpn
                        refine ⟨rfl, hpn, by simp only; omega, ?_, hwt, hwm, hka, hcl, hcu, ?_, hun, hpw, ?_, ?_⟩
                        · intro hf; exact hwill0 hf
                        · intro _ hce
                          apply hcid _ hce
                          rcases hlev with h3 | h4 | h55
                          · right; exact h3
                          · left; exact h4
                          · exact (h5 h55).elim
                        · simp only
                          rw [if_neg h5]
                          exact ⟨trivial, hwpc⟩
                        · simp only [connectBody, encodeUTF8String_eq hcl, hwp, hup, hpp]
                          refine ⟨_, rfl, ?_⟩
                          simp only [connectHead, h5, if_false, List.length_append, writeBin_length, List.length_cons,
                            List.length_nil, writeU16]
                          simp only [List.length_cons] at hlen1 hlen4
                          omega

/-! ### all packet types together -/

/-- well-formed packet value for reader version `v`: exactly the values `ReadPacket` can return -/
def WF (v : Nat) : Packet → Prop
  | .connect c => WFConnect c
  | .connack c => WFConnack c
  | .publish p => WFPublish v p
  | .puback a => WFAck v tPUBACK a
  | .pubrec a => WFAck v tPUBREC a
  | .pubrel a => WFPubrel a
  | .pubcomp a => WFAck v tPUBCOMP a
  | .subscribe s => WFSubscribe v s
  | .suback s => WFSuback v s
  | .unsubscribe u => WFUnsubscribe v u
  | .unsuback s => WFUnsuback v s
  | .pingreq => True
  | .pingresp => True
  | .disconnect d => WFDisconnect v d
  | .auth a => WFAuth a

theorem publish_flags (dup retain : Bool) (qos : Nat) (hq : qos ≤ 2) :
    b2n dup 8 + b2n retain 1 + qos * 2 < 16 ∧ bit (b2n dup 8 + b2n retain 1 + qos * 2) 3 = dup
      ∧ (b2n dup 8 + b2n retain 1 + qos * 2) / 2 % 4 = qos
      ∧ decide ((b2n dup 8 + b2n retain 1 + qos * 2) % 2 = 1) = retain := by
  have : qos = 0 ∨ qos = 1 ∨ qos = 2 := by omega
  rcases this with rfl | rfl | rfl <;> cases dup <;> cases retain <;> simp [b2n, bit]

/-- writer then reader for a framed body, given what the plan computed from the fixed header does on it -/
theorem readPacket_of_run (t fl v : Nat) (body ext : Bytes) (p : Packet)
    (ht : t < 16) (hfl : fl < 16) (hlen : body.length < 268435456)
    (hrun : runPlan body.length (body ++ ext) (planOf t fl body.length v) = { res := .ok p, rest := ext }) :
    ∃ bs, frame t fl body = .ok bs ∧ readPacket v (bs ++ ext) = { res := .ok p, rest := ext } := by
  refine ⟨_, frame_eq t fl body hlen, ?_⟩
  rw [readPacket_frame t fl body ext v ht hfl hlen]
  exact hrun

/-- `encode_decode`: a well-formed packet value packs, and `ReadPacket` reads the bytes back to the same value,
    consuming exactly those bytes -/
theorem encode_decode_all (v : Nat) (hv : v = v31 ∨ v = v311 ∨ v = v5) (p : Packet) (h : WF v p) (ext : Bytes) :
    ∃ bs, pack p = .ok bs ∧ readPacket v (bs ++ ext) = { res := .ok p, rest := ext } := by
  cases p with
  | connect c =>
    obtain ⟨b, hb, hbl, hdec⟩ := connect_encode_decode c h
    simp only [pack, bodyOf, hb, Except.map]
    exact readPacket_of_run tCONNECT 0 v b ext _ (by decide) (by omega) hbl
      (by simp [planOf, runPlan, withWindow_append, tCONNECT, hdec, Except.map])
  | connack c =>
    have hdec := connack_encode_decode c h
    simp only [pack, bodyOf]
    exact readPacket_of_run tCONNACK 0 v _ ext _ (by decide) (by omega) h.2.2.2
      (by simp [planOf, runPlan, withWindow_append, tCONNACK, tCONNECT, hdec, Except.map])
  | publish pb =>
    have hdec := publish_encode_decode v pb h
    obtain ⟨hf1, hf2, hf3, hf4⟩ := publish_flags pb.dup pb.retain pb.qos h.2.1
    simp only [pack, bodyOf]
    refine readPacket_of_run tPUBLISH (publishFlags pb) v _ ext _ (by decide) hf1 h.2.2.2.2.2.2.2.2 ?_
    have hq0 : (decide (pb.qos = 0) && pb.dup) = false := by
      by_cases hq : pb.qos = 0
      · simp [hq, (h.2.2.1 hq).1]
      · simp [hq]
    have hq2 : ¬ pb.qos > 2 := by have := h.2.1; omega
    have hf4' : decide ((b2n pb.dup 8 + b2n pb.retain 1) % 2 = 1) = pb.retain := by
      cases pb.dup <;> cases pb.retain <;> simp [b2n]
    simp only [planOf, tPUBLISH, tCONNECT, tCONNACK, publishFlags, hf2, hf3]
    simp [hq0, hq2, runPlan, withWindow_append, hdec, hf4', Except.map]
  | puback a =>
    have hdec := ack_encode_decode v tPUBACK a h
    simp only [tPUBACK] at hdec
    simp only [pack, bodyOf]
    exact readPacket_of_run tPUBACK 0 v _ ext _ (by decide) (by omega) h.2.2.2.2
      (by simp [planOf, runPlan, withWindow_append, tPUBACK, tPUBLISH, tCONNECT, tCONNACK, hdec, Except.map])
  | pubrec a =>
    have hdec := ack_encode_decode v tPUBREC a h
    simp only [tPUBREC] at hdec
    simp only [pack, bodyOf]
    exact readPacket_of_run tPUBREC 0 v _ ext _ (by decide) (by omega) h.2.2.2.2
      (by simp [planOf, runPlan, withWindow_append, tPUBREC, tPUBACK, tPUBLISH, tCONNECT, tCONNACK, hdec, Except.map])
  | pubrel a =>
    have hdec := pubrel_encode_decode a h
    simp only [pack, bodyOf]
    exact readPacket_of_run tPUBREL 2 v _ ext _ (by decide) (by omega) h.2.2.2.2.2
      (by simp [planOf, runPlan, withWindow_append, tPUBREL, tPUBREC, tPUBACK, tPUBLISH, tCONNECT, tCONNACK, hdec,
        Except.map])
  | pubcomp a =>
    have hdec := ack_encode_decode v tPUBCOMP a h
    simp only [tPUBCOMP] at hdec
    simp only [pack, bodyOf]
    exact readPacket_of_run tPUBCOMP 0 v _ ext _ (by decide) (by omega) h.2.2.2.2
      (by simp [planOf, runPlan, withWindow_append, tPUBCOMP, tPUBREL, tPUBREC, tPUBACK, tPUBLISH, tCONNECT, tCONNACK,
        hdec, Except.map])
  | subscribe s =>
    have hdec := subscribe_encode_decode v s h
    simp only [pack, bodyOf]
    exact readPacket_of_run tSUBSCRIBE 2 v _ ext _ (by decide) (by omega) h.2.2.2.2.2
      (by simp [planOf, runPlan, withWindow_append, tSUBSCRIBE, tPUBCOMP, tPUBREL, tPUBREC, tPUBACK, tPUBLISH,
        tCONNECT, tCONNACK, hdec, Except.map])
  | suback s =>
    have hdec := suback_encode_decode v s h
    simp only [pack, bodyOf]
    exact readPacket_of_run tSUBACK 0 v _ ext _ (by decide) (by omega) h.2.2.2.2
      (by simp [planOf, runPlan, withWindow_append, tSUBACK, tSUBSCRIBE, tPUBCOMP, tPUBREL, tPUBREC, tPUBACK, tPUBLISH,
        tCONNECT, tCONNACK, hdec, Except.map])
  | unsubscribe u =>
    have hdec := unsubscribe_encode_decode v u h
    simp only [pack, bodyOf]
    exact readPacket_of_run tUNSUBSCRIBE 2 v _ ext _ (by decide) (by omega) h.2.2.2.2.2
      (by simp [planOf, runPlan, withWindow_append, tUNSUBSCRIBE, tSUBACK, tSUBSCRIBE, tPUBCOMP, tPUBREL, tPUBREC,
        tPUBACK, tPUBLISH, tCONNECT, tCONNACK, hdec, Except.map])
  | unsuback s =>
    have hdec := unsuback_encode_decode v hv s h
    simp only [pack, bodyOf]
    exact readPacket_of_run tUNSUBACK 0 v _ ext _ (by decide) (by omega) h.2.2.2
      (by simp [planOf, runPlan, withWindow_append, tUNSUBACK, tUNSUBSCRIBE, tSUBACK, tSUBSCRIBE, tPUBCOMP, tPUBREL,
        tPUBREC, tPUBACK, tPUBLISH, tCONNECT, tCONNACK, hdec, Except.map])
  | pingreq =>
    simp only [pack, bodyOf]
    exact readPacket_of_run tPINGREQ 0 v [] ext _ (by decide) (by omega) (by simp)
      (by simp [planOf, runPlan, tPINGREQ, tUNSUBACK, tUNSUBSCRIBE, tSUBACK, tSUBSCRIBE, tPUBCOMP, tPUBREL, tPUBREC,
        tPUBACK, tPUBLISH, tCONNECT, tCONNACK])
  | pingresp =>
    simp only [pack, bodyOf]
    exact readPacket_of_run tPINGRESP 0 v [] ext _ (by decide) (by omega) (by simp)
      (by simp [planOf, runPlan, tPINGRESP, tPINGREQ, tUNSUBACK, tUNSUBSCRIBE, tSUBACK, tSUBSCRIBE, tPUBCOMP, tPUBREL,
        tPUBREC, tPUBACK, tPUBLISH, tCONNECT, tCONNACK])
  | disconnect d =>
    have hdec := disconnect_encode_decode v hv d h
    simp only [pack, bodyOf]
    exact readPacket_of_run tDISCONNECT 0 v _ ext _ (by decide) (by omega) h.2.2.2
      (by simp [planOf, runPlan, withWindow_append, tDISCONNECT, tPINGRESP, tPINGREQ, tUNSUBACK, tUNSUBSCRIBE, tSUBACK,
        tSUBSCRIBE, tPUBCOMP, tPUBREL, tPUBREC, tPUBACK, tPUBLISH, tCONNECT, tCONNACK, hdec, Except.map])
  | auth a =>
    simp only [pack, bodyOf]
    by_cases h0 : (authBody a).length = 0
    · have hnil : authBody a = [] := List.eq_nil_of_length_eq_zero h0
      have ha : a = { code := 0, props := none } := by
        obtain ⟨code, props⟩ := a
        simp only [authBody] at hnil
        split at hnil
        · simp at hnil
        · rename_i hc
          simp only [Bool.or_eq_true, bne_iff_ne, ne_eq, Option.isSome_iff_ne_none, not_or, Decidable.not_not] at hc
          obtain ⟨h1, h2⟩ := hc
          subst h1; subst h2; rfl
      rw [hnil, ha]
      exact readPacket_of_run tAUTH 0 v [] ext _ (by decide) (by omega) (by simp)
        (by simp [planOf, runPlan, tAUTH, tDISCONNECT, tPINGRESP, tPINGREQ, tUNSUBACK, tUNSUBSCRIBE, tSUBACK,
          tSUBSCRIBE, tPUBCOMP, tPUBREL, tPUBREC, tPUBACK, tPUBLISH, tCONNECT, tCONNACK])
    · have hdec := auth_encode_decode a h h0
      exact readPacket_of_run tAUTH 0 v _ ext _ (by decide) (by omega) h.2.2.2
        (by simp [planOf, runPlan, withWindow_append, tAUTH, tDISCONNECT, tPINGRESP, tPINGREQ, tUNSUBACK, tUNSUBSCRIBE,
          tSUBACK, tSUBSCRIBE, tPUBCOMP, tPUBREL, tPUBREC, tPUBACK, tPUBLISH, tCONNECT, tCONNACK, h0, hdec,
          Except.map])

theorem withWindow_res {n : Nat} {s : Bytes} {e : Err} {f : Bytes → Except Err Packet} {p : Packet}
    (h : (withWindow n s e f).res = .ok p) : n ≤ s.length ∧ f (s.take n) = .ok p := by
  by_cases hl : n ≤ s.length
  · rw [withWindow_ok hl] at h
    exact ⟨hl, h⟩
  · simp [withWindow, Nat.not_le.mp hl] at h

theorem map_ok {α : Type} {f : α → Packet} {x : Except Err α} {p : Packet} (h : x.map f = .ok p) :
    ∃ a, x = .ok a ∧ p = f a := by
  cases x with
  | error e => simp [Except.map] at h
  | ok a => simp only [Except.map, Except.ok.injEq] at h; exact ⟨a, rfl, h.symm⟩

/-- every packet `NewPacket` returns is well-formed -/
theorem newPacket_wf (pt fl n v : Nat) (hv : v = v31 ∨ v = v311 ∨ v = v5) (s2 : Bytes) (p : Packet) (hb : AllBytes s2)
    (hn : n ≤ 268435455) (h : (newPacket pt fl n v s2).res = .ok p) : WF v p := by
  have hw : ∀ {e f}, (withWindow n s2 e f).res = .ok p →
      AllBytes (s2.take n) ∧ (s2.take n).length = n ∧ (s2.take n).length ≤ 268435455 ∧ f (s2.take n) = .ok p := by
    intro e f hh
    obtain ⟨hl, hf⟩ := withWindow_res hh
    have : (s2.take n).length = n := by simp [List.length_take, Nat.min_eq_left hl]
    exact ⟨allBytes_take n hb, this, by omega, hf⟩
  unfold newPacket planOf at h
  by_cases c1 : pt = tCONNECT
  · rw [if_pos c1] at h
    split at h
    · cases h
    · obtain ⟨hbw, hlw, hlw2, hf⟩ := hw h
      obtain ⟨a, ha, rfl⟩ := map_ok hf
      exact connect_decode_wf _ a hbw hlw2 ha
  rw [if_neg c1] at h
  by_cases c2 : pt = tCONNACK
  · rw [if_pos c2] at h
    split at h
    · cases h
    · obtain ⟨hbw, hlw, hlw2, hf⟩ := hw h
      obtain ⟨a, ha, rfl⟩ := map_ok hf
      exact connack_decode_wf _ a hbw hlw2 ha
  rw [if_neg c2] at h
  by_cases c3 : pt = tPUBLISH
  · rw [if_pos c3] at h
    simp only at h
    split at h
    · cases h
    · rename_i hq0
      split at h
      · cases h
      · rename_i hq2
        obtain ⟨hbw, hlw, hlw2, hf⟩ := hw h
        obtain ⟨a, ha, rfl⟩ := map_ok hf
        refine (publish_decode_wf v _ _ _ _ a hbw hlw2 (by omega) ?_ ha).1
        intro hq
        simp only [hq, decide_true, Bool.true_and, Bool.not_eq_true] at hq0
        exact hq0
  rw [if_neg c3] at h
  by_cases c4 : pt = tPUBACK
  · rw [if_pos c4] at h
    obtain ⟨hbw, hlw, hlw2, hf⟩ := hw h
    obtain ⟨a, ha, rfl⟩ := map_ok hf
    have ha' : unpackAck tPUBACK v (s2.take n).length (s2.take n) = .ok a := by rw [hlw]; exact ha
    exact ack_decode_wf v tPUBACK _ a hbw hlw2 ha'
  rw [if_neg c4] at h
  by_cases c5 : pt = tPUBREC
  · rw [if_pos c5] at h
    obtain ⟨hbw, hlw, hlw2, hf⟩ := hw h
    obtain ⟨a, ha, rfl⟩ := map_ok hf
    have ha' : unpackAck tPUBREC v (s2.take n).length (s2.take n) = .ok a := by rw [hlw]; exact ha
    exact ack_decode_wf v tPUBREC _ a hbw hlw2 ha'
  rw [if_neg c5] at h
  by_cases c6 : pt = tPUBREL
  · rw [if_pos c6] at h
    obtain ⟨hbw, hlw, hlw2, hf⟩ := hw h
    obtain ⟨a, ha, rfl⟩ := map_ok hf
    have ha' : unpackPubrel (s2.take n).length (s2.take n) = .ok a := by rw [hlw]; exact ha
    exact pubrel_decode_wf _ a hbw hlw2 ha'
  rw [if_neg c6] at h
  by_cases c7 : pt = tPUBCOMP
  · rw [if_pos c7] at h
    obtain ⟨hbw, hlw, hlw2, hf⟩ := hw h
    obtain ⟨a, ha, rfl⟩ := map_ok hf
    have ha' : unpackAck tPUBCOMP v (s2.take n).length (s2.take n) = .ok a := by rw [hlw]; exact ha
    exact ack_decode_wf v tPUBCOMP _ a hbw hlw2 ha'
  rw [if_neg c7] at h
  by_cases c8 : pt = tSUBSCRIBE
  · rw [if_pos c8] at h
    split at h
    · cases h
    · obtain ⟨hbw, hlw, hlw2, hf⟩ := hw h
      obtain ⟨a, ha, rfl⟩ := map_ok hf
      exact subscribe_decode_wf v _ a hbw hlw2 ha
  rw [if_neg c8] at h
  by_cases c9 : pt = tSUBACK
  · rw [if_pos c9] at h
    split at h
    · cases h
    · obtain ⟨hbw, hlw, hlw2, hf⟩ := hw h
      obtain ⟨a, ha, rfl⟩ := map_ok hf
      exact suback_decode_wf v _ a hbw hlw2 ha
  rw [if_neg c9] at h
  by_cases c10 : pt = tUNSUBSCRIBE
  · rw [if_pos c10] at h
    split at h
    · cases h
    · obtain ⟨hbw, hlw, hlw2, hf⟩ := hw h
      obtain ⟨a, ha, rfl⟩ := map_ok hf
      exact unsubscribe_decode_wf v _ a hbw hlw2 ha
  rw [if_neg c10] at h
  by_cases c11 : pt = tUNSUBACK
  · rw [if_pos c11] at h
    split at h
    · cases h
    · obtain ⟨hbw, hlw, hlw2, hf⟩ := hw h
      obtain ⟨a, ha, rfl⟩ := map_ok hf
      exact unsuback_decode_wf v hv _ a hbw hlw2 ha
  rw [if_neg c11] at h
  by_cases c12 : pt = tPINGREQ
  · rw [if_pos c12] at h
    split at h
    · cases h
    · split at h
      · cases h
      · simp only [runPlan, Except.ok.injEq] at h
        subst h
        trivial
  rw [if_neg c12] at h
  by_cases c13 : pt = tPINGRESP
  · rw [if_pos c13] at h
    split at h
    · cases h
    · split at h
      · cases h
      · simp only [runPlan, Except.ok.injEq] at h
        subst h
        trivial
  rw [if_neg c13] at h
  by_cases c14 : pt = tDISCONNECT
  · rw [if_pos c14] at h
    split at h
    · cases h
    · obtain ⟨hbw, hlw, hlw2, hf⟩ := hw h
      obtain ⟨a, ha, rfl⟩ := map_ok hf
      have ha' : unpackDisconnect v (s2.take n).length (s2.take n) = .ok a := by rw [hlw]; exact ha
      exact disconnect_decode_wf v _ a hbw hlw2 ha'
  rw [if_neg c14] at h
  by_cases c15 : pt = tAUTH
  · rw [if_pos c15] at h
    split at h
    · cases h
    · split at h
      · simp only [runPlan, Except.ok.injEq] at h
        subst h
        exact ⟨by simp, fun _ => rfl, fun l hl => by simp at hl, by simp [authBody]⟩
      · obtain ⟨hbw, hlw, hlw2, hf⟩ := hw h
        obtain ⟨a, ha, rfl⟩ := map_ok hf
        exact auth_decode_wf _ a hbw hlw2 ha
  rw [if_neg c15] at h
  cases h

/-- every packet `ReadPacket` returns is well-formed -/
theorem readPacket_wf (v : Nat) (hv : v = v31 ∨ v = v311 ∨ v = v5) (bs : Bytes) (p : Packet) (hb : AllBytes bs)
    (h : (readPacket v bs).res = .ok p) : WF v p := by
  cases bs with
  | nil => simp [readPacket] at h
  | cons first s1 =>
    simp only [readPacket] at h
    cases hd : decVbi s1 with
    | error e => rw [hd] at h; cases h
    | ok r =>
      obtain ⟨n, s2⟩ := r
      rw [hd] at h
      simp only at h
      have hb1 := (allBytes_cons.mp hb).2
      exact newPacket_wf _ _ n v hv s2 p (allBytes_decVbi hb1 hd) (decVbiAux_le s1 0 0 n s2 hd) h

/-- `reencode_stable`: every accepted packet packs, and the packed bytes read back to the same packet -/
theorem reencode_stable_all (v : Nat) (hv : v = v31 ∨ v = v311 ∨ v = v5) (bs : Bytes) (p : Packet) (hb : AllBytes bs)
    (h : (readPacket v bs).res = .ok p) (ext : Bytes) :
    ∃ out, pack p = .ok out ∧ readPacket v (out ++ ext) = { res := .ok p, rest := ext } :=
  encode_decode_all v hv p (readPacket_wf v hv bs p hb h) ext

end GmqttVerif.Codec
