import GmqttVerif.Model.Codec.Prim
/-
  Lemmas about the codec primitives: variable byte integer, u16/u32, length-prefixed fields.
-/
namespace GmqttVerif.Codec

/-! ### variable byte integer -/

theorem or_shl32 (a x k : Nat) (ha : a < 2 ^ k) (hx : x < 128) (hk : k ≤ 21) :
    a ||| shl32 x k = a + x * 2 ^ k := by
  have h2 : (2:Nat) ^ k ≤ 2 ^ 21 := Nat.pow_le_pow_right (by omega) hk
  have hpos : 0 < (2:Nat) ^ 21 := by omega
  have hlt : x * 2 ^ k < 128 * 2 ^ 21 := Nat.mul_lt_mul_of_lt_of_le hx h2 hpos
  have hs : shl32 x k = x * 2 ^ k := by
    unfold shl32
    rw [if_neg (by omega)]
    exact Nat.mod_eq_of_lt (by omega)
  rw [hs, Nat.or_comm, ← Nat.shiftLeft_eq, ← Nat.shiftLeft_add_eq_or_of_lt ha x, Nat.add_comm]

theorem vbiDigits_length (n : Nat) (h : n < 268435456) : (vbiDigits 4 n).length = vbiLen n := by
  have h4 : ¬ (n / 128 / 128 / 128 / 128 > 0) := by omega
  unfold vbiLen
  simp only [vbiDigits, if_neg h4]
  by_cases h1 : n / 128 > 0
  · rw [if_pos h1]
    by_cases h2 : n / 128 / 128 > 0
    · rw [if_pos h2]
      by_cases h3 : n / 128 / 128 / 128 > 0
      · rw [if_pos h3, if_neg (by omega), if_neg (by omega), if_neg (by omega), if_pos (by omega)]; rfl
      · rw [if_neg h3, if_neg (by omega), if_neg (by omega), if_pos (by omega)]; rfl
    · rw [if_neg h2, if_neg (by omega), if_pos (by omega)]; rfl
  · rw [if_neg h1, if_pos (by omega)]; rfl

theorem decVbiAux_cont (x acc k : Nat) (t : Bytes) (hx : x < 128) (ha : acc < 2 ^ k) (hk : k ≤ 21)
    (hm : acc + x * 2 ^ k ≤ vbiMax) :
    decVbiAux ((x + 128) :: t) acc k = decVbiAux t (acc + x * 2 ^ k) (k + 7) := by
  simp only [decVbiAux]
  have e : (x + 128) % 128 = x := by omega
  rw [e, or_shl32 acc x k ha hx hk, if_neg (by omega), if_neg (by omega)]
  congr 1
  omega

theorem decVbiAux_last (d acc k : Nat) (t : Bytes) (hd : d < 128) (ha : acc < 2 ^ k) (hk : k ≤ 21)
    (hm : acc + d * 2 ^ k ≤ vbiMax) :
    decVbiAux (d :: t) acc k = .ok (acc + d * 2 ^ k, t) := by
  simp only [decVbiAux]
  have e : d % 128 = d := by omega
  rw [e, or_shl32 acc d k ha hd hk, if_neg (by omega), if_pos hd]

/-- writer then reader: the canonical encoding decodes to the value and leaves the rest untouched -/
theorem decVbi_vbiDigits (n : Nat) (h : n < 268435456) (rest : Bytes) :
    decVbi (vbiDigits 4 n ++ rest) = .ok (n, rest) := by
  have h4 : ¬ (n / 128 / 128 / 128 / 128 > 0) := by omega
  unfold decVbi
  simp only [vbiDigits, if_neg h4] at *
  by_cases h1 : n / 128 > 0
  · rw [if_pos h1]
    by_cases h2 : n / 128 / 128 > 0
    · rw [if_pos h2]
      by_cases h3 : n / 128 / 128 / 128 > 0
      · rw [if_pos h3]
        simp only [List.cons_append, List.nil_append]
        rw [decVbiAux_cont _ _ _ _ (by omega) (by omega) (by omega) (by simp only [vbiMax]; omega)]
        rw [decVbiAux_cont _ _ _ _ (by omega) (by omega) (by omega) (by simp only [vbiMax]; omega)]
        rw [decVbiAux_cont _ _ _ _ (by omega) (by omega) (by omega) (by simp only [vbiMax]; omega)]
        rw [decVbiAux_last _ _ _ _ (by omega) (by omega) (by omega) (by simp only [vbiMax]; omega)]
        congr 2
        omega
      · rw [if_neg h3]
        simp only [List.cons_append, List.nil_append]
        rw [decVbiAux_cont _ _ _ _ (by omega) (by omega) (by omega) (by simp only [vbiMax]; omega)]
        rw [decVbiAux_cont _ _ _ _ (by omega) (by omega) (by omega) (by simp only [vbiMax]; omega)]
        rw [decVbiAux_last _ _ _ _ (by omega) (by omega) (by omega) (by simp only [vbiMax]; omega)]
        congr 2
        omega
    · rw [if_neg h2]
      simp only [List.cons_append, List.nil_append]
      rw [decVbiAux_cont _ _ _ _ (by omega) (by omega) (by omega) (by simp only [vbiMax]; omega)]
      rw [decVbiAux_last _ _ _ _ (by omega) (by omega) (by omega) (by simp only [vbiMax]; omega)]
      congr 2
      omega
  · rw [if_neg h1]
    simp only [List.cons_append, List.nil_append]
    rw [decVbiAux_last _ _ _ _ (by omega) (by omega) (by omega) (by simp only [vbiMax]; omega)]
    congr 2
    omega

/-- the value the reader returns never exceeds 268 435 455 -/
theorem decVbiAux_le (bs : Bytes) (v m n : Nat) (rest : Bytes) (h : decVbiAux bs v m = .ok (n, rest)) :
    n ≤ vbiMax := by
  induction bs generalizing v m with
  | nil =>
    simp only [decVbiAux] at h
    split at h
    · cases h
    · cases h; omega
  | cons d t ih =>
    simp only [decVbiAux] at h
    split at h
    · cases h
    · split at h
      · cases h; omega
      · exact ih _ _ h

/-- `pre` is a complete variable byte integer: continuation bytes followed by one byte below 128 -/
def VbiTerminated (pre : Bytes) : Prop := ∃ l, pre.getLast? = some l ∧ l < 128

/-- The reader consumes a prefix `pre` of its input and returns exactly the rest. If the prefix is a
    terminated integer the result does not depend on what follows; otherwise the input ended inside the
    integer (`io.EOF` is read as a terminating zero byte) and nothing is left. -/
theorem decVbiAux_prefix (bs : Bytes) (v m n : Nat) (rest : Bytes) (h : decVbiAux bs v m = .ok (n, rest)) :
    ∃ pre, bs = pre ++ rest ∧
      ((VbiTerminated pre ∧ ∀ rest', decVbiAux (pre ++ rest') v m = .ok (n, rest'))
        ∨ (rest = [] ∧ ¬ VbiTerminated pre)) := by
  induction bs generalizing v m with
  | nil =>
    simp only [decVbiAux] at h
    split at h
    · cases h
    · cases h
      exact ⟨[], rfl, Or.inr ⟨rfl, by simp [VbiTerminated]⟩⟩
  | cons d t ih =>
    simp only [decVbiAux] at h
    split at h
    · cases h
    · rename_i hle
      split at h
      · rename_i hd
        cases h
        refine ⟨[d], rfl, Or.inl ⟨⟨d, rfl, hd⟩, ?_⟩⟩
        intro rest'
        simp only [List.cons_append, List.nil_append, decVbiAux]
        rw [if_neg hle, if_pos hd]
      · rename_i hd
        obtain ⟨pre, hpre, hcase⟩ := ih _ _ h
        refine ⟨d :: pre, by rw [hpre]; rfl, ?_⟩
        rcases hcase with ⟨⟨l, hl, hlt⟩, hind⟩ | ⟨hr, hnt⟩
        · left
          refine ⟨⟨l, ?_, hlt⟩, ?_⟩
          · cases pre with
            | nil => simp at hl
            | cons p ps => simpa [List.getLast?_cons_cons] using hl
          · intro rest'
            simp only [List.cons_append, decVbiAux]
            rw [if_neg hle, if_neg hd]
            exact hind rest'
        · right
          refine ⟨hr, ?_⟩
          rintro ⟨l, hl, hlt⟩
          cases pre with
          | nil =>
            simp at hl
            omega
          | cons p ps =>
            apply hnt
            exact ⟨l, by simpa [List.getLast?_cons_cons] using hl, hlt⟩

/-! ### fixed-width integers -/

theorem readU16_writeU16 (n : Nat) (h : n < 65536) (rest : Bytes) :
    readU16 (writeU16 n ++ rest) = .ok (n, rest) := by
  simp only [writeU16, List.cons_append, List.nil_append, readU16]
  congr 2
  omega

theorem readU32_writeU32 (n : Nat) (h : n < 4294967296) (rest : Bytes) :
    readU32 (writeU32 n ++ rest) = .ok (n, rest) := by
  simp only [writeU32, List.cons_append, List.nil_append, readU32]
  congr 2
  omega

theorem readU16_inv (bs : Bytes) (n : Nat) (rest : Bytes) (hb : AllBytes bs) (h : readU16 bs = .ok (n, rest)) :
    bs = writeU16 n ++ rest ∧ n < 65536 := by
  match bs, h with
  | a :: b :: t, h =>
    simp only [readU16] at h
    cases h
    have ha : a < 256 := hb a (by simp)
    have hb' : b < 256 := hb b (by simp)
    refine ⟨?_, by omega⟩
    simp only [writeU16, List.cons_append, List.nil_append]
    congr 1
    · omega
    · congr 1
      omega

theorem readU32_inv (bs : Bytes) (n : Nat) (rest : Bytes) (hb : AllBytes bs) (h : readU32 bs = .ok (n, rest)) :
    bs = writeU32 n ++ rest ∧ n < 4294967296 := by
  match bs, h with
  | a :: b :: c :: d :: t, h =>
    simp only [readU32] at h
    cases h
    have ha : a < 256 := hb a (by simp)
    have hb' : b < 256 := hb b (by simp)
    have hc : c < 256 := hb c (by simp)
    have hd : d < 256 := hb d (by simp)
    refine ⟨?_, by omega⟩
    simp only [writeU32, List.cons_append, List.nil_append]
    congr 1
    · omega
    · congr 1
      · omega
      · congr 1
        · omega
        · congr 1
          omega

/-! ### length-prefixed fields -/

theorem readBin_writeBin (s : Bytes) (h : s.length ≤ 65535) (rest : Bytes) :
    readBin (writeBin s ++ rest) = .ok (s, rest) := by
  simp only [writeBin, writeU16, List.cons_append, List.nil_append, readBin]
  have e : s.length % 65536 / 256 % 256 * 256 + s.length % 65536 % 256 = s.length := by omega
  rw [e]
  simp

theorem readBin_inv (bs : Bytes) (s rest : Bytes) (hb : AllBytes bs) (h : readBin bs = .ok (s, rest)) :
    bs = writeBin s ++ rest ∧ s.length ≤ 65535 := by
  match bs, h with
  | a :: b :: t, h =>
    simp only [readBin] at h
    split at h
    · cases h
    · rename_i hlen
      cases h
      have ha : a < 256 := hb a (by simp)
      have hb' : b < 256 := hb b (by simp)
      have hl : (List.take (a * 256 + b) t).length = a * 256 + b := by
        rw [List.length_take]; omega
      refine ⟨?_, by omega⟩
      simp only [writeBin, writeU16, hl, List.cons_append, List.nil_append]
      congr 1
      · omega
      · congr 1
        · omega
        · exact (List.take_append_drop _ _).symm

theorem readBin_rest_suffix (bs : Bytes) (s rest : Bytes) (h : readBin bs = .ok (s, rest)) :
    ∃ pre, bs = pre ++ rest ∧ pre.length = 2 + s.length := by
  match bs, h with
  | a :: b :: t, h =>
    simp only [readBin] at h
    split at h
    · cases h
    · cases h
      refine ⟨a :: b :: List.take (a * 256 + b) t, by simp, ?_⟩
      simp only [List.length_cons]
      omega

end GmqttVerif.Codec
