import GmqttVerif.Model.Codec.Prim
/-
  Lemmas about the codec primitives: variable byte integer, u16/u32, length-prefixed fields.
-/
namespace GmqttVerif.Codec

/-! ### variable byte integer -/

theorem or_shl32 (a x k : Nat) (ha : a < 2 ^ k) (hx : x < 128) (hk : k ≤ 21) :
    a ||| shl32 x k = a + x * 2 ^ k := by
  have h2 : (2:Nat) ^ k ≤ 2 ^ 21 := Nat.pow_le_pow_right (by omega) hk
  have hpos : 0 < (2:Nat) ^ 21 := by omega
  have hlt : x * 2 ^ k < 128 * 2 ^ 21 := Nat.mul_lt_mul_of_lt_of_le hx h2 hpos
  have hs : shl32 x k = x * 2 ^ k := by
    unfold shl32
    rw [if_neg (by omega)]
    exact Nat.mod_eq_of_lt (by omega)
  rw [hs, Nat.or_comm, ← Nat.shiftLeft_eq, ← Nat.shiftLeft_add_eq_or_of_lt ha x, Nat.add_comm]

theorem vbiDigits_length (n : Nat) (h : n < 268435456) : (vbiDigits 4 n).length = vbiLen n := by
  have h4 : ¬ (n / 128 / 128 / 128 / 128 > 0) := by omega
  unfold vbiLen
  simp only [vbiDigits, if_neg h4]
  by_cases h1 : n / 128 > 0
  · rw [if_pos h1]
    by_cases h2 : n / 128 / 128 > 0
    · rw [if_pos h2]
      by_cases h3 : n / 128 / 128 / 128 > 0
      · rw [if_pos h3, if_neg (by omega), if_neg (by omega), if_neg (by omega), if_pos (by omega)]; rfl
      · rw [if_neg h3, if_neg (by omega), if_neg (by omega), if_pos (by omega)]; rfl
    · rw [if_neg h2, if_neg (by omega), if_pos (by omega)]; rfl
  · rw [if_neg h1, if_pos (by omega)]; rfl

theorem decVbiAux_cont (x acc k : Nat) (t : Bytes) (hx : x < 128) (ha : acc < 2 ^ k) (hk : k ≤ 21)
    (hm : acc + x * 2 ^ k ≤ vbiMax) :
    decVbiAux ((x + 128) :: t) acc k = decVbiAux t (acc + x * 2 ^ k) (k + 7) := by
  simp only [decVbiAux]
  have e : (x + 128) % 128 = x := by omega
  rw [e, or_shl32 acc x k ha hx hk, if_neg (by omega), if_neg (by omega)]
  congr 1
  omega

theorem decVbiAux_last (d acc k : Nat) (t : Bytes) (hd : d < 128) (ha : acc < 2 ^ k) (hk : k ≤ 21)
    (hm : acc + d * 2 ^ k ≤ vbiMax) :
    decVbiAux (d :: t) acc k = .ok (acc + d * 2 ^ k, t) := by
  simp only [decVbiAux]
  have e : d % 128 = d := by omega
  rw [e, or_shl32 acc d k ha hd hk, if_neg (by omega), if_pos hd]

/-- writer then reader: the canonical encoding decodes to the value and leaves the rest untouched -/
theorem decVbi_vbiDigits (n : Nat) (h : n < 268435456) (rest : Bytes) :
    decVbi (vbiDigits 4 n ++ rest) = .ok (n, rest) := by
  have h4 : ¬ (n / 128 / 128 / 128 / 128 > 0) := by omega
  unfold decVbi
  simp only [vbiDigits, if_neg h4] at *
  by_cases h1 : n / 128 > 0
  · rw [if_pos h1]
    by_cases h2 : n / 128 / 128 > 0
    · rw [if_pos h2]
      by_cases h3 : n / 128 / 128 / 128 > 0
      · rw [if_pos h3]
        simp only [List.cons_append, List.nil_append]
        rw [decVbiAux_cont _ _ _ _ (by omega) (by omega) (by omega) (by simp only [vbiMax]; omega)]
        rw [decVbiAux_cont _ _ _ _ (by omega) (by omega) (by omega) (by simp only [vbiMax]; omega)]
        rw [decVbiAux_cont _ _ _ _ (by omega) (by omega) (by omega) (by simp only [vbiMax]; omega)]
        rw [decVbiAux_last _ _ _ _ (by omega) (by omega) (by omega) (by simp only [vbiMax]; omega)]
        congr 2
        omega
      · rw [if_neg h3]
        simp only [List.cons_append, List.nil_append]
        rw [decVbiAux_cont _ _ _ _ (by omega) (by omega) (by omega) (by simp only [vbiMax]; omega)]
        rw [decVbiAux_cont _ _ _ _ (by omega) (by omega) (by omega) (by simp only [vbiMax]; omega)]
        rw [decVbiAux_last _ _ _ _ (by omega) (by omega) (by omega) (by simp only [vbiMax]; omega)]
        congr 2
        omega
    · rw [if_neg h2]
      simp only [List.cons_append, List.nil_append]
      rw [decVbiAux_cont _ _ _ _ (by omega) (by omega) (by omega) (by simp only [vbiMax]; omega)]
      rw [decVbiAux_last _ _ _ _ (by omega) (by omega) (by omega) (by simp only [vbiMax]; omega)]
      congr 2
      omega
  · rw [if_neg h1]
    simp only [List.cons_append, List.nil_append]
    rw [decVbiAux_last _ _ _ _ (by omega) (by omega) (by omega) (by simp only [vbiMax]; omega)]
    congr 2
    omega

/-- the value the reader returns never exceeds 268 435 455 -/
theorem decVbiAux_le (bs : Bytes) (v m n : Nat) (rest : Bytes) (h : decVbiAux bs v m = .ok (n, rest)) :
    n ≤ vbiMax := by
  induction bs generalizing v m with
  | nil =>
    simp only [decVbiAux] at h
    split at h
    · cases h
    · cases h; omega
  | cons d t ih =>
    simp only [decVbiAux] at h
    split at h
    · cases h
    · split at h
      · cases h; omega
      · exact ih _ _ h

/-- `pre` is a complete variable byte integer: continuation bytes followed by one byte below 128 -/
def VbiTerminated (pre : Bytes) : Prop := ∃ l, pre.getLast? = some l ∧ l < 128

/-- The reader consumes a prefix `pre` of its input and returns exactly the rest. If the prefix is a
    terminated integer the result does not depend on what follows; otherwise the input ended inside the
    integer (`io.EOF` is read as a terminating zero byte) and nothing is left. -/
theorem decVbiAux_prefix (bs : Bytes) (v m n : Nat) (rest : Bytes) (h : decVbiAux bs v m = .ok (n, rest)) :
    ∃ pre, bs = pre ++ rest ∧
      ((VbiTerminated pre ∧ ∀ rest', decVbiAux (pre ++ rest') v m = .ok (n, rest'))
        ∨ (rest = [] ∧ ¬ VbiTerminated pre)) := by
  induction bs generalizing v m with
  | nil =>
    simp only [decVbiAux] at h
    split at h
    · cases h
    · cases h
      exact ⟨[], rfl, Or.inr ⟨rfl, by simp [VbiTerminated]⟩⟩
  | cons d t ih =>
    simp only [decVbiAux] at h
    split at h
    · cases h
    · rename_i hle
      split at h
      · rename_i hd
        cases h
        refine ⟨[d], rfl, Or.inl ⟨⟨d, rfl, hd⟩, ?_⟩⟩
        intro rest'
        simp only [List.cons_append, List.nil_append, decVbiAux]
        rw [if_neg hle, if_pos hd]
      · rename_i hd
        obtain ⟨pre, hpre, hcase⟩ := ih _ _ h
        refine ⟨d :: pre, by rw [hpre]; rfl, ?_⟩
        rcases hcase with ⟨⟨l, hl, hlt⟩, hind⟩ | ⟨hr, hnt⟩
        · left
          refine ⟨⟨l, ?_, hlt⟩, ?_⟩
          · cases pre with
            | nil => simp at hl
            | cons p ps => simpa [List.getLast?_cons_cons] using hl
          · intro rest'
            simp only [List.cons_append, decVbiAux]
            rw [if_neg hle, if_neg hd]
            exact hind rest'
        · right
          refine ⟨hr, ?_⟩
          rintro ⟨l, hl, hlt⟩
          cases pre with
          | nil =>
            simp at hl
            omega
          | cons p ps =>
            apply hnt
            exact ⟨l, by simpa [List.getLast?_cons_cons] using hl, hlt⟩

theorem decVbiAux_len' (bs : Bytes) (v m n : Nat) (rest : Bytes) (h : decVbiAux bs v m = .ok (n, rest)) :
    rest.length ≤ bs.length := by
  obtain ⟨pre, hp, _⟩ := decVbiAux_prefix bs v m n rest h
  rw [hp]; simp

/-- upper bound (exclusive) of what `j` seven-bit groups can hold, capped at the 28 bits the reader allows -/
def vbiCap (j : Nat) : Nat :=
  if j = 0 then 1 else if j = 1 then 128 else if j = 2 then 16384 else if j = 3 then 2097152 else 268435456

theorem vbiCap_0 : vbiCap 0 = 1 := rfl
theorem vbiCap_1 : vbiCap 1 = 128 := rfl
theorem vbiCap_2 : vbiCap 2 = 16384 := rfl
theorem vbiCap_3 : vbiCap 3 = 2097152 := rfl
theorem vbiCap_4 : vbiCap 4 = 268435456 := rfl
theorem vbiCap_ge4 (j : Nat) (h : 4 ≤ j) : vbiCap j = 268435456 := by
  unfold vbiCap
  rw [if_neg (by omega), if_neg (by omega), if_neg (by omega), if_neg (by omega)]

/-- after `j` groups have been accumulated (`v < 128^j`), consuming `c` more bytes yields a value `< 128^(j+c)`:
    the value read is never larger than its byte count allows, hence the canonical form is never longer -/
theorem decVbiAux_cap (bs : Bytes) : ∀ (j v n : Nat) (rest : Bytes), j ≤ 4 → v < vbiCap j →
    decVbiAux bs v (7 * j) = .ok (n, rest) → n < vbiCap (j + (bs.length - rest.length)) := by
  induction bs with
  | nil =>
    intro j v n rest _ hv h
    simp only [decVbiAux] at h
    split at h
    · cases h
    · cases h; simpa using hv
  | cons d t ih =>
    intro j v n rest hj hv h
    have hle := decVbiAux_le _ _ _ _ _ h
    have hlen := decVbiAux_prefix _ _ _ _ _ h
    obtain ⟨pre, hpre, _⟩ := hlen
    have hl : rest.length ≤ (d :: t).length := by rw [hpre]; simp
    by_cases hj4 : j = 4
    · subst hj4
      rw [vbiCap_ge4 _ (by omega)]
      simp only [vbiMax] at hle
      omega
    · have hj3 : j ≤ 3 := by omega
      have hk : 7 * j ≤ 21 := by omega
      have hv2 : v < 2 ^ (7 * j) := by
        have : j = 0 ∨ j = 1 ∨ j = 2 ∨ j = 3 := by omega
        rcases this with rfl | rfl | rfl | rfl
        · rw [vbiCap_0] at hv; simpa using hv
        · rw [vbiCap_1] at hv; simpa using hv
        · rw [vbiCap_2] at hv; simpa using hv
        · rw [vbiCap_3] at hv; simpa using hv
      simp only [decVbiAux] at h
      rw [or_shl32 v (d % 128) (7 * j) hv2 (by omega) hk] at h
      have hnew : v + d % 128 * 2 ^ (7 * j) < vbiCap (j + 1) := by
        have : j = 0 ∨ j = 1 ∨ j = 2 ∨ j = 3 := by omega
        rcases this with rfl | rfl | rfl | rfl
        · rw [vbiCap_0] at hv; rw [vbiCap_1]; simp only [Nat.mul_zero, Nat.pow_zero]; omega
        · rw [vbiCap_1] at hv; rw [vbiCap_2]; simp only [Nat.mul_one, Nat.reducePow]; omega
        · rw [vbiCap_2] at hv; rw [vbiCap_3]; simp only [Nat.reduceMul, Nat.reducePow]; omega
        · rw [vbiCap_3] at hv; rw [vbiCap_4]; simp only [Nat.reduceMul, Nat.reducePow]; omega
      split at h
      · cases h
      · split at h
        · cases h
          simp only [List.length_cons]
          have : j + (t.length + 1 - t.length) = j + 1 := by omega
          rw [this]; exact hnew
        · have e7 : (7 * j + 7) % 4294967296 = 7 * (j + 1) := by omega
          rw [e7] at h
          have := ih (j + 1) _ n rest (by omega) hnew h
          have hl2 : rest.length ≤ t.length := decVbiAux_len' t _ _ n rest h
          simp only [List.length_cons]
          have e : j + (t.length + 1 - rest.length) = j + 1 + (t.length - rest.length) := by omega
          rw [e]; exact this

/-! ### fixed-width integers -/

theorem readU16_writeU16 (n : Nat) (h : n < 65536) (rest : Bytes) :
    readU16 (writeU16 n ++ rest) = .ok (n, rest) := by
  simp only [writeU16, List.cons_append, List.nil_append, readU16]
  congr 2
  omega

theorem readU32_writeU32 (n : Nat) (h : n < 4294967296) (rest : Bytes) :
    readU32 (writeU32 n ++ rest) = .ok (n, rest) := by
  simp only [writeU32, List.cons_append, List.nil_append, readU32]
  congr 2
  omega

theorem readU16_inv (bs : Bytes) (n : Nat) (rest : Bytes) (hb : AllBytes bs) (h : readU16 bs = .ok (n, rest)) :
    bs = writeU16 n ++ rest ∧ n < 65536 := by
  match bs, h with
  | a :: b :: t, h =>
    simp only [readU16] at h
    cases h
    have ha : a < 256 := hb a (by simp)
    have hb' : b < 256 := hb b (by simp)
    refine ⟨?_, by omega⟩
    simp only [writeU16, List.cons_append, List.nil_append]
    congr 1
    · omega
    · congr 1
      omega

theorem readU32_inv (bs : Bytes) (n : Nat) (rest : Bytes) (hb : AllBytes bs) (h : readU32 bs = .ok (n, rest)) :
    bs = writeU32 n ++ rest ∧ n < 4294967296 := by
  match bs, h with
  | a :: b :: c :: d :: t, h =>
    simp only [readU32] at h
    cases h
    have ha : a < 256 := hb a (by simp)
    have hb' : b < 256 := hb b (by simp)
    have hc : c < 256 := hb c (by simp)
    have hd : d < 256 := hb d (by simp)
    refine ⟨?_, by omega⟩
    simp only [writeU32, List.cons_append, List.nil_append]
    congr 1
    · omega
    · congr 1
      · omega
      · congr 1
        · omega
        · congr 1
          omega

/-! ### length-prefixed fields -/

theorem readBin_writeBin (s : Bytes) (h : s.length ≤ 65535) (rest : Bytes) :
    readBin (writeBin s ++ rest) = .ok (s, rest) := by
  simp only [writeBin, writeU16, List.cons_append, List.nil_append, readBin]
  have e : s.length % 65536 / 256 % 256 * 256 + s.length % 65536 % 256 = s.length := by omega
  rw [e]
  simp

theorem readBin_inv (bs : Bytes) (s rest : Bytes) (hb : AllBytes bs) (h : readBin bs = .ok (s, rest)) :
    bs = writeBin s ++ rest ∧ s.length ≤ 65535 := by
  match bs, h with
  | a :: b :: t, h =>
    simp only [readBin] at h
    split at h
    · cases h
    · rename_i hlen
      cases h
      have ha : a < 256 := hb a (by simp)
      have hb' : b < 256 := hb b (by simp)
      have hl : (List.take (a * 256 + b) t).length = a * 256 + b := by
        rw [List.length_take]; omega
      refine ⟨?_, by omega⟩
      simp only [writeBin, writeU16, hl, List.cons_append, List.nil_append]
      congr 1
      · omega
      · congr 1
        · omega
        · exact (List.take_append_drop _ _).symm

theorem readBin_rest_suffix (bs : Bytes) (s rest : Bytes) (h : readBin bs = .ok (s, rest)) :
    ∃ pre, bs = pre ++ rest ∧ pre.length = 2 + s.length := by
  match bs, h with
  | a :: b :: t, h =>
    simp only [readBin] at h
    split at h
    · cases h
    · cases h
      refine ⟨a :: b :: List.take (a * 256 + b) t, by simp, ?_⟩
      simp only [List.length_cons]
      omega

end GmqttVerif.Codec
