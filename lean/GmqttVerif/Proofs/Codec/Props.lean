import GmqttVerif.Model.Codec.Props
import GmqttVerif.Proofs.Codec.Utf8
/-
  Properties: well-formedness vocabulary and the lemmas for
    `props_roundtrip`            WF ps ⇒ unpack (pack ps ++ rest) = (ps, rest)
    `props_unpack_wf`            unpack bs = (ps, _) ⇒ WF ps          (so accepted ⇒ re-encode ⇒ same value)
-/
namespace GmqttVerif.Codec

/-! ### vocabulary -/

/-- ids strictly ascending: at most one entry per property id, in the order `Properties.Pack` writes them -/
def SortedProps (ps : Props) : Prop := ps.Pairwise (fun a b => a.1 < b.1)

/-- the value has the Go type of the struct field for this id and satisfies what the decoder checks -/
def wfEntry (e : Nat × PVal) : Bool :=
  match kindOf e.1, e.2 with
  | some .byte, .byte n => n == 0 || n == 1
  | some .u16, .u16 n => decide (n < 65536) && validU16 e.1 n && !(e.1 == 0x23 && n == 0)
  | some .u32, .u32 n => decide (n < 4294967296) && validU32 e.1 n
  | some .str, .str b => decide (b.length ≤ 65535) && validUTF8 b && validStr e.1 b
  | some .bin, .str b => decide (b.length ≤ 65535)
  | some .vbi, .vbis l => (match l with | [v] => decide (0 < v) && decide (v ≤ vbiMax) | _ => false)
  | some .user, .users l =>
    !l.isEmpty && l.all (fun kv => decide (kv.1.length ≤ 65535) && validUTF8 kv.1
                                   && decide (kv.2.length ≤ 65535) && validUTF8 kv.2)
  | _, _ => false

/-- well-formed property set for packet type `t` (`none` = will properties): exactly the values
    `Properties.Unpack` can produce -/
def WFProps (t : Option Nat) (ps : Props) : Prop :=
  SortedProps ps ∧ (∀ e ∈ ps, wfEntry e = true) ∧ (∀ e ∈ ps, idAllowed t e.1 = true)
    ∧ (t.isSome = true → ps.has 0x16 = true → ps.has 0x15 = true)
    ∧ (packBody ps).length ≤ vbiMax

/-! ### association list lemmas -/

theorem get_eq_none_of_lt (ps : Props) (id : Nat) (h : ∀ e ∈ ps, e.1 < id) : ps.get id = none := by
  induction ps with
  | nil => rfl
  | cons e t ih =>
    obtain ⟨i, w⟩ := e
    have hi : i < id := h (i, w) (by simp)
    have : (id == i) = false := by simp; omega
    simp only [Props.get, List.lookup, this]
    exact ih (fun x hx => h x (by simp [hx]))

theorem has_false_of_lt (ps : Props) (id : Nat) (h : ∀ e ∈ ps, e.1 < id) : ps.has id = false := by
  simp [Props.has, get_eq_none_of_lt ps id h]

theorem put_of_gt (ps : Props) (id : Nat) (v : PVal) (h : ∀ e ∈ ps, e.1 < id) :
    Props.put id v ps = ps ++ [(id, v)] := by
  induction ps with
  | nil => rfl
  | cons e t ih =>
    obtain ⟨i, w⟩ := e
    have hi : i < id := h (i, w) (by simp)
    simp only [Props.put]
    rw [if_neg (by omega), if_neg (by omega), ih (fun x hx => h x (by simp [hx]))]
    rfl

theorem get_append_last (ps : Props) (id : Nat) (v : PVal) (h : ∀ e ∈ ps, e.1 < id) :
    (ps ++ [(id, v)]).get id = some v := by
  induction ps with
  | nil => simp [Props.get]
  | cons e t ih =>
    obtain ⟨i, w⟩ := e
    have hi : i < id := h (i, w) (by simp)
    have : (id == i) = false := by simp; omega
    simp only [List.cons_append, Props.get, List.lookup, this]
    exact ih (fun x hx => h x (by simp [hx]))

theorem put_append_last (ps : Props) (id : Nat) (v v' : PVal) (h : ∀ e ∈ ps, e.1 < id) :
    Props.put id v' (ps ++ [(id, v)]) = ps ++ [(id, v')] := by
  induction ps with
  | nil => simp [Props.put]
  | cons e t ih =>
    obtain ⟨i, w⟩ := e
    have hi : i < id := h (i, w) (by simp)
    simp only [List.cons_append, Props.put]
    rw [if_neg (by omega), if_neg (by omega), ih (fun x hx => h x (by simp [hx]))]

/-! ### one property on the wire -/

theorem readStr_writeBin (s : Bytes) (hl : s.length ≤ 65535) (hv : validUTF8 s = true) (rest : Bytes) :
    readStr true (writeBin s ++ rest) = .ok (s, rest) := by
  have e : s.length % 65536 / 256 % 256 * 256 + s.length % 65536 % 256 = s.length := by omega
  simp only [writeBin, writeU16, List.cons_append, List.nil_append, readStr, e]
  simp [hv]

theorem encVbiOrNil_of_le (n : Nat) (h : n ≤ vbiMax) : encVbiOrNil n = vbiDigits 4 n := by
  have : n < 268435456 := by simp only [vbiMax] at h; omega
  simp [encVbiOrNil, encVbi, this]

/-- wire form of a single-valued entry: the id byte followed by `payload` -/
def payloadOf : PVal → Bytes
  | .byte n => [n]
  | .u16 n => writeU16 n
  | .u32 n => writeU32 n
  | .str b => writeBin b
  | .vbis l => encVbiOrNil (l.headD 0)
  | .users _ => []

def isUsers : PVal → Bool
  | .users _ => true
  | _ => false

theorem encEntry_single (id : Nat) (v : PVal) (hw : wfEntry (id, v) = true) (hu : isUsers v = false) :
    encEntry (id, v) = id :: payloadOf v := by
  cases v with
  | byte n => rfl
  | u16 n => rfl
  | u32 n => rfl
  | str b => rfl
  | vbis l =>
    simp only [wfEntry] at hw
    split at hw <;> try (first | cases hw | contradiction)
    rename_i l' heq
    cases heq
    match l, hw with
    | [x], _ => simp [encEntry, payloadOf]
  | users l => cases hu

/-- reading back a single-valued entry into a struct that has no field ≥ id set yet -/
theorem applyProp_single (id : Nat) (k : PKind) (v : PVal) (acc : Props) (rest : Bytes)
    (hk : kindOf id = some k) (hw : wfEntry (id, v) = true) (hu : isUsers v = false)
    (hacc : ∀ e ∈ acc, e.1 < id) :
    applyProp id k acc (payloadOf v ++ rest) = .ok (acc ++ [(id, v)], rest) := by
  have hhas := has_false_of_lt acc id hacc
  have hput := fun w => put_of_gt acc id w hacc
  simp only [wfEntry, hk] at hw
  cases k <;> cases v <;> simp only [isUsers] at hu <;> (try cases hu) <;> simp only at hw <;> (try cases hw)
  · -- byte
    rename_i n
    simp only [Bool.or_eq_true, beq_iff_eq] at hw
    simp only [applyProp, hhas, Bool.false_eq_true, if_false, payloadOf, List.cons_append, List.nil_append]
    have : (n != 0 && n != 1) = false := by
      rcases hw with h | h <;> simp [h]
    simp [this, hput]
  · -- u16
    rename_i n
    simp only [Bool.and_eq_true, decide_eq_true_eq, Bool.not_eq_true'] at hw
    obtain ⟨⟨h1, h2⟩, h3⟩ := hw
    simp only [applyProp, hhas, Bool.false_eq_true, if_false, payloadOf, readU16_writeU16 n h1 rest, h2,
      Bool.not_true, hput]
    have : (decide (id = 0x23) && decide (n = 0)) = false := by
      simpa [Bool.and_eq_false_iff] using h3
    simp only [this, Bool.false_eq_true, if_false]
  · -- u32
    rename_i n
    simp only [Bool.and_eq_true, decide_eq_true_eq] at hw
    obtain ⟨h1, h2⟩ := hw
    simp only [applyProp, hhas, Bool.false_eq_true, if_false, payloadOf, readU32_writeU32 n h1 rest, h2,
      Bool.not_true, hput]
  · -- str
    rename_i b
    simp only [Bool.and_eq_true, decide_eq_true_eq] at hw
    obtain ⟨⟨h1, h2⟩, h3⟩ := hw
    simp only [applyProp, hhas, Bool.false_eq_true, if_false, payloadOf, readStr_writeBin b h1 h2 rest, h3,
      Bool.not_true, hput]
  · -- bin
    rename_i b
    simp only [decide_eq_true_eq] at hw
    simp only [applyProp, hhas, Bool.false_eq_true, if_false, payloadOf, readBin_writeBin b hw rest, hput]
  · -- vbi
    rename_i l
    match l, hw with
    | [x], hw =>
      simp only [Bool.and_eq_true, decide_eq_true_eq] at hw
      have hx : x < 268435456 := by have := hw.2; simp only [vbiMax] at this; omega
      simp only [applyProp, hhas, Bool.false_eq_true, if_false, payloadOf, List.headD_cons,
        encVbiOrNil_of_le x hw.2, decVbi_vbiDigits x hx rest, hput]
      rw [if_neg (by omega)]

/-! ### readers return a suffix that is not longer than the input -/

theorem readU16_len {bs : Bytes} {n : Nat} {rest : Bytes} (h : readU16 bs = .ok (n, rest)) :
    rest.length + 2 = bs.length := by
  match bs, h with
  | a :: b :: t, h => simp only [readU16] at h; cases h; simp

theorem readU32_len {bs : Bytes} {n : Nat} {rest : Bytes} (h : readU32 bs = .ok (n, rest)) :
    rest.length + 4 = bs.length := by
  match bs, h with
  | a :: b :: c :: d :: t, h => simp only [readU32] at h; cases h; simp

theorem readBin_len {bs s rest : Bytes} (h : readBin bs = .ok (s, rest)) :
    rest.length + s.length + 2 = bs.length := by
  obtain ⟨pre, hp, hl⟩ := readBin_rest_suffix bs s rest h
  have := congrArg List.length hp
  simp only [List.length_append] at this
  omega

theorem readStr_eq_readBin {must : Bool} {bs s rest : Bytes} (h : readStr must bs = .ok (s, rest)) :
    readBin bs = .ok (s, rest) ∧ (must = true → validUTF8 s = true) := by
  match bs, h with
  | a :: b :: t, h =>
    simp only [readStr] at h
    split at h
    · cases h
    · rename_i hlen
      split at h
      · cases h
      · rename_i hv
        cases h
        refine ⟨by simp [readBin, hlen], fun hm => ?_⟩
        subst hm
        simpa using hv

theorem readStr_len {must : Bool} {bs s rest : Bytes} (h : readStr must bs = .ok (s, rest)) :
    rest.length + s.length + 2 = bs.length := readBin_len (readStr_eq_readBin h).1

theorem decVbiAux_len (bs : Bytes) (v m n : Nat) (rest : Bytes) (h : decVbiAux bs v m = .ok (n, rest)) :
    rest.length ≤ bs.length := by
  obtain ⟨pre, hp, _⟩ := decVbiAux_prefix bs v m n rest h
  rw [hp]; simp

theorem applyProp_len {id : Nat} {k : PKind} {acc acc' : Props} {w w' : Bytes}
    (h : applyProp id k acc w = .ok (acc', w')) : w'.length ≤ w.length := by
  cases k <;> simp only [applyProp] at h
  · split at h
    · cases h
    · split at h
      · cases h
      · split at h
        · cases h
        · cases h; simp
  · split at h
    · cases h
    · split at h
      · cases h
      · rename_i o rest hr
        split at h
        · cases h
        · split at h
          · cases h
          · cases h; have := readU16_len hr; omega
  · split at h
    · cases h
    · split at h
      · cases h
      · rename_i o rest hr
        split at h
        · cases h
        · cases h; have := readU32_len hr; omega
  · split at h
    · cases h
    · split at h
      · cases h
      · rename_i o rest hr
        split at h
        · cases h
        · cases h; have := readStr_len hr; omega
  · split at h
    · cases h
    · split at h
      · cases h
      · rename_i o rest hr
        cases h; have := readBin_len hr; omega
  · split at h
    · cases h
    · split at h
      · cases h
      · rename_i si rest hr
        split at h
        · cases h
        · cases h; exact decVbiAux_len _ _ _ _ _ hr
  · split at h
    · cases h
    · rename_i k1 rest1 hr1
      split at h
      · cases h
      · rename_i v1 rest2 hr2
        cases h
        have := readStr_len hr1
        have := readStr_len hr2
        omega

/-- the loop does not depend on the fuel as long as it is at least the length of the unread window -/
theorem unpackLoop_fuel (t : Option Nat) (f1 : Nat) : ∀ (f2 : Nat) (w : Bytes) (acc : Props),
    w.length ≤ f1 → w.length ≤ f2 → unpackLoop t f1 w acc = unpackLoop t f2 w acc := by
  induction f1 with
  | zero =>
    intro f2 w acc h1 _
    have : w = [] := List.eq_nil_of_length_eq_zero (by omega)
    subst this
    cases f2 <;> simp [unpackLoop]
  | succ f1 ih =>
    intro f2 w acc h1 h2
    cases w with
    | nil => cases f2 <;> simp [unpackLoop]
    | cons id w =>
      cases f2 with
      | zero => simp at h2
      | succ f2 =>
        simp only [unpackLoop]
        split
        · rfl
        · split
          · rfl
          · split
            · rfl
            · rename_i acc' w' hap
              have := applyProp_len hap
              simp only [List.length_cons] at h1 h2
              exact ih f2 w' acc' (by omega) (by omega)

/-- the loop with the fuel the code's structure guarantees -/
def loopN (t : Option Nat) (w : Bytes) (acc : Props) : Except Err Props := unpackLoop t w.length w acc

theorem loopN_nil (t : Option Nat) (acc : Props) : loopN t [] acc = .ok acc := by
  simp [loopN, unpackLoop]

theorem loopN_cons (t : Option Nat) (id : Nat) (w : Bytes) (acc : Props) :
    loopN t (id :: w) acc =
      if !idAllowed t id then .error (notAllowedErr t) else
      match kindOf id with
      | none => .error .malformed
      | some k =>
        match applyProp id k acc w with
        | .error e => .error e
        | .ok (acc', w') => loopN t w' acc' := by
  simp only [loopN, List.length_cons, unpackLoop]
  by_cases ha : (!idAllowed t id) = true
  · rw [if_pos ha, if_pos ha]
  · rw [if_neg ha, if_neg ha]
    cases hk : kindOf id with
    | none => rfl
    | some k =>
      simp only
      cases hap : applyProp id k acc w with
      | error e => rfl
      | ok r =>
        obtain ⟨acc', w'⟩ := r
        simp only
        exact unpackLoop_fuel t _ _ _ _ (applyProp_len hap) (Nat.le_refl _)

/-! ### writer then reader -/

theorem kindOf_user {id : Nat} (h : kindOf id = some .user) : id = 0x26 := by
  unfold kindOf propKinds at h
  simp only [List.lookup] at h
  repeat' split at h
  all_goals first | (cases h; done) | (rename_i hh; simpa using hh) | skip

/-- wire form of one user property -/
def encUser (kv : Bytes × Bytes) : Bytes := 0x26 :: (writeBin kv.1 ++ writeBin kv.2)

def userOK (kv : Bytes × Bytes) : Bool :=
  decide (kv.1.length ≤ 65535) && validUTF8 kv.1 && decide (kv.2.length ≤ 65535) && validUTF8 kv.2

theorem applyProp_user (acc : Props) (kv : Bytes × Bytes) (rest : Bytes) (h : userOK kv = true) :
    applyProp 0x26 .user acc (writeBin kv.1 ++ writeBin kv.2 ++ rest) = .ok (acc.addUser kv.1 kv.2, rest) := by
  simp only [userOK, Bool.and_eq_true, decide_eq_true_eq] at h
  obtain ⟨⟨⟨h1, h2⟩, h3⟩, h4⟩ := h
  simp only [applyProp, List.append_assoc, readStr_writeBin kv.1 h1 h2, readStr_writeBin kv.2 h3 h4]

theorem addUser_first (acc : Props) (k v : Bytes) (hacc : ∀ e ∈ acc, e.1 < 0x26) :
    acc.addUser k v = acc ++ [(0x26, PVal.users [(k, v)])] := by
  simp only [Props.addUser, get_eq_none_of_lt acc 0x26 hacc]
  exact put_of_gt acc 0x26 _ hacc

theorem addUser_next (acc : Props) (l : List (Bytes × Bytes)) (k v : Bytes) (hacc : ∀ e ∈ acc, e.1 < 0x26) :
    (acc ++ [(0x26, PVal.users l)]).addUser k v = acc ++ [(0x26, PVal.users (l ++ [(k, v)]))] := by
  simp only [Props.addUser, get_append_last acc 0x26 _ hacc]
  exact put_append_last acc 0x26 _ _ hacc

theorem kindOf_26 : kindOf 0x26 = some .user := by decide

theorem loopN_users_next (t : Option Nat) (acc : Props) (l2 : List (Bytes × Bytes)) :
    ∀ (l1 : List (Bytes × Bytes)) (restBody : Bytes), idAllowed t 0x26 = true → (∀ e ∈ acc, e.1 < 0x26) →
      (∀ kv ∈ l2, userOK kv = true) →
      loopN t (l2.flatMap encUser ++ restBody) (acc ++ [(0x26, PVal.users l1)])
        = loopN t restBody (acc ++ [(0x26, PVal.users (l1 ++ l2))]) := by
  induction l2 with
  | nil => intro l1 restBody _ _ _; simp
  | cons kv l2 ih =>
    intro l1 restBody hall hacc hok
    have hkv := hok kv (by simp)
    simp only [List.flatMap_cons, encUser, List.cons_append, List.append_assoc]
    rw [loopN_cons]
    simp only [hall, Bool.not_true, Bool.false_eq_true, if_false, kindOf_26]
    have := applyProp_user (acc ++ [(0x26, PVal.users l1)]) kv (l2.flatMap encUser ++ restBody) hkv
    simp only [List.append_assoc] at this
    rw [this]
    try simp only
    rw [addUser_next acc l1 kv.1 kv.2 hacc]
    have e := ih (l1 ++ [(kv.1, kv.2)]) restBody hall hacc (fun x hx => hok x (by simp [hx]))
    rw [e]
    simp

theorem loopN_users (t : Option Nat) (acc : Props) (l : List (Bytes × Bytes)) (restBody : Bytes)
    (hall : idAllowed t 0x26 = true) (hacc : ∀ e ∈ acc, e.1 < 0x26) (hne : l ≠ [])
    (hok : ∀ kv ∈ l, userOK kv = true) :
    loopN t (l.flatMap encUser ++ restBody) acc = loopN t restBody (acc ++ [(0x26, PVal.users l)]) := by
  cases l with
  | nil => exact (hne rfl).elim
  | cons kv l2 =>
    have hkv := hok kv (by simp)
    simp only [List.flatMap_cons, encUser, List.cons_append, List.append_assoc]
    rw [loopN_cons]
    simp only [hall, Bool.not_true, Bool.false_eq_true, if_false, kindOf_26]
    have := applyProp_user acc kv (l2.flatMap encUser ++ restBody) hkv
    simp only [List.append_assoc] at this
    rw [this]
    try simp only
    rw [addUser_first acc kv.1 kv.2 hacc]
    have e := loopN_users_next t acc l2 [(kv.1, kv.2)] restBody hall hacc (fun x hx => hok x (by simp [hx]))
    rw [e]
    simp

theorem wfEntry_kind {id : Nat} {v : PVal} (h : wfEntry (id, v) = true) : ∃ k, kindOf id = some k := by
  simp only [wfEntry] at h
  cases hk : kindOf id with
  | none => rw [hk] at h; simp at h
  | some k => exact ⟨k, rfl⟩

theorem wfEntry_users {id : Nat} {l : List (Bytes × Bytes)} (h : wfEntry (id, .users l) = true) :
    id = 0x26 ∧ l ≠ [] ∧ ∀ kv ∈ l, userOK kv = true := by
  simp only [wfEntry] at h
  cases hk : kindOf id with
  | none => rw [hk] at h; simp at h
  | some k =>
    rw [hk] at h
    cases k <;> simp only at h <;> try cases h
    simp only [Bool.and_eq_true, Bool.not_eq_true', List.all_eq_true] at h
    refine ⟨kindOf_user hk, ?_, ?_⟩
    · intro e; rw [e] at h; simp at h
    · intro kv hkv
      have := h.2 kv hkv
      simpa [userOK] using this

theorem sorted_append_lt {acc todo : Props} {e : Nat × PVal} (h : SortedProps (acc ++ e :: todo)) :
    ∀ x ∈ acc, x.1 < e.1 := by
  intro x hx
  unfold SortedProps at h
  rw [List.pairwise_append] at h
  exact h.2.2 x hx e (by simp)

/-- the loop applied to what `Pack` writes for `todo` appends `todo` to the fields already set -/
theorem loopN_pack (t : Option Nat) (todo : Props) : ∀ (acc : Props), SortedProps (acc ++ todo) →
    (∀ e ∈ todo, wfEntry e = true) → (∀ e ∈ todo, idAllowed t e.1 = true) →
    loopN t (packBody todo) acc = .ok (acc ++ todo) := by
  induction todo with
  | nil => intro acc _ _ _; simp [packBody, loopN_nil]
  | cons e todo ih =>
    intro acc hs hw ha
    obtain ⟨id, v⟩ := e
    have hacc := sorted_append_lt hs
    have hwe := hw (id, v) (by simp)
    have hae := ha (id, v) (by simp)
    have hs' : SortedProps ((acc ++ [(id, v)]) ++ todo) := by simpa using hs
    have e1 : packBody ((id, v) :: todo) = encEntry (id, v) ++ packBody todo := by simp [packBody]
    rw [e1]
    have ihn := ih (acc ++ [(id, v)]) hs' (fun x hx => hw x (by simp [hx])) (fun x hx => ha x (by simp [hx]))
    cases hu : isUsers v with
    | false =>
      obtain ⟨k, hk⟩ := wfEntry_kind hwe
      rw [encEntry_single id v hwe hu]
      simp only [List.cons_append]
      rw [loopN_cons]
      simp only at hae
      simp only [hae, Bool.not_true, Bool.false_eq_true, if_false, hk]
      rw [applyProp_single id k v acc (packBody todo) hk hwe hu hacc]
      try simp only
      rw [ihn]
      simp
    | true =>
      cases v with
      | users l =>
        obtain ⟨rfl, hne, hok⟩ := wfEntry_users hwe
        have e2 : encEntry (0x26, PVal.users l) = l.flatMap encUser := rfl
        rw [e2, loopN_users t acc l (packBody todo) hae hacc hne hok, ihn]
        simp
      | byte n => cases hu
      | u16 n => cases hu
      | u32 n => cases hu
      | str b => cases hu
      | vbis l => cases hu

theorem encEntry_ne_nil {e : Nat × PVal} (h : wfEntry e = true) : encEntry e ≠ [] := by
  obtain ⟨id, v⟩ := e
  cases hu : isUsers v with
  | false => rw [encEntry_single id v h hu]; simp
  | true =>
    cases v with
    | users l =>
      obtain ⟨_, hne, _⟩ := wfEntry_users h
      cases l with
      | nil => exact (hne rfl).elim
      | cons kv l2 => simp [encEntry]
    | byte n => cases hu
    | u16 n => cases hu
    | u32 n => cases hu
    | str b => cases hu
    | vbis l => cases hu

theorem packBody_eq_nil {ps : Props} (hw : ∀ e ∈ ps, wfEntry e = true) (h : packBody ps = []) : ps = [] := by
  cases ps with
  | nil => rfl
  | cons e t =>
    simp only [packBody, List.flatMap_cons, List.append_eq_nil_iff] at h
    exact (encEntry_ne_nil (hw e (by simp)) h.1).elim

/-- `props_roundtrip`: what `Pack` writes for a well-formed property set, `Unpack` reads back unchanged,
    consuming exactly those bytes -/
theorem unpackProps_packProps (t : Option Nat) (ps : Props) (h : WFProps t ps) (rest : Bytes) :
    unpackProps t (packProps (some ps) ++ rest) = .ok (ps, rest) := by
  obtain ⟨hs, hw, ha, hauth, hlen⟩ := h
  have hlt : (packBody ps).length < 268435456 := by simp only [vbiMax] at hlen; omega
  simp only [packProps, encVbiOrNil_of_le _ hlen, List.append_assoc, unpackProps,
    decVbi_vbiDigits _ hlt]
  by_cases h0 : (packBody ps).length = 0
  · rw [if_pos h0]
    have hb : packBody ps = [] := List.eq_nil_of_length_eq_zero h0
    have : ps = [] := packBody_eq_nil hw hb
    subst this
    simp [packBody]
  · rw [if_neg h0]
    have htake : List.take (packBody ps).length (packBody ps ++ rest) = packBody ps := by simp
    have hdrop : List.drop (packBody ps).length (packBody ps ++ rest) = rest := by simp
    rw [htake, hdrop]
    have hl := loopN_pack t ps [] (by simpa using hs) hw ha
    simp only [loopN, List.nil_append] at hl
    rw [hl]
    simp only
    by_cases hc : (t.isSome && ps.has 0x16 && !ps.has 0x15) = true
    · exfalso
      simp only [Bool.and_eq_true, Bool.not_eq_true'] at hc
      have := hauth hc.1.1 hc.1.2
      rw [this] at hc
      exact absurd hc.2 (by simp)
    · rw [if_neg hc]

theorem packWillProps_eq (ps : Props) (ha : ∀ e ∈ ps, idAllowed none e.1 = true) :
    packWillProps (some ps) = packProps (some ps) := by
  have : ps.filter (fun e => willProps.contains e.1) = ps := by
    rw [List.filter_eq_self]
    intro e he
    exact ha e he
  simp only [packWillProps, packProps, this]

/-! ### reader then writer: whatever `Unpack` accepts is well-formed -/

theorem allBytes_append {a b : Bytes} : AllBytes (a ++ b) ↔ AllBytes a ∧ AllBytes b := by
  unfold AllBytes
  constructor
  · intro h
    exact ⟨fun x hx => h x (List.mem_append_left _ hx), fun x hx => h x (List.mem_append_right _ hx)⟩
  · rintro ⟨h1, h2⟩ x hx
    rcases List.mem_append.mp hx with h | h
    · exact h1 x h
    · exact h2 x h

theorem allBytes_cons {a : Nat} {b : Bytes} : AllBytes (a :: b) ↔ a < 256 ∧ AllBytes b := by
  unfold AllBytes
  simp

theorem mem_put {id : Nat} {v : PVal} {acc : Props} {e : Nat × PVal} (h : e ∈ Props.put id v acc) :
    e = (id, v) ∨ e ∈ acc := by
  induction acc with
  | nil => simp only [Props.put, List.mem_singleton] at h; exact Or.inl h
  | cons a t ih =>
    obtain ⟨i, w⟩ := a
    simp only [Props.put] at h
    split at h
    · simp only [List.mem_cons] at h ⊢
      rcases h with h | h | h
      · exact Or.inl h
      · exact Or.inr (Or.inl h)
      · exact Or.inr (Or.inr h)
    · split at h
      · simp only [List.mem_cons] at h ⊢
        rcases h with h | h
        · exact Or.inl h
        · exact Or.inr (Or.inr h)
      · simp only [List.mem_cons] at h ⊢
        rcases h with h | h
        · exact Or.inr (Or.inl h)
        · rcases ih h with h | h
          · exact Or.inl h
          · exact Or.inr (Or.inr h)

theorem put_sorted {id : Nat} {v : PVal} {acc : Props} (h : SortedProps acc) : SortedProps (Props.put id v acc) := by
  induction acc with
  | nil => simp [Props.put, SortedProps]
  | cons a t ih =>
    obtain ⟨i, w⟩ := a
    unfold SortedProps at h ⊢
    rw [List.pairwise_cons] at h
    simp only [Props.put]
    split
    · rename_i hlt
      rw [List.pairwise_cons]
      refine ⟨?_, List.pairwise_cons.mpr h⟩
      intro x hx
      rcases List.mem_cons.mp hx with rfl | hx
      · exact hlt
      · have := h.1 x hx
        simp only at this ⊢
        omega
    · split
      · rename_i _ heq
        subst heq
        rw [List.pairwise_cons]
        exact ⟨h.1, h.2⟩
      · rename_i hn1 hn2
        rw [List.pairwise_cons]
        refine ⟨?_, ih h.2⟩
        intro x hx
        rcases mem_put hx with rfl | hx
        · simp only; omega
        · exact h.1 x hx

theorem packBody_put_new {id : Nat} {v : PVal} {acc : Props} (h : acc.has id = false) :
    (packBody (Props.put id v acc)).length = (packBody acc).length + (encEntry (id, v)).length := by
  induction acc with
  | nil => simp [Props.put, packBody]
  | cons a t ih =>
    obtain ⟨i, w⟩ := a
    simp only [Props.has, Props.get, List.lookup] at h
    simp only [Props.put]
    split
    · simp only [packBody, List.flatMap_cons, List.length_append]; omega
    · split
      · rename_i heq
        subst heq
        simp at h
      · rename_i hne
        have hb : (id == i) = false := by simpa using hne
        rw [hb] at h
        have := ih (by simpa [Props.has, Props.get] using h)
        simp only [packBody, List.flatMap_cons, List.length_append] at this ⊢
        omega

theorem packBody_put_replace {id : Nat} {v v0 : PVal} {acc : Props} (hs : SortedProps acc)
    (h : acc.get id = some v0) :
    (packBody (Props.put id v acc)).length + (encEntry (id, v0)).length
      = (packBody acc).length + (encEntry (id, v)).length := by
  induction acc with
  | nil => simp [Props.get] at h
  | cons a t ih =>
    obtain ⟨i, w⟩ := a
    unfold SortedProps at hs
    rw [List.pairwise_cons] at hs
    simp only [Props.get, List.lookup] at h
    simp only [Props.put]
    by_cases heq : id = i
    · subst heq
      simp only [beq_self_eq_true] at h
      cases h
      rw [if_neg (by omega), if_pos rfl]
      simp only [packBody, List.flatMap_cons, List.length_append]; omega
    · have hb : (id == i) = false := by simpa using heq
      rw [hb] at h
      -- the entry is further down, so i < id
      have hmem : (id, v0) ∈ t := by
        have := List.lookup_eq_some_iff.mp h
        obtain ⟨l1, l2, he, _⟩ := this
        rw [he]; simp
      have hlt : i < id := hs.1 (id, v0) hmem
      rw [if_neg (by omega), if_neg heq]
      have := ih hs.2 (by simpa [Props.get] using h)
      simp only [packBody, List.flatMap_cons, List.length_append] at this ⊢
      omega

theorem vbiLen_le_consumed {w w' : Bytes} {si : Nat} (h : decVbi w = .ok (si, w')) (h0 : si ≠ 0) :
    vbiLen si + w'.length ≤ w.length := by
  have hcap := decVbiAux_cap w 0 0 si w' (by omega) (by rw [vbiCap_0]; omega) h
  have hle := decVbiAux_le w 0 0 si w' h
  have hl := decVbiAux_len' w 0 0 si w' h
  simp only [Nat.zero_add] at hcap
  simp only [vbiMax] at hle
  unfold vbiLen
  have hc : w.length - w'.length = 0 ∨ w.length - w'.length = 1 ∨ w.length - w'.length = 2
      ∨ w.length - w'.length = 3 ∨ 4 ≤ w.length - w'.length := by omega
  rcases hc with hc | hc | hc | hc | hc
  · rw [hc, vbiCap_0] at hcap; omega
  · rw [hc, vbiCap_1] at hcap; rw [if_pos (by omega)]; omega
  · rw [hc, vbiCap_2] at hcap; split <;> (try split) <;> omega
  · rw [hc, vbiCap_3] at hcap; split <;> (try split) <;> (try split) <;> omega
  · split <;> (try split) <;> (try split) <;> (try split) <;> omega

/-- loop invariant of `Properties.Unpack`: the fields set so far form a sorted, well-formed, permitted set -/
def PInv (t : Option Nat) (acc : Props) : Prop :=
  SortedProps acc ∧ (∀ e ∈ acc, wfEntry e = true) ∧ (∀ e ∈ acc, idAllowed t e.1 = true)

theorem pinv_put {t : Option Nat} {acc : Props} {id : Nat} {v : PVal} (h : PInv t acc)
    (hw : wfEntry (id, v) = true) (ha : idAllowed t id = true) : PInv t (Props.put id v acc) := by
  obtain ⟨h1, h2, h3⟩ := h
  refine ⟨put_sorted h1, ?_, ?_⟩
  · intro e he
    rcases mem_put he with rfl | he
    · exact hw
    · exact h2 e he
  · intro e he
    rcases mem_put he with rfl | he
    · exact ha
    · exact h3 e he

theorem allBytes_readBin {w s rest : Bytes} (hb : AllBytes w) (h : readBin w = .ok (s, rest)) :
    AllBytes rest ∧ s.length ≤ 65535 := by
  obtain ⟨he, hl⟩ := readBin_inv w s rest hb h
  rw [he] at hb
  exact ⟨(allBytes_append.mp hb).2, hl⟩

/-- one round of the loop keeps the invariant, hands on a suffix of bytes, and the canonical encoding of the
    fields set so far never grows by more than the bytes consumed (1 = the id byte already taken) -/
theorem applyProp_inv {t : Option Nat} {id : Nat} {k : PKind} {acc acc' : Props} {w w' : Bytes}
    (hk : kindOf id = some k) (hal : idAllowed t id = true) (hb : AllBytes w) (hinv : PInv t acc)
    (h : applyProp id k acc w = .ok (acc', w')) :
    PInv t acc' ∧ AllBytes w' ∧ (packBody acc').length + w'.length ≤ (packBody acc).length + 1 + w.length := by
  cases k <;> simp only [applyProp] at h
  · -- byte
    split at h
    · cases h
    · rename_i hhas
      simp only [Bool.not_eq_true] at hhas
      match w, h, hb with
      | o :: rest, h, hb =>
        simp only at h
        split at h
        · cases h
        · rename_i ho
          cases h
          have ho' : o = 0 ∨ o = 1 := by
            simp only [Bool.and_eq_true, bne_iff_ne, ne_eq, not_and, Decidable.not_not] at ho
            by_cases h0 : o = 0
            · exact Or.inl h0
            · exact Or.inr (ho h0)
          refine ⟨pinv_put hinv ?_ hal, (allBytes_cons.mp hb).2, ?_⟩
          · simp only [wfEntry, hk]
            rcases ho' with h0 | h0 <;> simp [h0]
          · rw [packBody_put_new hhas]
            simp [encEntry]; omega
  · -- u16
    split at h
    · cases h
    · rename_i hhas
      simp only [Bool.not_eq_true] at hhas
      split at h
      · cases h
      · rename_i o rest hr
        split at h
        · cases h
        · rename_i hv
          split at h
          · cases h
          · rename_i hz
            cases h
            obtain ⟨he, hlt⟩ := readU16_inv w o _ hb hr
            have hl := readU16_len hr
            refine ⟨pinv_put hinv ?_ hal, ?_, ?_⟩
            · simp only [wfEntry, hk]
              simp only [Bool.not_eq_true', Bool.not_eq_false] at hv
              simp only [Bool.and_eq_true, decide_eq_true_eq, not_and] at hz
              simp only [hv, Bool.and_true, Bool.and_eq_true, decide_eq_true_eq, Bool.not_eq_true',
                Bool.and_eq_false_iff, beq_eq_false_iff_ne, ne_eq]
              refine ⟨hlt, ?_⟩
              by_cases hid : id = 0x23
              · right; exact hz hid
              · left; exact hid
            · rw [he] at hb; exact (allBytes_append.mp hb).2
            · rw [packBody_put_new hhas]
              simp [encEntry, writeU16]; omega
  · -- u32
    split at h
    · cases h
    · rename_i hhas
      simp only [Bool.not_eq_true] at hhas
      split at h
      · cases h
      · rename_i o rest hr
        split at h
        · cases h
        · rename_i hv
          cases h
          obtain ⟨he, hlt⟩ := readU32_inv w o _ hb hr
          have hl := readU32_len hr
          refine ⟨pinv_put hinv ?_ hal, ?_, ?_⟩
          · simp only [wfEntry, hk]
            simp only [Bool.not_eq_true', Bool.not_eq_false] at hv
            simp [hv, hlt]
          · rw [he] at hb; exact (allBytes_append.mp hb).2
          · rw [packBody_put_new hhas]
            simp [encEntry, writeU32]; omega
  · -- str
    split at h
    · cases h
    · rename_i hhas
      simp only [Bool.not_eq_true] at hhas
      split at h
      · cases h
      · rename_i o rest hr
        split at h
        · cases h
        · rename_i hv
          cases h
          obtain ⟨hrb, hutf⟩ := readStr_eq_readBin hr
          obtain ⟨hab, hlen⟩ := allBytes_readBin hb hrb
          have hl := readBin_len hrb
          refine ⟨pinv_put hinv ?_ hal, hab, ?_⟩
          · simp only [wfEntry, hk]
            simp only [Bool.not_eq_true', Bool.not_eq_false] at hv
            simp [hv, hlen, hutf rfl]
          · rw [packBody_put_new hhas]
            simp [encEntry, writeBin, writeU16]; omega
  · -- bin
    split at h
    · cases h
    · rename_i hhas
      simp only [Bool.not_eq_true] at hhas
      split at h
      · cases h
      · rename_i o rest hr
        cases h
        obtain ⟨hab, hlen⟩ := allBytes_readBin hb hr
        have hl := readBin_len hr
        refine ⟨pinv_put hinv ?_ hal, hab, ?_⟩
        · simp only [wfEntry, hk]
          simp [hlen]
        · rw [packBody_put_new hhas]
          simp [encEntry, writeBin, writeU16]; omega
  · -- vbi
    split at h
    · cases h
    · rename_i hhas
      simp only [Bool.not_eq_true] at hhas
      split at h
      · cases h
      · rename_i si rest hr
        split at h
        · cases h
        · rename_i hz
          cases h
          have hle := decVbiAux_le w 0 0 si _ hr
          obtain ⟨pre, hpre, _⟩ := decVbiAux_prefix w 0 0 si _ hr
          have hcons := vbiLen_le_consumed hr hz
          refine ⟨pinv_put hinv ?_ hal, ?_, ?_⟩
          · simp only [wfEntry, hk]
            simp only [Bool.and_eq_true, decide_eq_true_eq]
            exact ⟨by omega, hle⟩
          · rw [hpre] at hb; exact (allBytes_append.mp hb).2
          · rw [packBody_put_new hhas]
            have hlt : si < 268435456 := by simp only [vbiMax] at hle; omega
            simp only [encEntry, List.flatMap_cons, List.flatMap_nil, List.append_nil, List.length_cons,
              encVbiOrNil_of_le si hle, vbiDigits_length si hlt]
            omega
  · -- user
    split at h
    · cases h
    · rename_i k1 rest1 hr1
      split at h
      · cases h
      · rename_i v1 rest2 hr2
        cases h
        obtain ⟨hrb1, hutf1⟩ := readStr_eq_readBin hr1
        obtain ⟨hab1, hlen1⟩ := allBytes_readBin hb hrb1
        obtain ⟨hrb2, hutf2⟩ := readStr_eq_readBin hr2
        obtain ⟨hab2, hlen2⟩ := allBytes_readBin hab1 hrb2
        have hl1 := readBin_len hrb1
        have hl2 := readBin_len hrb2
        have hid : id = 0x26 := kindOf_user hk
        subst hid
        have hok : userOK (k1, v1) = true := by simp [userOK, hlen1, hlen2, hutf1 rfl, hutf2 rfl]
        refine ⟨?_, hab2, ?_⟩
        · -- invariant
          simp only [Props.addUser]
          cases hg : acc.get 0x26 with
          | none =>
            simp only
            refine pinv_put hinv ?_ hal
            simp only [wfEntry, hk]
            simpa [userOK] using hok
          | some v0 =>
            have hmem : ((0x26 : Nat), v0) ∈ acc := by
              obtain ⟨l1, l2, he, _⟩ := List.lookup_eq_some_iff.mp hg
              rw [he]; simp
            have hwf0 := hinv.2.1 _ hmem
            cases v0 with
            | users l =>
              simp only
              refine pinv_put hinv ?_ hal
              obtain ⟨_, hne, hall⟩ := wfEntry_users hwf0
              simp only [wfEntry, hk, Bool.and_eq_true, Bool.not_eq_true', List.all_eq_true]
              refine ⟨by cases l <;> simp at hne ⊢, ?_⟩
              intro kv hkv
              rcases List.mem_append.mp hkv with hm | hm
              · simpa [userOK] using hall kv hm
              · simp only [List.mem_singleton] at hm
                subst hm
                simpa [userOK] using hok
            | byte n => simp [wfEntry, hk] at hwf0
            | u16 n => simp [wfEntry, hk] at hwf0
            | u32 n => simp [wfEntry, hk] at hwf0
            | str b => simp [wfEntry, hk] at hwf0
            | vbis l => simp [wfEntry, hk] at hwf0
        · -- size
          simp only [Props.addUser]
          cases hg : acc.get 0x26 with
          | none =>
            simp only
            rw [packBody_put_new (by simp [Props.has, hg])]
            simp [encEntry, writeBin, writeU16]; omega
          | some v0 =>
            have hmem : ((0x26 : Nat), v0) ∈ acc := by
              obtain ⟨l1, l2, he, _⟩ := List.lookup_eq_some_iff.mp hg
              rw [he]; simp
            have hwf0 := hinv.2.1 _ hmem
            cases v0 with
            | users l =>
              simp only
              have := @packBody_put_replace 0x26 (PVal.users (l ++ [(k1, v1)])) (PVal.users l) acc hinv.1 hg
              simp only [encEntry, List.flatMap_append, List.length_append, List.flatMap_cons, List.flatMap_nil,
                List.append_nil, List.length_cons, writeBin, writeU16, List.cons_append, List.nil_append] at this
              omega
            | byte n => simp [wfEntry, hk] at hwf0
            | u16 n => simp [wfEntry, hk] at hwf0
            | u32 n => simp [wfEntry, hk] at hwf0
            | str b => simp [wfEntry, hk] at hwf0
            | vbis l => simp [wfEntry, hk] at hwf0

theorem loopN_inv (t : Option Nat) (n : Nat) : ∀ (w : Bytes) (acc ps : Props), w.length ≤ n → AllBytes w →
    PInv t acc → loopN t w acc = .ok ps →
    PInv t ps ∧ (packBody ps).length ≤ (packBody acc).length + w.length := by
  induction n with
  | zero =>
    intro w acc ps hl _ hinv h
    have : w = [] := List.eq_nil_of_length_eq_zero (by omega)
    subst this
    rw [loopN_nil] at h
    cases h
    exact ⟨hinv, by simp⟩
  | succ n ih =>
    intro w acc ps hl hb hinv h
    cases w with
    | nil =>
      rw [loopN_nil] at h
      cases h
      exact ⟨hinv, by simp⟩
    | cons id w1 =>
      rw [loopN_cons] at h
      by_cases ha : (!idAllowed t id) = true
      · rw [if_pos ha] at h; cases h
      · rw [if_neg ha] at h
        simp only [Bool.not_eq_true', Bool.not_eq_false] at ha
        cases hk : kindOf id with
        | none => rw [hk] at h; cases h
        | some k =>
          rw [hk] at h
          simp only at h
          cases hap : applyProp id k acc w1 with
          | error e => rw [hap] at h; cases h
          | ok r =>
            obtain ⟨acc', w'⟩ := r
            rw [hap] at h
            simp only at h
            obtain ⟨hinv', hb', hsz⟩ := applyProp_inv hk ha (allBytes_cons.mp hb).2 hinv hap
            have hlen := applyProp_len hap
            simp only [List.length_cons] at hl
            obtain ⟨hres, hsz2⟩ := ih w' acc' ps (by omega) hb' hinv' h
            refine ⟨hres, ?_⟩
            simp only [List.length_cons]
            omega

theorem allBytes_take {w : Bytes} (n : Nat) (h : AllBytes w) : AllBytes (w.take n) :=
  fun b hb => h b (List.mem_of_mem_take hb)

theorem allBytes_drop {w : Bytes} (n : Nat) (h : AllBytes w) : AllBytes (w.drop n) :=
  fun b hb => h b (List.mem_of_mem_drop hb)

theorem allBytes_decVbi {w rest : Bytes} {n : Nat} (hb : AllBytes w) (h : decVbi w = .ok (n, rest)) : AllBytes rest := by
  obtain ⟨pre, hp, _⟩ := decVbiAux_prefix w 0 0 n rest h
  rw [hp] at hb
  exact (allBytes_append.mp hb).2

/-- `props_unpack_wf`: every property set `Unpack` accepts is well-formed, and the unread rest is a suffix of bytes -/
theorem unpackProps_wf (t : Option Nat) (bufr : Bytes) (ps : Props) (rest : Bytes) (hb : AllBytes bufr)
    (h : unpackProps t bufr = .ok (ps, rest)) : WFProps t ps ∧ AllBytes rest := by
  simp only [unpackProps] at h
  cases hd : decVbi bufr with
  | error e => rw [hd] at h; cases h
  | ok r =>
    obtain ⟨len, after⟩ := r
    rw [hd] at h
    simp only at h
    have hab := allBytes_decVbi hb hd
    have hle := decVbiAux_le bufr 0 0 len after hd
    by_cases h0 : len = 0
    · rw [if_pos h0] at h
      cases h
      refine ⟨⟨by simp [SortedProps], by simp, by simp, by simp [Props.has, Props.get], by simp [packBody]⟩, hab⟩
    · rw [if_neg h0] at h
      cases hl : unpackLoop t (List.take len after).length (List.take len after) [] with
      | error e => rw [hl] at h; cases h
      | ok ps' =>
        rw [hl] at h
        simp only at h
        split at h
        · cases h
        · rename_i hauth
          cases h
          have hinv0 : PInv t [] := ⟨by simp [SortedProps], by simp, by simp⟩
          obtain ⟨⟨h1, h2, h3⟩, hsz⟩ := loopN_inv t _ (List.take len after) [] ps (Nat.le_refl _)
            (allBytes_take len hab) hinv0 hl
          refine ⟨⟨h1, h2, h3, ?_, ?_⟩, allBytes_drop len hab⟩
          · intro ht h16
            simp only [Bool.and_eq_true, Bool.not_eq_true', not_and, Bool.not_eq_false] at hauth
            exact hauth ⟨ht, h16⟩
          · simp only [packBody, List.flatMap_nil, List.length_nil, Nat.zero_add, List.length_take] at hsz
            have : min len after.length ≤ len := Nat.min_le_left _ _
            simp only [packBody]
            omega

/-- accepted ⇒ re-encoded ⇒ same value, at the level of property sets -/
theorem unpackProps_reencode (t : Option Nat) (bufr : Bytes) (ps : Props) (rest rest' : Bytes) (hb : AllBytes bufr)
    (h : unpackProps t bufr = .ok (ps, rest)) :
    unpackProps t (packProps (some ps) ++ rest') = .ok (ps, rest') :=
  unpackProps_packProps t ps (unpackProps_wf t bufr ps rest hb h).1 rest'

theorem vbiLen_mono {a b : Nat} (h : a ≤ b) (hb : b ≤ vbiMax) : vbiLen a ≤ vbiLen b := by
  simp only [vbiMax] at hb
  unfold vbiLen
  split <;> (try split) <;> (try split) <;> (try split) <;> (try split) <;> (try split) <;> (try split)
    <;> (try split) <;> omega

theorem decVbi_cons_consumes {d : Nat} {t rest : Bytes} {n : Nat} (h : decVbi (d :: t) = .ok (n, rest)) :
    rest.length ≤ t.length := by
  simp only [decVbi, decVbiAux] at h
  split at h
  · cases h
  · split at h
    · cases h; exact Nat.le_refl _
    · exact decVbiAux_len' _ _ _ _ _ h

/-- the re-encoded property block is never longer than the bytes `Unpack` consumed — except that an absent block
    (end of buffer where the length field should be, read as 0) is written back as the single byte `00` -/
theorem unpackProps_size (t : Option Nat) (bufr : Bytes) (ps : Props) (rest : Bytes) (hb : AllBytes bufr)
    (h : unpackProps t bufr = .ok (ps, rest)) :
    (packProps (some ps)).length + rest.length ≤ bufr.length ∨ (bufr = [] ∧ ps = [] ∧ rest = []) := by
  have hwf := (unpackProps_wf t bufr ps rest hb h).1
  simp only [unpackProps] at h
  cases hd : decVbi bufr with
  | error e => rw [hd] at h; cases h
  | ok r =>
    obtain ⟨len, after⟩ := r
    rw [hd] at h
    simp only at h
    have hab := allBytes_decVbi hb hd
    have hle := decVbiAux_le bufr 0 0 len after hd
    by_cases h0 : len = 0
    · rw [if_pos h0] at h
      cases h
      cases bufr with
      | nil =>
        right
        simp only [decVbi, decVbiAux] at hd
        split at hd
        · cases hd
        · cases hd; exact ⟨rfl, rfl, rfl⟩
      | cons d tl =>
        left
        have := decVbi_cons_consumes hd
        simp only [packProps, packBody, List.flatMap_nil, List.length_nil, encVbiOrNil, encVbi, vbiDigits,
          List.length_cons, List.append_nil]
        simp
        omega
    · rw [if_neg h0] at h
      cases hl : unpackLoop t (List.take len after).length (List.take len after) [] with
      | error e => rw [hl] at h; cases h
      | ok ps' =>
        rw [hl] at h
        simp only at h
        split at h
        · cases h
        · cases h
          left
          have hinv0 : PInv t [] := ⟨by simp [SortedProps], by simp, by simp⟩
          obtain ⟨_, hsz⟩ := loopN_inv t _ (List.take len after) [] ps (Nat.le_refl _)
            (allBytes_take len hab) hinv0 hl
          have hsz' : (packBody ps).length ≤ min len after.length := by
            have e0 : (packBody ([] : Props)).length = 0 := rfl
            rw [e0, List.length_take] at hsz
            omega
          have hcons := vbiLen_le_consumed hd h0
          have hL : (packBody ps).length ≤ vbiMax := hwf.2.2.2.2
          have hLlen : (packBody ps).length ≤ len := by omega
          have hm := vbiLen_mono hLlen hle
          have hlt : (packBody ps).length < 268435456 := by simp only [vbiMax] at hL; omega
          simp only [packProps, encVbiOrNil_of_le _ hL, List.length_append, vbiDigits_length _ hlt,
            List.length_drop]
          omega

end GmqttVerif.Codec
