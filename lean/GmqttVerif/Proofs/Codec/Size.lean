import GmqttVerif.Proofs.Codec.Packets
/-
  `Message.TotalBytes` against the length of the PUBLISH that `MessageToPublish` + `Pack` produce.
-/
namespace GmqttVerif.Codec

theorem encVbiOrNil_length (n : Nat) : (encVbiOrNil n).length = vbiLen n := by
  by_cases h : n < 268435456
  · have : n ≤ vbiMax := by simp only [vbiMax]; omega
    rw [encVbiOrNil_of_le n this, vbiDigits_length n h]
  · simp only [encVbiOrNil, encVbi, if_neg h, List.length_nil]
    unfold vbiLen
    rw [if_neg (by omega), if_neg (by omega), if_neg (by omega), if_neg (by omega)]

theorem flatMap_length_sum {α : Type} (l : List α) (f : α → Bytes) :
    (l.flatMap f).length = (l.map (fun a => (f a).length)).sum := by
  induction l with
  | nil => rfl
  | cons a t ih => simp [List.flatMap_cons, ih]

theorem msgProps_length (m : Message) :
    (packBody (msgProps m.payloadFormat m.messageExpiry m.contentType m.responseTopic
      (if optLen m.correlationData != 0 then m.correlationData else none) m.subIds m.user)).length
      = msgPropsLen m := by
  unfold msgProps msgPropsLen packBody
  simp only [List.flatMap_append, List.length_append]
  have e1 : (List.flatMap encEntry (if m.payloadFormat = 1 then [(1, PVal.byte m.payloadFormat)] else [])).length
      = (if m.payloadFormat = 1 then 2 else 0) := by split <;> simp [encEntry]
  have e2 : (List.flatMap encEntry (if (m.messageExpiry != 0) = true then [(2, PVal.u32 m.messageExpiry)] else [])).length
      = (if (m.messageExpiry != 0) = true then 5 else 0) := by split <;> simp [encEntry, writeU32]
  have e3 : (List.flatMap encEntry (if (m.contentType.length != 0) = true then [(3, PVal.str m.contentType)] else [])).length
      = (if (m.contentType.length != 0) = true then 3 + m.contentType.length else 0) := by
    split <;> simp [encEntry, writeBin_length]; omega
  have e4 : (List.flatMap encEntry (if (m.responseTopic.length != 0) = true then [(8, PVal.str m.responseTopic)] else [])).length
      = (if (m.responseTopic.length != 0) = true then 3 + m.responseTopic.length else 0) := by
    split <;> simp [encEntry, writeBin_length]; omega
  have e5 : (List.flatMap encEntry (optStrEntry 9 (if (optLen m.correlationData != 0) = true then m.correlationData else none))).length
      = (if (optLen m.correlationData != 0) = true then 3 + optLen m.correlationData else 0) := by
    by_cases hc : (optLen m.correlationData != 0) = true
    · rw [if_pos hc, if_pos hc]
      cases hcd : m.correlationData with
      | none => simp [optLen, hcd] at hc
      | some b => simp [optStrEntry, encEntry, writeBin_length, optLen]; omega
    · rw [if_neg hc, if_neg hc]; simp [optStrEntry]
  have e6 : (List.flatMap encEntry (if (m.subIds.length != 0) = true then [(11, PVal.vbis m.subIds)] else [])).length
      = (m.subIds.map (fun v => 1 + vbiLen v)).sum := by
    by_cases hs : (m.subIds.length != 0) = true
    · rw [if_pos hs]
      simp only [List.flatMap_cons, List.flatMap_nil, List.append_nil, encEntry]
      rw [flatMap_length_sum]
      congr 1
      apply List.map_congr_left
      intro v _
      simp [encVbiOrNil_length]; omega
    · rw [if_neg hs]
      have : m.subIds = [] := by
        cases h : m.subIds with
        | nil => rfl
        | cons a t => simp [h] at hs
      simp [this]
  have e7 : (List.flatMap encEntry (if (m.user.length != 0) = true then [(38, PVal.users m.user)] else [])).length
      = (m.user.map (fun kv => 5 + kv.1.length + kv.2.length)).sum := by
    by_cases hs : (m.user.length != 0) = true
    · rw [if_pos hs]
      simp only [List.flatMap_cons, List.flatMap_nil, List.append_nil, encEntry]
      rw [flatMap_length_sum]
      congr 1
      apply List.map_congr_left
      intro kv _
      simp [writeBin_length]; omega
    · rw [if_neg hs]
      have : m.user = [] := by
        cases h : m.user with
        | nil => rfl
        | cons a t => simp [h] at hs
      simp [this]
  rw [e1, e2, e3, e4, e5, e6, e7]
  omega

theorem msgTotalBytes_eq (v : Nat) (m : Message) (h : msgRemLen v m ≤ 268435455) :
    msgTotalBytes v m = 1 + vbiLen (msgRemLen v m) + msgRemLen v m := by
  unfold msgTotalBytes vbiLen
  simp only
  split <;> (try split) <;> (try split) <;> (try split) <;> omega

/-- `size_exact`, message side -/
theorem msg_size_exact (v : Nat) (m : Message) (hq : m.qos ≤ 2) (hp : msgPropsLen m ≤ 268435455)
    (h : msgRemLen v m ≤ 268435455) :
    ∃ out, pack (.publish (messageToPublish m v)) = .ok out ∧ out.length = msgTotalBytes v m := by
  have hbody : (publishBody (messageToPublish m v)).length = msgRemLen v m := by
    unfold publishBody messageToPublish msgRemLen
    simp only [List.length_append, writeBin_length]
    have hpid : (if (m.qos = 1 || m.qos = 2) = true then writeU16 m.pid else []).length = (if m.qos > 0 then 2 else 0) := by
      by_cases h0 : m.qos > 0
      · have : (m.qos = 1 || m.qos = 2) = true := by simp; omega
        simp [this, h0, writeU16]
      · have : (m.qos = 1 || m.qos = 2) = false := by simp; omega
        simp [this, h0]
    rw [hpid]
    by_cases h5 : v = v5
    · simp only [h5, if_true]
      have hl := msgProps_length m
      have hle : (packBody (msgProps m.payloadFormat m.messageExpiry m.contentType m.responseTopic
          (if optLen m.correlationData != 0 then m.correlationData else none) m.subIds m.user)).length ≤ vbiMax := by
        rw [hl]; exact hp
      simp only [packProps, List.length_append, encVbiOrNil_length, hl]
      omega
    · simp only [h5, if_false, List.length_nil]
      omega
  have hlt : (publishBody (messageToPublish m v)).length < 268435456 := by rw [hbody]; omega
  refine ⟨_, by simp only [pack, bodyOf]; exact frame_eq _ _ _ hlt, ?_⟩
  have hlt2 : msgRemLen v m < 268435456 := by omega
  simp only [List.length_cons, List.length_append, hbody, vbiDigits_length _ hlt2]
  rw [msgTotalBytes_eq v m h]
  omega

end GmqttVerif.Codec
