import GmqttVerif.Model.Codec.TopicValid
import GmqttVerif.Proofs.Codec.Utf8
/-
  Topic names / filters: the level-wise MQTT 4.7 specification and the proof that the rune-by-rune scanners of
  `ValidTopicName`, `ValidTopicFilter`, `ValidV5Topic` (applied, as the decoders do, to a string that passed
  `ValidUTF8`) accept exactly what the specification allows.

  Plan: (1) on well-formed UTF-8 the rune loops equal plain byte loops (`nameBytes`, `filterBytes`, `shareBytes`),
        because every byte of a multi-byte encoding is ≥ 0x80 and so is none of `/ + #`;
        (2) the byte loops equal the level-wise definitions.
-/
namespace GmqttVerif.Codec

/-! ### specification vocabulary -/

/-- first topic level and the remaining levels: split at every `/` (0x2F). `"a//b"` ↦ `("a", ["", "b"])`. -/
def splitFirst : Bytes → Bytes × List Bytes
  | [] => ([], [])
  | b :: t =>
    if b = cSlash then ([], (splitFirst t).1 :: (splitFirst t).2)
    else (b :: (splitFirst t).1, (splitFirst t).2)

/-- the topic levels of a topic name / filter [MQTT 4.7]: never an empty list; `""` has the single level `""` -/
def levels (bs : Bytes) : List Bytes := (splitFirst bs).1 :: (splitFirst bs).2

/-- a level without wildcard characters -/
def PlainLevel (l : Bytes) : Prop := cPlus ∉ l ∧ cHash ∉ l

/-- [MQTT-4.7.1-2], [MQTT-4.7.1-3]: every level is free of wildcards or is exactly `+`;
    the last level may also be exactly `#`. `l` = current level, `ls` = the levels after it. -/
def LevelsOK : Bytes → List Bytes → Prop
  | l, [] => l = [cHash] ∨ l = [cPlus] ∨ PlainLevel l
  | l, l2 :: ls => (l = [cPlus] ∨ PlainLevel l) ∧ LevelsOK l2 ls

/-- shape of a topic filter: at least one byte [MQTT-4.7.3-1], wildcards only as whole levels, `#` only last -/
def FilterShape (bs : Bytes) : Prop := bs ≠ [] ∧ LevelsOK (splitFirst bs).1 (splitFirst bs).2

/-- shape of a topic name: at least one byte, no wildcard character in any level -/
def NameShape (bs : Bytes) : Prop := bs ≠ [] ∧ ∀ l ∈ levels bs, PlainLevel l

/-- Topic Name per MQTT 4.7: a UTF-8 string (1.5.4) of name shape -/
def SpecName (bs : Bytes) : Prop := SpecUtf8 bs ∧ NameShape bs

/-- Topic Filter per MQTT 4.7 -/
def SpecFilter (bs : Bytes) : Prop := SpecUtf8 bs ∧ FilterShape bs

/-- MQTT 5 topic filter incl. shared subscriptions (4.8.2): `$share/{ShareName}/{filter}` with a non-empty
    ShareName free of `/ + #`, or an ordinary filter -/
def SpecV5 (bs : Bytes) : Prop :=
  SpecUtf8 bs ∧
    if sharePrefix.isPrefixOf bs then
      ∃ name filt, bs = sharePrefix ++ name ++ cSlash :: filt ∧ name ≠ [] ∧ cSlash ∉ name ∧ cPlus ∉ name ∧ cHash ∉ name
        ∧ FilterShape filt
    else FilterShape bs

/-! ### byte loops -/

/-- no `+`, no `#` -/
def nameBytes : Bytes → Bool
  | [] => true
  | b :: t => if b = cPlus || b = cHash then false else nameBytes t

/-- `mid` = the previous byte exists and is not `/` -/
def filterBytes : Bytes → Bool → Bool
  | [], _ => true
  | b :: t, mid =>
    if b = cHash && !t.isEmpty then false
    else if (b = cPlus || b = cHash) && mid then false
    else if b = cPlus && headNotSlash t then false
    else filterBytes t (b != cSlash)

def shareBytes : Bytes → Bool
  | [] => false
  | b :: t =>
    if b = cSlash then validTopicFilter true t
    else if b = cPlus || b = cHash then false
    else shareBytes t

/-! ### byte loops = level-wise specification -/

theorem nameBytes_iff (bs : Bytes) : nameBytes bs = true ↔ cPlus ∉ bs ∧ cHash ∉ bs := by
  induction bs with
  | nil => simp [nameBytes]
  | cons b t ih =>
    simp only [nameBytes, List.mem_cons, not_or]
    by_cases h : (b = cPlus || b = cHash) = true
    · rw [if_pos h]
      simp only [Bool.or_eq_true, decide_eq_true_eq] at h
      constructor
      · intro x; cases x
      · rintro ⟨⟨h1, _⟩, ⟨h2, _⟩⟩
        rcases h with h | h
        · exact (h1 h.symm).elim
        · exact (h2 h.symm).elim
    · rw [if_neg h, ih]
      simp only [Bool.or_eq_true, decide_eq_true_eq, not_or] at h
      constructor
      · rintro ⟨a, b'⟩; exact ⟨⟨fun e => h.1 e.symm, a⟩, ⟨fun e => h.2 e.symm, b'⟩⟩
      · rintro ⟨⟨_, a⟩, ⟨_, b'⟩⟩; exact ⟨a, b'⟩

theorem mem_levels_iff (c : Nat) (hc : c ≠ cSlash) (bs : Bytes) :
    (∃ l ∈ levels bs, c ∈ l) ↔ c ∈ bs := by
  induction bs with
  | nil => simp [levels, splitFirst]
  | cons b t ih =>
    simp only [levels, splitFirst] at ih ⊢
    by_cases hb : b = cSlash
    · rw [if_pos hb]
      simp only [List.mem_cons, List.not_mem_nil, exists_eq_or_imp, false_or] at ih ⊢
      rw [ih]
      constructor
      · intro h; exact Or.inr h
      · rintro (h | h)
        · exact (hc (h.trans hb)).elim
        · exact h
    · rw [if_neg hb]
      simp only [List.mem_cons, exists_eq_or_imp] at ih ⊢
      rw [← ih]
      constructor
      · rintro ((h | h) | h)
        · exact Or.inl h
        · exact Or.inr (Or.inl h)
        · exact Or.inr (Or.inr h)
      · rintro (h | h | h)
        · exact Or.inl (Or.inl h)
        · exact Or.inl (Or.inr h)
        · exact Or.inr h

theorem nameShape_iff (bs : Bytes) : NameShape bs ↔ bs ≠ [] ∧ nameBytes bs = true := by
  unfold NameShape PlainLevel
  rw [nameBytes_iff]
  have hp := mem_levels_iff cPlus (by decide) bs
  have hh := mem_levels_iff cHash (by decide) bs
  constructor
  · rintro ⟨h0, h⟩
    refine ⟨h0, fun hm => ?_, fun hm => ?_⟩
    · obtain ⟨l, hl, hx⟩ := hp.mpr hm
      exact (h l hl).1 hx
    · obtain ⟨l, hl, hx⟩ := hh.mpr hm
      exact (h l hl).2 hx
  · rintro ⟨h0, h1, h2⟩
    refine ⟨h0, fun l hl => ⟨fun hx => h1 (hp.mp ⟨l, hl, hx⟩), fun hx => h2 (hh.mp ⟨l, hl, hx⟩)⟩⟩

theorem plainLevel_cons (b : Nat) (l : Bytes) (h1 : b ≠ cPlus) (h2 : b ≠ cHash) :
    PlainLevel (b :: l) ↔ PlainLevel l := by
  unfold PlainLevel
  simp only [List.mem_cons, not_or]
  constructor
  · rintro ⟨⟨_, a⟩, ⟨_, c⟩⟩; exact ⟨a, c⟩
  · rintro ⟨a, c⟩; exact ⟨⟨fun e => h1 e.symm, a⟩, ⟨fun e => h2 e.symm, c⟩⟩

/-- `mid = true`: we are inside a level after a non-`/` byte — the rest of this level must be plain;
    `mid = false`: we are at the start of a level. -/
theorem filterBytes_iff (bs : Bytes) :
    (filterBytes bs true = true ↔
        PlainLevel (splitFirst bs).1 ∧ (match (splitFirst bs).2 with | [] => True | l2 :: ls => LevelsOK l2 ls))
    ∧ (filterBytes bs false = true ↔ LevelsOK (splitFirst bs).1 (splitFirst bs).2) := by
  induction bs with
  | nil => simp [filterBytes, splitFirst, LevelsOK, PlainLevel]
  | cons b t ih =>
    obtain ⟨ihT, ihF⟩ := ih
    by_cases hs : b = cSlash
    · -- a level separator
      subst hs
      have e : filterBytes (cSlash :: t) true = filterBytes t false ∧ filterBytes (cSlash :: t) false = filterBytes t false := by
        simp [filterBytes, headNotSlash, cSlash, cHash, cPlus]
      rw [e.1, e.2, ihF]
      simp only [splitFirst, if_true]
      simp [PlainLevel, LevelsOK, cPlus, cHash]
    · by_cases hh : b = cHash
      · subst hh
        simp only [splitFirst, if_neg hs]
        constructor
        · -- inside a level: '#' can never be accepted
          have : filterBytes (cHash :: t) true = false := by
            simp only [filterBytes]
            by_cases ht : t.isEmpty = true
            · simp [ht]
            · simp [ht]
          rw [this]
          simp [PlainLevel]
        · by_cases ht : t = []
          · subst ht
            simp [filterBytes, headNotSlash, splitFirst, LevelsOK, cHash, cPlus]
          · have : filterBytes (cHash :: t) false = false := by
              simp only [filterBytes]
              have : t.isEmpty = false := by cases t <;> simp at ht ⊢
              simp [this]
            rw [this]
            simp only [Bool.false_eq_true, false_iff]
            intro hok
            cases hsp : (splitFirst t).2 with
            | nil =>
              rw [hsp] at hok
              simp only [LevelsOK] at hok
              rcases hok with h | h | h
              · have : (splitFirst t).1 = [] := by simpa using h
                -- then t has no level content and no further levels: t = []
                cases t with
                | nil => exact ht rfl
                | cons x xs =>
                  simp only [splitFirst] at this hsp
                  by_cases hx : x = cSlash
                  · rw [if_pos hx] at hsp; simp at hsp
                  · rw [if_neg hx] at this; simp at this
              · simp [cHash, cPlus] at h
              · exact h.2 (by simp)
            | cons l2 ls =>
              rw [hsp] at hok
              simp only [LevelsOK] at hok
              rcases hok.1 with h | h
              · simp [cHash, cPlus] at h
              · exact h.2 (by simp)
      · by_cases hp : b = cPlus
        · subst hp
          simp only [splitFirst, if_neg hs]
          constructor
          · have : filterBytes (cPlus :: t) true = false := by
              simp [filterBytes, cPlus, cHash]
            rw [this]
            simp [PlainLevel]
          · cases t with
            | nil => simp [filterBytes, headNotSlash, splitFirst, LevelsOK, cPlus, cHash]
            | cons n t' =>
              by_cases hn : n = cSlash
              · subst hn
                have : filterBytes (cPlus :: cSlash :: t') false = filterBytes (cSlash :: t') true := by
                  simp [filterBytes, headNotSlash, cPlus, cHash, cSlash]
                rw [this, ihT]
                simp only [splitFirst, if_true]
                simp [PlainLevel, LevelsOK]
              · have : filterBytes (cPlus :: n :: t') false = false := by
                  simp [filterBytes, headNotSlash, cPlus, cHash, hn]
                rw [this]
                simp only [Bool.false_eq_true, false_iff, splitFirst, if_neg hn]
                intro hok
                cases hsp : (splitFirst t').2 with
                | nil =>
                  rw [hsp] at hok
                  simp only [LevelsOK] at hok
                  rcases hok with h | h | h
                  · simp [cHash, cPlus] at h
                  · simp at h
                  · exact h.1 (by simp)
                | cons l2 ls =>
                  rw [hsp] at hok
                  simp only [LevelsOK] at hok
                  rcases hok.1 with h | h
                  · simp at h
                  · exact h.1 (by simp)
        · -- an ordinary byte
          have e : ∀ mid, filterBytes (b :: t) mid = filterBytes t true := by
            intro mid
            have hbs : (b != cSlash) = true := by simp [bne_iff_ne, hs]
            simp [filterBytes, headNotSlash, hh, hp, hbs]
          rw [e true, e false, ihT]
          simp only [splitFirst, if_neg hs]
          rw [plainLevel_cons b _ hp hh]
          refine ⟨Iff.rfl, ?_⟩
          cases hsp : (splitFirst t).2 with
          | nil =>
            simp only [LevelsOK]
            rw [plainLevel_cons b _ hp hh]
            constructor
            · rintro ⟨h, _⟩; exact Or.inr (Or.inr h)
            · rintro (h | h | h)
              · simp at h; exact (hh h.1).elim
              · simp at h; exact (hp h.1).elim
              · exact ⟨h, trivial⟩
          | cons l2 ls =>
            simp only [LevelsOK]
            rw [plainLevel_cons b _ hp hh]
            constructor
            · rintro ⟨h, h2⟩; exact ⟨Or.inr h, h2⟩
            · rintro ⟨h | h, h2⟩
              · simp at h; exact (hp h.1).elim
              · exact ⟨h, h2⟩

theorem filterShape_iff (bs : Bytes) : FilterShape bs ↔ bs ≠ [] ∧ filterBytes bs false = true := by
  unfold FilterShape
  rw [(filterBytes_iff bs).2]

/-! ### rune loops = byte loops on well-formed UTF-8 -/

theorem high_not_special {b : Nat} (h : 0x80 ≤ b) : b ≠ cPlus ∧ b ≠ cHash ∧ b ≠ cSlash := by
  simp only [cPlus, cHash, cSlash]; omega

/-- an encoded scalar value is one ASCII byte, or a lead byte ≥ 0xC2 followed by 1–3 bytes ≥ 0x80 -/
theorem encodeCp_cases (c : Nat) (hsc : IsScalar c) :
    (c < 0x80 ∧ encodeCp c = [c]) ∨
    (0x80 ≤ c ∧ ∃ p0 m, encodeCp c = p0 :: m ∧ 0xC2 ≤ p0 ∧ m ≠ [] ∧ ∀ b ∈ m, 0x80 ≤ b) := by
  have h := hsc
  unfold IsScalar at h
  unfold encodeCp
  by_cases h1 : c < 0x80
  · left; exact ⟨h1, by rw [if_pos h1]⟩
  · right
    refine ⟨by omega, ?_⟩
    rw [if_neg h1]
    by_cases h2 : c < 0x800
    · rw [if_pos h2]
      refine ⟨_, _, rfl, by omega, by simp, ?_⟩
      intro b hb
      simp only [List.mem_cons, List.not_mem_nil, or_false] at hb
      omega
    · rw [if_neg h2]
      by_cases h3 : c < 0x10000
      · rw [if_pos h3]
        refine ⟨_, _, rfl, by omega, by simp, ?_⟩
        intro b hb
        simp only [List.mem_cons, List.not_mem_nil, or_false] at hb
        omega
      · rw [if_neg h3]
        refine ⟨_, _, rfl, by omega, by simp, ?_⟩
        intro b hb
        simp only [List.mem_cons, List.not_mem_nil, or_false] at hb
        omega

theorem nameBytes_high (m rest : Bytes) (hm : ∀ b ∈ m, 0x80 ≤ b) : nameBytes (m ++ rest) = nameBytes rest := by
  induction m with
  | nil => rfl
  | cons b t ih =>
    obtain ⟨h1, h2, _⟩ := high_not_special (hm b (by simp))
    simp only [List.cons_append, nameBytes, h1, h2, decide_false, Bool.or_self, Bool.false_eq_true, if_false]
    exact ih (fun x hx => hm x (by simp [hx]))

theorem filterBytes_high (m rest : Bytes) (mid : Bool) (hm : ∀ b ∈ m, 0x80 ≤ b) (hne : m ≠ []) :
    filterBytes (m ++ rest) mid = filterBytes rest true := by
  induction m generalizing mid with
  | nil => exact (hne rfl).elim
  | cons b t ih =>
    obtain ⟨h1, h2, h3⟩ := high_not_special (hm b (by simp))
    have e3 : (b != cSlash) = true := by simp [bne_iff_ne, h3]
    simp only [List.cons_append, filterBytes, h1, h2, e3, decide_false, Bool.false_and, Bool.or_self,
      Bool.false_eq_true, if_false]
    cases t with
    | nil => rfl
    | cons x xs => exact ih true (fun y hy => hm y (by simp [hy])) (by simp)

theorem shareBytes_high (m rest : Bytes) (hm : ∀ b ∈ m, 0x80 ≤ b) : shareBytes (m ++ rest) = shareBytes rest := by
  induction m with
  | nil => rfl
  | cons b t ih =>
    obtain ⟨h1, h2, h3⟩ := high_not_special (hm b (by simp))
    simp only [List.cons_append, shareBytes, h1, h2, h3, decide_false, Bool.or_self, Bool.false_eq_true, if_false]
    exact ih (fun x hx => hm x (by simp [hx]))

/-- what the rune loops see at a multi-byte character -/
theorem multi_step (c p0 : Nat) (m rest : Bytes) (h : IsScalar c) (_hc : 0x80 ≤ c) (he : encodeCp c = p0 :: m) :
    decodeRune (p0 :: (m ++ rest)) = (c, m.length + 1) ∧ badRune c (m.length + 1) = false
      ∧ (m ++ rest).drop (m.length + 1 - 1) = rest ∧ m.length + 1 ≠ 1 := by
  have hd := decodeRune_encodeCp c h rest
  rw [he] at hd
  have hlen : m.length + 1 ≠ 1 := by
    intro e
    have : (encodeCp c).length = 1 := by rw [he]; simpa using e
    have := encodeCp_length_one c this
    omega
  refine ⟨by simpa using hd, ?_, by simp, hlen⟩
  simp only [badRune, Bool.and_eq_false_iff, beq_eq_false_iff_ne, ne_eq]
  right; exact hlen

theorem ascii_step (c : Nat) (rest : Bytes) (hc : c < 0x80) :
    decodeRune (c :: rest) = (c, 1) ∧ badRune c 1 = false := by
  refine ⟨by rw [decodeRune_cons, firstInfo_ascii hc]; simp, ?_⟩
  simp only [badRune, runeError, Bool.and_eq_false_iff, beq_eq_false_iff_ne, ne_eq]
  left; omega

theorem validTopicNameLoop_cons (must : Bool) (p0 : Nat) (tl : Bytes) :
    validTopicNameLoop must (p0 :: tl) =
      (if must && badRune (decodeRune (p0 :: tl)).1 (decodeRune (p0 :: tl)).2 then false
       else if (decodeRune (p0 :: tl)).2 = 1 && (p0 = cPlus || p0 = cHash) then false
       else validTopicNameLoop must (tl.drop ((decodeRune (p0 :: tl)).2 - 1))) := by
  rw [validTopicNameLoop]

theorem validTopicFilterLoop_cons (must : Bool) (p0 : Nat) (tl : Bytes) (prev : Option Nat) :
    validTopicFilterLoop must (p0 :: tl) prev =
      (if must && badRune (decodeRune (p0 :: tl)).1 (decodeRune (p0 :: tl)).2 then false
       else if p0 = cHash && !tl.isEmpty then false
       else if (decodeRune (p0 :: tl)).2 = 1 && (p0 = cPlus || p0 = cHash) && prevNotSlash prev then false
       else if (decodeRune (p0 :: tl)).2 = 1 && p0 = cPlus && headNotSlash tl then false
       else validTopicFilterLoop must (tl.drop ((decodeRune (p0 :: tl)).2 - 1)) (some p0)) := by
  rw [validTopicFilterLoop.eq_def]

theorem shareLoop_cons (s0 : Nat) (tl : Bytes) :
    shareLoop (s0 :: tl) =
      (if badRune (decodeRune (s0 :: tl)).1 (decodeRune (s0 :: tl)).2 then false
       else if (decodeRune (s0 :: tl)).2 = 1 && s0 = cSlash then validTopicFilter true tl
       else if (decodeRune (s0 :: tl)).2 = 1 && (s0 = cPlus || s0 = cHash) then false
       else shareLoop (tl.drop ((decodeRune (s0 :: tl)).2 - 1))) := by
  rw [shareLoop]

theorem nameLoop_eq_bytes (cps : List Nat) (h : ∀ c ∈ cps, IsScalar c) :
    validTopicNameLoop true (utf8Of cps) = nameBytes (utf8Of cps) := by
  induction cps with
  | nil => simp [utf8Of, validTopicNameLoop, nameBytes]
  | cons c cs ih =>
    have hc := h c (by simp)
    have ih' := ih (fun x hx => h x (by simp [hx]))
    have e : utf8Of (c :: cs) = encodeCp c ++ utf8Of cs := by simp [utf8Of]
    rw [e]
    rcases encodeCp_cases c hc with ⟨hlt, he⟩ | ⟨hge, p0, m, he, hp0, hmne, hm⟩
    · rw [he]
      obtain ⟨hd, hb⟩ := ascii_step c (utf8Of cs) hlt
      simp only [List.cons_append, List.nil_append]
      rw [validTopicNameLoop_cons, hd]
      simp only [hb, Bool.and_false, Bool.false_eq_true, if_false, Nat.sub_self, List.drop_zero, nameBytes,
        decide_true, Bool.true_and]
      rw [ih']
    · rw [he]
      obtain ⟨hd, hb, hdrop, hlen⟩ := multi_step c p0 m (utf8Of cs) hc hge he
      obtain ⟨q1, q2, _⟩ := @high_not_special p0 (by omega)
      simp only [List.cons_append]
      rw [validTopicNameLoop_cons, hd]
      simp only [hb, Bool.and_false, Bool.false_eq_true, if_false, hdrop, q1, q2, decide_false, Bool.or_self,
        nameBytes]
      rw [nameBytes_high m _ hm, ih']

theorem filterLoop_eq_bytes (cps : List Nat) (h : ∀ c ∈ cps, IsScalar c) (prev : Option Nat) :
    validTopicFilterLoop true (utf8Of cps) prev = filterBytes (utf8Of cps) (prevNotSlash prev) := by
  induction cps generalizing prev with
  | nil => simp [utf8Of, validTopicFilterLoop, filterBytes]
  | cons c cs ih =>
    have hc := h c (by simp)
    have ih' := ih (fun x hx => h x (by simp [hx]))
    have e : utf8Of (c :: cs) = encodeCp c ++ utf8Of cs := by simp [utf8Of]
    rw [e]
    rcases encodeCp_cases c hc with ⟨hlt, he⟩ | ⟨hge, p0, m, he, hp0, hmne, hm⟩
    · rw [he]
      obtain ⟨hd, hb⟩ := ascii_step c (utf8Of cs) hlt
      simp only [List.cons_append, List.nil_append]
      rw [validTopicFilterLoop_cons, hd]
      simp only [hb, Bool.and_false, Bool.false_eq_true, if_false, Nat.sub_self, List.drop_zero, filterBytes,
        decide_true, Bool.true_and]
      rw [ih' (some c)]
      rfl
    · rw [he]
      obtain ⟨hd, hb, hdrop, hlen⟩ := multi_step c p0 m (utf8Of cs) hc hge he
      obtain ⟨q1, q2, q3⟩ := @high_not_special p0 (by omega)
      simp only [List.cons_append]
      rw [validTopicFilterLoop_cons, hd]
      have e2 : decide (m.length + 1 = 1) = false := by simp [hmne]
      simp only [hb, Bool.and_false, Bool.false_eq_true, if_false, hdrop, q1, q2, e2, decide_false, Bool.false_and]
      rw [ih' (some p0)]
      have e3 : prevNotSlash (some p0) = true := by simp [prevNotSlash, bne_iff_ne, q3]
      rw [e3]
      have := filterBytes_high (p0 :: m) (utf8Of cs) (prevNotSlash prev) (by
        intro b hb'
        rcases List.mem_cons.mp hb' with rfl | hb'
        · omega
        · exact hm b hb') (by simp)
      simpa using this.symm

theorem shareLoop_eq_bytes (cps : List Nat) (h : ∀ c ∈ cps, IsScalar c) :
    shareLoop (utf8Of cps) = shareBytes (utf8Of cps) := by
  induction cps with
  | nil => simp [utf8Of, shareLoop, shareBytes]
  | cons c cs ih =>
    have hc := h c (by simp)
    have ih' := ih (fun x hx => h x (by simp [hx]))
    have e : utf8Of (c :: cs) = encodeCp c ++ utf8Of cs := by simp [utf8Of]
    rw [e]
    rcases encodeCp_cases c hc with ⟨hlt, he⟩ | ⟨hge, p0, m, he, hp0, hmne, hm⟩
    · rw [he]
      obtain ⟨hd, hb⟩ := ascii_step c (utf8Of cs) hlt
      simp only [List.cons_append, List.nil_append]
      rw [shareLoop_cons, hd]
      simp only [hb, Bool.false_eq_true, if_false, Nat.sub_self, List.drop_zero, shareBytes,
        decide_true, Bool.true_and]
      rw [ih']
      by_cases h1 : c = cSlash
      · simp [h1]
      · simp [h1]
    · rw [he]
      obtain ⟨hd, hb, hdrop, hlen⟩ := multi_step c p0 m (utf8Of cs) hc hge he
      simp only [List.cons_append]
      rw [shareLoop_cons, hd]
      have e2 : decide (m.length + 1 = 1) = false := by simp [hmne]
      simp only [hb, Bool.false_eq_true, if_false, hdrop, e2, Bool.false_and]
      rw [ih']
      have := shareBytes_high (p0 :: m) (utf8Of cs) (by
        intro b hb'
        rcases List.mem_cons.mp hb' with rfl | hb'
        · omega
        · exact hm b hb')
      simpa using this.symm

/-! ### the three validity functions against the specification -/

theorem scalars_of_mqtt {cps : List Nat} (h : ∀ c ∈ cps, MqttChar c) : ∀ c ∈ cps, IsScalar c :=
  fun c hc => (h c hc).1

theorem isEmpty_eq_false_iff (bs : Bytes) : (!bs.isEmpty) = true ↔ bs ≠ [] := by
  cases bs <;> simp

theorem name_ok_iff (cps : List Nat) (h : ∀ c ∈ cps, IsScalar c) :
    validTopicName true (utf8Of cps) = true ↔ NameShape (utf8Of cps) := by
  unfold validTopicName
  rw [Bool.and_eq_true, isEmpty_eq_false_iff, nameLoop_eq_bytes cps h, nameShape_iff]

theorem filter_ok_iff (cps : List Nat) (h : ∀ c ∈ cps, IsScalar c) :
    validTopicFilter true (utf8Of cps) = true ↔ FilterShape (utf8Of cps) := by
  unfold validTopicFilter
  rw [Bool.and_eq_true, isEmpty_eq_false_iff, filterLoop_eq_bytes cps h none, filterShape_iff]
  rfl

/-- splitting `hi ++ x` at the first separator `s`, when `s` does not occur in `hi` -/
theorem append_eq_sep (s : Nat) (hi x name filt : Bytes) (hs : s ∉ hi) (hn : s ∉ name)
    (h : hi ++ x = name ++ s :: filt) : ∃ name', name = hi ++ name' ∧ x = name' ++ s :: filt := by
  induction hi generalizing name with
  | nil => exact ⟨name, rfl, h⟩
  | cons a t ih =>
    cases name with
    | nil =>
      simp only [List.cons_append, List.nil_append, List.cons.injEq] at h
      exact (hs (by simp [h.1])).elim
    | cons b n =>
      simp only [List.cons_append, List.cons.injEq] at h
      obtain ⟨name', h1, h2⟩ := ih n (fun hm => hs (by simp [hm])) (fun hm => hn (by simp [hm])) h.2
      exact ⟨name', by rw [h.1, h1]; rfl, h2⟩

/-- the share-name loop: everything up to the first `/` is the ShareName (no `+`, `#`), the rest a filter -/
theorem shareLoop_iff (cps : List Nat) (h : ∀ c ∈ cps, IsScalar c) :
    shareLoop (utf8Of cps) = true ↔
      ∃ name filt, utf8Of cps = name ++ cSlash :: filt ∧ cSlash ∉ name ∧ cPlus ∉ name ∧ cHash ∉ name
        ∧ FilterShape filt := by
  induction cps with
  | nil =>
    simp only [utf8Of, List.flatMap_nil, shareLoop, Bool.false_eq_true, false_iff]
    rintro ⟨name, filt, he, _⟩
    cases name <;> simp at he
  | cons c cs ih =>
    have hc := h c (by simp)
    have hcs : ∀ x ∈ cs, IsScalar x := fun x hx => h x (by simp [hx])
    have ih' := ih hcs
    have e : utf8Of (c :: cs) = encodeCp c ++ utf8Of cs := by simp [utf8Of]
    rw [e]
    rcases encodeCp_cases c hc with ⟨hlt, he⟩ | ⟨hge, p0, m, he, hp0, hmne, hm⟩
    · rw [he]
      obtain ⟨hd, hb⟩ := ascii_step c (utf8Of cs) hlt
      simp only [List.cons_append, List.nil_append]
      rw [shareLoop_cons, hd]
      simp only [hb, Bool.false_eq_true, if_false, Nat.sub_self, List.drop_zero, decide_true, Bool.true_and]
      by_cases h1 : c = cSlash
      · subst h1
        simp only [decide_true, if_true]
        rw [filter_ok_iff cs hcs]
        constructor
        · intro hf
          exact ⟨[], utf8Of cs, rfl, by simp, by simp, by simp, hf⟩
        · rintro ⟨name, filt, he', hn, _, _, hf⟩
          cases name with
          | nil =>
            simp only [List.nil_append, List.cons.injEq, true_and] at he'
            rw [he']; exact hf
          | cons b n =>
            simp only [List.cons_append, List.cons.injEq] at he'
            exact (hn (by simp [he'.1])).elim
      · simp only [h1, decide_false, Bool.false_eq_true, if_false]
        by_cases h2 : (c = cPlus || c = cHash) = true
        · rw [if_pos h2]
          simp only [Bool.false_eq_true, false_iff]
          rintro ⟨name, filt, he', hn, hp, hh, _⟩
          cases name with
          | nil =>
            simp only [List.nil_append, List.cons.injEq] at he'
            exact h1 he'.1
          | cons b n =>
            simp only [List.cons_append, List.cons.injEq] at he'
            simp only [Bool.or_eq_true, decide_eq_true_eq] at h2
            rcases h2 with h2 | h2
            · exact hp (by simp [← he'.1, h2])
            · exact hh (by simp [← he'.1, h2])
        · rw [if_neg h2, ih']
          simp only [Bool.or_eq_true, decide_eq_true_eq, not_or] at h2
          constructor
          · rintro ⟨name, filt, he', hn, hp, hh, hf⟩
            refine ⟨c :: name, filt, by rw [he']; rfl, ?_, ?_, ?_, hf⟩
            · simp only [List.mem_cons, not_or]; exact ⟨fun e => h1 e.symm, hn⟩
            · simp only [List.mem_cons, not_or]; exact ⟨fun e => h2.1 e.symm, hp⟩
            · simp only [List.mem_cons, not_or]; exact ⟨fun e => h2.2 e.symm, hh⟩
          · rintro ⟨name, filt, he', hn, hp, hh, hf⟩
            cases name with
            | nil =>
              simp only [List.nil_append, List.cons.injEq] at he'
              exact (h1 he'.1).elim
            | cons b n =>
              simp only [List.cons_append, List.cons.injEq] at he'
              exact ⟨n, filt, he'.2, fun hm => hn (by simp [hm]), fun hm => hp (by simp [hm]),
                fun hm => hh (by simp [hm]), hf⟩
    · rw [he]
      obtain ⟨hd, hb, hdrop, hlen⟩ := multi_step c p0 m (utf8Of cs) hc hge he
      have hall : ∀ b ∈ p0 :: m, 0x80 ≤ b := by
        intro b hb'
        rcases List.mem_cons.mp hb' with rfl | hb'
        · omega
        · exact hm b hb'
      simp only [List.cons_append]
      rw [shareLoop_cons, hd]
      have e2 : decide (m.length + 1 = 1) = false := by simp [hmne]
      simp only [hb, Bool.false_eq_true, if_false, hdrop, e2, Bool.false_and]
      rw [ih']
      constructor
      · rintro ⟨name, filt, he', hn, hp, hh, hf⟩
        refine ⟨(p0 :: m) ++ name, filt, by rw [he']; simp, ?_, ?_, ?_, hf⟩
        · intro hmem
          rcases List.mem_append.mp hmem with hx | hx
          · exact (high_not_special (hall _ hx)).2.2 rfl
          · exact hn hx
        · intro hmem
          rcases List.mem_append.mp hmem with hx | hx
          · exact (high_not_special (hall _ hx)).1 rfl
          · exact hp hx
        · intro hmem
          rcases List.mem_append.mp hmem with hx | hx
          · exact (high_not_special (hall _ hx)).2.1 rfl
          · exact hh hx
      · rintro ⟨name, filt, he', hn, hp, hh, hf⟩
        have hs : cSlash ∉ p0 :: m := fun hx => (high_not_special (hall _ hx)).2.2 rfl
        obtain ⟨name', h1, h2⟩ := append_eq_sep cSlash (p0 :: m) (utf8Of cs) name filt hs hn (by simpa using he')
        refine ⟨name', filt, h2, ?_, ?_, ?_, hf⟩
        · intro hx; exact hn (by rw [h1]; exact List.mem_append_right _ hx)
        · intro hx; exact hp (by rw [h1]; exact List.mem_append_right _ hx)
        · intro hx; exact hh (by rw [h1]; exact List.mem_append_right _ hx)

/-- an ASCII prefix of a UTF-8 string consists of whole characters -/
theorem utf8Of_ascii_prefix (pre : Bytes) (hpre : ∀ b ∈ pre, b < 0x80) (cps : List Nat) (rest : Bytes)
    (h : ∀ c ∈ cps, IsScalar c) (he : utf8Of cps = pre ++ rest) :
    ∃ cs, (∀ c ∈ cs, c ∈ cps) ∧ rest = utf8Of cs := by
  induction pre generalizing cps with
  | nil => exact ⟨cps, fun _ hc => hc, by simpa using he.symm⟩
  | cons a t ih =>
    cases cps with
    | nil => simp [utf8Of] at he
    | cons c cs =>
      have hc := h c (by simp)
      have e : utf8Of (c :: cs) = encodeCp c ++ utf8Of cs := by simp [utf8Of]
      rw [e] at he
      rcases encodeCp_cases c hc with ⟨_, hec⟩ | ⟨_, p0, m, hec, hp0, _, _⟩
      · rw [hec] at he
        simp only [List.cons_append, List.nil_append, List.cons.injEq] at he
        obtain ⟨cs', hsub, hr⟩ := ih (fun b hb => hpre b (by simp [hb])) cs (fun x hx => h x (by simp [hx])) he.2
        exact ⟨cs', fun x hx => by simp [hsub x hx], hr⟩
      · rw [hec] at he
        simp only [List.cons_append, List.cons.injEq] at he
        have := hpre a (by simp)
        omega

theorem sharePrefix_ascii : ∀ b ∈ sharePrefix, b < 0x80 := by
  intro b hb
  simp only [sharePrefix, List.mem_cons, List.not_mem_nil, or_false] at hb
  omega

theorem isPrefixOf_iff (p bs : Bytes) : p.isPrefixOf bs = true ↔ ∃ r, bs = p ++ r := by
  rw [List.isPrefixOf_iff_prefix]
  constructor
  · rintro ⟨r, hr⟩; exact ⟨r, hr.symm⟩
  · rintro ⟨r, hr⟩; exact ⟨r, hr.symm⟩

theorem validName_iff (bs : Bytes) : (validUTF8 bs && validTopicName true bs) = true ↔ SpecName bs := by
  rw [Bool.and_eq_true, validUTF8_iff]
  constructor
  · rintro ⟨⟨cps, hc, rfl⟩, hv⟩
    exact ⟨⟨cps, hc, rfl⟩, (name_ok_iff cps (scalars_of_mqtt hc)).mp hv⟩
  · rintro ⟨⟨cps, hc, rfl⟩, hs⟩
    exact ⟨⟨cps, hc, rfl⟩, (name_ok_iff cps (scalars_of_mqtt hc)).mpr hs⟩

theorem validFilter_iff (bs : Bytes) : (validUTF8 bs && validTopicFilter true bs) = true ↔ SpecFilter bs := by
  rw [Bool.and_eq_true, validUTF8_iff]
  constructor
  · rintro ⟨⟨cps, hc, rfl⟩, hv⟩
    exact ⟨⟨cps, hc, rfl⟩, (filter_ok_iff cps (scalars_of_mqtt hc)).mp hv⟩
  · rintro ⟨⟨cps, hc, rfl⟩, hs⟩
    exact ⟨⟨cps, hc, rfl⟩, (filter_ok_iff cps (scalars_of_mqtt hc)).mpr hs⟩

theorem validV5_iff (bs : Bytes) : (validUTF8 bs && validV5Topic bs) = true ↔ SpecV5 bs := by
  rw [Bool.and_eq_true, validUTF8_iff]
  unfold SpecV5
  constructor
  · rintro ⟨⟨cps, hc, rfl⟩, hv⟩
    refine ⟨⟨cps, hc, rfl⟩, ?_⟩
    have hsc := scalars_of_mqtt hc
    unfold validV5Topic at hv
    by_cases hemp : (utf8Of cps).isEmpty = true
    · rw [if_pos hemp] at hv; cases hv
    · rw [if_neg hemp] at hv
      by_cases hp : sharePrefix.isPrefixOf (utf8Of cps) = true
      · rw [if_pos hp] at hv ⊢
        obtain ⟨r, hr⟩ := (isPrefixOf_iff _ _).mp hp
        have hdrop : (utf8Of cps).drop 7 = r := by rw [hr]; rfl
        rw [hdrop] at hv
        by_cases hlen : (utf8Of cps).length < 9
        · rw [if_pos hlen] at hv; cases hv
        · rw [if_neg hlen] at hv
          by_cases hhead : (r.head? != some cSlash) = true
          · rw [if_pos hhead] at hv
            obtain ⟨cs, hsub, hrcs⟩ := utf8Of_ascii_prefix sharePrefix sharePrefix_ascii cps r hsc hr
            rw [hrcs] at hv
            obtain ⟨name, filt, he, hn, hpl, hh, hf⟩ := (shareLoop_iff cs (fun c hc' => hsc c (hsub c hc'))).mp hv
            refine ⟨name, filt, ?_, ?_, hn, hpl, hh, hf⟩
            · rw [hr, hrcs, he, List.append_assoc]
            · rintro rfl
              rw [hrcs, he] at hhead
              simp at hhead
          · rw [if_neg hhead] at hv; cases hv
      · have hp' : ¬ (sharePrefix.isPrefixOf (utf8Of cps) = true) := hp
        rw [if_neg hp'] at hv ⊢
        exact (filter_ok_iff cps hsc).mp hv
  · rintro ⟨⟨cps, hc, rfl⟩, hs⟩
    refine ⟨⟨cps, hc, rfl⟩, ?_⟩
    have hsc := scalars_of_mqtt hc
    unfold validV5Topic
    by_cases hp : sharePrefix.isPrefixOf (utf8Of cps) = true
    · rw [if_pos hp] at hs
      obtain ⟨name, filt, he, hne, hn, hpl, hh, hf⟩ := hs
      have hemp : ¬ ((utf8Of cps).isEmpty = true) := by
        rw [he]; simp [sharePrefix]
      rw [if_neg hemp, if_pos hp]
      have hdrop : (utf8Of cps).drop 7 = name ++ cSlash :: filt := by
        rw [he, List.append_assoc]; rfl
      have hlen : ¬ ((utf8Of cps).length < 9) := by
        have hl : 0 < name.length := List.length_pos_iff.mpr hne
        rw [he]
        simp only [List.length_append, List.length_cons, sharePrefix, List.length_nil]
        omega
      rw [if_neg hlen, hdrop]
      have hhead : ((name ++ cSlash :: filt).head? != some cSlash) = true := by
        cases name with
        | nil => exact (hne rfl).elim
        | cons b n =>
          simp only [List.cons_append, List.head?_cons, bne_iff_ne, ne_eq, Option.some.injEq]
          intro e
          exact hn (by simp [e])
      rw [if_pos hhead]
      obtain ⟨cs, hsub, hrcs⟩ := utf8Of_ascii_prefix sharePrefix sharePrefix_ascii cps (name ++ cSlash :: filt) hsc
        (by rw [he, List.append_assoc])
      rw [hrcs]
      exact (shareLoop_iff cs (fun c hc' => hsc c (hsub c hc'))).mpr ⟨name, filt, hrcs.symm, hn, hpl, hh, hf⟩
    · have hp' : ¬ (sharePrefix.isPrefixOf (utf8Of cps) = true) := hp
      rw [if_neg hp'] at hs
      have hemp : ¬ ((utf8Of cps).isEmpty = true) := by
        have := hs.1
        cases h : utf8Of cps with
        | nil => exact (this h).elim
        | cons a t => simp
      rw [if_neg hemp, if_neg hp']
      exact (filter_ok_iff cps hsc).mpr hs

end GmqttVerif.Codec
