import GmqttVerif.Model.Codec.Utf8
import GmqttVerif.Proofs.Codec.Prim
/-
  UTF-8: the declarative specification (Unicode scalar values, RFC 3629 encoding) and the proof that the
  rune-by-rune loop of `ValidUTF8` accepts exactly the concatenations of encodings of permitted code points.
-/
namespace GmqttVerif.Codec

/-! ### specification vocabulary -/

/-- Unicode scalar value: a code point that is not a surrogate -/
def IsScalar (c : Nat) : Prop := c < 0xD800 ∨ (0xE000 ≤ c ∧ c < 0x110000)

/-- RFC 3629 encoding of a scalar value -/
def encodeCp (c : Nat) : Bytes :=
  if c < 0x80 then [c]
  else if c < 0x800 then [0xC0 + c / 64, 0x80 + c % 64]
  else if c < 0x10000 then [0xE0 + c / 4096, 0x80 + c / 64 % 64, 0x80 + c % 64]
  else [0xF0 + c / 262144, 0x80 + c / 4096 % 64, 0x80 + c / 64 % 64, 0x80 + c % 64]

/-- code points gmqtt admits in an MQTT string: scalar values other than the C0/C1 control characters
    (U+0000 MUST be refused [MQTT-1.5.4-2]; the other controls MAY be refused, and gmqtt does) -/
def MqttChar (c : Nat) : Prop := IsScalar c ∧ ¬ c ≤ 0x1F ∧ ¬ (0x7F ≤ c ∧ c ≤ 0x9F)

/-- the UTF-8 encoding of a sequence of code points -/
def utf8Of (cps : List Nat) : Bytes := cps.flatMap encodeCp

/-- `bs` is the well-formed UTF-8 encoding of some sequence of admitted code points -/
def SpecUtf8 (bs : Bytes) : Prop := ∃ cps : List Nat, (∀ c ∈ cps, MqttChar c) ∧ bs = utf8Of cps

/-! ### `decodeRune` against `encodeCp` -/

theorem encodeCp_length_pos (c : Nat) : 0 < (encodeCp c).length := by
  unfold encodeCp
  split <;> (try split) <;> (try split) <;> simp

theorem encodeCp_length_le (c : Nat) : (encodeCp c).length ≤ 4 := by
  unfold encodeCp
  split <;> (try split) <;> (try split) <;> simp

theorem encodeCp_allBytes (c : Nat) (h : c < 0x110000) : AllBytes (encodeCp c) := by
  unfold encodeCp AllBytes
  split <;> (try split) <;> (try split) <;> simp <;> omega

theorem firstInfo_ascii {p : Nat} (h : p < 0x80) : firstInfo p = (1, 0, 0) := by
  unfold firstInfo; rw [if_pos h]

theorem firstInfo_xx_lo {p : Nat} (h1 : 0x80 ≤ p) (h2 : p < 0xC2) : firstInfo p = (0, 0, 0) := by
  unfold firstInfo; rw [if_neg (by omega), if_pos h2]

theorem firstInfo_xx_hi {p : Nat} (h1 : 0xF4 < p) : firstInfo p = (0, 0, 0) := by
  unfold firstInfo
  rw [if_neg (by omega), if_neg (by omega), if_neg (by omega), if_neg (by omega), if_neg (by omega),
    if_neg (by omega), if_neg (by omega), if_neg (by omega), if_neg (by omega), if_neg (by omega)]

theorem firstInfo_2 {p : Nat} (h1 : 0xC2 ≤ p) (h2 : p < 0xE0) : firstInfo p = (2, 0x80, 0xBF) := by
  unfold firstInfo; rw [if_neg (by omega), if_neg (by omega), if_pos h2]

/-- three-byte lead bytes: the accept range of the second byte excludes over-long forms (E0) and surrogates (ED) -/
theorem firstInfo_3 {p : Nat} (h1 : 0xE0 ≤ p) (h2 : p < 0xF0) :
    firstInfo p = (3, if p = 0xE0 then 0xA0 else 0x80, if p = 0xED then 0x9F else 0xBF) := by
  unfold firstInfo
  rw [if_neg (by omega), if_neg (by omega), if_neg (by omega)]
  by_cases e0 : p = 0xE0
  · rw [if_pos e0, if_pos e0, if_neg (by omega)]
  · rw [if_neg e0, if_neg e0]
    by_cases e1 : p < 0xED
    · rw [if_pos e1, if_neg (by omega)]
    · rw [if_neg e1]
      by_cases e2 : p = 0xED
      · rw [if_pos e2, if_pos e2]
      · rw [if_neg e2, if_neg e2, if_pos (by omega)]

/-- four-byte lead bytes: F0 excludes over-long forms, F4 excludes values above U+10FFFF -/
theorem firstInfo_4 {p : Nat} (h1 : 0xF0 ≤ p) (h2 : p ≤ 0xF4) :
    firstInfo p = (4, if p = 0xF0 then 0x90 else 0x80, if p = 0xF4 then 0x8F else 0xBF) := by
  unfold firstInfo
  rw [if_neg (by omega), if_neg (by omega), if_neg (by omega), if_neg (by omega), if_neg (by omega),
    if_neg (by omega), if_neg (by omega)]
  by_cases e0 : p = 0xF0
  · rw [if_pos e0, if_pos e0, if_neg (by omega)]
  · rw [if_neg e0, if_neg e0]
    by_cases e1 : p < 0xF4
    · rw [if_pos e1, if_neg (by omega)]
    · rw [if_neg e1, if_pos (by omega), if_pos (by omega)]

/-- decoding an encoded scalar value gives it back, with its length -/
theorem decodeRune_encodeCp (c : Nat) (h : IsScalar c) (rest : Bytes) :
    decodeRune (encodeCp c ++ rest) = (c, (encodeCp c).length) := by
  unfold IsScalar at h
  unfold encodeCp
  by_cases h1 : c < 0x80
  · rw [if_pos h1]
    simp only [List.cons_append, List.nil_append, decodeRune, firstInfo_ascii h1]
    simp
  · rw [if_neg h1]
    by_cases h2 : c < 0x800
    · rw [if_pos h2]
      have hfi := @firstInfo_2 (0xC0 + c / 64) (by omega) (by omega)
      simp only [List.cons_append, List.nil_append, decodeRune, hfi, decodeMulti, List.length_cons]
      have : ¬ ((0x80 + c % 64 < 0x80 || 0xBF < 0x80 + c % 64) = true) := by
        simp only [Bool.or_eq_true, decide_eq_true_eq]; omega
      rw [if_neg (by omega), if_neg (by omega), if_neg (by omega), if_neg this, if_pos (by omega)]
      simp only [List.length_nil]
      congr 1
      omega
    · rw [if_neg h2]
      by_cases h3 : c < 0x10000
      · rw [if_pos h3]
        have hfi := @firstInfo_3 (0xE0 + c / 4096) (by omega) (by omega)
        simp only [List.cons_append, List.nil_append, decodeRune, hfi, decodeMulti, List.length_cons]
        have hr : ¬ ((0x80 + c / 64 % 64 < (if 0xE0 + c / 4096 = 0xE0 then 0xA0 else 0x80)
            || (if 0xE0 + c / 4096 = 0xED then 0x9F else 0xBF) < 0x80 + c / 64 % 64) = true) := by
          simp only [Bool.or_eq_true, decide_eq_true_eq]
          split <;> split <;> omega
        have hc : isCont (0x80 + c % 64) = true := by
          simp only [isCont, Bool.and_eq_true, decide_eq_true_eq]; omega
        rw [if_neg (by omega), if_neg (by omega), if_neg (by omega), if_neg hr, if_neg (by omega)]
        simp only [hc, Bool.not_true, Bool.false_eq_true, if_false]
        rw [if_pos (by omega)]
        simp only [List.length_nil]
        congr 1
        omega
      · rw [if_neg h3]
        have hfi := @firstInfo_4 (0xF0 + c / 262144) (by omega) (by omega)
        simp only [List.cons_append, List.nil_append, decodeRune, hfi, decodeMulti, List.length_cons]
        have hr : ¬ ((0x80 + c / 4096 % 64 < (if 0xF0 + c / 262144 = 0xF0 then 0x90 else 0x80)
            || (if 0xF0 + c / 262144 = 0xF4 then 0x8F else 0xBF) < 0x80 + c / 4096 % 64) = true) := by
          simp only [Bool.or_eq_true, decide_eq_true_eq]
          split <;> split <;> omega
        have hc2 : isCont (0x80 + c / 64 % 64) = true := by
          simp only [isCont, Bool.and_eq_true, decide_eq_true_eq]; omega
        have hc3 : isCont (0x80 + c % 64) = true := by
          simp only [isCont, Bool.and_eq_true, decide_eq_true_eq]; omega
        rw [if_neg (by omega), if_neg (by omega), if_neg (by omega), if_neg hr, if_neg (by omega)]
        simp only [hc2, hc3, Bool.not_true, Bool.false_eq_true, if_false]
        rw [if_neg (by omega)]
        simp only [List.length_nil]
        congr 1
        omega

/-! ### `decodeMulti` on inputs of known shape -/

theorem dm2_short (lo hi p0 : Nat) : decodeMulti 2 lo hi p0 [] = (runeError, 1) := by
  simp [decodeMulti]
theorem dm2_full (lo hi p0 b1 : Nat) (t : Bytes) : decodeMulti 2 lo hi p0 (b1 :: t) =
    if b1 < lo || hi < b1 then (runeError, 1) else (p0 % 32 * 64 + b1 % 64, 2) := by
  unfold decodeMulti
  rw [if_neg (by simp only [List.length_cons]; omega)]
  simp
theorem dm3_short1 (lo hi p0 : Nat) : decodeMulti 3 lo hi p0 [] = (runeError, 1) := by
  simp [decodeMulti]
theorem dm3_short2 (lo hi p0 b1 : Nat) : decodeMulti 3 lo hi p0 [b1] = (runeError, 1) := by
  simp [decodeMulti]
theorem dm3_full (lo hi p0 b1 b2 : Nat) (t : Bytes) : decodeMulti 3 lo hi p0 (b1 :: b2 :: t) =
    if b1 < lo || hi < b1 then (runeError, 1) else if !isCont b2 then (runeError, 1)
    else ((p0 % 16 * 64 + b1 % 64) * 64 + b2 % 64, 3) := by
  unfold decodeMulti
  rw [if_neg (by simp only [List.length_cons]; omega)]
  simp
theorem dm4_short1 (lo hi p0 : Nat) : decodeMulti 4 lo hi p0 [] = (runeError, 1) := by
  simp [decodeMulti]
theorem dm4_short2 (lo hi p0 b1 : Nat) : decodeMulti 4 lo hi p0 [b1] = (runeError, 1) := by
  simp [decodeMulti]
theorem dm4_short3 (lo hi p0 b1 b2 : Nat) : decodeMulti 4 lo hi p0 [b1, b2] = (runeError, 1) := by
  simp [decodeMulti]
theorem dm4_full (lo hi p0 b1 b2 b3 : Nat) (t : Bytes) : decodeMulti 4 lo hi p0 (b1 :: b2 :: b3 :: t) =
    if b1 < lo || hi < b1 then (runeError, 1) else if !isCont b2 then (runeError, 1)
    else if !isCont b3 then (runeError, 1)
    else (((p0 % 8 * 64 + b1 % 64) * 64 + b2 % 64) * 64 + b3 % 64, 4) := by
  unfold decodeMulti
  rw [if_neg (by simp only [List.length_cons]; omega)]
  simp

theorem isCont_iff (b : Nat) : isCont b = true ↔ 0x80 ≤ b ∧ b ≤ 0xBF := by
  simp [isCont]

theorem decodeRune_cons (p0 : Nat) (tl : Bytes) :
    decodeRune (p0 :: tl) =
      if (firstInfo p0).1 = 1 then (p0, 1) else if (firstInfo p0).1 = 0 then (runeError, 1)
      else decodeMulti (firstInfo p0).1 (firstInfo p0).2.1 (firstInfo p0).2.2 p0 tl := rfl

/-- whatever `decodeRune` returns other than the error marker `(RuneError, 1)` is a scalar value whose
    RFC 3629 encoding is the prefix of the input that was consumed -/
theorem decodeRune_inv (p0 : Nat) (tl : Bytes) (r sz : Nat) (h : decodeRune (p0 :: tl) = (r, sz))
    (hne : ¬ (r = runeError ∧ sz = 1)) :
    IsScalar r ∧ sz = (encodeCp r).length ∧ ∃ rest, p0 :: tl = encodeCp r ++ rest := by
  have bad : (runeError, 1) = (r, sz) → False := fun e => by
    cases e; exact hne ⟨rfl, rfl⟩
  rw [decodeRune_cons] at h
  by_cases h1 : p0 < 0x80
  · rw [firstInfo_ascii h1] at h
    simp only [if_true] at h
    cases h
    refine ⟨Or.inl (by omega), ?_, tl, ?_⟩ <;> simp [encodeCp, h1]
  · by_cases h2 : p0 < 0xC2
    · rw [firstInfo_xx_lo (by omega) h2] at h
      simp only [show ¬ ((0:Nat) = 1) by omega, if_false, if_true] at h
      exact (bad h).elim
    · by_cases h3 : p0 < 0xE0
      · rw [firstInfo_2 (by omega) h3] at h
        simp only [show ¬ ((2:Nat) = 1) by omega, show ¬ ((2:Nat) = 0) by omega, if_false] at h
        match tl, h with
        | [], h => rw [dm2_short] at h; exact (bad h).elim
        | b1 :: tl1, h =>
          rw [dm2_full] at h
          split at h
          · exact (bad h).elim
          · rename_i hb
            simp only [Bool.or_eq_true, decide_eq_true_eq, not_or, Nat.not_lt] at hb
            cases h
            refine ⟨Or.inl (by omega), ?_, tl1, ?_⟩
            · simp only [encodeCp]
              rw [if_neg (by omega), if_pos (by omega)]
              rfl
            · simp only [encodeCp]
              rw [if_neg (by omega), if_pos (by omega)]
              simp only [List.cons_append, List.nil_append]
              congr 1
              · omega
              · congr 1
                omega
      · by_cases h4 : p0 < 0xF0
        · rw [firstInfo_3 (by omega) h4] at h
          simp only [show ¬ ((3:Nat) = 1) by omega, show ¬ ((3:Nat) = 0) by omega, if_false] at h
          match tl, h with
          | [], h => rw [dm3_short1] at h; exact (bad h).elim
          | [_], h => rw [dm3_short2] at h; exact (bad h).elim
          | b1 :: b2 :: tl2, h =>
            rw [dm3_full] at h
            by_cases hb : (b1 < (if p0 = 0xE0 then 0xA0 else 0x80) || (if p0 = 0xED then 0x9F else 0xBF) < b1) = true
            · rw [if_pos hb] at h; exact (bad h).elim
            · rw [if_neg hb] at h
              simp only [Bool.or_eq_true, decide_eq_true_eq, not_or, Nat.not_lt] at hb
              by_cases hc : (!isCont b2) = true
              · rw [if_pos hc] at h; exact (bad h).elim
              · rw [if_neg hc] at h
                simp only [Bool.not_eq_true', Bool.not_eq_false, isCont_iff] at hc
                cases h
                have hb1 : (if p0 = 0xE0 then 0xA0 else 0x80) ≤ b1 := hb.1
                have hb2 : b1 ≤ (if p0 = 0xED then 0x9F else 0xBF) := hb.2
                have hb1' : 0x80 ≤ b1 := by split at hb1 <;> omega
                have hb2' : b1 ≤ 0xBF := by split at hb2 <;> omega
                have hlo : 0x800 ≤ (p0 % 16 * 64 + b1 % 64) * 64 + b2 % 64 := by
                  split at hb1 <;> omega
                have hhi : (p0 % 16 * 64 + b1 % 64) * 64 + b2 % 64 < 0x10000 := by omega
                have hsur : (p0 % 16 * 64 + b1 % 64) * 64 + b2 % 64 < 0xD800
                    ∨ 0xE000 ≤ (p0 % 16 * 64 + b1 % 64) * 64 + b2 % 64 := by
                  split at hb2 <;> omega
                refine ⟨?_, ?_, tl2, ?_⟩
                · rcases hsur with hs | hs
                  · exact Or.inl hs
                  · exact Or.inr ⟨hs, by omega⟩
                · simp only [encodeCp]
                  rw [if_neg (by omega), if_neg (by omega), if_pos hhi]
                  rfl
                · simp only [encodeCp]
                  rw [if_neg (by omega), if_neg (by omega), if_pos hhi]
                  simp only [List.cons_append, List.nil_append]
                  congr 1
                  · omega
                  · congr 1
                    · omega
                    · congr 1
                      omega
        · by_cases h5 : p0 ≤ 0xF4
          · rw [firstInfo_4 (by omega) h5] at h
            simp only [show ¬ ((4:Nat) = 1) by omega, show ¬ ((4:Nat) = 0) by omega, if_false] at h
            match tl, h with
            | [], h => rw [dm4_short1] at h; exact (bad h).elim
            | [_], h => rw [dm4_short2] at h; exact (bad h).elim
            | [_, _], h => rw [dm4_short3] at h; exact (bad h).elim
            | b1 :: b2 :: b3 :: tl3, h =>
              rw [dm4_full] at h
              by_cases hb : (b1 < (if p0 = 0xF0 then 0x90 else 0x80) || (if p0 = 0xF4 then 0x8F else 0xBF) < b1) = true
              · rw [if_pos hb] at h; exact (bad h).elim
              · rw [if_neg hb] at h
                simp only [Bool.or_eq_true, decide_eq_true_eq, not_or, Nat.not_lt] at hb
                by_cases hc2 : (!isCont b2) = true
                · rw [if_pos hc2] at h; exact (bad h).elim
                · rw [if_neg hc2] at h
                  simp only [Bool.not_eq_true', Bool.not_eq_false, isCont_iff] at hc2
                  by_cases hc3 : (!isCont b3) = true
                  · rw [if_pos hc3] at h; exact (bad h).elim
                  · rw [if_neg hc3] at h
                    simp only [Bool.not_eq_true', Bool.not_eq_false, isCont_iff] at hc3
                    cases h
                    have hb1 : (if p0 = 0xF0 then 0x90 else 0x80) ≤ b1 := hb.1
                    have hb2 : b1 ≤ (if p0 = 0xF4 then 0x8F else 0xBF) := hb.2
                    have hb1' : 0x80 ≤ b1 := by split at hb1 <;> omega
                    have hb2' : b1 ≤ 0xBF := by split at hb2 <;> omega
                    have hlo : 0x10000 ≤ ((p0 % 8 * 64 + b1 % 64) * 64 + b2 % 64) * 64 + b3 % 64 := by
                      split at hb1 <;> omega
                    have hhi : ((p0 % 8 * 64 + b1 % 64) * 64 + b2 % 64) * 64 + b3 % 64 < 0x110000 := by
                      split at hb2 <;> omega
                    refine ⟨Or.inr ⟨by omega, hhi⟩, ?_, tl3, ?_⟩
                    · simp only [encodeCp]
                      rw [if_neg (by omega), if_neg (by omega), if_neg (by omega)]
                      rfl
                    · simp only [encodeCp]
                      rw [if_neg (by omega), if_neg (by omega), if_neg (by omega)]
                      simp only [List.cons_append, List.nil_append]
                      congr 1
                      · omega
                      · congr 1
                        · omega
                        · congr 1
                          · omega
                          · congr 1
                            omega
          · rw [firstInfo_xx_hi (by omega)] at h
            simp only [show ¬ ((0:Nat) = 1) by omega, if_false, if_true] at h
            exact (bad h).elim

/-! ### `validUTF8` = the specification -/

theorem encodeCp_length_one (c : Nat) (h : (encodeCp c).length = 1) : c < 0x80 := by
  unfold encodeCp at h
  split at h
  · assumption
  · split at h
    · simp at h
    · split at h <;> simp at h

theorem drop_of_cons_eq_append {p0 : Nat} {tl pre rest : Bytes} (h : p0 :: tl = pre ++ rest) (hp : 0 < pre.length) :
    tl.drop (pre.length - 1) = rest := by
  have h1 : (p0 :: tl).drop pre.length = rest := by rw [h, List.drop_left]
  obtain ⟨k, hk⟩ : ∃ k, pre.length = k + 1 := ⟨pre.length - 1, by omega⟩
  rw [hk] at h1 ⊢
  simpa using h1

theorem validUTF8_cons (p0 : Nat) (tl : Bytes) :
    validUTF8 (p0 :: tl) =
      (if ctlRune (decodeRune (p0 :: tl)).1 then false
       else if badRune (decodeRune (p0 :: tl)).1 (decodeRune (p0 :: tl)).2 then false
       else if !validRune (decodeRune (p0 :: tl)).1 then false
       else if (decodeRune (p0 :: tl)).2 = 0 then true
       else validUTF8 (tl.drop ((decodeRune (p0 :: tl)).2 - 1))) := by
  rw [validUTF8]

theorem validUTF8_sound (n : Nat) : ∀ bs : Bytes, bs.length ≤ n → validUTF8 bs = true → SpecUtf8 bs := by
  induction n with
  | zero =>
    intro bs hl _
    have : bs = [] := List.eq_nil_of_length_eq_zero (by omega)
    subst this
    exact ⟨[], by simp, rfl⟩
  | succ n ih =>
    intro bs hl h
    match bs, hl, h with
    | [], _, _ => exact ⟨[], by simp, rfl⟩
    | p0 :: tl, hl, h =>
      rw [validUTF8_cons] at h
      generalize hd : decodeRune (p0 :: tl) = rs at h
      obtain ⟨r, sz⟩ := rs
      simp only at h
      by_cases hctl : ctlRune r = true
      · rw [if_pos hctl] at h; cases h
      · rw [if_neg hctl] at h
        by_cases hbad : badRune r sz = true
        · rw [if_pos hbad] at h; cases h
        · rw [if_neg hbad] at h
          have hne : ¬ (r = runeError ∧ sz = 1) := by
            intro ⟨e1, e2⟩
            apply hbad
            simp [badRune, e1, e2]
          obtain ⟨hsc, hsz, rest, hrest⟩ := decodeRune_inv p0 tl r sz hd hne
          have hpos := encodeCp_length_pos r
          by_cases hvr : (!validRune r) = true
          · rw [if_pos hvr] at h; cases h
          · rw [if_neg hvr, if_neg (by omega)] at h
            have hdrop : tl.drop (sz - 1) = rest := by
              rw [hsz]; exact drop_of_cons_eq_append hrest hpos
            rw [hdrop] at h
            have hlen : rest.length ≤ n := by
              have := congrArg List.length hrest
              simp only [List.length_cons, List.length_append] at this
              simp only [List.length_cons] at hl
              omega
            obtain ⟨cps, hcps, hbs⟩ := ih rest hlen h
            refine ⟨r :: cps, ?_, ?_⟩
            · intro c hc
              rcases List.mem_cons.mp hc with rfl | hc
              · refine ⟨hsc, ?_, ?_⟩
                · intro hle
                  apply hctl
                  simp [ctlRune, hle]
                · intro hle
                  apply hctl
                  simp [ctlRune, hle.1, hle.2]
              · exact hcps c hc
            · rw [hrest, hbs]
              simp [utf8Of]

theorem validUTF8_complete (cps : List Nat) (h : ∀ c ∈ cps, MqttChar c) : validUTF8 (utf8Of cps) = true := by
  induction cps with
  | nil => simp [utf8Of, validUTF8]
  | cons c cs ih =>
    have hc : MqttChar c := h c (by simp)
    have hcs : ∀ c ∈ cs, MqttChar c := fun x hx => h x (by simp [hx])
    have e : utf8Of (c :: cs) = encodeCp c ++ utf8Of cs := by simp [utf8Of]
    rw [e]
    have hpos := encodeCp_length_pos c
    match hen : encodeCp c ++ utf8Of cs with
    | [] =>
      have := congrArg List.length hen
      simp only [List.length_append, List.length_nil] at this
      omega
    | p0 :: tl =>
      rw [validUTF8_cons, ← hen, decodeRune_encodeCp c hc.1]
      simp only
      have hctl : ctlRune c = false := by
        have h1 := hc.2.1
        have h2 := hc.2.2
        simp only [ctlRune, Bool.or_eq_false_iff, Bool.and_eq_false_iff, decide_eq_false_iff_not]
        omega
      have hbad : badRune c (encodeCp c).length = false := by
        simp only [badRune, Bool.and_eq_false_iff, beq_eq_false_iff_ne, ne_eq]
        by_cases h1 : (encodeCp c).length = 1
        · left
          have := encodeCp_length_one c h1
          simp only [runeError]
          omega
        · right; exact h1
      have hvr : validRune c = true := by
        have := hc.1
        unfold IsScalar at this
        simp only [validRune, Bool.or_eq_true, Bool.and_eq_true, decide_eq_true_eq]
        omega
      rw [hctl, hbad, hvr]
      simp only [Bool.false_eq_true, if_false, Bool.not_true]
      rw [if_neg (by omega)]
      have hdrop : tl.drop ((encodeCp c).length - 1) = utf8Of cs := drop_of_cons_eq_append hen.symm hpos
      rw [hdrop]
      exact ih hcs

/-- `ValidUTF8` (with the F22 fix) accepts exactly the well-formed UTF-8 encodings of admitted code points -/
theorem validUTF8_iff (bs : Bytes) : validUTF8 bs = true ↔ SpecUtf8 bs := by
  constructor
  · exact validUTF8_sound bs.length bs (Nat.le_refl _)
  · rintro ⟨cps, hc, rfl⟩
    exact validUTF8_complete cps hc

/-- printable ASCII is an MQTT string (used for the non-vacuity examples) -/
theorem validUTF8_ascii (bs : Bytes) (h : ∀ b ∈ bs, 0x20 ≤ b ∧ b < 0x7F) : validUTF8 bs = true := by
  have e : utf8Of bs = bs := by
    induction bs with
    | nil => rfl
    | cons b t ih =>
      have hb := h b (by simp)
      have : encodeCp b = [b] := by unfold encodeCp; rw [if_pos (by omega)]
      simp only [utf8Of, List.flatMap_cons, this, List.cons_append, List.nil_append]
      congr 1
      exact ih (fun x hx => h x (by simp [hx]))
  rw [← e]
  apply validUTF8_complete
  intro c hc
  have := h c hc
  exact ⟨Or.inl (by omega), by omega, by omega⟩

end GmqttVerif.Codec
