import GmqttVerif.Model.Deliver
import GmqttVerif.Model.Broker
import GmqttVerif.Proofs.Queue
/-
  Vocabulary and helper lemmas for C01 (`Properties/C01.lean` holds the property theorems only).
-/
namespace GmqttVerif.Deliver

/-- the non-shared subscriptions of client `c` that must produce a copy: filter matches, and not
    (No Local ∧ the client is itself the publisher) — in table order -/
def wanted (src : String) (table : List (String × Sub)) (topic : String) (c : String) : List Sub :=
  (table.filter (fun cs => cs.1 == c && cs.2.share == "" && subMatches cs.2 topic && !(cs.2.nl && cs.1 == src))).map (·.2)

/-- non-shared enqueue requests for client `c` -/
def copiesFor (c : String) (enqs : List (String × Msg)) : List Msg := (enqs.filter (·.1 == c)).map (·.2)

/-! ### overlap mode -/

/-- the non-shared eligible entries, the list both modes iterate over -/
def plain (src topic : String) (table : List (String × Sub)) : List (String × Sub) :=
  (eligible src topic table).filter (fun cs => cs.2.share == "")

theorem wanted_eq (src : String) (table : List (String × Sub)) (topic c : String) :
    wanted src table topic c = ((plain src topic table).filter (·.1 == c)).map (·.2) := by
  unfold wanted plain eligible
  rw [List.filter_filter, List.filter_filter]
  congr 1
  apply List.filter_congr
  intro cs _
  cases (cs.1 == c) <;> cases (cs.2.share == "") <;> simp

theorem copiesFor_map {α : Type} (c : String) (f : α → Msg) (xs : List (String × α)) :
    copiesFor c (xs.map (fun cs => (cs.1, f cs.2))) = ((xs.filter (·.1 == c)).map (·.2)).map f := by
  unfold copiesFor
  induction xs with
  | nil => rfl
  | cons x xs ih =>
    cases h : (x.1 == c) <;> simp [h] <;> simpa using ih

theorem overlap_exact (src : String) (table : List (String × Sub)) (m : Msg) (c : String) :
    copiesFor c (overlap m (eligible src m.topic table)) =
      (wanted src table m.topic c).map (fun s =>
        { m with qos := min m.qos s.qos, sids := m.sids ++ [s.id].filter (· ≠ 0), dup := false, retained := s.rap && m.retained }) := by
  rw [wanted_eq]
  exact copiesFor_map c (fun s => downgrade m s [s.id]) (plain src m.topic table)

/-! ### onlyonce mode -/

/-- the subscription `flush` keeps for a client: the first of maximal QoS -/
def best : Sub → List Sub → Sub
  | b, [] => b
  | b, s :: ss => best (if b.qos < s.qos then s else b) ss

theorem best_mem (b : Sub) (ss : List Sub) : best b ss ∈ b :: ss := by
  induction ss generalizing b with
  | nil => simp [best]
  | cons s ss ih =>
    simp only [best]
    have h := ih (if b.qos < s.qos then s else b)
    simp only [List.mem_cons] at h ⊢
    rcases h with h | h
    · rw [h]; split <;> simp
    · exact .inr (.inr h)

theorem best_max (b : Sub) (ss : List Sub) : ∀ s' ∈ b :: ss, s'.qos ≤ (best b ss).qos := by
  induction ss generalizing b with
  | nil => simp [best]
  | cons s ss ih =>
    intro s' hs'
    simp only [best]
    have h := ih (if b.qos < s.qos then s else b)
    have hb := h _ List.mem_cons_self
    simp only [List.mem_cons] at hs'
    rcases hs' with hs' | hs' | hs'
    · rw [hs']; by_cases hq : b.qos < s.qos <;> simp only [hq, if_true, if_false] at hb ⊢ <;> omega
    · rw [hs']; by_cases hq : b.qos < s.qos <;> simp only [hq, if_true, if_false] at hb ⊢ <;> omega
    · exact h _ (List.mem_cons_of_mem _ hs')

theorem find?_filter_key {α : Type} (c : String) (acc : List (String × α)) :
    (acc.filter (·.1 == c)).find? (fun e => e.1 == c) = acc.find? (fun e => e.1 == c) := by
  induction acc with
  | nil => rfl
  | cons a acc ih =>
    cases ha : (a.1 == c) <;> simp [ha, ih]

theorem filter_map_upd_same {α : Type} (c : String) (f : String × α → α) (acc : List (String × α)) :
    (acc.map (fun e => if e.1 == c then (c, f e) else e)).filter (·.1 == c) =
      (acc.filter (·.1 == c)).map (fun e => if e.1 == c then (c, f e) else e) := by
  induction acc with
  | nil => rfl
  | cons a acc ih =>
    by_cases ha : a.1 = c
    · simp only [List.map_cons, List.filter_cons, ha, beq_self_eq_true, if_true, ih]
    · have ha' : (a.1 == c) = false := by simpa using ha
      simp only [List.map_cons, List.filter_cons, ha', ih]
      simp [ha]

theorem filter_map_upd_other {α : Type} (c c' : String) (hc : (c' == c) = false) (f : String × α → α)
    (acc : List (String × α)) :
    (acc.map (fun e => if e.1 == c' then (c', f e) else e)).filter (·.1 == c) = acc.filter (·.1 == c) := by
  induction acc with
  | nil => rfl
  | cons a acc ih =>
    by_cases ha : a.1 = c'
    · have : (a.1 == c) = false := by rw [ha]; exact hc
      simp only [List.map_cons, List.filter_cons, ha, beq_self_eq_true, if_true, ih, hc]
      simp
    · have ha' : (a.1 == c') = false := by simpa using ha
      simp only [List.map_cons, List.filter_cons, ha', ih]
      simp

/-- the accumulator is processed independently per client -/
theorem onceAcc_filter (c : String) (l : List (String × Sub)) (acc : List (String × Sub × List Nat)) :
    (onceAcc l acc).filter (·.1 == c) = onceAcc (l.filter (·.1 == c)) (acc.filter (·.1 == c)) := by
  induction l generalizing acc with
  | nil => rfl
  | cons x l ih =>
    obtain ⟨c', s⟩ := x
    by_cases hc : c' = c
    · subst hc
      simp only [List.filter_cons, beq_self_eq_true, if_true, onceAcc, find?_filter_key]
      cases acc.find? (fun e => e.1 == c') with
      | none =>
        simp only [ih]
        simp
      | some _ =>
        simp only [ih]
        congr 1
        exact filter_map_upd_same c' _ acc
    · have hc' : (c' == c) = false := by simpa using hc
      simp only [List.filter_cons, hc', onceAcc]
      cases acc.find? (fun e => e.1 == c') with
      | none =>
        simp only [ih]
        simp [hc']
      | some _ =>
        simp only [ih]
        congr 1
        exact filter_map_upd_other c c' hc' _ acc

theorem onceAcc_single (c : String) (ss : List Sub) (s0 : Sub) (ids : List Nat) :
    onceAcc (ss.map (fun s => (c, s))) [(c, s0, ids)] = [(c, best s0 ss, ids ++ ss.map (·.id))] := by
  induction ss generalizing s0 ids with
  | nil => simp [onceAcc, best]
  | cons s ss ih =>
    simp [onceAcc, best, ih]

theorem filter_key_eq {α : Type} (c : String) (l : List (String × α)) :
    l.filter (·.1 == c) = ((l.filter (·.1 == c)).map (·.2)).map (fun s => (c, s)) := by
  induction l with
  | nil => rfl
  | cons x l ih =>
    by_cases h : x.1 = c
    · simp only [List.filter_cons, h, beq_self_eq_true, if_true, List.map_cons]
      rw [← h] at ih ⊢
      rw [← ih]
    · simp only [List.filter_cons, h, beq_iff_eq, if_false]; exact ih

theorem copiesFor_onlyonce (m : Msg) (el : List (String × Sub)) (c : String) :
    copiesFor c (onlyonce m el) =
      (onceAcc (((el.filter (fun cs => cs.2.share == "")).filter (·.1 == c)).map (·.2) |>.map (fun s => (c, s))) []).map
        (fun e => downgrade m e.2.1 e.2.2) := by
  unfold onlyonce
  have := copiesFor_map (α := Sub × List Nat) c (fun e => downgrade m e.1 e.2)
    (onceAcc (el.filter (fun cs => cs.2.share == "")) [])
  rw [this, onceAcc_filter, List.map_map, ← filter_key_eq]
  rfl

theorem onlyonce_exact (src : String) (table : List (String × Sub)) (m : Msg) (c : String) :
    let w := wanted src table m.topic c
    (w = [] → copiesFor c (onlyonce m (eligible src m.topic table)) = []) ∧
    (w ≠ [] → ∃ s ∈ w, (∀ s' ∈ w, s'.qos ≤ s.qos) ∧
        copiesFor c (onlyonce m (eligible src m.topic table)) =
          [{ m with qos := min m.qos s.qos, sids := m.sids ++ (w.map (·.id)).filter (· ≠ 0), dup := false,
                    retained := s.rap && m.retained }]) := by
  intro w
  have hw : w = (((eligible src m.topic table).filter (fun cs => cs.2.share == "")).filter (·.1 == c)).map (·.2) :=
    wanted_eq src table m.topic c
  rw [copiesFor_onlyonce, ← hw]
  cases hww : w with
  | nil => simp [onceAcc]
  | cons s0 ss =>
    refine ⟨by simp, fun _ => ⟨best s0 ss, best_mem s0 ss, best_max s0 ss, ?_⟩⟩
    simp only [List.map_cons, onceAcc, List.find?_nil, List.nil_append]
    rw [onceAcc_single]
    simp [downgrade]

/-! ### nothing for clients without an eligible subscription; the `matched` flag -/

theorem mem_eligible {src topic : String} {table : List (String × Sub)} {cs : String × Sub} :
    cs ∈ eligible src topic table ↔
      cs ∈ table ∧ subMatches cs.2 topic = true ∧ ¬ (cs.2.nl = true ∧ cs.1 = src) := by
  simp only [eligible, List.mem_filter, Bool.and_eq_true, Bool.not_eq_true', Bool.and_eq_false_iff,
    beq_eq_false_iff_ne, ne_eq, not_and]
  constructor
  · rintro ⟨h1, h2, h3⟩
    refine ⟨h1, h2, fun hn => ?_⟩
    rcases h3 with h3 | h3
    · simp [hn] at h3
    · exact h3
  · rintro ⟨h1, h2, h3⟩
    refine ⟨h1, h2, ?_⟩
    cases hn : cs.2.nl
    · exact .inl rfl
    · exact .inr (h3 hn)

theorem copiesFor_eq_nil {c : String} {enqs : List (String × Msg)} (h : ∀ x ∈ enqs, x.1 ≠ c) :
    copiesFor c enqs = [] := by
  simp only [copiesFor, List.map_eq_nil_iff, List.filter_eq_nil_iff]
  intro x hx
  simpa using h x hx

theorem copiesFor_append (c : String) (l₁ l₂ : List (String × Msg)) :
    copiesFor c (l₁ ++ l₂) = copiesFor c l₁ ++ copiesFor c l₂ := by
  simp [copiesFor]

/-- every key of the accumulator comes from the initial accumulator or from the list -/
theorem onceAcc_keys (l : List (String × Sub)) (acc : List (String × Sub × List Nat)) :
    ∀ e ∈ onceAcc l acc, (∃ a ∈ acc, a.1 = e.1) ∨ (∃ x ∈ l, x.1 = e.1) := by
  induction l generalizing acc with
  | nil => intro e he; exact .inl ⟨e, he, rfl⟩
  | cons x l ih =>
    obtain ⟨c, s⟩ := x
    intro e he
    simp only [onceAcc] at he
    split at he
    · rcases ih _ e he with ⟨a, ha, hae⟩ | ⟨x, hx, hxe⟩
      · simp only [List.mem_append, List.mem_singleton] at ha
        rcases ha with ha | rfl
        · exact .inl ⟨a, ha, hae⟩
        · exact .inr ⟨_, List.mem_cons_self, hae⟩
      · exact .inr ⟨x, List.mem_cons_of_mem _ hx, hxe⟩
    · rcases ih _ e he with ⟨a, ha, hae⟩ | ⟨x, hx, hxe⟩
      · simp only [List.mem_map] at ha
        obtain ⟨a0, ha0, rfl⟩ := ha
        by_cases h : a0.1 = c
        · simp only [h, beq_self_eq_true, if_true] at hae
          exact .inr ⟨_, List.mem_cons_self, hae⟩
        · have h' : (a0.1 == c) = false := by simpa using h
          simp only [h'] at hae
          exact .inl ⟨a0, ha0, hae⟩
      · exact .inr ⟨x, List.mem_cons_of_mem _ hx, hxe⟩

theorem nothing_unmatched (mode : Bool) (src : String) (table : List (String × Sub)) (m : Msg)
    (pick : String → List (String × Sub) → Option (String × Sub))
    (hpick : ∀ g ms x, pick g ms = some x → x ∈ ms) (c : String)
    (h : ∀ cs ∈ table, cs.1 = c → ¬ (subMatches cs.2 m.topic = true ∧ ¬ (cs.2.nl = true ∧ cs.1 = src))) :
    copiesFor c (deliver mode src table m pick).2 = [] := by
  have hel : ∀ cs ∈ eligible src m.topic table, cs.1 ≠ c := by
    intro cs hcs hc
    rw [mem_eligible] at hcs
    exact h cs hcs.1 hc hcs.2
  have hov : copiesFor c (overlap m (eligible src m.topic table)) = [] := by
    apply copiesFor_eq_nil
    intro x hx
    simp only [overlap, List.mem_map, List.mem_filter] at hx
    obtain ⟨cs, ⟨hcs, _⟩, rfl⟩ := hx
    exact hel cs hcs
  have hon : copiesFor c (onlyonce m (eligible src m.topic table)) = [] := by
    apply copiesFor_eq_nil
    intro x hx
    simp only [onlyonce, List.mem_map] at hx
    obtain ⟨e, he, rfl⟩ := hx
    rcases onceAcc_keys _ _ e he with ⟨a, ha, _⟩ | ⟨y, hy, hye⟩
    · simp at ha
    · simp only [List.mem_filter] at hy
      simp only
      rw [← hye]
      exact hel y hy.1
  have hsh : copiesFor c (shared m (eligible src m.topic table) pick) = [] := by
    apply copiesFor_eq_nil
    intro x hx
    simp only [shared, List.mem_filterMap] at hx
    obtain ⟨g, _, hg⟩ := hx
    split at hg
    · next c' s' hp =>
      have := hpick _ _ _ hp
      simp only [List.mem_filter] at this
      simp only [Option.some.injEq] at hg
      rw [← hg]
      exact hel _ this.1
    · simp at hg
  simp only [deliver]
  cases mode <;> simp [copiesFor_append, hov, hon, hsh]

theorem matched_iff' (mode : Bool) (src : String) (table : List (String × Sub)) (m : Msg)
    (pick : String → List (String × Sub) → Option (String × Sub)) :
    (deliver mode src table m pick).1 = true ↔
      ∃ cs ∈ table, subMatches cs.2 m.topic = true ∧ ¬ (cs.2.nl = true ∧ cs.1 = src) := by
  simp only [deliver, Bool.not_eq_true', List.isEmpty_eq_false_iff_exists_mem]
  constructor
  · rintro ⟨cs, hcs⟩
    rw [mem_eligible] at hcs
    exact ⟨cs, hcs⟩
  · rintro ⟨cs, hcs⟩
    exact ⟨cs, mem_eligible.2 hcs⟩

end GmqttVerif.Deliver

namespace GmqttVerif.Broker
open GmqttVerif.Deliver

/-- packets written to `conn` on the H stream since `b0` -/
def newH (b0 b : B) (conn : String) : List Pkt :=
  ((b.out.drop b0.out.length).filter (fun o => o.conn == conn && !o.poll)).map (·.pkt)

/-- queue elements of every session carry strictly increasing ghost tags below the next fresh tag -/
def TagsSorted (b : B) : Prop :=
  ∀ s ∈ b.sessions, (s.queue.items.map (·.tag)).Pairwise (· < ·) ∧ ∀ e ∈ s.queue.items, e.tag < b.msgs.length

/-! ### frame lemmas: what the state updates leave alone -/

@[simp] theorem setSess_out (b : B) (s : Sess) : (b.setSess s).out = b.out := rfl
@[simp] theorem setCli_out (b : B) (c : Cli) : (b.setCli c).out = b.out := rfl
@[simp] theorem setSess_cfg (b : B) (s : Sess) : (b.setSess s).cfg = b.cfg := rfl
@[simp] theorem setCli_cfg (b : B) (c : Cli) : (b.setCli c).cfg = b.cfg := rfl
@[simp] theorem setCli_sess? (b : B) (c : Cli) (cid : String) : (b.setCli c).sess? cid = b.sess? cid := rfl
@[simp] theorem emit_out (b : B) (conn : String) (poll : Bool) (p : Pkt) :
    (b.emit conn poll p).out = b.out ++ [{ conn := conn, poll := poll, pkt := p }] := rfl

@[simp] theorem enqueue_out (b : B) (cid : String) (q : Nat) (m : Msg) : (b.enqueue cid q m).out = b.out := by
  unfold B.enqueue
  split
  · rfl
  · split <;> rfl

theorem foldl_enqueue_out (enqs : List (String × Msg)) (q : Nat) (b : B) :
    (enqs.foldl (fun b (cm : String × Msg) => b.enqueue cm.1 q cm.2) b).out = b.out := by
  induction enqs generalizing b with
  | nil => rfl
  | cons x xs ih => simp [List.foldl_cons, ih]

@[simp] theorem deliverMsg_out (b : B) (src : String) (m : Msg) (hints : List Nat) (rap : List String) :
    (b.deliverMsg src m hints rap).1.out = b.out := by
  simp only [B.deliverMsg]
  exact foldl_enqueue_out _ _ _

theorem newH_append (b0 b : B) (conn : String) (l : List Out) (h : b.out = b0.out ++ l) :
    newH b0 b conn = (l.filter (fun o => o.conn == conn && !o.poll)).map (·.pkt) := by
  simp [newH, h]

theorem publish_ack (b : B) (r : PubReq) (c : Cli) (s : Sess)
    (hc : b.cli? r.conn = some c) (hs : b.sess? c.cid = some s)
    (hquota : ¬ (c.v = 5 ∧ r.qos > 0 ∧ c.quota = 0))
    (hsize : ¬ (c.v = 5 ∧ b.cfg.maxPacket ≠ 0 ∧ r.size > b.cfg.maxPacket))
    (hret : ¬ (b.cfg.retainAvail = false ∧ r.retain = true)) :
    ∃ code, newH b (b.publish r) r.conn =
      (if r.qos = 1 then [Pkt.puback r.pid code] else if r.qos = 2 then [Pkt.pubrec r.pid code] else []) := by
  have h1 : (c.v == 5 && decide (r.qos > 0) && c.quota == 0) = false := by
    rw [Bool.eq_false_iff]; intro h; apply hquota
    simpa [Bool.and_eq_true, beq_iff_eq, decide_eq_true_eq, and_assoc] using h
  unfold B.publish
  simp -zeta only [hc, h1]
  extract_lets c1 b1 m
  have hv : c1.v = c.v := by simp only [c1]; split <;> rfl
  have hcid : c1.cid = c.cid := by simp only [c1]; split <;> rfl
  have hcfg : b1.cfg = b.cfg := rfl
  have hss : b1.sess? c.cid = some s := hs
  have hout1 : b1.out = b.out := rfl
  have h2 : (c.v == 5 && b.cfg.maxPacket != 0 && decide (r.size > b.cfg.maxPacket)) = false := by
    rw [Bool.eq_false_iff]; intro h; apply hsize
    simpa [Bool.and_eq_true, beq_iff_eq, decide_eq_true_eq, and_assoc] using h
  have h3 : (!b.cfg.retainAvail && r.retain) = false := by
    rw [Bool.eq_false_iff]; intro h; apply hret
    simpa using h
  simp -zeta only [hv, hcid, hcfg, hss, h2, h3]
  extract_lets dupl s1 b2 b3 code b4
  have hout3 : b3.out = b.out := by
    simp only [b3]; split
    · split <;> rfl
    · rfl
  have hp : (if (!dupl) = true then b3.deliverMsg c.cid m r.hints r.rapHint else (b3, false)).fst.out = b.out := by
    split
    · rw [deliverMsg_out, hout3]
    · exact hout3
  have hout4 : b4.out = b.out ++
      (if r.qos = 1 then [{ conn := r.conn, poll := false, pkt := Pkt.puback r.pid code }]
       else if r.qos = 2 then [{ conn := r.conn, poll := false, pkt := Pkt.pubrec r.pid code }] else []) := by
    simp only [b4]
    split
    · next h =>
      have q1 : r.qos = 1 := by simpa using h
      rw [emit_out, hp]; first | rfl | simp [q1]
    · next h =>
      have q1 : ¬ r.qos = 1 := by simpa using h
      split
      · next h' =>
        have q2 : r.qos = 2 := by simpa using h'
        rw [emit_out, hp]; first | rfl | simp [q2]
      · next h' =>
        have q2 : ¬ r.qos = 2 := by simpa using h'
        rw [hp]; first | rfl | simp [q2]
  refine ⟨code, ?_⟩
  rw [newH_append b _ r.conn _ (l := if r.qos = 1 then [{ conn := r.conn, poll := false, pkt := Pkt.puback r.pid code }]
       else if r.qos = 2 then [{ conn := r.conn, poll := false, pkt := Pkt.pubrec r.pid code }] else [])]
  · by_cases q1 : r.qos = 1
    · simp [q1]
    · by_cases q2 : r.qos = 2 <;> simp [q1, q2]
  · rw [← hout4]
    simp only [Bool.false_eq_true, if_false]
    split
    · split <;> rfl
    · rfl

/-! ### per-publisher order -/

/-- `Add` either leaves the queue alone (newcomer dropped) or appends the newcomer behind a sublist of the old items -/
theorem add_items (q : Queue.Q) (now : Nat) (e : Queue.Elem) :
    (q.add now e).1 = q ∨ ∃ l, l.Sublist q.items ∧ (q.add now e).1.items = l ++ [e] := by
  have := Queue.add_elim (P := fun p => p.1 = q ∨ ∃ l, l.Sublist q.items ∧ p.1.items = l ++ [e]) q now e
    (fun _ => .inr ⟨q.items, List.Sublist.refl _, by simp [Queue.Q.items]⟩)
    (fun _ done' _ hx => .inr ⟨done' ++ q.rest,
      (Queue.extractFirst_some hx).2.2.append (List.Sublist.refl _), by simp [Queue.Q.items]⟩)
    (fun _ _ rest' _ _ hx _ => .inr ⟨q.done ++ rest',
      (List.Sublist.refl _).append (Queue.extractFirst_some hx).2.2, by simp [Queue.Q.items]⟩)
    (fun _ => .inl rfl)
  exact this

/-- the invariant carried through the enqueue loop of one `deliverMessage`, relative to the state `b0` before it -/
def OrderInv (b0 b : B) : Prop :=
  TagsSorted b ∧ b0.msgs <+: b.msgs ∧
    ∀ s' ∈ b.sessions, ∀ e ∈ s'.queue.items, e.tag < b0.msgs.length →
      ∃ s ∈ b0.sessions, s.cid = s'.cid ∧ e ∈ s.queue.items

theorem OrderInv.refl (b : B) (h : TagsSorted b) : OrderInv b b :=
  ⟨h, List.prefix_refl _, fun s' hs' _ he _ => ⟨s', hs', rfl, he⟩⟩

theorem mem_setSess {b : B} {s x : Sess} (h : x ∈ (b.setSess s).sessions) : x = s ∨ x ∈ b.sessions := by
  simp only [B.setSess, List.mem_cons, List.mem_filter] at h
  rcases h with h | h
  · exact .inl h
  · exact .inr h.1

theorem sess?_some {b : B} {cid : String} {s : Sess} (h : b.sess? cid = some s) : s ∈ b.sessions ∧ s.cid = cid := by
  unfold B.sess? at h
  exact ⟨List.mem_of_find?_eq_some h, by simpa using List.find?_some h⟩

theorem enqueue_order (b0 b : B) (cid : String) (q : Nat) (m : Msg) (h : OrderInv b0 b) :
    OrderInv b0 (b.enqueue cid q m) := by
  unfold B.enqueue
  split
  · exact h
  · next s hs =>
    split
    · exact h
    · obtain ⟨hsort, hpre, hold⟩ := h
      obtain ⟨hsmem, hscid⟩ := sess?_some hs
      extract_lets v exp tag e
      have het : e.tag = b.msgs.length := rfl
      have hadd := add_items s.queue b.now e
      generalize s.queue.add b.now e = qa at hadd ⊢
      obtain ⟨q', evs⟩ := qa
      simp only at hadd ⊢
      have hlen : b0.msgs.length ≤ b.msgs.length := hpre.length_le
      obtain ⟨hs1, hs2⟩ := hsort s hsmem
      refine ⟨?_, ?_, ?_⟩
      · intro x hx
        simp only [List.length_append, List.length_singleton]
        rcases mem_setSess hx with rfl | hx
        · simp only
          rcases hadd with heq | ⟨l, hl, heq⟩
          · rw [heq]
            exact ⟨hs1, fun y hy => Nat.lt_succ_of_lt (hs2 y hy)⟩
          · rw [heq]
            refine ⟨?_, ?_⟩
            · rw [List.map_append, List.pairwise_append]
              refine ⟨hs1.sublist (hl.map _), by simp, ?_⟩
              intro a ha c hc
              simp only [List.map_cons, List.map_nil, List.mem_singleton] at hc
              simp only [List.mem_map] at ha
              obtain ⟨y, hy, rfl⟩ := ha
              rw [hc, het]
              exact hs2 y (hl.subset hy)
            · intro y hy
              simp only [List.mem_append, List.mem_singleton] at hy
              rcases hy with hy | rfl
              · exact Nat.lt_succ_of_lt (hs2 y (hl.subset hy))
              · rw [het]; exact Nat.lt_succ_self _
        · obtain ⟨hx1, hx2⟩ := hsort x hx
          exact ⟨hx1, fun y hy => Nat.lt_succ_of_lt (hx2 y hy)⟩
      · exact hpre.trans (List.prefix_append _ _)
      · intro x hx y hy hyt
        rcases mem_setSess hx with rfl | hx
        · simp only at hy ⊢
          have hy' : y ∈ s.queue.items := by
            rcases hadd with heq | ⟨l, hl, heq⟩
            · rwa [heq] at hy
            · rw [heq] at hy
              simp only [List.mem_append, List.mem_singleton] at hy
              rcases hy with hy | rfl
              · exact hl.subset hy
              · omega
          exact hold s hsmem y hy' hyt
        · exact hold x hx y hy hyt

theorem foldl_enqueue_order (b0 : B) (q : Nat) (enqs : List (String × Msg)) (b : B) (h : OrderInv b0 b) :
    OrderInv b0 (enqs.foldl (fun b (cm : String × Msg) => b.enqueue cm.1 q cm.2) b) := by
  induction enqs generalizing b with
  | nil => exact h
  | cons x xs ih => exact ih _ (enqueue_order b0 b x.1 q x.2 h)

theorem deliver_order (b : B) (src : String) (m : Msg) (hints : List Nat) (rap : List String) (h : TagsSorted b) :
    let b' := (b.deliverMsg src m hints rap).1
    TagsSorted b' ∧ b.msgs <+: b'.msgs ∧
    ∀ s' ∈ b'.sessions, ∀ e ∈ s'.queue.items, e.tag < b.msgs.length →
      ∃ s ∈ b.sessions, s.cid = s'.cid ∧ e ∈ s.queue.items := by
  simp only [B.deliverMsg]
  exact foldl_enqueue_order b _ _ b (OrderInv.refl b h)

end GmqttVerif.Broker
