import GmqttVerif.Model.Deliver
import GmqttVerif.Model.Broker
import GmqttVerif.Proofs.Queue
/-
  Vocabulary and helper lemmas for C01 (`Properties/C01.lean` holds the property theorems only).
-/
namespace GmqttVerif.Deliver

/-- the non-shared subscriptions of client `c` that must produce a copy: filter matches, and not
    (No Local ∧ the client is itself the publisher) — in table order -/
def wanted (src : String) (table : List (String × Sub)) (topic : String) (c : String) : List Sub :=
  (table.filter (fun cs => cs.1 == c && cs.2.share == "" && subMatches cs.2 topic && !(cs.2.nl && cs.1 == src))).map (·.2)

/-- non-shared enqueue requests for client `c` -/
def copiesFor (c : String) (enqs : List (String × Msg)) : List Msg := (enqs.filter (·.1 == c)).map (·.2)

/-! ### overlap mode -/

/-- the non-shared eligible entries, the list both modes iterate over -/
def plain (src topic : String) (table : List (String × Sub)) : List (String × Sub) :=
  (eligible src topic table).filter (fun cs => cs.2.share == "")

theorem wanted_eq (src : String) (table : List (String × Sub)) (topic c : String) :
    wanted src table topic c = ((plain src topic table).filter (·.1 == c)).map (·.2) := by
  unfold wanted plain eligible
  rw [List.filter_filter, List.filter_filter]
  congr 1
  apply List.filter_congr
  intro cs _
  cases (cs.1 == c) <;> cases (cs.2.share == "") <;> simp

theorem copiesFor_map {α : Type} (c : String) (f : α → Msg) (xs : List (String × α)) :
    copiesFor c (xs.map (fun cs => (cs.1, f cs.2))) = ((xs.filter (·.1 == c)).map (·.2)).map f := by
  unfold copiesFor
  induction xs with
  | nil => rfl
  | cons x xs ih =>
    cases h : (x.1 == c) <;> simp [h] <;> simpa using ih

theorem overlap_exact (src : String) (table : List (String × Sub)) (m : Msg) (c : String) :
    copiesFor c (overlap m (eligible src m.topic table)) =
      (wanted src table m.topic c).map (fun s =>
        { m with qos := min m.qos s.qos, sids := m.sids ++ [s.id].filter (· ≠ 0), dup := false, retained := s.rap && m.retained }) := by
  rw [wanted_eq]
  exact copiesFor_map c (fun s => downgrade m s [s.id]) (plain src m.topic table)

/-! ### onlyonce mode -/

/-- the subscription `flush` keeps for a client: the first of maximal QoS -/
def best : Sub → List Sub → Sub
  | b, [] => b
  | b, s :: ss => best (if b.qos < s.qos then s else b) ss

theorem best_mem (b : Sub) (ss : List Sub) : best b ss ∈ b :: ss := by
  induction ss generalizing b with
  | nil => simp [best]
  | cons s ss ih =>
    simp only [best]
    have h := ih (if b.qos < s.qos then s else b)
    simp only [List.mem_cons] at h ⊢
    rcases h with h | h
    · rw [h]; split <;> simp
    · exact .inr (.inr h)

theorem best_max (b : Sub) (ss : List Sub) : ∀ s' ∈ b :: ss, s'.qos ≤ (best b ss).qos := by
  induction ss generalizing b with
  | nil => simp [best]
  | cons s ss ih =>
    intro s' hs'
    simp only [best]
    have h := ih (if b.qos < s.qos then s else b)
    have hb := h _ List.mem_cons_self
    simp only [List.mem_cons] at hs'
    rcases hs' with hs' | hs' | hs'
    · rw [hs']; by_cases hq : b.qos < s.qos <;> simp only [hq, if_true, if_false] at hb ⊢ <;> omega
    · rw [hs']; by_cases hq : b.qos < s.qos <;> simp only [hq, if_true, if_false] at hb ⊢ <;> omega
    · exact h _ (List.mem_cons_of_mem _ hs')

theorem find?_filter_key {α : Type} (c : String) (acc : List (String × α)) :
    (acc.filter (·.1 == c)).find? (fun e => e.1 == c) = acc.find? (fun e => e.1 == c) := by
  induction acc with
  | nil => rfl
  | cons a acc ih =>
    cases ha : (a.1 == c) <;> simp [ha, ih]

theorem filter_map_upd_same {α : Type} (c : String) (f : String × α → α) (acc : List (String × α)) :
    (acc.map (fun e => if e.1 == c then (c, f e) else e)).filter (·.1 == c) =
      (acc.filter (·.1 == c)).map (fun e => if e.1 == c then (c, f e) else e) := by
  induction acc with
  | nil => rfl
  | cons a acc ih =>
    by_cases ha : a.1 = c
    · simp only [List.map_cons, List.filter_cons, ha, beq_self_eq_true, if_true, ih]
    · have ha' : (a.1 == c) = false := by simpa using ha
      simp only [List.map_cons, List.filter_cons, ha', ih]
      simp [ha]

theorem filter_map_upd_other {α : Type} (c c' : String) (hc : (c' == c) = false) (f : String × α → α)
    (acc : List (String × α)) :
    (acc.map (fun e => if e.1 == c' then (c', f e) else e)).filter (·.1 == c) = acc.filter (·.1 == c) := by
  induction acc with
  | nil => rfl
  | cons a acc ih =>
    by_cases ha : a.1 = c'
    · have : (a.1 == c) = false := by rw [ha]; exact hc
      simp only [List.map_cons, List.filter_cons, ha, beq_self_eq_true, if_true, ih, hc]
      simp
    · have ha' : (a.1 == c') = false := by simpa using ha
      simp only [List.map_cons, List.filter_cons, ha', ih]
      simp

/-- the accumulator is processed independently per client -/
theorem onceAcc_filter (c : String) (l : List (String × Sub)) (acc : List (String × Sub × List Nat)) :
    (onceAcc l acc).filter (·.1 == c) = onceAcc (l.filter (·.1 == c)) (acc.filter (·.1 == c)) := by
  induction l generalizing acc with
  | nil => rfl
  | cons x l ih =>
    obtain ⟨c', s⟩ := x
    by_cases hc : c' = c
    · subst hc
      simp only [List.filter_cons, beq_self_eq_true, if_true, onceAcc, find?_filter_key]
      cases acc.find? (fun e => e.1 == c') with
      | none =>
        simp only [ih]
        simp
      | some _ =>
        simp only [ih]
        congr 1
        exact filter_map_upd_same c' _ acc
    · have hc' : (c' == c) = false := by simpa using hc
      simp only [List.filter_cons, hc', onceAcc]
      cases acc.find? (fun e => e.1 == c') with
      | none =>
        simp only [ih]
        simp [hc']
      | some _ =>
        simp only [ih]
        congr 1
        exact filter_map_upd_other c c' hc' _ acc

theorem onceAcc_single (c : String) (ss : List Sub) (s0 : Sub) (ids : List Nat) :
    onceAcc (ss.map (fun s => (c, s))) [(c, s0, ids)] = [(c, best s0 ss, ids ++ ss.map (·.id))] := by
  induction ss generalizing s0 ids with
  | nil => simp [onceAcc, best]
  | cons s ss ih =>
    simp [onceAcc, best, ih]

theorem filter_key_eq {α : Type} (c : String) (l : List (String × α)) :
    l.filter (·.1 == c) = ((l.filter (·.1 == c)).map (·.2)).map (fun s => (c, s)) := by
  induction l with
  | nil => rfl
  | cons x l ih =>
    by_cases h : x.1 = c
    · simp only [List.filter_cons, h, beq_self_eq_true, if_true, List.map_cons]
      rw [← h] at ih ⊢
      rw [← ih]
    · simp only [List.filter_cons, h, beq_iff_eq, if_false]; exact ih

theorem copiesFor_onlyonce (m : Msg) (el : List (String × Sub)) (c : String) :
    copiesFor c (onlyonce m el) =
      (onceAcc (((el.filter (fun cs => cs.2.share == "")).filter (·.1 == c)).map (·.2) |>.map (fun s => (c, s))) []).map
        (fun e => downgrade m e.2.1 e.2.2) := by
  unfold onlyonce
  have := copiesFor_map (α := Sub × List Nat) c (fun e => downgrade m e.1 e.2)
    (onceAcc (el.filter (fun cs => cs.2.share == "")) [])
  rw [this, onceAcc_filter, List.map_map, ← filter_key_eq]
  rfl

theorem onlyonce_exact (src : String) (table : List (String × Sub)) (m : Msg) (c : String) :
    let w := wanted src table m.topic c
    (w = [] → copiesFor c (onlyonce m (eligible src m.topic table)) = []) ∧
    (w ≠ [] → ∃ s ∈ w, (∀ s' ∈ w, s'.qos ≤ s.qos) ∧
        copiesFor c (onlyonce m (eligible src m.topic table)) =
          [{ m with qos := min m.qos s.qos, sids := m.sids ++ (w.map (·.id)).filter (· ≠ 0), dup := false,
                    retained := s.rap && m.retained }]) := by
  intro w
  have hw : w = (((eligible src m.topic table).filter (fun cs => cs.2.share == "")).filter (·.1 == c)).map (·.2) :=
    wanted_eq src table m.topic c
  rw [copiesFor_onlyonce, ← hw]
  cases hww : w with
  | nil => simp [onceAcc]
  | cons s0 ss =>
    refine ⟨by simp, fun _ => ⟨best s0 ss, best_mem s0 ss, best_max s0 ss, ?_⟩⟩
    simp only [List.map_cons, onceAcc, List.find?_nil, List.nil_append]
    rw [onceAcc_single]
    simp [downgrade]

/-! ### nothing for clients without an eligible subscription; the `matched` flag -/

theorem mem_eligible {src topic : String} {table : List (String × Sub)} {cs : String × Sub} :
    cs ∈ eligible src topic table ↔
      cs ∈ table ∧ subMatches cs.2 topic = true ∧ ¬ (cs.2.nl = true ∧ cs.1 = src) := by
  simp only [eligible, List.mem_filter, Bool.and_eq_true, Bool.not_eq_true', Bool.and_eq_false_iff,
    beq_eq_false_iff_ne, ne_eq, not_and]
  constructor
  · rintro ⟨h1, h2, h3⟩
    refine ⟨h1, h2, fun hn => ?_⟩
    rcases h3 with h3 | h3
    · simp [hn] at h3
    · exact h3
  · rintro ⟨h1, h2, h3⟩
    refine ⟨h1, h2, ?_⟩
    cases hn : cs.2.nl
    · exact .inl rfl
    · exact .inr (h3 hn)

theorem copiesFor_eq_nil {c : String} {enqs : List (String × Msg)} (h : ∀ x ∈ enqs, x.1 ≠ c) :
    copiesFor c enqs = [] := by
  simp only [copiesFor, List.map_eq_nil_iff, List.filter_eq_nil_iff]
  intro x hx
  simpa using h x hx

theorem copiesFor_append (c : String) (l₁ l₂ : List (String × Msg)) :
    copiesFor c (l₁ ++ l₂) = copiesFor c l₁ ++ copiesFor c l₂ := by
  simp [copiesFor]

/-- every key of the accumulator comes from the initial accumulator or from the list -/
theorem onceAcc_keys (l : List (String × Sub)) (acc : List (String × Sub × List Nat)) :
    ∀ e ∈ onceAcc l acc, (∃ a ∈ acc, a.1 = e.1) ∨ (∃ x ∈ l, x.1 = e.1) := by
  induction l generalizing acc with
  | nil => intro e he; exact .inl ⟨e, he, rfl⟩
  | cons x l ih =>
    obtain ⟨c, s⟩ := x
    intro e he
    simp only [onceAcc] at he
    split at he
    · rcases ih _ e he with ⟨a, ha, hae⟩ | ⟨x, hx, hxe⟩
      · simp only [List.mem_append, List.mem_singleton] at ha
        rcases ha with ha | rfl
        · exact .inl ⟨a, ha, hae⟩
        · exact .inr ⟨_, List.mem_cons_self, hae⟩
      · exact .inr ⟨x, List.mem_cons_of_mem _ hx, hxe⟩
    · rcases ih _ e he with ⟨a, ha, hae⟩ | ⟨x, hx, hxe⟩
      · simp only [List.mem_map] at ha
        obtain ⟨a0, ha0, rfl⟩ := ha
        by_cases h : a0.1 = c
        · simp only [h, beq_self_eq_true, if_true] at hae
          exact .inr ⟨_, List.mem_cons_self, hae⟩
        · have h' : (a0.1 == c) = false := by simpa using h
          simp only [h'] at hae
          exact .inl ⟨a0, ha0, hae⟩
      · exact .inr ⟨x, List.mem_cons_of_mem _ hx, hxe⟩

theorem nothing_unmatched (mode : Bool) (src : String) (table : List (String × Sub)) (m : Msg)
    (pick : String → List (String × Sub) → Option (String × Sub))
    (hpick : ∀ g ms x, pick g ms = some x → x ∈ ms) (c : String)
    (h : ∀ cs ∈ table, cs.1 = c → ¬ (subMatches cs.2 m.topic = true ∧ ¬ (cs.2.nl = true ∧ cs.1 = src))) :
    copiesFor c (deliver mode src table m pick).2 = [] := by
  have hel : ∀ cs ∈ eligible src m.topic table, cs.1 ≠ c := by
    intro cs hcs hc
    rw [mem_eligible] at hcs
    exact h cs hcs.1 hc hcs.2
  have hov : copiesFor c (overlap m (eligible src m.topic table)) = [] := by
    apply copiesFor_eq_nil
    intro x hx
    simp only [overlap, List.mem_map, List.mem_filter] at hx
    obtain ⟨cs, ⟨hcs, _⟩, rfl⟩ := hx
    exact hel cs hcs
  have hon : copiesFor c (onlyonce m (eligible src m.topic table)) = [] := by
    apply copiesFor_eq_nil
    intro x hx
    simp only [onlyonce, List.mem_map] at hx
    obtain ⟨e, he, rfl⟩ := hx
    rcases onceAcc_keys _ _ e he with ⟨a, ha, _⟩ | ⟨y, hy, hye⟩
    · simp at ha
    · simp only [List.mem_filter] at hy
      simp only
      rw [← hye]
      exact hel y hy.1
  have hsh : copiesFor c (shared m (eligible src m.topic table) pick) = [] := by
    apply copiesFor_eq_nil
    intro x hx
    simp only [shared, List.mem_filterMap] at hx
    obtain ⟨g, _, hg⟩ := hx
    split at hg
    · next c' s' hp =>
      have := hpick _ _ _ hp
      simp only [List.mem_filter] at this
      simp only [Option.some.injEq] at hg
      rw [← hg]
      exact hel _ this.1
    · simp at hg
  simp only [deliver]
  cases mode <;> simp [copiesFor_append, hov, hon, hsh]

theorem matched_iff' (mode : Bool) (src : String) (table : List (String × Sub)) (m : Msg)
    (pick : String → List (String × Sub) → Option (String × Sub)) :
    (deliver mode src table m pick).1 = true ↔
      ∃ cs ∈ table, subMatches cs.2 m.topic = true ∧ ¬ (cs.2.nl = true ∧ cs.1 = src) := by
  simp only [deliver, Bool.not_eq_true', List.isEmpty_eq_false_iff_exists_mem]
  constructor
  · rintro ⟨cs, hcs⟩
    rw [mem_eligible] at hcs
    exact ⟨cs, hcs⟩
  · rintro ⟨cs, hcs⟩
    exact ⟨cs, mem_eligible.2 hcs⟩

end GmqttVerif.Deliver

namespace GmqttVerif.Broker
open GmqttVerif.Deliver

/-- packets written to `conn` on the H stream since `b0` -/
def newH (b0 b : B) (conn : String) : List Pkt :=
  ((b.out.drop b0.out.length).filter (fun o => o.conn == conn && !o.poll)).map (·.pkt)

/-- queue elements of every session carry strictly increasing ghost tags below the next fresh tag -/
def TagsSorted (b : B) : Prop :=
  ∀ s ∈ b.sessions, (s.queue.items.map (·.tag)).Pairwise (· < ·) ∧ ∀ e ∈ s.queue.items, e.tag < b.msgs.length

/-! ### frame lemmas: what the state updates leave alone -/

@[simp] theorem setSess_out (b : B) (s : Sess) : (b.setSess s).out = b.out := rfl
@[simp] theorem setCli_out (b : B) (c : Cli) : (b.setCli c).out = b.out := rfl
@[simp] theorem setSess_cfg (b : B) (s : Sess) : (b.setSess s).cfg = b.cfg := rfl
@[simp] theorem setCli_cfg (b : B) (c : Cli) : (b.setCli c).cfg = b.cfg := rfl
@[simp] theorem setCli_sess? (b : B) (c : Cli) (cid : String) : (b.setCli c).sess? cid = b.sess? cid := rfl
@[simp] theorem emit_out (b : B) (conn : String) (poll : Bool) (p : Pkt) :
    (b.emit conn poll p).out = b.out ++ [{ conn := conn, poll := poll, pkt := p }] := rfl

@[simp] theorem enqueue_out (b : B) (cid : String) (q : Nat) (m : Msg) : (b.enqueue cid q m).out = b.out := by
  unfold B.enqueue
  split
  · rfl
  · split <;> rfl

theorem foldl_enqueue_out (enqs : List (String × Msg)) (q : Nat) (b : B) :
    (enqs.foldl (fun b (cm : String × Msg) => b.enqueue cm.1 q cm.2) b).out = b.out := by
  induction enqs generalizing b with
  | nil => rfl
  | cons x xs ih => simp [List.foldl_cons, ih]

@[simp] theorem deliverMsg_out (b : B) (src : String) (m : Msg) (hints : List Nat) (rap : List String) :
    (b.deliverMsg src m hints rap).1.out = b.out := by
  simp only [B.deliverMsg]
  exact foldl_enqueue_out _ _ _

theorem newH_append (b0 b : B) (conn : String) (l : List Out) (h : b.out = b0.out ++ l) :
    newH b0 b conn = (l.filter (fun o => o.conn == conn && !o.poll)).map (·.pkt) := by
  simp [newH, h]

/-! ### `B.publish` taken apart: the checks that refuse, and what happens to an accepted PUBLISH -/

/-- `readLoop`: a v5 QoS>0 PUBLISH consumes one unit of the receive quota -/
def pubCli (c : Cli) (r : PubReq) : Cli := if c.v == 5 && r.qos > 0 then { c with quota := c.quota - 1 } else c

/-- the topic-alias step of `B.publish`: the effective topic name and the updated alias table, or the reason code
    of the refusal -/
def aliasRes (cfg : Cfg) (c : Cli) (r : PubReq) : Except Nat (String × Cli) :=
  if c.v == 5 then
    match r.alias with
    | some a =>
      if a == 0 || a > cfg.aliasMax then .error 0x94
      else if r.topic == "" then
        match c.aliasIn.find? (fun (p : Nat × String) => p.1 == a) with
        | some (_, t) => if t == "" then .error 0x94 else .ok (t, c)
        | none => .error 0x94
      else .ok (r.topic, { c with aliasIn := (a, r.topic) :: c.aliasIn.filter (fun (p : Nat × String) => p.1 != a) })
    | none => if r.topic == "" then .error 0x82 else .ok (r.topic, c)
  else if r.topic == "" then .error 0x82 else .ok (r.topic, c)

/-- the message built from an accepted PUBLISH (`r.topic` already resolved) -/
def pubMsg (r : PubReq) : Msg :=
  { topic := r.topic, tag := r.tag, plen := r.plen, qos := r.qos, retained := r.retain, dup := r.dup,
    expiry := match r.expiry with | some e => e | none => 0 }

/-- the retained-message step of `B.publish` (skipped for a duplicate QoS 2 PUBLISH) -/
def B.pubRetain (b : B) (r : PubReq) (dupl : Bool) : B :=
  if r.retain && !dupl then
    (if r.plen == 0 then { b with retained := b.retained.filter (·.1 != r.topic) }
     else { b with retained := (r.topic, pubMsg r) :: b.retained.filter (·.1 != r.topic) })
  else b

/-- the acknowledgement step of `B.publish` -/
def B.pubAck (b : B) (c : Cli) (r : PubReq) (matched : Bool) : B :=
  let code := if c.v == 5 && !matched then 0x10 else 0
  let b := if r.qos == 1 then b.emit r.conn false (.puback r.pid code)
           else if r.qos == 2 then b.emit r.conn false (.pubrec r.pid code) else b
  if r.qos == 1 && c.v == 5 then
    match b.cli? r.conn with
    | some c' => b.setCli { c' with quota := min (c'.quota + 1) b.cfg.recvMax }
    | none => b
  else b

/-- a retransmitted QoS 2 PUBLISH (v5) gives back the receive-quota unit `readLoop` took for it -/
def B.pubDupQuota (b : B) (c : Cli) (r : PubReq) (dupl : Bool) : B :=
  if dupl && c.v == 5 then
    (match b.cli? r.conn with
     | some c' => b.setCli { c' with quota := min (c'.quota + 1) b.cfg.recvMax }
     | none => b)
  else b

/-- an accepted PUBLISH (`r.topic` resolved, `c` and `s` the connection and its session): inbound QoS 2 id store,
    quota give-back for a duplicate, retained store, `deliverMessage` unless it is a QoS 2 duplicate, acknowledgement -/
def B.publishTail (b : B) (c : Cli) (r : PubReq) (s : Sess) : B :=
  let dupl := r.qos == 2 && s.unack.contains r.pid
  let s := if r.qos == 2 && !dupl then { s with unack := s.unack ++ [r.pid] } else s
  let b := ((b.setSess s).pubDupQuota c r dupl).pubRetain r dupl
  let bm := if !dupl then b.deliverMsg c.cid (pubMsg r) r.hints r.rapHint else (b, false)
  bm.1.pubAck c r bm.2

/-- `B.publish`, restated with the named pieces (definitional) -/
theorem publish_eq (b : B) (r : PubReq) :
    b.publish r =
      match b.cli? r.conn with
      | none => b
      | some c =>
        if c.v == 5 && r.alias == some 0 then b.kick r.conn (some 0x94)
        else if r.topic == "" && (c.v != 5 || r.alias.isNone) then b.kick r.conn (some 0x82)
        else if c.v == 5 && r.qos > 0 && c.quota == 0 then b.kick r.conn (some 0x93)
        else
          let b1 := b.setCli (pubCli c r)
          if (pubCli c r).v == 5 && b1.cfg.maxPacket != 0 && r.size > b1.cfg.maxPacket then b1.kick r.conn (some 0x95)
          else if !b1.cfg.retainAvail && r.retain then b1.kick r.conn (some 0x9A)
          else
            match aliasRes b1.cfg (pubCli c r) r with
            | .error code => b1.kick r.conn (some code)
            | .ok (topic, c2) =>
              match (b1.setCli c2).sess? c2.cid with
              | none => b1.setCli c2
              | some s => (b1.setCli c2).publishTail c2 { r with topic := topic } s := by
  rfl

/-- the refusal conditions of `B.publish` that concern the topic name and the topic alias do not apply: a v5 alias
    is neither 0 nor above the advertised `topic_alias_maximum`; an empty topic name comes only on a v5 connection,
    with an alias that is bound (to a non-empty name) -/
structure TopicOk (b : B) (c : Cli) (r : PubReq) : Prop where
  alias : ∀ a, c.v = 5 → r.alias = some a → a ≠ 0 ∧ a ≤ b.cfg.aliasMax
  topic : r.topic = "" → c.v = 5 ∧ ∃ a p, r.alias = some a ∧ c.aliasIn.find? (fun p => p.1 == a) = some p ∧ p.2 ≠ ""

theorem pubCli_v (c : Cli) (r : PubReq) : (pubCli c r).v = c.v := by unfold pubCli; split <;> rfl
theorem pubCli_cid (c : Cli) (r : PubReq) : (pubCli c r).cid = c.cid := by unfold pubCli; split <;> rfl
theorem pubCli_conn (c : Cli) (r : PubReq) : (pubCli c r).conn = c.conn := by unfold pubCli; split <;> rfl
theorem pubCli_aliasIn (c : Cli) (r : PubReq) : (pubCli c r).aliasIn = c.aliasIn := by unfold pubCli; split <;> rfl

/-- whatever the alias step answers, it is the same connection -/
theorem aliasRes_ok {cfg : Cfg} {c : Cli} {r : PubReq} {t : String} {c2 : Cli} (h : aliasRes cfg c r = .ok (t, c2)) :
    c2.conn = c.conn ∧ c2.cid = c.cid ∧ c2.v = c.v ∧ c2.used = c.used ∧ c2.maxInflight = c.maxInflight ∧ t ≠ "" := by
  unfold aliasRes at h
  split at h
  · split at h
    · split at h
      · cases h
      · split at h
        · next htop =>
          split at h
          · split at h
            · cases h
            · next hne =>
              simp only [Except.ok.injEq, Prod.mk.injEq] at h
              obtain ⟨rfl, rfl⟩ := h
              exact ⟨rfl, rfl, rfl, rfl, rfl, by simpa using hne⟩
          · cases h
        · next htop =>
          simp only [Except.ok.injEq, Prod.mk.injEq] at h
          obtain ⟨rfl, rfl⟩ := h
          exact ⟨rfl, rfl, rfl, rfl, rfl, by simpa using htop⟩
    · split at h
      · cases h
      · next htop =>
        simp only [Except.ok.injEq, Prod.mk.injEq] at h
        obtain ⟨rfl, rfl⟩ := h
        exact ⟨rfl, rfl, rfl, rfl, rfl, by simpa using htop⟩
  · split at h
    · cases h
    · next htop =>
      simp only [Except.ok.injEq, Prod.mk.injEq] at h
      obtain ⟨rfl, rfl⟩ := h
      exact ⟨rfl, rfl, rfl, rfl, rfl, by simpa using htop⟩

/-- under `TopicOk` the alias step succeeds -/
theorem aliasRes_of_topicOk {b : B} {c : Cli} {r : PubReq} (h : TopicOk b c r) :
    ∃ t c2, aliasRes b.cfg (pubCli c r) r = .ok (t, c2) := by
  unfold aliasRes
  rw [pubCli_v, pubCli_aliasIn]
  by_cases hv : c.v = 5
  · have hv' : (c.v == 5) = true := by simpa using hv
    rw [if_pos hv']
    cases ha : r.alias with
    | none =>
      have : ¬ r.topic = "" := fun ht => by
        obtain ⟨_, a, p, ha', _⟩ := h.topic ht
        rw [ha] at ha'; cases ha'
      simp [this]
    | some a =>
      obtain ⟨h0, hmax⟩ := h.alias a hv ha
      have h1 : (a == 0 || decide (a > b.cfg.aliasMax)) = false := by
        simp [h0, Nat.not_lt.2 hmax]
      simp only [h1, Bool.false_eq_true, if_false]
      by_cases ht : r.topic = ""
      · obtain ⟨_, a', p, ha', hf, hp⟩ := h.topic ht
        rw [ha] at ha'; cases ha'
        have ht' : (r.topic == "") = true := by simpa using ht
        rw [if_pos ht', hf]
        obtain ⟨p1, p2⟩ := p
        have hp' : (p2 == "") = false := by simpa using hp
        simp [hp']
      · have ht' : (r.topic == "") = false := by simpa using ht
        simp [ht']
  · have hv' : (c.v == 5) = false := by simpa using hv
    have : ¬ r.topic = "" := fun ht => hv (h.topic ht).1
    simp [hv', this]

/-- an accepted PUBLISH: the connection exists and has a session, and no refusal applies — `B.publish` then is the
    quota step, the alias step and `publishTail` -/
theorem publish_accepted (b : B) (r : PubReq) (c : Cli) (s : Sess)
    (hc : b.cli? r.conn = some c) (hs : b.sess? c.cid = some s)
    (htopic : TopicOk b c r)
    (hquota : ¬ (c.v = 5 ∧ r.qos > 0 ∧ c.quota = 0))
    (hsize : ¬ (c.v = 5 ∧ b.cfg.maxPacket ≠ 0 ∧ r.size > b.cfg.maxPacket))
    (hret : ¬ (b.cfg.retainAvail = false ∧ r.retain = true)) :
    ∃ t c2, aliasRes b.cfg (pubCli c r) r = .ok (t, c2) ∧
      b.publish r = ((b.setCli (pubCli c r)).setCli c2).publishTail c2 { r with topic := t } s := by
  obtain ⟨t, c2, hres⟩ := aliasRes_of_topicOk htopic
  refine ⟨t, c2, hres, ?_⟩
  have h0 : (c.v == 5 && r.alias == some 0) = false := by
    rw [Bool.eq_false_iff]; intro h
    simp only [Bool.and_eq_true, beq_iff_eq] at h
    exact (htopic.alias 0 h.1 h.2).1 rfl
  have h0' : (r.topic == "" && (c.v != 5 || r.alias.isNone)) = false := by
    rw [Bool.eq_false_iff]; intro h
    simp only [Bool.and_eq_true, beq_iff_eq, Bool.or_eq_true, bne_iff_ne, ne_eq] at h
    obtain ⟨hv, a, p, ha, _⟩ := htopic.topic h.1
    rcases h.2 with h2 | h2
    · exact h2 hv
    · rw [ha] at h2; cases h2
  have h1 : (c.v == 5 && decide (r.qos > 0) && c.quota == 0) = false := by
    rw [Bool.eq_false_iff]; intro h; apply hquota
    simpa [Bool.and_eq_true, beq_iff_eq, decide_eq_true_eq, and_assoc] using h
  have h2 : ((pubCli c r).v == 5 && (b.setCli (pubCli c r)).cfg.maxPacket != 0 &&
      decide (r.size > (b.setCli (pubCli c r)).cfg.maxPacket)) = false := by
    rw [Bool.eq_false_iff]; intro h; apply hsize
    rw [pubCli_v] at h
    simpa [Bool.and_eq_true, beq_iff_eq, decide_eq_true_eq, and_assoc] using h
  have h3 : (!(b.setCli (pubCli c r)).cfg.retainAvail && r.retain) = false := by
    rw [Bool.eq_false_iff]; intro h; apply hret
    simpa using h
  have hcid : c2.cid = c.cid := by rw [(aliasRes_ok hres).2.1, pubCli_cid]
  have hss : ((b.setCli (pubCli c r)).setCli c2).sess? c2.cid = some s := by rw [hcid]; exact hs
  rw [publish_eq]
  simp only [hc, h0, h0', h1, h2, h3, Bool.false_eq_true, if_false]
  have hres' : aliasRes (b.setCli (pubCli c r)).cfg (pubCli c r) r = .ok (t, c2) := hres
  rw [hres']
  simp only [hss]

theorem pubDupQuota_out (b : B) (c : Cli) (r : PubReq) (dupl : Bool) : (b.pubDupQuota c r dupl).out = b.out := by
  unfold B.pubDupQuota
  split
  · split <;> rfl
  · rfl

theorem pubRetain_out (b : B) (r : PubReq) (dupl : Bool) : (b.pubRetain r dupl).out = b.out := by
  unfold B.pubRetain
  split
  · split <;> rfl
  · rfl

/-- the acknowledgement step appends exactly the PUBACK / PUBREC -/
theorem pubAck_out (b : B) (c : Cli) (r : PubReq) (matched : Bool) :
    (b.pubAck c r matched).out = b.out ++
      (if r.qos = 1 then [{ conn := r.conn, poll := false, pkt := Pkt.puback r.pid (if c.v == 5 && !matched then 0x10 else 0) }]
       else if r.qos = 2 then [{ conn := r.conn, poll := false, pkt := Pkt.pubrec r.pid (if c.v == 5 && !matched then 0x10 else 0) }]
       else []) := by
  unfold B.pubAck
  extract_lets code b4
  have hout4 : b4.out = b.out ++
      (if r.qos = 1 then [{ conn := r.conn, poll := false, pkt := Pkt.puback r.pid code }]
       else if r.qos = 2 then [{ conn := r.conn, poll := false, pkt := Pkt.pubrec r.pid code }] else []) := by
    simp only [b4]
    by_cases q1 : r.qos = 1
    · simp [q1]
    · by_cases q2 : r.qos = 2 <;> simp [q1, q2]
  rw [← hout4]
  split
  · split <;> rfl
  · rfl

/-- an accepted PUBLISH appends to the output exactly its acknowledgement -/
theorem publishTail_out (b : B) (c : Cli) (r : PubReq) (s : Sess) :
    ∃ code, (b.publishTail c r s).out = b.out ++
      (if r.qos = 1 then [{ conn := r.conn, poll := false, pkt := Pkt.puback r.pid code }]
       else if r.qos = 2 then [{ conn := r.conn, poll := false, pkt := Pkt.pubrec r.pid code }] else []) := by
  unfold B.publishTail
  extract_lets dupl s1 b1 bm
  refine ⟨if c.v == 5 && !bm.2 then 0x10 else 0, ?_⟩
  rw [pubAck_out]
  congr 1
  simp only [bm]
  split
  · rw [deliverMsg_out]; simp only [b1]; rw [pubRetain_out, pubDupQuota_out]; rfl
  · simp only [b1]; rw [pubRetain_out, pubDupQuota_out]; rfl

theorem publish_ack (b : B) (r : PubReq) (c : Cli) (s : Sess)
    (hc : b.cli? r.conn = some c) (hs : b.sess? c.cid = some s)
    (htopic : TopicOk b c r)
    (hquota : ¬ (c.v = 5 ∧ r.qos > 0 ∧ c.quota = 0))
    (hsize : ¬ (c.v = 5 ∧ b.cfg.maxPacket ≠ 0 ∧ r.size > b.cfg.maxPacket))
    (hret : ¬ (b.cfg.retainAvail = false ∧ r.retain = true)) :
    ∃ code, newH b (b.publish r) r.conn =
      (if r.qos = 1 then [Pkt.puback r.pid code] else if r.qos = 2 then [Pkt.pubrec r.pid code] else []) := by
  obtain ⟨t, c2, _, heq⟩ := publish_accepted b r c s hc hs htopic hquota hsize hret
  obtain ⟨code, hout⟩ := publishTail_out ((b.setCli (pubCli c r)).setCli c2) c2 { r with topic := t } s
  refine ⟨code, ?_⟩
  rw [heq, newH_append b _ r.conn _ hout]
  by_cases q1 : r.qos = 1
  · simp [q1]
  · by_cases q2 : r.qos = 2 <;> simp [q1, q2]

/-! ### per-publisher order -/

/-- `Add` either leaves the queue alone (newcomer dropped) or appends the newcomer behind a sublist of the old items -/
theorem add_items (q : Queue.Q) (now : Nat) (e : Queue.Elem) :
    (q.add now e).1 = q ∨ ∃ l, l.Sublist q.items ∧ (q.add now e).1.items = l ++ [e] := by
  have := Queue.add_elim (P := fun p => p.1 = q ∨ ∃ l, l.Sublist q.items ∧ p.1.items = l ++ [e]) q now e
    (fun _ => .inr ⟨q.items, List.Sublist.refl _, by simp [Queue.Q.items]⟩)
    (fun _ done' _ hx => .inr ⟨done' ++ q.rest,
      (Queue.extractFirst_some hx).2.2.append (List.Sublist.refl _), by simp [Queue.Q.items]⟩)
    (fun _ _ rest' _ _ hx _ => .inr ⟨q.done ++ rest',
      (List.Sublist.refl _).append (Queue.extractFirst_some hx).2.2, by simp [Queue.Q.items]⟩)
    (fun _ => .inl rfl)
  exact this

/-- the invariant carried through the enqueue loop of one `deliverMessage`, relative to the state `b0` before it -/
def OrderInv (b0 b : B) : Prop :=
  TagsSorted b ∧ b0.msgs <+: b.msgs ∧
    ∀ s' ∈ b.sessions, ∀ e ∈ s'.queue.items, e.tag < b0.msgs.length →
      ∃ s ∈ b0.sessions, s.cid = s'.cid ∧ e ∈ s.queue.items

theorem OrderInv.refl (b : B) (h : TagsSorted b) : OrderInv b b :=
  ⟨h, List.prefix_refl _, fun s' hs' _ he _ => ⟨s', hs', rfl, he⟩⟩

theorem mem_setSess {b : B} {s x : Sess} (h : x ∈ (b.setSess s).sessions) : x = s ∨ x ∈ b.sessions := by
  simp only [B.setSess, List.mem_cons, List.mem_filter] at h
  rcases h with h | h
  · exact .inl h
  · exact .inr h.1

theorem sess?_some {b : B} {cid : String} {s : Sess} (h : b.sess? cid = some s) : s ∈ b.sessions ∧ s.cid = cid := by
  unfold B.sess? at h
  exact ⟨List.mem_of_find?_eq_some h, by simpa using List.find?_some h⟩

theorem enqueue_order (b0 b : B) (cid : String) (q : Nat) (m : Msg) (h : OrderInv b0 b) :
    OrderInv b0 (b.enqueue cid q m) := by
  unfold B.enqueue
  split
  · exact h
  · next s hs =>
    split
    · exact h
    · obtain ⟨hsort, hpre, hold⟩ := h
      obtain ⟨hsmem, hscid⟩ := sess?_some hs
      extract_lets v exp tag e
      have het : e.tag = b.msgs.length := rfl
      have hadd := add_items s.queue b.now e
      generalize s.queue.add b.now e = qa at hadd ⊢
      obtain ⟨q', evs⟩ := qa
      simp only at hadd ⊢
      have hlen : b0.msgs.length ≤ b.msgs.length := hpre.length_le
      obtain ⟨hs1, hs2⟩ := hsort s hsmem
      refine ⟨?_, ?_, ?_⟩
      · intro x hx
        simp only [List.length_append, List.length_singleton]
        rcases mem_setSess hx with rfl | hx
        · simp only
          rcases hadd with heq | ⟨l, hl, heq⟩
          · rw [heq]
            exact ⟨hs1, fun y hy => Nat.lt_succ_of_lt (hs2 y hy)⟩
          · rw [heq]
            refine ⟨?_, ?_⟩
            · rw [List.map_append, List.pairwise_append]
              refine ⟨hs1.sublist (hl.map _), by simp, ?_⟩
              intro a ha c hc
              simp only [List.map_cons, List.map_nil, List.mem_singleton] at hc
              simp only [List.mem_map] at ha
              obtain ⟨y, hy, rfl⟩ := ha
              rw [hc, het]
              exact hs2 y (hl.subset hy)
            · intro y hy
              simp only [List.mem_append, List.mem_singleton] at hy
              rcases hy with hy | rfl
              · exact Nat.lt_succ_of_lt (hs2 y (hl.subset hy))
              · rw [het]; exact Nat.lt_succ_self _
        · obtain ⟨hx1, hx2⟩ := hsort x hx
          exact ⟨hx1, fun y hy => Nat.lt_succ_of_lt (hx2 y hy)⟩
      · exact hpre.trans (List.prefix_append _ _)
      · intro x hx y hy hyt
        rcases mem_setSess hx with rfl | hx
        · simp only at hy ⊢
          have hy' : y ∈ s.queue.items := by
            rcases hadd with heq | ⟨l, hl, heq⟩
            · rwa [heq] at hy
            · rw [heq] at hy
              simp only [List.mem_append, List.mem_singleton] at hy
              rcases hy with hy | rfl
              · exact hl.subset hy
              · omega
          exact hold s hsmem y hy' hyt
        · exact hold x hx y hy hyt

theorem foldl_enqueue_order (b0 : B) (q : Nat) (enqs : List (String × Msg)) (b : B) (h : OrderInv b0 b) :
    OrderInv b0 (enqs.foldl (fun b (cm : String × Msg) => b.enqueue cm.1 q cm.2) b) := by
  induction enqs generalizing b with
  | nil => exact h
  | cons x xs ih => exact ih _ (enqueue_order b0 b x.1 q x.2 h)

theorem deliver_order (b : B) (src : String) (m : Msg) (hints : List Nat) (rap : List String) (h : TagsSorted b) :
    let b' := (b.deliverMsg src m hints rap).1
    TagsSorted b' ∧ b.msgs <+: b'.msgs ∧
    ∀ s' ∈ b'.sessions, ∀ e ∈ s'.queue.items, e.tag < b.msgs.length →
      ∃ s ∈ b.sessions, s.cid = s'.cid ∧ e ∈ s.queue.items := by
  simp only [B.deliverMsg]
  exact foldl_enqueue_order b _ _ b (OrderInv.refl b h)

end GmqttVerif.Broker
