import GmqttVerif.Proofs.Deliver
/-
  Vocabulary and helper lemmas for `Properties/C11Deliver.lean`: the shared-subscription part of `Deliver.deliver`.
-/
namespace GmqttVerif.Deliver

/-- the choice functions `deliver` is parametrised by (stands for `rand.Intn` over the members of a group) -/
abbrev Pick := String → List (String × Sub) → Option (String × Sub)

/-- is the table entry a shared subscription (`$share/g/f`) -/
def isShared (cs : String × Sub) : Bool := cs.2.share != ""

/-- the members of the group with full name `g` (`$share/g/f`) among the visited entries, in visit order -/
def members (el : List (String × Sub)) (g : String) : List (String × Sub) :=
  el.filter (fun cs => cs.2.share != "" && cs.2.fullName == g)

/-- a choice function that chooses among the members it is given, and chooses someone whenever there is a member -/
structure GoodPick (pick : Pick) : Prop where
  mem : ∀ g ms x, pick g ms = some x → x ∈ ms
  some : ∀ g ms, ms ≠ [] → ∃ x, pick g ms = some x

/-- the member `pick` selects for group `g` (only meaningful when the group has a member) -/
def chosen (pick : Pick) (el : List (String × Sub)) (g : String) : String × Sub :=
  (pick g (members el g)).getD default

/-- the enqueue request for a selected member -/
def enqFor (m : Msg) (cs : String × Sub) : String × Msg := (cs.1, downgrade m cs.2 [cs.2.id])

/-! ### `eraseDups` -/

theorem nodup_eraseDups {α : Type} [BEq α] [LawfulBEq α] (l : List α) : l.eraseDups.Nodup := by
  match l with
  | [] => simp
  | a :: as =>
    rw [List.eraseDups_cons, List.nodup_cons]
    have : (as.filter fun b => !b == a).length < as.length + 1 := Nat.lt_succ_of_le (List.length_filter_le _ as)
    refine ⟨?_, nodup_eraseDups _⟩
    intro h
    rw [List.mem_eraseDups, List.mem_filter] at h
    simp at h
termination_by l.length

/-! ### groups and members -/

theorem mem_members {el : List (String × Sub)} {g : String} {cs : String × Sub} :
    cs ∈ members el g ↔ cs ∈ el ∧ cs.2.share ≠ "" ∧ cs.2.fullName = g := by
  simp [members]

theorem mem_sharedGroups {el : List (String × Sub)} {g : String} :
    g ∈ sharedGroups el ↔ ∃ cs ∈ el, cs.2.share ≠ "" ∧ cs.2.fullName = g := by
  simp only [sharedGroups, List.mem_eraseDups, List.mem_map, List.mem_filter, bne_iff_ne, ne_eq]
  constructor
  · rintro ⟨cs, ⟨h1, h2⟩, h3⟩; exact ⟨cs, h1, h2, h3⟩
  · rintro ⟨cs, h1, h2, h3⟩; exact ⟨cs, ⟨h1, h2⟩, h3⟩

theorem sharedGroups_nodup (el : List (String × Sub)) : (sharedGroups el).Nodup := nodup_eraseDups _

/-- a group is visited exactly when it has a member -/
theorem mem_sharedGroups_iff_members {el : List (String × Sub)} {g : String} :
    g ∈ sharedGroups el ↔ members el g ≠ [] := by
  rw [mem_sharedGroups, ne_eq, List.eq_nil_iff_forall_not_mem]
  constructor
  · rintro ⟨cs, h1, h2, h3⟩ hall
    exact hall cs (mem_members.2 ⟨h1, h2, h3⟩)
  · intro h
    apply Classical.byContradiction
    intro hno
    apply h
    intro cs hcs
    obtain ⟨h1, h2, h3⟩ := mem_members.1 hcs
    exact hno ⟨cs, h1, h2, h3⟩

/-- `shared`, with the selection written as a map over `Option` -/
theorem shared_eq (m : Msg) (el : List (String × Sub)) (pick : Pick) :
    shared m el pick = (sharedGroups el).filterMap (fun g => (pick g (members el g)).map (enqFor m)) := by
  unfold shared members
  congr 1
  funext g
  simp only
  cases pick g (el.filter (fun cs => cs.2.share != "" && cs.2.fullName == g)) with
  | none => rfl
  | some x => obtain ⟨c, s⟩ := x; rfl

theorem filterMap_all_some {α β γ : Type} [Inhabited β] (F : α → Option β) (h : β → γ) (gs : List α)
    (hs : ∀ g ∈ gs, ∃ x, F g = some x) :
    gs.filterMap (fun g => (F g).map h) = gs.map (fun g => h ((F g).getD default)) := by
  induction gs with
  | nil => rfl
  | cons g gs ih =>
    obtain ⟨x, hx⟩ := hs g List.mem_cons_self
    rw [List.filterMap_cons, List.map_cons, ih (fun g' hg' => hs g' (List.mem_cons_of_mem _ hg'))]
    simp [hx]

/-- a good choice function selects a member of every visited group -/
theorem chosen_spec {pick : Pick} (hp : GoodPick pick) {el : List (String × Sub)} {g : String}
    (hg : g ∈ sharedGroups el) :
    pick g (members el g) = some (chosen pick el g) ∧ chosen pick el g ∈ members el g := by
  obtain ⟨x, hx⟩ := hp.some g (members el g) (mem_sharedGroups_iff_members.1 hg)
  have : chosen pick el g = x := by simp [chosen, hx]
  rw [this]
  exact ⟨hx, hp.mem g _ x hx⟩

/-- with a good choice function: exactly one enqueue per visited group, for the selected member -/
theorem shared_map {pick : Pick} (hp : GoodPick pick) (m : Msg) (el : List (String × Sub)) :
    shared m el pick = (sharedGroups el).map (fun g => enqFor m (chosen pick el g)) := by
  rw [shared_eq]
  exact filterMap_all_some (fun g => pick g (members el g)) (enqFor m) (sharedGroups el)
    (fun g hg => ⟨_, (chosen_spec hp hg).1⟩)

/-! ### shared and non-shared parts do not see each other -/

theorem eligible_filter (src topic : String) (table : List (String × Sub)) (p : String × Sub → Bool) :
    eligible src topic (table.filter p) = (eligible src topic table).filter p := by
  unfold eligible
  rw [List.filter_filter, List.filter_filter]
  apply List.filter_congr
  intro cs _
  exact Bool.and_comm _ _

theorem members_filter (el : List (String × Sub)) (p : String × Sub → Bool) (g : String) :
    members (el.filter p) g = (members el g).filter p := by
  unfold members
  rw [List.filter_filter, List.filter_filter]
  apply List.filter_congr
  intro cs _
  exact Bool.and_comm _ _

theorem members_filter_isShared (el : List (String × Sub)) (g : String) :
    members (el.filter isShared) g = members el g := by
  unfold members
  rw [List.filter_filter]
  apply List.filter_congr
  intro cs _
  simp only [isShared]
  cases (cs.2.share != "") <;> simp

theorem sharedGroups_filter_isShared (el : List (String × Sub)) :
    sharedGroups (el.filter isShared) = sharedGroups el := by
  unfold sharedGroups
  rw [List.filter_filter]
  congr 2
  apply List.filter_congr
  intro cs _
  simp only [isShared]
  cases (cs.2.share != "") <;> simp

/-- the shared enqueues depend on the shared entries only -/
theorem shared_filter_isShared (m : Msg) (el : List (String × Sub)) (pick : Pick) :
    shared m (el.filter isShared) pick = shared m el pick := by
  rw [shared_eq, shared_eq, sharedGroups_filter_isShared]
  congr 1
  funext g
  rw [members_filter_isShared]

theorem filter_plain_of_nonShared (el : List (String × Sub)) :
    (el.filter (fun cs => !isShared cs)).filter (fun cs => cs.2.share == "") = el.filter (fun cs => cs.2.share == "") := by
  rw [List.filter_filter]
  apply List.filter_congr
  intro cs _
  simp only [isShared, bne]
  cases (cs.2.share == "") <;> simp

/-- the non-shared enqueues depend on the non-shared entries only -/
theorem overlap_filter_nonShared (m : Msg) (el : List (String × Sub)) :
    overlap m (el.filter (fun cs => !isShared cs)) = overlap m el := by
  unfold overlap
  rw [filter_plain_of_nonShared]

theorem onlyonce_filter_nonShared (m : Msg) (el : List (String × Sub)) :
    onlyonce m (el.filter (fun cs => !isShared cs)) = onlyonce m el := by
  unfold onlyonce
  rw [filter_plain_of_nonShared]

/-! ### leaving a group -/

/-- the groups visited after some entries have been removed: those that still have a member -/
theorem mem_sharedGroups_filter {el : List (String × Sub)} {p : String × Sub → Bool} {g : String} :
    g ∈ sharedGroups (el.filter p) ↔ g ∈ sharedGroups el ∧ members (el.filter p) g ≠ [] := by
  constructor
  · intro h
    refine ⟨?_, mem_sharedGroups_iff_members.1 h⟩
    obtain ⟨cs, h1, h2, h3⟩ := mem_sharedGroups.1 h
    exact mem_sharedGroups.2 ⟨cs, (List.mem_filter.1 h1).1, h2, h3⟩
  · rintro ⟨_, h⟩
    exact mem_sharedGroups_iff_members.2 h

end GmqttVerif.Deliver

namespace GmqttVerif.Broker
open GmqttVerif.Deliver

/-- the table order chosen for a hint is a rearrangement entry by entry: removing entries commutes with it -/
theorem orderTable_filter (rapHint : List String) (table : List (String × Sub)) (p : String × Sub → Bool) :
    orderTable rapHint (table.filter p) = (orderTable rapHint table).filter p := by
  unfold orderTable
  rw [List.filter_append, List.filter_filter, List.filter_filter, List.filter_filter, List.filter_filter]
  congr 1 <;> (apply List.filter_congr; intro cs _; exact Bool.and_comm _ _)

/-- which entries UNSUBSCRIBE keeps: everything but the client's own entries for the named (share, filter) pairs -/
def unsubKeep (cid : String) (topics : List String) (cs : String × Sub) : Bool :=
  !(cs.1 == cid && topics.any (fun name => cs.2.share == (splitShare name).1 && cs.2.filter == (splitShare name).2))

theorem unsub_fold_subs (cid : String) (topics : List String) (b : B) :
    (topics.foldl (fun b name =>
      let (share, filter) := splitShare name
      { b with subs := b.subs.filter (fun cs => !(cs.1 == cid && cs.2.share == share && cs.2.filter == filter)) }) b).subs =
      b.subs.filter (unsubKeep cid topics) := by
  induction topics generalizing b with
  | nil =>
    simp only [List.foldl_nil]
    exact (List.filter_eq_self.2 (fun cs _ => by simp [unsubKeep])).symm
  | cons t ts ih =>
    rw [List.foldl_cons, ih]
    simp only
    rw [List.filter_filter]
    apply List.filter_congr
    intro cs _
    simp only [unsubKeep, List.any_cons]
    generalize (cs.1 == cid) = x
    generalize (cs.2.share == (splitShare t).1) = y
    generalize (cs.2.filter == (splitShare t).2) = z
    generalize (ts.any fun name => cs.2.share == (splitShare name).1 && cs.2.filter == (splitShare name).2) = w
    cases x <;> cases y <;> cases z <;> cases w <;> rfl

end GmqttVerif.Broker
