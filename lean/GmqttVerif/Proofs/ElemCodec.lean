import GmqttVerif.Model.ElemCodec
import GmqttVerif.Proofs.Codec.Prim
/-
  Round-trip lemmas for the persistence encodings (Model/ElemCodec.lean). Core Lean only.
-/
namespace GmqttVerif.ElemCodec
open GmqttVerif.Codec

/-! ### limits -/

/-- every length-prefixed field fits the 16-bit length the format writes (F30), fixed-width fields fit their width,
    subscription identifiers fit a variable byte integer -/
structure Message.InLimits (m : Message) : Prop where
  topic : m.topic.length ≤ 65535
  payload : m.payload.length ≤ 65535
  pid : m.pid < 65536
  contentType : m.contentType.length ≤ 65535
  correlationData : m.correlationData.length ≤ 65535
  messageExpiry : m.messageExpiry < 4294967296
  responseTopic : m.responseTopic.length ≤ 65535
  subIds : ∀ v ∈ m.subIds, v < 268435456
  userProps : ∀ p ∈ m.userProps, p.1.length ≤ 65535 ∧ p.2.length ≤ 65535

def Elem.InLimits (e : Elem) : Prop :=
  e.atTime < 18446744073709551616 ∧ e.expiry < 18446744073709551616 ∧
  match e.body with
  | .publish m => m.InLimits
  | .pubrel id => id < 65536

structure Subscription.InLimits (s : Subscription) : Prop where
  shareName : s.shareName.length ≤ 65535
  topicFilter : s.topicFilter.length ≤ 65535
  id : s.id < 4294967296

/-! ### primitives -/

theorem readBool_writeBool (b : Bool) (rest : Bytes) : readBool (writeBool b ++ rest) = .ok (b, rest) := by
  cases b <;> simp [writeBool, readBool]

theorem readByte_cons (e : Err) (b : Nat) (rest : Bytes) : readByte e (b :: rest) = .ok (b, rest) := rfl

theorem readU64_writeU64 (n : Nat) (h : n < 18446744073709551616) (rest : Bytes) :
    readU64 (writeU64 n ++ rest) = some (n, rest) := by
  simp only [writeU64, List.cons_append, List.nil_append, readU64]
  congr 2
  omega

theorem writeU64_length (n : Nat) : (writeU64 n).length = 8 := rfl

/-! ### the property loop -/

theorem decodeProps_nil (f : Nat) (m : Message) : decodeProps f [] m = .ok m := by
  cases f <;> rfl

/-- more fuel does not change a successful result -/
theorem decodeProps_mono : ∀ (f f' : Nat) (bs : Bytes) (m r : Message),
    decodeProps f bs m = .ok r → f ≤ f' → decodeProps f' bs m = .ok r := by
  intro f
  induction f with
  | zero =>
    intro f' bs m r h _
    cases bs with
    | nil => rw [decodeProps_nil] at h ⊢; exact h
    | cons b bs => simp [decodeProps] at h
  | succ f ih =>
    intro f' bs m r h hle
    cases bs with
    | nil => rw [decodeProps_nil] at h ⊢; exact h
    | cons b bs =>
      cases f' with
      | zero => omega
      | succ f' =>
        simp only [decodeProps] at h ⊢
        cases hp : parseProp b bs m with
        | error e => simp [hp] at h
        | ok v =>
          obtain ⟨m', r'⟩ := v
          simp only [hp] at h ⊢
          exact ih f' r' m' r h (by omega)

/-- one iteration -/
theorem decodeProps_step (f : Nat) (pt : Nat) (body rest : Bytes) (m m' r : Message)
    (hp : parseProp pt (body ++ rest) m = .ok (m', rest)) (hr : decodeProps f rest m' = .ok r) :
    decodeProps (f + 1) (pt :: (body ++ rest)) m = .ok r := by
  simp only [decodeProps, hp]
  exact hr

theorem parse_contentType (v rest : Bytes) (m : Message) (h : v.length ≤ 65535) :
    parseProp 0x03 (writeBin v ++ rest) m = .ok ({ m with contentType := v }, rest) := by
  simp [parseProp, readBin_writeBin v h]

theorem parse_correlationData (v rest : Bytes) (m : Message) (h : v.length ≤ 65535) :
    parseProp 0x09 (writeBin v ++ rest) m = .ok ({ m with correlationData := v }, rest) := by
  simp [parseProp, readBin_writeBin v h]

theorem parse_messageExpiry (v : Nat) (rest : Bytes) (m : Message) (h : v < 4294967296) :
    parseProp 0x02 (writeU32 v ++ rest) m = .ok ({ m with messageExpiry := v }, rest) := by
  simp [parseProp, readU32_writeU32 v h]

theorem parse_payloadFormat (v : Nat) (rest : Bytes) (m : Message) :
    parseProp 0x01 ([v] ++ rest) m = .ok ({ m with payloadFormat := v }, rest) := by
  simp [parseProp, readByte]

theorem parse_responseTopic (v rest : Bytes) (m : Message) (h : v.length ≤ 65535) :
    parseProp 0x08 (writeBin v ++ rest) m = .ok ({ m with responseTopic := v }, rest) := by
  simp [parseProp, readBin_writeBin v h]

theorem parse_subId (v : Nat) (rest : Bytes) (m : Message) (h : v < 268435456) :
    parseProp 0x0B (encVbiOrNil v ++ rest) m = .ok ({ m with subIds := m.subIds ++ [v] }, rest) := by
  have e : encVbiOrNil v = vbiDigits 4 v := by simp [encVbiOrNil, encVbi, h]
  simp [parseProp, e, decVbi_vbiDigits v h]

theorem parse_userProp (k v rest : Bytes) (m : Message) (hk : k.length ≤ 65535) (hv : v.length ≤ 65535) :
    parseProp 0x26 ((writeBin k ++ writeBin v) ++ rest) m = .ok ({ m with userProps := m.userProps ++ [(k, v)] }, rest) := by
  simp [parseProp, List.append_assoc, readBin_writeBin k hk, readBin_writeBin v hv]

theorem decode_userProps : ∀ (ups : List (Bytes × Bytes)) (f : Nat) (rest : Bytes) (m r : Message),
    (∀ p ∈ ups, p.1.length ≤ 65535 ∧ p.2.length ≤ 65535) →
    decodeProps f rest { m with userProps := m.userProps ++ ups } = .ok r →
    decodeProps (f + ups.length) (encodeUserProps ups ++ rest) m = .ok r := by
  intro ups
  induction ups with
  | nil => intro f rest m r _ h; simpa [encodeUserProps] using h
  | cons p ups ih =>
    intro f rest m r hl h
    obtain ⟨k, v⟩ := p
    have hkv := hl (k, v) (by simp)
    have h2 := ih f rest { m with userProps := m.userProps ++ [(k, v)] } r
      (fun q hq => hl q (by simp [hq])) (by simpa [List.append_assoc] using h)
    have e : encodeUserProps ((k, v) :: ups) ++ rest = 0x26 :: ((writeBin k ++ writeBin v) ++ (encodeUserProps ups ++ rest)) := by
      simp [encodeUserProps, List.append_assoc]
    rw [e, List.length_cons, ← Nat.add_assoc]
    exact decodeProps_step _ _ _ _ _ _ _ (parse_userProp k v _ m hkv.1 hkv.2) h2

theorem decode_subIds : ∀ (vs : List Nat) (f : Nat) (rest : Bytes) (m r : Message),
    (∀ v ∈ vs, v < 268435456) →
    decodeProps f rest { m with subIds := m.subIds ++ vs } = .ok r →
    decodeProps (f + vs.length) (encodeSubIds vs ++ rest) m = .ok r := by
  intro vs
  induction vs with
  | nil => intro f rest m r _ h; simpa [encodeSubIds] using h
  | cons v vs ih =>
    intro f rest m r hl h
    have hv := hl v (by simp)
    have h2 := ih f rest { m with subIds := m.subIds ++ [v] } r
      (fun q hq => hl q (by simp [hq])) (by simpa [List.append_assoc] using h)
    have e : encodeSubIds (v :: vs) ++ rest = 0x0B :: (encVbiOrNil v ++ (encodeSubIds vs ++ rest)) := by
      simp [encodeSubIds, List.append_assoc]
    rw [e, List.length_cons, ← Nat.add_assoc]
    exact decodeProps_step _ _ _ _ _ _ _ (parse_subId v _ m hv) h2

theorem encodeSubIds_length (vs : List Nat) : vs.length ≤ (encodeSubIds vs).length := by
  induction vs with
  | nil => simp [encodeSubIds]
  | cons v vs ih => simp [encodeSubIds]; omega

theorem encodeUserProps_length (ups : List (Bytes × Bytes)) : ups.length ≤ (encodeUserProps ups).length := by
  induction ups with
  | nil => simp [encodeUserProps]
  | cons p ups ih => obtain ⟨k, v⟩ := p; simp [encodeUserProps]; omega

/-- an optional length-prefixed property: written only when non-empty -/
theorem decode_optBin (pt : Nat) (v : Bytes) (f : Nat) (rest : Bytes) (m m' r : Message)
    (hp : v.length ≠ 0 → parseProp pt (writeBin v ++ rest) m = .ok (m', rest))
    (h0 : v.length = 0 → m' = m)
    (h : decodeProps f rest m' = .ok r) :
    decodeProps (f + (if v.length ≠ 0 then 1 else 0)) ((if v.length ≠ 0 then pt :: writeBin v else []) ++ rest) m = .ok r := by
  by_cases hv : v.length = 0
  · simp only [hv, ne_eq, not_true_eq_false, if_false, List.nil_append, Nat.add_zero]
    rw [← h0 hv]; exact h
  · simp only [ne_eq, hv, not_false_eq_true, if_true, List.cons_append]
    exact decodeProps_step _ _ _ _ _ _ _ (hp hv) h

/-! ### messages -/

theorem decodeProps_encodeProps (m m0 : Message) (hl : m.InLimits)
    (h0 : m0 = { dup := m.dup, qos := m.qos, retained := m.retained, topic := m.topic, payload := m.payload, pid := m.pid }) :
    decodeProps ((encodeProps m).length + 1) (encodeProps m) m0 = .ok m := by
  -- build the result from the end of the property list towards its beginning
  let m5 : Message := { m0 with contentType := m.contentType, correlationData := m.correlationData, messageExpiry := m.messageExpiry,
                                payloadFormat := m.payloadFormat, responseTopic := m.responseTopic }
  have hend : decodeProps 1 [] { m5 with subIds := m5.subIds ++ m.subIds, userProps := m5.userProps ++ m.userProps } = .ok m := by
    rw [decodeProps_nil]
    subst h0
    cases m
    simp [m5]
  have hU := decode_userProps m.userProps 1 [] { m5 with subIds := m5.subIds ++ m.subIds } m hl.userProps hend
  have hS := decode_subIds m.subIds (1 + m.userProps.length) (encodeUserProps m.userProps ++ []) m5 m hl.subIds hU
  let m4 : Message := { m0 with contentType := m.contentType, correlationData := m.correlationData, messageExpiry := m.messageExpiry,
                                payloadFormat := m.payloadFormat }
  have hR := decode_optBin 0x08 m.responseTopic _ _ m4 m5 m
    (fun _ => parse_responseTopic m.responseTopic _ m4 hl.responseTopic)
    (fun h => by
      have : m.responseTopic = [] := List.eq_nil_of_length_eq_zero h
      subst h0; simp [m4, m5, this]) hS
  let m3 : Message := { m0 with contentType := m.contentType, correlationData := m.correlationData, messageExpiry := m.messageExpiry }
  have hP := decodeProps_step _ 0x01 [m.payloadFormat] _ m3 m4 m (parse_payloadFormat m.payloadFormat _ m3) hR
  let m2 : Message := { m0 with contentType := m.contentType, correlationData := m.correlationData }
  have hE : decodeProps ((1 + m.userProps.length + m.subIds.length + (if m.responseTopic.length ≠ 0 then 1 else 0) + 1) +
        (if m.messageExpiry ≠ 0 then 1 else 0))
      ((if m.messageExpiry ≠ 0 then 0x02 :: writeU32 m.messageExpiry else []) ++
        (0x01 :: ([m.payloadFormat] ++ ((if m.responseTopic.length ≠ 0 then 0x08 :: writeBin m.responseTopic else []) ++
          (encodeSubIds m.subIds ++ (encodeUserProps m.userProps ++ [])))))) m2 = .ok m := by
    by_cases hz : m.messageExpiry = 0
    · simp only [hz, ne_eq, not_true_eq_false, if_false, List.nil_append, Nat.add_zero]
      have : m3 = m2 := by subst h0; simp [m3, m2, hz]
      rw [← this]; exact hP
    · simp only [ne_eq, hz, not_false_eq_true, if_true, List.cons_append]
      exact decodeProps_step _ _ _ _ _ _ _ (parse_messageExpiry m.messageExpiry _ m2 hl.messageExpiry) hP
  let m1 : Message := { m0 with contentType := m.contentType }
  have hC := decode_optBin 0x09 m.correlationData _ _ m1 m2 m
    (fun _ => parse_correlationData m.correlationData _ m1 hl.correlationData)
    (fun h => by
      have : m.correlationData = [] := List.eq_nil_of_length_eq_zero h
      subst h0; simp [m1, m2, this]) hE
  have hT := decode_optBin 0x03 m.contentType _ _ m0 m1 m
    (fun _ => parse_contentType m.contentType _ m0 hl.contentType)
    (fun h => by
      have : m.contentType = [] := List.eq_nil_of_length_eq_zero h
      subst h0; simp [m1, this]) hC
  have hbytes : encodeProps m =
      (if m.contentType.length ≠ 0 then 0x03 :: writeBin m.contentType else []) ++
      ((if m.correlationData.length ≠ 0 then 0x09 :: writeBin m.correlationData else []) ++
      ((if m.messageExpiry ≠ 0 then 0x02 :: writeU32 m.messageExpiry else []) ++
        (0x01 :: ([m.payloadFormat] ++ ((if m.responseTopic.length ≠ 0 then 0x08 :: writeBin m.responseTopic else []) ++
          (encodeSubIds m.subIds ++ (encodeUserProps m.userProps ++ []))))))) := by
    simp [encodeProps, List.append_assoc]
  rw [← hbytes] at hT
  refine decodeProps_mono _ _ _ _ _ hT ?_
  -- fuel accounting: every segment that is present has at least one byte
  have l1 := encodeSubIds_length m.subIds
  have l2 := encodeUserProps_length m.userProps
  have hlen : (encodeProps m).length =
      (if m.contentType.length ≠ 0 then 1 + (writeBin m.contentType).length else 0) +
      (if m.correlationData.length ≠ 0 then 1 + (writeBin m.correlationData).length else 0) +
      (if m.messageExpiry ≠ 0 then 5 else 0) + 2 +
      (if m.responseTopic.length ≠ 0 then 1 + (writeBin m.responseTopic).length else 0) +
      (encodeSubIds m.subIds).length + (encodeUserProps m.userProps).length := by
    simp only [encodeProps, List.length_append]
    split <;> split <;> split <;> split <;> simp [writeU32] <;> omega
  rw [hlen]
  split <;> split <;> split <;> split <;> omega

/-- `DecodeMessage(EncodeMessage(m)) = m` for every message within the format's limits -/
theorem decodeMessage_encodeMessage (m : Message) (hl : m.InLimits) : decodeMessage (encodeMessage m) = .ok m := by
  unfold decodeMessage encodeMessage
  simp only [List.append_assoc]
  rw [readBool_writeBool]
  simp only [List.cons_append, List.nil_append, readByte_cons]
  rw [readBool_writeBool]
  simp only []
  rw [readBin_writeBin _ hl.topic]
  simp only []
  rw [readBin_writeBin _ hl.payload]
  simp only []
  rw [readU16_writeU16 _ hl.pid]
  simp only []
  exact decodeProps_encodeProps m _ hl rfl

theorem encodeMessage_ne_nil (m : Message) : encodeMessage m ≠ [] := by
  cases hd : m.dup <;> simp [encodeMessage, writeBool, hd]

theorem decodeMessageOpt_encodeMessageOpt (w : Option Message) (hl : ∀ m, w = some m → m.InLimits) :
    decodeMessageOpt (encodeMessageOpt w) = .ok w := by
  cases w with
  | none => simp [decodeMessageOpt, encodeMessageOpt]
  | some m =>
    have hne : (encodeMessage m).isEmpty = false := by
      cases h : encodeMessage m with
      | nil => exact absurd h (encodeMessage_ne_nil m)
      | cons _ _ => rfl
    simp [decodeMessageOpt, encodeMessageOpt, hne, decodeMessage_encodeMessage m (hl m rfl)]

/-! ### queue elements -/

theorem decodeElem_encodeElem (e : Elem) (hl : e.InLimits) : decodeElem (encodeElem e) = .ok e := by
  obtain ⟨hat, hex, hb⟩ := hl
  obtain ⟨at0, ex, body⟩ := e
  cases body with
  | publish m =>
    have hlen : ¬ ((writeU64 at0 ++ [0] ++ writeU64 ex ++ [0] ++ (0 :: encodeMessage m)).length < 19) := by
      simp [writeU64_length]
      omega
    simp only [decodeElem, encodeElem, hlen, if_false]
    simp only [List.append_assoc]
    rw [readU64_writeU64 _ hat]
    simp only [List.cons_append, List.nil_append, List.drop_succ_cons, List.drop_zero]
    rw [readU64_writeU64 _ hex]
    simp only [List.drop_succ_cons, List.drop_zero]
    rw [decodeMessage_encodeMessage m hb]
  | pubrel id =>
    have hlen : ¬ ((writeU64 at0 ++ [0] ++ writeU64 ex ++ [0] ++ (1 :: writeU16 id)).length < 19) := by
      simp [writeU64_length, writeU16]
    simp only [decodeElem, encodeElem, hlen, if_false]
    simp only [List.append_assoc]
    rw [readU64_writeU64 _ hat]
    simp only [List.cons_append, List.nil_append, List.drop_succ_cons, List.drop_zero]
    rw [readU64_writeU64 _ hex]
    simp only [List.drop_succ_cons, List.drop_zero]
    have := readU16_writeU16 id hb []
    simp only [List.append_nil] at this
    rw [this]

/-! ### subscriptions -/

theorem decodeSubscription_encodeSubscription (s : Subscription) (hl : s.InLimits) :
    decodeSubscription (encodeSubscription s) = .ok s := by
  unfold decodeSubscription encodeSubscription
  simp only [List.append_assoc]
  rw [readBin_writeBin _ hl.shareName]
  simp only []
  rw [readBin_writeBin _ hl.topicFilter]
  simp only []
  rw [readU32_writeU32 _ hl.id]
  simp only [List.cons_append, List.nil_append, readByte_cons]
  rw [readBool_writeBool]
  simp only []
  rw [readBool_writeBool]
  simp only [readByte_cons]

/-! ### decimal integers -/

def digitVal : Bytes → Nat → Nat
  | [], a => a
  | c :: cs, a => digitVal cs (a * 10 + (c - 48))

def AllDigits (bs : Bytes) : Prop := ∀ c ∈ bs, 48 ≤ c ∧ c ≤ 57

theorem decToNatAux_digits : ∀ (bs : Bytes) (a : Nat), AllDigits bs → decToNatAux bs a = some (digitVal bs a) := by
  intro bs
  induction bs with
  | nil => intro a _; rfl
  | cons c cs ih =>
    intro a h
    have hc := h c (by simp)
    simp only [decToNatAux, hc.1, hc.2, and_self, if_true, digitVal]
    exact ih _ (fun d hd => h d (by simp [hd]))

def pow10len : Nat → Nat → Nat
  | 0, _ => 1
  | f + 1, n => if n < 10 then 10 else 10 * pow10len f (n / 10)

theorem digitsAux_allDigits : ∀ (f n : Nat) (acc : Bytes), AllDigits acc → AllDigits (digitsAux f n acc) := by
  intro f
  induction f with
  | zero => intro n acc h; exact h
  | succ f ih =>
    intro n acc h
    simp only [digitsAux]
    split
    · intro c hc
      simp only [List.mem_cons] at hc
      rcases hc with rfl | hc
      · omega
      · exact h c hc
    · apply ih
      intro c hc
      simp only [List.mem_cons] at hc
      rcases hc with rfl | hc
      · omega
      · exact h c hc

theorem digitVal_digitsAux : ∀ (f n : Nat) (acc : Bytes) (a : Nat), n < f →
    digitVal (digitsAux f n acc) a = digitVal acc (a * pow10len f n + n) := by
  intro f
  induction f with
  | zero => intro n acc a h; omega
  | succ f ih =>
    intro n acc a h
    simp only [digitsAux, pow10len]
    by_cases h10 : n < 10
    · simp only [h10, if_true, digitVal]
      congr 1
      omega
    · simp only [h10, if_false]
      rw [ih (n / 10) _ a (by omega)]
      simp only [digitVal]
      congr 1
      have e : a * (10 * pow10len f (n / 10)) = a * pow10len f (n / 10) * 10 := by
        rw [Nat.mul_comm 10, Nat.mul_assoc]
      rw [e]
      omega

theorem digitsAux_ne_nil (f n : Nat) (acc : Bytes) (h : acc ≠ []) : digitsAux f n acc ≠ [] := by
  induction f generalizing n acc with
  | zero => exact h
  | succ f ih =>
    simp only [digitsAux]
    split
    · simp
    · exact ih _ _ (by simp)

theorem natToDec_ne_nil (n : Nat) : natToDec n ≠ [] := by
  simp only [natToDec, digitsAux]
  split
  · simp
  · exact digitsAux_ne_nil _ _ _ (by simp)

/-- an integer written in decimal is scanned back -/
theorem decToU32_natToDec (n : Nat) (h : n < 4294967296) : decToU32 (natToDec n) = some n := by
  have hne : (natToDec n).isEmpty = false := by
    cases hh : natToDec n with
    | nil => exact absurd hh (natToDec_ne_nil n)
    | cons _ _ => rfl
  have hd : AllDigits (natToDec n) := digitsAux_allDigits _ _ _ (fun c hc => by simp at hc)
  have hv : digitVal (natToDec n) 0 = n := by
    simp only [natToDec]
    rw [digitVal_digitsAux _ _ _ _ (by omega)]
    simp [digitVal]
  simp [decToU32, hne, decToNatAux_digits _ _ hd, hv, h]

end GmqttVerif.ElemCodec
