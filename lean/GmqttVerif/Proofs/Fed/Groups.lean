import GmqttVerif.Model.Fed.Groups
import GmqttVerif.Proofs.Fed.Route
/- share groups across a federation: the case in which `sendMessage` is right (C17 `shared_one_in_federation_partial`) -/
namespace GmqttVerif.Fed
variable {ν γ : Type} [DecidableEq ν] [DecidableEq γ]

omit [DecidableEq ν] in
theorem pushShared_nil (g : γ) (n : ν) : pushShared ([] : List (γ × List ν)) g n = [(g, [n])] := by
  simp [pushShared]

omit [DecidableEq ν] in
theorem pushShared_single (g : γ) (v : List ν) (n : ν) : pushShared [(g, v)] g n = [(g, v ++ [n])] := by
  simp [pushShared]

omit [DecidableEq ν] in
/-- folding entries that all carry the key `g` into a map that is empty or holds only `g` -/
theorem fold_push_single (g : γ) (ps : List (ν × γ)) (hp : ∀ p ∈ ps, p.2 = g) (v : List ν) :
    ps.foldl (fun sl p => pushShared sl p.2 p.1) [(g, v)] = [(g, v ++ ps.map (·.1))] := by
  induction ps generalizing v with
  | nil => simp
  | cons p ps ih =>
    have h1 : p.2 = g := hp p (by simp)
    simp only [List.foldl_cons, h1, pushShared_single]
    rw [ih (fun q hq => hp q (by simp [hq]))]
    simp

omit [DecidableEq ν] in
theorem fold_push_nil (g : γ) (ps : List (ν × γ)) (hp : ∀ p ∈ ps, p.2 = g) :
    ps.foldl (fun sl p => pushShared sl p.2 p.1) ([] : List (γ × List ν)) =
      if ps = [] then [] else [(g, ps.map (·.1))] := by
  cases ps with
  | nil => simp
  | cons p ps =>
    have h1 : p.2 = g := hp p (by simp)
    simp only [List.foldl_cons, h1, pushShared_nil]
    rw [fold_push_single g ps (fun q hq => hp q (by simp [hq]))]
    simp

omit [DecidableEq ν] in
/-- the shared map when `g` is the only matching group anywhere -/
theorem sharedListCore_single (i : CoreIn ν γ) (g : γ) (h1 : ∀ t ∈ i.localShared, t = g) (h2 : ∀ p ∈ i.fedShared, p.2 = g) :
    sharedListCore i =
      if i.localShared = [] ∧ i.fedShared = [] then []
      else [(g, i.localShared.map (fun _ => i.self) ++ i.fedShared.map (·.1))] := by
  unfold sharedListCore
  have hl : i.localShared.foldl (fun sl t => pushShared sl t i.self) ([] : List (γ × List ν)) =
      if i.localShared = [] then [] else [(g, i.localShared.map (fun _ => i.self))] := by
    have := fold_push_nil g (i.localShared.map (fun t => (i.self, t))) (by
      intro p hp; simp at hp; obtain ⟨t, ht, rfl⟩ := hp; exact h1 t ht)
    simp only [List.foldl_map, List.map_map, List.map_eq_nil_iff] at this
    exact this
  rw [hl]
  by_cases hn : i.localShared = []
  · simp only [hn, if_true, true_and, List.map_nil, List.nil_append]
    exact fold_push_nil g i.fedShared h2
  · simp only [hn, if_false, false_and]
    exact fold_push_single g i.fedShared h2 _

omit [DecidableEq γ] in
/-- in a list of nodes with distinct names exactly one has a given name -/
theorem count_name {others : List (FNode ν γ)} (hn : (others.map (·.name)).Nodup) {n0 : FNode ν γ} (h0 : n0 ∈ others)
    (P : FNode ν γ → Bool) (hP : P n0 = true) :
    (others.filter (fun n => (n.name == n0.name) && P n)).length = 1 := by
  induction others with
  | nil => simp at h0
  | cons a r ih =>
    simp only [List.map_cons, List.nodup_cons] at hn
    simp only [List.mem_cons] at h0
    rcases h0 with h | h
    · subst h
      have hr : r.filter (fun n => (n.name == n0.name) && P n) = [] := by
        apply List.filter_eq_nil_iff.mpr
        intro x hx
        have : x.name ≠ n0.name := fun e => hn.1 (e ▸ List.mem_map_of_mem hx)
        simp [this]
      simp [hP, hr]
    · have hne : a.name ≠ n0.name := fun e => hn.1 (e ▸ List.mem_map_of_mem h)
      simp [hne, ih hn.2 h]

theorem servedBy_single (sort : List ν → List ν) (hsort : ∀ l, (sort l).Perm l)
    (origin : FNode ν γ) (others : List (FNode ν γ)) (sent : List (γ × Nat)) (g : γ)
    (hnames : ((origin :: others).map (·.name)).Nodup)
    (hso : ∀ x ∈ origin.members, x = g) (hsn : ∀ n ∈ others, ∀ x ∈ n.members, x = g)
    (hnons : ∀ n ∈ others, n.nonShared = false)
    (hmem : g ∈ origin.members ∨ ∃ n ∈ others, g ∈ n.members) :
    servedBy sort origin others sent g = 1 := by
  simp only [List.map_cons, List.nodup_cons] at hnames
  obtain ⟨hself, hnd⟩ := hnames
  let i := coreOf origin others sent
  have h1 : ∀ t ∈ i.localShared, t = g := hso
  have h2 : ∀ p ∈ i.fedShared, p.2 = g := by
    intro p hp
    simp only [i, coreOf, List.mem_flatMap, List.mem_map] at hp
    obtain ⟨n, hn, x, hx, rfl⟩ := hp
    exact hsn n hn x ((mem_dedupS _ _).mp hx)
  have hfn : i.fedNonShared = [] := by
    simp only [i, coreOf, List.map_eq_nil_iff]
    apply List.filter_eq_nil_iff.mpr
    intro n hn; simp [hnons n hn]
  -- members of the node list of the single group
  have hfedmem : ∀ x, x ∈ i.fedShared.map (·.1) ↔ ∃ n ∈ others, n.name = x ∧ g ∈ n.members := by
    intro x
    simp only [i, coreOf, List.mem_map, List.mem_flatMap]
    constructor
    · rintro ⟨p, ⟨n, hn, y, hy, rfl⟩, rfl⟩
      have hy' := (mem_dedupS _ _).mp hy
      exact ⟨n, hn, rfl, (hsn n hn y hy') ▸ hy'⟩
    · rintro ⟨n, hn, rfl, hg⟩
      exact ⟨(n.name, g), ⟨n, hn, g, (mem_dedupS _ _).mpr hg, rfl⟩, rfl⟩
  have hne : ¬ (i.localShared = [] ∧ i.fedShared = []) := by
    rintro ⟨e1, e2⟩
    rcases hmem with h | ⟨n, hn, hg⟩
    · have : g ∈ i.localShared := h
      rw [e1] at this; simp at this
    · have : n.name ∈ i.fedShared.map (·.1) := (hfedmem _).mpr ⟨n, hn, rfl, hg⟩
      rw [e2] at this; simp at this
  have hsl := sharedListCore_single i g h1 h2
  rw [if_neg hne] at hsl
  generalize hV : i.localShared.map (fun _ => i.self) ++ i.fedShared.map (·.1) = V at hsl
  have hVmem : ∀ x, x ∈ V ↔ ((x = origin.name ∧ g ∈ origin.members) ∨ ∃ n ∈ others, n.name = x ∧ g ∈ n.members) := by
    intro x
    rw [← hV, List.mem_append, hfedmem]
    constructor
    · rintro (h | h)
      · simp only [List.mem_map] at h
        obtain ⟨t, ht, rfl⟩ := h
        exact Or.inl ⟨rfl, (h1 t ht) ▸ ht⟩
      · exact Or.inr h
    · rintro (⟨rfl, h⟩ | h)
      · exact Or.inl (List.mem_map.mpr ⟨g, h, rfl⟩)
      · exact Or.inr h
  have hVne : V ≠ [] := by
    intro e
    rcases hmem with h | ⟨n, hn, hg⟩
    · have := (hVmem origin.name).mpr (Or.inl ⟨rfl, h⟩); rw [e] at this; simp at this
    · have := (hVmem n.name).mpr (Or.inr ⟨n, hn, rfl, hg⟩); rw [e] at this; simp at this
  -- the pick
  have hlen : 0 < (sort V).length := by
    rw [(hsort V).length_eq]; exact List.length_pos_iff.mpr hVne
  have hidx : counter sent g % (sort V).length < (sort V).length := Nat.mod_lt _ hlen
  have hpick : (sort V)[counter sent g % (sort V).length]? = some ((sort V)[counter sent g % (sort V).length]) :=
    List.getElem?_eq_getElem hidx
  generalize hp : (sort V)[counter sent g % (sort V).length] = pick at hpick
  have hpV : pick ∈ V := by
    have : pick ∈ sort V := by rw [← hp]; exact List.getElem_mem hidx
    exact (hsort V).mem_iff.mp this
  have hcore : routeCore sort i false =
      if pick = origin.name then { targets := [], drop := false, nonSharedOnly := false, sent := bump sent g }
      else if origin.nonShared then { targets := [pick], drop := false, nonSharedOnly := true, sent := bump sent g }
      else { targets := [pick], drop := true, nonSharedOnly := false, sent := bump sent g } := by
    have hself' : i.self = origin.name := rfl
    have hsent : i.sent = sent := rfl
    have hlns : i.localNonShared = origin.nonShared := rfl
    have hpeers : i.peers = others.map (·.name) := rfl
    simp only [routeCore, Bool.false_eq_true, if_false, hsl, List.foldl_cons, List.foldl_nil, sharedStep, hsent, hpick, hfn,
      dedupS, List.filter_nil, List.append_nil, hself', hlns]
    by_cases hps : pick = origin.name
    · simp [hps]
    · have hpin : (others.map (·.name)).contains pick = true := by
        rcases (hVmem pick).mp hpV with ⟨e, _⟩ | ⟨n, hn, e, _⟩
        · exact absurd e hps
        · simp only [List.contains_iff_mem, List.mem_map]; exact ⟨n, hn, e⟩
      simp only [beq_iff_eq, hps, if_false, List.contains_nil, Bool.false_eq_true, hpeers, hpin, if_true, List.nil_append]
      cases origin.nonShared <;> simp
  have hcore' : routeCore sort (coreOf origin others sent) false = _ := hcore
  unfold servedBy
  simp only [hcore']
  by_cases hps : pick = origin.name
  · -- served locally, nothing forwarded
    have hg : g ∈ origin.members := by
      rcases (hVmem pick).mp hpV with ⟨_, h⟩ | ⟨n, hn, e, _⟩
      · exact h
      · exact absurd (List.mem_map_of_mem (f := (·.name)) hn) (by rw [e, hps]; exact hself)
    simp [hps, hg]
  · obtain ⟨n0, hn0, hname, hg0⟩ : ∃ n ∈ others, n.name = pick ∧ g ∈ n.members := by
      rcases (hVmem pick).mp hpV with ⟨e, _⟩ | h
      · exact absurd e hps
      · exact h
    have hcount := count_name hnd hn0 (fun n => n.members.contains g) (by simpa using hg0)
    simp only [hps, if_false]
    cases hns : origin.nonShared
    · simp only [Bool.false_eq_true, if_false, Bool.not_true, Bool.and_false, Bool.not_false, Bool.and_true]
      simp only [List.contains_cons, List.contains_nil, Bool.or_false, ← hname] at hcount ⊢
      simpa using hcount
    · simp only [if_true, Bool.not_false, Bool.and_true, Bool.not_true, Bool.and_false]
      simp only [List.contains_cons, List.contains_nil, Bool.or_false, ← hname] at hcount ⊢
      simpa using hcount
end GmqttVerif.Fed
