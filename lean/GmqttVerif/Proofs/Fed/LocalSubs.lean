import GmqttVerif.Model.Fed.LocalSubs
import GmqttVerif.Proofs.AList
/-
  `localSubStore` keeps exact reference counts (C16 `localSubs_refcount`).
  `holders ix t` = number of clients whose topic set contains `t` — the declarative meaning of `topics[t]`.
-/
namespace GmqttVerif.Fed.LS
open GmqttVerif

/-- number of clients indexed on `t` -/
def holders (ix : List (String × List String)) (t : String) : Nat :=
  (ix.filter (fun p => p.2.contains t)).length

def ind (p : Prop) [Decidable p] : Nat := if p then 1 else 0

theorem holders_cons (p : String × List String) (r : List (String × List String)) (t : String) :
    holders (p :: r) t = ind (t ∈ p.2) + holders r t := by
  simp only [holders, List.filter_cons, ind, List.contains_iff_mem]
  by_cases h : t ∈ p.2
  · simp [h]; omega
  · simp [h]

/-- splitting off one client (keys are unique) -/
theorem holders_split {ix : List (String × List String)} (hn : AL.NodupKeys ix) (c t : String) :
    holders ix t = holders (AL.del c ix) t + ind (t ∈ (AL.get c ix).getD []) := by
  induction ix with
  | nil => simp [holders, AL.del, AL.get, ind]
  | cons p r ih =>
    obtain ⟨k, v⟩ := p
    have hk : k ∉ AL.keys r := by
      have : (k :: AL.keys r).Nodup := hn
      exact (List.nodup_cons.mp this).1
    have hr : AL.NodupKeys r := by
      have : (k :: AL.keys r).Nodup := hn
      exact (List.nodup_cons.mp this).2
    by_cases hkc : k = c
    · subst hkc
      have hnone : AL.get k r = none := AL.get_none_iff.mpr hk
      have hdel : AL.del k ((k, v) :: r) = r := by
        have : AL.del k r = r := AL.del_eq_self hnone
        simp only [AL.del, List.filter_cons] at this ⊢
        simpa using this
      rw [hdel, holders_cons, AL.get_cons]
      simp
      omega
    · have hdel : AL.del c ((k, v) :: r) = (k, v) :: AL.del c r := by
        simp [AL.del, hkc]
      rw [hdel, holders_cons, holders_cons, AL.get_cons, ih hr]
      simp [hkc]
      omega

theorem holders_set (ix : List (String × List String)) (c : String) (ts : List String) (t : String) :
    holders (AL.set c ts ix) t = ind (t ∈ ts) + holders (AL.del c ix) t := by
  simp [AL.set, holders_cons]

theorem count_set (tp : List (String × Nat)) (t t' : String) (n : Nat) :
    (AL.get t' (AL.set t n tp)).getD 0 = if t' = t then n else (AL.get t' tp).getD 0 := by
  rw [AL.get_set]; split <;> simp

/-- `dec` on a topic whose counter is positive: minus one, everything else unchanged -/
theorem count_dec (tp : List (String × Nat)) (t t' : String) (hpos : 1 ≤ (AL.get t tp).getD 0) :
    (AL.get t' (dec tp t)).getD 0 = if t' = t then (AL.get t tp).getD 0 - 1 else (AL.get t' tp).getD 0 := by
  unfold dec
  cases hg : AL.get t tp with
  | none => simp [hg] at hpos
  | some n =>
    simp only [hg, Option.getD_some] at hpos ⊢
    by_cases hz : n - 1 = 0
    · simp only [beq_iff_eq, hz, if_true]
      rw [AL.get_del]
      split
      · simp
      · rfl
    · simp only [beq_iff_eq, hz, if_false]
      rw [count_set]

/-- well-formedness of the store -/
structure WF (l : LS) : Prop where
  nk  : AL.NodupKeys l.index
  cnt : ∀ t, l.count t = holders l.index t
  nd  : ∀ c ts, AL.get c l.index = some ts → ts.Nodup

theorem wf_empty : WF LS.empty := by
  refine ⟨AL.nodupKeys_nil, ?_, ?_⟩
  · intro t; simp [LS.empty, LS.count, holders]
  · intro c ts h; simp [LS.empty] at h

theorem clientTopics_nodup {l : LS} (h : WF l) (c : String) : (l.clientTopics c).Nodup := by
  simp only [LS.clientTopics]
  cases hq : AL.get c l.index with
  | none => simp
  | some v => simpa using h.nd c v hq

/-- `subscribe`: the store stays well formed, `c` holds `t` afterwards, and the result is `true` exactly on the 0→1 edge -/
theorem subscribe_spec {l : LS} (h : WF l) (c t : String) :
    WF (l.subscribe c t).1 ∧
    (∀ t', holders (l.subscribe c t).1.index t' = holders l.index t' + ind (t' = t ∧ t ∉ l.clientTopics c)) ∧
    ((l.subscribe c t).2 = true ↔ holders l.index t = 0) := by
  unfold LS.subscribe
  by_cases hc : t ∈ l.clientTopics c
  · have hc2 : (l.clientTopics c).contains t = true := by simpa using hc
    simp only [hc2, if_true]
    refine ⟨h, ?_, ?_⟩
    · intro t'; simp [ind, hc]
    · have := holders_split h.nk c t
      simp only [LS.clientTopics] at hc
      simp only [hc, ind, if_true] at this
      constructor
      · intro hf; simp at hf
      · intro hz; omega
  · have hc2 : (l.clientTopics c).contains t = false := by simpa using hc
    simp only [hc2, Bool.false_eq_true, if_false]
    have hhold : ∀ t', holders (AL.set c (l.clientTopics c ++ [t]) l.index) t' =
        holders l.index t' + ind (t' = t ∧ t ∉ l.clientTopics c) := by
      intro t'
      rw [holders_set, holders_split h.nk c t']
      have hc3 : t ∉ (AL.get c l.index).getD [] := hc
      by_cases ht : t' = t
      · subst ht; simp [hc, hc3, ind]; omega
      · simp [ht, ind, LS.clientTopics]; omega
    refine ⟨⟨AL.nodupKeys_set _ _ h.nk, ?_, ?_⟩, hhold, ?_⟩
    · intro t'
      show (AL.get t' (AL.set t (l.count t + 1) l.topics)).getD 0 = _
      rw [count_set, hhold t']
      by_cases ht : t' = t
      · subst ht; simp [hc, ind, ← h.cnt, LS.count]
      · simp [ht, ind, ← h.cnt, LS.count]
    · intro c' ts hg
      rw [AL.get_set] at hg
      by_cases hcc : c' = c
      · simp [hcc] at hg
        subst hg
        refine List.nodup_append.mpr ⟨clientTopics_nodup h c, by simp, ?_⟩
        intro a ha b hb
        simp at hb; subst hb
        intro e; subst e
        exact hc ha
      · simp [hcc] at hg
        exact h.nd c' ts hg
    · simp only [beq_iff_eq]
      rw [← h.cnt]
      omega
end GmqttVerif.Fed.LS
