import GmqttVerif.Model.Fed.LocalSubs
import GmqttVerif.Proofs.AList
/-
  `localSubStore` keeps exact reference counts (C16 `localSubs_refcount`).
  `holders ix t` = number of clients whose topic set contains `t` — the declarative meaning of `topics[t]`.
-/
namespace GmqttVerif.Fed.LS
open GmqttVerif

/-- number of clients indexed on `t` -/
def holders (ix : List (String × List String)) (t : String) : Nat :=
  (ix.filter (fun p => p.2.contains t)).length

def ind (p : Prop) [Decidable p] : Nat := if p then 1 else 0

theorem holders_cons (p : String × List String) (r : List (String × List String)) (t : String) :
    holders (p :: r) t = ind (t ∈ p.2) + holders r t := by
  simp only [holders, List.filter_cons, ind, List.contains_iff_mem]
  by_cases h : t ∈ p.2
  · simp [h]; omega
  · simp [h]

/-- splitting off one client (keys are unique) -/
theorem holders_split {ix : List (String × List String)} (hn : AL.NodupKeys ix) (c t : String) :
    holders ix t = holders (AL.del c ix) t + ind (t ∈ (AL.get c ix).getD []) := by
  induction ix with
  | nil => simp [holders, AL.del, AL.get, ind]
  | cons p r ih =>
    obtain ⟨k, v⟩ := p
    have hk : k ∉ AL.keys r := by
      have : (k :: AL.keys r).Nodup := hn
      exact (List.nodup_cons.mp this).1
    have hr : AL.NodupKeys r := by
      have : (k :: AL.keys r).Nodup := hn
      exact (List.nodup_cons.mp this).2
    by_cases hkc : k = c
    · subst hkc
      have hnone : AL.get k r = none := AL.get_none_iff.mpr hk
      have hdel : AL.del k ((k, v) :: r) = r := by
        have : AL.del k r = r := AL.del_eq_self hnone
        simp only [AL.del, List.filter_cons] at this ⊢
        simpa using this
      rw [hdel, holders_cons, AL.get_cons]
      simp
      omega
    · have hdel : AL.del c ((k, v) :: r) = (k, v) :: AL.del c r := by
        simp [AL.del, hkc]
      rw [hdel, holders_cons, holders_cons, AL.get_cons, ih hr]
      simp [hkc]
      omega

theorem holders_set (ix : List (String × List String)) (c : String) (ts : List String) (t : String) :
    holders (AL.set c ts ix) t = ind (t ∈ ts) + holders (AL.del c ix) t := by
  simp [AL.set, holders_cons]

theorem count_set (tp : List (String × Nat)) (t t' : String) (n : Nat) :
    (AL.get t' (AL.set t n tp)).getD 0 = if t' = t then n else (AL.get t' tp).getD 0 := by
  rw [AL.get_set]; split <;> simp

/-- `dec` on a topic whose counter is positive: minus one, everything else unchanged -/
theorem count_dec (tp : List (String × Nat)) (t t' : String) (hpos : 1 ≤ (AL.get t tp).getD 0) :
    (AL.get t' (dec tp t)).getD 0 = if t' = t then (AL.get t tp).getD 0 - 1 else (AL.get t' tp).getD 0 := by
  unfold dec
  cases hg : AL.get t tp with
  | none => simp [hg] at hpos
  | some n =>
    simp only [hg, Option.getD_some] at hpos ⊢
    by_cases hz : n - 1 = 0
    · simp only [beq_iff_eq, hz, if_true]
      rw [AL.get_del]
      split
      · simp
      · rfl
    · simp only [beq_iff_eq, hz, if_false]
      rw [count_set]

/-- well-formedness of the store -/
structure WF (l : LS) : Prop where
  nk  : AL.NodupKeys l.index
  cnt : ∀ t, l.count t = holders l.index t
  nd  : ∀ c ts, AL.get c l.index = some ts → ts.Nodup

theorem wf_empty : WF LS.empty := by
  refine ⟨AL.nodupKeys_nil, ?_, ?_⟩
  · intro t; simp [LS.empty, LS.count, holders]
  · intro c ts h; simp [LS.empty] at h

theorem clientTopics_nodup {l : LS} (h : WF l) (c : String) : (l.clientTopics c).Nodup := by
  simp only [LS.clientTopics]
  cases hq : AL.get c l.index with
  | none => simp
  | some v => simpa using h.nd c v hq

/-- `subscribe`: the store stays well formed, `c` holds `t` afterwards, and the result is `true` exactly on the 0→1 edge -/
theorem subscribe_spec {l : LS} (h : WF l) (c t : String) :
    WF (l.subscribe c t).1 ∧
    (∀ t', holders (l.subscribe c t).1.index t' = holders l.index t' + ind (t' = t ∧ t ∉ l.clientTopics c)) ∧
    ((l.subscribe c t).2 = true ↔ holders l.index t = 0) := by
  unfold LS.subscribe
  by_cases hc : t ∈ l.clientTopics c
  · have hc2 : (l.clientTopics c).contains t = true := by simpa using hc
    simp only [hc2, if_true]
    refine ⟨h, ?_, ?_⟩
    · intro t'; simp [ind, hc]
    · have := holders_split h.nk c t
      simp only [LS.clientTopics] at hc
      simp only [hc, ind, if_true] at this
      constructor
      · intro hf; simp at hf
      · intro hz; omega
  · have hc2 : (l.clientTopics c).contains t = false := by simpa using hc
    simp only [hc2, Bool.false_eq_true, if_false]
    have hhold : ∀ t', holders (AL.set c (l.clientTopics c ++ [t]) l.index) t' =
        holders l.index t' + ind (t' = t ∧ t ∉ l.clientTopics c) := by
      intro t'
      rw [holders_set, holders_split h.nk c t']
      have hc3 : t ∉ (AL.get c l.index).getD [] := hc
      by_cases ht : t' = t
      · subst ht; simp [hc, hc3, ind]; omega
      · simp [ht, ind, LS.clientTopics]; omega
    refine ⟨⟨AL.nodupKeys_set _ _ h.nk, ?_, ?_⟩, hhold, ?_⟩
    · intro t'
      show (AL.get t' (AL.set t (l.count t + 1) l.topics)).getD 0 = _
      rw [count_set, hhold t']
      by_cases ht : t' = t
      · subst ht; simp [hc, ind, ← h.cnt, LS.count]
      · simp [ht, ind, ← h.cnt, LS.count]
    · intro c' ts hg
      rw [AL.get_set] at hg
      by_cases hcc : c' = c
      · simp [hcc] at hg
        subst hg
        refine List.nodup_append.mpr ⟨clientTopics_nodup h c, by simp, ?_⟩
        intro a ha b hb
        simp at hb; subst hb
        intro e; subst e
        exact hc ha
      · simp [hcc] at hg
        exact h.nd c' ts hg
    · simp only [beq_iff_eq]
      rw [← h.cnt]
      omega

theorem holders_pos_of_mem {l : LS} (h : WF l) {c t : String} (hm : t ∈ l.clientTopics c) : 1 ≤ holders l.index t := by
  have := holders_split h.nk c t
  simp only [LS.clientTopics] at hm
  simp only [hm, ind, if_true] at this
  omega

/-- `unsubscribe`: well-formedness is kept, `c` no longer holds `t`, and the result is `true` exactly on the 1→0 edge -/
theorem unsubscribe_spec {l : LS} (h : WF l) (c t : String) :
    WF (l.unsubscribe c t).1 ∧
    (∀ t', holders l.index t' = holders (l.unsubscribe c t).1.index t' + ind (t' = t ∧ t ∈ l.clientTopics c)) ∧
    ((l.unsubscribe c t).2 = true ↔ (t ∈ l.clientTopics c ∧ holders l.index t = 1)) := by
  unfold LS.unsubscribe
  cases hg : AL.get c l.index with
  | none =>
    have hct : l.clientTopics c = [] := by simp [LS.clientTopics, hg]
    simp only [hct]
    refine ⟨h, ?_, ?_⟩
    · intro t'; simp [ind]
    · simp
  | some cur =>
    have hct : l.clientTopics c = cur := by simp [LS.clientTopics, hg]
    simp only [hct]
    by_cases hc : t ∈ cur
    · have hc2 : cur.contains t = true := by simpa using hc
      simp only [hc2, if_true]
      have hpos : 1 ≤ (AL.get t l.topics).getD 0 := by
        have := holders_pos_of_mem h (c := c) (t := t) (by rw [hct]; exact hc)
        have := h.cnt t
        simp only [LS.count] at this
        omega
      -- the index afterwards
      have hmemf : ∀ t', t' ∈ cur.filter (· != t) ↔ (t' ∈ cur ∧ t' ≠ t) := by
        intro t'; simp
      have hhold : ∀ t', holders l.index t' =
          holders (if (cur.filter (· != t)).isEmpty then AL.del c l.index else AL.set c (cur.filter (· != t)) l.index) t'
            + ind (t' = t ∧ t ∈ cur) := by
        intro t'
        rw [holders_split h.nk c t', hg]
        simp only [Option.getD_some]
        by_cases he : (cur.filter (· != t)).isEmpty = true
        · simp only [he, if_true]
          have hnil : cur.filter (· != t) = [] := by simpa using he
          have hiff : t' ∈ cur ↔ t' = t := by
            constructor
            · intro hm
              by_cases ht : t' = t
              · exact ht
              · have : t' ∈ cur.filter (· != t) := (hmemf t').mpr ⟨hm, ht⟩
                rw [hnil] at this; simp at this
            · intro e; subst e; exact hc
          simp [ind, hiff, hc]
        · simp only [he, Bool.false_eq_true, if_false]
          rw [holders_set]
          by_cases ht : t' = t
          · subst ht
            simp [ind, hc]
          · simp [ind, ht, hmemf]
            omega
      refine ⟨⟨?_, ?_, ?_⟩, hhold, ?_⟩
      · show AL.NodupKeys (if _ then _ else _)
        split
        · exact AL.nodupKeys_del _ h.nk
        · exact AL.nodupKeys_set _ _ h.nk
      · intro t'
        show (AL.get t' (dec l.topics t)).getD 0 = _
        rw [count_dec _ _ _ hpos]
        have h1 := hhold t'
        have h2 := h.cnt t'
        have h3 := h.cnt t
        simp only [LS.count] at h2 h3
        by_cases ht : t' = t
        · subst ht
          simp [ind, hc] at h1
          simp; omega
        · simp [ind, ht] at h1
          simp [ht]; omega
      · intro c' ts hg'
        by_cases he : (cur.filter (· != t)).isEmpty = true
        · simp only [he, if_true] at hg'
          rw [AL.get_del] at hg'
          by_cases hcc : c' = c
          · simp [hcc] at hg'
          · simp [hcc] at hg'; exact h.nd c' ts hg'
        · simp only [he, Bool.false_eq_true, if_false] at hg'
          rw [AL.get_set] at hg'
          by_cases hcc : c' = c
          · simp [hcc] at hg'
            subst hg'
            exact (h.nd c cur hg).filter _
          · simp [hcc] at hg'; exact h.nd c' ts hg'
      · show ((AL.get t (dec l.topics t)).getD 0 == 0) = true ↔ _
        rw [count_dec _ _ _ hpos]
        have h3 := h.cnt t
        simp only [LS.count] at h3
        simp [hc]
        omega
    · have hc2 : cur.contains t = false := by simpa using hc
      simp only [hc2, Bool.false_eq_true, if_false]
      refine ⟨h, ?_, ?_⟩
      · intro t'; simp [ind, hc]
      · simp [hc]

/-- the loop of `unsubscribeAll`: every listed topic (distinct, each with a positive counter) is decremented once; the
    topics reported are those whose counter was 1 -/
theorem decAll_spec (ts : List String) : ∀ (tp : List (String × Nat)), ts.Nodup →
    (∀ t ∈ ts, 1 ≤ (AL.get t tp).getD 0) →
    (∀ t', (AL.get t' (decAll tp ts).1).getD 0 = (AL.get t' tp).getD 0 - ind (t' ∈ ts)) ∧
    (decAll tp ts).2 = ts.filter (fun t => (AL.get t tp).getD 0 == 1) := by
  induction ts with
  | nil => intro tp _ _; simp [decAll, ind]
  | cons t ts ih =>
    intro tp hnd hpos
    have hnt : t ∉ ts := (List.nodup_cons.mp hnd).1
    have hnd' : ts.Nodup := (List.nodup_cons.mp hnd).2
    have hp : 1 ≤ (AL.get t tp).getD 0 := hpos t (by simp)
    have hdec := fun t' => count_dec tp t t' hp
    have hpos' : ∀ x ∈ ts, 1 ≤ (AL.get x (dec tp t)).getD 0 := by
      intro x hx
      have hxt : x ≠ t := fun e => hnt (e ▸ hx)
      rw [hdec x]; simp [hxt]
      exact hpos x (by simp [hx])
    obtain ⟨ih1, ih2⟩ := ih (dec tp t) hnd' hpos'
    have hfilter : ts.filter (fun x => (AL.get x (dec tp t)).getD 0 == 1) = ts.filter (fun x => (AL.get x tp).getD 0 == 1) := by
      apply List.filter_congr
      intro x hx
      have hxt : x ≠ t := fun e => hnt (e ▸ hx)
      rw [hdec x]; simp [hxt]
    constructor
    · intro t'
      have e : (decAll tp (t :: ts)).1 = (decAll (dec tp t) ts).1 := by
        simp only [decAll]; split <;> rfl
      rw [e, ih1 t', hdec t']
      by_cases ht : t' = t
      · subst ht; simp [ind, hnt]
      · simp [ind, ht]
    · simp only [decAll]
      rw [hdec t]
      simp only [if_true]
      by_cases h1 : (AL.get t tp).getD 0 = 1
      · simp [h1, ih2, hfilter]
      · have : ¬ (AL.get t tp).getD 0 - 1 = 0 := by omega
        simp [h1, this, ih2, hfilter]

/-- `unsubscribeAll`: the client is gone from the index, every counter it contributed to went down by one, and the topics
    returned are exactly those it was the last holder of -/
theorem unsubscribeAll_spec {l : LS} (h : WF l) (c : String) :
    WF (l.unsubscribeAll c).1 ∧
    (∀ t', holders l.index t' = holders (l.unsubscribeAll c).1.index t' + ind (t' ∈ l.clientTopics c)) ∧
    (∀ t, t ∈ (l.unsubscribeAll c).2 ↔ (t ∈ l.clientTopics c ∧ holders l.index t = 1)) ∧
    (l.unsubscribeAll c).2.Nodup ∧ (l.unsubscribeAll c).1.clientTopics c = [] := by
  have hnd := clientTopics_nodup h c
  have hpos : ∀ t ∈ l.clientTopics c, 1 ≤ (AL.get t l.topics).getD 0 := by
    intro t ht
    have h1 := holders_pos_of_mem h ht
    have h2 := h.cnt t
    simp only [LS.count] at h2
    omega
  obtain ⟨d1, d2⟩ := decAll_spec (l.clientTopics c) l.topics hnd hpos
  have hhold : ∀ t', holders l.index t' = holders (AL.del c l.index) t' + ind (t' ∈ l.clientTopics c) := by
    intro t'; exact holders_split h.nk c t'
  unfold LS.unsubscribeAll
  refine ⟨⟨AL.nodupKeys_del _ h.nk, ?_, ?_⟩, hhold, ?_, ?_, ?_⟩
  · intro t'
    show (AL.get t' (decAll l.topics (l.clientTopics c)).1).getD 0 = holders (AL.del c l.index) t'
    rw [d1 t']
    have h1 := hhold t'
    have h2 := h.cnt t'
    simp only [LS.count] at h2
    omega
  · intro c' ts hg
    have hg' : AL.get c' (AL.del c l.index) = some ts := hg
    rw [AL.get_del] at hg'
    by_cases hcc : c' = c
    · simp [hcc] at hg'
    · simp [hcc] at hg'; exact h.nd c' ts hg'
  · intro t
    show t ∈ (decAll l.topics (l.clientTopics c)).2 ↔ _
    rw [d2]
    have h2 := h.cnt t
    simp only [LS.count] at h2
    simp [h2]
  · show (decAll l.topics (l.clientTopics c)).2.Nodup
    rw [d2]; exact hnd.filter _
  · simp [LS.clientTopics, AL.get_del]

/-! ### histories -/

inductive Op
  | sub (c t : String)
  | unsub (c t : String)
  | term (c : String)
  deriving Repr

def stepOp (l : LS) : Op → LS
  | .sub c t => (l.subscribe c t).1
  | .unsub c t => (l.unsubscribe c t).1
  | .term c => (l.unsubscribeAll c).1

def run (l : LS) (ops : List Op) : LS := ops.foldl stepOp l

theorem wf_step {l : LS} (h : WF l) (op : Op) : WF (stepOp l op) := by
  cases op with
  | sub c t => exact (subscribe_spec h c t).1
  | unsub c t => exact (unsubscribe_spec h c t).1
  | term c => exact (unsubscribeAll_spec h c).1

theorem wf_run {l : LS} (h : WF l) (ops : List Op) : WF (run l ops) := by
  induction ops generalizing l with
  | nil => exact h
  | cons op ops ih => exact ih (wf_step h op)

theorem wf_init (subs : List (String × String)) : WF (LS.init subs) := by
  have : ∀ (l : LS), WF l → WF (subs.foldl (fun l p => (l.subscribe p.1 p.2).1) l) := by
    induction subs with
    | nil => intro l h; exact h
    | cons p ps ih => intro l h; exact ih _ (subscribe_spec h p.1 p.2).1
  exact this _ wf_empty

end GmqttVerif.Fed.LS
