import GmqttVerif.Model.Fed.Protocol
import GmqttVerif.Proofs.Fed.Queue
/-
  The inductive invariant of the federation event-stream protocol (`Model/Fed/Protocol.lean`) and its preservation by
  every environment step except `helloLost`.
-/
namespace GmqttVerif.Fed.Proto
open GmqttVerif.Fed GmqttVerif.Fed.EQ
variable {τ μ : Type} [DecidableEq τ]

/-! ### views -/

theorem mem_applyView (v : List τ) (b : PBody τ μ) (t : τ) :
    t ∈ applyView v b ↔ (b = .sub t ∨ (t ∈ v ∧ b ≠ .unsub t)) := by
  cases b with
  | sub x =>
    simp only [applyView]
    by_cases hx : x ∈ v
    · simp [hx]
      intro h; subst h; exact hx
    · simp [hx]
      constructor
      · rintro (h | h)
        · exact Or.inr h
        · exact Or.inl h.symm
      · rintro (h | h)
        · exact Or.inr h.symm
        · exact Or.inl h
  | unsub x =>
    simp [applyView]
    intro _
    constructor
    · intro h h2; exact h h2.symm
    · intro h h2; exact h h2.symm
  | msg m => simp [applyView]

theorem applyView_congr {v w : List τ} (h : ∀ t, t ∈ v ↔ t ∈ w) (b : PBody τ μ) (t : τ) :
    t ∈ applyView v b ↔ t ∈ applyView w b := by
  rw [mem_applyView, mem_applyView, h]

theorem view_append (l : List (PBody τ μ)) (b : PBody τ μ) : view (l ++ [b]) = applyView (view l) b := by
  simp [view, List.foldl_append]

theorem foldl_applyView_sub (acc : List τ) (ts : List τ) (t : τ) :
    t ∈ (ts.map (PBody.sub (μ := μ))).foldl applyView acc ↔ t ∈ acc ∨ t ∈ ts := by
  induction ts generalizing acc with
  | nil => simp
  | cons x xs ih =>
    simp only [List.map_cons, List.foldl_cons]
    rw [ih, mem_applyView]
    simp
    constructor
    · rintro ((h | h) | h)
      · exact Or.inr (Or.inl h.symm)
      · exact Or.inl h
      · exact Or.inr (Or.inr h)
    · rintro (h | h | h)
      · exact Or.inl (Or.inr h)
      · exact Or.inl (Or.inl h.symm)
      · exact Or.inr h

theorem foldl_applyView_msg (acc : List τ) (ms : List μ) :
    (ms.map (PBody.msg (τ := τ))).foldl applyView acc = acc := by
  induction ms generalizing acc with
  | nil => rfl
  | cons x xs ih => simp [applyView, ih]

/-- the events of a full resynchronisation describe exactly the local topic set -/
theorem view_syncBodies (topics : List τ) (retained : List μ) (t : τ) :
    t ∈ view (syncBodies topics retained) ↔ t ∈ topics := by
  simp only [view, syncBodies, List.foldl_append]
  rw [foldl_applyView_msg, foldl_applyView_sub]
  simp

theorem foldl_applyView_mono (mid : List (PBody τ μ)) : ∀ (v tps : List τ), (∀ t, t ∈ v → t ∈ tps) →
    ∀ t, t ∈ mid.foldl applyView v → t ∈ mid.foldl applyView tps := by
  induction mid with
  | nil => intro v tps h t ht; exact h t ht
  | cons b bs ih =>
    intro v tps h t ht
    simp only [List.foldl_cons] at ht ⊢
    refine ih (applyView v b) (applyView tps b) ?_ t ht
    intro x hx
    rw [mem_applyView] at hx ⊢
    rcases hx with hx | ⟨h1, h2⟩
    · exact Or.inl hx
    · exact Or.inr ⟨h x h1, h2⟩

/-- everything the events `mid` leave subscribed is in the topic set they were applied to -/
theorem view_sub_foldl (mid : List (PBody τ μ)) (tps : List τ) (t : τ) (h : t ∈ view mid) :
    t ∈ mid.foldl applyView tps :=
  foldl_applyView_mono mid [] tps (by simp) t h

/-- events queued in the window after `clear()` followed by the resynchronisation of the topic set as it is then -/
theorem view_mid_syncBodies (mid : List (PBody τ μ)) (tps : List τ) (retained : List μ) (t : τ) :
    t ∈ view (mid ++ syncBodies (mid.foldl applyView tps) retained) ↔ t ∈ mid.foldl applyView tps := by
  simp only [view, syncBodies, List.foldl_append]
  rw [foldl_applyView_msg, foldl_applyView_sub]
  constructor
  · rintro (h | h)
    · exact view_sub_foldl mid tps t h
    · exact h
  · intro h; exact Or.inr h

/-! ### the receiver's duplicate filter -/

theorem see_cases (ss : Sess) (id : Nat) :
    (id ∈ ss.seen.items ∧ ss.see id = (ss, true)) ∨
    (id ∉ ss.seen.items ∧ ∃ kept : List Nat, (∀ x ∈ kept, x ∈ ss.seen.items) ∧
      ss.see id = ({ ss with seen := { items := kept ++ [id], size := ss.seen.size } }, false)) := by
  by_cases h : id ∈ ss.seen.items
  · left
    refine ⟨h, ?_⟩
    simp [Sess.see, LRU.set, h]
  · right
    refine ⟨h, if ss.seen.size == ss.seen.items.length then ss.seen.items.drop 1 else ss.seen.items, ?_, ?_⟩
    · intro x hx
      split at hx
      · exact List.mem_of_mem_drop hx
      · exact hx
    · simp [Sess.see, LRU.set, h]

/-! ### queue: several adds -/

omit [DecidableEq τ] in
theorem qdec_addAll {q : EQ (PBody τ μ)} {hist : List (PBody τ μ)} (h : QDec q hist) (bs : List (PBody τ μ)) :
    QDec (addAll q bs) (hist ++ bs) ∧ (addAll q bs).done = q.done ∧
    (addAll q bs).rest = q.rest ++ tagged hist.length bs := by
  induction bs generalizing q hist with
  | nil => simpa [addAll] using h
  | cons b bs ih =>
    have h1 := qdec_add h b
    have h2 := ih h1.1
    have e : addAll q (b :: bs) = addAll (q.add b).1 bs := by simp [addAll]
    rw [e]
    refine ⟨by simpa using h2.1, by rw [h2.2.1, h1.2.1], ?_⟩
    rw [h2.2.2, h1.2.2.1]
    simp

omit [DecidableEq τ] in
theorem qdec_rest_le {q : EQ (PBody τ μ)} {hist : List (PBody τ μ)} (h : QDec q hist) :
    q.done.length + q.rest.length ≤ hist.length := by
  obtain ⟨_, _, pre, dl, rl, hh, hd, hr⟩ := h
  simp [hh, hd, hr]

/-! ### the invariant (protocol with the fixes of 086aedd: `fixed = true`) -/

/-- facts that hold while R's session is the one S's queue belongs to (`ss` = R's session, `ackFloor ≤ ss.next`) -/
structure AInv (st : St τ μ) (ss : Sess) : Prop where
  /-- applied = a prefix of what S emitted in this epoch, in emission order -/
  pref   : st.r.applied <+: st.s.hist
  /-- number applied = nextEventID, or one more when the last ack could not be sent (then that id is in the LRU) -/
  m      : st.r.applied.length = ss.next ∨ (st.r.applied.length = ss.next + 1 ∧ ss.next ∈ ss.seen.items)
  seenlt : ∀ i ∈ ss.seen.items, i < st.r.applied.length
  /-- nextEventID ≤ id under the send cursor -/
  nextr  : ss.next + st.s.q.rest.length ≤ st.s.hist.length
  /-- the event buffer is the consecutive segment [nextEventID, cursor) -/
  up     : st.c.isOpen = true → ∃ hpre ul, st.c.up = tagged ss.next ul ∧ hpre.length = ss.next ∧
             st.s.hist = hpre ++ ul ++ st.s.q.rest.map (·.body)
  down   : ∀ i ∈ st.c.down, i < ss.next
  subs   : st.r.subs = view st.r.applied

/-- R's session was re-created by a Hello whose answer S never saw: it is empty, and the stream is down -/
structure Stale (st : St τ μ) (ss : Sess) : Prop where
  next0  : ss.next = 0
  seen0  : ss.seen.items = []
  app0   : st.r.applied = []
  subs0  : st.r.subs = []
  closed : st.c.isOpen = false

structure Inv (st : St τ μ) : Prop where
  qdec     : QDec st.s.q st.s.hist
  /-- first id still queued ≤ ackFloor -/
  floorq   : st.s.hist.length ≤ st.s.ackFloor + st.s.q.done.length + st.s.q.rest.length
  /-- acks in flight are ascending and not below ackFloor -/
  downasc  : st.c.down.Pairwise (· < ·) ∧ ∀ i ∈ st.c.down, st.s.ackFloor ≤ i
  /-- once a clean start has been completed, the history describes the local topic set -/
  topics   : st.s.synced = true → ∀ t, t ∈ view st.s.hist ↔ t ∈ st.s.topics
  sidle    : ∀ ss, st.r.sess = some ss → ss.id ≤ st.s.sid
  unsynced : st.s.synced = false → ∀ ss, st.r.sess = some ss → ss.id < st.s.sid
  openal   : st.c.isOpen = true → st.s.q.closed = false ∧ InSession st
  closedc  : st.c.isOpen = false → st.c.up = [] ∧ st.c.down = []
  al       : ∀ ss, st.r.sess = some ss → ss.id = st.s.sid →
               (st.s.ackFloor ≤ ss.next → AInv st ss) ∧ (ss.next < st.s.ackFloor → Stale st ss)

theorem inv_init (topics : List τ) (retained : List μ) : Inv (init topics retained) := by
  refine ⟨qdec_empty, ?_, ?_, ?_, ?_, ?_, ?_, ?_, ?_⟩ <;> simp [init, EQ.empty]

omit [DecidableEq τ] in
theorem sess_unique {st : St τ μ} {ss ss' : Sess} (h : st.r.sess = some ss) (h' : st.r.sess = some ss') : ss' = ss :=
  Option.some.inj (h'.symm.trans h)

/-- an aligned state has completed a clean start -/
theorem Inv.synced_of_aligned {st : St τ μ} (hi : Inv st) {ss : Sess} (hs : st.r.sess = some ss) (hid : ss.id = st.s.sid) :
    st.s.synced = true := by
  cases h : st.s.synced with
  | true => rfl
  | false => have := hi.unsynced h ss hs; omega

/-! ### preservation, one lemma per environment step -/

theorem inv_emit {cap : Nat} {st st' : St τ μ} (b : PBody τ μ) (hi : Inv st) (hs : step true cap st (.emit b) = some st') : Inv st' := by
  simp only [step, Option.some.injEq] at hs
  subst hs
  have ha := qdec_add hi.qdec b
  refine ⟨ha.1, ?_, hi.downasc, ?_, hi.sidle, hi.unsynced, ?_, hi.closedc, ?_⟩
  · have := hi.floorq
    simp only [ha.2.1, ha.2.2.1, List.length_append, List.length_cons, List.length_nil] at *
    omega
  · intro hsy t
    show t ∈ view (st.s.hist ++ [b]) ↔ t ∈ applyView st.s.topics b
    rw [view_append]
    exact applyView_congr (hi.topics hsy) b t
  · intro ho
    have := hi.openal ho
    exact ⟨by simpa [ha.2.2.2] using this.1, this.2⟩
  · intro ss hss hid
    have hal := hi.al ss hss hid
    refine ⟨fun hf => ?_, fun hf => ?_⟩
    · have a := hal.1 hf
      refine ⟨?_, a.m, a.seenlt, ?_, ?_, a.down, a.subs⟩
      · exact List.IsPrefix.trans a.pref (List.prefix_append _ _)
      · have := a.nextr
        simp only [ha.2.2.1, List.length_append, List.length_cons, List.length_nil] at *
        omega
      · intro ho
        obtain ⟨hpre, ul, h1, h2, h3⟩ := a.up ho
        refine ⟨hpre, ul, h1, h2, ?_⟩
        simp only [ha.2.2.1, List.map_append, List.map_cons, List.map_nil]
        show st.s.hist ++ [b] = _
        rw [h3]; simp
    · have s := hal.2 hf
      exact ⟨s.next0, s.seen0, s.app0, s.subs0, s.closed⟩

theorem inv_setRetained {cap : Nat} {st st' : St τ μ} (ms : List μ) (hi : Inv st) (hs : step true cap st (.setRetained ms) = some st') : Inv st' := by
  simp only [step, Option.some.injEq] at hs
  subst hs
  exact ⟨hi.qdec, hi.floorq, hi.downasc, hi.topics, hi.sidle, hi.unsynced, hi.openal, hi.closedc, fun ss h1 h2 => by
    have hal := hi.al ss h1 h2
    exact ⟨fun hf => by
      have a := hal.1 hf
      exact ⟨a.pref, a.m, a.seenlt, a.nextr, a.up, a.down, a.subs⟩, fun hf => by
      have s := hal.2 hf
      exact ⟨s.next0, s.seen0, s.app0, s.subs0, s.closed⟩⟩⟩

theorem inv_brk {cap : Nat} {st st' : St τ μ} (hi : Inv st) (hs : step true cap st .brk = some st') : Inv st' := by
  simp only [step, Option.some.injEq] at hs
  subst hs
  refine ⟨qdec_close hi.qdec, hi.floorq, by simp [Chan.broken], hi.topics, hi.sidle, hi.unsynced, ?_, ?_, ?_⟩
  · intro ho; simp [Chan.broken] at ho
  · intro _; simp [Chan.broken]
  · intro ss hss hid
    have hal := hi.al ss hss hid
    refine ⟨fun hf => ?_, fun hf => ?_⟩
    · have a := hal.1 hf
      refine ⟨a.pref, a.m, a.seenlt, a.nextr, ?_, ?_, a.subs⟩
      · intro ho; simp [Chan.broken] at ho
      · intro i hi'; simp [Chan.broken] at hi'
    · have s := hal.2 hf
      exact ⟨s.next0, s.seen0, s.app0, s.subs0, rfl⟩

theorem inv_peerRestart {cap : Nat} {st st' : St τ μ} (hi : Inv st) (hs : step true cap st .peerRestart = some st') : Inv st' := by
  simp only [step, Option.some.injEq] at hs
  subst hs
  refine ⟨qdec_close hi.qdec, hi.floorq, by simp [Chan.broken], hi.topics, ?_, ?_, ?_, ?_, ?_⟩
  · intro ss h; simp at h
  · intro _ ss h; simp at h
  · intro ho; simp [Chan.broken] at ho
  · intro _; simp [Chan.broken]
  · intro ss h; simp at h

theorem inv_senderRestart {cap : Nat} {st st' : St τ μ} (ts : List τ) (ms : List μ) (hi : Inv st)
    (hs : step true cap st (.senderRestart ts ms) = some st') : Inv st' := by
  simp only [step, Option.some.injEq] at hs
  subst hs
  refine ⟨qdec_empty, by simp [EQ.empty], by simp [Chan.broken], by simp, ?_, ?_, ?_, ?_, ?_⟩
  · intro ss h
    have := hi.sidle ss h
    show ss.id ≤ st.s.sid + 1
    omega
  · intro _ ss h
    have := hi.sidle ss h
    show ss.id < st.s.sid + 1
    omega
  · intro ho; simp [Chan.broken] at ho
  · intro _; simp [Chan.broken]
  · intro ss h hid
    have := hi.sidle ss h
    have hid' : ss.id = st.s.sid + 1 := hid
    omega

theorem inv_deliverAck {cap : Nat} {st st' : St τ μ} (hi : Inv st) (hs : step true cap st .deliverAck = some st') : Inv st' := by
  simp only [step] at hs
  by_cases ho : st.c.isOpen = true
  · rw [if_pos ho] at hs
    cases hd : st.c.down with
    | nil => simp [hd] at hs
    | cons id down' =>
      simp only [hd, Option.some.injEq] at hs
      subst hs
      obtain ⟨hcl, ss, hss, hid, hfl⟩ := hi.openal ho
      have a := (hi.al ss hss hid).1 hfl
      have hlt : id < ss.next := a.down id (by simp [hd])
      have hge : st.s.ackFloor ≤ id := hi.downasc.2 id (by simp [hd])
      have hq := qdec_ack hi.qdec id (by have := a.nextr; omega)
      have hpw := hi.downasc.1
      rw [hd, List.pairwise_cons] at hpw
      refine ⟨hq.1, ?_, ?_, hi.topics, hi.sidle, hi.unsynced, ?_, ?_, ?_⟩
      · exact hq.2.2.2 (id + 1) (by have := hi.floorq; omega) (Nat.le_refl _)
      · refine ⟨hpw.2, ?_⟩
        intro i hi'
        have := hpw.1 i hi'
        show id + 1 ≤ i
        omega
      · intro _
        exact ⟨by simpa [hq.2.2.1] using hcl, ss, hss, hid, by show id + 1 ≤ ss.next; omega⟩
      · intro hc; simp [ho] at hc
      · intro ss' hss' hid'
        have e := sess_unique hss hss'
        subst e
        refine ⟨fun _ => ⟨a.pref, a.m, a.seenlt, ?_, ?_, ?_, a.subs⟩, fun hf => ?_⟩
        · simpa [hq.2.1] using a.nextr
        · intro ho'
          obtain ⟨hpre, ul, h1, h2, h3⟩ := a.up ho
          exact ⟨hpre, ul, h1, h2, by simpa [hq.2.1] using h3⟩
        · intro i hi'
          exact a.down i (by simp [hd]; exact Or.inr hi')
        · have hf' : ss'.next < id + 1 := hf
          omega
  · simp [ho] at hs

theorem inv_fetchSend {cap : Nat} {st st' : St τ μ} (hi : Inv st) (hs : step true cap st .fetchSend = some st') : Inv st' := by
  simp only [step] at hs
  by_cases ho : st.c.isOpen = true
  · rw [if_pos ho] at hs
    cases hf : st.s.q.fetch with
    | mk q' res =>
      cases res with
      | blocked => simp [hf] at hs
      | closed => simp [hf] at hs
      | ok evs =>
        simp only [hf, Option.some.injEq] at hs
        subst hs
        obtain ⟨hcl, ss, hss, hid, hfl⟩ := hi.openal ho
        have a := (hi.al ss hss hid).1 hfl
        obtain ⟨hq, hevs, hrest, hdone, hne, hclosed⟩ := qdec_fetch hi.qdec hf
        refine ⟨hq, ?_, hi.downasc, hi.topics, hi.sidle, hi.unsynced, ?_, ?_, ?_⟩
        · have := hi.floorq
          simp only [hdone, hrest, hevs, List.length_append, List.length_take, List.length_drop]
          omega
        · intro _; exact ⟨by simpa [hclosed] using hcl, ss, hss, hid, hfl⟩
        · intro hc; simp [ho] at hc
        · intro ss' hss' hid'
          have e := sess_unique hss hss'
          subst e
          refine ⟨fun _ => ⟨a.pref, a.m, a.seenlt, ?_, ?_, a.down, a.subs⟩, fun hf' => ?_⟩
          · have := a.nextr
            simp only [hrest, List.length_drop]
            omega
          · intro _
            obtain ⟨hpre, ul, h1, h2, h3⟩ := a.up ho
            obtain ⟨_, _, pre, dl, rl, hh, hd, hr⟩ := hi.qdec
            have hrl : st.s.q.rest.map (·.body) = rl := by rw [hr]; simp
            have hlen : pre.length + dl.length = ss'.next + ul.length := by
              have e1 : st.s.hist.length = pre.length + dl.length + rl.length := by simp [hh, Nat.add_assoc]
              have e2 : st.s.hist.length = hpre.length + ul.length + rl.length := by
                rw [h3, hrl]; simp [Nat.add_assoc]
              omega
            refine ⟨hpre, ul ++ rl.take 100, ?_, h2, ?_⟩
            · show st.c.up ++ evs = _
              rw [h1, hevs, hr, tagged_take, tagged_append, hlen]
            · show st.s.hist = hpre ++ (ul ++ rl.take 100) ++ q'.rest.map (·.body)
              rw [hrest, hr, tagged_drop]
              simp only [tagged_map_body]
              rw [h3, hrl]
              simp
          · have hf'' : ss'.next < st.s.ackFloor := hf'
            omega
  · simp [ho] at hs

@[simp] theorem applyR_subs (r : Receiver τ μ) (b : PBody τ μ) : (applyR r b).subs = applyView r.subs b := by
  cases b <;> rfl
@[simp] theorem applyR_applied (r : Receiver τ μ) (b : PBody τ μ) : (applyR r b).applied = r.applied ++ [b] := by
  cases b <;> rfl
@[simp] theorem applyR_sess (r : Receiver τ μ) (b : PBody τ μ) : (applyR r b).sess = r.sess := by
  cases b <;> rfl

omit [DecidableEq τ] in
theorem prefix_snoc_of_split {applied hist hpre rest : List (PBody τ μ)} {b : PBody τ μ}
    (hp : applied <+: hist) (hh : hist = hpre ++ b :: rest) (hl : applied.length = hpre.length) :
    applied ++ [b] <+: hist := by
  have h2 : hpre <+: hist := by rw [hh]; exact List.prefix_append _ _
  have h3 : applied <+: hpre := List.prefix_of_prefix_length_le hp h2 (by omega)
  have h4 : applied = hpre := h3.eq_of_length hl
  subst h4
  rw [hh]
  exact ⟨rest, by simp⟩

/-- what `AInv.up` says when the buffer is non-empty -/
theorem up_head {st : St τ μ} {ss : Sess} (a : AInv st ss) (ho : st.c.isOpen = true)
    {e : Event (PBody τ μ)} {up' : List (Event (PBody τ μ))} (hu : st.c.up = e :: up') :
    ∃ hpre b ul', e = { id := ss.next, body := b } ∧ up' = tagged (ss.next + 1) ul' ∧ hpre.length = ss.next ∧
      st.s.hist = hpre ++ b :: (ul' ++ st.s.q.rest.map (·.body)) := by
  obtain ⟨hpre, ul, h1, h2, h3⟩ := a.up ho
  rw [hu] at h1
  cases ul with
  | nil => simp at h1
  | cons b ul' =>
    simp at h1
    exact ⟨hpre, b, ul', h1.1, h1.2, h2, by rw [h3]; simp⟩

theorem inv_deliver {cap : Nat} {st st' : St τ μ} (ok : Bool) (hi : Inv st) (hs : step true cap st (.deliver ok) = some st') : Inv st' := by
  simp only [step] at hs
  by_cases ho : st.c.isOpen = true
  · rw [if_pos ho] at hs
    cases hu : st.c.up with
    | nil => simp [hu] at hs
    | cons e up' =>
      cases hse : st.r.sess with
      | none => simp [hu, hse] at hs
      | some ss =>
        obtain ⟨hcl, ss0, hss0, hid, hfl⟩ := hi.openal ho
        have e0 := sess_unique hse hss0
        subst e0
        have a := (hi.al ss0 hse hid).1 hfl
        obtain ⟨hpre, b, ul', he, hup', hlen, hh⟩ := up_head a ho hu
        subst he
        have hhl : st.s.hist.length = ss0.next + 1 + ul'.length + st.s.q.rest.length := by
          rw [hh]; simp; omega
        have hdn : ∀ i ∈ st.c.down, i < ss0.next := a.down
        simp only [hu, hse] at hs
        rcases see_cases ss0 ss0.next with ⟨hmem, hsee⟩ | ⟨hnm, kept, hk, hsee⟩
        · -- duplicate: acknowledged, not applied
          have hm : st.r.applied.length = ss0.next + 1 := by
            have h1 := a.seenlt ss0.next hmem
            rcases a.m with h | h
            · omega
            · exact h.1
          simp only [hsee, if_true] at hs
          cases ok with
          | true =>
            simp only [if_true, Option.some.injEq] at hs
            subst hs
            refine ⟨hi.qdec, hi.floorq, ?_, hi.topics, ?_, ?_, ?_, ?_, ?_⟩
            · refine ⟨List.pairwise_append.mpr ⟨hi.downasc.1, by simp, ?_⟩, ?_⟩
              · intro x hx y hy; simp at hy; subst hy; exact hdn x hx
              · intro i hi'
                simp at hi'
                rcases hi' with h | h
                · exact hi.downasc.2 i h
                · subst h; exact hfl
            · intro ss' h; simp at h; subst h; exact hi.sidle ss0 hse
            · intro hsy ss' h; simp at h; subst h; exact hi.unsynced hsy ss0 hse
            · intro _
              exact ⟨hcl, ss0.acked ss0.next, rfl, hid, by simp [Sess.acked]; omega⟩
            · intro hc; simp [ho] at hc
            · intro ss' h hid'
              simp at h; subst h
              refine ⟨fun _ => ⟨a.pref, Or.inl ?_, a.seenlt, ?_, ?_, ?_, a.subs⟩, fun hf => ?_⟩
              · simp [Sess.acked, hm]
              · simp [Sess.acked]; omega
              · intro _
                refine ⟨hpre ++ [b], ul', ?_, ?_, ?_⟩
                · simp [Sess.acked, hup']
                · simp [Sess.acked, hlen]
                · rw [hh]; simp
              · intro i hi'
                simp at hi'
                simp [Sess.acked]
                rcases hi' with h | h
                · have := hdn i h; omega
                · omega
              · have hf' : ss0.next + 1 < st.s.ackFloor := hf
                omega
          | false =>
            simp only [Bool.false_eq_true, if_false, Option.some.injEq] at hs
            subst hs
            refine ⟨qdec_close hi.qdec, hi.floorq, by simp [Chan.broken], hi.topics, ?_, ?_, ?_, ?_, ?_⟩
            · intro ss' h; simp at h; subst h; exact hi.sidle ss0 hse
            · intro hsy ss' h; simp at h; subst h; exact hi.unsynced hsy ss0 hse
            · intro hc; simp [Chan.broken] at hc
            · intro _; simp [Chan.broken]
            · intro ss' h hid'
              simp at h; subst h
              refine ⟨fun _ => ⟨a.pref, a.m, a.seenlt, a.nextr, ?_, ?_, a.subs⟩, fun hf => ?_⟩
              · intro hc; simp [Chan.broken] at hc
              · intro i hi'; simp [Chan.broken] at hi'
              · have hf' : ss0.next < st.s.ackFloor := hf
                omega
        · -- new event: applied once
          have hm : st.r.applied.length = ss0.next := by
            rcases a.m with h | h
            · exact h
            · exact absurd h.2 hnm
          have hpref : st.r.applied ++ [b] <+: st.s.hist := prefix_snoc_of_split a.pref hh (by omega)
          simp only [hsee, Bool.false_eq_true, if_false] at hs
          cases ok with
          | true =>
            simp only [if_true, Option.some.injEq] at hs
            subst hs
            refine ⟨hi.qdec, hi.floorq, ?_, hi.topics, ?_, ?_, ?_, ?_, ?_⟩
            · refine ⟨List.pairwise_append.mpr ⟨hi.downasc.1, by simp, ?_⟩, ?_⟩
              · intro x hx y hy; simp at hy; subst hy; exact hdn x hx
              · intro i hi'
                simp at hi'
                rcases hi' with h | h
                · exact hi.downasc.2 i h
                · subst h; exact hfl
            · intro ss' h; simp at h; subst h; exact hi.sidle ss0 hse
            · intro hsy ss' h; simp at h; subst h; exact hi.unsynced hsy ss0 hse
            · intro _
              refine ⟨hcl, _, rfl, ?_, ?_⟩
              · exact hid
              · simp [Sess.acked]; omega
            · intro hc; simp [ho] at hc
            · intro ss' h hid'
              simp at h; subst h
              refine ⟨fun _ => ⟨?_, Or.inl ?_, ?_, ?_, ?_, ?_, ?_⟩, fun hf => ?_⟩
              · simpa using hpref
              · simp [Sess.acked, hm]
              · intro i hi'
                simp [Sess.acked] at hi'
                simp
                rcases hi' with h | h
                · have := a.seenlt i (hk i h); omega
                · omega
              · simp [Sess.acked]; omega
              · intro _
                refine ⟨hpre ++ [b], ul', ?_, ?_, ?_⟩
                · simp [Sess.acked, hup']
                · simp [Sess.acked, hlen]
                · rw [hh]; simp
              · intro i hi'
                simp at hi'
                simp [Sess.acked]
                rcases hi' with h | h
                · have := hdn i h; omega
                · omega
              · simp [view_append, a.subs]
              · have hf' : ss0.next + 1 < st.s.ackFloor := hf
                omega
          | false =>
            simp only [Bool.false_eq_true, if_false, Option.some.injEq] at hs
            subst hs
            refine ⟨qdec_close hi.qdec, hi.floorq, by simp [Chan.broken], hi.topics, ?_, ?_, ?_, ?_, ?_⟩
            · intro ss' h; simp at h; subst h; exact hi.sidle ss0 hse
            · intro hsy ss' h; simp at h; subst h; exact hi.unsynced hsy ss0 hse
            · intro hc; simp [Chan.broken] at hc
            · intro _; simp [Chan.broken]
            · intro ss' h hid'
              simp at h; subst h
              refine ⟨fun _ => ⟨?_, Or.inr ⟨?_, ?_⟩, ?_, a.nextr, ?_, ?_, ?_⟩, fun hf => ?_⟩
              · simpa using hpref
              · simp [hm]
              · simp
              · intro i hi'
                simp at hi'
                simp
                rcases hi' with h | h
                · have := a.seenlt i (hk i h); omega
                · omega
              · intro hc; simp [Chan.broken] at hc
              · intro i hi'; simp [Chan.broken] at hi'
              · simp [view_append, a.subs]
              · have hf' : ss0.next < st.s.ackFloor := hf
                omega
  · simp [ho] at hs

omit [DecidableEq τ] in
theorem helloR_cases (cap : Nat) (r : Receiver τ μ) (sid : Nat) :
    (∃ ss, r.sess = some ss ∧ ss.id = sid ∧ helloR cap r sid = (r, false, ss.next)) ∨
    ((∀ ss, r.sess = some ss → ss.id ≠ sid) ∧
      helloR cap r sid = ({ r with sess := some { id := sid, next := 0, seen := { items := [], size := cap } }, subs := [], applied := [] }, true, 0)) := by
  cases hs : r.sess with
  | none => right; simp [helloR, hs]
  | some ss =>
    by_cases h : ss.id = sid
    · left; exact ⟨ss, rfl, h, by simp [helloR, hs, h]⟩
    · right
      refine ⟨?_, by simp [helloR, hs, h]⟩
      intro ss' h'; simp at h'; subst h'; exact h

omit [DecidableEq τ] in
theorem setpos_zero_front {q : EQ (PBody τ μ)} {bs : List (PBody τ μ)} (hq : QDec q bs) (hd : q.done = [])
    (hr : q.rest = tagged 0 bs) : q.setReadPosition 0 = q := by
  cases bs with
  | nil => simpa using qdec_setpos_end hq
  | cons b bs =>
    have hdg := hq.1
    unfold EQ.setReadPosition
    simp only [EQ.items, hd, hr, List.nil_append, tagged_cons, splitAtId]
    cases q
    simp_all

/-- the sender after a clean start: queue cleared, the events of the window, one event per local topic and retained message,
    cursor at the front, `synced`, `ackFloor = 0` -/
theorem helloS_clean (s : Sender τ μ) (mid : List (PBody τ μ)) :
    let s' := helloS s true 0 mid
    s'.hist = mid ++ syncBodies (mid.foldl applyView s.topics) s.retained ∧ QDec s'.q s'.hist ∧ s'.q.done = [] ∧
    s'.q.rest = tagged 0 s'.hist ∧ s'.sid = s.sid ∧ s'.topics = mid.foldl applyView s.topics ∧ s'.synced = true ∧
    s'.ackFloor = 0 := by
  intro s'
  generalize hbs : mid ++ syncBodies (mid.foldl applyView s.topics) s.retained = bs
  have h0 : QDec (addAll s.q.clear bs) ([] ++ bs) ∧ _ := qdec_addAll (q := s.q.clear) (hist := []) qdec_empty bs
  obtain ⟨hq, hdone, hrest⟩ := h0
  simp only [List.nil_append] at hq
  have hdone' : (addAll s.q.clear bs).done = [] := by rw [hdone]; rfl
  have hrest' : (addAll s.q.clear bs).rest = tagged 0 bs := by
    rw [hrest]; simp [EQ.clear, EQ.empty]
  have hq' := setpos_zero_front hq hdone' hrest'
  have e : s' = { s with q := addAll s.q.clear bs, hist := bs, topics := mid.foldl applyView s.topics,
                         synced := true, ackFloor := 0 } := by
    show helloS s true 0 mid = _
    simp only [helloS, if_true, hbs, hq']
  rw [e]
  exact ⟨rfl, hq, hdone', hrest', rfl, rfl, rfl, rfl⟩

/-- after S has done a clean start against an EMPTY session of R carrying S's id, the invariant holds (stream up or not) -/
theorem inv_after_clean {st : St τ μ} (r' : Receiver τ μ) (ss : Sess) (o : Bool) (mid : List (PBody τ μ))
    (hr : r'.sess = some ss) (hid : ss.id = st.s.sid) (hn : ss.next = 0) (hseen : ss.seen.items = [])
    (happ : r'.applied = []) (hsubs : r'.subs = []) :
    Inv ({ s := { helloS st.s true 0 mid with q := if o then (helloS st.s true 0 mid).q.open else (helloS st.s true 0 mid).q }
           r := r', c := { up := [], down := [], isOpen := o } } : St τ μ) := by
  obtain ⟨hh, hq, hdone, hrest, hsid, htop, hsy, haf⟩ := helloS_clean st.s mid
  generalize helloS st.s true 0 mid = s' at hh hq hdone hrest hsid htop hsy haf
  have hqo : ∀ q' : EQ (PBody τ μ), (q' = s'.q.open ∨ q' = s'.q) →
      QDec q' s'.hist ∧ q'.rest = s'.q.rest ∧ q'.done = s'.q.done ∧ (q' = s'.q.open → q'.closed = false) := by
    rintro q' (h | h) <;> subst h
    · exact ⟨hq, rfl, rfl, fun _ => rfl⟩
    · exact ⟨hq, rfl, rfl, fun e => by rw [e]; rfl⟩
  have hsel := hqo (if o then s'.q.open else s'.q) (by cases o <;> simp)
  have hss : ∀ ss', r'.sess = some ss' → ss' = ss := fun ss' h => Option.some.inj (h.symm.trans hr)
  refine ⟨hsel.1, ?_, by simp, ?_, ?_, ?_, ?_, ?_, ?_⟩
  · show s'.hist.length ≤ s'.ackFloor + _ + _
    rw [hsel.2.1, hsel.2.2.1, hdone, hrest, haf]; simp
  · intro _ t
    show t ∈ view s'.hist ↔ t ∈ s'.topics
    rw [hh, htop]
    exact view_mid_syncBodies _ _ _ t
  · intro ss' h; rw [hss ss' h]; show ss.id ≤ s'.sid; omega
  · intro hns; exact absurd hsy (by show ¬ s'.synced = true; rw [hns]; simp)
  · intro ho
    simp at ho; subst ho
    exact ⟨rfl, ss, hr, by show ss.id = s'.sid; omega, by show s'.ackFloor ≤ ss.next; omega⟩
  · intro _; exact ⟨rfl, rfl⟩
  · intro ss' h _
    rw [hss ss' h]
    refine ⟨fun _ => ⟨?_, Or.inl ?_, ?_, ?_, ?_, ?_, ?_⟩, fun hf => ?_⟩
    · show r'.applied <+: s'.hist
      rw [happ]; exact List.nil_prefix
    · show r'.applied.length = ss.next
      rw [happ, hn]; rfl
    · intro i hi'; rw [hseen] at hi'; simp at hi'
    · show ss.next + _ ≤ s'.hist.length
      rw [hsel.2.1, hrest, hn]; simp
    · intro _
      refine ⟨[], [], by rw [hn]; rfl, by rw [hn]; rfl, ?_⟩
      show s'.hist = _
      rw [hsel.2.1, hrest]; simp
    · intro i hi'; simp at hi'
    · show r'.subs = view r'.applied
      rw [hsubs, happ]; rfl
    · have : ss.next < s'.ackFloor := hf
      omega

/-- resuming an intact session at `nextEventID` -/
theorem inv_resume {st : St τ μ} (hi : Inv st) (ss : Sess) (o : Bool) (hss : st.r.sess = some ss) (hid : ss.id = st.s.sid)
    (hfl : st.s.ackFloor ≤ ss.next) :
    Inv ({ s := { st.s with q := if o then (st.s.q.setReadPosition ss.next).open else st.s.q.setReadPosition ss.next }
           r := st.r, c := { up := [], down := [], isOpen := o } } : St τ μ) := by
  have a := (hi.al ss hss hid).1 hfl
  have hfront : st.s.hist.length ≤ ss.next + st.s.q.done.length + st.s.q.rest.length := by
    have := hi.floorq; omega
  have hq : QDec (st.s.q.setReadPosition ss.next) st.s.hist ∧
      (st.s.q.setReadPosition ss.next).rest.length = st.s.hist.length - ss.next ∧
      (st.s.q.setReadPosition ss.next).done.length + (st.s.q.setReadPosition ss.next).rest.length
        = st.s.q.done.length + st.s.q.rest.length := by
    by_cases hk : ss.next < st.s.hist.length
    · have := qdec_setpos_mid hi.qdec ss.next hfront hk
      exact ⟨this.1, this.2.1, this.2.2.1⟩
    · have hn : ss.next = st.s.hist.length := by have := a.nextr; omega
      have := qdec_setpos_end hi.qdec
      rw [hn, this]
      refine ⟨hi.qdec, ?_, rfl⟩
      have := a.nextr; omega
  obtain ⟨hq1, hq2, hq3⟩ := hq
  have hqo : ∀ q' : EQ (PBody τ μ), (q' = (st.s.q.setReadPosition ss.next).open ∨ q' = st.s.q.setReadPosition ss.next) →
      QDec q' st.s.hist ∧ q'.rest = (st.s.q.setReadPosition ss.next).rest ∧ q'.done = (st.s.q.setReadPosition ss.next).done := by
    rintro q' (h | h) <;> subst h <;> exact ⟨hq1, rfl, rfl⟩
  have hsel := hqo (if o then (st.s.q.setReadPosition ss.next).open else st.s.q.setReadPosition ss.next)
    (by cases o <;> simp)
  refine ⟨hsel.1, ?_, by simp, hi.topics, hi.sidle, hi.unsynced, ?_, ?_, ?_⟩
  · have := hi.floorq
    show st.s.hist.length ≤ st.s.ackFloor + _ + _
    rw [hsel.2.1, hsel.2.2]; omega
  · intro ho
    simp at ho; subst ho
    exact ⟨rfl, ss, hss, hid, hfl⟩
  · intro _; exact ⟨rfl, rfl⟩
  · intro ss' hss' hid'
    have e := sess_unique hss hss'
    subst e
    refine ⟨fun _ => ⟨a.pref, a.m, a.seenlt, ?_, ?_, ?_, a.subs⟩, fun hf => ?_⟩
    · show ss'.next + _ ≤ st.s.hist.length
      rw [hsel.2.1, hq2]
      have := a.nextr; omega
    · intro _
      obtain ⟨_, _, pre, dl, rl, hh, hd, hrr⟩ := hq1
      refine ⟨pre ++ dl, [], rfl, ?_, ?_⟩
      · have e1 : st.s.hist.length = pre.length + dl.length + rl.length := by simp [hh, Nat.add_assoc]
        have e2 : rl.length = st.s.hist.length - ss'.next := by rw [← hq2, hrr]; simp
        have := a.nextr
        simp; omega
      · show st.s.hist = _
        rw [hsel.2.1, hrr]; simp [hh]
    · intro i hi'; simp at hi'
    · have : ss'.next < st.s.ackFloor := hf
      omega

theorem inv_reconnect {cap : Nat} {st st' : St τ μ} (o : Bool) (mid : List (PBody τ μ)) (hi : Inv st)
    (hs : step true cap st (.reconnect o mid) = some st') : Inv st' := by
  simp only [step] at hs
  by_cases ho : st.c.isOpen = true
  · simp [ho] at hs
  · have hc : st.c.isOpen = false := by simpa using ho
    simp only [hc, Bool.false_eq_true, if_false] at hs
    rcases helloR_cases cap st.r st.s.sid with ⟨ss, hss, hid, hr⟩ | ⟨hne, hr⟩
    · rw [hr] at hs
      by_cases hfl : st.s.ackFloor ≤ ss.next
      · -- resume
        have hcd : cleanDecision true st.s false ss.next = false := by
          simp [cleanDecision]; omega
        simp only [hcd, Bool.false_eq_true, if_false] at hs
        have hS : helloS st.s false ss.next mid = { st.s with q := st.s.q.setReadPosition ss.next } := by
          simp [helloS]
        rw [hS] at hs
        have := inv_resume hi ss o hss hid hfl
        cases o with
        | true => simp only [if_true, Option.some.injEq] at hs; subst hs; simpa using this
        | false =>
          simp only [Bool.false_eq_true, if_false, Option.some.injEq] at hs; subst hs; simpa [Chan.broken] using this
      · -- R's session was re-created behind S's back: S notices (next < ackFloor) and starts clean
        have hlt : ss.next < st.s.ackFloor := by omega
        have hcd : cleanDecision true st.s false ss.next = true := by
          simp [cleanDecision]; omega
        simp only [hcd, if_true] at hs
        have stl := (hi.al ss hss hid).2 hlt
        have := inv_after_clean (st := st) st.r ss o mid hss hid stl.next0 stl.seen0 stl.app0 stl.subs0
        cases o with
        | true => simp only [if_true, Option.some.injEq] at hs; subst hs; simpa using this
        | false =>
          simp only [Bool.false_eq_true, if_false, Option.some.injEq] at hs; subst hs; simpa [Chan.broken] using this
    · rw [hr] at hs
      have hcd : cleanDecision true st.s true 0 = true := by simp [cleanDecision]
      simp only [hcd, if_true] at hs
      have := inv_after_clean (st := st)
        { st.r with sess := some { id := st.s.sid, next := 0, seen := { items := [], size := cap } }, subs := [], applied := [] }
        { id := st.s.sid, next := 0, seen := { items := [], size := cap } } o mid rfl rfl rfl rfl rfl rfl
      cases o with
      | true => simp only [if_true, Option.some.injEq] at hs; subst hs; simpa using this
      | false =>
        simp only [Bool.false_eq_true, if_false, Option.some.injEq] at hs; subst hs; simpa [Chan.broken] using this

/-- a failed Hello on the client side: the session id is replaced unless a clean start was completed with it -/
theorem inv_helloErr {st : St τ μ} (hi : Inv st) (hc : st.c.isOpen = false) :
    Inv ({ st with s := helloErr true st.s } : St τ μ) := by
  unfold helloErr
  cases hsy : st.s.synced with
  | true => simpa [hsy] using hi
  | false =>
    simp only [Bool.not_false, Bool.and_self, if_true]
    refine ⟨hi.qdec, hi.floorq, hi.downasc, ?_, ?_, ?_, ?_, hi.closedc, ?_⟩
    · intro h; simp at h
    · intro ss h; have := hi.sidle ss h; show ss.id ≤ st.s.sid + 1; omega
    · intro _ ss h; have := hi.sidle ss h; show ss.id < st.s.sid + 1; omega
    · intro ho; simp [hc] at ho
    · intro ss h hid
      have := hi.sidle ss h
      have : ss.id = st.s.sid + 1 := hid
      omega

theorem inv_helloFail {cap : Nat} {st st' : St τ μ} (hi : Inv st) (hs : step true cap st .helloFail = some st') : Inv st' := by
  simp only [step] at hs
  by_cases ho : st.c.isOpen = true
  · simp [ho] at hs
  · have hc : st.c.isOpen = false := by simpa using ho
    simp only [hc, Bool.false_eq_true, if_false, Option.some.injEq] at hs
    subst hs
    exact inv_helloErr hi hc

/-- the handshake whose answer is lost: R may have created a new, empty session -/
theorem inv_helloLost {cap : Nat} {st st' : St τ μ} (hi : Inv st) (hs : step true cap st .helloLost = some st') : Inv st' := by
  simp only [step] at hs
  by_cases ho : st.c.isOpen = true
  · simp [ho] at hs
  · have hc : st.c.isOpen = false := by simpa using ho
    simp only [hc, Bool.false_eq_true, if_false, Option.some.injEq] at hs
    subst hs
    rcases helloR_cases cap st.r st.s.sid with ⟨ss, hss, hid, hr⟩ | ⟨hne, hr⟩
    · -- R knows the session: nothing changes on R
      rw [hr]
      have := inv_helloErr hi hc
      simpa using this
    · rw [hr]
      have hcl := hi.closedc hc
      cases hsy : st.s.synced with
      | true =>
        have he : helloErr true st.s = st.s := by simp [helloErr, hsy]
        rw [he]
        refine ⟨hi.qdec, hi.floorq, hi.downasc, hi.topics, ?_, ?_, ?_, hi.closedc, ?_⟩
        · intro ss h; simp at h; subst h; exact Nat.le_refl _
        · intro hns; rw [hsy] at hns; simp at hns
        · intro ho'; simp [hc] at ho'
        · intro ss h _
          simp at h; subst h
          refine ⟨fun _ => ⟨List.nil_prefix, Or.inl rfl, ?_, ?_, ?_, ?_, rfl⟩, fun _ => ⟨rfl, rfl, rfl, rfl, hc⟩⟩
          · intro i hi'; simp at hi'
          · show 0 + st.s.q.rest.length ≤ st.s.hist.length
            have := qdec_rest_le hi.qdec; omega
          · intro ho'; simp [hc] at ho'
          · intro i hi'; rw [hcl.2] at hi'; simp at hi'
      | false =>
        have he : helloErr true st.s = { st.s with sid := st.s.sid + 1 } := by simp [helloErr, hsy]
        rw [he]
        refine ⟨hi.qdec, hi.floorq, hi.downasc, ?_, ?_, ?_, ?_, hi.closedc, ?_⟩
        · intro h; have : st.s.synced = true := h; rw [hsy] at this; simp at this
        · intro ss h; simp at h; subst h; show st.s.sid ≤ st.s.sid + 1; omega
        · intro _ ss h; simp at h; subst h; show st.s.sid < st.s.sid + 1; omega
        · intro ho'; simp [hc] at ho'
        · intro ss h hid
          simp at h; subst h
          have : st.s.sid = st.s.sid + 1 := hid
          omega

/-- EVERY environment step of the fixed protocol preserves the invariant -/
theorem step_inv {cap : Nat} {st st' : St τ μ} (l : Label τ μ) (hi : Inv st)
    (hs : step true cap st l = some st') : Inv st' := by
  cases l with
  | emit b => exact inv_emit b hi hs
  | setRetained ms => exact inv_setRetained ms hi hs
  | fetchSend => exact inv_fetchSend hi hs
  | deliver ok => exact inv_deliver ok hi hs
  | deliverAck => exact inv_deliverAck hi hs
  | brk => exact inv_brk hi hs
  | reconnect o mid => exact inv_reconnect o mid hi hs
  | helloLost => exact inv_helloLost hi hs
  | helloFail => exact inv_helloFail hi hs
  | peerRestart => exact inv_peerRestart hi hs
  | senderRestart ts ms => exact inv_senderRestart ts ms hi hs

theorem run_inv {cap : Nat} (ls : List (Label τ μ)) {st st' : St τ μ} (hi : Inv st)
    (hr : run true cap ls st = some st') : Inv st' := by
  induction ls generalizing st with
  | nil => simp [run] at hr; subst hr; exact hi
  | cons l ls ih =>
    simp only [run] at hr
    cases hs : step true cap st l with
    | none => simp [hs] at hr
    | some st1 =>
      simp only [hs] at hr
      exact ih (step_inv l hi hs) hr

/-- in a quiescent state R has applied everything S emitted in this epoch, and R's view of S's subscriptions is S's local set -/
theorem inv_quiescent {st : St τ μ} (hi : Inv st) (hq : Quiescent st) :
    InSession st ∧ st.r.applied = st.s.hist ∧ (∀ t, t ∈ st.r.subs ↔ t ∈ st.s.topics) := by
  obtain ⟨ho, hup, hrest, _⟩ := hq
  obtain ⟨_, ss, hss, hid, hfl⟩ := hi.openal ho
  have a := (hi.al ss hss hid).1 hfl
  obtain ⟨hpre, ul, h1, h2, h3⟩ := a.up ho
  rw [hup] at h1
  have hul : ul = [] := tagged_eq_nil h1.symm
  subst hul
  rw [hrest] at h3
  simp at h3
  have hlen : st.s.hist.length = ss.next := by rw [h3, h2]
  have hle := a.pref.length_le
  have hm : st.r.applied.length = st.s.hist.length := by
    rcases a.m with h | h
    · omega
    · omega
  have heq : st.r.applied = st.s.hist := a.pref.eq_of_length hm
  refine ⟨⟨ss, hss, hid, hfl⟩, heq, ?_⟩
  intro t
  rw [a.subs, heq]
  exact hi.topics (hi.synced_of_aligned hss hid) t

/-- at-least-once: an event of the current epoch that R has not applied yet is still in S's queue -/
theorem inv_unapplied_queued {st : St τ μ} (hi : Inv st) (hal : InSession st) (i : Nat) (b : PBody τ μ)
    (h1 : st.r.applied.length ≤ i) (h2 : st.s.hist[i]? = some b) :
    ({ id := i, body := b } : Event (PBody τ μ)) ∈ st.s.q.items := by
  obtain ⟨ss, hss, hid, hfl⟩ := hal
  have a := (hi.al ss hss hid).1 hfl
  obtain ⟨_, _, pre, dl, rl, hh, hd, hr⟩ := hi.qdec
  have hfront := hi.floorq
  rw [hd, hr] at hfront
  simp at hfront
  have hlen : st.s.hist.length = pre.length + dl.length + rl.length := by simp [hh, Nat.add_assoc]
  have hm : ss.next ≤ st.r.applied.length := by rcases a.m with h | h <;> omega
  have hpi : pre.length ≤ i := by omega
  have hitems : st.s.q.items = tagged pre.length (dl ++ rl) := by simp [EQ.items, hd, hr, tagged_append]
  rw [hitems]
  have hb : (dl ++ rl)[i - pre.length]? = some b := by
    rw [hh, List.append_assoc, List.getElem?_append_right hpi] at h2
    exact h2
  have := mem_tagged (a := pre.length) hb
  have e : pre.length + (i - pre.length) = i := by omega
  rw [e] at this
  exact this

/-! ### liveness: a stable connection drains -/

theorem step_deliver_true {cap : Nat} {st : St τ μ} {e : Event (PBody τ μ)} {up' : List (Event (PBody τ μ))} {ss : Sess}
    (ho : st.c.isOpen = true) (hu : st.c.up = e :: up') (hse : st.r.sess = some ss) :
    ∃ st1, step true cap st (.deliver true) = some st1 ∧ st1.c.isOpen = true ∧ st1.c.up = up' ∧ st1.s = st.s := by
  simp only [step, ho, hu, hse, if_true]
  cases ss.see e.id with
  | mk s1 dup => exact ⟨_, rfl, rfl, rfl, rfl⟩

theorem step_fetch_enabled {cap : Nat} {st : St τ μ} (hi : Inv st) (ho : st.c.isOpen = true) (hne : st.s.q.rest ≠ []) :
    ∃ st1, step true cap st .fetchSend = some st1 ∧ st1.c.isOpen = true ∧ st1.c.up = st.c.up ++ st.s.q.rest.take 100 ∧
      st1.s.q.rest = st.s.q.rest.drop 100 ∧ st1.s.topics = st.s.topics ∧ st1.s.sid = st.s.sid := by
  have hcl := (hi.openal ho).1
  have hd := hi.qdec.1
  have hf : st.s.q.fetch = ({ st.s.q with done := st.s.q.done ++ st.s.q.rest.take 100, rest := st.s.q.rest.drop 100 },
      .ok (st.s.q.rest.take 100)) := by
    have h1 : st.s.q.items.isEmpty = false := by
      cases hr : st.s.q.rest with
      | nil => exact absurd hr hne
      | cons c cs => simp [EQ.items, hr]
    have h2 : st.s.q.nextReadNil = false := by
      cases hr : st.s.q.rest with
      | nil => exact absurd hr hne
      | cons c cs => simp [EQ.nextReadNil, hr]
    simp [EQ.fetch, h1, h2, hcl, hd]
  simp only [step, ho, if_true, hf]
  exact ⟨_, rfl, rfl, rfl, rfl, rfl, rfl⟩

theorem drain {cap : Nat} (n : Nat) : ∀ (st : St τ μ), Inv st → st.c.isOpen = true →
    2 * st.s.q.rest.length + st.c.up.length = n →
    ∃ ls st', (∀ l ∈ ls, Label.isStable l = true) ∧ run true cap ls st = some st' ∧ Quiescent st' ∧
      st'.s.topics = st.s.topics ∧ st'.s.sid = st.s.sid := by
  induction n using Nat.strongRecOn with
  | _ n ih =>
    intro st hi ho hn
    cases hu : st.c.up with
    | cons e up' =>
      obtain ⟨_, ss, hss, _, _⟩ := hi.openal ho
      obtain ⟨st1, hs, ho1, hu1, hs1⟩ := step_deliver_true (cap := cap) ho hu hss
      have hi1 := step_inv _ hi hs
      obtain ⟨ls, st', hst, hrun, hq, ht, hsd⟩ := ih (2 * st1.s.q.rest.length + st1.c.up.length)
        (by rw [hs1, hu1]; rw [hu] at hn; simp at hn; omega) st1 hi1 ho1 rfl
      refine ⟨.deliver true :: ls, st', ?_, ?_, hq, by rw [ht, hs1], by rw [hsd, hs1]⟩
      · intro l hl
        simp at hl
        rcases hl with h | h
        · subst h; rfl
        · exact hst l h
      · simp [run, hs, hrun]
    | nil =>
      by_cases hr : st.s.q.rest = []
      · exact ⟨[], st, by simp, rfl, ⟨ho, hu, hr, hi.qdec.1⟩, rfl, rfl⟩
      · obtain ⟨st1, hs, ho1, hu1, hr1, ht1, hsd1⟩ := step_fetch_enabled (cap := cap) hi ho hr
        have hi1 := step_inv _ hi hs
        have hpos : 0 < st.s.q.rest.length := List.length_pos_iff.mpr hr
        obtain ⟨ls, st', hst, hrun, hq, ht, hsd⟩ := ih (2 * st1.s.q.rest.length + st1.c.up.length)
          (by
            rw [hr1, hu1, hu] at *
            simp [List.length_take, List.length_drop] at *
            omega) st1 hi1 ho1 rfl
        refine ⟨.fetchSend :: ls, st', ?_, ?_, hq, by rw [ht, ht1], by rw [hsd, hsd1]⟩
        · intro l hl
          simp at hl
          rcases hl with h | h
          · subst h; rfl
          · exact hst l h
        · simp [run, hs, hrun]

/-- from every state satisfying the invariant a stable connection (no break, acks get through) reaches quiescence -/
theorem inv_reaches_quiescence {cap : Nat} {st : St τ μ} (hi : Inv st) :
    ∃ ls st', (∀ l ∈ ls, Label.isStable l = true) ∧ run true cap ls st = some st' ∧ Quiescent st' ∧ Inv st' ∧
      st'.s.topics = st.s.topics ∧ st'.s.sid = st.s.sid := by
  by_cases ho : st.c.isOpen = true
  · obtain ⟨ls, st', h1, h2, h3, h4, h5⟩ := drain (cap := cap) _ st hi ho rfl
    exact ⟨ls, st', h1, h2, h3, run_inv ls hi h2, h4, h5⟩
  · have hc : st.c.isOpen = false := by simpa using ho
    have hs : ∃ st1, step true cap st (.reconnect true []) = some st1 ∧ st1.c.isOpen = true ∧ st1.s.topics = st.s.topics ∧
        st1.s.sid = st.s.sid := by
      simp only [step, hc, Bool.false_eq_true, if_false, if_true]
      refine ⟨_, rfl, rfl, ?_, ?_⟩
      · simp only [helloS]
        split <;> rfl
      · simp only [helloS]
        split <;> rfl
    obtain ⟨st1, hs1, ho1, ht1, hsd1⟩ := hs
    have hi1 := step_inv _ hi hs1
    obtain ⟨ls, st', h1, h2, h3, h4, h5⟩ := drain (cap := cap) _ st1 hi1 ho1 rfl
    have hall : ∀ l ∈ Label.reconnect true [] :: ls, Label.isStable l = true := by
      intro l hl
      simp at hl
      rcases hl with h | h
      · subst h; rfl
      · exact h1 l h
    refine ⟨.reconnect true [] :: ls, st', hall, by simp [run, hs1, h2], h3, ?_, by rw [h4, ht1], by rw [h5, hsd1]⟩
    exact run_inv (cap := cap) (.reconnect true [] :: ls) hi (by simp [run, hs1, h2])

/-! ### restarts -/

omit [DecidableEq τ] in
/-- when R's session does not carry S's id, the next Hello is answered with clean_start -/
theorem hello_clean_of_unaligned {cap : Nat} {st : St τ μ} (h : ¬ Aligned st) :
    (helloR cap st.r st.s.sid).2.1 = true ∧ (helloR cap st.r st.s.sid).2.2 = 0 := by
  rcases helloR_cases cap st.r st.s.sid with ⟨ss, hss, hid, _⟩ | ⟨_, hr⟩
  · exact absurd ⟨ss, hss, hid⟩ h
  · rw [hr]; exact ⟨rfl, rfl⟩

theorem unaligned_after_restart {cap : Nat} {st st1 : St τ μ} (hi : Inv st) (l : Label τ μ)
    (hl : l = .peerRestart ∨ ∃ ts ms, l = .senderRestart ts ms) (hs : step true cap st l = some st1) :
    ¬ Aligned st1 ∧ st1.c.isOpen = false := by
  rcases hl with h | ⟨ts, ms, h⟩
  · subst h
    simp only [step, Option.some.injEq] at hs
    subst hs
    refine ⟨?_, rfl⟩
    rintro ⟨ss, h, _⟩
    simp at h
  · subst h
    simp only [step, Option.some.injEq] at hs
    subst hs
    refine ⟨?_, rfl⟩
    rintro ⟨ss, h, hid⟩
    have := hi.sidle ss h
    have hid' : ss.id = st.s.sid + 1 := hid
    omega

/-! ### the code before 086aedd (`fixed = false`): concrete schedule with a lost Hello answer that breaks the prefix property -/

def lostHelloSchedule : List (Label Nat Nat) :=
  [.reconnect true [], .emit (.sub 1), .fetchSend, .deliver true, .deliverAck,   -- event 0 = Subscribe 1: sent, applied, acked
   .peerRestart,                                                              -- R restarts: session and federation tree lost
   .helloLost,                                                                -- R creates a new session, answer clean_start lost
   .reconnect true [],                                                        -- retry: same session id ⇒ clean_start=false, next=0
   .emit (.sub 2), .fetchSend, .deliver true]                                 -- event 1 = Subscribe 2 is applied as the first event

def summary (st : St Nat Nat) :=
  (st.r.applied, st.s.hist, st.r.subs, st.s.topics, st.r.sess.map (·.id), st.s.sid, st.c.up.length, st.s.q.rest.length,
   st.c.isOpen, st.s.q.dangling)

/-- as the code was: Subscribe 2 is the only event R's new session ever sees -/
theorem lostHello_run_as_is :
    (run false 100 lostHelloSchedule (init [] [])).map summary =
    some ([.sub 2], [.sub 1, .sub 2], [2], [1, 2], some 0, 0, 0, 0, true, none) := rfl

/-- as the code is now: the second Hello is recognised (`next_event_id 0 < ackFloor 1`), S starts clean -/
theorem lostHello_run_fixed :
    (run true 100 (lostHelloSchedule ++ [.deliver true]) (init [] [])).map summary =
    some ([.sub 1, .sub 2], [.sub 1, .sub 2], [1, 2], [1, 2], some 0, 0, 0, 0, true, none) := rfl

end GmqttVerif.Fed.Proto
