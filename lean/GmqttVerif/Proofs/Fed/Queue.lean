import GmqttVerif.Model.Fed.EventQueue
/-
  Lemmas about `EQ` on "tagged" lists: `tagged a [b₀,b₁,…] = [⟨a,b₀⟩,⟨a+1,b₁⟩,…]` — the shape the queue's list always has
  (ids are assigned consecutively and only removed from the front).
-/
namespace GmqttVerif.Fed
variable {β : Type}

def tagged (a : Nat) : List β → List (Event β)
  | [] => []
  | b :: bs => { id := a, body := b } :: tagged (a + 1) bs

@[simp] theorem tagged_nil (a : Nat) : tagged a ([] : List β) = [] := rfl
@[simp] theorem tagged_cons (a : Nat) (b : β) (bs : List β) :
    tagged a (b :: bs) = { id := a, body := b } :: tagged (a + 1) bs := rfl

@[simp] theorem tagged_length (a : Nat) (l : List β) : (tagged a l).length = l.length := by
  induction l generalizing a with
  | nil => rfl
  | cons b bs ih => simp [ih]

theorem tagged_append (a : Nat) (l1 l2 : List β) :
    tagged a (l1 ++ l2) = tagged a l1 ++ tagged (a + l1.length) l2 := by
  induction l1 generalizing a with
  | nil => simp
  | cons b bs ih => simp [ih, Nat.add_assoc, Nat.add_comm 1]

theorem tagged_eq_nil {a : Nat} {l : List β} (h : tagged a l = []) : l = [] := by
  cases l with
  | nil => rfl
  | cons b bs => simp at h

theorem tagged_take (a n : Nat) (l : List β) : (tagged a l).take n = tagged a (l.take n) := by
  induction l generalizing a n with
  | nil => simp
  | cons b bs ih => cases n with
    | zero => simp
    | succ n => simp [ih]

theorem tagged_drop (a n : Nat) (l : List β) : (tagged a l).drop n = tagged (a + n) (l.drop n) := by
  induction l generalizing a n with
  | nil => simp
  | cons b bs ih => cases n with
    | zero => simp
    | succ n => simp [ih, Nat.add_assoc, Nat.add_comm 1]

theorem tagged_id_ge {a : Nat} {l : List β} {e : Event β} (h : e ∈ tagged a l) : a ≤ e.id := by
  induction l generalizing a with
  | nil => simp at h
  | cons b bs ih =>
    simp at h
    rcases h with h | h
    · subst h; simp
    · have := ih h; omega

theorem tagged_id_lt {a : Nat} {l : List β} {e : Event β} (h : e ∈ tagged a l) : e.id < a + l.length := by
  induction l generalizing a with
  | nil => simp at h
  | cons b bs ih =>
    simp at h
    rcases h with h | h
    · subst h; simp
    · have := ih h; simp; omega

/-- membership in a tagged list: the body at that index -/
theorem mem_tagged {a : Nat} {l : List β} {i : Nat} {b : β} (h : l[i]? = some b) :
    ({ id := a + i, body := b } : Event β) ∈ tagged a l := by
  induction l generalizing a i with
  | nil => simp at h
  | cons x xs ih =>
    cases i with
    | zero => simp at h; subst h; simp
    | succ i =>
      simp at h
      have := ih (a := a + 1) h
      simp
      have e : a + 1 + i = a + (i + 1) := by omega
      rw [e] at this; exact this

namespace EQ

/-- all ids are larger than `id`: the `ack` loop removes nothing and does not return early -/
theorem ackWalk_tagged_lt (id a : Nat) (l : List β) (h : id < a) :
    ackWalk id (tagged a l) = (tagged a l, false) := by
  induction l generalizing a with
  | nil => rfl
  | cons b bs ih =>
    have h1 : ¬ a = id := by omega
    have h2 : ¬ a ≤ id := by omega
    simp [ackWalk, h1, h2, ih (a + 1) (by omega)]

/-- `id` is in the list: everything up to and including it is removed, the loop returns -/
theorem ackWalk_tagged_mid (id a : Nat) (l : List β) (h1 : a ≤ id) (h2 : id < a + l.length) :
    ackWalk id (tagged a l) = (tagged (id + 1) (l.drop (id + 1 - a)), true) := by
  induction l generalizing a with
  | nil => simp at h2; omega
  | cons b bs ih =>
    by_cases he : a = id
    · subst he
      simp [ackWalk]
    · have hlt : a < id := by omega
      have : a ≤ id := h1
      simp at h2
      have e : id + 1 - a = (id + 1 - (a + 1)) + 1 := by omega
      simp [ackWalk, he, this, ih (a + 1) (by omega) (by omega), e]

/-- `id` lies behind the list: everything is removed -/
theorem ackWalk_tagged_ge (id a : Nat) (l : List β) (h : a + l.length ≤ id) :
    ackWalk id (tagged a l) = ([], false) := by
  induction l generalizing a with
  | nil => rfl
  | cons b bs ih =>
    simp at h
    have h1 : ¬ a = id := by omega
    have h2 : a ≤ id := by omega
    simp [ackWalk, h1, h2, ih (a + 1) (by omega)]

theorem splitAtId_tagged_mid (k a : Nat) (l : List β) (h1 : a ≤ k) (h2 : k < a + l.length) :
    splitAtId k (tagged a l) = some (tagged a (l.take (k - a)), tagged k (l.drop (k - a))) := by
  induction l generalizing a with
  | nil => simp at h2; omega
  | cons b bs ih =>
    by_cases he : a = k
    · subst he; simp [splitAtId]
    · simp at h2
      have e : k - a = (k - (a + 1)) + 1 := by omega
      simp [splitAtId, he, ih (a + 1) (by omega) (by omega), e]

theorem splitAtId_tagged_none (k a : Nat) (l : List β) (h : k < a ∨ a + l.length ≤ k) :
    splitAtId k (tagged a l) = none := by
  induction l generalizing a with
  | nil => rfl
  | cons b bs ih =>
    simp at h
    have he : ¬ a = k := by omega
    simp [splitAtId, he, ih (a + 1) (by omega)]

end EQ
end GmqttVerif.Fed

namespace GmqttVerif.Fed
variable {β : Type}

@[simp] theorem tagged_map_body (a : Nat) (l : List β) : (tagged a l).map (·.body) = l := by
  induction l generalizing a with
  | nil => rfl
  | cons b bs ih => simp [ih]

theorem tagged_inj {a b : Nat} {l l' : List β} (h : tagged a l = tagged b l') : l = l' := by
  have := congrArg (List.map (·.body)) h
  simpa using this

/-- the queue holds exactly the un-acknowledged suffix of the history, ids = positions in the history:
    `hist = pre ++ dl ++ rl`, `done = tagged |pre| dl`, `rest = tagged (|pre|+|dl|) rl` -/
def QDec (q : EQ β) (hist : List β) : Prop :=
  q.dangling = none ∧ q.nextID = hist.length ∧
  ∃ pre dl rl, hist = pre ++ dl ++ rl ∧ q.done = tagged pre.length dl ∧ q.rest = tagged (pre.length + dl.length) rl

namespace EQ

theorem qdec_empty : QDec (EQ.empty : EQ β) [] := by
  refine ⟨rfl, rfl, [], [], [], ?_⟩
  simp [EQ.empty]

theorem qdec_close {q : EQ β} {hist : List β} (h : QDec q hist) : QDec q.close hist := h
theorem qdec_open {q : EQ β} {hist : List β} (h : QDec q hist) : QDec q.open hist := h

theorem qdec_add {q : EQ β} {hist : List β} (h : QDec q hist) (b : β) :
    QDec (q.add b).1 (hist ++ [b]) ∧ (q.add b).1.done = q.done ∧
    (q.add b).1.rest = q.rest ++ [{ id := hist.length, body := b }] ∧ (q.add b).1.closed = q.closed := by
  obtain ⟨hd, hn, pre, dl, rl, hh, hdone, hrest⟩ := h
  have e : q.add b = ({ q with rest := q.rest ++ [{ id := q.nextID, body := b }], nextID := q.nextID + 1 }, q.nextID) := by
    simp [EQ.add, hd]
  rw [e]
  refine ⟨⟨hd, by simp [hn], pre, dl, rl ++ [b], ?_, hdone, ?_⟩, rfl, by simp [hn], rfl⟩
  · simp [hh]
  · simp [hrest, tagged_append, hn, hh, Nat.add_assoc]

theorem qdec_fetch {q q' : EQ β} {hist : List β} {evs : List (Event β)} (h : QDec q hist)
    (hf : q.fetch = (q', .ok evs)) :
    QDec q' hist ∧ evs = q.rest.take 100 ∧ q'.rest = q.rest.drop 100 ∧ q'.done = q.done ++ evs ∧ q.rest ≠ [] ∧
    q'.closed = q.closed := by
  obtain ⟨hd, hn, pre, dl, rl, hh, hdone, hrest⟩ := h
  unfold EQ.fetch at hf
  by_cases hc1 : ((q.items.isEmpty || q.nextReadNil) && !q.closed) = true
  · simp [hc1] at hf
  · rw [if_neg hc1] at hf
    by_cases hc2 : q.closed = true
    · simp [hc2] at hf
    · rw [if_neg hc2, hd] at hf
      simp at hf
      obtain ⟨hq, he⟩ := hf
      have hne : q.rest ≠ [] := by
        intro hr
        simp [EQ.nextReadNil, hd, hr, hc2] at hc1
      subst hq he
      refine ⟨⟨rfl, hn, pre, dl ++ rl.take 100, rl.drop 100, ?_, ?_, ?_⟩, rfl, rfl, rfl, hne, rfl⟩
      · simp [hh]
      · simp [hdone, hrest, tagged_append, tagged_take]
      · simp only [hrest, tagged_drop, List.length_append, List.length_take]
        by_cases hl : 100 ≤ rl.length
        · have : min 100 rl.length = 100 := by omega
          simp [this, Nat.add_assoc]
        · have h0 : rl.drop 100 = [] := by
            apply List.drop_eq_nil_of_le; omega
          simp [h0]

/-- an acknowledged id in front of the cursor (`id < r`): only `done` shrinks, the cursor is untouched, and the
    new front id is at most `max front (id+1)` -/
theorem qdec_ack {q : EQ β} {hist : List β} (h : QDec q hist) (id : Nat)
    (hid : id + q.rest.length < hist.length) :
    QDec (q.ack id) hist ∧ (q.ack id).rest = q.rest ∧ (q.ack id).closed = q.closed ∧
    (∀ K, hist.length ≤ K + q.done.length + q.rest.length → id + 1 ≤ K →
      hist.length ≤ K + (q.ack id).done.length + (q.ack id).rest.length) := by
  obtain ⟨hd, hn, pre, dl, rl, hh, hdone, hrest⟩ := h
  have hlen : hist.length = pre.length + dl.length + rl.length := by simp [hh, Nat.add_assoc]
  have hrl : q.rest.length = rl.length := by simp [hrest]
  have hdl : q.done.length = dl.length := by simp [hdone]
  by_cases hlt : id < pre.length
  · -- nothing to remove
    have hw : ackWalk id q.done = (q.done, false) := by rw [hdone]; exact ackWalk_tagged_lt _ _ _ hlt
    have hq : q.ack id = q := by
      unfold EQ.ack
      simp only [hw]
      cases hr : q.rest with
      | nil => simp; cases q; simp_all
      | cons c cs =>
        have hc : c.id = pre.length + dl.length := by
          cases rl with
          | nil => simp [hr] at hrest
          | cons b bs => rw [hr] at hrest; simp at hrest; rw [hrest.1]
        have h1 : ¬ c.id = id := by omega
        have h2 : ¬ c.id ≤ id := by omega
        have hcs : ackWalk id cs = (cs, false) := by
          cases rl with
          | nil => simp [hr] at hrest
          | cons b bs =>
            rw [hr] at hrest; simp at hrest
            rw [hrest.2]; exact ackWalk_tagged_lt _ _ _ (by omega)
        simp [h1, h2, hcs]
        cases q
        simp_all
    rw [hq]
    exact ⟨⟨hd, hn, pre, dl, rl, hh, hdone, hrest⟩, rfl, rfl, fun K h1 _ => h1⟩
  · have hge : pre.length ≤ id := by omega
    have hlt2 : id < pre.length + dl.length := by omega
    have hw : ackWalk id q.done = (tagged (id + 1) (dl.drop (id + 1 - pre.length)), true) := by
      rw [hdone]; exact ackWalk_tagged_mid _ _ _ hge hlt2
    have hq : q.ack id = { q with done := tagged (id + 1) (dl.drop (id + 1 - pre.length)) } := by
      unfold EQ.ack
      simp [hw]
    rw [hq]
    refine ⟨⟨hd, hn, pre ++ dl.take (id + 1 - pre.length), dl.drop (id + 1 - pre.length), rl, ?_, ?_, ?_⟩, rfl, rfl, ?_⟩
    · simp [hh]
    · have : (pre ++ dl.take (id + 1 - pre.length)).length = id + 1 := by
        simp [List.length_take]; omega
      simp [this]
    · have : (pre ++ dl.take (id + 1 - pre.length)).length + (dl.drop (id + 1 - pre.length)).length
          = pre.length + dl.length := by
        simp [List.length_take, List.length_drop]; omega
      simp only [this]; exact hrest
    · intro K _ hK
      simp [List.length_drop]
      omega

/-- `setReadPosition k` for a `k` inside the queue: the cursor moves to the element with id `k` -/
theorem qdec_setpos_mid {q : EQ β} {hist : List β} (h : QDec q hist) (k : Nat)
    (hk1 : hist.length ≤ k + q.done.length + q.rest.length) (hk2 : k < hist.length) :
    QDec (q.setReadPosition k) hist ∧ (q.setReadPosition k).rest.length = hist.length - k ∧
    (q.setReadPosition k).done.length + (q.setReadPosition k).rest.length = q.done.length + q.rest.length ∧
    (q.setReadPosition k).closed = q.closed := by
  obtain ⟨hd, hn, pre, dl, rl, hh, hdone, hrest⟩ := h
  have hlen : hist.length = pre.length + dl.length + rl.length := by simp [hh, Nat.add_assoc]
  have hrl : q.rest.length = rl.length := by simp [hrest]
  have hdl : q.done.length = dl.length := by simp [hdone]
  have hitems : q.items = tagged pre.length (dl ++ rl) := by simp [EQ.items, hdone, hrest, tagged_append]
  have hs := splitAtId_tagged_mid k pre.length (dl ++ rl) (by omega) (by simp; omega)
  have hq : q.setReadPosition k =
      { q with done := tagged pre.length ((dl ++ rl).take (k - pre.length)), rest := tagged k ((dl ++ rl).drop (k - pre.length)), dangling := none } := by
    unfold EQ.setReadPosition
    rw [hitems, hs]
  rw [hq]
  refine ⟨⟨rfl, hn, pre, (dl ++ rl).take (k - pre.length), (dl ++ rl).drop (k - pre.length), ?_, rfl, ?_⟩, ?_, ?_, rfl⟩
  · rw [List.append_assoc, List.take_append_drop, hh, List.append_assoc]
  · have : pre.length + ((dl ++ rl).take (k - pre.length)).length = k := by
      simp [List.length_take]; omega
    simp only [this]
  · simp [List.length_drop]; omega
  · simp [List.length_take, List.length_drop]; omega

/-- `setReadPosition k` for `k` = next id to be assigned (nothing to re-send): no element has that id, nothing changes -/
theorem qdec_setpos_end {q : EQ β} {hist : List β} (h : QDec q hist) :
    q.setReadPosition hist.length = q := by
  obtain ⟨hd, hn, pre, dl, rl, hh, hdone, hrest⟩ := h
  have hlen : hist.length = pre.length + dl.length + rl.length := by simp [hh, Nat.add_assoc]
  have hitems : q.items = tagged pre.length (dl ++ rl) := by simp [EQ.items, hdone, hrest, tagged_append]
  have hs := splitAtId_tagged_none hist.length pre.length (dl ++ rl) (Or.inr (by simp; omega))
  unfold EQ.setReadPosition
  rw [hitems, hs]

/-- `setReadPosition k` for an id that is no longer (or not yet) in the queue: nothing changes -/
theorem setpos_outside {q : EQ β} {hist : List β} (h : QDec q hist) (k : Nat)
    (hk : k + q.done.length + q.rest.length < hist.length ∨ hist.length ≤ k) :
    q.setReadPosition k = q := by
  obtain ⟨hd, hn, pre, dl, rl, hh, hdone, hrest⟩ := h
  have hlen : hist.length = pre.length + dl.length + rl.length := by simp [hh, Nat.add_assoc]
  have hrl : q.rest.length = rl.length := by simp [hrest]
  have hdl : q.done.length = dl.length := by simp [hdone]
  have hitems : q.items = tagged pre.length (dl ++ rl) := by simp [EQ.items, hdone, hrest, tagged_append]
  have hs := splitAtId_tagged_none k pre.length (dl ++ rl) (by simp; omega)
  unfold EQ.setReadPosition
  rw [hitems, hs]

end EQ
end GmqttVerif.Fed
