import GmqttVerif.Model.Fed.Route
/- lemmas about `Fed.routeCore` / `Fed.route` (C17) -/
namespace GmqttVerif.Fed

section
variable {ν κ : Type} [DecidableEq ν] [DecidableEq κ]

omit [DecidableEq κ] in
theorem mem_dedupS (l : List ν) (x : ν) : x ∈ dedupS l ↔ x ∈ l := by
  induction l with
  | nil => simp [dedupS]
  | cons y ys ih =>
    simp only [dedupS, List.mem_cons, List.mem_filter, ih]
    constructor
    · rintro (h | ⟨h, _⟩)
      · exact Or.inl h
      · exact Or.inr h
    · rintro (h | h)
      · exact Or.inl h
      · by_cases hxy : x = y
        · exact Or.inl hxy
        · exact Or.inr ⟨h, by simpa using hxy⟩

omit [DecidableEq κ] in
theorem nodup_dedupS (l : List ν) : (dedupS l).Nodup := by
  induction l with
  | nil => simp [dedupS]
  | cons y ys ih =>
    simp only [dedupS, List.nodup_cons, List.mem_filter]
    refine ⟨?_, ih.filter _⟩
    rintro ⟨_, h⟩
    simp at h

/-- retained: every peer, local delivery untouched, counters untouched -/
theorem routeCore_retained (sort : List ν → List ν) (i : CoreIn ν κ) :
    routeCore sort i true = { targets := i.peers, drop := false, nonSharedOnly := false, sent := i.sent } := by
  simp [routeCore]

/-- no matching shared subscription anywhere: the nodes of the matching non-shared entries that are peers, once each -/
theorem routeCore_noShared (sort : List ν → List ν) (i : CoreIn ν κ) (h1 : i.localShared = []) (h2 : i.fedShared = []) :
    routeCore sort i false =
      { targets := (dedupS i.fedNonShared).filter (fun n => i.peers.contains n), drop := false, nonSharedOnly := false, sent := i.sent } := by
  simp [routeCore, sharedListCore, h1, h2]

end

/-! ### the string instance -/

theorem toCore_noShared (i : RouteIn) (topic : String)
    (hf : ∀ k ∈ i.fedSubs, k.share = "") (hl : ∀ l ∈ i.locals, l.share = "") :
    (toCore i topic).localShared = [] ∧ (toCore i topic).fedShared = [] := by
  constructor
  · simp only [toCore, List.map_eq_nil_iff]
    apply List.filter_eq_nil_iff.mpr
    intro l hl'
    simp [hl l hl']
  · simp only [toCore, List.map_eq_nil_iff]
    apply List.filter_eq_nil_iff.mpr
    intro k hk
    simp [hf k hk]

end GmqttVerif.Fed
