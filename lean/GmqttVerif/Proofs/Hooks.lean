import GmqttVerif.Model.Hooks
/- lemmas about the wrapper fold of `initPluginHooks` -/
namespace GmqttVerif.Hooks

variable {ρ : Type}

/-- a hook that appends a fixed list of entries and returns a fixed verdict, whatever the log so far -/
def Appends (h : Hook ρ) (r : ρ) (marks : List String) : Prop := ∀ l, h l = (r, l ++ marks)

theorem baseHook_appends (r : ρ) (marks : List String) : Appends (baseHook r marks) r marks := fun _ => rfl

theorem apply_appends {h : Hook ρ} {r : ρ} {marks : List String} (w : Wrapper) (hh : Appends h r marks) :
    Appends (w.apply h) r ([w.pre] ++ marks ++ [w.post]) := by
  intro l
  simp [Wrapper.apply, hh (l ++ [w.pre]), List.append_assoc]

/-- the countdown loop up to index `i` wraps with `ws[i-1]` first (innermost) and `ws[0]` last (outermost) -/
theorem composeLoop_eq_foldr (ws : List Wrapper) : ∀ (i : Nat) (h : Hook ρ), i ≤ ws.length →
    composeLoop ws i h = (ws.take i).foldr Wrapper.apply h := by
  intro i
  induction i with
  | zero => intro h _; simp [composeLoop]
  | succ i ih =>
    intro h hi
    have hlt : i < ws.length := hi
    have hget : ws[i]? = some ws[i] := List.getElem?_eq_getElem hlt
    rw [composeLoop, hget]
    simp only
    rw [ih _ (Nat.le_of_lt hlt)]
    have : ws.take (i+1) = ws.take i ++ [ws[i]] := by
      rw [List.take_add_one, hget]; rfl
    rw [this, List.foldr_append]
    rfl

theorem compose_eq_foldr (ws : List Wrapper) (base : Hook ρ) :
    compose ws base = ws.foldr Wrapper.apply base := by
  unfold compose
  rw [composeLoop_eq_foldr ws ws.length base (Nat.le_refl _), List.take_length]

theorem foldr_appends (ws : List Wrapper) {base : Hook ρ} {r : ρ} {marks : List String} (hb : Appends base r marks) :
    Appends (ws.foldr Wrapper.apply base) r (ws.map (·.pre) ++ marks ++ (ws.map (·.post)).reverse) := by
  induction ws with
  | nil => simpa using hb
  | cons w ws ih =>
    have := apply_appends w ih
    intro l
    rw [List.foldr_cons, this l]
    simp [List.append_assoc]

/-- the forward loop builds the same nest for the reversed plugin list -/
theorem composeForward_eq (ws : List Wrapper) (base : Hook ρ) :
    composeForward ws base = compose ws.reverse base := by
  rw [compose_eq_foldr, List.foldr_reverse]
  rfl

end GmqttVerif.Hooks
