import GmqttVerif.Model.Inbound
/-
  Vocabulary and helper lemmas for C04 (inbound QoS 2 exactly-once, matching acks). Core Lean only.
-/
namespace GmqttVerif.Inbound
open GmqttVerif.Unack

/-! ### trace-level vocabulary (no reference to the unack store) -/

/-- the event ends whatever QoS 2 exchange is open for `id`: a PUBREL with this id, or a connection on which
    the session was not resumed -/
def closes (id : Nat) : Event → Bool
  | .pubrel i => i == id
  | .reset clean _ => clean
  | _ => false

/-- a QoS 2 PUBLISH carrying `id` -/
def isPub2 (id : Nat) : Event → Bool
  | .pub q i _ _ => q == 2 && i == id
  | _ => false

/-- the hook let the message through (or there is no hook) -/
def Event.plain : Event → Prop
  | .pub _ _ _ v => v = .ok
  | _ => True

instance : DecidablePred Event.plain := fun e => by
  cases e <;> simp only [Event.plain] <;> infer_instance

/-- in the history `pre` (oldest first) there is a QoS 2 PUBLISH of `id` after the last event that closes `id` -/
def openAfter (id : Nat) (pre : List Event) : Bool :=
  (pre.reverse.takeWhile (fun e => !closes id e)).any (isPub2 id)

/-- must the event `e`, arriving after history `pre`, be handed to the subscribers? -/
def mustDeliver (pre : List Event) : Event → Bool
  | .pub q id _ _ => !(q == 2 && openAfter id pre)
  | _ => false

/-- expected delivery decisions for the events `evs` arriving after history `pre` -/
def deliverSpec (pre : List Event) : List Event → List Bool
  | [] => []
  | e :: es => mustDeliver pre e :: deliverSpec (pre ++ [e]) es

/-- the acknowledgement each event must produce -/
def ackSpec : Event → List Ack
  | .pub q id _ _ => if q = 1 then [.puback id] else if q = 2 then [.pubrec id] else []
  | .pubrel id => [.pubcomp id]
  | .reset _ _ => []

/-! ### lemmas -/

theorem openAfter_nil (id : Nat) : openAfter id [] = false := rfl

theorem openAfter_snoc (id : Nat) (pre : List Event) (e : Event) :
    openAfter id (pre ++ [e]) = if closes id e then false else (isPub2 id e || openAfter id pre) := by
  unfold openAfter
  rw [List.reverse_append]
  simp only [List.reverse_cons, List.reverse_nil, List.nil_append, List.singleton_append, List.takeWhile_cons]
  cases h : closes id e <;> simp

theorem mem_remove (s : Store) (i j : Nat) : j ∈ (s.remove i).ids ↔ j ∈ s.ids ∧ j ≠ i := by
  simp [Store.remove, List.mem_filter, bne_iff_ne]

theorem mem_set (s : Store) (i j : Nat) : j ∈ (s.set i).1.ids ↔ j = i ∨ j ∈ s.ids := by
  unfold Store.set
  split
  · rename_i h
    constructor
    · intro hj; exact Or.inr hj
    · intro hj; rcases hj with rfl | hj
      · exact h
      · exact hj
  · simp

theorem set_snd (s : Store) (i : Nat) : (s.set i).2 = decide (i ∈ s.ids) := by
  unfold Store.set; split <;> simp_all

/-- the store holds exactly the ids with an open QoS 2 PUBLISH in the history -/
def Agrees (s : St) (pre : List Event) : Prop := ∀ id, id ∈ s.store.ids ↔ openAfter id pre = true

theorem Agrees_init : Agrees init [] := by
  intro id; simp [init, Unack.new, openAfter_nil]

theorem step_spec {s : St} {pre : List Event} (h : Agrees s pre) (e : Event) (hp : e.plain) :
    Agrees (step s e).1 (pre ++ [e]) ∧ (step s e).2.deliver = mustDeliver pre e := by
  cases e with
  | pub q id d v =>
    simp only [Event.plain] at hp
    subst hp
    by_cases h2 : q = 2
    · subst h2
      have hset := set_snd s.store id
      constructor
      · intro j
        rw [openAfter_snoc]
        simp only [step, closes, isPub2, if_true, Bool.false_eq_true, if_false]
        have : (2 : Nat) ≠ 1 := by decide
        simp only [this, if_false, Bool.and_false, Bool.false_eq_true]
        rw [mem_set, h j]
        by_cases hj : id = j
        · subst hj; simp
        · have hj' : ¬ j = id := fun e => hj e.symm
          simp [hj, hj']
      · simp only [step, mustDeliver, if_true]
        have : (2 : Nat) ≠ 1 := by decide
        simp only [this, if_false, hset]
        have := h id
        cases ho : openAfter id pre
        · have hn : ¬ id ∈ s.store.ids := by rw [this, ho]; simp
          simp [hn]
        · have hn : id ∈ s.store.ids := by rw [this, ho]
          simp [hn]
    · constructor
      · intro j
        rw [openAfter_snoc]
        have hq : (q == 2) = false := by simpa using h2
        simp only [step, h2, if_false, closes, isPub2, hq, Bool.false_and, Bool.false_or, Bool.false_eq_true]
        by_cases h1 : q = 1 <;> simp only [h1, if_true, if_false] <;> exact h j
      · have hq : (q == 2) = false := by simpa using h2
        simp only [step, h2, if_false, mustDeliver, hq, Bool.false_and, Bool.not_false]
        by_cases h1 : q = 1 <;> simp [h1]
  | pubrel i =>
    constructor
    · intro j
      rw [openAfter_snoc]
      simp only [step, closes, isPub2, Bool.false_or]
      rw [mem_remove, h j]
      by_cases hj : i = j
      · subst hj; simp
      · have hj' : ¬ j = i := fun e => hj e.symm
        simp [hj, hj']
    · rfl
  | reset clean v =>
    constructor
    · intro j
      rw [openAfter_snoc]
      simp only [step, closes, isPub2, Bool.false_or]
      cases clean
      · simp only [Store.init, Bool.false_eq_true, if_false]; exact h j
      · simp [Store.init]
    · rfl

theorem run_spec : ∀ (evs : List Event) {s : St} {pre : List Event}, Agrees s pre → (∀ e ∈ evs, e.plain) →
    Agrees (run s evs).1 (pre ++ evs) ∧ (run s evs).2.map (·.deliver) = deliverSpec pre evs
  | [], s, pre, h, _ => by simp [run, deliverSpec]; exact h
  | e :: es, s, pre, h, hp => by
    obtain ⟨h1, h2⟩ := step_spec h e (hp e List.mem_cons_self)
    obtain ⟨r1, r2⟩ := run_spec es h1 (fun x hx => hp x (List.mem_cons_of_mem _ hx))
    simp only [run, deliverSpec, List.map_cons, h2, r2, and_true]
    simpa using r1

theorem step_acks (s : St) (e : Event) : (step s e).2.acks = ackSpec e := by
  cases e with
  | pub q id d v =>
    simp only [step, ackSpec]
    by_cases h1 : q = 1
    · simp [h1]
    · by_cases h2 : q = 2 <;> simp [h1, h2]
  | pubrel i => rfl
  | reset c v => rfl

theorem run_acks : ∀ (evs : List Event) (s : St), (run s evs).2.map (·.acks) = evs.map ackSpec
  | [], _ => rfl
  | e :: es, s => by
    simp only [run, List.map_cons, step_acks, run_acks es]

end GmqttVerif.Inbound
