import GmqttVerif.Proofs.LifecycleInv
/-
  C15 — progress of the repaired connection protocol: in every state satisfying the invariant in which the socket
  is dead, some goroutine can move until all of them have exited (`progress`). The proof follows the wake-up chain
  of the source: readLoop first (a dead socket ends every read; a full `in` is drained by its consumer or abandoned
  through `client.close`), then writeLoop (`client.close`), then serve() and its joins, then whoever takes the id over.
-/
namespace GmqttVerif.Lifecycle

theorem canMove_of {c : Cfg} {s : State} (a : Act) (hm : a ∈ internalActs)
    (h : (step c s a).isSome = true) : s.canMove c = true := by
  unfold State.canMove
  exact List.any_eq_true.mpr ⟨a, hm, h⟩

theorem onceBegin_isSome {c : Cfg} {s a b : State} {coded : Bool} (h : s.once ≠ .running) :
    (onceBegin c s coded a b).isSome = true := by
  unfold onceBegin
  split
  · split <;> rfl
  · rfl
  · contradiction

theorem onceSend_isSome {c : Cfg} {s a : State} (h : c.fix.onceNoBlock = true) :
    (onceSend c s a).isSome = true := by
  unfold onceSend
  split
  · rfl
  · simp_all

theorem hRecv_isSome {c : Cfg} {s : State} {p : Pkt} {q : List Pkt} (hh : s.h = .recv) (hq : s.inq = p :: q) :
    (step c s .hRecv).isSome = true := by
  cases p with
  | data b => cases b <;> simp [step, hh, hq]
  | _ => simp [step, hh, hq]

theorem cRecv_isSome {c : Cfg} {s : State} {p : Pkt} {q : List Pkt} (hs : s.s = .cSel) (hq : s.inq = p :: q) :
    (step c s .cRecv).isSome = true := by
  cases p <;> simp [step, hs, hq]

/-- `mv a`: action `a` is enabled, by unfolding `step` with the facts in the context -/
macro "mv " a:term : tactic =>
  `(tactic| exact canMove_of $a (by decide)
      (by simp_all [step, State.dead, outPut, outSkip, onceBegin_isSome, onceSend_isSome, cap]))

/-- somebody is inside errOnce.Do: with the non-blocking DISCONNECT it can always finish -/
theorem move_runner {c : Cfg} {s : State} (hf : c.fix.onceNoBlock = true) (hi : Inv s)
    (h : s.once = .running) : s.canMove c = true := by
  rcases hi.run h with h | h | h
  · mv .rSendDisc
  · mv .hSendDisc
  · mv .xSendDisc

/-- writeLoop can move on a dead socket as soon as it has something to take from `out` or `client.close` is closed -/
theorem move_writer {c : Cfg} {s : State} (hf : c.fix.onceNoBlock = true) (hi : Inv s) (hd : s.dead = true)
    (hw : s.w ≠ .done) (hsel : s.w = .sel → s.outq ≠ [] ∨ s.once = .done) : s.canMove c = true := by
  cases hw' : s.w with
  | sel =>
    rcases hsel hw' with h | h
    · cases hq : s.outq with
      | nil => contradiction
      | cons p q => mv .wRecv
    · mv .wClose
  | write p => mv .wWriteFail
  | drain =>
    cases hq : s.outq with
    | nil => mv .wDrain
    | cons p q => cases p <;> mv .wDrain
  | flushDisc => mv .wFlush
  | flushConnack => mv .wFlushConnack
  | setErr =>
    cases ho : s.once with
    | running => exact move_runner hf hi ho
    | fresh => mv .wErr
    | done => mv .wErr
  | closeSock => mv .wCloseSock
  | done => contradiction

/-- `out` is full and `client.close` still open: writeLoop (or the goroutine inside errOnce.Do) moves -/
theorem move_outFull {c : Cfg} {s : State} (hf : c.fix.onceNoBlock = true) (hi : Inv s) (hd : s.dead = true)
    (ho : s.once ≠ .done) (hfull : ¬ s.outq.length < cap) : s.canMove c = true := by
  cases ho' : s.once with
  | done => contradiction
  | running => exact move_runner hf hi ho'
  | fresh =>
    have hw : s.w ≠ .done := by
      intro h; have := hi.wOnce (Or.inr h); simp_all
    apply move_writer hf hi hd hw
    intro _
    left
    intro hq
    simp [hq, cap] at hfull

/-- `in` holds a packet and `client.close` is still open: its consumer (connectWithTimeOut, then readHandle) moves,
    or whoever the consumer is waiting for -/
theorem move_inNonempty {c : Cfg} {s : State} (hfix : c.fix = Fixes.all) (hi : Inv s) (hd : s.dead = true)
    (ho : s.once ≠ .done) (p : Pkt) (q : List Pkt) (hq : s.inq = p :: q) : s.canMove c = true := by
  have hf : c.fix.onceNoBlock = true := by simp [hfix, Fixes.all]
  cases ho' : s.once with
  | done => contradiction
  | running => exact move_runner hf hi ho'
  | fresh =>
    have hfull (h : ¬ s.outq.length < cap) : s.canMove c = true := move_outFull hf hi hd ho h
    cases hs : s.s with
    | cSel => exact canMove_of .cRecv (by decide) (cRecv_isSome hs hq)
    | cSendAuth =>
      by_cases h : s.outq.length < cap
      · mv .cSendAuth
      · exact hfull h
    | cSendErrConnack =>
      by_cases h : s.outq.length < cap
      · mv .cSendErrConnack
      · exact hfull h
    | cWriteConnack =>
      by_cases h : s.outq.length < cap
      · mv .cWriteConnack
      · exact hfull h
    | cSetErr => mv .cErr
    | cCloseConnected ok => mv .cCloseConnected
    | spawn ok => cases ok <;> mv .sSpawn
    | _ =>
      all_goals
        cases hh : s.h with
        | notStarted =>
          have := hi.hNot (by simp [hs]) (by intro ok; simp [hs]) hh
          contradiction
        | recv => exact canMove_of .hRecv (by decide) (hRecv_isSome hh hq)
        | write =>
          by_cases h : s.outq.length < cap
          · mv .hWrite
          · exact hfull h
        | setErr coded => mv .hErr
        | sendDisc => have := hi.runH hh; simp_all
        | done => have := hi.hOnce hh; contradiction

/-- a goroutine at a `client.write`-like send: room in `out`, or `client.close` closed, or the writer moves -/
theorem move_connect {c : Cfg} {s : State} (hfix : c.fix = Fixes.all) (hi : Inv s) (hd : s.dead = true)
    (hc : s.s.inConnect = true) : s.canMove c = true := by
  have hf : c.fix.onceNoBlock = true := by simp [hfix, Fixes.all]
  have hcs : c.fix.connSelect = true := by simp [hfix, Fixes.all]
  have hfull (ho : s.once ≠ .done) (h : ¬ s.outq.length < cap) : s.canMove c = true := move_outFull hf hi hd ho h
  cases hs : s.s with
  | cSel => mv .cTimeout
  | cSendAuth =>
    by_cases h : s.outq.length < cap
    · mv .cSendAuth
    · by_cases ho : s.once = .done
      · mv .cSendAuthSkip
      · exact hfull ho h
  | cSendErrConnack =>
    by_cases h : s.outq.length < cap
    · mv .cSendErrConnack
    · by_cases ho : s.once = .done
      · mv .cSendErrConnackSkip
      · exact hfull ho h
  | cWriteConnack =>
    by_cases h : s.outq.length < cap
    · mv .cWriteConnack
    · by_cases ho : s.once = .done
      · mv .cWriteConnackSkip
      · exact hfull ho h
  | cSetErr =>
    cases ho : s.once with
    | running => exact move_runner hf hi ho
    | fresh => mv .cErr
    | done => mv .cErr
  | cCloseConnected ok => mv .cCloseConnected
  | _ => simp [hs] at hc

/-- readLoop has exited (so `in` and `client.close` are closed) and writeLoop too: serve() and the goroutines it
    joins run to the end, then the goroutine that took the id over -/
theorem move_afterRead {c : Cfg} {s : State} (hfix : c.fix = Fixes.all) (hi : Inv s) (hd : s.dead = true)
    (hr : s.r = .done) (hw : s.w = .done) (hne : s.exited = false) : s.canMove c = true := by
  have ho : s.once = .done := hi.rOnce (Or.inr hr)
  have hin : s.inClosed = true := hi.inCl.mpr hr
  -- the goroutines joined by client.wg
  have workers (hp : ¬ (s.p = .done ∨ s.p = .notStarted) ∨ ¬ (s.h = .done ∨ s.h = .notStarted))
      (hreg : s.registered = true → s.plExit = true ∧ s.queueClosed = true) : s.canMove c = true := by
    cases hp' : s.p with
    | start => mv .pStart
    | ids =>
      have := (hreg (hi.pReg (Or.inl hp'))).1
      mv .pIdsExit
    | queue =>
      have := (hreg (hi.pReg (Or.inr (Or.inl hp')))).2
      mv .pQueueClosed
    | write => mv .pWriteSkip
    | setErr => mv .pErr
    | _ =>
      all_goals
        cases hh : s.h with
        | recv =>
          cases hq : s.inq with
          | nil => mv .hRecvEnd
          | cons p q => exact canMove_of .hRecv (by decide) (hRecv_isSome hh hq)
        | write => mv .hWriteSkip
        | setErr coded => mv .hErr
        | sendDisc => have := hi.runH hh; simp_all
        | _ => simp_all
  cases hs : s.s with
  | cSel => exact move_connect hfix hi hd (by simp [hs])
  | cSendAuth => exact move_connect hfix hi hd (by simp [hs])
  | cSendErrConnack => exact move_connect hfix hi hd (by simp [hs])
  | cWriteConnack => exact move_connect hfix hi hd (by simp [hs])
  | cSetErr => exact move_connect hfix hi hd (by simp [hs])
  | cCloseConnected ok => exact move_connect hfix hi hd (by simp [hs])
  | spawn ok => cases ok <;> mv .sSpawn
  | waitRead => mv .sWaitRead
  | closeQueue => mv .sCloseQueue
  | closePl => mv .sClosePl
  | waitWg =>
    by_cases hp : (s.p = .done ∨ s.p = .notStarted) ∧ (s.h = .done ∨ s.h = .notStarted)
    · mv .sWaitWg
    · apply workers
      · by_cases h1 : s.p = .done ∨ s.p = .notStarted
        · right; intro h2; exact hp ⟨h1, h2⟩
        · left; exact h1
      · intro hreg
        exact ⟨hi.plEx hs hreg, hi.qCl (Or.inr hs) hreg⟩
  | closeSock => mv .sCloseSock
  | unreg => by_cases hst : s.status = true <;> mv .sUnreg
  | closeClosed => mv .sCloseClosed
  | done =>
    have hj := hi.join (by simp [hs])
    have hcl : s.closedCh = true := hi.clCh.mpr hs
    cases hx : s.x with
    | idle => simp_all [State.exited]
    | done => simp_all [State.exited]
    | setErr => mv .xErr
    | sendDisc => have := hi.runX hx; simp_all
    | closeSock => mv .xCloseSock
    | waitClosed => mv .xWake

/-- PROGRESS (repaired code): the socket is dead and not every goroutine has exited ⇒ some goroutine can move. -/
theorem progress {c : Cfg} {s : State} (hfix : c.fix = Fixes.all) (hi : Inv s) (hd : s.dead = true)
    (hne : s.exited = false) : s.canMove c = true := by
  have hf : c.fix.onceNoBlock = true := by simp [hfix, Fixes.all]
  have hrs : c.fix.readSelect = true := by simp [hfix, Fixes.all]
  cases hr : s.r with
  | read => mv .rReadErr
  | send p =>
    by_cases h : s.inq.length < cap
    · mv .rSend
    · by_cases ho : s.once = .done
      · mv .rSendAbort
      · cases hq : s.inq with
        | nil => simp [hq, cap] at h
        | cons p' q => exact move_inNonempty hfix hi hd ho p' q hq
  | waitConn =>
    by_cases h : s.connectedCh = true
    · mv .rWaitConn
    · exact move_connect hfix hi hd (hi.conn.mp (by simpa using h))
  | setErr coded =>
    cases ho : s.once with
    | running => exact move_runner hf hi ho
    | fresh => mv .rErr
    | done => mv .rErr
  | sendDisc => mv .rSendDisc
  | closeIn => mv .rCloseIn
  | done =>
    by_cases hw : s.w = .done
    · exact move_afterRead hfix hi hd hr hw hne
    · exact move_writer hf hi hd hw (fun _ => Or.inr (hi.rOnce (Or.inr hr)))

end GmqttVerif.Lifecycle
