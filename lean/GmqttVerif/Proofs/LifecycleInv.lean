import GmqttVerif.Model.Lifecycle
/-
  C15 — helper lemmas for the connection lifecycle model: what the `setError` / `client.write` building blocks return,
  the ranking function decreases along every goroutine step (`rank_decreases`), and the inductive invariant `Inv`
  (one lemma `inv_<action>` per action, for EVERY configuration of repairs; `inv_step`, `inv_reachable`).
-/
namespace GmqttVerif.Lifecycle

theorem onceBegin_some {c : Cfg} {s toSend toAfter t : State} {coded : Bool}
    (h : onceBegin c s coded toSend toAfter = some t) :
    (s.once = .fresh ∧ coded = true ∧ c.v5 = true ∧ s.status = true ∧ t = { toSend with once := .running }) ∨
    (s.once = .fresh ∧ (coded && c.v5 && s.status) = false ∧
        t = { toAfter with once := .done, nClose := s.nClose + 1 }) ∨
    (s.once = .done ∧ t = toAfter) := by
  unfold onceBegin at h
  split at h
  · split at h
    · injection h with h; subst h; simp_all
    · injection h with h; subst h; simp_all
  · injection h with h; subst h; simp_all
  · cases h

theorem onceSend_some {c : Cfg} {s toAfter t : State} (h : onceSend c s toAfter = some t) :
    (s.outq.length < cap ∧ t = { toAfter with outq := s.outq ++ [.disc], once := .done, nClose := s.nClose + 1 }) ∨
    (¬ s.outq.length < cap ∧ c.fix.onceNoBlock = true ∧ t = { toAfter with once := .done, nClose := s.nClose + 1 }) := by
  unfold onceSend at h
  split at h
  · injection h with h; subst h; simp_all
  · split at h
    · injection h with h; subst h; simp_all
    · cases h

theorem outPut_some {s toAfter t : State} {p : OPkt} (h : outPut s toAfter p = some t) :
    s.outq.length < cap ∧ t = { toAfter with outq := s.outq ++ [p] } := by
  unfold outPut at h
  split at h
  · injection h with h; subst h; simp_all
  · cases h

theorem outSkip_some {s toAfter t : State} (h : outSkip s toAfter = some t) :
    s.once = .done ∧ t = toAfter := by
  unfold outSkip at h
  split at h
  · injection h with h; subst h; simp_all
  · cases h

macro "rk" : tactic => `(tactic| (simp_all [rank, rankR, rankW, rankS, rankP, rankH, rankX, List.length_append] <;> omega))

theorem rank_decreases (c : Cfg) (s t : State) (a : Act) (ha : a.isEnv = false)
    (h : step c s a = some t) : rank t < rank s := by
  cases a <;> simp only [Act.isEnv] at ha <;> try (cases ha)
  all_goals simp only [step] at h
  all_goals (repeat' (split at h))
  all_goals (first | (cases h; done) | skip)
  all_goals (try (injection h with h; subst h))
  all_goals (try (simp_all [rank, rankR, rankW, rankS, rankP, rankH, rankX, List.length_append]; done))
  all_goals (try (simp_all [rank, rankR, rankW, rankS, rankP, rankH, rankX, List.length_append]; omega))
  all_goals first
    | (rcases onceBegin_some h with ⟨_, _, _, _, rfl⟩ | ⟨_, _, rfl⟩ | ⟨_, rfl⟩ <;> rk)
    | (rcases onceSend_some h with ⟨_, rfl⟩ | ⟨_, _, rfl⟩ <;> rk)
    | (obtain ⟨_, rfl⟩ := outPut_some h; rk)
    | (obtain ⟨_, rfl⟩ := outSkip_some h; rk)

@[simp] def SPC.inConnect : SPC → Bool
  | .cSel | .cSendAuth | .cSendErrConnack | .cWriteConnack | .cSetErr | .cCloseConnected _ => true
  | _ => false
@[simp] def SPC.afterRead : SPC → Bool
  | .closeQueue | .closePl | .waitWg | .closeSock | .unreg | .closeClosed | .done => true
  | _ => false
@[simp] def SPC.joined : SPC → Bool
  | .closeSock | .unreg | .closeClosed | .done => true
  | _ => false
@[simp] def PPC.fin : PPC → Bool
  | .done | .notStarted => true
  | _ => false
@[simp] def HPC.fin : HPC → Bool
  | .done | .notStarted => true
  | _ => false
@[simp] def PPC.loop : PPC → Bool
  | .ids | .queue | .write => true
  | _ => false

structure Inv (s : State) : Prop where
  rOnce : s.r = .closeIn ∨ s.r = .done → s.once = .done
  wOnce : s.w = .closeSock ∨ s.w = .done → s.once = .done
  hOnce : s.h = .done → s.once = .done
  pOnce : s.p = .done → s.once = .done
  sOnce : s.s = .cCloseConnected false ∨ s.s = .spawn false → s.once = .done
  hNot : s.s.inConnect = false → (∀ ok, s.s ≠ .spawn ok) → s.h = .notStarted → s.once = .done
  runR : s.r = .sendDisc → s.once = .running
  runH : s.h = .sendDisc → s.once = .running
  runX : s.x = .sendDisc → s.once = .running
  run : s.once = .running → s.r = .sendDisc ∨ s.h = .sendDisc ∨ s.x = .sendDisc
  inCl : s.inClosed = true ↔ s.r = .done
  conn : s.connectedCh = false ↔ s.s.inConnect = true
  aftR : s.s.afterRead = true → s.r = .done
  join : s.s.joined = true → s.w = .done ∧ (s.p = .done ∨ s.p = .notStarted) ∧ (s.h = .done ∨ s.h = .notStarted)
  early : s.s.inConnect = true ∨ (∃ ok, s.s = .spawn ok) → s.p = .notStarted ∧ s.h = .notStarted
  pReg : s.p = .ids ∨ s.p = .queue ∨ s.p = .write → s.registered = true
  excl1 : s.r = .sendDisc → s.h ≠ .sendDisc ∧ s.x ≠ .sendDisc
  excl2 : s.h = .sendDisc → s.x ≠ .sendDisc
  qCl : s.s = .closePl ∨ s.s = .waitWg → s.registered = true → s.queueClosed = true
  plEx : s.s = .waitWg → s.registered = true → s.plExit = true
  clCh : s.closedCh = true ↔ s.s = .done
  dereg : s.s = .closeClosed ∨ s.s = .done → s.registered = false ∧ (s.status = true → s.unregistered = true)
  regSt : s.registered = true → s.status = true
  unr : s.unregistered = true → s.s = .closeClosed ∨ s.s = .done
  nClose : s.nClose = if s.once = .done then 1 else 0
  nIn : s.nIn = if s.r = .done then 1 else 0
  nConn : s.nConnected = if s.connectedCh = true then 1 else 0
  nClosed : s.nClosed = if s.closedCh = true then 1 else 0
  nUnreg : s.nUnreg = if s.unregistered = true then 1 else 0

theorem inv_init : Inv init := by
  constructor <;> simp [init]


macro "inv_fin" : tactic => `(tactic| (constructor <;> first | assumption | grind [SPC.inConnect, SPC.afterRead, SPC.joined]))


theorem inv_send (c : Cfg) (s t : State) (p : Pkt) (hi : Inv s) (h : step c s (.send p) = some t) : Inv t := by
  obtain ⟨h1,h2,h3,h4,h5,h6,h7,h8,h9,h10,h11,h12,h13,h14,h15,h16,h17,h18,h19,h20,h21,h22,h23,h24,h25,h26,h27,h28,h29⟩ := hi
  simp only [step] at h
  (repeat' (split at h))
  all_goals (first | (cases h; done) | skip)
  all_goals (try (injection h with h; subst h))
  all_goals first
    | (have h' := onceBegin_some h; clear h; rcases h' with ⟨_, _, _, _, rfl⟩ | ⟨_, _, rfl⟩ | ⟨_, rfl⟩)
    | (have h' := onceSend_some h; clear h; rcases h' with ⟨_, rfl⟩ | ⟨_, _, rfl⟩)
    | (have h' := outPut_some h; clear h; obtain ⟨_, rfl⟩ := h')
    | (have h' := outSkip_some h; clear h; obtain ⟨_, rfl⟩ := h')
    | skip
  all_goals inv_fin

theorem inv_peerClose (c : Cfg) (s t : State) (hi : Inv s) (h : step c s (.peerClose) = some t) : Inv t := by
  obtain ⟨h1,h2,h3,h4,h5,h6,h7,h8,h9,h10,h11,h12,h13,h14,h15,h16,h17,h18,h19,h20,h21,h22,h23,h24,h25,h26,h27,h28,h29⟩ := hi
  simp only [step] at h
  (repeat' (split at h))
  all_goals (first | (cases h; done) | skip)
  all_goals (try (injection h with h; subst h))
  all_goals first
    | (have h' := onceBegin_some h; clear h; rcases h' with ⟨_, _, _, _, rfl⟩ | ⟨_, _, rfl⟩ | ⟨_, rfl⟩)
    | (have h' := onceSend_some h; clear h; rcases h' with ⟨_, rfl⟩ | ⟨_, _, rfl⟩)
    | (have h' := outPut_some h; clear h; obtain ⟨_, rfl⟩ := h')
    | (have h' := outSkip_some h; clear h; obtain ⟨_, rfl⟩ := h')
    | skip
  all_goals inv_fin

theorem inv_srvClose (c : Cfg) (s t : State) (hi : Inv s) (h : step c s (.srvClose) = some t) : Inv t := by
  obtain ⟨h1,h2,h3,h4,h5,h6,h7,h8,h9,h10,h11,h12,h13,h14,h15,h16,h17,h18,h19,h20,h21,h22,h23,h24,h25,h26,h27,h28,h29⟩ := hi
  simp only [step] at h
  (repeat' (split at h))
  all_goals (first | (cases h; done) | skip)
  all_goals (try (injection h with h; subst h))
  all_goals first
    | (have h' := onceBegin_some h; clear h; rcases h' with ⟨_, _, _, _, rfl⟩ | ⟨_, _, rfl⟩ | ⟨_, rfl⟩)
    | (have h' := onceSend_some h; clear h; rcases h' with ⟨_, rfl⟩ | ⟨_, _, rfl⟩)
    | (have h' := outPut_some h; clear h; obtain ⟨_, rfl⟩ := h')
    | (have h' := outSkip_some h; clear h; obtain ⟨_, rfl⟩ := h')
    | skip
  all_goals inv_fin

theorem inv_kill (c : Cfg) (s t : State) (hi : Inv s) (h : step c s (.kill) = some t) : Inv t := by
  obtain ⟨h1,h2,h3,h4,h5,h6,h7,h8,h9,h10,h11,h12,h13,h14,h15,h16,h17,h18,h19,h20,h21,h22,h23,h24,h25,h26,h27,h28,h29⟩ := hi
  simp only [step] at h
  (repeat' (split at h))
  all_goals (first | (cases h; done) | skip)
  all_goals (try (injection h with h; subst h))
  all_goals first
    | (have h' := onceBegin_some h; clear h; rcases h' with ⟨_, _, _, _, rfl⟩ | ⟨_, _, rfl⟩ | ⟨_, rfl⟩)
    | (have h' := onceSend_some h; clear h; rcases h' with ⟨_, rfl⟩ | ⟨_, _, rfl⟩)
    | (have h' := outPut_some h; clear h; obtain ⟨_, rfl⟩ := h')
    | (have h' := outSkip_some h; clear h; obtain ⟨_, rfl⟩ := h')
    | skip
  all_goals inv_fin

theorem inv_enqueue (c : Cfg) (s t : State) (hi : Inv s) (h : step c s (.enqueue) = some t) : Inv t := by
  obtain ⟨h1,h2,h3,h4,h5,h6,h7,h8,h9,h10,h11,h12,h13,h14,h15,h16,h17,h18,h19,h20,h21,h22,h23,h24,h25,h26,h27,h28,h29⟩ := hi
  simp only [step] at h
  (repeat' (split at h))
  all_goals (first | (cases h; done) | skip)
  all_goals (try (injection h with h; subst h))
  all_goals first
    | (have h' := onceBegin_some h; clear h; rcases h' with ⟨_, _, _, _, rfl⟩ | ⟨_, _, rfl⟩ | ⟨_, rfl⟩)
    | (have h' := onceSend_some h; clear h; rcases h' with ⟨_, rfl⟩ | ⟨_, _, rfl⟩)
    | (have h' := outPut_some h; clear h; obtain ⟨_, rfl⟩ := h')
    | (have h' := outSkip_some h; clear h; obtain ⟨_, rfl⟩ := h')
    | skip
  all_goals inv_fin

theorem inv_setIds (c : Cfg) (s t : State) (b : Bool) (hi : Inv s) (h : step c s (.setIds b) = some t) : Inv t := by
  obtain ⟨h1,h2,h3,h4,h5,h6,h7,h8,h9,h10,h11,h12,h13,h14,h15,h16,h17,h18,h19,h20,h21,h22,h23,h24,h25,h26,h27,h28,h29⟩ := hi
  simp only [step] at h
  (repeat' (split at h))
  all_goals (first | (cases h; done) | skip)
  all_goals (try (injection h with h; subst h))
  all_goals first
    | (have h' := onceBegin_some h; clear h; rcases h' with ⟨_, _, _, _, rfl⟩ | ⟨_, _, rfl⟩ | ⟨_, rfl⟩)
    | (have h' := onceSend_some h; clear h; rcases h' with ⟨_, rfl⟩ | ⟨_, _, rfl⟩)
    | (have h' := outPut_some h; clear h; obtain ⟨_, rfl⟩ := h')
    | (have h' := outSkip_some h; clear h; obtain ⟨_, rfl⟩ := h')
    | skip
  all_goals inv_fin

theorem inv_setStall (c : Cfg) (s t : State) (b : Bool) (hi : Inv s) (h : step c s (.setStall b) = some t) : Inv t := by
  obtain ⟨h1,h2,h3,h4,h5,h6,h7,h8,h9,h10,h11,h12,h13,h14,h15,h16,h17,h18,h19,h20,h21,h22,h23,h24,h25,h26,h27,h28,h29⟩ := hi
  simp only [step] at h
  (repeat' (split at h))
  all_goals (first | (cases h; done) | skip)
  all_goals (try (injection h with h; subst h))
  all_goals first
    | (have h' := onceBegin_some h; clear h; rcases h' with ⟨_, _, _, _, rfl⟩ | ⟨_, _, rfl⟩ | ⟨_, rfl⟩)
    | (have h' := onceSend_some h; clear h; rcases h' with ⟨_, rfl⟩ | ⟨_, _, rfl⟩)
    | (have h' := outPut_some h; clear h; obtain ⟨_, rfl⟩ := h')
    | (have h' := outSkip_some h; clear h; obtain ⟨_, rfl⟩ := h')
    | skip
  all_goals inv_fin

theorem inv_rRead (c : Cfg) (s t : State) (hi : Inv s) (h : step c s (.rRead) = some t) : Inv t := by
  obtain ⟨h1,h2,h3,h4,h5,h6,h7,h8,h9,h10,h11,h12,h13,h14,h15,h16,h17,h18,h19,h20,h21,h22,h23,h24,h25,h26,h27,h28,h29⟩ := hi
  simp only [step] at h
  (repeat' (split at h))
  all_goals (first | (cases h; done) | skip)
  all_goals (try (injection h with h; subst h))
  all_goals first
    | (have h' := onceBegin_some h; clear h; rcases h' with ⟨_, _, _, _, rfl⟩ | ⟨_, _, rfl⟩ | ⟨_, rfl⟩)
    | (have h' := onceSend_some h; clear h; rcases h' with ⟨_, rfl⟩ | ⟨_, _, rfl⟩)
    | (have h' := outPut_some h; clear h; obtain ⟨_, rfl⟩ := h')
    | (have h' := outSkip_some h; clear h; obtain ⟨_, rfl⟩ := h')
    | skip
  all_goals inv_fin

theorem inv_rReadErr (c : Cfg) (s t : State) (hi : Inv s) (h : step c s (.rReadErr) = some t) : Inv t := by
  obtain ⟨h1,h2,h3,h4,h5,h6,h7,h8,h9,h10,h11,h12,h13,h14,h15,h16,h17,h18,h19,h20,h21,h22,h23,h24,h25,h26,h27,h28,h29⟩ := hi
  simp only [step] at h
  (repeat' (split at h))
  all_goals (first | (cases h; done) | skip)
  all_goals (try (injection h with h; subst h))
  all_goals first
    | (have h' := onceBegin_some h; clear h; rcases h' with ⟨_, _, _, _, rfl⟩ | ⟨_, _, rfl⟩ | ⟨_, rfl⟩)
    | (have h' := onceSend_some h; clear h; rcases h' with ⟨_, rfl⟩ | ⟨_, _, rfl⟩)
    | (have h' := outPut_some h; clear h; obtain ⟨_, rfl⟩ := h')
    | (have h' := outSkip_some h; clear h; obtain ⟨_, rfl⟩ := h')
    | skip
  all_goals inv_fin

theorem inv_rSend (c : Cfg) (s t : State) (hi : Inv s) (h : step c s (.rSend) = some t) : Inv t := by
  obtain ⟨h1,h2,h3,h4,h5,h6,h7,h8,h9,h10,h11,h12,h13,h14,h15,h16,h17,h18,h19,h20,h21,h22,h23,h24,h25,h26,h27,h28,h29⟩ := hi
  simp only [step] at h
  (repeat' (split at h))
  all_goals (first | (cases h; done) | skip)
  all_goals (try (injection h with h; subst h))
  all_goals first
    | (have h' := onceBegin_some h; clear h; rcases h' with ⟨_, _, _, _, rfl⟩ | ⟨_, _, rfl⟩ | ⟨_, rfl⟩)
    | (have h' := onceSend_some h; clear h; rcases h' with ⟨_, rfl⟩ | ⟨_, _, rfl⟩)
    | (have h' := outPut_some h; clear h; obtain ⟨_, rfl⟩ := h')
    | (have h' := outSkip_some h; clear h; obtain ⟨_, rfl⟩ := h')
    | skip
  all_goals inv_fin

theorem inv_rSendAbort (c : Cfg) (s t : State) (hi : Inv s) (h : step c s (.rSendAbort) = some t) : Inv t := by
  obtain ⟨h1,h2,h3,h4,h5,h6,h7,h8,h9,h10,h11,h12,h13,h14,h15,h16,h17,h18,h19,h20,h21,h22,h23,h24,h25,h26,h27,h28,h29⟩ := hi
  simp only [step] at h
  (repeat' (split at h))
  all_goals (first | (cases h; done) | skip)
  all_goals (try (injection h with h; subst h))
  all_goals first
    | (have h' := onceBegin_some h; clear h; rcases h' with ⟨_, _, _, _, rfl⟩ | ⟨_, _, rfl⟩ | ⟨_, rfl⟩)
    | (have h' := onceSend_some h; clear h; rcases h' with ⟨_, rfl⟩ | ⟨_, _, rfl⟩)
    | (have h' := outPut_some h; clear h; obtain ⟨_, rfl⟩ := h')
    | (have h' := outSkip_some h; clear h; obtain ⟨_, rfl⟩ := h')
    | skip
  all_goals inv_fin

theorem inv_rWaitConn (c : Cfg) (s t : State) (hi : Inv s) (h : step c s (.rWaitConn) = some t) : Inv t := by
  obtain ⟨h1,h2,h3,h4,h5,h6,h7,h8,h9,h10,h11,h12,h13,h14,h15,h16,h17,h18,h19,h20,h21,h22,h23,h24,h25,h26,h27,h28,h29⟩ := hi
  simp only [step] at h
  (repeat' (split at h))
  all_goals (first | (cases h; done) | skip)
  all_goals (try (injection h with h; subst h))
  all_goals first
    | (have h' := onceBegin_some h; clear h; rcases h' with ⟨_, _, _, _, rfl⟩ | ⟨_, _, rfl⟩ | ⟨_, rfl⟩)
    | (have h' := onceSend_some h; clear h; rcases h' with ⟨_, rfl⟩ | ⟨_, _, rfl⟩)
    | (have h' := outPut_some h; clear h; obtain ⟨_, rfl⟩ := h')
    | (have h' := outSkip_some h; clear h; obtain ⟨_, rfl⟩ := h')
    | skip
  all_goals inv_fin

theorem inv_rAuthStep (c : Cfg) (s t : State) (hi : Inv s) (h : step c s (.rAuthStep) = some t) : Inv t := by
  obtain ⟨h1,h2,h3,h4,h5,h6,h7,h8,h9,h10,h11,h12,h13,h14,h15,h16,h17,h18,h19,h20,h21,h22,h23,h24,h25,h26,h27,h28,h29⟩ := hi
  simp only [step] at h
  (repeat' (split at h))
  all_goals (first | (cases h; done) | skip)
  all_goals (try (injection h with h; subst h))
  all_goals first
    | (have h' := onceBegin_some h; clear h; rcases h' with ⟨_, _, _, _, rfl⟩ | ⟨_, _, rfl⟩ | ⟨_, rfl⟩)
    | (have h' := onceSend_some h; clear h; rcases h' with ⟨_, rfl⟩ | ⟨_, _, rfl⟩)
    | (have h' := outPut_some h; clear h; obtain ⟨_, rfl⟩ := h')
    | (have h' := outSkip_some h; clear h; obtain ⟨_, rfl⟩ := h')
    | skip
  all_goals inv_fin

theorem inv_rErr (c : Cfg) (s t : State) (hi : Inv s) (h : step c s (.rErr) = some t) : Inv t := by
  obtain ⟨h1,h2,h3,h4,h5,h6,h7,h8,h9,h10,h11,h12,h13,h14,h15,h16,h17,h18,h19,h20,h21,h22,h23,h24,h25,h26,h27,h28,h29⟩ := hi
  simp only [step] at h
  (repeat' (split at h))
  all_goals (first | (cases h; done) | skip)
  all_goals (try (injection h with h; subst h))
  all_goals first
    | (have h' := onceBegin_some h; clear h; rcases h' with ⟨_, _, _, _, rfl⟩ | ⟨_, _, rfl⟩ | ⟨_, rfl⟩)
    | (have h' := onceSend_some h; clear h; rcases h' with ⟨_, rfl⟩ | ⟨_, _, rfl⟩)
    | (have h' := outPut_some h; clear h; obtain ⟨_, rfl⟩ := h')
    | (have h' := outSkip_some h; clear h; obtain ⟨_, rfl⟩ := h')
    | skip
  all_goals inv_fin

theorem inv_rSendDisc (c : Cfg) (s t : State) (hi : Inv s) (h : step c s (.rSendDisc) = some t) : Inv t := by
  obtain ⟨h1,h2,h3,h4,h5,h6,h7,h8,h9,h10,h11,h12,h13,h14,h15,h16,h17,h18,h19,h20,h21,h22,h23,h24,h25,h26,h27,h28,h29⟩ := hi
  simp only [step] at h
  (repeat' (split at h))
  all_goals (first | (cases h; done) | skip)
  all_goals (try (injection h with h; subst h))
  all_goals first
    | (have h' := onceBegin_some h; clear h; rcases h' with ⟨_, _, _, _, rfl⟩ | ⟨_, _, rfl⟩ | ⟨_, rfl⟩)
    | (have h' := onceSend_some h; clear h; rcases h' with ⟨_, rfl⟩ | ⟨_, _, rfl⟩)
    | (have h' := outPut_some h; clear h; obtain ⟨_, rfl⟩ := h')
    | (have h' := outSkip_some h; clear h; obtain ⟨_, rfl⟩ := h')
    | skip
  all_goals inv_fin

theorem inv_rCloseIn (c : Cfg) (s t : State) (hi : Inv s) (h : step c s (.rCloseIn) = some t) : Inv t := by
  obtain ⟨h1,h2,h3,h4,h5,h6,h7,h8,h9,h10,h11,h12,h13,h14,h15,h16,h17,h18,h19,h20,h21,h22,h23,h24,h25,h26,h27,h28,h29⟩ := hi
  simp only [step] at h
  (repeat' (split at h))
  all_goals (first | (cases h; done) | skip)
  all_goals (try (injection h with h; subst h))
  all_goals first
    | (have h' := onceBegin_some h; clear h; rcases h' with ⟨_, _, _, _, rfl⟩ | ⟨_, _, rfl⟩ | ⟨_, rfl⟩)
    | (have h' := onceSend_some h; clear h; rcases h' with ⟨_, rfl⟩ | ⟨_, _, rfl⟩)
    | (have h' := outPut_some h; clear h; obtain ⟨_, rfl⟩ := h')
    | (have h' := outSkip_some h; clear h; obtain ⟨_, rfl⟩ := h')
    | skip
  all_goals inv_fin

theorem inv_wRecv (c : Cfg) (s t : State) (hi : Inv s) (h : step c s (.wRecv) = some t) : Inv t := by
  obtain ⟨h1,h2,h3,h4,h5,h6,h7,h8,h9,h10,h11,h12,h13,h14,h15,h16,h17,h18,h19,h20,h21,h22,h23,h24,h25,h26,h27,h28,h29⟩ := hi
  simp only [step] at h
  (repeat' (split at h))
  all_goals (first | (cases h; done) | skip)
  all_goals (try (injection h with h; subst h))
  all_goals first
    | (have h' := onceBegin_some h; clear h; rcases h' with ⟨_, _, _, _, rfl⟩ | ⟨_, _, rfl⟩ | ⟨_, rfl⟩)
    | (have h' := onceSend_some h; clear h; rcases h' with ⟨_, rfl⟩ | ⟨_, _, rfl⟩)
    | (have h' := outPut_some h; clear h; obtain ⟨_, rfl⟩ := h')
    | (have h' := outSkip_some h; clear h; obtain ⟨_, rfl⟩ := h')
    | skip
  all_goals inv_fin

theorem inv_wClose (c : Cfg) (s t : State) (hi : Inv s) (h : step c s (.wClose) = some t) : Inv t := by
  obtain ⟨h1,h2,h3,h4,h5,h6,h7,h8,h9,h10,h11,h12,h13,h14,h15,h16,h17,h18,h19,h20,h21,h22,h23,h24,h25,h26,h27,h28,h29⟩ := hi
  simp only [step] at h
  (repeat' (split at h))
  all_goals (first | (cases h; done) | skip)
  all_goals (try (injection h with h; subst h))
  all_goals first
    | (have h' := onceBegin_some h; clear h; rcases h' with ⟨_, _, _, _, rfl⟩ | ⟨_, _, rfl⟩ | ⟨_, rfl⟩)
    | (have h' := onceSend_some h; clear h; rcases h' with ⟨_, rfl⟩ | ⟨_, _, rfl⟩)
    | (have h' := outPut_some h; clear h; obtain ⟨_, rfl⟩ := h')
    | (have h' := outSkip_some h; clear h; obtain ⟨_, rfl⟩ := h')
    | skip
  all_goals inv_fin

theorem inv_wWriteOk (c : Cfg) (s t : State) (hi : Inv s) (h : step c s (.wWriteOk) = some t) : Inv t := by
  obtain ⟨h1,h2,h3,h4,h5,h6,h7,h8,h9,h10,h11,h12,h13,h14,h15,h16,h17,h18,h19,h20,h21,h22,h23,h24,h25,h26,h27,h28,h29⟩ := hi
  simp only [step] at h
  (repeat' (split at h))
  all_goals (first | (cases h; done) | skip)
  all_goals (try (injection h with h; subst h))
  all_goals first
    | (have h' := onceBegin_some h; clear h; rcases h' with ⟨_, _, _, _, rfl⟩ | ⟨_, _, rfl⟩ | ⟨_, rfl⟩)
    | (have h' := onceSend_some h; clear h; rcases h' with ⟨_, rfl⟩ | ⟨_, _, rfl⟩)
    | (have h' := outPut_some h; clear h; obtain ⟨_, rfl⟩ := h')
    | (have h' := outSkip_some h; clear h; obtain ⟨_, rfl⟩ := h')
    | skip
  all_goals inv_fin

theorem inv_wWriteFail (c : Cfg) (s t : State) (hi : Inv s) (h : step c s (.wWriteFail) = some t) : Inv t := by
  obtain ⟨h1,h2,h3,h4,h5,h6,h7,h8,h9,h10,h11,h12,h13,h14,h15,h16,h17,h18,h19,h20,h21,h22,h23,h24,h25,h26,h27,h28,h29⟩ := hi
  simp only [step] at h
  (repeat' (split at h))
  all_goals (first | (cases h; done) | skip)
  all_goals (try (injection h with h; subst h))
  all_goals first
    | (have h' := onceBegin_some h; clear h; rcases h' with ⟨_, _, _, _, rfl⟩ | ⟨_, _, rfl⟩ | ⟨_, rfl⟩)
    | (have h' := onceSend_some h; clear h; rcases h' with ⟨_, rfl⟩ | ⟨_, _, rfl⟩)
    | (have h' := outPut_some h; clear h; obtain ⟨_, rfl⟩ := h')
    | (have h' := outSkip_some h; clear h; obtain ⟨_, rfl⟩ := h')
    | skip
  all_goals inv_fin

theorem inv_wDrain (c : Cfg) (s t : State) (hi : Inv s) (h : step c s (.wDrain) = some t) : Inv t := by
  obtain ⟨h1,h2,h3,h4,h5,h6,h7,h8,h9,h10,h11,h12,h13,h14,h15,h16,h17,h18,h19,h20,h21,h22,h23,h24,h25,h26,h27,h28,h29⟩ := hi
  simp only [step] at h
  (repeat' (split at h))
  all_goals (first | (cases h; done) | skip)
  all_goals (try (injection h with h; subst h))
  all_goals first
    | (have h' := onceBegin_some h; clear h; rcases h' with ⟨_, _, _, _, rfl⟩ | ⟨_, _, rfl⟩ | ⟨_, rfl⟩)
    | (have h' := onceSend_some h; clear h; rcases h' with ⟨_, rfl⟩ | ⟨_, _, rfl⟩)
    | (have h' := outPut_some h; clear h; obtain ⟨_, rfl⟩ := h')
    | (have h' := outSkip_some h; clear h; obtain ⟨_, rfl⟩ := h')
    | skip
  all_goals inv_fin

theorem inv_wFlush (c : Cfg) (s t : State) (hi : Inv s) (h : step c s (.wFlush) = some t) : Inv t := by
  obtain ⟨h1,h2,h3,h4,h5,h6,h7,h8,h9,h10,h11,h12,h13,h14,h15,h16,h17,h18,h19,h20,h21,h22,h23,h24,h25,h26,h27,h28,h29⟩ := hi
  simp only [step] at h
  (repeat' (split at h))
  all_goals (first | (cases h; done) | skip)
  all_goals (try (injection h with h; subst h))
  all_goals first
    | (have h' := onceBegin_some h; clear h; rcases h' with ⟨_, _, _, _, rfl⟩ | ⟨_, _, rfl⟩ | ⟨_, rfl⟩)
    | (have h' := onceSend_some h; clear h; rcases h' with ⟨_, rfl⟩ | ⟨_, _, rfl⟩)
    | (have h' := outPut_some h; clear h; obtain ⟨_, rfl⟩ := h')
    | (have h' := outSkip_some h; clear h; obtain ⟨_, rfl⟩ := h')
    | skip
  all_goals inv_fin

theorem inv_wFlushConnack (c : Cfg) (s t : State) (hi : Inv s) (h : step c s (.wFlushConnack) = some t) : Inv t := by
  obtain ⟨h1,h2,h3,h4,h5,h6,h7,h8,h9,h10,h11,h12,h13,h14,h15,h16,h17,h18,h19,h20,h21,h22,h23,h24,h25,h26,h27,h28,h29⟩ := hi
  simp only [step] at h
  (repeat' (split at h))
  all_goals (first | (cases h; done) | skip)
  all_goals (try (injection h with h; subst h))
  all_goals first
    | (have h' := onceBegin_some h; clear h; rcases h' with ⟨_, _, _, _, rfl⟩ | ⟨_, _, rfl⟩ | ⟨_, rfl⟩)
    | (have h' := onceSend_some h; clear h; rcases h' with ⟨_, rfl⟩ | ⟨_, _, rfl⟩)
    | (have h' := outPut_some h; clear h; obtain ⟨_, rfl⟩ := h')
    | (have h' := outSkip_some h; clear h; obtain ⟨_, rfl⟩ := h')
    | skip
  all_goals inv_fin

theorem inv_wErr (c : Cfg) (s t : State) (hi : Inv s) (h : step c s (.wErr) = some t) : Inv t := by
  obtain ⟨h1,h2,h3,h4,h5,h6,h7,h8,h9,h10,h11,h12,h13,h14,h15,h16,h17,h18,h19,h20,h21,h22,h23,h24,h25,h26,h27,h28,h29⟩ := hi
  simp only [step] at h
  (repeat' (split at h))
  all_goals (first | (cases h; done) | skip)
  all_goals (try (injection h with h; subst h))
  all_goals first
    | (have h' := onceBegin_some h; clear h; rcases h' with ⟨_, _, _, _, rfl⟩ | ⟨_, _, rfl⟩ | ⟨_, rfl⟩)
    | (have h' := onceSend_some h; clear h; rcases h' with ⟨_, rfl⟩ | ⟨_, _, rfl⟩)
    | (have h' := outPut_some h; clear h; obtain ⟨_, rfl⟩ := h')
    | (have h' := outSkip_some h; clear h; obtain ⟨_, rfl⟩ := h')
    | skip
  all_goals inv_fin

theorem inv_wCloseSock (c : Cfg) (s t : State) (hi : Inv s) (h : step c s (.wCloseSock) = some t) : Inv t := by
  obtain ⟨h1,h2,h3,h4,h5,h6,h7,h8,h9,h10,h11,h12,h13,h14,h15,h16,h17,h18,h19,h20,h21,h22,h23,h24,h25,h26,h27,h28,h29⟩ := hi
  simp only [step] at h
  (repeat' (split at h))
  all_goals (first | (cases h; done) | skip)
  all_goals (try (injection h with h; subst h))
  all_goals first
    | (have h' := onceBegin_some h; clear h; rcases h' with ⟨_, _, _, _, rfl⟩ | ⟨_, _, rfl⟩ | ⟨_, rfl⟩)
    | (have h' := onceSend_some h; clear h; rcases h' with ⟨_, rfl⟩ | ⟨_, _, rfl⟩)
    | (have h' := outPut_some h; clear h; obtain ⟨_, rfl⟩ := h')
    | (have h' := outSkip_some h; clear h; obtain ⟨_, rfl⟩ := h')
    | skip
  all_goals inv_fin

theorem inv_cRecv (c : Cfg) (s t : State) (hi : Inv s) (h : step c s (.cRecv) = some t) : Inv t := by
  obtain ⟨h1,h2,h3,h4,h5,h6,h7,h8,h9,h10,h11,h12,h13,h14,h15,h16,h17,h18,h19,h20,h21,h22,h23,h24,h25,h26,h27,h28,h29⟩ := hi
  simp only [step] at h
  (repeat' (split at h))
  all_goals (first | (cases h; done) | skip)
  all_goals (try (injection h with h; subst h))
  all_goals first
    | (have h' := onceBegin_some h; clear h; rcases h' with ⟨_, _, _, _, rfl⟩ | ⟨_, _, rfl⟩ | ⟨_, rfl⟩)
    | (have h' := onceSend_some h; clear h; rcases h' with ⟨_, rfl⟩ | ⟨_, _, rfl⟩)
    | (have h' := outPut_some h; clear h; obtain ⟨_, rfl⟩ := h')
    | (have h' := outSkip_some h; clear h; obtain ⟨_, rfl⟩ := h')
    | skip
  all_goals inv_fin

theorem inv_cRecvNil (c : Cfg) (s t : State) (hi : Inv s) (h : step c s (.cRecvNil) = some t) : Inv t := by
  obtain ⟨h1,h2,h3,h4,h5,h6,h7,h8,h9,h10,h11,h12,h13,h14,h15,h16,h17,h18,h19,h20,h21,h22,h23,h24,h25,h26,h27,h28,h29⟩ := hi
  simp only [step] at h
  (repeat' (split at h))
  all_goals (first | (cases h; done) | skip)
  all_goals (try (injection h with h; subst h))
  all_goals first
    | (have h' := onceBegin_some h; clear h; rcases h' with ⟨_, _, _, _, rfl⟩ | ⟨_, _, rfl⟩ | ⟨_, rfl⟩)
    | (have h' := onceSend_some h; clear h; rcases h' with ⟨_, rfl⟩ | ⟨_, _, rfl⟩)
    | (have h' := outPut_some h; clear h; obtain ⟨_, rfl⟩ := h')
    | (have h' := outSkip_some h; clear h; obtain ⟨_, rfl⟩ := h')
    | skip
  all_goals inv_fin

theorem inv_cTimeout (c : Cfg) (s t : State) (hi : Inv s) (h : step c s (.cTimeout) = some t) : Inv t := by
  obtain ⟨h1,h2,h3,h4,h5,h6,h7,h8,h9,h10,h11,h12,h13,h14,h15,h16,h17,h18,h19,h20,h21,h22,h23,h24,h25,h26,h27,h28,h29⟩ := hi
  simp only [step] at h
  (repeat' (split at h))
  all_goals (first | (cases h; done) | skip)
  all_goals (try (injection h with h; subst h))
  all_goals first
    | (have h' := onceBegin_some h; clear h; rcases h' with ⟨_, _, _, _, rfl⟩ | ⟨_, _, rfl⟩ | ⟨_, rfl⟩)
    | (have h' := onceSend_some h; clear h; rcases h' with ⟨_, rfl⟩ | ⟨_, _, rfl⟩)
    | (have h' := outPut_some h; clear h; obtain ⟨_, rfl⟩ := h')
    | (have h' := outSkip_some h; clear h; obtain ⟨_, rfl⟩ := h')
    | skip
  all_goals inv_fin

theorem inv_cSendAuth (c : Cfg) (s t : State) (hi : Inv s) (h : step c s (.cSendAuth) = some t) : Inv t := by
  obtain ⟨h1,h2,h3,h4,h5,h6,h7,h8,h9,h10,h11,h12,h13,h14,h15,h16,h17,h18,h19,h20,h21,h22,h23,h24,h25,h26,h27,h28,h29⟩ := hi
  simp only [step] at h
  (repeat' (split at h))
  all_goals (first | (cases h; done) | skip)
  all_goals (try (injection h with h; subst h))
  all_goals first
    | (have h' := onceBegin_some h; clear h; rcases h' with ⟨_, _, _, _, rfl⟩ | ⟨_, _, rfl⟩ | ⟨_, rfl⟩)
    | (have h' := onceSend_some h; clear h; rcases h' with ⟨_, rfl⟩ | ⟨_, _, rfl⟩)
    | (have h' := outPut_some h; clear h; obtain ⟨_, rfl⟩ := h')
    | (have h' := outSkip_some h; clear h; obtain ⟨_, rfl⟩ := h')
    | skip
  all_goals inv_fin

theorem inv_cSendAuthSkip (c : Cfg) (s t : State) (hi : Inv s) (h : step c s (.cSendAuthSkip) = some t) : Inv t := by
  obtain ⟨h1,h2,h3,h4,h5,h6,h7,h8,h9,h10,h11,h12,h13,h14,h15,h16,h17,h18,h19,h20,h21,h22,h23,h24,h25,h26,h27,h28,h29⟩ := hi
  simp only [step] at h
  (repeat' (split at h))
  all_goals (first | (cases h; done) | skip)
  all_goals (try (injection h with h; subst h))
  all_goals first
    | (have h' := onceBegin_some h; clear h; rcases h' with ⟨_, _, _, _, rfl⟩ | ⟨_, _, rfl⟩ | ⟨_, rfl⟩)
    | (have h' := onceSend_some h; clear h; rcases h' with ⟨_, rfl⟩ | ⟨_, _, rfl⟩)
    | (have h' := outPut_some h; clear h; obtain ⟨_, rfl⟩ := h')
    | (have h' := outSkip_some h; clear h; obtain ⟨_, rfl⟩ := h')
    | skip
  all_goals inv_fin

theorem inv_cSendErrConnack (c : Cfg) (s t : State) (hi : Inv s) (h : step c s (.cSendErrConnack) = some t) : Inv t := by
  obtain ⟨h1,h2,h3,h4,h5,h6,h7,h8,h9,h10,h11,h12,h13,h14,h15,h16,h17,h18,h19,h20,h21,h22,h23,h24,h25,h26,h27,h28,h29⟩ := hi
  simp only [step] at h
  (repeat' (split at h))
  all_goals (first | (cases h; done) | skip)
  all_goals (try (injection h with h; subst h))
  all_goals first
    | (have h' := onceBegin_some h; clear h; rcases h' with ⟨_, _, _, _, rfl⟩ | ⟨_, _, rfl⟩ | ⟨_, rfl⟩)
    | (have h' := onceSend_some h; clear h; rcases h' with ⟨_, rfl⟩ | ⟨_, _, rfl⟩)
    | (have h' := outPut_some h; clear h; obtain ⟨_, rfl⟩ := h')
    | (have h' := outSkip_some h; clear h; obtain ⟨_, rfl⟩ := h')
    | skip
  all_goals inv_fin

theorem inv_cSendErrConnackSkip (c : Cfg) (s t : State) (hi : Inv s) (h : step c s (.cSendErrConnackSkip) = some t) : Inv t := by
  obtain ⟨h1,h2,h3,h4,h5,h6,h7,h8,h9,h10,h11,h12,h13,h14,h15,h16,h17,h18,h19,h20,h21,h22,h23,h24,h25,h26,h27,h28,h29⟩ := hi
  simp only [step] at h
  (repeat' (split at h))
  all_goals (first | (cases h; done) | skip)
  all_goals (try (injection h with h; subst h))
  all_goals first
    | (have h' := onceBegin_some h; clear h; rcases h' with ⟨_, _, _, _, rfl⟩ | ⟨_, _, rfl⟩ | ⟨_, rfl⟩)
    | (have h' := onceSend_some h; clear h; rcases h' with ⟨_, rfl⟩ | ⟨_, _, rfl⟩)
    | (have h' := outPut_some h; clear h; obtain ⟨_, rfl⟩ := h')
    | (have h' := outSkip_some h; clear h; obtain ⟨_, rfl⟩ := h')
    | skip
  all_goals inv_fin

theorem inv_cWriteConnack (c : Cfg) (s t : State) (hi : Inv s) (h : step c s (.cWriteConnack) = some t) : Inv t := by
  obtain ⟨h1,h2,h3,h4,h5,h6,h7,h8,h9,h10,h11,h12,h13,h14,h15,h16,h17,h18,h19,h20,h21,h22,h23,h24,h25,h26,h27,h28,h29⟩ := hi
  simp only [step] at h
  (repeat' (split at h))
  all_goals (first | (cases h; done) | skip)
  all_goals (try (injection h with h; subst h))
  all_goals first
    | (have h' := onceBegin_some h; clear h; rcases h' with ⟨_, _, _, _, rfl⟩ | ⟨_, _, rfl⟩ | ⟨_, rfl⟩)
    | (have h' := onceSend_some h; clear h; rcases h' with ⟨_, rfl⟩ | ⟨_, _, rfl⟩)
    | (have h' := outPut_some h; clear h; obtain ⟨_, rfl⟩ := h')
    | (have h' := outSkip_some h; clear h; obtain ⟨_, rfl⟩ := h')
    | skip
  all_goals inv_fin

theorem inv_cWriteConnackSkip (c : Cfg) (s t : State) (hi : Inv s) (h : step c s (.cWriteConnackSkip) = some t) : Inv t := by
  obtain ⟨h1,h2,h3,h4,h5,h6,h7,h8,h9,h10,h11,h12,h13,h14,h15,h16,h17,h18,h19,h20,h21,h22,h23,h24,h25,h26,h27,h28,h29⟩ := hi
  simp only [step] at h
  (repeat' (split at h))
  all_goals (first | (cases h; done) | skip)
  all_goals (try (injection h with h; subst h))
  all_goals first
    | (have h' := onceBegin_some h; clear h; rcases h' with ⟨_, _, _, _, rfl⟩ | ⟨_, _, rfl⟩ | ⟨_, rfl⟩)
    | (have h' := onceSend_some h; clear h; rcases h' with ⟨_, rfl⟩ | ⟨_, _, rfl⟩)
    | (have h' := outPut_some h; clear h; obtain ⟨_, rfl⟩ := h')
    | (have h' := outSkip_some h; clear h; obtain ⟨_, rfl⟩ := h')
    | skip
  all_goals inv_fin

theorem inv_cErr (c : Cfg) (s t : State) (hi : Inv s) (h : step c s (.cErr) = some t) : Inv t := by
  obtain ⟨h1,h2,h3,h4,h5,h6,h7,h8,h9,h10,h11,h12,h13,h14,h15,h16,h17,h18,h19,h20,h21,h22,h23,h24,h25,h26,h27,h28,h29⟩ := hi
  simp only [step] at h
  (repeat' (split at h))
  all_goals (first | (cases h; done) | skip)
  all_goals (try (injection h with h; subst h))
  all_goals first
    | (have h' := onceBegin_some h; clear h; rcases h' with ⟨_, _, _, _, rfl⟩ | ⟨_, _, rfl⟩ | ⟨_, rfl⟩)
    | (have h' := onceSend_some h; clear h; rcases h' with ⟨_, rfl⟩ | ⟨_, _, rfl⟩)
    | (have h' := outPut_some h; clear h; obtain ⟨_, rfl⟩ := h')
    | (have h' := outSkip_some h; clear h; obtain ⟨_, rfl⟩ := h')
    | skip
  all_goals inv_fin

theorem inv_cCloseConnected (c : Cfg) (s t : State) (hi : Inv s) (h : step c s (.cCloseConnected) = some t) : Inv t := by
  obtain ⟨h1,h2,h3,h4,h5,h6,h7,h8,h9,h10,h11,h12,h13,h14,h15,h16,h17,h18,h19,h20,h21,h22,h23,h24,h25,h26,h27,h28,h29⟩ := hi
  simp only [step] at h
  (repeat' (split at h))
  all_goals (first | (cases h; done) | skip)
  all_goals (try (injection h with h; subst h))
  all_goals first
    | (have h' := onceBegin_some h; clear h; rcases h' with ⟨_, _, _, _, rfl⟩ | ⟨_, _, rfl⟩ | ⟨_, rfl⟩)
    | (have h' := onceSend_some h; clear h; rcases h' with ⟨_, rfl⟩ | ⟨_, _, rfl⟩)
    | (have h' := outPut_some h; clear h; obtain ⟨_, rfl⟩ := h')
    | (have h' := outSkip_some h; clear h; obtain ⟨_, rfl⟩ := h')
    | skip
  all_goals inv_fin

theorem inv_sSpawn (c : Cfg) (s t : State) (hi : Inv s) (h : step c s (.sSpawn) = some t) : Inv t := by
  obtain ⟨h1,h2,h3,h4,h5,h6,h7,h8,h9,h10,h11,h12,h13,h14,h15,h16,h17,h18,h19,h20,h21,h22,h23,h24,h25,h26,h27,h28,h29⟩ := hi
  simp only [step] at h
  (repeat' (split at h))
  all_goals (first | (cases h; done) | skip)
  all_goals (try (injection h with h; subst h))
  all_goals first
    | (have h' := onceBegin_some h; clear h; rcases h' with ⟨_, _, _, _, rfl⟩ | ⟨_, _, rfl⟩ | ⟨_, rfl⟩)
    | (have h' := onceSend_some h; clear h; rcases h' with ⟨_, rfl⟩ | ⟨_, _, rfl⟩)
    | (have h' := outPut_some h; clear h; obtain ⟨_, rfl⟩ := h')
    | (have h' := outSkip_some h; clear h; obtain ⟨_, rfl⟩ := h')
    | skip
  all_goals inv_fin

theorem inv_sWaitRead (c : Cfg) (s t : State) (hi : Inv s) (h : step c s (.sWaitRead) = some t) : Inv t := by
  obtain ⟨h1,h2,h3,h4,h5,h6,h7,h8,h9,h10,h11,h12,h13,h14,h15,h16,h17,h18,h19,h20,h21,h22,h23,h24,h25,h26,h27,h28,h29⟩ := hi
  simp only [step] at h
  (repeat' (split at h))
  all_goals (first | (cases h; done) | skip)
  all_goals (try (injection h with h; subst h))
  all_goals first
    | (have h' := onceBegin_some h; clear h; rcases h' with ⟨_, _, _, _, rfl⟩ | ⟨_, _, rfl⟩ | ⟨_, rfl⟩)
    | (have h' := onceSend_some h; clear h; rcases h' with ⟨_, rfl⟩ | ⟨_, _, rfl⟩)
    | (have h' := outPut_some h; clear h; obtain ⟨_, rfl⟩ := h')
    | (have h' := outSkip_some h; clear h; obtain ⟨_, rfl⟩ := h')
    | skip
  all_goals inv_fin

theorem inv_sCloseQueue (c : Cfg) (s t : State) (hi : Inv s) (h : step c s (.sCloseQueue) = some t) : Inv t := by
  obtain ⟨h1,h2,h3,h4,h5,h6,h7,h8,h9,h10,h11,h12,h13,h14,h15,h16,h17,h18,h19,h20,h21,h22,h23,h24,h25,h26,h27,h28,h29⟩ := hi
  simp only [step] at h
  (repeat' (split at h))
  all_goals (first | (cases h; done) | skip)
  all_goals (try (injection h with h; subst h))
  all_goals first
    | (have h' := onceBegin_some h; clear h; rcases h' with ⟨_, _, _, _, rfl⟩ | ⟨_, _, rfl⟩ | ⟨_, rfl⟩)
    | (have h' := onceSend_some h; clear h; rcases h' with ⟨_, rfl⟩ | ⟨_, _, rfl⟩)
    | (have h' := outPut_some h; clear h; obtain ⟨_, rfl⟩ := h')
    | (have h' := outSkip_some h; clear h; obtain ⟨_, rfl⟩ := h')
    | skip
  all_goals inv_fin

theorem inv_sClosePl (c : Cfg) (s t : State) (hi : Inv s) (h : step c s (.sClosePl) = some t) : Inv t := by
  obtain ⟨h1,h2,h3,h4,h5,h6,h7,h8,h9,h10,h11,h12,h13,h14,h15,h16,h17,h18,h19,h20,h21,h22,h23,h24,h25,h26,h27,h28,h29⟩ := hi
  simp only [step] at h
  (repeat' (split at h))
  all_goals (first | (cases h; done) | skip)
  all_goals (try (injection h with h; subst h))
  all_goals first
    | (have h' := onceBegin_some h; clear h; rcases h' with ⟨_, _, _, _, rfl⟩ | ⟨_, _, rfl⟩ | ⟨_, rfl⟩)
    | (have h' := onceSend_some h; clear h; rcases h' with ⟨_, rfl⟩ | ⟨_, _, rfl⟩)
    | (have h' := outPut_some h; clear h; obtain ⟨_, rfl⟩ := h')
    | (have h' := outSkip_some h; clear h; obtain ⟨_, rfl⟩ := h')
    | skip
  all_goals inv_fin

theorem inv_sWaitWg (c : Cfg) (s t : State) (hi : Inv s) (h : step c s (.sWaitWg) = some t) : Inv t := by
  obtain ⟨h1,h2,h3,h4,h5,h6,h7,h8,h9,h10,h11,h12,h13,h14,h15,h16,h17,h18,h19,h20,h21,h22,h23,h24,h25,h26,h27,h28,h29⟩ := hi
  simp only [step] at h
  (repeat' (split at h))
  all_goals (first | (cases h; done) | skip)
  all_goals (try (injection h with h; subst h))
  all_goals first
    | (have h' := onceBegin_some h; clear h; rcases h' with ⟨_, _, _, _, rfl⟩ | ⟨_, _, rfl⟩ | ⟨_, rfl⟩)
    | (have h' := onceSend_some h; clear h; rcases h' with ⟨_, rfl⟩ | ⟨_, _, rfl⟩)
    | (have h' := outPut_some h; clear h; obtain ⟨_, rfl⟩ := h')
    | (have h' := outSkip_some h; clear h; obtain ⟨_, rfl⟩ := h')
    | skip
  all_goals inv_fin

theorem inv_sCloseSock (c : Cfg) (s t : State) (hi : Inv s) (h : step c s (.sCloseSock) = some t) : Inv t := by
  obtain ⟨h1,h2,h3,h4,h5,h6,h7,h8,h9,h10,h11,h12,h13,h14,h15,h16,h17,h18,h19,h20,h21,h22,h23,h24,h25,h26,h27,h28,h29⟩ := hi
  simp only [step] at h
  (repeat' (split at h))
  all_goals (first | (cases h; done) | skip)
  all_goals (try (injection h with h; subst h))
  all_goals first
    | (have h' := onceBegin_some h; clear h; rcases h' with ⟨_, _, _, _, rfl⟩ | ⟨_, _, rfl⟩ | ⟨_, rfl⟩)
    | (have h' := onceSend_some h; clear h; rcases h' with ⟨_, rfl⟩ | ⟨_, _, rfl⟩)
    | (have h' := outPut_some h; clear h; obtain ⟨_, rfl⟩ := h')
    | (have h' := outSkip_some h; clear h; obtain ⟨_, rfl⟩ := h')
    | skip
  all_goals inv_fin

theorem inv_sUnreg (c : Cfg) (s t : State) (hi : Inv s) (h : step c s (.sUnreg) = some t) : Inv t := by
  obtain ⟨h1,h2,h3,h4,h5,h6,h7,h8,h9,h10,h11,h12,h13,h14,h15,h16,h17,h18,h19,h20,h21,h22,h23,h24,h25,h26,h27,h28,h29⟩ := hi
  simp only [step] at h
  (repeat' (split at h))
  all_goals (first | (cases h; done) | skip)
  all_goals (try (injection h with h; subst h))
  all_goals first
    | (have h' := onceBegin_some h; clear h; rcases h' with ⟨_, _, _, _, rfl⟩ | ⟨_, _, rfl⟩ | ⟨_, rfl⟩)
    | (have h' := onceSend_some h; clear h; rcases h' with ⟨_, rfl⟩ | ⟨_, _, rfl⟩)
    | (have h' := outPut_some h; clear h; obtain ⟨_, rfl⟩ := h')
    | (have h' := outSkip_some h; clear h; obtain ⟨_, rfl⟩ := h')
    | skip
  all_goals inv_fin

theorem inv_sCloseClosed (c : Cfg) (s t : State) (hi : Inv s) (h : step c s (.sCloseClosed) = some t) : Inv t := by
  obtain ⟨h1,h2,h3,h4,h5,h6,h7,h8,h9,h10,h11,h12,h13,h14,h15,h16,h17,h18,h19,h20,h21,h22,h23,h24,h25,h26,h27,h28,h29⟩ := hi
  simp only [step] at h
  (repeat' (split at h))
  all_goals (first | (cases h; done) | skip)
  all_goals (try (injection h with h; subst h))
  all_goals first
    | (have h' := onceBegin_some h; clear h; rcases h' with ⟨_, _, _, _, rfl⟩ | ⟨_, _, rfl⟩ | ⟨_, rfl⟩)
    | (have h' := onceSend_some h; clear h; rcases h' with ⟨_, rfl⟩ | ⟨_, _, rfl⟩)
    | (have h' := outPut_some h; clear h; obtain ⟨_, rfl⟩ := h')
    | (have h' := outSkip_some h; clear h; obtain ⟨_, rfl⟩ := h')
    | skip
  all_goals inv_fin

theorem inv_pStart (c : Cfg) (s t : State) (hi : Inv s) (h : step c s (.pStart) = some t) : Inv t := by
  obtain ⟨h1,h2,h3,h4,h5,h6,h7,h8,h9,h10,h11,h12,h13,h14,h15,h16,h17,h18,h19,h20,h21,h22,h23,h24,h25,h26,h27,h28,h29⟩ := hi
  simp only [step] at h
  (repeat' (split at h))
  all_goals (first | (cases h; done) | skip)
  all_goals (try (injection h with h; subst h))
  all_goals first
    | (have h' := onceBegin_some h; clear h; rcases h' with ⟨_, _, _, _, rfl⟩ | ⟨_, _, rfl⟩ | ⟨_, rfl⟩)
    | (have h' := onceSend_some h; clear h; rcases h' with ⟨_, rfl⟩ | ⟨_, _, rfl⟩)
    | (have h' := outPut_some h; clear h; obtain ⟨_, rfl⟩ := h')
    | (have h' := outSkip_some h; clear h; obtain ⟨_, rfl⟩ := h')
    | skip
  all_goals inv_fin

theorem inv_pIdsOk (c : Cfg) (s t : State) (hi : Inv s) (h : step c s (.pIdsOk) = some t) : Inv t := by
  obtain ⟨h1,h2,h3,h4,h5,h6,h7,h8,h9,h10,h11,h12,h13,h14,h15,h16,h17,h18,h19,h20,h21,h22,h23,h24,h25,h26,h27,h28,h29⟩ := hi
  simp only [step] at h
  (repeat' (split at h))
  all_goals (first | (cases h; done) | skip)
  all_goals (try (injection h with h; subst h))
  all_goals first
    | (have h' := onceBegin_some h; clear h; rcases h' with ⟨_, _, _, _, rfl⟩ | ⟨_, _, rfl⟩ | ⟨_, rfl⟩)
    | (have h' := onceSend_some h; clear h; rcases h' with ⟨_, rfl⟩ | ⟨_, _, rfl⟩)
    | (have h' := outPut_some h; clear h; obtain ⟨_, rfl⟩ := h')
    | (have h' := outSkip_some h; clear h; obtain ⟨_, rfl⟩ := h')
    | skip
  all_goals inv_fin

theorem inv_pIdsExit (c : Cfg) (s t : State) (hi : Inv s) (h : step c s (.pIdsExit) = some t) : Inv t := by
  obtain ⟨h1,h2,h3,h4,h5,h6,h7,h8,h9,h10,h11,h12,h13,h14,h15,h16,h17,h18,h19,h20,h21,h22,h23,h24,h25,h26,h27,h28,h29⟩ := hi
  simp only [step] at h
  (repeat' (split at h))
  all_goals (first | (cases h; done) | skip)
  all_goals (try (injection h with h; subst h))
  all_goals first
    | (have h' := onceBegin_some h; clear h; rcases h' with ⟨_, _, _, _, rfl⟩ | ⟨_, _, rfl⟩ | ⟨_, rfl⟩)
    | (have h' := onceSend_some h; clear h; rcases h' with ⟨_, rfl⟩ | ⟨_, _, rfl⟩)
    | (have h' := outPut_some h; clear h; obtain ⟨_, rfl⟩ := h')
    | (have h' := outSkip_some h; clear h; obtain ⟨_, rfl⟩ := h')
    | skip
  all_goals inv_fin

theorem inv_pQueueMsg (c : Cfg) (s t : State) (hi : Inv s) (h : step c s (.pQueueMsg) = some t) : Inv t := by
  obtain ⟨h1,h2,h3,h4,h5,h6,h7,h8,h9,h10,h11,h12,h13,h14,h15,h16,h17,h18,h19,h20,h21,h22,h23,h24,h25,h26,h27,h28,h29⟩ := hi
  simp only [step] at h
  (repeat' (split at h))
  all_goals (first | (cases h; done) | skip)
  all_goals (try (injection h with h; subst h))
  all_goals first
    | (have h' := onceBegin_some h; clear h; rcases h' with ⟨_, _, _, _, rfl⟩ | ⟨_, _, rfl⟩ | ⟨_, rfl⟩)
    | (have h' := onceSend_some h; clear h; rcases h' with ⟨_, rfl⟩ | ⟨_, _, rfl⟩)
    | (have h' := outPut_some h; clear h; obtain ⟨_, rfl⟩ := h')
    | (have h' := outSkip_some h; clear h; obtain ⟨_, rfl⟩ := h')
    | skip
  all_goals inv_fin

theorem inv_pQueueClosed (c : Cfg) (s t : State) (hi : Inv s) (h : step c s (.pQueueClosed) = some t) : Inv t := by
  obtain ⟨h1,h2,h3,h4,h5,h6,h7,h8,h9,h10,h11,h12,h13,h14,h15,h16,h17,h18,h19,h20,h21,h22,h23,h24,h25,h26,h27,h28,h29⟩ := hi
  simp only [step] at h
  (repeat' (split at h))
  all_goals (first | (cases h; done) | skip)
  all_goals (try (injection h with h; subst h))
  all_goals first
    | (have h' := onceBegin_some h; clear h; rcases h' with ⟨_, _, _, _, rfl⟩ | ⟨_, _, rfl⟩ | ⟨_, rfl⟩)
    | (have h' := onceSend_some h; clear h; rcases h' with ⟨_, rfl⟩ | ⟨_, _, rfl⟩)
    | (have h' := outPut_some h; clear h; obtain ⟨_, rfl⟩ := h')
    | (have h' := outSkip_some h; clear h; obtain ⟨_, rfl⟩ := h')
    | skip
  all_goals inv_fin

theorem inv_pWrite (c : Cfg) (s t : State) (hi : Inv s) (h : step c s (.pWrite) = some t) : Inv t := by
  obtain ⟨h1,h2,h3,h4,h5,h6,h7,h8,h9,h10,h11,h12,h13,h14,h15,h16,h17,h18,h19,h20,h21,h22,h23,h24,h25,h26,h27,h28,h29⟩ := hi
  simp only [step] at h
  (repeat' (split at h))
  all_goals (first | (cases h; done) | skip)
  all_goals (try (injection h with h; subst h))
  all_goals first
    | (have h' := onceBegin_some h; clear h; rcases h' with ⟨_, _, _, _, rfl⟩ | ⟨_, _, rfl⟩ | ⟨_, rfl⟩)
    | (have h' := onceSend_some h; clear h; rcases h' with ⟨_, rfl⟩ | ⟨_, _, rfl⟩)
    | (have h' := outPut_some h; clear h; obtain ⟨_, rfl⟩ := h')
    | (have h' := outSkip_some h; clear h; obtain ⟨_, rfl⟩ := h')
    | skip
  all_goals inv_fin

theorem inv_pWriteSkip (c : Cfg) (s t : State) (hi : Inv s) (h : step c s (.pWriteSkip) = some t) : Inv t := by
  obtain ⟨h1,h2,h3,h4,h5,h6,h7,h8,h9,h10,h11,h12,h13,h14,h15,h16,h17,h18,h19,h20,h21,h22,h23,h24,h25,h26,h27,h28,h29⟩ := hi
  simp only [step] at h
  (repeat' (split at h))
  all_goals (first | (cases h; done) | skip)
  all_goals (try (injection h with h; subst h))
  all_goals first
    | (have h' := onceBegin_some h; clear h; rcases h' with ⟨_, _, _, _, rfl⟩ | ⟨_, _, rfl⟩ | ⟨_, rfl⟩)
    | (have h' := onceSend_some h; clear h; rcases h' with ⟨_, rfl⟩ | ⟨_, _, rfl⟩)
    | (have h' := outPut_some h; clear h; obtain ⟨_, rfl⟩ := h')
    | (have h' := outSkip_some h; clear h; obtain ⟨_, rfl⟩ := h')
    | skip
  all_goals inv_fin

theorem inv_pErr (c : Cfg) (s t : State) (hi : Inv s) (h : step c s (.pErr) = some t) : Inv t := by
  obtain ⟨h1,h2,h3,h4,h5,h6,h7,h8,h9,h10,h11,h12,h13,h14,h15,h16,h17,h18,h19,h20,h21,h22,h23,h24,h25,h26,h27,h28,h29⟩ := hi
  simp only [step] at h
  (repeat' (split at h))
  all_goals (first | (cases h; done) | skip)
  all_goals (try (injection h with h; subst h))
  all_goals first
    | (have h' := onceBegin_some h; clear h; rcases h' with ⟨_, _, _, _, rfl⟩ | ⟨_, _, rfl⟩ | ⟨_, rfl⟩)
    | (have h' := onceSend_some h; clear h; rcases h' with ⟨_, rfl⟩ | ⟨_, _, rfl⟩)
    | (have h' := outPut_some h; clear h; obtain ⟨_, rfl⟩ := h')
    | (have h' := outSkip_some h; clear h; obtain ⟨_, rfl⟩ := h')
    | skip
  all_goals inv_fin

theorem inv_hRecv (c : Cfg) (s t : State) (hi : Inv s) (h : step c s (.hRecv) = some t) : Inv t := by
  obtain ⟨h1,h2,h3,h4,h5,h6,h7,h8,h9,h10,h11,h12,h13,h14,h15,h16,h17,h18,h19,h20,h21,h22,h23,h24,h25,h26,h27,h28,h29⟩ := hi
  simp only [step] at h
  (repeat' (split at h))
  all_goals (first | (cases h; done) | skip)
  all_goals (try (injection h with h; subst h))
  all_goals first
    | (have h' := onceBegin_some h; clear h; rcases h' with ⟨_, _, _, _, rfl⟩ | ⟨_, _, rfl⟩ | ⟨_, rfl⟩)
    | (have h' := onceSend_some h; clear h; rcases h' with ⟨_, rfl⟩ | ⟨_, _, rfl⟩)
    | (have h' := outPut_some h; clear h; obtain ⟨_, rfl⟩ := h')
    | (have h' := outSkip_some h; clear h; obtain ⟨_, rfl⟩ := h')
    | skip
  all_goals inv_fin

theorem inv_hRecvEnd (c : Cfg) (s t : State) (hi : Inv s) (h : step c s (.hRecvEnd) = some t) : Inv t := by
  obtain ⟨h1,h2,h3,h4,h5,h6,h7,h8,h9,h10,h11,h12,h13,h14,h15,h16,h17,h18,h19,h20,h21,h22,h23,h24,h25,h26,h27,h28,h29⟩ := hi
  simp only [step] at h
  (repeat' (split at h))
  all_goals (first | (cases h; done) | skip)
  all_goals (try (injection h with h; subst h))
  all_goals first
    | (have h' := onceBegin_some h; clear h; rcases h' with ⟨_, _, _, _, rfl⟩ | ⟨_, _, rfl⟩ | ⟨_, rfl⟩)
    | (have h' := onceSend_some h; clear h; rcases h' with ⟨_, rfl⟩ | ⟨_, _, rfl⟩)
    | (have h' := outPut_some h; clear h; obtain ⟨_, rfl⟩ := h')
    | (have h' := outSkip_some h; clear h; obtain ⟨_, rfl⟩ := h')
    | skip
  all_goals inv_fin

theorem inv_hWrite (c : Cfg) (s t : State) (hi : Inv s) (h : step c s (.hWrite) = some t) : Inv t := by
  obtain ⟨h1,h2,h3,h4,h5,h6,h7,h8,h9,h10,h11,h12,h13,h14,h15,h16,h17,h18,h19,h20,h21,h22,h23,h24,h25,h26,h27,h28,h29⟩ := hi
  simp only [step] at h
  (repeat' (split at h))
  all_goals (first | (cases h; done) | skip)
  all_goals (try (injection h with h; subst h))
  all_goals first
    | (have h' := onceBegin_some h; clear h; rcases h' with ⟨_, _, _, _, rfl⟩ | ⟨_, _, rfl⟩ | ⟨_, rfl⟩)
    | (have h' := onceSend_some h; clear h; rcases h' with ⟨_, rfl⟩ | ⟨_, _, rfl⟩)
    | (have h' := outPut_some h; clear h; obtain ⟨_, rfl⟩ := h')
    | (have h' := outSkip_some h; clear h; obtain ⟨_, rfl⟩ := h')
    | skip
  all_goals inv_fin

theorem inv_hWriteSkip (c : Cfg) (s t : State) (hi : Inv s) (h : step c s (.hWriteSkip) = some t) : Inv t := by
  obtain ⟨h1,h2,h3,h4,h5,h6,h7,h8,h9,h10,h11,h12,h13,h14,h15,h16,h17,h18,h19,h20,h21,h22,h23,h24,h25,h26,h27,h28,h29⟩ := hi
  simp only [step] at h
  (repeat' (split at h))
  all_goals (first | (cases h; done) | skip)
  all_goals (try (injection h with h; subst h))
  all_goals first
    | (have h' := onceBegin_some h; clear h; rcases h' with ⟨_, _, _, _, rfl⟩ | ⟨_, _, rfl⟩ | ⟨_, rfl⟩)
    | (have h' := onceSend_some h; clear h; rcases h' with ⟨_, rfl⟩ | ⟨_, _, rfl⟩)
    | (have h' := outPut_some h; clear h; obtain ⟨_, rfl⟩ := h')
    | (have h' := outSkip_some h; clear h; obtain ⟨_, rfl⟩ := h')
    | skip
  all_goals inv_fin

theorem inv_hErr (c : Cfg) (s t : State) (hi : Inv s) (h : step c s (.hErr) = some t) : Inv t := by
  obtain ⟨h1,h2,h3,h4,h5,h6,h7,h8,h9,h10,h11,h12,h13,h14,h15,h16,h17,h18,h19,h20,h21,h22,h23,h24,h25,h26,h27,h28,h29⟩ := hi
  simp only [step] at h
  (repeat' (split at h))
  all_goals (first | (cases h; done) | skip)
  all_goals (try (injection h with h; subst h))
  all_goals first
    | (have h' := onceBegin_some h; clear h; rcases h' with ⟨_, _, _, _, rfl⟩ | ⟨_, _, rfl⟩ | ⟨_, rfl⟩)
    | (have h' := onceSend_some h; clear h; rcases h' with ⟨_, rfl⟩ | ⟨_, _, rfl⟩)
    | (have h' := outPut_some h; clear h; obtain ⟨_, rfl⟩ := h')
    | (have h' := outSkip_some h; clear h; obtain ⟨_, rfl⟩ := h')
    | skip
  all_goals inv_fin

theorem inv_hSendDisc (c : Cfg) (s t : State) (hi : Inv s) (h : step c s (.hSendDisc) = some t) : Inv t := by
  obtain ⟨h1,h2,h3,h4,h5,h6,h7,h8,h9,h10,h11,h12,h13,h14,h15,h16,h17,h18,h19,h20,h21,h22,h23,h24,h25,h26,h27,h28,h29⟩ := hi
  simp only [step] at h
  (repeat' (split at h))
  all_goals (first | (cases h; done) | skip)
  all_goals (try (injection h with h; subst h))
  all_goals first
    | (have h' := onceBegin_some h; clear h; rcases h' with ⟨_, _, _, _, rfl⟩ | ⟨_, _, rfl⟩ | ⟨_, rfl⟩)
    | (have h' := onceSend_some h; clear h; rcases h' with ⟨_, rfl⟩ | ⟨_, _, rfl⟩)
    | (have h' := outPut_some h; clear h; obtain ⟨_, rfl⟩ := h')
    | (have h' := outSkip_some h; clear h; obtain ⟨_, rfl⟩ := h')
    | skip
  all_goals inv_fin

theorem inv_xErr (c : Cfg) (s t : State) (hi : Inv s) (h : step c s (.xErr) = some t) : Inv t := by
  obtain ⟨h1,h2,h3,h4,h5,h6,h7,h8,h9,h10,h11,h12,h13,h14,h15,h16,h17,h18,h19,h20,h21,h22,h23,h24,h25,h26,h27,h28,h29⟩ := hi
  simp only [step] at h
  (repeat' (split at h))
  all_goals (first | (cases h; done) | skip)
  all_goals (try (injection h with h; subst h))
  all_goals first
    | (have h' := onceBegin_some h; clear h; rcases h' with ⟨_, _, _, _, rfl⟩ | ⟨_, _, rfl⟩ | ⟨_, rfl⟩)
    | (have h' := onceSend_some h; clear h; rcases h' with ⟨_, rfl⟩ | ⟨_, _, rfl⟩)
    | (have h' := outPut_some h; clear h; obtain ⟨_, rfl⟩ := h')
    | (have h' := outSkip_some h; clear h; obtain ⟨_, rfl⟩ := h')
    | skip
  all_goals inv_fin

theorem inv_xSendDisc (c : Cfg) (s t : State) (hi : Inv s) (h : step c s (.xSendDisc) = some t) : Inv t := by
  obtain ⟨h1,h2,h3,h4,h5,h6,h7,h8,h9,h10,h11,h12,h13,h14,h15,h16,h17,h18,h19,h20,h21,h22,h23,h24,h25,h26,h27,h28,h29⟩ := hi
  simp only [step] at h
  (repeat' (split at h))
  all_goals (first | (cases h; done) | skip)
  all_goals (try (injection h with h; subst h))
  all_goals first
    | (have h' := onceBegin_some h; clear h; rcases h' with ⟨_, _, _, _, rfl⟩ | ⟨_, _, rfl⟩ | ⟨_, rfl⟩)
    | (have h' := onceSend_some h; clear h; rcases h' with ⟨_, rfl⟩ | ⟨_, _, rfl⟩)
    | (have h' := outPut_some h; clear h; obtain ⟨_, rfl⟩ := h')
    | (have h' := outSkip_some h; clear h; obtain ⟨_, rfl⟩ := h')
    | skip
  all_goals inv_fin

theorem inv_xCloseSock (c : Cfg) (s t : State) (hi : Inv s) (h : step c s (.xCloseSock) = some t) : Inv t := by
  obtain ⟨h1,h2,h3,h4,h5,h6,h7,h8,h9,h10,h11,h12,h13,h14,h15,h16,h17,h18,h19,h20,h21,h22,h23,h24,h25,h26,h27,h28,h29⟩ := hi
  simp only [step] at h
  (repeat' (split at h))
  all_goals (first | (cases h; done) | skip)
  all_goals (try (injection h with h; subst h))
  all_goals first
    | (have h' := onceBegin_some h; clear h; rcases h' with ⟨_, _, _, _, rfl⟩ | ⟨_, _, rfl⟩ | ⟨_, rfl⟩)
    | (have h' := onceSend_some h; clear h; rcases h' with ⟨_, rfl⟩ | ⟨_, _, rfl⟩)
    | (have h' := outPut_some h; clear h; obtain ⟨_, rfl⟩ := h')
    | (have h' := outSkip_some h; clear h; obtain ⟨_, rfl⟩ := h')
    | skip
  all_goals inv_fin

theorem inv_xWake (c : Cfg) (s t : State) (hi : Inv s) (h : step c s (.xWake) = some t) : Inv t := by
  obtain ⟨h1,h2,h3,h4,h5,h6,h7,h8,h9,h10,h11,h12,h13,h14,h15,h16,h17,h18,h19,h20,h21,h22,h23,h24,h25,h26,h27,h28,h29⟩ := hi
  simp only [step] at h
  (repeat' (split at h))
  all_goals (first | (cases h; done) | skip)
  all_goals (try (injection h with h; subst h))
  all_goals first
    | (have h' := onceBegin_some h; clear h; rcases h' with ⟨_, _, _, _, rfl⟩ | ⟨_, _, rfl⟩ | ⟨_, rfl⟩)
    | (have h' := onceSend_some h; clear h; rcases h' with ⟨_, rfl⟩ | ⟨_, _, rfl⟩)
    | (have h' := outPut_some h; clear h; obtain ⟨_, rfl⟩ := h')
    | (have h' := outSkip_some h; clear h; obtain ⟨_, rfl⟩ := h')
    | skip
  all_goals inv_fin


theorem inv_step (c : Cfg) (s t : State) (a : Act) (hi : Inv s) (h : step c s a = some t) : Inv t := by
  cases a with
  | send p => exact inv_send c s t p hi h
  | peerClose => exact inv_peerClose c s t hi h
  | srvClose => exact inv_srvClose c s t hi h
  | kill => exact inv_kill c s t hi h
  | enqueue => exact inv_enqueue c s t hi h
  | setIds b => exact inv_setIds c s t b hi h
  | setStall b => exact inv_setStall c s t b hi h
  | rRead => exact inv_rRead c s t hi h
  | rReadErr => exact inv_rReadErr c s t hi h
  | rSend => exact inv_rSend c s t hi h
  | rSendAbort => exact inv_rSendAbort c s t hi h
  | rWaitConn => exact inv_rWaitConn c s t hi h
  | rAuthStep => exact inv_rAuthStep c s t hi h
  | rErr => exact inv_rErr c s t hi h
  | rSendDisc => exact inv_rSendDisc c s t hi h
  | rCloseIn => exact inv_rCloseIn c s t hi h
  | wRecv => exact inv_wRecv c s t hi h
  | wClose => exact inv_wClose c s t hi h
  | wWriteOk => exact inv_wWriteOk c s t hi h
  | wWriteFail => exact inv_wWriteFail c s t hi h
  | wDrain => exact inv_wDrain c s t hi h
  | wFlush => exact inv_wFlush c s t hi h
  | wFlushConnack => exact inv_wFlushConnack c s t hi h
  | wErr => exact inv_wErr c s t hi h
  | wCloseSock => exact inv_wCloseSock c s t hi h
  | cRecv => exact inv_cRecv c s t hi h
  | cRecvNil => exact inv_cRecvNil c s t hi h
  | cTimeout => exact inv_cTimeout c s t hi h
  | cSendAuth => exact inv_cSendAuth c s t hi h
  | cSendAuthSkip => exact inv_cSendAuthSkip c s t hi h
  | cSendErrConnack => exact inv_cSendErrConnack c s t hi h
  | cSendErrConnackSkip => exact inv_cSendErrConnackSkip c s t hi h
  | cWriteConnack => exact inv_cWriteConnack c s t hi h
  | cWriteConnackSkip => exact inv_cWriteConnackSkip c s t hi h
  | cErr => exact inv_cErr c s t hi h
  | cCloseConnected => exact inv_cCloseConnected c s t hi h
  | sSpawn => exact inv_sSpawn c s t hi h
  | sWaitRead => exact inv_sWaitRead c s t hi h
  | sCloseQueue => exact inv_sCloseQueue c s t hi h
  | sClosePl => exact inv_sClosePl c s t hi h
  | sWaitWg => exact inv_sWaitWg c s t hi h
  | sCloseSock => exact inv_sCloseSock c s t hi h
  | sUnreg => exact inv_sUnreg c s t hi h
  | sCloseClosed => exact inv_sCloseClosed c s t hi h
  | pStart => exact inv_pStart c s t hi h
  | pIdsOk => exact inv_pIdsOk c s t hi h
  | pIdsExit => exact inv_pIdsExit c s t hi h
  | pQueueMsg => exact inv_pQueueMsg c s t hi h
  | pQueueClosed => exact inv_pQueueClosed c s t hi h
  | pWrite => exact inv_pWrite c s t hi h
  | pWriteSkip => exact inv_pWriteSkip c s t hi h
  | pErr => exact inv_pErr c s t hi h
  | hRecv => exact inv_hRecv c s t hi h
  | hRecvEnd => exact inv_hRecvEnd c s t hi h
  | hWrite => exact inv_hWrite c s t hi h
  | hWriteSkip => exact inv_hWriteSkip c s t hi h
  | hErr => exact inv_hErr c s t hi h
  | hSendDisc => exact inv_hSendDisc c s t hi h
  | xErr => exact inv_xErr c s t hi h
  | xSendDisc => exact inv_xSendDisc c s t hi h
  | xCloseSock => exact inv_xCloseSock c s t hi h
  | xWake => exact inv_xWake c s t hi h

theorem inv_reachable {c : Cfg} {s : State} (h : Reachable c s) : Inv s := by
  induction h with
  | init => exact inv_init
  | step s t a _ hs ih => exact inv_step c s t a ih hs

end GmqttVerif.Lifecycle
