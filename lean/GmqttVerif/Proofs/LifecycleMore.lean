import GmqttVerif.Proofs.Lifecycle
/-
  C15 — further lemmas on one connection: the configuration-dependent invariant `InvC` (what the repairs
  `writeCloses` and `nilPacket` buy), progress once `client.close` is closed even though the peer keeps the socket
  open (`progress_closing`), which action executes which `close()` (`close_sites`), and the bound on the length of
  any run of goroutine steps (`run_bound`).
-/
namespace GmqttVerif.Lifecycle

structure InvC (c : Cfg) (s : State) : Prop where
  wcl : c.fix.writeCloses = true → s.w = .done → s.srvClosed = true
  okReg : c.fix.nilPacket = true →
    (s.s = .cWriteConnack ∨ s.s = .cCloseConnected true ∨ s.s = .spawn true) → s.registered = true
  pReg0 : c.fix.nilPacket = true → s.p = .start → s.registered = true

theorem invc_init (c : Cfg) : InvC c init := by
  constructor <;> simp [init]

macro "invc_fin" : tactic => `(tactic| (constructor <;> first | assumption | grind [SPC.inConnect, SPC.afterRead, SPC.joined]))

theorem invc_step (c : Cfg) (s t : State) (a : Act) (hi : Inv s) (hc : InvC c s) (h : step c s a = some t) :
    InvC c t := by
  obtain ⟨c1, c2, c3⟩ := hc
  have hj := hi.join
  have he := hi.early
  clear hi
  cases a
  all_goals simp only [step] at h
  all_goals (repeat' (split at h))
  all_goals (first | (cases h; done) | skip)
  all_goals (try (injection h with h; subst h))
  all_goals first
    | (have h' := onceBegin_some h; clear h; rcases h' with ⟨_, _, _, _, rfl⟩ | ⟨_, _, rfl⟩ | ⟨_, rfl⟩)
    | (have h' := onceSend_some h; clear h; rcases h' with ⟨_, rfl⟩ | ⟨_, _, rfl⟩)
    | (have h' := outPut_some h; clear h; obtain ⟨_, rfl⟩ := h')
    | (have h' := outSkip_some h; clear h; obtain ⟨_, rfl⟩ := h')
    | skip
  all_goals invc_fin

theorem reachable_inv_invc {c : Cfg} {s : State} (h : Reachable c s) : Inv s ∧ InvC c s := by
  induction h with
  | init => exact ⟨inv_init, invc_init c⟩
  | step s t a _ hs ih => exact ⟨inv_step c s t a ih.1 hs, invc_step c s t a ih.1 ih.2 hs⟩

/-- `client.close` is closed and the peer reads what the broker writes: even if the peer never closes its end, some
    goroutine can move until all have exited — because writeLoop, woken by `client.close`, closes the socket. -/
theorem progress_closing {c : Cfg} {s : State} (hfix : c.fix = Fixes.all) (hi : Inv s) (hc : InvC c s)
    (ho : s.once = .done) (hst : s.stalled = false) (hne : s.exited = false) : s.canMove c = true := by
  cases hd : s.dead with
  | true => exact progress hfix hi hd hne
  | false =>
    have hwc : c.fix.writeCloses = true := by simp [hfix, Fixes.all]
    have hsrv : s.srvClosed = false := by
      simp [State.dead] at hd; exact hd.2
    cases hw : s.w with
    | done => have := hc.wcl hwc hw; simp_all
    | sel => mv .wClose
    | write p => cases p <;> mv .wWriteOk
    | drain =>
      cases hq : s.outq with
      | nil => mv .wDrain
      | cons p q => cases p <;> mv .wDrain
    | flushDisc => mv .wFlush
    | flushConnack => mv .wFlushConnack
    | setErr => mv .wErr
    | closeSock => mv .wCloseSock

/-- which action executes which `close()`; `close(client.close)` only ever runs under a not-yet-done errOnce -/
theorem close_sites (c : Cfg) (s t : State) (a : Act) (hi : Inv s) (h : step c s a = some t) :
    (t.nIn ≠ s.nIn → a = .rCloseIn) ∧
    (t.nConnected ≠ s.nConnected → a = .cCloseConnected) ∧
    (t.nClosed ≠ s.nClosed → a = .sCloseClosed) ∧
    (t.nClose ≠ s.nClose → s.once ≠ .done ∧ t.once = .done ∧
      a ∈ [Act.rErr, .rSendDisc, .wErr, .cErr, .pErr, .hErr, .hSendDisc, .xErr, .xSendDisc]) := by
  have r1 := hi.runR
  have r2 := hi.runH
  have r3 := hi.runX
  clear hi
  cases a
  all_goals simp only [step] at h
  all_goals (repeat' (split at h))
  all_goals (first | (cases h; done) | skip)
  all_goals (try (injection h with h; subst h))
  all_goals first
    | (have h' := onceBegin_some h; clear h; rcases h' with ⟨_, _, _, _, rfl⟩ | ⟨_, _, rfl⟩ | ⟨_, rfl⟩)
    | (have h' := onceSend_some h; clear h; rcases h' with ⟨_, rfl⟩ | ⟨_, _, rfl⟩)
    | (have h' := outPut_some h; clear h; obtain ⟨_, rfl⟩ := h')
    | (have h' := outSkip_some h; clear h; obtain ⟨_, rfl⟩ := h')
    | skip
  all_goals simp_all

/-- every run of goroutine steps from `s` has at most `rank s` steps -/
theorem run_bound (c : Cfg) (acts : List Act) (s t : State) (hint : ∀ a ∈ acts, a.isEnv = false)
    (h : run c s acts = some t) : acts.length + rank t ≤ rank s := by
  induction acts generalizing s with
  | nil => simp [run] at h; subst h; simp
  | cons a as ih =>
    simp only [run] at h
    split at h
    · rename_i u hu
      have h1 := rank_decreases c s u a (hint a (by simp)) hu
      have h2 := ih u (fun b hb => hint b (by simp [hb])) h
      simp only [List.length_cons]; omega
    · cases h

end GmqttVerif.Lifecycle
