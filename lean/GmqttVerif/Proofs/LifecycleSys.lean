import GmqttVerif.Proofs.Lifecycle
/-
  C15 — `Stop` over a set of connections: lifting of the single-connection results (ranking function, progress) to
  the system, the invariant of `Stop`'s own program counter, and what holds when `Stop` has returned.
-/
namespace GmqttVerif.Lifecycle

/-! monotone facts of one connection -/

theorem onceBegin_keeps {c : Cfg} {s a b t : State} {coded : Bool} (f : State → Bool)
    (hf : ∀ (u : State) (o : Once) (n : Nat), f { u with once := o, nClose := n } = f u)
    (h : onceBegin c s coded a b = some t) : f t = f a ∨ f t = f b := by
  rcases onceBegin_some h with ⟨_, _, _, _, rfl⟩ | ⟨_, _, rfl⟩ | ⟨_, rfl⟩
  · left; exact hf _ _ _
  · right; exact hf _ _ _
  · right; rfl

theorem srvClosed_mono {c : Cfg} {s t : State} {a : Act} (h : step c s a = some t) (hs : s.srvClosed = true) :
    t.srvClosed = true := by
  cases a
  all_goals simp only [step] at h
  all_goals (repeat' (split at h))
  all_goals (first | (cases h; done) | skip)
  all_goals (try (injection h with h; subst h))
  all_goals first
    | (have h' := onceBegin_some h; clear h; rcases h' with ⟨_, _, _, _, rfl⟩ | ⟨_, _, rfl⟩ | ⟨_, rfl⟩)
    | (have h' := onceSend_some h; clear h; rcases h' with ⟨_, rfl⟩ | ⟨_, _, rfl⟩)
    | (have h' := outPut_some h; clear h; obtain ⟨_, rfl⟩ := h')
    | (have h' := outSkip_some h; clear h; obtain ⟨_, rfl⟩ := h')
    | skip
  all_goals first | exact hs | rfl

theorem closedCh_mono {c : Cfg} {s t : State} {a : Act} (h : step c s a = some t) (hs : s.closedCh = true) :
    t.closedCh = true := by
  cases a
  all_goals simp only [step] at h
  all_goals (repeat' (split at h))
  all_goals (first | (cases h; done) | skip)
  all_goals (try (injection h with h; subst h))
  all_goals first
    | (have h' := onceBegin_some h; clear h; rcases h' with ⟨_, _, _, _, rfl⟩ | ⟨_, _, rfl⟩ | ⟨_, rfl⟩)
    | (have h' := onceSend_some h; clear h; rcases h' with ⟨_, rfl⟩ | ⟨_, _, rfl⟩)
    | (have h' := outPut_some h; clear h; obtain ⟨_, rfl⟩ := h')
    | (have h' := outSkip_some h; clear h; obtain ⟨_, rfl⟩ := h')
    | skip
  all_goals first | exact hs | rfl

/-! lists of connections -/

theorem sumRank_set {l : List Conn} {i : Nat} {c c' : Conn} (h : l[i]? = some c) (hr : rank c'.st < rank c.st) :
    sumRank (l.set i c') < sumRank l := by
  induction l generalizing i with
  | nil => simp at h
  | cons x xs ih =>
    cases i with
    | zero =>
      simp at h; subst h
      simp [List.set, sumRank]; omega
    | succ j =>
      simp at h
      have := ih h
      simp [List.set, sumRank]; omega

theorem sumRank_map_stopConn (cfg : SysCfg) (l : List Conn) : sumRank (l.map (stopConn cfg)) = sumRank l := by
  induction l with
  | nil => rfl
  | cons x xs ih =>
    simp only [List.map, sumRank, ih]
    unfold stopConn
    split <;> simp [rank]

theorem mem_set_cases {l : List Conn} {i : Nat} {c' d : Conn} (h : d ∈ l.set i c') : d = c' ∨ d ∈ l := by
  rcases List.mem_or_eq_of_mem_set h with h | h
  · right; exact h
  · left; exact h

/-! ### ranking function of the system -/

theorem sys_rank_decreases (cfg : SysCfg) (y z : Sys) (a : SysAct) (ha : a.isEnv = false)
    (h : sysStep cfg y a = some z) : sysRank cfg z < sysRank cfg y := by
  cases a with
  | accept v => simp [SysAct.isEnv] at ha
  | stopCall => simp [SysAct.isEnv] at ha
  | conn i a =>
    simp only [SysAct.isEnv] at ha
    simp only [sysStep] at h
    split at h
    · rename_i c hc
      split at h
      · rename_i t ht
        injection h with h; subst h
        have hr := rank_decreases _ _ _ _ ha ht
        have := sumRank_set (c' := { c with st := t }) hc hr
        simp [sysRank]; omega
      · cases h
    · cases h
  | stopListeners =>
    simp only [sysStep] at h
    split at h
    · injection h with h; subst h; simp_all [sysRank, rankStop]
    · cases h
  | stopClients =>
    simp only [sysStep] at h
    split at h
    · injection h with h; subst h; simp_all [sysRank, rankStop, sumRank_map_stopConn]
    · cases h
  | stopWaited =>
    simp only [sysStep] at h
    split at h
    · injection h with h; subst h; simp_all [sysRank, rankStop]
    · cases h
  | stopUnload =>
    simp only [sysStep] at h
    split at h
    · split at h
      · injection h with h; subst h; simp_all [sysRank, rankStop]; omega
      · cases h
    · cases h
  | stopUnloaded =>
    simp only [sysStep] at h
    split at h
    · split at h
      · injection h with h; subst h; simp_all [sysRank, rankStop]
      · cases h
    · cases h
  | stopOnStop =>
    simp only [sysStep] at h
    split at h
    · injection h with h; subst h; simp_all [sysRank, rankStop]
    · cases h

/-! ### invariant of the system (repaired code: every connection is tracked by Stop) -/

@[simp] def StopPC.closing : StopPC → Bool
  | .wait | .unload _ | .onStop | .done => true
  | _ => false
@[simp] def StopPC.waited : StopPC → Bool
  | .unload _ | .onStop | .done => true
  | _ => false
@[simp] def StopPC.noListen : StopPC → Bool
  | .idle | .closeListeners => false
  | _ => true

theorem StopPC.closing_of_waited {p : StopPC} (h : p.waited = true) : p.closing = true := by
  cases p <;> simp_all
theorem StopPC.noListen_of_closing {p : StopPC} (h : p.closing = true) : p.noListen = true := by
  cases p <;> simp_all

def unloadsAt (n k : Nat) : List Nat := List.replicate k 1 ++ List.replicate (n - k) 0

structure SysInv (cfg : SysCfg) (y : Sys) : Prop where
  reach : ∀ c ∈ y.conns, Reachable (c.cfg cfg) c.st
  lst : y.stop.noListen = true → y.listening = false
  killed : cfg.stopAll = true → y.stop.closing = true → ∀ c ∈ y.conns, c.awaited = true ∧ c.st.srvClosed = true
  waited : y.stop.waited = true → ∀ c ∈ y.conns, c.awaited = true → c.st.closedCh = true
  unl : y.unloads = match y.stop with
    | .unload k => unloadsAt cfg.plugins k
    | .onStop | .done => unloadsAt cfg.plugins cfg.plugins
    | _ => unloadsAt cfg.plugins 0
  unlk : ∀ k, y.stop = .unload k → k ≤ cfg.plugins
  ons : y.onStops = if y.stop = .done then 1 else 0

theorem bump_unloadsAt {n k : Nat} (h : k < n) : bump (unloadsAt n k) k = unloadsAt n (k + 1) := by
  induction k generalizing n with
  | zero =>
    cases n with
    | zero => omega
    | succ m => simp [unloadsAt, bump, List.replicate_succ]
  | succ j ih =>
    cases n with
    | zero => omega
    | succ m =>
      have := ih (n := m) (by omega)
      simp only [unloadsAt, List.replicate_succ, List.cons_append, bump] at this ⊢
      have e1 : m + 1 - (j + 1) = m - j := by omega
      have e2 : m + 1 - (j + 1 + 1) = m - (j + 1) := by omega
      rw [e1, e2, this]

theorem sysInv_init (cfg : SysCfg) : SysInv cfg (Sys.init cfg) := by
  constructor <;> simp [Sys.init, unloadsAt]

theorem sysInv_step (cfg : SysCfg) (y z : Sys) (a : SysAct) (hi : SysInv cfg y) (h : sysStep cfg y a = some z) :
    SysInv cfg z := by
  obtain ⟨h1, h2, h3, h4, h5, h6, h7⟩ := hi
  cases a with
  | accept v =>
    simp only [sysStep] at h
    split at h
    · rename_i hl
      injection h with h; subst h
      have hnl : y.stop.noListen = false := by
        cases hc : y.stop.noListen with
        | false => rfl
        | true => have := h2 hc; simp_all
      have hnc : y.stop.closing = false := by
        cases hc : y.stop.closing with
        | false => rfl
        | true => have := StopPC.noListen_of_closing hc; simp_all
      have hnw : y.stop.waited = false := by
        cases hc : y.stop.waited with
        | false => rfl
        | true => have := StopPC.closing_of_waited hc; simp_all
      constructor
      · intro c hc
        rcases List.mem_append.mp hc with hc | hc
        · exact h1 c hc
        · simp at hc; subst hc; exact Reachable.init
      · intro hc; simp only [hnl] at hc; cases hc
      · intro _ hc; simp only [hnc] at hc; cases hc
      · intro hc; simp only [hnw] at hc; cases hc
      · exact h5
      · exact h6
      · exact h7
    · cases h
  | conn i a =>
    simp only [sysStep] at h
    split at h
    · rename_i c hc
      split at h
      · rename_i t ht
        injection h with h; subst h
        have hmem : c ∈ y.conns := List.mem_of_getElem? hc
        constructor
        · intro d hd
          rcases mem_set_cases hd with rfl | hd
          · exact Reachable.step _ _ a (h1 c hmem) ht
          · exact h1 d hd
        · exact h2
        · intro hs hcl d hd
          rcases mem_set_cases hd with rfl | hd
          · exact ⟨(h3 hs hcl c hmem).1, srvClosed_mono ht (h3 hs hcl c hmem).2⟩
          · exact h3 hs hcl d hd
        · intro hw d hd haw
          rcases mem_set_cases hd with rfl | hd
          · exact closedCh_mono ht (h4 hw c hmem haw)
          · exact h4 hw d hd haw
        · exact h5
        · exact h6
        · exact h7
      · cases h
    · cases h
  | stopCall =>
    simp only [sysStep] at h
    split at h
    · injection h with h; subst h
      constructor <;> simp_all
    · cases h
  | stopListeners =>
    simp only [sysStep] at h
    split at h
    · injection h with h; subst h
      constructor <;> simp_all
    · cases h
  | stopClients =>
    simp only [sysStep] at h
    split at h
    · rename_i hst
      injection h with h; subst h
      constructor
      · intro d hd
        simp only [List.mem_map] at hd
        obtain ⟨c, hc, rfl⟩ := hd
        unfold stopConn
        split
        · exact Reachable.step _ _ .srvClose (h1 c hc) (by simp [step])
        · exact h1 c hc
      · simp_all
      · intro hs _ d hd
        simp only [List.mem_map] at hd
        obtain ⟨c, hc, rfl⟩ := hd
        simp [stopConn, hs]
      · simp
      · simp_all
      · simp
      · simp_all
    · cases h
  | stopWaited =>
    simp only [sysStep] at h
    split at h
    · rename_i hst
      injection h with h; subst h
      constructor
      · exact h1
      · simp_all
      · simp_all
      · intro _ d hd haw
        have := List.all_eq_true.mp hst.2 d hd
        simp_all
      · simp_all
      · simp
      · simp_all
    · cases h
  | stopUnload =>
    simp only [sysStep] at h
    split at h
    · rename_i k hk
      split at h
      · rename_i hlt
        injection h with h; subst h
        constructor
        · exact h1
        · simp_all
        · simp_all
        · simp_all
        · simp only [hk] at h5; simp [h5, bump_unloadsAt hlt]
        · intro k' hk'; simp at hk'; omega
        · simp_all
      · cases h
    · cases h
  | stopUnloaded =>
    simp only [sysStep] at h
    split at h
    · rename_i k hk
      split at h
      · rename_i hle
        injection h with h; subst h
        have hkk : k = cfg.plugins := Nat.le_antisymm (h6 k hk) hle
        constructor
        · exact h1
        · simp_all
        · simp_all
        · simp_all
        · simp only [hk] at h5; simp [h5, hkk]
        · simp
        · simp_all
      · cases h
    · cases h
  | stopOnStop =>
    simp only [sysStep] at h
    split at h
    · injection h with h; subst h
      constructor <;> simp_all
    · cases h

theorem sysInv_reachable {cfg : SysCfg} {y : Sys} (h : SysReachable cfg y) : SysInv cfg y := by
  induction h with
  | init => exact sysInv_init cfg
  | step y z a _ hs ih => exact sysInv_step cfg y z a ih hs

/-! ### progress of the system -/

theorem sys_progress {cfg : SysCfg} {y : Sys} (hfix : cfg.fix = Fixes.all) (hall : cfg.stopAll = true)
    (hi : SysInv cfg y) (hstarted : y.stop ≠ .idle)
    (hne : ¬ (y.stop = .done ∧ ∀ c ∈ y.conns, c.st.exited = true)) : y.canMove cfg = true := by
  have connMoves (c : Conn) (hc : c ∈ y.conns) (hcl : y.stop.closing = true) (hex : c.st.exited = false) :
      y.canMove cfg = true := by
    have hd : c.st.dead = true := by simp [State.dead, (hi.killed hall hcl c hc).2]
    have := progress (c := c.cfg cfg) (by simp [Conn.cfg, hfix]) (inv_reachable (hi.reach c hc)) hd hex
    simp only [Sys.canMove, Bool.or_eq_true]
    left
    exact List.any_eq_true.mpr ⟨c, hc, this⟩
  have stopMoves (a : SysAct)
      (hm : a ∈ [SysAct.stopListeners, .stopClients, .stopWaited, .stopUnload, .stopUnloaded, .stopOnStop])
      (h : (sysStep cfg y a).isSome = true) : y.canMove cfg = true := by
    simp only [Sys.canMove, Bool.or_eq_true]
    right
    exact List.any_eq_true.mpr ⟨a, hm, h⟩
  cases hs : y.stop with
  | idle => contradiction
  | closeListeners => exact stopMoves .stopListeners (by simp) (by simp [sysStep, hs])
  | closeClients => exact stopMoves .stopClients (by simp) (by simp [sysStep, hs])
  | wait =>
    cases hall' : y.conns.all (fun c => !c.awaited || c.st.closedCh) with
    | true => exact stopMoves .stopWaited (by simp) (by simp [sysStep, hs, hall'])
    | false =>
      obtain ⟨c, hc, hcc⟩ := List.all_eq_false.mp hall'
      have hcl : c.st.closedCh = false := by
        cases h : c.st.closedCh <;> simp_all
      apply connMoves c hc (by simp [hs])
      have hinv := inv_reachable (hi.reach c hc)
      cases hex : c.st.exited with
      | false => rfl
      | true =>
        have : c.st.s = .done := by simp [State.exited] at hex; exact hex.1.1.1.2
        have := hinv.clCh.mpr this
        simp_all
  | unload k =>
    by_cases hk : k < cfg.plugins
    · exact stopMoves .stopUnload (by simp) (by simp [sysStep, hs, hk])
    · exact stopMoves .stopUnloaded (by simp) (by simp [sysStep, hs]; omega)
  | onStop => exact stopMoves .stopOnStop (by simp) (by simp [sysStep, hs])
  | done =>
    cases hall' : y.conns.all (fun c => c.st.exited) with
    | true => exact absurd ⟨hs, fun c hc => List.all_eq_true.mp hall' c hc⟩ hne
    | false =>
      obtain ⟨c, hc, hex⟩ := List.all_eq_false.mp hall'
      exact connMoves c hc (by simp [hs]) (by simpa using hex)

end GmqttVerif.Lifecycle
