import GmqttVerif.Model.Limiter
import GmqttVerif.Proofs.LimiterBitmap
/-
  Invariants of the packet id limiter model (`server/limiter.go`). Core Lean only.
  State level: `Struct` (holds after every history), `Inv` (holds while callers respect the
  `markUsedLocked` contract). Trace level: see `Proofs/LimiterTrace.lean`.
-/
namespace GmqttVerif.Limiter
open GmqttVerif.Bitmap

/-! ### counting over `List.range` -/

theorem countP_range_congr (f g : Nat → Bool) :
    ∀ N, (∀ j, j < N → g j = f j) → (List.range N).countP g = (List.range N).countP f
  | 0, _ => by simp
  | N + 1, h => by
    rw [List.range_succ, List.countP_append, List.countP_append,
      countP_range_congr f g N (fun j hj => h j (by omega))]
    simp [List.countP_cons, h N (by omega)]

/-- two predicates that differ exactly at `i < N`, where `f` is false and `g` is true -/
theorem countP_range_flip (f g : Nat → Bool) (i : Nat) (hf : f i = false) (hg : g i = true) :
    ∀ N, i < N → (∀ j, j < N → j ≠ i → g j = f j) →
      (List.range N).countP g = (List.range N).countP f + 1
  | 0, hi, _ => by omega
  | N + 1, hi, h => by
    rw [List.range_succ, List.countP_append, List.countP_append]
    by_cases hN : i = N
    · subst hN
      rw [countP_range_congr f g i (fun j hj => h j (by omega) (by omega))]
      simp [hf, hg]
    · rw [countP_range_flip f g i hf hg N (by omega) (fun j hj hne => h j (by omega) hne)]
      have := h N (by omega) (fun e => hN e.symm)
      simp [List.countP_cons, this]
      omega

theorem exists_false_of_countP_lt {α} (p : α → Bool) (l : List α) (h : l.countP p < l.length) :
    ∃ x ∈ l, p x = false := by
  apply Classical.byContradiction
  intro hn
  have : l.countP p = l.length := by
    rw [List.countP_eq_length]
    intro a ha
    cases hp : p a with
    | true => rfl
    | false => exact absurd ⟨a, ha, hp⟩ hn
  omega

/-! ### structural invariant: holds in every reachable state, whatever callers do -/

structure Struct (l : Limiter) : Prop where
  wf : WF l.lockedPid
  size : l.lockedPid.size = 65535
  fmin : 1 ≤ l.freePid
  fmax : l.freePid ≤ 65535
  lim : l.limit < 65536
  usedlt : l.used < 65536

theorem Struct_new (limit : Nat) : Struct (new limit) := by
  constructor
  · exact WF_new _
  · exact size_new_max
  · simp [new]
  · simp [new]
  · simp only [new]; omega
  · simp [new]

theorem advance_range {f : Nat} (h1 : 1 ≤ f) (h2 : f ≤ 65535) : 1 ≤ advance f ∧ advance f ≤ 65535 := by
  unfold advance maxPid minPid; split <;> omega

/-- the bit of `o'` after setting offset `o ≤ 65535` to 1 -/
theorem get_set1 {b : Bitmap} (hw : WF b) (hs : b.size = 65535) {o : Nat} (ho : o ≤ 65535) (o' : Nat) :
    (b.set o 1).get o' = if o' = o then 1 else b.get o' := by
  rw [get_set hw (by omega)]; simp

theorem get_set0 {b : Bitmap} (hw : WF b) (hs : b.size = 65535) {o : Nat} (ho : o ≤ 65535) (o' : Nat) :
    (b.set o 0).get o' = if o' = o then 0 else b.get o' := by
  rw [get_set hw (by omega)]; simp

/-- offsets beyond the bitmap read as 0 and writes to them are ignored -/
theorem get_big {b : Bitmap} (hs : b.size = 65535) {o : Nat} (ho : 65535 < o) : b.get o = 0 := by
  unfold Bitmap.get; simp [hs, ho]

theorem set_big {b : Bitmap} (hs : b.size = 65535) {o : Nat} (ho : 65535 < o) (v : Nat) : b.set o v = b := by
  unfold Bitmap.set; simp [hs, ho]

theorem marked_le {l : Limiter} (hs : Struct l) {id : Nat} (h : l.marked id = true) : id ≤ 65535 := by
  apply Classical.byContradiction
  intro hn
  have := get_big hs.size (o := id) (by omega)
  simp [Limiter.marked, this] at h

/-! ### the search loop -/

theorem search_sound (b : Bitmap) : ∀ fuel f x, 1 ≤ f → f ≤ 65535 → search b fuel f = some x →
    b.get x ≠ 1 ∧ 1 ≤ x ∧ x ≤ 65535
  | 0, _, _, _, _, h => by simp [search] at h
  | fuel + 1, f, x, h1, h2, h => by
    unfold search at h
    split at h
    · exact search_sound b fuel (advance f) x (advance_range h1 h2).1 (advance_range h1 h2).2 h
    · cases h
      exact ⟨by assumption, h1, h2⟩

/-- cyclic distance from `f` forward to `x` inside 1..65535 -/
def dist (f x : Nat) : Nat := if f ≤ x then x - f else x + 65535 - f

theorem search_complete (b : Bitmap) (x : Nat) (hx1 : 1 ≤ x) (hx2 : x ≤ 65535) (hfree : b.get x ≠ 1) :
    ∀ fuel f, 1 ≤ f → f ≤ 65535 → dist f x < fuel → search b fuel f ≠ none
  | 0, _, _, _, h => by omega
  | fuel + 1, f, h1, h2, h => by
    unfold search
    split
    · rename_i hm
      have hne : f ≠ x := fun e => hfree (e ▸ hm)
      apply search_complete b x hx1 hx2 hfree fuel (advance f) (advance_range h1 h2).1 (advance_range h1 h2).2
      unfold dist at *; unfold advance maxPid minPid
      split at h <;> (repeat' split) <;> omega
    · simp

/-! ### number of marked packet ids (1..65535) -/

def cnt (l : Limiter) : Nat := (List.range 65535).countP (fun i => l.marked (i + 1))

theorem cnt_le (l : Limiter) : cnt l ≤ 65535 := by
  have := @List.countP_le_length _ (fun i => l.marked (i + 1)) (List.range 65535)
  simpa [cnt] using this

theorem cnt_congr {l l' : Limiter} (h : ∀ id, l'.marked id = l.marked id) : cnt l' = cnt l :=
  countP_range_congr _ _ _ (fun j _ => h (j + 1))

/-- marking one more id -/
theorem cnt_flip {l l' : Limiter} {id : Nat} (h1 : 1 ≤ id) (h2 : id ≤ 65535)
    (hf : l.marked id = false) (hg : l'.marked id = true) (hne : ∀ j, j ≠ id → l'.marked j = l.marked j) :
    cnt l' = cnt l + 1 := by
  unfold cnt
  apply countP_range_flip _ _ (id - 1)
  · have : id - 1 + 1 = id := by omega
    simpa [this] using hf
  · have : id - 1 + 1 = id := by omega
    simpa [this] using hg
  · omega
  · intro j _ hj
    exact hne (j + 1) (by omega)

theorem exists_free {l : Limiter} (h : cnt l < 65535) : ∃ x, 1 ≤ x ∧ x ≤ 65535 ∧ l.marked x = false := by
  have := exists_false_of_countP_lt (fun i => l.marked (i + 1)) (List.range 65535) (by simpa [cnt] using h)
  obtain ⟨i, hi, hp⟩ := this
  rw [List.mem_range] at hi
  exact ⟨i + 1, by omega, by omega, hp⟩

theorem cnt_new (limit : Nat) : cnt (new limit) = 0 := by
  unfold cnt
  rw [List.countP_eq_zero]
  intro a _
  simp [Limiter.marked, new, get_new]

/-! ### one iteration of the outer loop -/

/-- state after handing out `f` (limiter.go:65-72) -/
def take1 (l : Limiter) (f : Nat) : Limiter :=
  { l with used := (l.used + 1) % 65536, lockedPid := l.lockedPid.set f 1, freePid := advance f }

theorem pollLoop_succ (n : Nat) (l : Limiter) (acc : List Nat) :
    pollLoop (n + 1) l acc =
      match search l.lockedPid searchFuel l.freePid with
      | none => none
      | some f => pollLoop n (take1 l f) (f :: acc) := rfl

theorem marked_take1 {l : Limiter} (hs : Struct l) {f : Nat} (hf : f ≤ 65535) (id : Nat) :
    (take1 l f).marked id = if id = f then true else l.marked id := by
  simp only [Limiter.marked, take1, get_set1 hs.wf hs.size hf]
  split <;> simp

theorem Struct_take1 {l : Limiter} (hs : Struct l) {f : Nat} (h1 : 1 ≤ f) (h2 : f ≤ 65535) : Struct (take1 l f) := by
  constructor
  · exact WF_set hs.wf _ _
  · simp [take1, size_set, hs.size]
  · exact (advance_range h1 h2).1
  · exact (advance_range h1 h2).2
  · exact hs.lim
  · simp only [take1]; omega

/-- what a completed outer loop did: the ids it appended (oldest first) were all unmarked, non-zero, distinct;
    afterwards exactly they are marked in addition; `used` went up by their number (mod 2^16) -/
theorem pollLoop_spec : ∀ (n : Nat) (l : Limiter) (acc : List Nat) (l' : Limiter) (rev : List Nat),
    Struct l → pollLoop n l acc = some (l', rev) →
    ∃ ids : List Nat, rev = ids.reverse ++ acc ∧ ids.length = n ∧ Struct l' ∧ l'.limit = l.limit ∧ l'.exit = l.exit
      ∧ l'.used = (l.used + n) % 65536
      ∧ (∀ id ∈ ids, 1 ≤ id ∧ id ≤ 65535 ∧ l.marked id = false)
      ∧ ids.Nodup
      ∧ (∀ id, l'.marked id = (l.marked id || decide (id ∈ ids)))
      ∧ cnt l' = cnt l + n
  | 0, l, acc, l', rev, hs, h => by
    simp only [pollLoop, Option.some.injEq, Prod.mk.injEq] at h
    obtain ⟨rfl, rfl⟩ := h
    refine ⟨[], by simp, rfl, hs, rfl, rfl, ?_, by simp, by simp, by simp, by simp⟩
    have := hs.usedlt
    simp; omega
  | n + 1, l, acc, l', rev, hs, h => by
    rw [pollLoop_succ] at h
    split at h
    · cases h
    · rename_i f hsearch
      obtain ⟨hfree, hf1, hf2⟩ := search_sound _ _ _ _ hs.fmin hs.fmax hsearch
      have hs1 := Struct_take1 hs hf1 hf2
      obtain ⟨ids, hrev, hlen, hs', hlim, hexit, hused, hall, hnd, hmark, hcnt⟩ :=
        pollLoop_spec n (take1 l f) (f :: acc) l' rev hs1 h
      have hfm : l.marked f = false := by
        simp only [Limiter.marked]
        have := get_le_one l.lockedPid f
        cases hg : l.lockedPid.get f with
        | zero => rfl
        | succ k => simp; omega
      have hnotin : f ∉ ids := by
        intro hin
        have := (hall f hin).2.2
        rw [marked_take1 hs hf2] at this
        simp at this
      refine ⟨f :: ids, ?_, by simp [hlen], hs', ?_, ?_, ?_, ?_, ?_, ?_, ?_⟩
      · simp [hrev]
      · simpa [take1] using hlim
      · simpa [take1] using hexit
      · rw [hused]; simp only [take1]; omega
      · intro id hid
        rcases List.mem_cons.mp hid with rfl | hid
        · exact ⟨hf1, hf2, hfm⟩
        · obtain ⟨a, b, c⟩ := hall id hid
          refine ⟨a, b, ?_⟩
          rw [marked_take1 hs hf2] at c
          split at c
          · cases c
          · exact c
      · exact List.nodup_cons.mpr ⟨hnotin, hnd⟩
      · intro id
        rw [hmark id, marked_take1 hs hf2]
        by_cases hid : id = f
        · simp [hid]
        · simp [hid]
      · rw [hcnt]
        have : cnt (take1 l f) = cnt l + 1 := by
          apply cnt_flip hf1 hf2 hfm
          · rw [marked_take1 hs hf2]; simp
          · intro j hj; rw [marked_take1 hs hf2]; simp [hj]
        omega

/-! ### contract invariant: `used` counts the marked ids, id 0 is never marked -/

structure Inv (l : Limiter) : Prop where
  st : Struct l
  zero : l.marked 0 = false
  cnt : l.used = cnt l

theorem Inv_new (limit : Nat) : Inv (new limit) :=
  ⟨Struct_new limit, by simp [Limiter.marked, new, get_new], by rw [cnt_new]; rfl⟩

/-- the search cannot spin while `used` counts the marked ids and the window is not the whole id space -/
theorem pollLoop_some : ∀ (n : Nat) (l : Limiter) (acc : List Nat),
    Struct l → l.used = cnt l → l.used + n ≤ 65535 → pollLoop n l acc ≠ none
  | 0, _, _, _, _, _ => by simp [pollLoop]
  | n + 1, l, acc, hs, hc, hn => by
    rw [pollLoop_succ]
    obtain ⟨x, hx1, hx2, hxf⟩ := exists_free (l := l) (by omega)
    have hget : l.lockedPid.get x ≠ 1 := by
      intro h; simp [Limiter.marked, h] at hxf
    have hsome := search_complete l.lockedPid x hx1 hx2 hget searchFuel l.freePid hs.fmin hs.fmax
      (by unfold dist searchFuel; have := hs.fmin; have := hs.fmax; split <;> omega)
    split
    · rename_i heq; exact absurd heq hsome
    · rename_i f hsearch
      obtain ⟨hfree, hf1, hf2⟩ := search_sound _ _ _ _ hs.fmin hs.fmax hsearch
      have hfm : l.marked f = false := by
        simp only [Limiter.marked]
        have := get_le_one l.lockedPid f
        cases hg : l.lockedPid.get f with
        | zero => rfl
        | succ k => simp; omega
      apply pollLoop_some n (take1 l f) (f :: acc) (Struct_take1 hs hf1 hf2)
      · have : GmqttVerif.Limiter.cnt (take1 l f) = GmqttVerif.Limiter.cnt l + 1 := by
          apply cnt_flip hf1 hf2 hfm
          · rw [marked_take1 hs hf2]; simp
          · intro j hj; rw [marked_take1 hs hf2]; simp [hj]
        rw [this]; simp only [take1]; omega
      · simp only [take1]; omega

/-- everything `pollPacketIDs` does, in one statement (any state satisfying `Struct`) -/
theorem poll_spec {l : Limiter} (hs : Struct l) (max : Nat) (l' : Limiter) (ids : List Nat)
    (h : l.poll max = (l', .ids ids)) :
    l.used < l.limit ∧ l.exit = false
    ∧ ids.length = (if l.limit - l.used < max then l.limit - l.used else max)
    ∧ Struct l' ∧ l'.limit = l.limit ∧ l'.exit = l.exit
    ∧ l'.used = l.used + ids.length
    ∧ (∀ id ∈ ids, 1 ≤ id ∧ id ≤ 65535 ∧ l.marked id = false)
    ∧ ids.Nodup
    ∧ (∀ id, l'.marked id = (l.marked id || decide (id ∈ ids)))
    ∧ cnt l' = cnt l + ids.length := by
  unfold Limiter.poll at h
  split at h
  · cases h
  · rename_i hnb
    split at h
    · cases h
    · rename_i hne
      have hex : l.exit = false := by cases he : l.exit <;> simp_all
      have hlt : l.used < l.limit := by
        apply Classical.byContradiction; intro hn; exact hnb ⟨by omega, hex⟩
      have hlim := hs.lim
      have hrem : (l.limit + 65536 - l.used) % 65536 = l.limit - l.used := by omega
      simp only [hrem] at h
      split at h
      · rename_i l'' rev hloop
        simp only [Prod.mk.injEq, PollRes.ids.injEq] at h
        obtain ⟨rfl, rfl⟩ := h
        obtain ⟨ids, hrev, hlen, hs', hl, he, hu, hall, hnd, hmark, hcnt⟩ := pollLoop_spec _ _ _ _ _ hs hloop
        subst hrev
        have hn : (if l.limit - l.used < max then l.limit - l.used else max) ≤ l.limit - l.used := by
          split <;> omega
        simp only [List.append_nil, List.reverse_reverse]
        refine ⟨hlt, hex, hlen, hs', hl, he, ?_, hall, hnd, hmark, by rw [hcnt, hlen]⟩
        rw [hu, hlen]; omega
      · cases h

/-- number of ids a non-blocked poll hands out -/
def pollN (l : Limiter) (max : Nat) : Nat :=
  if (l.limit + 65536 - l.used) % 65536 < max then (l.limit + 65536 - l.used) % 65536 else max

theorem poll_unfold (l : Limiter) (max : Nat) :
    l.poll max =
      if l.used ≥ l.limit ∧ l.exit = false then (l, .blocked)
      else if l.exit then (l, .closed)
      else match pollLoop (pollN l max) l [] with
        | some (l', rev) => (l', .ids rev.reverse)
        | none => (l, .spin) := rfl

theorem Inv_poll {l : Limiter} (hi : Inv l) (max : Nat) : Inv (l.poll max).1 ∧ (l.poll max).2 ≠ .spin := by
  cases hr : l.poll max with
  | mk l' r =>
    cases r with
    | ids ids =>
      obtain ⟨_, _, _, hs', _, _, hu, hall, _, hmark, hcnt⟩ := poll_spec hi.st max l' ids hr
      refine ⟨⟨hs', ?_, by rw [hu, hcnt, hi.cnt]⟩, by simp⟩
      rw [hmark 0, hi.zero]
      simp only [Bool.false_or, decide_eq_false_iff_not]
      intro h0
      have := (hall 0 h0).1
      omega
    | blocked =>
      have : l' = l := by
        rw [poll_unfold] at hr
        split at hr
        · cases hr; rfl
        · split at hr
          · cases hr
          · split at hr <;> cases hr
      subst this; exact ⟨hi, by simp⟩
    | closed =>
      have : l' = l := by
        rw [poll_unfold] at hr
        split at hr
        · cases hr
        · split at hr
          · cases hr; rfl
          · split at hr <;> cases hr
      subst this; exact ⟨hi, by simp⟩
    | spin =>
      exfalso
      rw [poll_unfold] at hr
      split at hr
      · cases hr
      · rename_i hnb
        split at hr
        · cases hr
        · rename_i hne
          have hex : l.exit = false := by cases he : l.exit <;> simp_all
          have hlt : l.used < l.limit := by
            apply Classical.byContradiction; intro hn; exact hnb ⟨by omega, hex⟩
          have hlim := hi.st.lim
          split at hr
          · cases hr
          · rename_i hloop
            refine pollLoop_some _ l [] hi.st hi.cnt ?_ hloop
            unfold pollN; split <;> omega

/-- a poll in a `Struct` state that does not hand out ids leaves the limiter untouched -/
theorem poll_noids {l : Limiter} (max : Nat) (h : ∀ ids, (l.poll max).2 ≠ .ids ids) : (l.poll max).1 = l := by
  cases hr : l.poll max with
  | mk l' r =>
    rw [hr] at h
    rw [poll_unfold] at hr
    split at hr
    · cases hr; rfl
    · split at hr
      · cases hr; rfl
      · split at hr
        · cases hr; exact absurd rfl (h _)
        · cases hr; rfl

/-! ### release / batchRelease -/

theorem releaseLocked_unmarked {l : Limiter} {id : Nat} (h : l.marked id = false) : l.releaseLocked id = l := by
  unfold Limiter.releaseLocked
  have : ¬ l.lockedPid.get id = 1 := by intro e; simp [Limiter.marked, e] at h
  simp [this]

theorem releaseLocked_marked {l : Limiter} (hs : Struct l) {id : Nat} (h : l.marked id = true) :
    (l.releaseLocked id).used = (l.used + 65535) % 65536
    ∧ (∀ j, (l.releaseLocked id).marked j = if j = id then false else l.marked j)
    ∧ (l.releaseLocked id).limit = l.limit ∧ (l.releaseLocked id).exit = l.exit
    ∧ (l.releaseLocked id).freePid = l.freePid := by
  have hle := marked_le hs h
  have hg : l.lockedPid.get id = 1 := by simpa [Limiter.marked] using h
  unfold Limiter.releaseLocked
  simp only [hg, if_true, true_and, and_true]
  intro j
  simp only [Limiter.marked, get_set0 hs.wf hs.size hle]
  split <;> simp

theorem Struct_releaseLocked {l : Limiter} (hs : Struct l) (id : Nat) : Struct (l.releaseLocked id) := by
  unfold Limiter.releaseLocked
  split
  · exact ⟨WF_set hs.wf _ _, by simp [size_set, hs.size], hs.fmin, hs.fmax, hs.lim, by simp only; omega⟩
  · exact hs

theorem Inv_releaseLocked {l : Limiter} (hi : Inv l) (id : Nat) :
    Inv (l.releaseLocked id) ∧ (l.releaseLocked id).used ≤ l.used := by
  cases hm : l.marked id with
  | false => rw [releaseLocked_unmarked hm]; exact ⟨hi, Nat.le_refl _⟩
  | true =>
    obtain ⟨hu, hmk, _, _, _⟩ := releaseLocked_marked hi.st hm
    have hle := marked_le hi.st hm
    have h1 : 1 ≤ id := by
      apply Classical.byContradiction; intro hn
      have : id = 0 := by omega
      subst this; rw [hi.zero] at hm; cases hm
    have hc : GmqttVerif.Limiter.cnt l = GmqttVerif.Limiter.cnt (l.releaseLocked id) + 1 := by
      apply cnt_flip h1 hle
      · rw [hmk]; simp
      · exact hm
      · intro j hj; rw [hmk]; simp [hj]
    have hcl := cnt_le l
    refine ⟨⟨Struct_releaseLocked hi.st id, ?_, ?_⟩, ?_⟩
    · rw [hmk]; split <;> simp [hi.zero]
    · rw [hu, hi.cnt]; omega
    · rw [hu, hi.cnt]; omega

theorem Inv_batchRelease : ∀ (ids : List Nat) {l : Limiter}, Inv l →
    Inv (l.batchRelease ids) ∧ (l.batchRelease ids).used ≤ l.used ∧ (l.batchRelease ids).limit = l.limit
  | [], _, hi => ⟨hi, Nat.le_refl _, rfl⟩
  | id :: ids, l, hi => by
    have h1 := Inv_releaseLocked hi id
    have h2 := Inv_batchRelease ids h1.1
    have hl : (l.releaseLocked id).limit = l.limit := by
      unfold Limiter.releaseLocked; split <;> rfl
    simp only [Limiter.batchRelease, List.foldl_cons] at *
    exact ⟨h2.1, by omega, by rw [h2.2.2, hl]⟩

theorem Struct_batchRelease : ∀ (ids : List Nat) {l : Limiter}, Struct l → Struct (l.batchRelease ids)
  | [], _, hs => hs
  | id :: ids, l, hs => by
    simp only [Limiter.batchRelease, List.foldl_cons]
    exact Struct_batchRelease ids (Struct_releaseLocked hs id)

/-! ### markUsedLocked -/

theorem Struct_markUsedLocked {l : Limiter} (hs : Struct l) (id : Nat) : Struct (l.markUsedLocked id) :=
  ⟨WF_set hs.wf _ _, by simp [Limiter.markUsedLocked, size_set, hs.size], hs.fmin, hs.fmax, hs.lim,
   by simp only [Limiter.markUsedLocked]; omega⟩

theorem Struct_markAll : ∀ (ids : List Nat) {l : Limiter}, Struct l → Struct (l.markAll ids)
  | [], _, hs => hs
  | id :: ids, l, hs => by
    simp only [Limiter.markAll, List.foldl_cons]
    exact Struct_markAll ids (Struct_markUsedLocked hs id)

theorem marked_markUsedLocked {l : Limiter} (hs : Struct l) {id : Nat} (hid : id ≤ 65535) (j : Nat) :
    (l.markUsedLocked id).marked j = if j = id then true else l.marked j := by
  simp only [Limiter.marked, Limiter.markUsedLocked, get_set1 hs.wf hs.size hid]
  split <;> simp

/-- what callers of `markUsedLocked` must guarantee (and `pollInflights` does when the queue's
    in-flight PUBLISH ids are pairwise distinct): ids are packet ids, pairwise distinct, not yet marked -/
def MarkOK (l : Limiter) (ids : List Nat) : Prop :=
  ids.Nodup ∧ ∀ id ∈ ids, 1 ≤ id ∧ id ≤ 65535 ∧ l.marked id = false

theorem Inv_markAll : ∀ (ids : List Nat) {l : Limiter}, Inv l → MarkOK l ids →
    Inv (l.markAll ids) ∧ (l.markAll ids).used = l.used + ids.length ∧ (l.markAll ids).limit = l.limit
      ∧ (∀ j, (l.markAll ids).marked j = (l.marked j || decide (j ∈ ids)))
  | [], _, hi, _ => ⟨hi, rfl, rfl, by simp [Limiter.markAll]⟩
  | id :: ids, l, hi, hok => by
    obtain ⟨hnd, hall⟩ := hok
    obtain ⟨h1, h2, hf⟩ := hall id (List.mem_cons_self)
    have hmk := marked_markUsedLocked hi.st h2
    have hc : GmqttVerif.Limiter.cnt (l.markUsedLocked id) = GmqttVerif.Limiter.cnt l + 1 := by
      apply cnt_flip h1 h2 hf
      · rw [hmk]; simp
      · intro j hj; rw [hmk]; simp [hj]
    have hcl := cnt_le (l.markUsedLocked id)
    have hu : (l.markUsedLocked id).used = l.used + 1 := by
      simp only [Limiter.markUsedLocked]; rw [hi.cnt]; omega
    have hi1 : Inv (l.markUsedLocked id) := by
      refine ⟨Struct_markUsedLocked hi.st id, ?_, by rw [hu, hc, hi.cnt]⟩
      rw [hmk]; split
      · omega
      · exact hi.zero
    have hok1 : MarkOK (l.markUsedLocked id) ids := by
      refine ⟨(List.nodup_cons.mp hnd).2, ?_⟩
      intro j hj
      obtain ⟨a, b, c⟩ := hall j (List.mem_cons_of_mem _ hj)
      refine ⟨a, b, ?_⟩
      rw [hmk]
      have : j ≠ id := fun e => (List.nodup_cons.mp hnd).1 (e ▸ hj)
      simp [this, c]
    obtain ⟨r1, r2, r3, r4⟩ := Inv_markAll ids hi1 hok1
    simp only [Limiter.markAll, List.foldl_cons] at *
    refine ⟨r1, by rw [r2, hu]; simp; omega, by rw [r3]; rfl, ?_⟩
    intro j
    rw [r4 j, hmk j]
    by_cases hj : j = id <;> simp [hj]

theorem Inv_close {l : Limiter} (hi : Inv l) : Inv l.close :=
  ⟨⟨hi.st.wf, hi.st.size, hi.st.fmin, hi.st.fmax, hi.st.lim, hi.st.usedlt⟩, hi.zero, hi.cnt⟩

/-! ### `limit` never changes -/

theorem pollLoop_limit : ∀ (n : Nat) (l : Limiter) (acc : List Nat) (l' : Limiter) (rev : List Nat),
    pollLoop n l acc = some (l', rev) → l'.limit = l.limit
  | 0, l, acc, l', rev, h => by
    simp only [pollLoop, Option.some.injEq, Prod.mk.injEq] at h
    rw [← h.1]
  | n + 1, l, acc, l', rev, h => by
    rw [pollLoop_succ] at h
    split at h
    · cases h
    · exact (pollLoop_limit n _ _ l' rev h).trans rfl

theorem poll_limit (l : Limiter) (max : Nat) : (l.poll max).1.limit = l.limit := by
  rw [poll_unfold]
  split
  · rfl
  · split
    · rfl
    · split
      · rename_i hloop; exact pollLoop_limit _ _ _ _ _ hloop
      · rfl

theorem releaseLocked_limit (l : Limiter) (id : Nat) : (l.releaseLocked id).limit = l.limit := by
  unfold Limiter.releaseLocked; split <;> rfl

theorem batchRelease_limit : ∀ (ids : List Nat) (l : Limiter), (l.batchRelease ids).limit = l.limit
  | [], _ => rfl
  | id :: ids, l => by
    simp only [Limiter.batchRelease, List.foldl_cons]
    have := batchRelease_limit ids (l.releaseLocked id)
    simp only [Limiter.batchRelease] at this
    rw [this, releaseLocked_limit]

theorem markAll_limit : ∀ (ids : List Nat) (l : Limiter), (l.markAll ids).limit = l.limit
  | [], _ => rfl
  | id :: ids, l => by
    simp only [Limiter.markAll, List.foldl_cons]
    have := markAll_limit ids (l.markUsedLocked id)
    simp only [Limiter.markAll] at this
    rw [this]; rfl

/-! ### the search takes the first free id at or after `freePid` (cyclically) -/

/-- `k` applications of the advance step -/
def advN : Nat → Nat → Nat
  | 0, f => f
  | k + 1, f => advN k (advance f)

theorem search_first (b : Bitmap) : ∀ fuel f x, search b fuel f = some x →
    ∃ k, k < fuel ∧ advN k f = x ∧ b.get x ≠ 1 ∧ ∀ j, j < k → b.get (advN j f) = 1
  | 0, _, _, h => by simp [search] at h
  | fuel + 1, f, x, h => by
    unfold search at h
    split at h
    · rename_i hm
      obtain ⟨k, hk, hx, hfree, hall⟩ := search_first b fuel (advance f) x h
      refine ⟨k + 1, by omega, hx, hfree, ?_⟩
      intro j hj
      cases j with
      | zero => exact hm
      | succ j => exact hall j (by omega)
    · rename_i hm
      cases h
      exact ⟨0, by omega, rfl, hm, by intro j hj; omega⟩

/-- the first id a successful poll returns -/
theorem poll_head {l : Limiter} {max : Nat} {l' : Limiter} {id : Nat} {rest : List Nat}
    (h : l.poll max = (l', .ids (id :: rest))) :
    search l.lockedPid searchFuel l.freePid = some id := by
  rw [poll_unfold] at h
  split at h
  · cases h
  · split at h
    · cases h
    · split at h
      · rename_i l'' rev hloop
        simp only [Prod.mk.injEq, PollRes.ids.injEq] at h
        obtain ⟨_, hrev⟩ := h
        cases hn : pollN l max with
        | zero =>
          rw [hn] at hloop
          simp only [pollLoop, Option.some.injEq, Prod.mk.injEq] at hloop
          rw [← hloop.2] at hrev; cases hrev
        | succ n =>
          rw [hn, pollLoop_succ] at hloop
          split at hloop
          · cases hloop
          · rename_i f hsearch
            have : ∃ pre, rev = pre ++ [f] := by
              have hgen : ∀ (n : Nat) (l : Limiter) (acc : List Nat) (l' : Limiter) (rev : List Nat),
                  pollLoop n l acc = some (l', rev) → ∃ pre, rev = pre ++ acc := by
                intro n
                induction n with
                | zero =>
                  intro l acc l' rev h
                  simp only [pollLoop, Option.some.injEq, Prod.mk.injEq] at h
                  exact ⟨[], by simp [h.2]⟩
                | succ n ih =>
                  intro l acc l' rev h
                  rw [pollLoop_succ] at h
                  split at h
                  · cases h
                  · rename_i f' _
                    obtain ⟨pre, hp⟩ := ih _ _ _ _ h
                    exact ⟨pre ++ [f'], by simp [hp]⟩
              exact hgen _ _ _ _ _ hloop
            obtain ⟨pre, hp⟩ := this
            rw [hp] at hrev
            simp at hrev
            rw [hsearch, hrev.1]
      · cases h

end GmqttVerif.Limiter
