import GmqttVerif.Model.Bitmap
/-
  Lemmas about the bitmap model (`pkg/bitmap`): `get`/`set` behave like a Boolean table
  on the offsets `0..size`. Core Lean only.
-/
namespace GmqttVerif.Bitmap

theorem getBit_eq (v q : Nat) : getBit v q = (v.testBit q).toNat := by
  simp [getBit, Nat.toNat_testBit, Nat.and_one_is_mod, Nat.shiftRight_eq_div_pow]

theorem getBit_setBit (v p q : Nat) : getBit (setBit v p) q = if q = p then 1 else getBit v q := by
  simp only [getBit_eq, setBit, Nat.testBit_or, Nat.one_shiftLeft, Nat.testBit_two_pow]
  by_cases h : q = p
  · subst h; simp
  · have : ¬ p = q := fun e => h e.symm
    simp [h, this]

theorem getBit_clearBit (v p q : Nat) : getBit (clearBit v p) q = if q = p then 0 else getBit v q := by
  simp only [getBit_eq, clearBit, Nat.testBit_xor, Nat.testBit_and, Nat.one_shiftLeft, Nat.testBit_two_pow]
  by_cases h : q = p
  · subst h; cases v.testBit q <;> simp
  · have : ¬ p = q := fun e => h e.symm
    cases v.testBit q <;> simp [h, this]

theorem getBit_zero (q : Nat) : getBit 0 q = 0 := by simp [getBit_eq]

theorem getBit_le_one (v q : Nat) : getBit v q ≤ 1 := by
  rw [getBit_eq]; cases v.testBit q <;> simp

theorem shr3 (o : Nat) : o >>> 3 = o / 8 := by simp [Nat.shiftRight_eq_div_pow]
theorem and7 (o : Nat) : o &&& 7 = o % 8 := Nat.and_two_pow_sub_one_eq_mod o 3

/-- the byte slice is long enough for every offset `≤ size` (what `New` establishes) -/
def WF (b : Bitmap) : Prop := b.vals.size = b.size >>> 3 + 1

theorem WF_new (n : Nat) : WF (new n) := by simp [WF, new]

theorem size_set (b : Bitmap) (o v : Nat) : (b.set o v).size = b.size := by
  unfold Bitmap.set; split <;> rfl

theorem WF_set {b : Bitmap} (h : WF b) (o v : Nat) : WF (b.set o v) := by
  unfold WF at *; unfold Bitmap.set; split
  · exact h
  · simpa using h

theorem size_new_max : (new maxSize).size = 65535 := by simp [new, maxSize]

theorem get_new (n o : Nat) : (new n).get o = 0 := by
  unfold Bitmap.get; split
  · rfl
  · have hz : ∀ k i : Nat, (Array.replicate k 0).getD i 0 = 0 := by
      intro k i
      simp only [Array.getD_eq_getD_getElem?, Array.getElem?_replicate]
      split <;> rfl
    simp only [new, hz]
    exact getBit_zero _

theorem get_le_one (b : Bitmap) (o : Nat) : b.get o ≤ 1 := by
  unfold Bitmap.get; split
  · omega
  · exact getBit_le_one _ _

/-- reading after writing: the written offset holds the written bit, every other offset is unchanged -/
theorem get_set {b : Bitmap} (h : WF b) {o : Nat} (ho : o ≤ b.size) (v o' : Nat) :
    (b.set o v).get o' = if o' = o then (if v = 0 then 0 else 1) else b.get o' := by
  unfold WF at h
  have hidx : o >>> 3 < b.vals.size := by rw [h, shr3, shr3]; omega
  unfold Bitmap.get
  rw [size_set]
  by_cases hs : b.size < o'
  · have : o' ≠ o := by omega
    simp [hs, this]
  · simp only [hs, if_false]
    unfold Bitmap.set
    have hno : ¬ b.size < o := by omega
    simp only [hno, if_false, Array.getD_eq_getD_getElem?, Array.getElem?_setIfInBounds, hidx, if_true]
    by_cases hi : o >>> 3 = o' >>> 3
    · simp only [hi, if_true, Option.getD_some]
      have hi' := hi; rw [shr3, shr3] at hi'
      by_cases hp : o' = o
      · subst hp
        by_cases hv : v = 0 <;> simp [hv, getBit_setBit, getBit_clearBit]
      · have hpos : ¬ (o' &&& 7 = o &&& 7) := by rw [and7, and7]; omega
        by_cases hv : v = 0 <;>
          simp [hv, hp, getBit_setBit, getBit_clearBit, hpos, ← hi]
    · have hp : o' ≠ o := fun e => hi (by rw [e])
      simp [hi, hp]

end GmqttVerif.Bitmap
