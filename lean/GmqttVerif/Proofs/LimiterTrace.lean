import GmqttVerif.Proofs.Limiter
/-
  Trace-level bookkeeping for the limiter: the list of *outstanding* ids is computed from the
  ops and the reported outputs only (no reference to the bitmap), and is shown to coincide with
  the marked set of the limiter after every history that respects the `markUsedLocked` contract.
-/
namespace GmqttVerif.Limiter
open GmqttVerif.Bitmap

/-! ### vocabulary used by the property statements -/

/-- ids handed out by one step (by the poll itself, or by the parked poll woken by this step) -/
def Out.ids : Out → List Nat
  | .polled (.ids l) => l
  | .done (some (.ids l)) => l
  | _ => []

/-- marking `ids` keeps the window: `used + len(ids) ≤ limit` -/
def MarkFits (l : Limiter) (ids : List Nat) : Prop := l.used + ids.length ≤ l.limit

/-- per-op caller obligations; `fits` selects whether the window obligation is included -/
def OpOK (fits : Bool) (s : Sys) : Op → Prop
  | .mark ids => MarkOK s.lim ids ∧ (fits = true → MarkFits s.lim ids)
  | .markSignal ids => MarkOK s.lim ids ∧ (fits = true → MarkFits s.lim ids)
  | _ => True

/-- a history respects the `markUsedLocked` contract (checked against the state each op meets) -/
def Contract (fits : Bool) : Sys → List Op → Prop
  | _, [] => True
  | s, op :: ops => OpOK fits s op ∧ Contract fits (s.step op).1 ops

instance (l : Limiter) (ids : List Nat) : Decidable (MarkOK l ids) := by unfold MarkOK; infer_instance
instance (l : Limiter) (ids : List Nat) : Decidable (MarkFits l ids) := by unfold MarkFits; infer_instance
instance (fits : Bool) (s : Sys) (op : Op) : Decidable (OpOK fits s op) := by
  cases op <;> simp only [OpOK] <;> infer_instance
instance decContract (fits : Bool) : (s : Sys) → (ops : List Op) → Decidable (Contract fits s ops)
  | _, [] => isTrue trivial
  | s, op :: ops => by
    unfold Contract
    exact @instDecidableAnd _ _ _ (decContract fits (s.step op).1 ops)

/-- remove every occurrence of each id -/
def removeAll (acc : List Nat) (ids : List Nat) : List Nat :=
  ids.foldl (fun a id => a.filter (· != id)) acc

/-- outstanding ids after one step, from the op and its reported output alone -/
def track (acc : List Nat) (op : Op) (o : Out) : List Nat :=
  match o with
  | .wedged => acc
  | .busy => acc
  | _ =>
    (match op with
      | .release id => removeAll acc [id]
      | .batchRelease ids => removeAll acc ids
      | .mark ids => acc ++ ids
      | .markSignal ids => acc ++ ids
      | _ => acc) ++ o.ids

def trackAll (acc : List Nat) : List Op → List Out → List Nat
  | op :: ops, o :: outs => trackAll (track acc op o) ops outs
  | _, _ => acc

/-- outstanding ids after a history from a fresh limiter -/
def outstanding (ops : List Op) (outs : List Out) : List Nat := trackAll [] ops outs

/-! ### list helpers -/

theorem length_filter_ne {l : List Nat} (hnd : l.Nodup) {x : Nat} (hx : x ∈ l) :
    (l.filter (· != x)).length + 1 = l.length := by
  induction l with
  | nil => cases hx
  | cons a t ih =>
    obtain ⟨hnot, hnd'⟩ := List.nodup_cons.mp hnd
    by_cases ha : a = x
    · subst ha
      have : t.filter (· != a) = t := by
        rw [List.filter_eq_self]
        intro b hb
        have : b ≠ a := fun e => hnot (e ▸ hb)
        simpa [bne_iff_ne] using this
      rw [List.filter_cons]
      simp [this]
    · have hx' : x ∈ t := by
        rcases List.mem_cons.mp hx with h | h
        · exact absurd h.symm ha
        · exact h
      have := ih hnd' hx'
      rw [List.filter_cons]
      have hb : (a != x) = true := by simpa [bne_iff_ne] using ha
      simp only [hb, if_true, List.length_cons]
      omega

theorem filter_ne_of_not_mem {l : List Nat} {x : Nat} (hx : x ∉ l) : l.filter (· != x) = l := by
  rw [List.filter_eq_self]
  intro b hb
  have : b ≠ x := fun e => hx (e ▸ hb)
  simpa [bne_iff_ne] using this

/-! ### limiter state and outstanding list in step -/

structure LInv (l : Limiter) (acc : List Nat) : Prop where
  inv : Inv l
  nodup : acc.Nodup
  mem : ∀ id, id ∈ acc ↔ l.marked id = true
  len : acc.length = l.used

theorem LInv_new (limit : Nat) : LInv (new limit) [] :=
  ⟨Inv_new limit, List.nodup_nil, by intro id; simp [Limiter.marked, new, get_new], rfl⟩

theorem LInv_release {l : Limiter} {acc : List Nat} (h : LInv l acc) (id : Nat) :
    LInv (l.releaseLocked id) (acc.filter (· != id)) := by
  cases hm : l.marked id with
  | false =>
    have : id ∉ acc := by rw [h.mem, hm]; simp
    rw [releaseLocked_unmarked hm, filter_ne_of_not_mem this]
    exact h
  | true =>
    obtain ⟨hu, hmk, _, _, _⟩ := releaseLocked_marked h.inv.st hm
    have hin : id ∈ acc := (h.mem id).mpr hm
    have hlen := length_filter_ne h.nodup hin
    have hused : 1 ≤ l.used := by
      rw [← h.len]
      cases acc with
      | nil => cases hin
      | cons _ _ => simp
    refine ⟨(Inv_releaseLocked h.inv id).1, List.Nodup.sublist List.filter_sublist h.nodup, ?_, ?_⟩
    · intro j
      rw [List.mem_filter, h.mem, hmk]
      by_cases hj : j = id <;> simp [hj, bne_iff_ne]
    · have := h.inv.st.usedlt
      rw [hu]; have := h.len; omega

theorem LInv_batchRelease : ∀ (ids : List Nat) {l : Limiter} {acc : List Nat}, LInv l acc →
    LInv (l.batchRelease ids) (removeAll acc ids)
  | [], _, _, h => h
  | id :: ids, l, acc, h => by
    simp only [Limiter.batchRelease, removeAll, List.foldl_cons]
    exact LInv_batchRelease ids (LInv_release h id)

theorem LInv_poll {l : Limiter} {acc : List Nat} (h : LInv l acc) {max : Nat} {l' : Limiter} {ids : List Nat}
    (hr : l.poll max = (l', .ids ids)) :
    LInv l' (acc ++ ids) ∧ l'.used = l.used + ids.length ∧ l'.limit = l.limit
      ∧ l.used + ids.length ≤ l.limit := by
  obtain ⟨hlt, _, hlen, hs', hl, _, hu, hall, hnd, hmark, _⟩ := poll_spec h.inv.st max l' ids hr
  have hinv : Inv l' := by have := (Inv_poll h.inv max).1; rwa [hr] at this
  refine ⟨⟨hinv, ?_, ?_, ?_⟩, hu, hl, ?_⟩
  · rw [List.nodup_append]
    refine ⟨h.nodup, hnd, ?_⟩
    intro a ha b hb e
    subst e
    rw [h.mem] at ha
    rw [(hall a hb).2.2] at ha
    cases ha
  · intro id
    rw [List.mem_append, h.mem, hmark]
    simp
  · rw [List.length_append, h.len, hu]
  · rw [hlen]; split <;> omega

theorem LInv_markAll {l : Limiter} {acc : List Nat} (h : LInv l acc) {ids : List Nat} (hok : MarkOK l ids) :
    LInv (l.markAll ids) (acc ++ ids) ∧ (l.markAll ids).used = l.used + ids.length
      ∧ (l.markAll ids).limit = l.limit := by
  obtain ⟨hi, hu, hl, hmk⟩ := Inv_markAll ids h.inv hok
  refine ⟨⟨hi, ?_, ?_, ?_⟩, hu, hl⟩
  · rw [List.nodup_append]
    refine ⟨h.nodup, hok.1, ?_⟩
    intro a ha b hb e
    subst e
    rw [h.mem] at ha
    rw [(hok.2 a hb).2.2] at ha
    cases ha
  · intro id
    rw [List.mem_append, h.mem, hmk]
    simp
  · rw [List.length_append, h.len, hu]

theorem LInv_close {l : Limiter} {acc : List Nat} (h : LInv l acc) : LInv l.close acc :=
  ⟨Inv_close h.inv, h.nodup, h.mem, h.len⟩

/-! ### the system (limiter + parked poll) -/

structure TInv (s : Sys) (acc : List Nat) : Prop where
  notWedged : s.wedged = false
  linv : LInv s.lim acc

/-- `used ≤ limit` -/
def Win (s : Sys) : Prop := s.lim.used ≤ s.lim.limit

theorem poll_same {l l' : Limiter} {max : Nat} {r : PollRes} (hr : l.poll max = (l', r))
    (hn : ∀ ids, r ≠ .ids ids) : l' = l := by
  have := poll_noids (l := l) max (by rw [hr]; exact hn)
  rw [hr] at this; exact this

/-- `cond.Signal()` after a critical section that kept the invariant -/
theorem signal_TInv {s : Sys} {acc : List Nat} (h : TInv s acc) :
    TInv s.signal.1 (acc ++ s.signal.2.ids) ∧ (Win s → Win s.signal.1)
      ∧ s.signal.2 ≠ .wedged ∧ s.signal.2 ≠ .busy := by
  cases hp : s.pending with
  | none =>
    simp only [Sys.signal, hp, Out.ids, List.append_nil]
    exact ⟨h, id, by simp, by simp⟩
  | some max =>
    cases hr : s.lim.poll max with
    | mk l' r =>
      have hns := (Inv_poll h.linv.inv max).2
      rw [hr] at hns
      cases r with
      | spin => exact absurd rfl hns
      | blocked =>
        simp only [Sys.signal, hp, hr, Out.ids, List.append_nil]
        exact ⟨h, id, by simp, by simp⟩
      | closed =>
        have : l' = s.lim := poll_same hr (by intro ids; simp)
        subst this
        simp only [Sys.signal, hp, hr, Out.ids, List.append_nil]
        exact ⟨⟨h.notWedged, h.linv⟩, id, by simp, by simp⟩
      | ids ids =>
        obtain ⟨hl, hu, hlim, hle⟩ := LInv_poll h.linv hr
        simp only [Sys.signal, hp, hr, Out.ids]
        exact ⟨⟨h.notWedged, hl⟩, by intro _; unfold Win; simp only; omega, by simp, by simp⟩

theorem track_of_ne {acc : List Nat} {op : Op} {o : Out} (h1 : o ≠ .wedged) (h2 : o ≠ .busy) :
    track acc op o =
      (match op with
        | .release id => removeAll acc [id]
        | .batchRelease ids => removeAll acc ids
        | .mark ids => acc ++ ids
        | .markSignal ids => acc ++ ids
        | _ => acc) ++ o.ids := by
  cases o <;> simp_all [track]

theorem step_TInv (fits : Bool) {s : Sys} {acc : List Nat} (h : TInv s acc) (hw : fits = true → Win s)
    (op : Op) (hok : OpOK fits s op) :
    TInv (s.step op).1 (track acc op (s.step op).2) ∧ (fits = true → Win (s.step op).1) := by
  have hnw := h.notWedged
  cases op with
  | poll max =>
    cases hp : s.pending with
    | some m =>
      simp only [Sys.step, hnw, hp, Option.isSome_some, if_true, Bool.false_eq_true, if_false, track]
      exact ⟨h, hw⟩
    | none =>
      cases hr : s.lim.poll max with
      | mk l' r =>
        have hns := (Inv_poll h.linv.inv max).2
        rw [hr] at hns
        cases r with
        | spin => exact absurd rfl hns
        | blocked =>
          have : l' = s.lim := poll_same hr (by intro ids; simp)
          subst this
          simp only [Sys.step, hnw, hp, hr, Option.isSome_none, Bool.false_eq_true, if_false, track, Out.ids,
            List.append_nil]
          exact ⟨⟨rfl, h.linv⟩, hw⟩
        | closed =>
          have : l' = s.lim := poll_same hr (by intro ids; simp)
          subst this
          simp only [Sys.step, hnw, hp, hr, Option.isSome_none, Bool.false_eq_true, if_false, track, Out.ids,
            List.append_nil]
          exact ⟨⟨rfl, h.linv⟩, hw⟩
        | ids ids =>
          obtain ⟨hl, hu, hlim, hle⟩ := LInv_poll h.linv hr
          simp only [Sys.step, hnw, hp, hr, Option.isSome_none, Bool.false_eq_true, if_false, track, Out.ids]
          exact ⟨⟨rfl, hl⟩, by intro _; unfold Win; simp only; omega⟩
  | release id =>
    have h1 : TInv { s with lim := s.lim.releaseLocked id } (removeAll acc [id]) :=
      ⟨hnw, LInv_release h.linv id⟩
    have hw1 : fits = true → Win { s with lim := s.lim.releaseLocked id } := by
      intro hf
      have := (Inv_releaseLocked h.linv.inv id).2
      have hl := releaseLocked_limit s.lim id
      have := hw hf
      unfold Win at *; simp only; omega
    obtain ⟨r1, r2, r3, r4⟩ := signal_TInv h1
    simp only [Sys.step]
    rw [if_neg (by rw [hnw]; exact Bool.false_ne_true), track_of_ne r3 r4]
    exact ⟨r1, fun hf => r2 (hw1 hf)⟩
  | batchRelease ids =>
    have h1 : TInv { s with lim := s.lim.batchRelease ids } (removeAll acc ids) :=
      ⟨hnw, LInv_batchRelease ids h.linv⟩
    have hw1 : fits = true → Win { s with lim := s.lim.batchRelease ids } := by
      intro hf
      have := (Inv_batchRelease ids h.linv.inv).2
      have := hw hf
      unfold Win at *; simp only; omega
    obtain ⟨r1, r2, r3, r4⟩ := signal_TInv h1
    simp only [Sys.step]
    rw [if_neg (by rw [hnw]; exact Bool.false_ne_true), track_of_ne r3 r4]
    exact ⟨r1, fun hf => r2 (hw1 hf)⟩
  | mark ids =>
    obtain ⟨hmk, hfit⟩ := hok
    obtain ⟨hl, hu, hlim⟩ := LInv_markAll h.linv hmk
    simp only [Sys.step, hnw, Bool.false_eq_true, if_false, track, Out.ids, List.append_nil]
    refine ⟨⟨rfl, hl⟩, ?_⟩
    intro hf
    have := hfit hf
    unfold Win MarkFits at *; simp only; omega
  | markSignal ids =>
    obtain ⟨hmk, hfit⟩ := hok
    obtain ⟨hl, hu, hlim⟩ := LInv_markAll h.linv hmk
    have h1 : TInv { s with lim := s.lim.markAll ids } (acc ++ ids) := ⟨hnw, hl⟩
    have hw1 : fits = true → Win { s with lim := s.lim.markAll ids } := by
      intro hf
      have := hfit hf
      unfold Win MarkFits at *; simp only; omega
    obtain ⟨r1, r2, r3, r4⟩ := signal_TInv h1
    simp only [Sys.step]
    rw [if_neg (by rw [hnw]; exact Bool.false_ne_true), track_of_ne r3 r4]
    exact ⟨r1, fun hf => r2 (hw1 hf)⟩
  | close =>
    have h1 : TInv { s with lim := s.lim.close } acc := ⟨hnw, LInv_close h.linv⟩
    have hw1 : fits = true → Win { s with lim := s.lim.close } := hw
    obtain ⟨r1, r2, r3, r4⟩ := signal_TInv h1
    simp only [Sys.step]
    rw [if_neg (by rw [hnw]; exact Bool.false_ne_true), track_of_ne r3 r4]
    exact ⟨r1, fun hf => r2 (hw1 hf)⟩

/-- the whole history -/
theorem run_TInv (fits : Bool) : ∀ (ops : List Op) {s : Sys} {acc : List Nat}, TInv s acc → (fits = true → Win s) →
    Contract fits s ops →
    TInv (run s ops).1 (trackAll acc ops (run s ops).2) ∧ (fits = true → Win (run s ops).1)
  | [], _, _, h, hw, _ => ⟨h, hw⟩
  | op :: ops, s, acc, h, hw, hc => by
    obtain ⟨hok, hc'⟩ := hc
    obtain ⟨h1, hw1⟩ := step_TInv fits h hw op hok
    have := run_TInv fits ops h1 hw1 hc'
    simpa [run, trackAll] using this

theorem TInv_new (limit : Nat) : TInv (Sys.new limit) [] := ⟨rfl, LInv_new limit⟩

theorem Win_new (limit : Nat) : Win (Sys.new limit) := by simp [Win, Sys.new, new]

/-! ### `Struct` along arbitrary histories (no contract) -/

theorem Struct_poll {l : Limiter} (hs : Struct l) (max : Nat) : Struct (l.poll max).1 := by
  cases hr : l.poll max with
  | mk l' r =>
    cases r with
    | ids ids => exact (poll_spec hs max l' ids hr).2.2.2.1
    | blocked => rw [poll_same hr (by intro ids; simp)]; exact hs
    | closed => rw [poll_same hr (by intro ids; simp)]; exact hs
    | spin => rw [poll_same hr (by intro ids; simp)]; exact hs

theorem Struct_signal {s : Sys} (hs : Struct s.lim) : Struct s.signal.1.lim := by
  cases hp : s.pending with
  | none => simp only [Sys.signal, hp]; exact hs
  | some max =>
    have := Struct_poll hs max
    cases hr : s.lim.poll max with
    | mk l' r =>
      rw [hr] at this
      cases r <;> simp only [Sys.signal, hp, hr] <;> first | exact hs | exact this

theorem Struct_step {s : Sys} (hs : Struct s.lim) (op : Op) : Struct (s.step op).1.lim := by
  cases hwd : s.wedged with
  | true => simp only [Sys.step, hwd, if_true]; exact hs
  | false =>
    cases op with
    | poll max =>
      cases hp : s.pending with
      | some m => simp only [Sys.step, hwd, hp, Option.isSome_some, if_true, Bool.false_eq_true, if_false]; exact hs
      | none =>
        have := Struct_poll hs max
        cases hr : s.lim.poll max with
        | mk l' r =>
          rw [hr] at this
          cases r <;>
            simp only [Sys.step, hwd, hp, hr, Option.isSome_none, Bool.false_eq_true, if_false] <;> exact this
    | release id =>
      simp only [Sys.step, hwd, Bool.false_eq_true, if_false]
      exact Struct_signal (s := { s with lim := s.lim.releaseLocked id, wedged := false }) (Struct_releaseLocked hs id)
    | batchRelease ids =>
      simp only [Sys.step, hwd, Bool.false_eq_true, if_false]
      exact Struct_signal (s := { s with lim := s.lim.batchRelease ids, wedged := false }) (Struct_batchRelease ids hs)
    | mark ids =>
      simp only [Sys.step, hwd, Bool.false_eq_true, if_false]
      exact Struct_markAll ids hs
    | markSignal ids =>
      simp only [Sys.step, hwd, Bool.false_eq_true, if_false]
      exact Struct_signal (s := { s with lim := s.lim.markAll ids, wedged := false }) (Struct_markAll ids hs)
    | close =>
      simp only [Sys.step, hwd, Bool.false_eq_true, if_false]
      exact Struct_signal (s := { s with lim := s.lim.close, wedged := false })
        ⟨hs.wf, hs.size, hs.fmin, hs.fmax, hs.lim, hs.usedlt⟩

theorem Struct_run : ∀ (ops : List Op) {s : Sys}, Struct s.lim → Struct (run s ops).1.lim
  | [], _, hs => hs
  | op :: ops, s, hs => by
    have := Struct_run ops (Struct_step hs op)
    simpa [run] using this

/-! ### `limit` along arbitrary histories -/

theorem signal_limit (s : Sys) : s.signal.1.lim.limit = s.lim.limit := by
  cases hp : s.pending with
  | none => simp only [Sys.signal, hp]
  | some max =>
    have := poll_limit s.lim max
    cases hr : s.lim.poll max with
    | mk l' r =>
      rw [hr] at this
      cases r <;> simp only [Sys.signal, hp, hr] <;> first | rfl | exact this

theorem step_limit (s : Sys) (op : Op) : (s.step op).1.lim.limit = s.lim.limit := by
  cases hwd : s.wedged with
  | true => simp only [Sys.step, hwd, if_true]
  | false =>
    cases op with
    | poll max =>
      cases hp : s.pending with
      | some m => simp only [Sys.step, hwd, hp, Option.isSome_some, if_true, Bool.false_eq_true, if_false]
      | none =>
        have := poll_limit s.lim max
        cases hr : s.lim.poll max with
        | mk l' r =>
          rw [hr] at this
          cases r <;>
            simp only [Sys.step, hwd, hp, hr, Option.isSome_none, Bool.false_eq_true, if_false] <;> exact this
    | release id =>
      simp only [Sys.step, hwd, Bool.false_eq_true, if_false]
      rw [signal_limit]; exact releaseLocked_limit _ _
    | batchRelease ids =>
      simp only [Sys.step, hwd, Bool.false_eq_true, if_false]
      rw [signal_limit]; exact batchRelease_limit _ _
    | mark ids =>
      simp only [Sys.step, hwd, Bool.false_eq_true, if_false]
      exact markAll_limit _ _
    | markSignal ids =>
      simp only [Sys.step, hwd, Bool.false_eq_true, if_false]
      rw [signal_limit]; exact markAll_limit _ _
    | close =>
      simp only [Sys.step, hwd, Bool.false_eq_true, if_false]
      rw [signal_limit]; rfl

theorem run_limit : ∀ (ops : List Op) (s : Sys), (run s ops).1.lim.limit = s.lim.limit
  | [], _ => rfl
  | op :: ops, s => by
    simp only [run]; rw [run_limit ops, step_limit]

/-! ### no output of a contract-respecting history reports `spin` / `wedged` -/

theorem step_no_spin (fits : Bool) {s : Sys} {acc : List Nat} (h : TInv s acc) (op : Op) (hok : OpOK fits s op) :
    (s.step op).2 ≠ .wedged ∧ (s.step op).2 ≠ .polled .spin ∧ (s.step op).2 ≠ .done (some .spin) := by
  have hnw := h.notWedged
  have hsig : ∀ {t : Sys} {a : List Nat}, TInv t a →
      t.signal.2 ≠ .wedged ∧ t.signal.2 ≠ .polled .spin ∧ t.signal.2 ≠ .done (some .spin) := by
    intro t a ht
    cases hp : t.pending with
    | none => simp [Sys.signal, hp]
    | some max =>
      have hns := (Inv_poll ht.linv.inv max).2
      cases hr : t.lim.poll max with
      | mk l' r =>
        rw [hr] at hns
        cases r <;> simp_all [Sys.signal]
  cases op with
  | poll max =>
    cases hp : s.pending with
    | some m => simp [Sys.step, hnw, hp]
    | none =>
      have hns := (Inv_poll h.linv.inv max).2
      cases hr : s.lim.poll max with
      | mk l' r =>
        rw [hr] at hns
        cases r <;> simp_all [Sys.step]
  | release id =>
    simp only [Sys.step]; rw [if_neg (by rw [hnw]; exact Bool.false_ne_true)]
    exact hsig (t := { s with lim := s.lim.releaseLocked id }) ⟨hnw, LInv_release h.linv id⟩
  | batchRelease ids =>
    simp only [Sys.step]; rw [if_neg (by rw [hnw]; exact Bool.false_ne_true)]
    exact hsig (t := { s with lim := s.lim.batchRelease ids }) ⟨hnw, LInv_batchRelease ids h.linv⟩
  | mark ids => simp [Sys.step, hnw]
  | markSignal ids =>
    simp only [Sys.step]; rw [if_neg (by rw [hnw]; exact Bool.false_ne_true)]
    exact hsig (t := { s with lim := s.lim.markAll ids }) ⟨hnw, (LInv_markAll h.linv hok.1).1⟩
  | close =>
    simp only [Sys.step]; rw [if_neg (by rw [hnw]; exact Bool.false_ne_true)]
    exact hsig (t := { s with lim := s.lim.close }) ⟨hnw, LInv_close h.linv⟩

theorem run_no_spin (fits : Bool) : ∀ (ops : List Op) {s : Sys} {acc : List Nat}, TInv s acc → Contract fits s ops →
    ∀ o ∈ (run s ops).2, o ≠ .wedged ∧ o ≠ .polled .spin ∧ o ≠ .done (some .spin)
  | [], _, _, _, _ => by intro o ho; simp [run] at ho
  | op :: ops, s, acc, h, hc => by
    obtain ⟨hok, hc'⟩ := hc
    have h1 := (step_TInv false h (by intro e; cases e) op (by
      cases op <;> first | trivial | exact ⟨hok.1, by intro e; cases e⟩)).1
    intro o ho
    simp only [run, List.mem_cons] at ho
    rcases ho with rfl | ho
    · exact step_no_spin fits h op hok
    · exact run_no_spin fits ops h1 hc' o ho

/-! ### release / reuse, stated for an arbitrary state satisfying the invariant -/

theorem release_spec {l : Limiter} {acc : List Nat} (h : LInv l acc) (id : Nat) :
    (l.marked id = true →
        (l.releaseLocked id).marked id = false ∧ (l.releaseLocked id).used + 1 = l.used
        ∧ ∀ j, j ≠ id → (l.releaseLocked id).marked j = l.marked j)
    ∧ (l.marked id = false → l.releaseLocked id = l) := by
  refine ⟨?_, releaseLocked_unmarked⟩
  intro hm
  obtain ⟨hu, hmk, _⟩ := releaseLocked_marked h.inv.st hm
  refine ⟨by rw [hmk]; simp, ?_, by intro j hj; rw [hmk]; simp [hj]⟩
  have hin : id ∈ acc := (h.mem id).mpr hm
  have hpos : 1 ≤ l.used := by
    have hlen := h.len
    cases acc with
    | nil => cases hin
    | cons a t => simp at hlen; omega
  have := h.inv.st.usedlt
  rw [hu]; omega

theorem poll_first_spec {l : Limiter} {max : Nat} {l' : Limiter} {id : Nat} {rest : List Nat}
    (h : l.poll max = (l', .ids (id :: rest))) :
    ∃ k, k < 65536 ∧ advN k l.freePid = id ∧ l.marked id = false
      ∧ ∀ j, j < k → l.marked (advN j l.freePid) = true := by
  obtain ⟨k, hk, hx, hfree, hall⟩ := search_first _ _ _ _ (poll_head h)
  refine ⟨k, hk, hx, ?_, ?_⟩
  · have := get_le_one l.lockedPid id
    simp only [Limiter.marked]
    cases hg : l.lockedPid.get id with
    | zero => rfl
    | succ n => simp; omega
  · intro j hj
    simp [Limiter.marked, hall j hj]

theorem poll_cursor_spec {l : Limiter} (hi : Inv l) (id max : Nat) :
    l.marked id = false → l.freePid = id → l.used < l.limit → l.exit = false → 1 ≤ max →
    ∃ l' rest, l.poll max = (l', .ids (id :: rest)) := by
  intro hm hf hu he hmax
  have hns := (Inv_poll hi max).2
  have hget : ¬ l.lockedPid.get id = 1 := by intro e; simp [Limiter.marked, e] at hm
  have hnb : ¬ (l.used ≥ l.limit ∧ l.exit = false) := by omega
  have hne : ¬ (l.exit = true) := by rw [he]; exact Bool.false_ne_true
  cases hr : l.poll max with
  | mk l' r =>
    rw [hr] at hns
    have hr' := hr
    rw [poll_unfold, if_neg hnb, if_neg hne] at hr
    cases r with
    | spin => exact absurd rfl hns
    | blocked => split at hr <;> cases hr
    | closed => split at hr <;> cases hr
    | ids ids =>
      cases ids with
      | nil =>
        obtain ⟨_, _, hlen, _⟩ := poll_spec hi.st max l' [] hr'
        simp only [List.length_nil] at hlen
        split at hlen <;> omega
      | cons a rest =>
        have hh := poll_head hr'
        rw [hf] at hh
        have : search l.lockedPid searchFuel id = some id := by
          unfold searchFuel search; simp [hget]
        rw [this] at hh
        cases hh
        exact ⟨l', rest, rfl⟩

end GmqttVerif.Limiter
