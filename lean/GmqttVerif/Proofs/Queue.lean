import GmqttVerif.Model.Queue
/-
  Vocabulary and helper lemmas for C10 (session queue). Core Lean only.
-/
namespace GmqttVerif.Queue

/-! ### vocabulary used by the property statements -/

/-- what callers of the queue guarantee -/
def WFOp : Op → Prop
  | .add _ e => e.pub = true ∧ e.id = 0
  | .read _ pids => ∀ p ∈ pids, p ≠ 0
  | _ => True

instance : DecidablePred WFOp := fun op => by
  cases op <;> simp only [WFOp] <;> infer_instance

def tags (l : List Elem) : List Nat := l.map (·.tag)

def Ev.droppedElem : Ev → Option Elem
  | .dropped e _ => some e
  | _ => none

/-- elements reported through `NotifyDropped` -/
def Out.dropped (o : Out) : List Elem := o.evs.filterMap Ev.droppedElem

/-- elements that left by completion: QoS 0 handed out by `Read`, or acknowledged by `Remove` -/
def Out.finished (o : Out) : List Elem :=
  (if o.replay then [] else o.returned.filter (fun e => e.qos == 0)) ++ o.acked

def addedTags : List Op → List Nat
  | [] => []
  | .add _ e :: ops => e.tag :: addedTags ops
  | _ :: ops => addedTags ops

def ledger (outs : List Out) : List Nat :=
  outs.flatMap (fun o => tags o.dropped ++ tags o.finished ++ tags o.cleared)

/-- tags returned by `Read` (not replays), in order -/
def handedOut (outs : List Out) : List Nat :=
  outs.flatMap (fun o => if o.replay then [] else tags o.returned)

/-- queued, not yet handed out -/
def unread (q : Q) : List Nat := tags (q.rest.filter isQueued)

def key (e : Elem) : Nat × Nat × Bool := (e.tag, e.id, e.pub)

/-- a sequence of `ReadInflight(now, maxSize)` calls; returns the concatenated results -/
def runReplay (q : Q) : List (Nat × Nat) → Q × List Elem
  | [] => (q, [])
  | (now, n) :: cs =>
    let (q', out) := q.readInflight now n
    let (q'', outs) := runReplay q' cs
    (q'', out ++ outs)

def evDeltas : List Ev → Int × Int
  | [] => (0, 0)
  | .queued d :: evs => let r := evDeltas evs; (r.1 + d, r.2)
  | .inflight d :: evs => let r := evDeltas evs; (r.1, r.2 + d)
  | _ :: evs => evDeltas evs

def countersFrom (acc : Int × Int) : List Op → List Out → Int × Int
  | op :: ops, o :: outs =>
    let acc' := match op with
      | .init true _ => (0, 0)
      | _ => (acc.1 + (evDeltas o.evs).1, acc.2 + (evDeltas o.evs).2)
    countersFrom acc' ops outs
  | _, _ => acc

/-- running sums of the queue / in-flight deltas, reset by a clean `Init` -/
def counters (ops : List Op) (outs : List Out) : Int × Int := countersFrom (0, 0) ops outs

/-! ### basic facts about `extractFirst` / `replaceFirst` -/

theorem extractFirst_eq (p : Elem → Bool) (l : List Elem) :
    extractFirst p l = (l.find? p).map (fun v => (v, l.eraseP p)) := by
  induction l with
  | nil => rfl
  | cons e es ih =>
    simp only [extractFirst, List.find?_cons, List.eraseP_cons]
    cases h : p e
    · simp only [ih]
      cases List.find? p es <;> simp
    · simp

theorem extractFirst_some {p : Elem → Bool} {l l' : List Elem} {v : Elem}
    (h : extractFirst p l = some (v, l')) :
    p v = true ∧ List.Perm (v :: l') l ∧ l'.Sublist l := by
  induction l generalizing l' with
  | nil => simp [extractFirst] at h
  | cons e es ih =>
    simp only [extractFirst] at h
    split at h
    · next hp =>
      simp only [Option.some.injEq, Prod.mk.injEq] at h
      obtain ⟨rfl, rfl⟩ := h
      exact ⟨hp, .refl _, List.sublist_cons_self _ _⟩
    · split at h
      · next w es' heq =>
        simp only [Option.some.injEq, Prod.mk.injEq] at h
        obtain ⟨rfl, rfl⟩ := h
        obtain ⟨h1, h2, h3⟩ := ih heq
        exact ⟨h1, (List.Perm.swap _ _ _).trans (h2.cons e), h3.cons_cons e⟩
      · simp at h

theorem extractFirst_mem {p : Elem → Bool} {l l' : List Elem} {v : Elem}
    (h : extractFirst p l = some (v, l')) : v ∈ l :=
  (extractFirst_some h).2.1.subset (List.mem_cons_self)

theorem extractFirst_length {p : Elem → Bool} {l l' : List Elem} {v : Elem}
    (h : extractFirst p l = some (v, l')) : l.length = l'.length + 1 := by
  have := (extractFirst_some h).2.1.length_eq
  simpa using this.symm

/-! ### 7. drop ladder -/

theorem chooseVictim_spec (q : Q) (now : Nat) (e : Elem) :
    chooseVictim q now e =
      match q.done.find? (expired now) with
      | some v => .inflight v (q.done.eraseP (expired now))
      | none =>
        match q.rest.find? (fun x => isQueued x && expired now x) with
        | some v => .queued v .expired (q.rest.eraseP (fun x => isQueued x && expired now x))
        | none =>
          match q.rest.find? (fun x => isQueued x && x.qos == 0) with
          | some v => .queued v .full (q.rest.eraseP (fun x => isQueued x && x.qos == 0))
          | none =>
            if e.qos == 0 then .newcomer
            else match q.rest.find? isQueued with
              | some v => .queued v .full (q.rest.eraseP isQueued)
              | none => .newcomer := by
  unfold chooseVictim
  simp only [extractFirst_eq]
  cases h1 : q.done.find? (expired now) with
  | some v => simp
  | none =>
    simp only [Option.map_none]
    by_cases hd : (q.drained && q.rest.isEmpty) = true
    · simp only [hd, if_true]
      simp only [Bool.and_eq_true, List.isEmpty_iff] at hd
      simp [hd.2]
    · simp only [hd]
      cases h2 : q.rest.find? (fun x => isQueued x && expired now x) with
      | some v => simp
      | none =>
        cases h3 : q.rest.find? (fun x => isQueued x && x.qos == 0) with
        | some v => simp
        | none =>
          cases h4 : q.rest.find? isQueued <;> simp

theorem add_of_not_full (q : Q) (now : Nat) (e : Elem) (h : q.items.length < q.max) :
    q.add now e = ({ q with rest := q.rest ++ [e] }, [.queued 1]) := by
  unfold Q.add
  rw [if_neg (by omega)]

/-! ### case analysis of one step -/

theorem chooseVictim_cases (q : Q) (now : Nat) (e : Elem) :
    (∃ v done', extractFirst (expired now) q.done = some (v, done') ∧
      chooseVictim q now e = .inflight v done') ∨
    (∃ v r rest' p, extractFirst p q.rest = some (v, rest') ∧ (∀ x, p x = true → isQueued x = true) ∧
      chooseVictim q now e = .queued v r rest') ∨
    chooseVictim q now e = .newcomer := by
  unfold chooseVictim
  rcases h1 : extractFirst (expired now) q.done with _ | ⟨v, d⟩
  · simp only
    split
    · exact .inr (.inr rfl)
    · rcases h2 : extractFirst (fun x => isQueued x && expired now x) q.rest with _ | ⟨v, d⟩
      · simp only
        rcases h3 : extractFirst (fun x => isQueued x && x.qos == 0) q.rest with _ | ⟨v, d⟩
        · simp only
          split
          · exact .inr (.inr rfl)
          · rcases h4 : extractFirst isQueued q.rest with _ | ⟨v, d⟩
            · exact .inr (.inr rfl)
            · exact .inr (.inl ⟨v, _, d, _, h4, fun _ h => h, rfl⟩)
        · exact .inr (.inl ⟨v, _, d, _, h3, by intro x hx; simp at hx; exact hx.1, rfl⟩)
      · exact .inr (.inl ⟨v, _, d, _, h2, by intro x hx; simp at hx; exact hx.1, rfl⟩)
  · exact .inl ⟨v, d, rfl, rfl⟩

theorem add_elim {P : Q × Out → Prop} (q : Q) (now : Nat) (e : Elem)
    (h1 : q.items.length < q.max →
      P ({ q with rest := q.rest ++ [e] }, { evs := [.queued 1] }))
    (h2 : ∀ v done', q.max ≤ q.items.length → extractFirst (expired now) q.done = some (v, done') →
      P ({ q with done := done', rest := q.rest ++ [e] },
         { evs := [.inflight (-1), .dropped v .expiredInflight] }))
    (h3 : ∀ v r rest' p, q.max ≤ q.items.length → extractFirst p q.rest = some (v, rest') →
      (∀ x, p x = true → isQueued x = true) →
      P ({ q with rest := rest' ++ [e] }, { evs := [.dropped v r] }))
    (h4 : q.max ≤ q.items.length → P (q, { evs := [.dropped e .full] })) :
    P (step q (.add now e)) := by
  simp only [step, Q.add]
  by_cases hfull : q.items.length ≥ q.max
  · simp only [hfull, if_true]
    rcases chooseVictim_cases q now e with ⟨v, d, hx, hc⟩ | ⟨v, r, rest', p, hx, hp, hc⟩ | hc
    · simp only [hc]; exact h2 v d hfull hx
    · simp only [hc]; exact h3 v r rest' p hfull hx hp
    · simp only [hc]; exact h4 hfull
  · simp only [hfull, if_false]
    exact h1 (by omega)

theorem read_cases (q : Q) (now : Nat) (pids : List Nat) :
    q.read now pids = (q, .panic) ∨ q.read now pids = (q, .blocked) ∨ q.read now pids = (q, .closed) ∨
    (q.drained = true ∧ q.closed = false ∧
      q.read now pids =
        ({ q with done := q.done ++ (readLoop now q.ie q.limit (min pids.length q.items.length) q.rest pids).kept,
                  rest := (readLoop now q.ie q.limit (min pids.length q.items.length) q.rest pids).rest },
         .ok (readLoop now q.ie q.limit (min pids.length q.items.length) q.rest pids).out
           ((readLoop now q.ie q.limit (min pids.length q.items.length) q.rest pids).evs ++
             [.queued (readLoop now q.ie q.limit (min pids.length q.items.length) q.rest pids).qd,
              .inflight (readLoop now q.ie q.limit (min pids.length q.items.length) q.rest pids).ind]))) := by
  unfold Q.read
  split
  · exact .inl rfl
  · next hd =>
    split
    · exact .inr (.inl rfl)
    · split
      · exact .inr (.inr (.inl rfl))
      · next hc => exact .inr (.inr (.inr ⟨by simpa using hd, by simpa using hc, rfl⟩))

theorem read_elim {P : Q × Out → Prop} (q : Q) (now : Nat) (pids : List Nat)
    (h1 : ∀ s, P (q, { status := s }))
    (h2 : q.drained = true → q.closed = false →
      P ({ q with done := q.done ++ (readLoop now q.ie q.limit (min pids.length q.items.length) q.rest pids).kept,
                  rest := (readLoop now q.ie q.limit (min pids.length q.items.length) q.rest pids).rest },
         { evs := (readLoop now q.ie q.limit (min pids.length q.items.length) q.rest pids).evs ++
             [.queued (readLoop now q.ie q.limit (min pids.length q.items.length) q.rest pids).qd,
              .inflight (readLoop now q.ie q.limit (min pids.length q.items.length) q.rest pids).ind],
           returned := (readLoop now q.ie q.limit (min pids.length q.items.length) q.rest pids).out })) :
    P (step q (.read now pids)) := by
  simp only [step]
  rcases read_cases q now pids with h | h | h | ⟨hd, hc, h⟩
  · simp only [h]; exact h1 _
  · simp only [h]; exact h1 _
  · simp only [h]; exact h1 _
  · simp only [h]; exact h2 hd hc

theorem readInflight_elim {P : Q × Out → Prop} (q : Q) (now n : Nat)
    (h1 : q.rest = [] → P ({ q with drained := true }, { returned := [], replay := true }))
    (h2 : ∀ out rest' d, inflightLoop now q.ie (min n q.items.length) q.rest = (out, rest', d) →
      P ({ q with done := q.done ++ out, rest := rest', drained := q.drained || d },
         { returned := out, replay := true })) :
    P (step q (.readInflight now n)) := by
  simp only [step, Q.readInflight]
  by_cases he : (q.items.isEmpty || q.rest.isEmpty) = true
  · simp only [he, if_true]
    apply h1
    simp only [Q.items, Bool.or_eq_true, List.isEmpty_iff, List.append_eq_nil_iff] at he
    rcases he with h | h
    · exact h.2
    · exact h
  · simp only [he]
    exact h2 _ _ _ rfl

theorem remove_elim {P : Q × Out → Prop} (q : Q) (pid : Nat)
    (h1 : ∀ v done', extractFirst (fun x => x.id == pid) q.done = some (v, done') →
      P ({ q with done := done' }, { evs := [.queued (-1), .inflight (-1)], acked := [v] }))
    (h2 : P (q, { evs := [] })) :
    P (step q (.remove pid)) := by
  simp only [step, Q.remove]
  rcases h : extractFirst (fun x => x.id == pid) q.done with _ | ⟨v, d⟩
  · exact h2
  · exact h1 v d h

theorem replace_elim {P : Q × Out → Prop} (q : Q) (e : Elem)
    (h1 : ∀ done', replaceFirst (fun x => x.id == e.id) e q.done = some done' →
      P ({ q with done := done' }, { status := "replaced" }))
    (h2 : ∀ s, P (q, { status := s })) :
    P (step q (.replace e)) := by
  simp only [step, Q.replace]
  rcases h : replaceFirst (fun x => x.id == e.id) e q.done with _ | d
  · exact h2 _
  · exact h1 d h

/-! ### tags / counting -/

def droppedOf (evs : List Ev) : List Elem := evs.filterMap Ev.droppedElem

@[simp] theorem tags_nil : tags [] = [] := rfl
@[simp] theorem tags_cons (e : Elem) (l : List Elem) : tags (e :: l) = e.tag :: tags l := rfl
@[simp] theorem tags_append (l₁ l₂ : List Elem) : tags (l₁ ++ l₂) = tags l₁ ++ tags l₂ := by
  simp [tags]

@[simp] theorem droppedOf_nil : droppedOf [] = [] := rfl
@[simp] theorem droppedOf_dropped (e : Elem) (r : Reason) (evs : List Ev) :
    droppedOf (.dropped e r :: evs) = e :: droppedOf evs := rfl
@[simp] theorem droppedOf_queued (d : Int) (evs : List Ev) :
    droppedOf (.queued d :: evs) = droppedOf evs := rfl
@[simp] theorem droppedOf_inflight (d : Int) (evs : List Ev) :
    droppedOf (.inflight d :: evs) = droppedOf evs := rfl
@[simp] theorem droppedOf_append (l₁ l₂ : List Ev) :
    droppedOf (l₁ ++ l₂) = droppedOf l₁ ++ droppedOf l₂ := by
  simp [droppedOf]

/-! ### facts about `readLoop` -/

theorem readLoop_count (now ie limit n : Nat) (rest : List Elem) (pids : List Nat) (t : Nat) :
    (tags rest).count t =
      (tags (droppedOf (readLoop now ie limit n rest pids).evs)).count t +
      (tags ((readLoop now ie limit n rest pids).out.filter (fun e => e.qos == 0))).count t +
      (tags (readLoop now ie limit n rest pids).kept).count t +
      (tags (readLoop now ie limit n rest pids).rest).count t := by
  fun_induction readLoop now ie limit n rest pids with
  | case1 => simp
  | case2 => simp
  | case3 n v rest pids h r ih => simp [List.count_cons, ih, r]; omega
  | case4 n v rest pids h1 h2 r ih => simp [List.count_cons, ih, r]; omega
  | case5 n v rest pids h1 h2 h3 r ih => simp [List.count_cons, ih, h3, r]; omega
  | case6 => simp
  | case7 n v rest h1 h2 h3 p pids' v' r ih => simp [List.count_cons, ih, h3, v', r]; omega

/-! ### facts about `replaceFirst` and `inflightLoop` -/

theorem replaceFirst_some {p : Elem → Bool} {e : Elem} {l l' : List Elem}
    (h : replaceFirst p e l = some l') :
    ∃ pre x post, l = pre ++ x :: post ∧ l' = pre ++ { e with tag := x.tag } :: post ∧ p x = true := by
  induction l generalizing l' with
  | nil => simp [replaceFirst] at h
  | cons y ys ih =>
    simp only [replaceFirst] at h
    split at h
    · next hp =>
      simp only [Option.some.injEq] at h
      exact ⟨[], y, ys, rfl, h.symm, hp⟩
    · rcases hr : replaceFirst p e ys with _ | ys'
      · simp [hr] at h
      · simp only [hr, Option.some.injEq] at h
        obtain ⟨pre, x, post, h1, h2, h3⟩ := ih hr
        exact ⟨y :: pre, x, post, by simp [h1], by simp [← h, h2], h3⟩

/-- the expiry refresh applied to replayed / handed out in-flight entries -/
def refresh (now ie : Nat) (v : Elem) : Elem :=
  { v with exp := if ie != 0 then some (now + ie) else v.exp }

theorem inflightLoop_spec (now ie n : Nat) (rest : List Elem) :
    ∃ pre, rest = pre ++ (inflightLoop now ie n rest).2.1 ∧
      (inflightLoop now ie n rest).1 = pre.map (refresh now ie) ∧
      (∀ e ∈ pre, e.id ≠ 0) ∧
      ((inflightLoop now ie n rest).2.2 = true →
        ∃ v t, (inflightLoop now ie n rest).2.1 = v :: t ∧ v.id = 0) := by
  fun_induction inflightLoop now ie n rest with
  | case1 rest => exact ⟨[], by simp⟩
  | case2 => exact ⟨[], by simp⟩
  | case3 n v rest hv v' out rest' d heq ih =>
    obtain ⟨pre, h1, h2, h3, h4⟩ := ih
    simp only [heq] at h1 h2 h4
    refine ⟨v :: pre, by simp [← h1], by simp [h2, v', refresh], ?_, h4⟩
    intro e he
    rcases List.mem_cons.1 he with rfl | he
    · simpa using hv
    · exact h3 e he
  | case4 n v rest hv => exact ⟨[], by simp, by simp, by simp, fun _ => ⟨v, rest, rfl, by simpa using hv⟩⟩

@[simp] theorem tags_map_refresh (now ie : Nat) (l : List Elem) :
    tags (l.map (refresh now ie)) = tags l := by
  simp [tags, refresh, Function.comp_def]

/-! ### 2. conservation -/

@[simp] theorem Out.dropped_eq (o : Out) : o.dropped = droppedOf o.evs := rfl

def Out.ledgerTags (o : Out) : List Nat := tags o.dropped ++ tags o.finished ++ tags o.cleared

def addedTag : Op → List Nat
  | .add _ e => [e.tag]
  | _ => []

theorem addedTags_cons (op : Op) (ops : List Op) : addedTags (op :: ops) = addedTag op ++ addedTags ops := by
  cases op <;> rfl

theorem step_count (q : Q) (op : Op) (t : Nat) :
    (tags (step q op).1.items).count t + ((step q op).2.ledgerTags).count t =
      (tags q.items).count t + (addedTag op).count t := by
  cases op with
  | add now e =>
    apply add_elim (P := fun r => (tags r.1.items).count t + (r.2.ledgerTags).count t =
      (tags q.items).count t + (addedTag (.add now e)).count t)
    · intro _
      simp [Q.items, Out.ledgerTags, Out.finished, addedTag, List.count_cons]
      omega
    · intro v done' _ hx
      have := (extractFirst_some hx).2.1.map (·.tag) |>.count_eq t
      simp [List.count_cons] at this
      simp [Q.items, Out.ledgerTags, Out.finished, addedTag, List.count_cons, tags, ← this]
      omega
    · intro v r rest' p _ hx _
      have := (extractFirst_some hx).2.1.map (·.tag) |>.count_eq t
      simp [List.count_cons] at this
      simp [Q.items, Out.ledgerTags, Out.finished, addedTag, List.count_cons, tags, ← this]
      omega
    · intro _
      simp [Q.items, Out.ledgerTags, Out.finished, addedTag, List.count_cons]
  | read now pids =>
    apply read_elim (P := fun r => (tags r.1.items).count t + (r.2.ledgerTags).count t =
      (tags q.items).count t + (addedTag (.read now pids)).count t)
    · intro s
      simp [Out.ledgerTags, Out.finished, addedTag]
    · intro _ _
      have := readLoop_count now q.ie q.limit (min pids.length q.items.length) q.rest pids t
      simp [Q.items, Out.ledgerTags, Out.finished, addedTag, this]
      omega
  | readInflight now n =>
    apply readInflight_elim (P := fun r => (tags r.1.items).count t + (r.2.ledgerTags).count t =
      (tags q.items).count t + (addedTag (.readInflight now n)).count t)
    · intro _
      simp [Q.items, Out.ledgerTags, Out.finished, addedTag]
    · intro out rest' d heq
      obtain ⟨pre, h1, h2, _, _⟩ := inflightLoop_spec now q.ie (min n q.items.length) q.rest
      simp only [heq] at h1 h2
      simp [Q.items, Out.ledgerTags, Out.finished, addedTag, h2]
      rw [h1]
      simp
  | remove pid =>
    apply remove_elim (P := fun r => (tags r.1.items).count t + (r.2.ledgerTags).count t =
      (tags q.items).count t + (addedTag (.remove pid)).count t)
    · intro v done' hx
      have := (extractFirst_some hx).2.1.map (·.tag) |>.count_eq t
      simp [List.count_cons] at this
      simp [Q.items, Out.ledgerTags, Out.finished, addedTag, List.count_cons, tags, ← this]
      omega
    · simp [Out.ledgerTags, Out.finished, addedTag]
  | replace e =>
    apply replace_elim (P := fun r => (tags r.1.items).count t + (r.2.ledgerTags).count t =
      (tags q.items).count t + (addedTag (.replace e)).count t)
    · intro done' hx
      obtain ⟨pre, x, post, h1, h2, _⟩ := replaceFirst_some hx
      simp [Q.items, Out.ledgerTags, Out.finished, addedTag, h1, h2]
    · intro s
      simp [Out.ledgerTags, Out.finished, addedTag]
  | init clean limit =>
    cases clean <;> simp [step, Q.init, Q.items, Out.ledgerTags, Out.finished, addedTag]
  | close =>
    simp [step, Q.close, Q.items, Out.ledgerTags, Out.finished, addedTag]

theorem ledger_cons (o : Out) (os : List Out) : ledger (o :: os) = o.ledgerTags ++ ledger os := by
  simp [ledger, Out.ledgerTags]

theorem run_cons (q : Q) (op : Op) (ops : List Op) :
    run q (op :: ops) = ((run (step q op).1 ops).1, (step q op).2 :: (run (step q op).1 ops).2) := rfl

theorem run_count (q : Q) (ops : List Op) (t : Nat) :
    (tags (run q ops).1.items).count t + (ledger (run q ops).2).count t =
      (tags q.items).count t + (addedTags ops).count t := by
  induction ops generalizing q with
  | nil => simp [run, ledger, addedTags]
  | cons op ops ih =>
    rw [run_cons, ledger_cons, addedTags_cons]
    have h1 := ih (step q op).1
    have h2 := step_count q op t
    simp only [List.count_append] at *
    omega

theorem run_conservation (q : Q) (ops : List Op) :
    List.Perm (tags (run q ops).1.items ++ ledger (run q ops).2) (tags q.items ++ addedTags ops) := by
  rw [List.perm_iff_count]
  intro t
  simpa [List.count_append] using run_count q ops t

theorem run_exactly_one (max ie : Nat) (ops : List Op) (hnd : (addedTags ops).Nodup) (t : Nat)
    (ht : t ∈ addedTags ops) :
    (tags (run (new max ie) ops).1.items ++ ledger (run (new max ie) ops).2).count t = 1 := by
  rw [(run_conservation (new max ie) ops).count_eq t]
  simp [new, Q.items, hnd.count, ht]

/-! ### 1. length bound -/

theorem readLoop_len (now ie limit n : Nat) (rest : List Elem) (pids : List Nat) :
    (readLoop now ie limit n rest pids).kept.length + (readLoop now ie limit n rest pids).rest.length
        ≤ rest.length ∧
    (readLoop now ie limit n rest pids).qd =
      ((readLoop now ie limit n rest pids).kept.length + (readLoop now ie limit n rest pids).rest.length : Int)
        - rest.length ∧
    (readLoop now ie limit n rest pids).ind = (readLoop now ie limit n rest pids).kept.length := by
  fun_induction readLoop now ie limit n rest pids with
  | case1 => simp
  | case2 => simp
  | case3 n v rest pids h r ih => simp [r] at *; omega
  | case4 n v rest pids h1 h2 r ih => simp [r] at *; omega
  | case5 n v rest pids h1 h2 h3 r ih => simp [r] at *; omega
  | case6 => simp
  | case7 n v rest h1 h2 h3 p pids' v' r ih => simp [r] at *; omega

theorem step_max (q : Q) (op : Op) : (step q op).1.max = q.max := by
  cases op with
  | add now e => apply add_elim (P := fun r => r.1.max = q.max) <;> intros <;> rfl
  | read now pids => apply read_elim (P := fun r => r.1.max = q.max) <;> intros <;> rfl
  | readInflight now n => apply readInflight_elim (P := fun r => r.1.max = q.max) <;> intros <;> rfl
  | remove pid => apply remove_elim (P := fun r => r.1.max = q.max) <;> intros <;> rfl
  | replace e => apply replace_elim (P := fun r => r.1.max = q.max) <;> intros <;> rfl
  | init clean limit => rfl
  | close => rfl

theorem step_len (q : Q) (op : Op) (h : q.items.length ≤ q.max) :
    (step q op).1.items.length ≤ q.max := by
  cases op with
  | add now e =>
    apply add_elim (P := fun r => r.1.items.length ≤ q.max)
    · intro h1; simp [Q.items] at *; omega
    · intro v done' _ hx
      have := extractFirst_length hx
      simp [Q.items] at *; omega
    · intro v r rest' p _ hx _
      have := extractFirst_length hx
      simp [Q.items] at *; omega
    · intro _; exact h
  | read now pids =>
    apply read_elim (P := fun r => r.1.items.length ≤ q.max)
    · intro _; exact h
    · intro _ _
      have := (readLoop_len now q.ie q.limit (min pids.length q.items.length) q.rest pids).1
      simp [Q.items] at *; omega
  | readInflight now n =>
    apply readInflight_elim (P := fun r => r.1.items.length ≤ q.max)
    · intro _; exact h
    · intro out rest' d heq
      obtain ⟨pre, h1, h2, _, _⟩ := inflightLoop_spec now q.ie (min n q.items.length) q.rest
      simp only [heq] at h1 h2
      have h3 := congrArg List.length h1
      simp [Q.items, h2] at *; omega
  | remove pid =>
    apply remove_elim (P := fun r => r.1.items.length ≤ q.max)
    · intro v done' hx
      have := extractFirst_length hx
      simp [Q.items] at *; omega
    · exact h
  | replace e =>
    apply replace_elim (P := fun r => r.1.items.length ≤ q.max)
    · intro done' hx
      obtain ⟨pre, x, post, h1, h2, _⟩ := replaceFirst_some hx
      simp [Q.items, h1, h2] at *; omega
    · intro _; exact h
  | init clean limit =>
    cases clean <;> simp [step, Q.init, Q.items] at * <;> omega
  | close => exact h

theorem run_len_le_max (q : Q) (ops : List Op) (h : q.items.length ≤ q.max) (hmax : 0 < q.max) :
    (run q ops).1.items.length ≤ q.max := by
  induction ops generalizing q with
  | nil => exact h
  | cons op ops ih =>
    rw [run_cons]
    have := ih (step q op).1 (by rw [step_max]; exact step_len q op h) (by rw [step_max]; exact hmax)
    rw [step_max] at this
    exact this

/-! ### the reachable-state invariant -/

theorem isQueued_iff (e : Elem) : isQueued e = true ↔ e.pub = true ∧ e.id = 0 := by
  simp [isQueued]

/-- entries carrying a packet id come first; everything after the first entry without id is a queued PUBLISH -/
def Shape (l : List Elem) : Prop :=
  (∀ x ∈ l, x.id = 0 → x.pub = true) ∧ l.Pairwise (fun x y => x.id = 0 → y.id = 0)

def Inv (q : Q) : Prop :=
  (∀ e ∈ q.done, e.id ≠ 0) ∧ Shape q.rest ∧ (q.drained = true → ∀ e ∈ q.rest, isQueued e = true)

theorem Shape.sublist {l l' : List Elem} (hs : l'.Sublist l) (h : Shape l) : Shape l' :=
  ⟨fun x hx => h.1 x (hs.subset hx), h.2.sublist hs⟩

theorem Shape.of_queued {l : List Elem} (h : ∀ e ∈ l, isQueued e = true) : Shape l :=
  ⟨fun x hx _ => ((isQueued_iff x).1 (h x hx)).1,
   List.pairwise_of_forall_mem_list (fun _ _ b hb _ => ((isQueued_iff b).1 (h b hb)).2)⟩

theorem Shape.snoc {l : List Elem} {e : Elem} (h : Shape l) (he : isQueued e = true) : Shape (l ++ [e]) := by
  have he' := (isQueued_iff e).1 he
  refine ⟨?_, ?_⟩
  · intro x hx h0
    rcases List.mem_append.1 hx with hx | hx
    · exact h.1 x hx h0
    · simp at hx; subst hx; exact he'.1
  · rw [List.pairwise_append]
    refine ⟨h.2, by simp, ?_⟩
    intro a _ b hb _
    simp at hb; subst hb; exact he'.2

theorem Shape.prepend {d l : List Elem} (hd : ∀ e ∈ d, e.id ≠ 0) (h : Shape l) : Shape (d ++ l) := by
  refine ⟨?_, ?_⟩
  · intro x hx h0
    rcases List.mem_append.1 hx with hx | hx
    · exact absurd h0 (hd x hx)
    · exact h.1 x hx h0
  · rw [List.pairwise_append]
    refine ⟨List.pairwise_of_forall_mem_list (fun a ha _ _ h0 => absurd h0 (hd a ha)), h.2, ?_⟩
    intro a ha _ _ h0
    exact absurd h0 (hd a ha)

theorem Shape.head_zero {v : Elem} {t : List Elem} (h : Shape (v :: t)) (hv : v.id = 0) :
    ∀ e ∈ v :: t, isQueued e = true := by
  have hall : ∀ e ∈ v :: t, e.id = 0 := by
    intro e he
    rcases List.mem_cons.1 he with rfl | he
    · exact hv
    · exact (List.pairwise_cons.1 h.2).1 e he hv
  intro e he
  exact (isQueued_iff e).2 ⟨h.1 e he (hall e he), hall e he⟩

theorem readLoop_suffix (now ie limit n : Nat) (rest : List Elem) (pids : List Nat) :
    (readLoop now ie limit n rest pids).rest <:+ rest := by
  fun_induction readLoop now ie limit n rest pids with
  | case1 => simp
  | case2 => simp
  | case3 n v rest pids h r ih => exact ih.trans (List.suffix_cons _ _)
  | case4 n v rest pids h1 h2 r ih => exact ih.trans (List.suffix_cons _ _)
  | case5 n v rest pids h1 h2 h3 r ih => exact ih.trans (List.suffix_cons _ _)
  | case6 => simp
  | case7 n v rest h1 h2 h3 p pids' v' r ih => exact ih.trans (List.suffix_cons _ _)

theorem readLoop_kept_ids (now ie limit n : Nat) (rest : List Elem) (pids : List Nat) :
    ∀ e ∈ (readLoop now ie limit n rest pids).kept, e.id ∈ pids := by
  fun_induction readLoop now ie limit n rest pids with
  | case1 => simp
  | case2 => simp
  | case3 n v rest pids h r ih => exact ih
  | case4 n v rest pids h1 h2 r ih => exact ih
  | case5 n v rest pids h1 h2 h3 r ih => exact ih
  | case6 => simp
  | case7 n v rest h1 h2 h3 p pids' v' r ih =>
    intro e he
    rcases List.mem_cons.1 he with rfl | he
    · simp [v']
    · exact List.mem_cons_of_mem _ (ih e he)

theorem inv_new (max ie : Nat) : Inv (new max ie) := by
  simp [Inv, new, Shape]

theorem step_inv (q : Q) (op : Op) (hwf : WFOp op) (h : Inv q) : Inv (step q op).1 := by
  obtain ⟨hd, hs, hq⟩ := h
  cases op with
  | add now e =>
    have he : isQueued e = true := (isQueued_iff e).2 hwf
    apply add_elim (P := fun r => Inv r.1)
    · intro _
      refine ⟨hd, hs.snoc he, fun hdr x hx => ?_⟩
      rcases List.mem_append.1 hx with hx | hx
      · exact hq hdr x hx
      · simp at hx; subst hx; exact he
    · intro v done' _ hx
      refine ⟨fun x hx' => hd x ((extractFirst_some hx).2.2.subset hx'), hs.snoc he, fun hdr x hx => ?_⟩
      rcases List.mem_append.1 hx with hx | hx
      · exact hq hdr x hx
      · simp at hx; subst hx; exact he
    · intro v r rest' p _ hx _
      have hsub := (extractFirst_some hx).2.2
      refine ⟨hd, (hs.sublist hsub).snoc he, fun hdr x hx => ?_⟩
      rcases List.mem_append.1 hx with hx | hx
      · exact hq hdr x (hsub.subset hx)
      · simp at hx; subst hx; exact he
    · intro _; exact ⟨hd, hs, hq⟩
  | read now pids =>
    apply read_elim (P := fun r => Inv r.1)
    · intro _; exact ⟨hd, hs, hq⟩
    · intro hdr _
      have hsuf := readLoop_suffix now q.ie q.limit (min pids.length q.items.length) q.rest pids
      have hk := readLoop_kept_ids now q.ie q.limit (min pids.length q.items.length) q.rest pids
      refine ⟨?_, hs.sublist hsuf.sublist, fun _ x hx => hq hdr x (hsuf.subset hx)⟩
      intro x hx
      rcases List.mem_append.1 hx with hx | hx
      · exact hd x hx
      · exact hwf _ (hk x hx)
  | readInflight now n =>
    apply readInflight_elim (P := fun r => Inv r.1)
    · intro hr
      exact ⟨hd, hs, fun _ x hx => by simp [hr] at hx⟩
    · intro out rest' d heq
      obtain ⟨pre, h1, h2, h3, h4⟩ := inflightLoop_spec now q.ie (min n q.items.length) q.rest
      simp only [heq] at h1 h2 h4
      have hsuf : rest' <:+ q.rest := ⟨pre, h1.symm⟩
      have hs' : Shape rest' := hs.sublist hsuf.sublist
      refine ⟨?_, hs', ?_⟩
      · intro x hx
        rcases List.mem_append.1 hx with hx | hx
        · exact hd x hx
        · rw [h2] at hx
          obtain ⟨y, hy, rfl⟩ := List.mem_map.1 hx
          exact h3 y hy
      · intro hdr x hx
        simp only [Bool.or_eq_true] at hdr
        rcases hdr with hdr | hdr
        · exact hq hdr x (hsuf.subset hx)
        · obtain ⟨v, t, hvt, hv0⟩ := h4 hdr
          rw [hvt] at hs' hx
          exact hs'.head_zero hv0 x hx
  | remove pid =>
    apply remove_elim (P := fun r => Inv r.1)
    · intro v done' hx
      exact ⟨fun x hx' => hd x ((extractFirst_some hx).2.2.subset hx'), hs, hq⟩
    · exact ⟨hd, hs, hq⟩
  | replace e =>
    apply replace_elim (P := fun r => Inv r.1)
    · intro done' hx
      obtain ⟨pre, x, post, h1, h2, h3⟩ := replaceFirst_some hx
      refine ⟨?_, hs, hq⟩
      intro y hy
      rw [h2] at hy
      rw [h1] at hd
      simp only [List.mem_append, List.mem_cons] at hy hd
      rcases hy with hy | rfl | hy
      · exact hd y (.inl hy)
      · have := hd x (.inr (.inl rfl))
        simp at h3
        simpa [← h3] using this
      · exact hd y (.inr (.inr hy))
    · intro _; exact ⟨hd, hs, hq⟩
  | init clean limit =>
    cases clean
    · refine ⟨by simp [step, Q.init], ?_, by simp [step, Q.init]⟩
      exact Shape.prepend hd hs
    · simp [step, Q.init, Inv, Shape]
  | close => exact ⟨hd, hs, hq⟩

theorem run_inv (q : Q) (ops : List Op) (hwf : ∀ op ∈ ops, WFOp op) (h : Inv q) : Inv (run q ops).1 := by
  induction ops generalizing q with
  | nil => exact h
  | cons op ops ih =>
    rw [run_cons]
    exact ih _ (fun o ho => hwf o (List.mem_cons_of_mem _ ho)) (step_inv q op (hwf op List.mem_cons_self) h)

/-! ### 5. `Read` never returns expired / oversize messages -/

theorem readLoop_sound (now ie limit n : Nat) (rest : List Elem) (pids : List Nat) :
    ∀ e ∈ (readLoop now ie limit n rest pids).out,
      ∃ v ∈ rest, v.tag = e.tag ∧ v.size = e.size ∧ expired now v = false ∧ e.size ≤ limit := by
  fun_induction readLoop now ie limit n rest pids with
  | case1 => simp
  | case2 => simp
  | case3 n v rest pids h r ih =>
    intro e he
    obtain ⟨w, hw, hh⟩ := ih e he
    exact ⟨w, List.mem_cons_of_mem _ hw, hh⟩
  | case4 n v rest pids h1 h2 r ih =>
    intro e he
    obtain ⟨w, hw, hh⟩ := ih e he
    exact ⟨w, List.mem_cons_of_mem _ hw, hh⟩
  | case5 n v rest pids h1 h2 h3 r ih =>
    intro e he
    rcases List.mem_cons.1 he with rfl | he
    · exact ⟨e, List.mem_cons_self, rfl, rfl, by simpa using h1, by omega⟩
    · obtain ⟨w, hw, hh⟩ := ih e he
      exact ⟨w, List.mem_cons_of_mem _ hw, hh⟩
  | case6 => simp
  | case7 n v rest h1 h2 h3 p pids' v' r ih =>
    intro e he
    rcases List.mem_cons.1 he with rfl | he
    · exact ⟨v, List.mem_cons_self, rfl, rfl, by simpa using h1, by simp [v']; omega⟩
    · obtain ⟨w, hw, hh⟩ := ih e he
      exact ⟨w, List.mem_cons_of_mem _ hw, hh⟩

theorem read_ok {q q' : Q} {now : Nat} {pids : List Nat} {out : List Elem} {evs : List Ev}
    (h : q.read now pids = (q', .ok out evs)) :
    q.drained = true ∧ q.closed = false ∧
      out = (readLoop now q.ie q.limit (min pids.length q.items.length) q.rest pids).out := by
  rcases read_cases q now pids with h' | h' | h' | ⟨hd, hc, h'⟩
  · rw [h'] at h; simp at h
  · rw [h'] at h; simp at h
  · rw [h'] at h; simp at h
  · rw [h'] at h
    simp only [Prod.mk.injEq, ReadRes.ok.injEq] at h
    exact ⟨hd, hc, h.2.1.symm⟩

theorem read_ok_sound (q : Q) (now : Nat) (pids : List Nat) (out : List Elem)
    (evs : List Ev) (q' : Q) (h : q.read now pids = (q', .ok out evs)) :
    ∀ e ∈ out, ∃ v ∈ q.rest, v.tag = e.tag ∧ v.size = e.size ∧ expired now v = false ∧ e.size ≤ q.limit := by
  obtain ⟨_, _, rfl⟩ := read_ok h
  exact readLoop_sound _ _ _ _ _ _

/-! ### 4. packet ids -/

theorem readLoop_ids (now ie limit n : Nat) (rest : List Elem) (pids : List Nat)
    (h0 : ∀ e ∈ rest, e.id = 0) :
    (((readLoop now ie limit n rest pids).out.filter (fun e => e.qos != 0)).map (·.id)) =
        pids.take ((readLoop now ie limit n rest pids).out.filter (fun e => e.qos != 0)).length
    ∧ ∀ e ∈ (readLoop now ie limit n rest pids).out, e.qos = 0 → e.id = 0 := by
  fun_induction readLoop now ie limit n rest pids with
  | case1 => simp
  | case2 => simp
  | case3 n v rest pids h r ih => exact ih (fun e he => h0 e (List.mem_cons_of_mem _ he))
  | case4 n v rest pids h1 h2 r ih => exact ih (fun e he => h0 e (List.mem_cons_of_mem _ he))
  | case5 n v rest pids h1 h2 h3 r ih =>
    have ih := ih (fun e he => h0 e (List.mem_cons_of_mem _ he))
    have hv := h0 v List.mem_cons_self
    simp only [beq_iff_eq] at h3
    refine ⟨by simpa [h3] using ih.1, ?_⟩
    intro e he hq
    rcases List.mem_cons.1 he with rfl | he
    · exact hv
    · exact ih.2 e he hq
  | case6 => simp
  | case7 n v rest h1 h2 h3 p pids' v' r ih =>
    have ih := ih (fun e he => h0 e (List.mem_cons_of_mem _ he))
    simp only [beq_iff_eq] at h3
    have hq' : (v'.qos != 0) = true := by simpa [v'] using h3
    refine ⟨?_, ?_⟩
    · simp only [List.filter_cons, hq', if_true, List.map_cons, List.length_cons, List.take_succ_cons]
      rw [← ih.1]
    · intro e he hq
      rcases List.mem_cons.1 he with rfl | he
      · simp [v'] at hq; exact absurd hq h3
      · exact ih.2 e he hq

theorem reachable_read_ids (max ie : Nat) (ops : List Op) (hwf : ∀ op ∈ ops, WFOp op)
    (now : Nat) (pids : List Nat) (out : List Elem) (evs : List Ev) (q' : Q)
    (h : (run (new max ie) ops).1.read now pids = (q', .ok out evs)) :
    ((out.filter (fun e => e.qos != 0)).map (·.id)) = pids.take (out.filter (fun e => e.qos != 0)).length
    ∧ ∀ e ∈ out, e.qos = 0 → e.id = 0 := by
  obtain ⟨_, _, hq⟩ := run_inv (new max ie) ops hwf (inv_new max ie)
  obtain ⟨hd, _, rfl⟩ := read_ok h
  exact readLoop_ids _ _ _ _ _ _ (fun e he => ((isQueued_iff e).1 (hq hd e he)).2)

/-! ### 3. FIFO -/

theorem readLoop_sublist (now ie limit n : Nat) (rest : List Elem) (pids : List Nat) :
    List.Sublist (tags (readLoop now ie limit n rest pids).out ++ tags (readLoop now ie limit n rest pids).rest)
      (tags rest) := by
  fun_induction readLoop now ie limit n rest pids with
  | case1 => simp
  | case2 => simp
  | case3 n v rest pids h r ih => exact ih.cons _
  | case4 n v rest pids h1 h2 r ih => exact ih.cons _
  | case5 n v rest pids h1 h2 h3 r ih => exact ih.cons_cons _
  | case6 => simp
  | case7 n v rest h1 h2 h3 p pids' v' r ih => exact ih.cons_cons _

theorem tags_sublist {l l' : List Elem} (h : l'.Sublist l) : (tags l').Sublist (tags l) := h.map _

def Out.handed (o : Out) : List Nat := if o.replay then [] else tags o.returned

theorem handedOut_cons (o : Out) (os : List Out) : handedOut (o :: os) = o.handed ++ handedOut os := by
  simp [handedOut, Out.handed]

theorem filter_queued_of_all {l : List Elem} (h : ∀ e ∈ l, isQueued e = true) : l.filter isQueued = l :=
  List.filter_eq_self.2 h

theorem filter_queued_done {l : List Elem} (h : ∀ e ∈ l, e.id ≠ 0) : l.filter isQueued = [] := by
  rw [List.filter_eq_nil_iff]
  intro e he hq
  exact h e he ((isQueued_iff e).1 hq).2

theorem unread_snoc (l : List Elem) (e : Elem) (he : isQueued e = true) :
    tags ((l ++ [e]).filter isQueued) = tags (l.filter isQueued) ++ [e.tag] := by
  simp [List.filter_append, he]

theorem step_fifo (q : Q) (op : Op) (hwf : WFOp op) (h : Inv q) :
    List.Sublist ((step q op).2.handed ++ unread (step q op).1) (unread q ++ addedTag op) := by
  obtain ⟨hd, hs, hq⟩ := h
  cases op with
  | add now e =>
    have he : isQueued e = true := (isQueued_iff e).2 hwf
    apply add_elim (P := fun r => List.Sublist (r.2.handed ++ unread r.1) (unread q ++ addedTag (.add now e)))
    · intro _
      simp only [Out.handed, unread, addedTag, unread_snoc _ e he]
      simp
    · intro v done' _ hx
      simp only [Out.handed, unread, addedTag, unread_snoc _ e he]
      simp
    · intro v r rest' p _ hx _
      have hsub := (extractFirst_some hx).2.2
      simp only [Out.handed, unread, addedTag, unread_snoc _ e he]
      simpa using (tags_sublist (hsub.filter isQueued)).append (List.Sublist.refl [e.tag])
    · intro _
      simp [Out.handed, addedTag]
  | read now pids =>
    apply read_elim (P := fun r => List.Sublist (r.2.handed ++ unread r.1) (unread q ++ addedTag (.read now pids)))
    · intro _
      simp [Out.handed, addedTag]
    · intro hdr _
      have hsuf := readLoop_suffix now q.ie q.limit (min pids.length q.items.length) q.rest pids
      have hsl := readLoop_sublist now q.ie q.limit (min pids.length q.items.length) q.rest pids
      have h1 := filter_queued_of_all (hq hdr)
      have h2 := filter_queued_of_all (fun x hx => hq hdr x (hsuf.subset hx))
      simp only [Out.handed, unread, addedTag, h1, h2]
      simpa using hsl
  | readInflight now n =>
    apply readInflight_elim
      (P := fun r => List.Sublist (r.2.handed ++ unread r.1) (unread q ++ addedTag (.readInflight now n)))
    · intro _
      simp [Out.handed, addedTag, unread]
    · intro out rest' d heq
      obtain ⟨pre, h1, _, _, _⟩ := inflightLoop_spec now q.ie (min n q.items.length) q.rest
      simp only [heq] at h1
      have hsuf : rest' <:+ q.rest := ⟨pre, h1.symm⟩
      simpa [Out.handed, addedTag, unread] using tags_sublist (hsuf.sublist.filter isQueued)
  | remove pid =>
    apply remove_elim (P := fun r => List.Sublist (r.2.handed ++ unread r.1) (unread q ++ addedTag (.remove pid)))
    · intro v done' hx
      simp [Out.handed, addedTag, unread]
    · simp [Out.handed, addedTag]
  | replace e =>
    apply replace_elim (P := fun r => List.Sublist (r.2.handed ++ unread r.1) (unread q ++ addedTag (.replace e)))
    · intro done' hx
      simp [Out.handed, addedTag, unread]
    · intro _
      simp [Out.handed, addedTag]
  | init clean limit =>
    cases clean
    · simp [step, Q.init, Out.handed, addedTag, unread, Q.items, List.filter_append, filter_queued_done hd]
    · simp [step, Q.init, Out.handed, addedTag, unread]
  | close => simp [step, Q.close, Out.handed, addedTag, unread]

theorem run_fifo_gen (q : Q) (ops : List Op) (hwf : ∀ op ∈ ops, WFOp op) (h : Inv q)
    (h0 a0 : List Nat) (hsub : List.Sublist (h0 ++ unread q) a0) :
    List.Sublist (h0 ++ handedOut (run q ops).2 ++ unread (run q ops).1) (a0 ++ addedTags ops) := by
  induction ops generalizing q h0 a0 with
  | nil => simpa [run, handedOut, addedTags] using hsub
  | cons op ops ih =>
    rw [run_cons, handedOut_cons, addedTags_cons]
    have hop := hwf op List.mem_cons_self
    have hstep := step_fifo q op hop h
    have := ih (step q op).1 (fun o ho => hwf o (List.mem_cons_of_mem _ ho)) (step_inv q op hop h)
      (h0 ++ (step q op).2.handed) (a0 ++ addedTag op) (by
        have h1 : List.Sublist (h0 ++ ((step q op).2.handed ++ unread (step q op).1))
            (h0 ++ (unread q ++ addedTag op)) := (List.Sublist.refl h0).append hstep
        have h2 : List.Sublist (h0 ++ unread q ++ addedTag op) (a0 ++ addedTag op) :=
          hsub.append (List.Sublist.refl _)
        simpa [List.append_assoc] using h1.trans (by simpa [List.append_assoc] using h2))
    simpa [List.append_assoc] using this

theorem run_fifo (max ie : Nat) (ops : List Op) (hwf : ∀ op ∈ ops, WFOp op) :
    List.Sublist (handedOut (run (new max ie) ops).2 ++ unread (run (new max ie) ops).1) (addedTags ops) := by
  simpa using run_fifo_gen (new max ie) ops hwf (inv_new max ie) [] [] (by simp [unread, new])

/-! ### 6. replay -/

/-- the in-flight entries still to be replayed: the leading run of entries that carry a packet id -/
def pending (l : List Elem) : List Elem := l.takeWhile (fun e => e.id != 0)

theorem Shape.filter_eq_pending {l : List Elem} (h : Shape l) :
    l.filter (fun e => e.id != 0) = pending l := by
  induction l with
  | nil => rfl
  | cons x xs ih =>
    have hxs : Shape xs := h.sublist (List.sublist_cons_self _ _)
    by_cases hx : x.id = 0
    · have hall : ∀ e ∈ xs, e.id = 0 := fun e he => (List.pairwise_cons.1 h.2).1 e he hx
      have : xs.filter (fun e => e.id != 0) = [] := by
        rw [List.filter_eq_nil_iff]
        intro e he
        simp [hall e he]
      simp [pending, hx, this]
    · have := ih hxs
      simp [pending, hx] at this ⊢
      exact this

@[simp] theorem key_refresh (now ie : Nat) (a : Elem) : key (refresh now ie a) = key a := rfl

@[simp] theorem map_key_refresh (now ie : Nat) (l : List Elem) :
    (l.map (refresh now ie)).map key = l.map key := by
  simp [key, refresh, Function.comp_def]

theorem readInflight_replay (q : Q) (now n : Nat) (hP : q.drained = true → pending q.rest = []) :
    (q.readInflight now n).2.map key ++ (pending (q.readInflight now n).1.rest).map key
        = (pending q.rest).map key
    ∧ ((q.readInflight now n).1.drained = true → pending (q.readInflight now n).1.rest = []) := by
  unfold Q.readInflight
  split
  · next he =>
    have hr : q.rest = [] := by
      simp only [Q.items, Bool.or_eq_true, List.isEmpty_iff, List.append_eq_nil_iff] at he
      rcases he with h | h
      · exact h.2
      · exact h
    simp [hr, pending]
  · obtain ⟨pre, h1, h2, h3, h4⟩ := inflightLoop_spec now q.ie (min n q.items.length) q.rest
    rcases hl : inflightLoop now q.ie (min n q.items.length) q.rest with ⟨out, rest', d⟩
    simp only [hl] at h1 h2 h4 ⊢
    have hpend : pending q.rest = pre ++ pending rest' := by
      rw [h1]
      exact List.takeWhile_append_of_pos (fun a ha => by simpa using h3 a ha)
    refine ⟨by simp [h2, hpend], ?_⟩
    intro hdr
    simp only [Bool.or_eq_true] at hdr
    rcases hdr with hdr | hdr
    · have := hP hdr
      rw [hpend] at this
      exact (List.append_eq_nil_iff.1 this).2
    · obtain ⟨v, t, hvt, hv0⟩ := h4 hdr
      simp [hvt, pending, hv0]

theorem runReplay_cons (q : Q) (now n : Nat) (cs : List (Nat × Nat)) :
    runReplay q ((now, n) :: cs) =
      ((runReplay (q.readInflight now n).1 cs).1,
       (q.readInflight now n).2 ++ (runReplay (q.readInflight now n).1 cs).2) := rfl

theorem runReplay_spec (q : Q) (calls : List (Nat × Nat)) (hP : q.drained = true → pending q.rest = []) :
    (runReplay q calls).2.map key ++ (pending (runReplay q calls).1.rest).map key = (pending q.rest).map key
    ∧ ((runReplay q calls).1.drained = true → pending (runReplay q calls).1.rest = []) := by
  induction calls generalizing q with
  | nil => exact ⟨by simp [runReplay], hP⟩
  | cons c cs ih =>
    obtain ⟨now, n⟩ := c
    rw [runReplay_cons]
    obtain ⟨h1, h2⟩ := readInflight_replay q now n hP
    obtain ⟨h3, h4⟩ := ih (q.readInflight now n).1 h2
    refine ⟨?_, h4⟩
    simp only [List.map_append, List.append_assoc]
    rw [h3, h1]

theorem read_not_drained (q : Q) (h : q.drained = false) (now : Nat) (pids : List Nat) :
    (q.read now pids).2 = .panic := by
  simp [Q.read, h]

theorem reachable_replay (max ie : Nat) (ops : List Op) (hwf : ∀ op ∈ ops, WFOp op)
    (limit : Nat) (calls : List (Nat × Nat)) :
    let q := (run (new max ie) ops).1
    let inflight := q.items.filter (fun e => e.id != 0)
    let r := runReplay (q.init false limit) calls
    (r.2.map key).IsPrefix (inflight.map key)
    ∧ (r.1.drained = true → r.2.map key = inflight.map key)
    ∧ (r.1.drained = false → ∀ now pids, (r.1.read now pids).2 = .panic) := by
  intro q inflight r
  have hinv : Inv q := run_inv (new max ie) ops hwf (inv_new max ie)
  have hinv' : Inv (q.init false limit) := step_inv q (.init false limit) trivial hinv
  have hinfl : inflight = pending (q.init false limit).rest := by
    have := hinv'.2.1.filter_eq_pending
    simpa [Q.init] using this
  obtain ⟨h1, h2⟩ := runReplay_spec (q.init false limit) calls (by simp [Q.init])
  rw [hinfl]
  refine ⟨?_, ?_, fun hd now pids => read_not_drained _ hd now pids⟩
  · rw [← h1]
    exact List.prefix_append _ _
  · intro hd
    have := h2 hd
    rw [← h1]
    show List.map key (runReplay (q.init false limit) calls).2 = _
    rw [this]
    simp

/-! ### 8. counters -/

/-- number of entries carrying a packet id -/
def nz (l : List Elem) : Nat := (l.filter (fun e => e.id != 0)).length

@[simp] theorem nz_nil : nz [] = 0 := rfl
@[simp] theorem nz_cons (e : Elem) (l : List Elem) : nz (e :: l) = (if e.id = 0 then 0 else 1) + nz l := by
  by_cases h : e.id = 0 <;> simp [nz, h] <;> omega
@[simp] theorem nz_append (l₁ l₂ : List Elem) : nz (l₁ ++ l₂) = nz l₁ + nz l₂ := by
  simp [nz]

theorem nz_of_all_nz {l : List Elem} (h : ∀ e ∈ l, e.id ≠ 0) : nz l = l.length := by
  induction l with
  | nil => rfl
  | cons x xs ih =>
    have := ih (fun e he => h e (List.mem_cons_of_mem _ he))
    have hx := h x List.mem_cons_self
    simp [hx, this]; omega

theorem nz_of_all_zero {l : List Elem} (h : ∀ e ∈ l, e.id = 0) : nz l = 0 := by
  induction l with
  | nil => rfl
  | cons x xs ih =>
    have := ih (fun e he => h e (List.mem_cons_of_mem _ he))
    have hx := h x List.mem_cons_self
    simp [hx, this]

theorem nz_perm {l₁ l₂ : List Elem} (h : l₁.Perm l₂) : nz l₁ = nz l₂ :=
  (h.filter _).length_eq

theorem nz_map_refresh (now ie : Nat) (l : List Elem) : nz (l.map (refresh now ie)) = nz l := by
  induction l with
  | nil => rfl
  | cons x xs ih => simp [ih, refresh]

theorem evDeltas_readLoop (now ie limit n : Nat) (rest : List Elem) (pids : List Nat) (l : List Ev) :
    evDeltas ((readLoop now ie limit n rest pids).evs ++ l) = evDeltas l := by
  fun_induction readLoop now ie limit n rest pids with
  | case1 => simp
  | case2 => simp
  | case3 n v rest pids h r ih => simpa [evDeltas, r] using ih
  | case4 n v rest pids h1 h2 r ih => simpa [evDeltas, r] using ih
  | case5 n v rest pids h1 h2 h3 r ih => simpa [r] using ih
  | case6 => simp
  | case7 n v rest h1 h2 h3 p pids' v' r ih => simpa [r] using ih

def accStep (acc : Int × Int) (op : Op) (o : Out) : Int × Int :=
  match op with
  | .init true _ => (0, 0)
  | _ => (acc.1 + (evDeltas o.evs).1, acc.2 + (evDeltas o.evs).2)

theorem countersFrom_cons (acc : Int × Int) (op : Op) (ops : List Op) (o : Out) (outs : List Out) :
    countersFrom acc (op :: ops) (o :: outs) = countersFrom (accStep acc op o) ops outs := rfl

theorem step_counters (q : Q) (op : Op) (hwf : WFOp op) (h : Inv q) :
    accStep ((q.items.length : Int), (nz q.items : Int)) op (step q op).2 =
      (((step q op).1.items.length : Int), (nz (step q op).1.items : Int)) := by
  obtain ⟨hd, hs, hq⟩ := h
  cases op with
  | add now e =>
    have he0 : e.id = 0 := hwf.2
    apply add_elim (P := fun r => accStep ((q.items.length : Int), (nz q.items : Int)) (.add now e) r.2 =
      ((r.1.items.length : Int), (nz r.1.items : Int)))
    · intro _
      simp [accStep, evDeltas, Q.items, he0]; omega
    · intro v done' _ hx
      have hl := extractFirst_length hx
      have hn := nz_perm (extractFirst_some hx).2.1
      have hv := hd v (extractFirst_mem hx)
      simp [hv] at hn
      simp [accStep, evDeltas, Q.items, he0, hl, ← hn]; omega
    · intro v r rest' p _ hx hp
      have hl := extractFirst_length hx
      have hn := nz_perm (extractFirst_some hx).2.1
      have hv := ((isQueued_iff v).1 (hp v (extractFirst_some hx).1)).2
      simp [hv] at hn
      simp [accStep, evDeltas, Q.items, he0, hl, ← hn]
    · intro _
      simp [accStep, evDeltas]
  | read now pids =>
    apply read_elim (P := fun r => accStep ((q.items.length : Int), (nz q.items : Int)) (.read now pids) r.2 =
      ((r.1.items.length : Int), (nz r.1.items : Int)))
    · intro _
      simp [accStep, evDeltas]
    · intro hdr _
      have hsuf := readLoop_suffix now q.ie q.limit (min pids.length q.items.length) q.rest pids
      have hk := readLoop_kept_ids now q.ie q.limit (min pids.length q.items.length) q.rest pids
      obtain ⟨hl1, hl2, hl3⟩ := readLoop_len now q.ie q.limit (min pids.length q.items.length) q.rest pids
      have h0 : ∀ e ∈ q.rest, e.id = 0 := fun e he => ((isQueued_iff e).1 (hq hdr e he)).2
      have hz1 := nz_of_all_zero h0
      have hz2 := nz_of_all_zero (fun e he => h0 e (hsuf.subset he))
      have hz3 := nz_of_all_nz (fun e he => hwf _ (hk e he))
      simp only [accStep, evDeltas_readLoop]
      generalize readLoop now q.ie q.limit (min pids.length q.items.length) q.rest pids = r at *
      simp only [evDeltas, Q.items, List.length_append, nz_append, hz1, hz2, hz3, hl2, hl3]
      simp; omega
  | readInflight now n =>
    apply readInflight_elim
      (P := fun r => accStep ((q.items.length : Int), (nz q.items : Int)) (.readInflight now n) r.2 =
        ((r.1.items.length : Int), (nz r.1.items : Int)))
    · intro _
      simp [accStep, evDeltas, Q.items]
    · intro out rest' d heq
      obtain ⟨pre, h1, h2, _, _⟩ := inflightLoop_spec now q.ie (min n q.items.length) q.rest
      simp only [heq] at h1 h2
      simp only [accStep, evDeltas, Q.items, h2, nz_append, nz_map_refresh, List.length_append, List.length_map]
      rw [h1]
      simp; omega
  | remove pid =>
    apply remove_elim (P := fun r => accStep ((q.items.length : Int), (nz q.items : Int)) (.remove pid) r.2 =
      ((r.1.items.length : Int), (nz r.1.items : Int)))
    · intro v done' hx
      have hl := extractFirst_length hx
      have hn := nz_perm (extractFirst_some hx).2.1
      have hv := hd v (extractFirst_mem hx)
      simp [hv] at hn
      simp [accStep, evDeltas, Q.items, hl, ← hn]; omega
    · simp [accStep, evDeltas]
  | replace e =>
    apply replace_elim (P := fun r => accStep ((q.items.length : Int), (nz q.items : Int)) (.replace e) r.2 =
      ((r.1.items.length : Int), (nz r.1.items : Int)))
    · intro done' hx
      obtain ⟨pre, x, post, h1, h2, h3⟩ := replaceFirst_some hx
      simp at h3
      simp [accStep, evDeltas, Q.items, h1, h2, h3]
    · intro _
      simp [accStep, evDeltas]
  | init clean limit =>
    cases clean
    · simp [accStep, evDeltas, step, Q.init, Q.items]
    · simp [accStep, step, Q.init, Q.items]
  | close => simp [accStep, evDeltas, step, Q.close, Q.items]

theorem run_counters_gen (q : Q) (ops : List Op) (hwf : ∀ op ∈ ops, WFOp op) (h : Inv q) :
    countersFrom ((q.items.length : Int), (nz q.items : Int)) ops (run q ops).2 =
      (((run q ops).1.items.length : Int), (nz (run q ops).1.items : Int)) := by
  induction ops generalizing q with
  | nil => rfl
  | cons op ops ih =>
    rw [run_cons, countersFrom_cons, step_counters q op (hwf op List.mem_cons_self) h]
    exact ih _ (fun o ho => hwf o (List.mem_cons_of_mem _ ho)) (step_inv q op (hwf op List.mem_cons_self) h)

theorem run_counters (max ie : Nat) (ops : List Op) (hwf : ∀ op ∈ ops, WFOp op) :
    let r := run (new max ie) ops
    counters ops r.2 = ((r.1.items.length : Int), ((r.1.items.filter (fun e => e.id != 0)).length : Int)) := by
  exact run_counters_gen (new max ie) ops hwf (inv_new max ie)

end GmqttVerif.Queue
