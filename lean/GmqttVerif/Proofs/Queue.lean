import GmqttVerif.Model.Queue
/-
  Vocabulary and helper lemmas for C10 (session queue). Core Lean only.
-/
namespace GmqttVerif.Queue

/-! ### vocabulary used by the property statements -/

/-- what callers of the queue guarantee -/
def WFOp : Op → Prop
  | .add _ e => e.pub = true ∧ e.id = 0
  | .read _ pids => ∀ p ∈ pids, p ≠ 0
  | _ => True

instance : DecidablePred WFOp := fun op => by
  cases op <;> simp only [WFOp] <;> infer_instance

def tags (l : List Elem) : List Nat := l.map (·.tag)

def Ev.droppedElem : Ev → Option Elem
  | .dropped e _ => some e
  | _ => none

/-- elements reported through `NotifyDropped` -/
def Out.dropped (o : Out) : List Elem := o.evs.filterMap Ev.droppedElem

/-- elements that left by completion: QoS 0 handed out by `Read`, or acknowledged by `Remove` -/
def Out.finished (o : Out) : List Elem :=
  (if o.replay then [] else o.returned.filter (fun e => e.qos == 0)) ++ o.acked

def addedTags : List Op → List Nat
  | [] => []
  | .add _ e :: ops => e.tag :: addedTags ops
  | _ :: ops => addedTags ops

def ledger (outs : List Out) : List Nat :=
  outs.flatMap (fun o => tags o.dropped ++ tags o.finished ++ tags o.cleared)

/-- tags returned by `Read` (not replays), in order -/
def handedOut (outs : List Out) : List Nat :=
  outs.flatMap (fun o => if o.replay then [] else tags o.returned)

/-- queued, not yet handed out -/
def unread (q : Q) : List Nat := tags (q.rest.filter isQueued)

def key (e : Elem) : Nat × Nat × Bool := (e.tag, e.id, e.pub)

/-- a sequence of `ReadInflight(now, maxSize)` calls; returns the concatenated results -/
def runReplay (q : Q) : List (Nat × Nat) → Q × List Elem
  | [] => (q, [])
  | (now, n) :: cs =>
    let (q', out) := q.readInflight now n
    let (q'', outs) := runReplay q' cs
    (q'', out ++ outs)

def evDeltas : List Ev → Int × Int
  | [] => (0, 0)
  | .queued d :: evs => let r := evDeltas evs; (r.1 + d, r.2)
  | .inflight d :: evs => let r := evDeltas evs; (r.1, r.2 + d)
  | _ :: evs => evDeltas evs

def countersFrom (acc : Int × Int) : List Op → List Out → Int × Int
  | op :: ops, o :: outs =>
    let acc' := match op with
      | .init true _ => (0, 0)
      | _ => (acc.1 + (evDeltas o.evs).1, acc.2 + (evDeltas o.evs).2)
    countersFrom acc' ops outs
  | _, _ => acc

/-- running sums of the queue / in-flight deltas, reset by a clean `Init` -/
def counters (ops : List Op) (outs : List Out) : Int × Int := countersFrom (0, 0) ops outs

/-! ### lemmas (TO BE PROVED — no sorry may remain) -/

theorem run_len_le_max (q : Q) (ops : List Op) (h : q.items.length ≤ q.max) (hmax : 0 < q.max) :
    (run q ops).1.items.length ≤ q.max := by
  sorry

end GmqttVerif.Queue
