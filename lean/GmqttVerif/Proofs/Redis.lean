import GmqttVerif.Model.Redis
/-
  Frame lemmas for the redis dataset model: a command changes the value under its own key only.
-/
namespace GmqttVerif.Redis
open GmqttVerif.Codec (Bytes)

def NoDupKeys (ds : Dataset) : Prop := (ds.map (·.1)).Nodup

theorem get_put_same (ds : Dataset) (k : Bytes) (v : Val) : get (put ds k v) k = some v := by
  induction ds with
  | nil => simp [put, get]
  | cons p ds ih =>
    obtain ⟨k', v'⟩ := p
    by_cases h : k' = k
    · simp [put, get, h]
    · simp [put, get, h, ih]

theorem get_put_ne (ds : Dataset) (k k' : Bytes) (v : Val) (h : k' ≠ k) : get (put ds k v) k' = get ds k' := by
  induction ds with
  | nil => simp [put, get, Ne.symm h]
  | cons p ds ih =>
    obtain ⟨k0, v0⟩ := p
    by_cases h0 : k0 = k
    · subst h0
      simp [put, get, Ne.symm h]
    · by_cases h1 : k0 = k'
      · subst h1
        simp [put, get, h0]
      · simp [put, get, h0, h1, ih]

theorem get_del_ne (ds : Dataset) (k k' : Bytes) (h : k' ≠ k) : get (del ds k) k' = get ds k' := by
  induction ds with
  | nil => simp [del, get]
  | cons p ds ih =>
    obtain ⟨k0, v0⟩ := p
    by_cases h0 : k0 = k
    · subst h0
      simp [del, get, Ne.symm h]
    · by_cases h1 : k0 = k'
      · subst h1
        simp [del, get, h0]
      · simp [del, get, h0, h1, ih]

theorem get_none_of_not_mem (ds : Dataset) (k : Bytes) (h : k ∉ ds.map (·.1)) : get ds k = none := by
  induction ds with
  | nil => rfl
  | cons p ds ih =>
    obtain ⟨k0, v0⟩ := p
    simp only [List.map_cons, List.mem_cons, not_or] at h
    simp [get, Ne.symm h.1, ih h.2]

theorem mem_keys_iff (ds : Dataset) (k : Bytes) : k ∈ ds.map (·.1) ↔ (get ds k).isSome = true := by
  induction ds with
  | nil => simp [get]
  | cons p ds ih =>
    obtain ⟨k0, v0⟩ := p
    by_cases h0 : k0 = k
    · simp [get, h0]
    · simp only [List.map_cons, List.mem_cons, get, h0, if_false]
      constructor
      · intro h
        rcases h with h | h
        · exact absurd h.symm h0
        · exact ih.mp h
      · intro h
        exact Or.inr (ih.mpr h)

theorem get_del_same (ds : Dataset) (k : Bytes) (hn : NoDupKeys ds) : get (del ds k) k = none := by
  induction ds with
  | nil => rfl
  | cons p ds ih =>
    obtain ⟨k0, v0⟩ := p
    simp only [NoDupKeys, List.map_cons, List.nodup_cons] at hn
    by_cases h0 : k0 = k
    · subst h0
      simp only [del, if_true]
      exact get_none_of_not_mem ds _ hn.1
    · simp only [del, h0, if_false, get]
      exact ih hn.2

theorem keys_del_subset (ds : Dataset) (k x : Bytes) (h : x ∈ (del ds k).map (·.1)) : x ∈ ds.map (·.1) := by
  induction ds with
  | nil => simp [del] at h
  | cons p ds ih =>
    obtain ⟨k0, v0⟩ := p
    by_cases h0 : k0 = k
    · simp only [del, h0, if_true] at h
      simp [h]
    · simp only [del, h0, if_false, List.map_cons, List.mem_cons] at h ⊢
      rcases h with h | h
      · exact Or.inl h
      · exact Or.inr (ih h)

theorem noDup_del (ds : Dataset) (k : Bytes) (hn : NoDupKeys ds) : NoDupKeys (del ds k) := by
  induction ds with
  | nil => simpa [del] using hn
  | cons p ds ih =>
    obtain ⟨k0, v0⟩ := p
    simp only [NoDupKeys, List.map_cons, List.nodup_cons] at hn
    by_cases h0 : k0 = k
    · simp only [del, h0, if_true]
      exact hn.2
    · simp only [del, h0, if_false, NoDupKeys, List.map_cons, List.nodup_cons]
      exact ⟨fun hx => hn.1 (keys_del_subset ds k k0 hx), ih hn.2⟩

theorem keys_put (ds : Dataset) (k x : Bytes) (v : Val) (h : x ∈ (put ds k v).map (·.1)) : x = k ∨ x ∈ ds.map (·.1) := by
  induction ds with
  | nil => simp [put] at h; exact Or.inl h
  | cons p ds ih =>
    obtain ⟨k0, v0⟩ := p
    by_cases h0 : k0 = k
    · simp only [put, h0, if_true, List.map_cons, List.mem_cons] at h ⊢
      rcases h with h | h
      · exact Or.inl h
      · exact Or.inr (Or.inr h)
    · simp only [put, h0, if_false, List.map_cons, List.mem_cons] at h ⊢
      rcases h with h | h
      · exact Or.inr (Or.inl h)
      · rcases ih h with h | h
        · exact Or.inl h
        · exact Or.inr (Or.inr h)

theorem noDup_put (ds : Dataset) (k : Bytes) (v : Val) (hn : NoDupKeys ds) : NoDupKeys (put ds k v) := by
  induction ds with
  | nil => simp [put, NoDupKeys]
  | cons p ds ih =>
    obtain ⟨k0, v0⟩ := p
    simp only [NoDupKeys, List.map_cons, List.nodup_cons] at hn
    by_cases h0 : k0 = k
    · subst h0
      simp only [put, if_true, NoDupKeys, List.map_cons, List.nodup_cons]
      exact hn
    · simp only [put, h0, if_false, NoDupKeys, List.map_cons, List.nodup_cons]
      refine ⟨fun hx => ?_, ih hn.2⟩
      rcases keys_put ds k k0 v hx with h | h
      · exact h0 h
      · exact hn.1 h

theorem noDup_putOrDel (ds : Dataset) (k : Bytes) (v : Val) (hn : NoDupKeys ds) : NoDupKeys (putOrDel ds k v) := by
  unfold putOrDel
  split
  · exact noDup_del ds k hn
  · exact noDup_del ds k hn
  · exact noDup_put ds k v hn

theorem get_putOrDel_ne (ds : Dataset) (k k' : Bytes) (v : Val) (h : k' ≠ k) : get (putOrDel ds k v) k' = get ds k' := by
  unfold putOrDel
  split
  · exact get_del_ne ds k k' h
  · exact get_del_ne ds k k' h
  · exact get_put_ne ds k k' v h

/-- a command does not touch other keys -/
theorem get_exec_ne (ds : Dataset) (c : Cmd) (k : Bytes) (h : k ≠ c.key) : get (exec ds c).1 k = get ds k := by
  cases c <;> simp only [exec, Cmd.key] at h ⊢ <;>
    (repeat' split) <;> simp_all [get_del_ne, get_put_ne, get_putOrDel_ne]

theorem noDup_exec (ds : Dataset) (c : Cmd) (hn : NoDupKeys ds) : NoDupKeys (exec ds c).1 := by
  cases c <;> simp only [exec] <;>
    (repeat' split) <;> simp_all [noDup_del, noDup_put, noDup_putOrDel]

theorem noDup_applyAll (cs : List Cmd) (ds : Dataset) (hn : NoDupKeys ds) : NoDupKeys (applyAll ds cs) := by
  induction cs generalizing ds with
  | nil => exact hn
  | cons c cs ih => exact ih _ (noDup_exec ds c hn)

/-- what `putOrDel` leaves under its own key, seen through `listAt` / `hashAt` -/
theorem listAt_putOrDel_list (ds : Dataset) (k : Bytes) (xs : List Bytes) (hn : NoDupKeys ds) :
    listAt (putOrDel ds k (.list xs)) k = some xs := by
  cases xs with
  | nil => simp [putOrDel, listAt, get_del_same ds k hn]
  | cons x xs => simp [putOrDel, listAt, get_put_same]

theorem hashAt_putOrDel_hash (ds : Dataset) (k : Bytes) (fs : List (Bytes × Bytes)) (hn : NoDupKeys ds) :
    hashAt (putOrDel ds k (.hash fs)) k = some fs := by
  cases fs with
  | nil => simp [putOrDel, hashAt, get_del_same ds k hn]
  | cons x xs => simp [putOrDel, hashAt, get_put_same]

theorem listAt_of_get_eq (ds ds' : Dataset) (k : Bytes) (h : get ds' k = get ds k) : listAt ds' k = listAt ds k := by
  simp [listAt, h]

theorem hashAt_of_get_eq (ds ds' : Dataset) (k : Bytes) (h : get ds' k = get ds k) : hashAt ds' k = hashAt ds k := by
  simp [hashAt, h]

end GmqttVerif.Redis
