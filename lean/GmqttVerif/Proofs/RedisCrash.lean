import GmqttVerif.Proofs.RedisHistory
/-
  Client histories on the redis backend, continued: what callers guarantee (`ValidOp`), every command issued is
  well-formed (`cmds_good`), the queue discipline is an invariant (`hinv_step`), and what a crash INSIDE a
  multi-command step leaves behind (`interior_*`). Core Lean only.
-/
namespace GmqttVerif.RedisStores
open GmqttVerif.Codec GmqttVerif.Redis GmqttVerif.ElemCodec

/-! ### vocabulary -/

def bodyId : Body → Nat
  | .publish m => m.pid
  | .pubrel id => id

def bodyIsPub : Body → Bool
  | .publish _ => true
  | .pubrel _ => false

def bodyQos : Body → Nat
  | .publish m => m.qos
  | .pubrel _ => 0

theorem id_eq_bodyId (e : Elem) : e.id = bodyId e.body := by
  cases e with | mk a x b => cases b <;> rfl

theorem isPub_eq (e : Elem) : e.isPub = bodyIsPub e.body := by
  cases e with | mk a x b => cases b <;> rfl

theorem qos_eq (e : Elem) : e.qos = bodyQos e.body := by
  cases e with | mk a x b => cases b <;> rfl

/-- the queue discipline: `cur` id-bearing entries (handed out / replayed) in front, unread PUBLISHes behind -/
def QInv (q : List Elem) (cur : Nat) : Prop :=
  cur ≤ q.length ∧ (∀ e ∈ q.take cur, e.id ≠ 0) ∧ (∀ e ∈ q.drop cur, e.id = 0 ∧ e.isPub = true)

structure HInv (st : HSt) : Prop where
  good : GoodStore st.g
  queue : ∀ c, QInv (st.g c).queue (st.cur c)

/-- what the callers of the stores guarantee -/
def ValidOp (ie : Nat) (st : HSt) : HOp → Prop
  | .connect c _ s now => s.id = c ∧ (∀ m, s.will = some m → m.InLimits) ∧ s.willDelay < 4294967296 ∧
      s.connectedAt < 4294967296 ∧ s.expiry < 4294967296 ∧ now + ie < 18446744073709551616
  | .subscribe _ s => s.InLimits
  | .unsubscribe _ _ => True
  | .enqueue _ e => e.InLimits ∧ e.id = 0 ∧ e.isPub = true
  | .deliver c pids now => sessionExists st.g c = true ∧ (∀ p ∈ pids, p ≠ 0 ∧ p < 65536) ∧ now + ie < 18446744073709551616
  | .ack _ _ => True
  | .pubrec _ pid now => pid ≠ 0 ∧ pid < 65536 ∧ now < 18446744073709551616
  | .recvQos2 _ pid => pid < 4294967296
  | .pubrel _ pid => pid < 4294967296
  | .setExpiry _ n => n < 4294967296
  | .terminate _ => True

def ValidHist (ie : Nat) (st : HSt) : List HOp → Prop
  | [] => True
  | op :: ops => ValidOp ie st op ∧ ValidHist ie (hstep ie st op) ops

/-! ### well-formed commands -/

theorem good_fold (cs : List DCmd) (g : DStore) (hg : GoodStore g) (hc : ∀ d ∈ cs, d.Good) : GoodStore (dfold g cs) := by
  induction cs generalizing g with
  | nil => exact hg
  | cons d cs ih =>
    exact ih _ (good_step g d hg (hc d (by simp))) (fun x hx => hc x (by simp [hx]))

theorem withId_inLimits (e : Elem) (p : Nat) (he : e.InLimits) (hp : p < 65536) : (e.withId p).InLimits := by
  obtain ⟨a, x, b⟩ := e
  obtain ⟨h1, h2, h3⟩ := he
  cases b with
  | publish m =>
    refine ⟨h1, h2, ?_⟩
    simp only [Elem.withId]
    exact ⟨h3.topic, h3.payload, hp, h3.contentType, h3.correlationData, h3.messageExpiry, h3.responseTopic, h3.subIds, h3.userProps⟩
  | pubrel id => exact ⟨h1, h2, hp⟩

theorem setExpiry_inLimits (e : Elem) (x : Nat) (he : e.InLimits) (hx : x < 18446744073709551616) :
    ({ e with expiry := x } : Elem).InLimits := by
  obtain ⟨h1, _, h3⟩ := he
  exact ⟨h1, hx, h3⟩

theorem assign_inLimits (e : Elem) (p now ie : Nat) (he : e.InLimits) (hp : p < 65536) (hn : now + ie < 18446744073709551616) :
    (assignElem e p now ie).InLimits := by
  simp only [assignElem]
  split
  · exact setExpiry_inLimits _ _ (withId_inLimits e p he hp) hn
  · exact withId_inLimits e p he hp

theorem sessHash_good (s : Session) (c : Bytes) (hid : s.id = c) (hw : ∀ m, s.will = some m → m.InLimits)
    (h1 : s.willDelay < 4294967296) (h2 : s.connectedAt < 4294967296) (h3 : s.expiry < 4294967296) :
    ∀ p ∈ sessHash s, GoodSessField c p.1 p.2 := by
  intro p hp
  simp only [sessHash, List.mem_cons, List.mem_singleton, List.not_mem_nil, or_false] at hp
  rcases hp with hp | hp | hp | hp | hp <;> subst hp <;> refine ⟨?_, ?_, ?_, ?_, ?_⟩ <;> intro hf <;>
    first
    | exact hid
    | exact ⟨_, decodeMessageOpt_encodeMessageOpt s.will hw⟩
    | exact ⟨_, decToU32_natToDec _ h1⟩
    | exact ⟨_, decToU32_natToDec _ h2⟩
    | exact ⟨_, decToU32_natToDec _ h3⟩
    | (simp only [] at hf; exact absurd hf (by decide))

theorem expiryField_good (c : Bytes) (n : Nat) (h : n < 4294967296) : GoodSessField c fExpiry (natToDec n) := by
  refine ⟨?_, ?_, ?_, ?_, ?_⟩ <;> intro hf <;>
    first
    | exact ⟨_, decToU32_natToDec _ h⟩
    | exact absurd hf (by decide)

theorem refreshCmds_good (c : Bytes) (ie now : Nat) (es : List Elem) (i : Nat) (hes : ∀ e ∈ es, e.InLimits)
    (hn : now + ie < 18446744073709551616) : ∀ d ∈ refreshCmds c ie now es i, d.Good := by
  induction es generalizing i with
  | nil => simp [refreshCmds]
  | cons e es ih =>
    intro d hd
    simp only [refreshCmds] at hd
    split at hd
    · simp only [List.mem_append] at hd
      rcases hd with hd | hd
      · split at hd
        · simp only [List.mem_singleton] at hd
          rw [hd]
          exact setExpiry_inLimits e _ (hes e (by simp)) hn
        · simp at hd
      · exact ih _ (fun x hx => hes x (by simp [hx])) d hd
    · simp at hd

theorem deliverCmds_good (c : Bytes) (ie now : Nat) (es : List Elem) (pids : List Nat) (cur : Nat)
    (hes : ∀ e ∈ es, e.InLimits) (hp : ∀ p ∈ pids, p ≠ 0 ∧ p < 65536) (hn : now + ie < 18446744073709551616) :
    ∀ d ∈ deliverCmds c ie now es pids cur, d.Good := by
  induction es generalizing pids cur with
  | nil => simp [deliverCmds]
  | cons e es ih =>
    intro d hd
    simp only [deliverCmds] at hd
    split at hd
    · simp only [List.mem_cons] at hd
      rcases hd with hd | hd
      · rw [hd]; exact hes e (by simp)
      · exact ih _ _ (fun x hx => hes x (by simp [hx])) hp d hd
    · cases pids with
      | nil => simp at hd
      | cons p ps =>
        simp only [List.mem_cons] at hd
        rcases hd with hd | hd
        · rw [hd]
          exact assign_inLimits e p now ie (hes e (by simp)) (hp p (by simp)).2 hn
        · exact ih _ _ (fun x hx => hes x (by simp [hx])) (fun q hq => hp q (by simp [hq])) d hd

theorem findById_mem (pid : Nat) (l : List Elem) (e : Elem) (h : findById pid l = some e) : e ∈ l ∧ e.id = pid := by
  induction l with
  | nil => simp [findById] at h
  | cons x l ih =>
    simp only [findById] at h
    split at h
    · rename_i hx
      cases h
      exact ⟨by simp, hx⟩
    · exact ⟨List.mem_cons_of_mem _ (ih h).1, (ih h).2⟩

/-- every command of a valid step is well-formed -/
theorem cmds_good (ie : Nat) (st : HSt) (op : HOp) (hi : HInv st) (hv : ValidOp ie st op) : ∀ d ∈ op.cmds ie st, d.Good := by
  intro d hd
  cases op with
  | connect c clean s now =>
    obtain ⟨hid, hw, h1, h2, h3, hn⟩ := hv
    simp only [HOp.cmds, HOp.run] at hd
    split at hd
    · simp only [List.mem_cons] at hd
      rcases hd with hd | hd
      · rw [hd]; exact sessHash_good s c hid hw h1 h2 h3
      · exact refreshCmds_good c ie now _ 0 (hi.good c).queue hn d hd
    · simp only [List.mem_append, List.mem_cons, List.mem_singleton] at hd
      rcases hd with hd | hd
      · split at hd
        · simp only [removalCmds, List.mem_cons, List.mem_singleton] at hd
          rcases hd with hd | hd | hd | hd <;> first | (rw [hd]; trivial) | simp at hd
        · simp at hd
      · rcases hd with hd | hd | hd | hd | hd
        · rw [hd]; trivial
        · rw [hd]; trivial
        · rw [hd]; trivial
        · rw [hd]; exact sessHash_good s c hid hw h1 h2 h3
        · simp at hd
  | subscribe c s => simp only [HOp.cmds, HOp.run, List.mem_singleton] at hd; rw [hd]; exact hv
  | unsubscribe c t => simp only [HOp.cmds, HOp.run, List.mem_singleton] at hd; rw [hd]; trivial
  | enqueue c e => simp only [HOp.cmds, HOp.run, List.mem_singleton] at hd; rw [hd]; exact hv.1
  | deliver c pids now =>
    simp only [HOp.cmds, HOp.run] at hd
    refine deliverCmds_good c ie now _ _ _ ?_ hv.2.1 hv.2.2 d hd
    intro e he
    exact (hi.good c).queue e (List.mem_of_mem_drop (List.mem_of_mem_take he))
  | ack c pid =>
    simp only [HOp.cmds, HOp.run] at hd
    split at hd
    · rename_i e he
      simp only [List.mem_singleton] at hd
      rw [hd]
      exact (hi.good c).queue e (List.mem_of_mem_take (findById_mem pid _ e he).1)
    · simp at hd
  | pubrec c pid now =>
    simp only [HOp.cmds, HOp.run] at hd
    split at hd
    · simp only [List.mem_singleton] at hd
      rw [hd]
      exact ⟨hv.2.2, by simp [zeroTime], hv.2.1⟩
    · simp at hd
  | recvQos2 c pid =>
    simp only [HOp.cmds, HOp.run] at hd
    split at hd
    · simp at hd
    · simp only [List.mem_singleton] at hd; rw [hd]; exact hv
  | pubrel c pid => simp only [HOp.cmds, HOp.run, List.mem_singleton] at hd; rw [hd]; exact hv
  | setExpiry c n =>
    simp only [HOp.cmds, HOp.run, List.mem_singleton] at hd
    rw [hd]
    intro p hp
    simp only [List.mem_singleton] at hp
    rw [hp]
    exact expiryField_good c n hv
  | terminate c =>
    simp only [HOp.cmds, HOp.run, removalCmds, List.mem_cons, List.mem_singleton] at hd
    rcases hd with hd | hd | hd | hd <;> first | (rw [hd]; trivial) | simp at hd

/-! ### queue-only command lists -/

/-- effect of a command on the queue component -/
def qstep (q : List Elem) : DCmd → List Elem
  | .push _ e => q ++ [e]
  | .lset _ i e => q.set i e
  | .lrem1 _ e => q.erase e
  | .delKey .queue _ => []
  | _ => q

def IsQueueCmd : DCmd → Prop
  | .push _ _ | .lset _ _ _ | .lrem1 _ _ => True
  | _ => False

theorem cstep_queueCmds (cs : List DCmd) (d : DClient) (h : ∀ x ∈ cs, IsQueueCmd x) :
    cstep d cs = { d with queue := cs.foldl qstep d.queue } := by
  induction cs generalizing d with
  | nil => rfl
  | cons x cs ih =>
    have hx := h x (by simp)
    simp only [cstep, List.foldl_cons] at ih ⊢
    rw [ih _ (fun y hy => h y (by simp [hy]))]
    cases x <;> simp_all [IsQueueCmd, DClient.step, qstep]

theorem refreshCmds_isQueue (c : Bytes) (ie now : Nat) (es : List Elem) (i : Nat) : ∀ d ∈ refreshCmds c ie now es i, IsQueueCmd d := by
  induction es generalizing i with
  | nil => simp [refreshCmds]
  | cons e es ih =>
    intro d hd
    simp only [refreshCmds] at hd
    split at hd
    · simp only [List.mem_append] at hd
      rcases hd with hd | hd
      · split at hd
        · simp only [List.mem_singleton] at hd; rw [hd]; trivial
        · simp at hd
      · exact ih _ d hd
    · simp at hd

theorem deliverCmds_isQueue (c : Bytes) (ie now : Nat) (es : List Elem) (pids : List Nat) (cur : Nat) :
    ∀ d ∈ deliverCmds c ie now es pids cur, IsQueueCmd d := by
  induction es generalizing pids cur with
  | nil => simp [deliverCmds]
  | cons e es ih =>
    intro d hd
    simp only [deliverCmds] at hd
    split at hd
    · simp only [List.mem_cons] at hd
      rcases hd with hd | hd
      · rw [hd]; trivial
      · exact ih _ _ d hd
    · cases pids with
      | nil => simp at hd
      | cons p ps =>
        simp only [List.mem_cons] at hd
        rcases hd with hd | hd
        · rw [hd]; trivial
        · exact ih _ _ d hd

/-! ### the replay (`ReadInflight`) only rewrites expiry times -/

/-- every command is `lset i e'` where `e'` has the body that position `i` already has -/
def BodyKeeping (bs : List Body) (cs : List DCmd) : Prop :=
  ∀ d ∈ cs, ∃ c i e', d = DCmd.lset c i e' ∧ ∀ b, bs[i]? = some b → e'.body = b

theorem fold_bodyKeeping (cs : List DCmd) (q : List Elem) (h : BodyKeeping (q.map (·.body)) cs) :
    (cs.foldl qstep q).map (·.body) = q.map (·.body) := by
  induction cs generalizing q with
  | nil => rfl
  | cons d cs ih =>
    obtain ⟨c, i, e', hd, hb⟩ := h d (by simp)
    subst hd
    have hq : (q.set i e').map (·.body) = q.map (·.body) := by
      rw [List.map_set]
      apply List.ext_getElem?
      intro n
      by_cases hn : n = i
      · subst hn
        by_cases hlt : n < (q.map (·.body)).length
        · rw [List.getElem?_set_self hlt]
          have := hb _ (List.getElem?_eq_getElem hlt)
          rw [this, List.getElem?_eq_getElem hlt]
        · rw [List.getElem?_eq_none (by simp at hlt ⊢; omega), List.getElem?_eq_none (by simp at hlt ⊢; omega)]
      · rw [List.getElem?_set_ne (Ne.symm hn)]
    simp only [List.foldl_cons, qstep]
    rw [ih _ (by rw [hq]; exact fun x hx => h x (by simp [hx])), hq]

theorem refreshCmds_bodyKeeping (c : Bytes) (ie now : Nat) (es pre : List Elem) :
    BodyKeeping ((pre ++ es).map (·.body)) (refreshCmds c ie now es pre.length) := by
  induction es generalizing pre with
  | nil => intro d hd; simp [refreshCmds] at hd
  | cons e es ih =>
    intro d hd
    simp only [refreshCmds] at hd
    split at hd
    · simp only [List.mem_append] at hd
      rcases hd with hd | hd
      · split at hd
        · simp only [List.mem_singleton] at hd
          refine ⟨c, pre.length, _, hd, ?_⟩
          intro b hb
          simp at hb
          exact hb
        · simp at hd
      · have := ih (pre ++ [e])
        simp only [List.length_append, List.length_singleton, List.append_assoc, List.singleton_append] at this
        exact this d hd
    · simp at hd

theorem take_bodyKeeping (bs : List Body) (cs : List DCmd) (j : Nat) (h : BodyKeeping bs cs) : BodyKeeping bs (cs.take j) :=
  fun d hd => h d (List.mem_of_mem_take hd)

/-! ### the `Read` pipeline, command by command -/

/-- identity of a message: its body without the packet id -/
def msgKey (e : Elem) : Body := (e.withId 0).body

/-- the QoS>0 messages of a queue, in order -/
def owed (q : List Elem) : List Body := (q.filter (fun e => e.qos != 0)).map msgKey

theorem assign_props (e : Elem) (p now ie : Nat) :
    (assignElem e p now ie).id = p ∧ (assignElem e p now ie).qos = e.qos ∧ msgKey (assignElem e p now ie) = msgKey e ∧
    (assignElem e p now ie).isPub = e.isPub := by
  obtain ⟨a, x, b⟩ := e
  cases b <;> simp only [assignElem] <;> split <;> simp [Elem.withId, Elem.id, Elem.qos, msgKey, Elem.isPub]

theorem set_length_append (X : List Elem) (e e' : Elem) (rest : List Elem) :
    (X ++ e :: rest).set X.length e' = X ++ e' :: rest := by
  induction X with
  | nil => rfl
  | cons x X ih => simp [ih]

theorem owed_append (a b : List Elem) : owed (a ++ b) = owed a ++ owed b := by
  simp [owed, List.filter_append]

theorem deliver_fold (c : Bytes) (ie now : Nat) : ∀ (batch : List Elem) (pids : List Nat) (X tail : List Elem) (j : Nat),
    (∀ x ∈ X, x.id ≠ 0) → (∀ e ∈ batch, e.id = 0 ∧ e.isPub = true) → (∀ p ∈ pids, p ≠ 0) → batch.length ≤ pids.length →
    ∃ X' B', ((deliverCmds c ie now batch pids X.length).take j).foldl qstep (X ++ batch ++ tail) = X' ++ B' ++ tail ∧
      (∀ x ∈ X', x.id ≠ 0) ∧ (∀ e ∈ B', e.id = 0 ∧ e.isPub = true) ∧ owed (X' ++ B') = owed (X ++ batch) ∧
      ((deliverCmds c ie now batch pids X.length).length ≤ j → B' = [] ∧ X'.length = X.length + deliverCount batch pids) := by
  intro batch
  induction batch with
  | nil =>
    intro pids X tail j hX _ _ _
    exact ⟨X, [], by simp [deliverCmds], hX, by simp, rfl, fun _ => ⟨rfl, by simp [deliverCount]⟩⟩
  | cons e es ih =>
    intro pids X tail j hX hB hP hlen
    have he := hB e (by simp)
    have hes : ∀ x ∈ es, x.id = 0 ∧ x.isPub = true := fun x hx => hB x (by simp [hx])
    cases j with
    | zero =>
      refine ⟨X, e :: es, by simp, hX, hB, rfl, ?_⟩
      intro hl
      exfalso
      simp only [deliverCmds] at hl
      split at hl
      · simp at hl
      · cases pids with
        | nil => simp at hlen
        | cons p ps => simp at hl
    | succ j =>
      by_cases hq : (e.qos == 0) = true
      · -- QoS 0: LREM by value removes exactly this entry (no entry in front of the cursor equals it: their ids differ)
        have hnot : e ∉ X := fun hm => hX e hm he.1
        have hstep : qstep (X ++ (e :: es) ++ tail) (DCmd.lrem1 c e) = X ++ es ++ tail := by
          simp only [qstep, List.append_assoc]
          rw [List.erase_append_right _ hnot]
          simp
        obtain ⟨X', B', h1, h2, h3, h4, h5⟩ := ih pids X tail j hX hes hP (by simp at hlen; omega)
        refine ⟨X', B', ?_, h2, h3, ?_, ?_⟩
        · simp only [deliverCmds, hq, if_true, List.take_succ_cons, List.foldl_cons, hstep]
          exact h1
        · rw [h4]
          have hf : (e.qos != 0) = false := by simp at hq ⊢; exact hq
          simp [owed_append, owed, List.filter_cons, hf]
        · intro hl
          simp only [deliverCmds, hq, if_true, List.length_cons] at hl
          have := h5 (by omega)
          simpa [deliverCount, hq] using this
      · cases pids with
        | nil => simp at hlen
        | cons p ps =>
          have hp := hP p (by simp)
          have hq' : (e.qos == 0) = false := Bool.eq_false_iff.mpr hq
          obtain ⟨a1, a2, a3, a4⟩ := assign_props e p now ie
          have hstep : qstep (X ++ (e :: es) ++ tail) (DCmd.lset c X.length (assignElem e p now ie)) =
              (X ++ [assignElem e p now ie]) ++ es ++ tail := by
            simp only [qstep, List.append_assoc, List.cons_append]
            rw [set_length_append]
            simp
          have hX' : ∀ x ∈ X ++ [assignElem e p now ie], x.id ≠ 0 := by
            intro x hx
            simp only [List.mem_append, List.mem_singleton] at hx
            rcases hx with hx | hx
            · exact hX x hx
            · rw [hx, a1]; exact hp
          obtain ⟨X', B', h1, h2, h3, h4, h5⟩ := ih ps (X ++ [assignElem e p now ie]) tail j hX' hes
            (fun q hq' => hP q (by simp [hq'])) (by simp at hlen ⊢; omega)
          simp only [List.length_append, List.length_singleton] at h1 h5
          refine ⟨X', B', ?_, h2, h3, ?_, ?_⟩
          · simp only [deliverCmds, hq', Bool.false_eq_true, if_false, List.take_succ_cons, List.foldl_cons, hstep]
            exact h1
          · rw [h4]
            have hf : (e.qos != 0) = true := by simp at hq ⊢; exact hq
            have hf' : ((assignElem e p now ie).qos != 0) = true := by rw [a2]; exact hf
            simp [owed_append, owed, List.filter_cons, hf, hf', a3]
          · intro hl
            simp only [deliverCmds, hq', Bool.false_eq_true, if_false, List.length_cons] at hl
            have := h5 (by omega)
            refine ⟨this.1, ?_⟩
            rw [this.2]
            simp only [deliverCount, hq', Bool.false_eq_true, if_false]
            omega

/-! ### the stored session hash parses back to the session -/

theorem parsedSess_sessHash (l : List (Bytes × Bytes)) (s : Session) (hw : ∀ m, s.will = some m → m.InLimits)
    (h1 : s.willDelay < 4294967296) (h2 : s.connectedAt < 4294967296) (h3 : s.expiry < 4294967296) :
    parsedSess (upsertMany l (sessHash s)) = .ok (some s) := by
  have e1 : fWill ≠ fClientId := by decide
  have e2 : fWillDelay ≠ fClientId := by decide
  have e3 : fConnectedAt ≠ fClientId := by decide
  have e4 : fExpiry ≠ fClientId := by decide
  have e5 : fWillDelay ≠ fWill := by decide
  have e6 : fConnectedAt ≠ fWill := by decide
  have e7 : fExpiry ≠ fWill := by decide
  have e8 : fConnectedAt ≠ fWillDelay := by decide
  have e9 : fExpiry ≠ fWillDelay := by decide
  have e10 : fExpiry ≠ fConnectedAt := by decide
  simp only [parsedSess, sessFields, List.map_cons, List.map_nil, sessHash, upsertMany, hfind_upsert,
    e1, e2, e3, e4, e5, e6, e7, e8, e9, e10, Ne.symm e1, Ne.symm e2, Ne.symm e3, Ne.symm e4, Ne.symm e5, Ne.symm e6,
    Ne.symm e7, Ne.symm e8, Ne.symm e9, Ne.symm e10, if_true, if_false, parseSession, scanU32,
    decToU32_natToDec _ h1, decToU32_natToDec _ h2, decToU32_natToDec _ h3, Option.getD_some,
    decodeMessageOpt_encodeMessageOpt s.will hw]

theorem parsedSess_nil : parsedSess [] = .ok none := by
  simp [parsedSess, sessFields, parseSession, hfind]

theorem sessionExists_iff (g : DStore) (c : Bytes) : sessionExists g c = true ↔ ∃ s, parsedSess (g c).sess = .ok (some s) := by
  simp only [sessionExists, parsedSess]
  split <;> simp_all

theorem clientView_eq_none_of_not_exists (g : DStore) (c : Bytes) (h : sessionExists g c = false) : clientView g c = none := by
  simp only [clientView]
  split
  · rename_i s hs
    have : sessionExists g c = true := (sessionExists_iff g c).mpr ⟨s, hs⟩
    rw [h] at this
    exact absurd this (by decide)
  · rfl

theorem clientView_congr (g g' : DStore) (c : Bytes) (h : g' c = g c) : clientView g' c = clientView g c := by
  simp [clientView, h]

/-! ### the queue discipline -/

theorem qinv_iff (q : List Elem) (cur : Nat) :
    QInv q cur ↔ ∃ I U, q = I ++ U ∧ I.length = cur ∧ (∀ e ∈ I, e.id ≠ 0) ∧ (∀ e ∈ U, e.id = 0 ∧ e.isPub = true) := by
  constructor
  · intro ⟨h1, h2, h3⟩
    exact ⟨q.take cur, q.drop cur, (List.take_append_drop cur q).symm, by simp [List.length_take]; omega, h2, h3⟩
  · intro ⟨I, U, hq, hl, h2, h3⟩
    subst hq
    subst hl
    refine ⟨by simp, ?_, ?_⟩
    · simpa using h2
    · simpa using h3

theorem inflightLen_append (I U : List Elem) (hI : ∀ e ∈ I, e.id ≠ 0) (hU : ∀ e ∈ U, e.id = 0 ∧ e.isPub = true) :
    inflightLen (I ++ U) = I.length := by
  induction I with
  | nil =>
    cases U with
    | nil => rfl
    | cons u U =>
      have := (hU u (by simp)).1
      simp [inflightLen, this]
  | cons x I ih =>
    have hx := hI x (by simp)
    simp only [List.cons_append, inflightLen, List.length_cons]
    have : (x.id != 0) = true := by simp [hx]
    simp only [this, if_true]
    rw [ih (fun e he => hI e (by simp [he]))]

theorem qinv_bodies (q q' : List Elem) (cur : Nat) (hb : q'.map (·.body) = q.map (·.body)) (h : QInv q cur) : QInv q' cur := by
  obtain ⟨h1, h2, h3⟩ := h
  have hlen : q'.length = q.length := by
    have := congrArg List.length hb
    simpa using this
  refine ⟨by omega, ?_, ?_⟩
  · intro e he
    have hm : e.body ∈ (q'.take cur).map (·.body) := List.mem_map.mpr ⟨e, he, rfl⟩
    rw [List.map_take, hb, ← List.map_take] at hm
    obtain ⟨x, hx, hxe⟩ := List.mem_map.mp hm
    have := h2 x hx
    rw [id_eq_bodyId] at this ⊢
    rw [← hxe]
    exact this
  · intro e he
    have hm : e.body ∈ (q'.drop cur).map (·.body) := List.mem_map.mpr ⟨e, he, rfl⟩
    rw [List.map_drop, hb, ← List.map_drop] at hm
    obtain ⟨x, hx, hxe⟩ := List.mem_map.mp hm
    have := h3 x hx
    rw [id_eq_bodyId, isPub_eq] at this ⊢
    rw [← hxe]
    exact this

theorem indexById_spec (pid : Nat) (l : List Elem) (i0 k : Nat) (h : indexById pid l i0 = some k) :
    i0 ≤ k ∧ k < i0 + l.length := by
  induction l generalizing i0 with
  | nil => simp [indexById] at h
  | cons x l ih =>
    simp only [indexById] at h
    split at h
    · cases h; simp
    · have := ih (i0 + 1) h
      simp only [List.length_cons]
      omega

/-- the invariant is kept by every valid step -/
theorem hinv_step (ie : Nat) (st : HSt) (op : HOp) (hi : HInv st) (hv : ValidOp ie st op) : HInv (hstep ie st op) := by
  refine ⟨good_fold _ _ hi.good (cmds_good ie st op hi hv), ?_⟩
  intro c
  by_cases hc : c = op.cid
  · subst hc
    have hown : (hstep ie st op).g op.cid = cstep (st.g op.cid) (op.cmds ie st) := by
      have := take_cmds_own ie st op (op.cmds ie st).length
      simpa [hstep] using this
    have hq := hi.queue op.cid
    simp only [hstep, if_true] at hown ⊢
    rw [hown]
    cases op with
    | connect c clean s now =>
      simp only [HOp.cid] at hq ⊢
      simp only [HOp.cmds, HOp.run]
      split
      · -- resume
        obtain ⟨I, U, hqq, hl, hI, hU⟩ := (qinv_iff _ _).mp hq
        simp only [cstep, List.foldl_cons]
        have := cstep_queueCmds (refreshCmds c ie now (st.g c).queue 0) ((st.g c).step (.setSess c (sessHash s)))
          (refreshCmds_isQueue c ie now _ 0)
        simp only [cstep] at this
        rw [this]
        simp only [DClient.step]
        have hb := fold_bodyKeeping (refreshCmds c ie now (st.g c).queue 0) (st.g c).queue
          (by simpa using refreshCmds_bodyKeeping c ie now (st.g c).queue [])
        have hil : inflightLen (st.g c).queue = st.cur c := by rw [hqq, inflightLen_append I U hI hU, hl]
        rw [hil]
        exact qinv_bodies _ _ _ hb hq
      · split <;> simp [cstep, DClient.step, removalCmds, QInv]
    | subscribe c s => simpa [HOp.cmds, HOp.run, cstep, DClient.step, HOp.cid] using hq
    | unsubscribe c t => simpa [HOp.cmds, HOp.run, cstep, DClient.step, HOp.cid] using hq
    | enqueue c e =>
      simp only [HOp.cid] at hq ⊢
      simp only [HOp.cmds, HOp.run, cstep, List.foldl_cons, List.foldl_nil, DClient.step]
      obtain ⟨I, U, hqq, hl, hI, hU⟩ := (qinv_iff _ _).mp hq
      rw [qinv_iff]
      refine ⟨I, U ++ [e], by rw [hqq, List.append_assoc], hl, hI, ?_⟩
      intro x hx
      simp only [List.mem_append, List.mem_singleton] at hx
      rcases hx with hx | hx
      · exact hU x hx
      · rw [hx]; exact hv.2
    | deliver c pids now =>
      simp only [HOp.cid] at hq ⊢
      simp only [HOp.cmds, HOp.run]
      obtain ⟨I, U, hqq, hl, hI, hU⟩ := (qinv_iff _ _).mp hq
      rw [cstep_queueCmds _ _ (deliverCmds_isQueue c ie now _ _ _)]
      simp only []
      have hdrop : (st.g c).queue.drop (st.cur c) = U := by rw [hqq, ← hl]; simp
      rw [hdrop]
      have hsplit : (st.g c).queue = I ++ U.take pids.length ++ U.drop pids.length := by
        rw [hqq, List.append_assoc, List.take_append_drop]
      obtain ⟨X', B', h1, h2, h3, h4, h5⟩ := deliver_fold c ie now (U.take pids.length) pids I (U.drop pids.length)
        (deliverCmds c ie now (U.take pids.length) pids I.length).length hI
        (fun e he => hU e (List.mem_of_mem_take he)) (fun p hp => (hv.2.1 p hp).1) (by simp [List.length_take]; omega)
      rw [List.take_length] at h1
      obtain ⟨hB, hX⟩ := h5 (Nat.le_refl _)
      subst hB
      rw [← hl, hsplit, h1, qinv_iff]
      refine ⟨X', U.drop pids.length, by simp, by rw [hX], h2, fun e he => hU e (List.mem_of_mem_drop he)⟩
    | ack c pid =>
      simp only [HOp.cid] at hq ⊢
      simp only [HOp.cmds, HOp.run]
      split
      · rename_i e he
        obtain ⟨I, U, hqq, hl, hI, hU⟩ := (qinv_iff _ _).mp hq
        have htake : (st.g c).queue.take (st.cur c) = I := by rw [hqq, ← hl]; simp
        rw [htake] at he
        have hm := (findById_mem pid I e he).1
        simp only [cstep, List.foldl_cons, List.foldl_nil, DClient.step]
        rw [qinv_iff]
        refine ⟨I.erase e, U, by rw [hqq, List.erase_append_left _ hm], ?_, ?_, hU⟩
        · rw [List.length_erase_of_mem hm, hl]
        · intro x hx
          exact hI x (List.mem_of_mem_erase hx)
      · simpa [cstep] using hq
    | pubrec c pid now =>
      simp only [HOp.cid] at hq ⊢
      simp only [HOp.cmds, HOp.run]
      split
      · rename_i k hk
        obtain ⟨I, U, hqq, hl, hI, hU⟩ := (qinv_iff _ _).mp hq
        have htake : (st.g c).queue.take (st.cur c) = I := by rw [hqq, ← hl]; simp
        rw [htake] at hk
        have hlt := (indexById_spec pid I 0 k hk).2
        simp only [cstep, List.foldl_cons, List.foldl_nil, DClient.step]
        rw [qinv_iff]
        refine ⟨I.set k { atTime := now, expiry := zeroTime, body := .pubrel pid }, U, ?_, by simp [hl], ?_, hU⟩
        · rw [hqq, List.set_append_left _ _ (by omega)]
        · intro x hx
          rcases List.mem_or_eq_of_mem_set hx with h | h
          · exact hI x h
          · rw [h]; exact hv.1
      · simpa [cstep] using hq
    | recvQos2 c pid =>
      simp only [HOp.cid] at hq ⊢
      simp only [HOp.cmds, HOp.run]
      split <;> simpa [cstep, DClient.step] using hq
    | pubrel c pid => simpa [HOp.cmds, HOp.run, cstep, DClient.step, HOp.cid] using hq
    | setExpiry c n => simpa [HOp.cmds, HOp.run, cstep, DClient.step, HOp.cid] using hq
    | terminate c => simp [HOp.cmds, HOp.run, cstep, DClient.step, removalCmds, QInv]
  · have : (hstep ie st op).g c = st.g c := by
      have := take_cmds_other ie st op (op.cmds ie st).length c hc
      simpa [hstep] using this
    simp only [hstep, hc, if_false] at this ⊢
    rw [this]
    exact hi.queue c

/-! ### a crash strictly inside a step -/

/-- what a restart shows for one client, from its decoded keys -/
def cview (d : DClient) : Option Recovered :=
  match parsedSess d.sess with
  | .ok (some s) => some { sess := s, subs := d.subs, queue := d.queue, unack := d.unack.map natToDec }
  | _ => none

theorem clientView_eq_cview (g : DStore) (c : Bytes) : clientView g c = cview (g c) := rfl

/-- the replay rewrites expiry times only -/
def SameBodies (q q' : List Elem) : Prop := q'.map (·.body) = q.map (·.body)

/-- What a restarted broker may show for the client of a step when the previous process died strictly inside that step
    (after at least one and before the last of its write commands). Only three kinds of step issue more than one command:

    * `connect` that creates a session (after removing an old one on Clean Start) and `terminate`: no session at all —
      the session record is deleted first and written last, so nothing half-built or half-removed is ever visible;
    * `connect` that resumes: the session with its new record, the same subscriptions and unack ids, and a queue that
      differs from the old one in expiry times only;
    * `deliver` (the `Read` pipeline): the same session, subscriptions, unack ids, and a queue that still holds every
      QoS>0 message (`owed`: their bodies, packet ids aside, in order) — only QoS 0 messages have been taken out. -/
def Interior (st : HSt) (op : HOp) (v : Option Recovered) : Prop :=
  match op with
  | .connect c clean s _ =>
    if sessionExists st.g c && !clean then
      ∃ old r, clientView st.g c = some old ∧ v = some r ∧ r.sess = s ∧ r.subs = old.subs ∧ r.unack = old.unack ∧
        SameBodies old.queue r.queue
    else v = none
  | .terminate _ => v = none
  | .deliver c _ _ =>
    ∃ old r, clientView st.g c = some old ∧ v = some r ∧ r.sess = old.sess ∧ r.subs = old.subs ∧ r.unack = old.unack ∧
      owed r.queue = owed old.queue
  | _ => False

theorem cview_sess_nil (d : DClient) (h : d.sess = []) : cview d = none := by
  simp [cview, h, parsedSess_nil]

theorem interior (ie : Nat) (st : HSt) (op : HOp) (j : Nat) (hi : HInv st) (hv : ValidOp ie st op)
    (h0 : 0 < j) (hj : j < (op.cmds ie st).length) :
    Interior st op (clientView (dfold st.g ((op.cmds ie st).take j)) op.cid) := by
  rw [clientView_eq_cview, take_cmds_own]
  cases op with
  | connect c clean s now =>
    obtain ⟨hid, hw, h1, h2, h3, hn⟩ := hv
    simp only [HOp.cid, Interior]
    simp only [HOp.cmds, HOp.run] at hj ⊢
    by_cases hres : (sessionExists st.g c && !clean) = true
    · simp only [hres, if_true] at hj ⊢
      obtain ⟨s0, hs0⟩ := (sessionExists_iff st.g c).mp (by simp at hres; exact hres.1)
      cases j with
      | zero => omega
      | succ j =>
        simp only [List.take_succ_cons, cstep, List.foldl_cons]
        have hq := cstep_queueCmds ((refreshCmds c ie now (st.g c).queue 0).take j) ((st.g c).step (.setSess c (sessHash s)))
          (fun x hx => refreshCmds_isQueue c ie now _ 0 x (List.mem_of_mem_take hx))
        simp only [cstep] at hq
        rw [hq]
        simp only [DClient.step, cview, parsedSess_sessHash _ s hw h1 h2 h3]
        refine ⟨{ sess := s0, subs := (st.g c).subs, queue := (st.g c).queue, unack := (st.g c).unack.map natToDec }, _,
          by simp only [clientView, hs0], rfl, rfl, rfl, rfl, ?_⟩
        exact fold_bodyKeeping _ _ (take_bodyKeeping _ _ j (by simpa using refreshCmds_bodyKeeping c ie now (st.g c).queue []))
    · have hres' : (sessionExists st.g c && !clean) = false := by simpa using hres
      simp only [hres', Bool.false_eq_true, if_false] at hj ⊢
      by_cases hex : sessionExists st.g c = true
      · simp only [hex, if_true, removalCmds, List.cons_append, List.nil_append, List.length_cons, List.length_nil] at hj ⊢
        apply cview_sess_nil
        have : j = 1 ∨ j = 2 ∨ j = 3 ∨ j = 4 ∨ j = 5 ∨ j = 6 := by omega
        rcases this with h | h | h | h | h | h <;> subst h <;> simp [cstep, DClient.step]
      · have hex' : sessionExists st.g c = false := by simpa using hex
        simp only [hex', Bool.false_eq_true, if_false, List.nil_append, List.length_cons, List.length_nil] at hj ⊢
        have hne : ∀ s', parsedSess (st.g c).sess ≠ .ok (some s') := by
          intro s' hs'
          have := (sessionExists_iff st.g c).mpr ⟨s', hs'⟩
          rw [hex'] at this
          exact absurd this (by decide)
        have hsame : (cstep (st.g c) (List.take j [DCmd.delKey Fam.sub c, DCmd.delKey Fam.queue c, DCmd.delKey Fam.unack c,
            DCmd.setSess c (sessHash s)])).sess = (st.g c).sess := by
          have : j = 1 ∨ j = 2 ∨ j = 3 := by omega
          rcases this with h | h | h <;> subst h <;> simp [cstep, DClient.step]
        have hgoal : cview (cstep (st.g c) (List.take j [DCmd.delKey Fam.sub c, DCmd.delKey Fam.queue c, DCmd.delKey Fam.unack c,
            DCmd.setSess c (sessHash s)])) = none := by
          unfold cview
          rw [hsame]
          split
          · rename_i s' hs'
            exact absurd hs' (hne s')
          · rfl
        exact hgoal
  | terminate c =>
    simp only [HOp.cid, Interior]
    simp only [HOp.cmds, HOp.run, removalCmds, List.length_cons, List.length_nil] at hj ⊢
    apply cview_sess_nil
    have : j = 1 ∨ j = 2 := by omega
    rcases this with h | h <;> subst h <;> simp [cstep, DClient.step]
  | deliver c pids now =>
    obtain ⟨hex, hp, hn⟩ := hv
    simp only [HOp.cid, Interior]
    simp only [HOp.cmds, HOp.run] at hj ⊢
    obtain ⟨s0, hs0⟩ := (sessionExists_iff st.g c).mp hex
    obtain ⟨I, U, hqq, hl, hI, hU⟩ := (qinv_iff _ _).mp (hi.queue c)
    rw [cstep_queueCmds _ _ (fun x hx => deliverCmds_isQueue c ie now _ _ _ x (List.mem_of_mem_take hx))]
    have hdrop : (st.g c).queue.drop (st.cur c) = U := by rw [hqq, ← hl]; simp
    rw [hdrop]
    have hsplit : (st.g c).queue = I ++ U.take pids.length ++ U.drop pids.length := by
      rw [hqq, List.append_assoc, List.take_append_drop]
    obtain ⟨X', B', e1, _, _, e4, _⟩ := deliver_fold c ie now (U.take pids.length) pids I (U.drop pids.length) j hI
      (fun e he => hU e (List.mem_of_mem_take he)) (fun p hp' => (hp p hp').1) (by simp [List.length_take]; omega)
    simp only [cview, hs0]
    refine ⟨{ sess := s0, subs := (st.g c).subs, queue := (st.g c).queue, unack := (st.g c).unack.map natToDec }, _,
      by simp only [clientView, hs0], rfl, rfl, rfl, rfl, ?_⟩
    simp only []
    rw [← hl, hsplit, e1, owed_append, e4, ← owed_append]
  | subscribe c s => simp [HOp.cmds, HOp.run] at hj; omega
  | unsubscribe c t => simp [HOp.cmds, HOp.run] at hj; omega
  | enqueue c e => simp [HOp.cmds, HOp.run] at hj; omega
  | ack c pid =>
    simp only [HOp.cmds, HOp.run] at hj
    split at hj <;> simp at hj <;> omega
  | pubrec c pid now =>
    simp only [HOp.cmds, HOp.run] at hj
    split at hj <;> simp at hj <;> omega
  | recvQos2 c pid =>
    simp only [HOp.cmds, HOp.run] at hj
    split at hj <;> simp at hj <;> omega
  | pubrel c pid => simp [HOp.cmds, HOp.run] at hj; omega
  | setExpiry c n => simp [HOp.cmds, HOp.run] at hj; omega

/-! ### whole histories -/

theorem hist_good (ie : Nat) (h : List HOp) (st : HSt) (hi : HInv st) (hv : ValidHist ie st h) :
    (∀ d ∈ hcmds ie st h, d.Good) ∧
    ∀ h1 h2, h = h1 ++ h2 → HInv (hrun ie st h1) ∧ ValidHist ie (hrun ie st h1) h2 := by
  induction h generalizing st with
  | nil =>
    refine ⟨by simp [hcmds], ?_⟩
    intro h1 h2 he
    have : h1 = [] ∧ h2 = [] := by simpa using he.symm
    rw [this.1, this.2]
    exact ⟨hi, hv⟩
  | cons op h ih =>
    obtain ⟨hv1, hv2⟩ := hv
    have hi' := hinv_step ie st op hi hv1
    obtain ⟨ih1, ih2⟩ := ih (hstep ie st op) hi' hv2
    refine ⟨?_, ?_⟩
    · intro d hd
      simp only [hcmds, List.mem_append] at hd
      rcases hd with hd | hd
      · exact cmds_good ie st op hi hv1 d hd
      · exact ih1 d hd
    · intro h1 h2 he
      cases h1 with
      | nil =>
        simp only [List.nil_append] at he
        rw [← he]
        exact ⟨hi, hv1, hv2⟩
      | cons o h1 =>
        simp only [List.cons_append, List.cons.injEq] at he
        rw [← he.1]
        exact ih2 h1 h2 he.2

theorem hinv_empty : HInv {} := by
  refine ⟨good_empty, ?_⟩
  intro c
  simp [QInv, DStore.empty]

/-- what a restarted broker shows for client `c` -/
def viewOf (d : Durable) (c : Bytes) : Option Recovered := d.find? (fun r => r.sess.id == c)

theorem clientView_id (g : DStore) (hg : GoodStore g) (c : Bytes) (r : Recovered) (h : clientView g c = some r) : r.sess.id = c := by
  obtain ⟨r0, hr1, hr2⟩ := parsedSess_ok c _ (hg c).sess
  simp only [clientView, hr1] at h
  cases r0 with
  | none => simp at h
  | some s =>
    simp only [Option.some.injEq] at h
    rw [← h]
    exact hr2 s rfl

theorem viewOf_eq (d : Durable) (g : DStore) (hg : GoodStore g)
    (h1 : ∀ r, r ∈ d → ∃ c, clientView g c = some r ∧ r.sess.id = c) (h2 : ∀ c r, clientView g c = some r → r ∈ d) (c : Bytes) :
    viewOf d c = clientView g c := by
  cases hv : viewOf d c with
  | none =>
    cases hc : clientView g c with
    | none => rfl
    | some r =>
      exfalso
      have hm := h2 c r hc
      have hid := clientView_id g hg c r hc
      simp only [viewOf, List.find?_eq_none] at hv
      exact hv r hm (by simp [hid])
  | some r =>
    simp only [viewOf] at hv
    have hm := List.mem_of_find?_eq_some hv
    have hp := List.find?_some hv
    simp only [beq_iff_eq] at hp
    obtain ⟨c', hc', hid'⟩ := h1 r hm
    have : c' = c := by rw [← hid', hp]
    rw [← this, hc']

end GmqttVerif.RedisStores
